/-
  decompile_compile — the compiled form of a clause denotes its source term: same head arguments,
  same body goals in order (variable goals wrapped in call/1, `!` as the cut instruction), same
  variable sharing — for every encoding of every argument.

  STATEMENTS in this header section; the proofs follow.
-/
import PrologVerif.Model.Decompile
import PrologVerif.Proofs.DecompileLemmas
namespace PrologVerif.DecompileCompile
open PrologVerif PrologVerif.VM

mutual
  /-- encodings as the Go constructors build them: compounds have ≥ 1 argument, `list`/`charList`/
      `codeList` are non-empty, a `*partial`'s prefix is a `list`, `charList` or `codeList`
      (what `PartialList` and `append/3` on strings produce; other prefixes compile to `unsupported`) -/
  def WF : Rep → Bool
    | .compound _ args => args.length ≥ 1 && WFs args
    | .list elems => elems.length ≥ 1 && WFs elems
    | .charList s => !s.isEmpty
    | .codeList s => !s.isEmpty
    | .part pre tail =>
      (match pre with
        | .list elems => elems.length ≥ 1 && WFs elems
        | .charList s => !s.isEmpty
        | .codeList s => !s.isEmpty
        | _ => false) && WF tail
    | _ => true
  def WFs : RepList → Bool
    | .nil => true
    | .cons r rs => WF r && WFs rs
end

/-- the goal a body element denotes: a variable goal V is call(V) -/
def goalTerm : Rep → Term
  | .var v => .app "call" (.cons (.var v) .nil)
  | g => Rep.abs g

/-- the head is callable the way `assert`/`consult` accept it -/
def CallableHead : Rep → Bool
  | .atom _ => true
  | .compound _ _ => true
  | _ => false

/-- a body goal that `compilePred` accepts -/
def CallableGoal : Rep → Bool
  | .int _ => false
  | .flt _ => false
  | .str _ => false
  | _ => true

/-- **the statement**: for a rule `head :- body` -/
def RuleStatement : Prop :=
  ∀ (head body : Rep) (cs : List Clause),
    WF head = true → WF body = true → CallableHead head = true →
    compile (.compound ":-" (.cons head (.cons body .nil))) = .ok cs →
    cs.length = (altBodies body).length ∧
    ∀ (i : Nat) (c : Clause) (alt : Rep), cs[i]? = some c → (altBodies body)[i]? = some alt →
      decompile c = some (Rep.abs head, (seqGoals alt).map goalTerm) ∧
      c.raw = Rep.abs (.compound ":-" (.cons head (.cons body .nil)))

/-- for a fact -/
def FactStatement : Prop :=
  ∀ (t : Rep) (cs : List Clause),
    WF t = true → CallableHead t = true → (∀ h b, t ≠ .compound ":-" (.cons h (.cons b .nil))) →
    compile t = .ok cs →
    ∃ c, cs = [c] ∧ decompile c = some (Rep.abs t, []) ∧ c.raw = Rep.abs t

/-- compilation fails exactly when some top-level body goal is not callable -/
def ErrorStatement : Prop :=
  ∀ (head body : Rep), WF head = true → WF body = true → CallableHead head = true →
    ((∃ e, compile (.compound ":-" (.cons head (.cons body .nil))) = .error e) ↔
      ∃ alt ∈ altBodies body, ∃ g ∈ seqGoals alt, CallableGoal g = false)

/-! # Proofs -/

@[simp] theorem emit_code (c : CState) (o : Op) : (emit c o).code = c.code ++ [o] := rfl
@[simp] theorem emit_vars (c : CState) (o : Op) : (emit c o).vars = c.vars := rfl

theorem absArgs_toList_length : ∀ rs : RepList, (Rep.absArgs rs).toList.length = rs.length
  | .nil => rfl
  | .cons _ rs => by simp [Rep.absArgs, Args.toList, RepList.length, absArgs_toList_length rs]

theorem absArgs_len : ∀ rs : RepList, (Rep.absArgs rs).length = rs.length
  | .nil => rfl
  | .cons _ rs => by simp [Rep.absArgs, Args.length, RepList.length, absArgs_len rs]

theorem list_absArgs (t : Term) : ∀ rs : RepList,
    Term.list (Rep.absArgs rs).toList t = Rep.graft (Rep.absList rs) t
  | .nil => by simp [Rep.absArgs, Args.toList, Term.list, Rep.absList, Rep.graft]
  | .cons r rs => by
    have := list_absArgs t rs
    simp only [Term.list] at this
    simp [Rep.absArgs, Args.toList, Term.list, Rep.absList, Rep.graft, Term.consT, this]

theorem list_absArgs_nil : ∀ rs : RepList, Term.list (Rep.absArgs rs).toList = Rep.absList rs
  | .nil => by simp [Rep.absArgs, Args.toList, Term.list, Rep.absList, Term.nilT]
  | .cons r rs => by
    have := list_absArgs_nil rs
    simp only [Term.list] at this
    simp [Rep.absArgs, Args.toList, Term.list, Rep.absList, Term.consT, this]

theorem graft_list (t : Term) : ∀ l : List Term, Rep.graft (Term.list l) t = Term.list l t
  | [] => by simp [Term.list, Term.nilT, Rep.graft]
  | x :: l => by
    have := graft_list t l
    simp only [Term.list] at this
    simp [Term.list, Term.consT, Rep.graft, this]

theorem foldl_emit (f : Term → Op) : ∀ (ts : List Term) (c : CState),
    (ts.foldl (fun c t => emit c (f t)) c).code = c.code ++ ts.map f ∧
    (ts.foldl (fun c t => emit c (f t)) c).vars = c.vars
  | [], c => by simp
  | t :: ts, c => by
    have := foldl_emit f ts (emit c (f t))
    simp [this]

mutual
  theorem compileArg_spec (hd : Bool) : ∀ (r : Rep) (c : CState), WF r = true →
      ∃ o ops, (compileArg hd r c).code = c.code ++ o :: ops ∧ isArgOp hd o = true ∧
        c.vars <+: (compileArg hd r c).vars ∧
        Reads hd (compileArg hd r c).vars (o :: ops) [Rep.abs r]
    | .var v, c, _ => by
      obtain ⟨i, c', h, hc, hp, hv⟩ := varOffset_spec c v
      refine ⟨opVar hd i, [], ?_, isArgOp_var _ _, ?_, ?_⟩
      · simp [compileArg, h, hc]
      · simpa [compileArg, h] using hp
      · simpa [compileArg, h, Rep.abs] using Reads_var hd c'.vars i v hv
    | .atom s, c, _ =>
      ⟨opConst hd (.atom s), [], by simp [compileArg], isArgOp_const _ _, by simp [compileArg],
        by simpa [compileArg, Rep.abs] using Reads_const hd c.vars (.atom s)⟩
    | .int i, c, _ =>
      ⟨opConst hd (.int i), [], by simp [compileArg], isArgOp_const _ _, by simp [compileArg],
        by simpa [compileArg, Rep.abs] using Reads_const hd c.vars (.int i)⟩
    | .flt b, c, _ =>
      ⟨opConst hd (.flt b), [], by simp [compileArg], isArgOp_const _ _, by simp [compileArg],
        by simpa [compileArg, Rep.abs] using Reads_const hd c.vars (.flt b)⟩
    | .str n, c, _ =>
      ⟨opConst hd (.str n), [], by simp [compileArg], isArgOp_const _ _, by simp [compileArg],
        by simpa [compileArg, Rep.abs] using Reads_const hd c.vars (.str n)⟩
    | .charList s, c, _ =>
      ⟨opConst hd (Rep.abs (.charList s)), [], by simp [compileArg], isArgOp_const _ _,
        by simp [compileArg], by simpa [compileArg] using Reads_const hd c.vars (Rep.abs (.charList s))⟩
    | .codeList s, c, _ =>
      ⟨opConst hd (Rep.abs (.codeList s)), [], by simp [compileArg], isArgOp_const _ _,
        by simp [compileArg], by simpa [compileArg] using Reads_const hd c.vars (Rep.abs (.codeList s))⟩
    | .compound f args, c, h => by
      simp only [WF, Bool.and_eq_true] at h
      obtain ⟨ops, hcode, hp, hr⟩ := compileArgs_spec hd args (emit c (opFunctor hd f args.length)) h.2
      refine ⟨opFunctor hd f args.length, ops ++ [.pop], ?_, isArgOp_functor _ _ _, ?_, ?_⟩
      · simp [compileArg, hcode]
      · simpa [compileArg] using hp
      · have := Reads_functor hd _ f ops _ hr
        simpa [compileArg, Rep.abs, absArgs_toList_length, absArgs_len] using this
    | .list elems, c, h => by
      simp only [WF, Bool.and_eq_true] at h
      obtain ⟨ops, hcode, hp, hr⟩ := compileArgs_spec hd elems (emit c (opList hd elems.length)) h.2
      refine ⟨opList hd elems.length, ops ++ [.pop], ?_, isArgOp_list _ _, ?_, ?_⟩
      · simp [compileArg, hcode]
      · simpa [compileArg] using hp
      · have := Reads_list hd _ ops _ hr
        simpa [compileArg, Rep.abs, absArgs_toList_length, absArgs_len, list_absArgs_nil] using this
    | .part pre tail, c, h => by
      cases pre with
      | list elems =>
        simp only [WF, Bool.and_eq_true] at h
        obtain ⟨o1, ops1, hcode1, _, hp1, hr1⟩ :=
          compileArg_spec hd tail (emit c (opPartial hd elems.length)) h.2
        obtain ⟨ops2, hcode2, hp2, hr2⟩ :=
          compileArgs_spec hd elems (compileArg hd tail (emit c (opPartial hd elems.length))) h.1.2
        refine ⟨opPartial hd elems.length, (o1 :: ops1 ++ ops2) ++ [.pop], ?_, isArgOp_partial _ _, ?_, ?_⟩
        · simp [compileArg, hcode1, hcode2]
        · simpa [compileArg] using List.IsPrefix.trans hp1 hp2
        · have := Reads_partial hd _ _ (Rep.abs tail) _ (Reads_append (Reads_mono hr1 hp2) hr2)
          simpa [compileArg, Rep.abs, absArgs_toList_length, absArgs_len, list_absArgs] using this
      | charList s =>
        simp only [WF, Bool.and_eq_true] at h
        obtain ⟨o1, ops1, hcode1, _, hp1, hr1⟩ :=
          compileArg_spec hd tail (emit c (opPartial hd s.length)) h.2
        obtain ⟨hf1, hf2⟩ := foldl_emit (opConst hd) (charConsts s)
          (compileArg hd tail (emit c (opPartial hd s.length)))
        refine ⟨opPartial hd s.length, (o1 :: ops1 ++ (charConsts s).map (opConst hd)) ++ [.pop], ?_,
          isArgOp_partial _ _, ?_, ?_⟩
        · simp [compileArg, hcode1, hf1]
        · simpa [compileArg, hf2] using hp1
        · have := Reads_partial hd _ _ (Rep.abs tail) _ (Reads_append hr1 (Reads_consts hd _ (charConsts s)))
          have e : Rep.abs (.part (.charList s) tail) = Term.list (charConsts s) (Rep.abs tail) := by
            simp [Rep.abs, charConsts, graft_list]
          have el : (charConsts s).length = s.length := by simp [charConsts]
          have el' : (codeConsts s).length = s.length := by simp [codeConsts]
          rw [e]
          simpa [compileArg, hf2, el, el'] using this
      | codeList s =>
        simp only [WF, Bool.and_eq_true] at h
        obtain ⟨o1, ops1, hcode1, _, hp1, hr1⟩ :=
          compileArg_spec hd tail (emit c (opPartial hd s.length)) h.2
        obtain ⟨hf1, hf2⟩ := foldl_emit (opConst hd) (codeConsts s)
          (compileArg hd tail (emit c (opPartial hd s.length)))
        refine ⟨opPartial hd s.length, (o1 :: ops1 ++ (codeConsts s).map (opConst hd)) ++ [.pop], ?_,
          isArgOp_partial _ _, ?_, ?_⟩
        · simp [compileArg, hcode1, hf1]
        · simpa [compileArg, hf2] using hp1
        · have := Reads_partial hd _ _ (Rep.abs tail) _ (Reads_append hr1 (Reads_consts hd _ (codeConsts s)))
          have e : Rep.abs (.part (.codeList s) tail) = Term.list (codeConsts s) (Rep.abs tail) := by
            simp [Rep.abs, codeConsts, graft_list]
          have el : (charConsts s).length = s.length := by simp [charConsts]
          have el' : (codeConsts s).length = s.length := by simp [codeConsts]
          rw [e]
          simpa [compileArg, hf2, el, el'] using this
      | _ => simp [WF] at h
  theorem compileArgs_spec (hd : Bool) : ∀ (rs : RepList) (c : CState), WFs rs = true →
      ∃ ops, (compileArgs hd rs c).code = c.code ++ ops ∧ c.vars <+: (compileArgs hd rs c).vars ∧
        Reads hd (compileArgs hd rs c).vars ops (Rep.absArgs rs).toList
    | .nil, c, _ => ⟨[], by simp [compileArgs], by simp [compileArgs],
        by simpa [compileArgs, Rep.absArgs, Args.toList] using Reads_nil hd c.vars⟩
    | .cons r rs, c, h => by
      simp only [WFs, Bool.and_eq_true] at h
      obtain ⟨o1, ops1, hcode1, _, hp1, hr1⟩ := compileArg_spec hd r c h.1
      obtain ⟨ops2, hcode2, hp2, hr2⟩ := compileArgs_spec hd rs (compileArg hd r c) h.2
      refine ⟨o1 :: ops1 ++ ops2, ?_, ?_, ?_⟩
      · simp [compileArgs, hcode1, hcode2]
      · simpa [compileArgs] using List.IsPrefix.trans hp1 hp2
      · have := Reads_append (Reads_mono hr1 hp2) hr2
        simpa [compileArgs, Rep.absArgs, Args.toList] using this
end

/-! ## list cells seen through the `Compound` interface -/

/-- list cells other than `*partial` -/
def simpleCell : Rep → Bool
  | .list elems => elems.length ≥ 1 && WFs elems
  | .charList s => !s.isEmpty
  | .codeList s => !s.isEmpty
  | _ => false

def isCell : Rep → Bool
  | .list _ | .charList _ | .codeList _ | .part _ _ => true
  | _ => false

theorem simpleCell_args : ∀ g : Rep, simpleCell g = true →
    ∃ h t, Rep.arg g 0 = some h ∧ Rep.arg g 1 = some t ∧ WF h = true ∧
      Rep.abs g = .app "." (.cons (Rep.abs h) (.cons (Rep.abs t) .nil)) ∧
      Rep.functor g = some "." ∧ Rep.arity g = 2 ∧ (t = .atom "[]" ∨ simpleCell t = true)
  | .list .nil, h => by simp [simpleCell, RepList.length] at h
  | .list (.cons a .nil), h => by
    simp [simpleCell, WFs, RepList.length] at h
    exact ⟨a, .atom "[]", rfl, rfl, h, by simp [Rep.abs, Rep.absList], rfl, rfl, Or.inl rfl⟩
  | .list (.cons a (.cons b bs)), h => by
    simp [simpleCell, WFs, RepList.length] at h
    exact ⟨a, .list (.cons b bs), rfl, rfl, h.1, by simp [Rep.abs, Rep.absList], rfl, rfl,
      Or.inr (by simp [simpleCell, WFs, RepList.length, h.2])⟩
  | .charList [], h => by simp [simpleCell] at h
  | .charList [a], _ =>
    ⟨Rep.charAtom a, .atom "[]", rfl, rfl, rfl,
      by simp [Rep.abs, Rep.charAtom, Term.list, Term.consT, Term.nilT], rfl, rfl, Or.inl rfl⟩
  | .charList (a :: b :: bs), _ =>
    ⟨Rep.charAtom a, .charList (b :: bs), rfl, rfl, rfl,
      by simp [Rep.abs, Rep.charAtom, Term.list, Term.consT, Term.nilT], rfl, rfl, Or.inr rfl⟩
  | .codeList [], h => by simp [simpleCell] at h
  | .codeList [a], _ =>
    ⟨Rep.charCode a, .atom "[]", rfl, rfl, rfl,
      by simp [Rep.abs, Rep.charCode, Term.list, Term.consT, Term.nilT], rfl, rfl, Or.inl rfl⟩
  | .codeList (a :: b :: bs), _ =>
    ⟨Rep.charCode a, .codeList (b :: bs), rfl, rfl, rfl,
      by simp [Rep.abs, Rep.charCode, Term.list, Term.consT, Term.nilT], rfl, rfl, Or.inr rfl⟩
  | .var _, h | .atom _, h | .int _, h | .flt _, h | .str _, h | .compound _ _, h | .part _ _, h => by
    simp [simpleCell] at h

theorem simpleCell_props : ∀ t : Rep, simpleCell t = true →
    WF t = true ∧ t ≠ .atom "[]" ∧ (Rep.functor t).isSome = true ∧
      ∀ tail, WF tail = true → WF (.part t tail) = true
  | .list es, h => ⟨by simpa [simpleCell, WF] using h, by simp, rfl,
      fun tail ht => by simp [simpleCell] at h; simp [WF, h, ht]⟩
  | .charList s, h => ⟨by simpa [simpleCell, WF] using h, by simp, rfl,
      fun tail ht => by simp [simpleCell] at h; simp [WF, h, ht]⟩
  | .codeList s, h => ⟨by simpa [simpleCell, WF] using h, by simp, rfl,
      fun tail ht => by simp [simpleCell] at h; simp [WF, h, ht]⟩
  | .var _, h | .atom _, h | .int _, h | .flt _, h | .str _, h | .compound _ _, h | .part _ _, h => by
    simp [simpleCell] at h

theorem WF_part {pre tail : Rep} (h : WF (.part pre tail) = true) :
    simpleCell pre = true ∧ WF tail = true := by
  cases pre <;> simp [WF, simpleCell] at h ⊢ <;> exact h

theorem cell_args (g : Rep) (hw : WF g = true) (hc : isCell g = true) :
    ∃ h t, Rep.arg g 0 = some h ∧ Rep.arg g 1 = some t ∧ WF h = true ∧ WF t = true ∧
      Rep.abs g = .app "." (.cons (Rep.abs h) (.cons (Rep.abs t) .nil)) := by
  have simple : ∀ g, simpleCell g = true → ∃ h t, Rep.arg g 0 = some h ∧ Rep.arg g 1 = some t ∧
      WF h = true ∧ WF t = true ∧
      Rep.abs g = .app "." (.cons (Rep.abs h) (.cons (Rep.abs t) .nil)) := by
    intro g hs
    obtain ⟨h, t, h0, h1, hwh, habs, _, _, ht⟩ := simpleCell_args g hs
    refine ⟨h, t, h0, h1, hwh, ?_, habs⟩
    rcases ht with rfl | ht
    · rfl
    · exact (simpleCell_props t ht).1
  cases g with
  | list es => exact simple _ (by simpa [simpleCell, WF] using hw)
  | charList s => exact simple _ (by simpa [simpleCell, WF] using hw)
  | codeList s => exact simple _ (by simpa [simpleCell, WF] using hw)
  | part pre tail =>
    obtain ⟨hs, hwt⟩ := WF_part hw
    obtain ⟨h, t, h0, h1, hwh, habs, hf, ha, ht⟩ := simpleCell_args pre hs
    rcases ht with rfl | ht
    · exact ⟨h, tail, by simp [Rep.arg, h0, hf, ha], by simp [Rep.arg, h1, hf, ha], hwh, hwt,
        by simp [Rep.abs, habs, Rep.graft]⟩
    · obtain ⟨_, hne, hfs, hwp⟩ := simpleCell_props t ht
      exact ⟨h, .part t tail, by simp [Rep.arg, h0, hf, ha], by simp [Rep.arg, h1, hf, ha, hne, hfs],
        hwh, hwp tail hwt, by simp [Rep.abs, habs, Rep.graft]⟩
  | _ => simp [isCell] at hc

theorem compilePred_cell {g h t : Rep} (c : CState) (hc : isCell g = true)
    (h0 : Rep.arg g 0 = some h) (h1 : Rep.arg g 1 = some t) :
    compilePred g c = some (emit (compileBodyArg t (compileBodyArg h c)) (.call "." 2)) := by
  cases g <;> simp [isCell] at hc <;> simp [compilePred, h0, h1]

/-! ## goals -/

theorem compileArgs_put : ∀ (rs : RepList) (c : CState), WFs rs = true →
    ∃ ops, (compileArgs false rs c).code = c.code ++ ops ∧ c.vars <+: (compileArgs false rs c).vars ∧
      PutReads (compileArgs false rs c).vars ops (Rep.absArgs rs).toList ∧
      (rs ≠ .nil → ∃ o ops', ops = o :: ops' ∧ isPut o = true)
  | .nil, c, _ => ⟨[], by simp [compileArgs], by simp [compileArgs],
      by simpa [compileArgs, Rep.absArgs, Args.toList] using PutReads_nil c.vars, fun h => (h rfl).elim⟩
  | .cons r rs, c, h => by
    simp only [WFs, Bool.and_eq_true] at h
    obtain ⟨o1, ops1, hcode1, ho1, hp1, hr1⟩ := compileArg_spec false r c h.1
    obtain ⟨ops2, hcode2, hp2, hr2, _⟩ := compileArgs_put rs (compileArg false r c) h.2
    refine ⟨o1 :: ops1 ++ ops2, ?_, ?_, ?_, fun _ => ⟨o1, ops1 ++ ops2, rfl, isArgOp_false ho1⟩⟩
    · simp [compileArgs, hcode1, hcode2]
    · simpa [compileArgs] using List.IsPrefix.trans hp1 hp2
    · have := PutReads_append (PutReads_mono (PutReads_of_Reads hr1 (isArgOp_false ho1)) hp2) hr2
      simpa [compileArgs, Rep.absArgs, Args.toList] using this

/-- a goal with at least one argument: its put-code followed by `call` -/
theorem call_spec (f : String) (rs : RepList) (c : CState) (hw : WFs rs = true) (hne : rs ≠ .nil) :
    ∃ ops, (emit (compileArgs false rs c) (.call f rs.length)).code = c.code ++ ops ∧
      c.vars <+: (emit (compileArgs false rs c) (.call f rs.length)).vars ∧
      GoalReads (emit (compileArgs false rs c) (.call f rs.length)).vars ops [.app f (Rep.absArgs rs)] := by
  obtain ⟨ops, hcode, hp, hr, hs⟩ := compileArgs_put rs c hw
  obtain ⟨o, ops', rfl, ho⟩ := hs hne
  refine ⟨(o :: ops') ++ [.call f rs.length], by simp [hcode], by simpa using hp, ?_⟩
  have hne' : (Rep.absArgs rs).toList ≠ [] := by
    cases rs with
    | nil => exact (hne rfl).elim
    | cons r rs => simp [Rep.absArgs, Args.toList]
  have := GoalReads_call f hr ho hne'
  simpa [absArgs_toList_length, absArgs_len] using this

theorem compilePred_spec (g : Rep) (c c' : CState) (hw : WF g = true) (h : compilePred g c = some c') :
    ∃ ops, c'.code = c.code ++ ops ∧ c.vars <+: c'.vars ∧ GoalReads c'.vars ops [goalTerm g] := by
  have cell : isCell g = true → ∃ ops, c'.code = c.code ++ ops ∧ c.vars <+: c'.vars ∧
      GoalReads c'.vars ops [goalTerm g] := by
    intro hc
    obtain ⟨a, b, h0, h1, hwa, hwb, habs⟩ := cell_args g hw hc
    rw [compilePred_cell c hc h0 h1] at h
    cases h
    have := call_spec "." (.cons a (.cons b .nil)) c (by simp [WFs, hwa, hwb]) (by simp)
    have hg : goalTerm g = Rep.abs g := by cases g <;> simp [isCell] at hc <;> rfl
    simpa [compileArgs, compileBodyArg_eq, RepList.length, Rep.absArgs, hg, habs] using this
  cases g with
  | var v =>
    simp only [compilePred, Option.some.injEq] at h
    subst h
    have := call_spec "call" (.cons (.var v) .nil) c (by simp [WFs, WF]) (by simp)
    simpa [compileArgs, compileBodyArg_eq, RepList.length, Rep.absArgs, goalTerm, Rep.abs] using this
  | atom s =>
    by_cases hs : s = "!"
    · subst hs
      simp only [compilePred, Option.some.injEq] at h
      subst h
      exact ⟨[.cut], by simp, by simp, by simpa [goalTerm, Rep.abs] using GoalReads_cut c.vars⟩
    · simp only [compilePred, Option.some.injEq] at h
      subst h
      exact ⟨[.call s 0], by simp, by simp, by simpa [goalTerm, Rep.abs] using GoalReads_call0 c.vars s⟩
  | compound f args =>
    simp only [compilePred, Option.some.injEq] at h
    subst h
    simp only [WF, Bool.and_eq_true] at hw
    have hne : args ≠ .nil := by
      rintro rfl
      simp [RepList.length] at hw
    have := call_spec f args c hw.2 hne
    simpa [compileBodyArgs_eq, goalTerm, Rep.abs] using this
  | int _ => simp [compilePred] at h
  | flt _ => simp [compilePred] at h
  | str _ => simp [compilePred] at h
  | list _ => exact cell rfl
  | charList _ => exact cell rfl
  | codeList _ => exact cell rfl
  | part _ _ => exact cell rfl

/-! ## bodies, heads, clauses -/

theorem foldl_bind_none (gs : List Rep) :
    gs.foldl (fun oc g => oc.bind (compilePred g)) (none : Option CState) = none := by
  induction gs with
  | nil => rfl
  | cons g gs ih => simpa using ih

theorem goals_spec : ∀ (gs : List Rep) (c c' : CState), (∀ g ∈ gs, WF g = true) →
    gs.foldl (fun oc g => oc.bind (compilePred g)) (some c) = some c' →
    ∃ ops, c'.code = c.code ++ ops ∧ c.vars <+: c'.vars ∧ GoalReads c'.vars ops (gs.map goalTerm)
  | [], c, c', _, h => by
    simp only [List.foldl, Option.some.injEq] at h
    subst h
    exact ⟨[], by simp, List.prefix_refl _, GoalReads_nil _⟩
  | g :: gs, c, c', hw, h => by
    simp only [List.foldl, Option.bind_some] at h
    cases h1 : compilePred g c with
    | none => rw [h1, foldl_bind_none] at h; cases h
    | some c1 =>
      rw [h1] at h
      obtain ⟨ops1, hc1, hp1, hr1⟩ := compilePred_spec g c c1 (hw g (by simp)) h1
      obtain ⟨ops2, hc2, hp2, hr2⟩ := goals_spec gs c1 c' (fun g' hg' => hw g' (by simp [hg'])) h
      refine ⟨ops1 ++ ops2, by simp [hc2, hc1], List.IsPrefix.trans hp1 hp2, ?_⟩
      have := GoalReads_append (GoalReads_mono hr1 hp2) hr2
      simpa using this

theorem compileBody_spec (body : Rep) (c c' : CState) (hw : ∀ g ∈ seqGoals body, WF g = true)
    (h : compileBody body c = some c') :
    ∃ ops, c'.code = c.code ++ Op.enter :: ops ∧ c.vars <+: c'.vars ∧
      GoalReads c'.vars ops ((seqGoals body).map goalTerm) := by
  obtain ⟨ops, hc, hp, hr⟩ := goals_spec (seqGoals body) (emit c .enter) c' hw h
  exact ⟨ops, by simp [hc], by simpa using hp, hr⟩

theorem compileHead_spec (head : Rep) (c : CState) (hw : WF head = true) (hc : CallableHead head = true) :
    ∃ ops ts, (compileHead head c).2.1 = ts.length ∧
      (compileHead head c).2.2.code = c.code ++ ops ∧ c.vars <+: (compileHead head c).2.2.vars ∧
      Reads true (compileHead head c).2.2.vars ops ts ∧
      (if ts.isEmpty then Term.atom (compileHead head c).1
        else Term.app (compileHead head c).1 (Args.ofList ts)) = Rep.abs head := by
  cases head with
  | atom s =>
    exact ⟨[], [], rfl, by simp [compileHead], by simp [compileHead], Reads_nil _ _,
      by simp [compileHead, Rep.abs]⟩
  | compound f args =>
    simp only [WF, Bool.and_eq_true] at hw
    obtain ⟨ops, hcode, hp, hr⟩ := compileArgs_spec true args c hw.2
    refine ⟨ops, (Rep.absArgs args).toList, by simp [compileHead, absArgs_len], ?_, ?_, ?_, ?_⟩
    · simpa [compileHead, compileHeadArgs_eq] using hcode
    · simpa [compileHead, compileHeadArgs_eq] using hp
    · simpa [compileHead, compileHeadArgs_eq] using hr
    · have hne : (Rep.absArgs args).toList ≠ [] := by
        cases args with
        | nil => simp [RepList.length] at hw
        | cons r rs => simp [Rep.absArgs, Args.toList]
      simp [compileHead, Rep.abs, hne]
  | _ => simp [CallableHead] at hc

/-- the clause record `compile` builds from the result of `compileClause` -/
def mkClause (raw : Term) (r : String × Nat × CState) : Clause :=
  { name := r.1, arity := r.2.1, raw := raw, vars := r.2.2.vars, code := r.2.2.code }

theorem compileClause_rule (head alt : Rep) (raw : Term) (r : String × Nat × CState)
    (hw : WF head = true) (hc : CallableHead head = true) (hwa : ∀ g ∈ seqGoals alt, WF g = true)
    (h : compileClause head (some alt) = some r) :
    decompile (mkClause raw r) = some (Rep.abs head, (seqGoals alt).map goalTerm) := by
  obtain ⟨hops, ts, har, hcode, hp, hr, habs⟩ := compileHead_spec head {} hw hc
  simp only [compileClause] at h
  cases hb : compileBody alt (compileHead head {}).2.2 with
  | none => simp [hb] at h
  | some cb =>
    obtain ⟨gops, hcode2, hp2, hg⟩ := compileBody_spec alt _ cb hwa hb
    simp only [hb, Option.map_some, Option.some.injEq] at h
    subst h
    have := decompile_rule (compileHead head {}).1 raw cb.vars _ _ hops gops ts _ hr hg hp2
      (List.prefix_refl _)
    rw [habs] at this
    rw [← this]
    congr 1
    simp [mkClause, har, hcode2, hcode]

theorem compileClause_fact (head : Rep) (raw : Term) (r : String × Nat × CState)
    (hw : WF head = true) (hc : CallableHead head = true)
    (h : compileClause head none = some r) :
    decompile (mkClause raw r) = some (Rep.abs head, []) := by
  obtain ⟨hops, ts, har, hcode, hp, hr, habs⟩ := compileHead_spec head {} hw hc
  simp only [compileClause, Option.some.injEq] at h
  subst h
  have := decompile_fact (compileHead head {}).1 raw (compileHead head {}).2.2.vars _ hops ts hr
    (List.prefix_refl _)
  rw [habs] at this
  rw [← this]
  congr 1
  simp [mkClause, har, hcode]

/-! ## well-formedness of the goals the iterators deliver -/

theorem wf_seqGoals (b : Rep) (hw : WF b = true) : ∀ g ∈ seqGoals b, WF g = true := by
  fun_induction seqGoals b with
  | case1 a b iha ih =>
    intro g hg
    simp only [WF, WFs, Bool.and_eq_true] at hw
    rcases List.mem_append.1 hg with hg | hg
    · exact iha hw.2.1 g hg
    · exact ih hw.2.2.1 g hg
  | case2 g hne =>
    intro g' hg'
    rw [List.mem_singleton.1 hg']
    exact hw

theorem wf_altBodies (b : Rep) (hw : WF b = true) : ∀ a ∈ altBodies b, WF a = true := by
  fun_induction altBodies b with
  | case1 b x y =>
    intro g hg
    rw [List.mem_singleton.1 hg]
    exact hw
  | case2 a b hne ih =>
    intro g hg
    simp only [WF, WFs, Bool.and_eq_true] at hw
    rcases List.mem_cons.1 hg with rfl | hg
    · exact hw.2.1
    · exact ih hw.2.2.1 g hg
  | case3 g hne =>
    intro g' hg'
    rw [List.mem_singleton.1 hg']
    exact hw

/-! ## the fold of `compile` over the alternatives -/

/-- the step function of `compile`'s fold -/
def altStep (head : Rep) (raw err : Term) (acc : Except Term (List Clause)) (alt : Rep) :
    Except Term (List Clause) :=
  match acc with
  | .error e => .error e
  | .ok cs =>
    match compileClause head (some alt) with
    | none => .error err
    | some (f, n, c) => .ok (cs ++ [{ name := f, arity := n, raw := raw, vars := c.vars, code := c.code }])

theorem compile_rule_eq (head body : Rep) :
    compile (.compound ":-" (.cons head (.cons body .nil))) =
      (altBodies body).foldl
        (altStep head (Rep.abs (.compound ":-" (.cons head (.cons body .nil))))
          (typeErr "callable" (Rep.abs body))) (.ok []) := by
  simp only [compile]
  rfl

theorem altStep_error (head : Rep) (raw err e : Term) (alts : List Rep) :
    alts.foldl (altStep head raw err) (.error e) = .error e := by
  induction alts with
  | nil => rfl
  | cons a alts ih => simpa [altStep] using ih

/-- dichotomy: either every alternative compiles and the result lists their clauses in order, or
    some alternative does not compile and the result is an error -/
theorem fold_spec (head : Rep) (raw err : Term) : ∀ (alts : List Rep) (cs0 : List Clause),
    (∃ cs', alts.foldl (altStep head raw err) (.ok cs0) = .ok (cs0 ++ cs') ∧
      cs'.length = alts.length ∧
      (∀ alt ∈ alts, (compileClause head (some alt)).isSome = true) ∧
      ∀ (i : Nat) (c : Clause) (alt : Rep), cs'[i]? = some c → alts[i]? = some alt →
        ∃ r, compileClause head (some alt) = some r ∧ c = mkClause raw r) ∨
    (alts.foldl (altStep head raw err) (.ok cs0) = .error err ∧
      ∃ alt ∈ alts, compileClause head (some alt) = none)
  | [], cs0 => Or.inl ⟨[], by simp, rfl, by simp, by simp⟩
  | a :: alts, cs0 => by
    cases h : compileClause head (some a) with
    | none =>
      refine Or.inr ⟨?_, a, by simp, h⟩
      simp only [List.foldl, altStep, h]
      exact altStep_error _ _ _ _ _
    | some r =>
      have hs : altStep head raw err (.ok cs0) a = .ok (cs0 ++ [mkClause raw r]) := by
        obtain ⟨f, n, c⟩ := r
        simp only [altStep, h]
        rfl
      rcases fold_spec head raw err alts (cs0 ++ [mkClause raw r]) with
        ⟨cs', h1, h2, h3, h4⟩ | ⟨h1, alt, hm, hn⟩
      · refine Or.inl ⟨mkClause raw r :: cs', ?_, by simp [h2], ?_, ?_⟩
        · simp only [List.foldl, hs, h1]
          simp
        · intro alt hm
          rcases List.mem_cons.1 hm with rfl | hm
          · simp [h]
          · exact h3 alt hm
        · intro i c alt hc ha
          cases i with
          | zero =>
            simp only [List.getElem?_cons_zero, Option.some.injEq] at hc ha
            subst hc; subst ha
            exact ⟨r, h, rfl⟩
          | succ i =>
            simp only [List.getElem?_cons_succ] at hc ha
            exact h4 i c alt hc ha
      · refine Or.inr ⟨?_, alt, by simp [hm], hn⟩
        simp only [List.foldl, hs, h1]

/-! ## the three theorems -/

theorem rule_statement : RuleStatement := by
  intro head body cs hwh hwb hch hcomp
  rw [compile_rule_eq] at hcomp
  rcases fold_spec head (Rep.abs (.compound ":-" (.cons head (.cons body .nil))))
      (typeErr "callable" (Rep.abs body)) (altBodies body) [] with
    ⟨cs', h1, h2, _, h4⟩ | ⟨h1, _⟩
  · rw [h1] at hcomp
    simp only [List.nil_append, Except.ok.injEq] at hcomp
    subst hcomp
    refine ⟨h2, ?_⟩
    intro i c alt hc ha
    obtain ⟨r, hr, rfl⟩ := h4 i c alt hc ha
    have hm : alt ∈ altBodies body := List.mem_of_getElem? ha
    exact ⟨compileClause_rule head alt _ r hwh hch (wf_seqGoals alt (wf_altBodies body hwb alt hm)) hr, rfl⟩
  · rw [h1] at hcomp
    cases hcomp

theorem fact_statement : FactStatement := by
  intro t cs hw hc hne hcomp
  have hco : compile t =
      match compileClause t none with
      | none => .error (typeErr "callable" (Rep.abs t))
      | some (f, n, c) => .ok [{ name := f, arity := n, raw := Rep.abs t, vars := c.vars, code := c.code }] := by
    unfold compile
    split
    · exact (hne _ _ rfl).elim
    · rfl
  rw [hco] at hcomp
  cases h : compileClause t none with
  | none => simp [h] at hcomp
  | some r =>
    obtain ⟨f, n, c⟩ := r
    simp only [h, Except.ok.injEq] at hcomp
    subst hcomp
    exact ⟨_, rfl, compileClause_fact t (Rep.abs t) (f, n, c) hw hc h, rfl⟩

/-! ## errors -/

theorem compilePred_none_iff (g : Rep) (c : CState) (hw : WF g = true) :
    compilePred g c = none ↔ CallableGoal g = false := by
  have cell : isCell g = true → (compilePred g c = none ↔ CallableGoal g = false) := by
    intro hc
    obtain ⟨a, b, h0, h1, _, _, _⟩ := cell_args g hw hc
    rw [compilePred_cell c hc h0 h1]
    cases g <;> simp [isCell] at hc <;> simp [CallableGoal]
  cases g with
  | var v => simp [compilePred, CallableGoal]
  | atom s =>
    by_cases hs : s = "!"
    · subst hs; simp [compilePred, CallableGoal]
    · simp [compilePred, CallableGoal]
  | compound f args => simp [compilePred, CallableGoal]
  | int _ => simp [compilePred, CallableGoal]
  | flt _ => simp [compilePred, CallableGoal]
  | str _ => simp [compilePred, CallableGoal]
  | list _ => exact cell rfl
  | charList _ => exact cell rfl
  | codeList _ => exact cell rfl
  | part _ _ => exact cell rfl

theorem goals_none_iff : ∀ (gs : List Rep) (c : CState), (∀ g ∈ gs, WF g = true) →
    (gs.foldl (fun oc g => oc.bind (compilePred g)) (some c) = none ↔
      ∃ g ∈ gs, CallableGoal g = false)
  | [], c, _ => by simp
  | g :: gs, c, hw => by
    simp only [List.foldl, Option.bind_some]
    cases h1 : compilePred g c with
    | none =>
      rw [foldl_bind_none]
      have := (compilePred_none_iff g c (hw g (by simp))).1 h1
      exact ⟨fun _ => ⟨g, by simp, this⟩, fun _ => rfl⟩
    | some c1 =>
      have hg : CallableGoal g ≠ false := fun hf => by
        have := (compilePred_none_iff g c (hw g (by simp))).2 hf
        rw [h1] at this; cases this
      rw [goals_none_iff gs c1 (fun g' hg' => hw g' (by simp [hg']))]
      constructor
      · rintro ⟨g', hm, hf⟩
        exact ⟨g', by simp [hm], hf⟩
      · rintro ⟨g', hm, hf⟩
        rcases List.mem_cons.1 hm with rfl | hm
        · exact (hg hf).elim
        · exact ⟨g', hm, hf⟩

theorem compileClause_none_iff (head alt : Rep) (hw : ∀ g ∈ seqGoals alt, WF g = true) :
    compileClause head (some alt) = none ↔ ∃ g ∈ seqGoals alt, CallableGoal g = false := by
  rw [← goals_none_iff (seqGoals alt) (emit (compileHead head {}).2.2 .enter) hw]
  simp only [compileClause, compileBody, Option.map_eq_none_iff]

theorem error_statement : ErrorStatement := by
  intro head body _ hwb _
  rw [compile_rule_eq]
  have key : ∀ alt ∈ altBodies body,
      (compileClause head (some alt) = none ↔ ∃ g ∈ seqGoals alt, CallableGoal g = false) :=
    fun alt hm => compileClause_none_iff head alt (wf_seqGoals alt (wf_altBodies body hwb alt hm))
  rcases fold_spec head (Rep.abs (.compound ":-" (.cons head (.cons body .nil))))
      (typeErr "callable" (Rep.abs body)) (altBodies body) [] with
    ⟨cs', h1, _, h3, _⟩ | ⟨h1, alt, hm, hn⟩
  · rw [h1]
    constructor
    · rintro ⟨e, he⟩; cases he
    · rintro ⟨alt, hm, hg⟩
      have := (key alt hm).2 hg
      have h := h3 alt hm
      rw [this] at h; cases h
  · rw [h1]
    exact ⟨fun _ => ⟨alt, hm, (key alt hm).1 hn⟩, fun _ => ⟨_, rfl⟩⟩

end PrologVerif.DecompileCompile
