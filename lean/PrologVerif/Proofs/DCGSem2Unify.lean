/-
  Proofs/DCGSem2Unify — corresponding unifications on the two sides of the simulation
  (Proofs/DCGSem2Sim) have corresponding outcomes: `unify_sim`, `unifyList_sim`; full application
  of the two stores to related terms gives terms that are equal up to the one-to-one
  correspondence of the variables (`resolve_sim`), hence the same canonical form (`canon_trel`).

  The SLD side may have LESS fuel (it reaches the same subterms deeper inside a larger
  unification: `S0 = [t1,…,tn | S]` versus n separate unifications): if it does not run out of
  fuel, neither does the denotation.
-/
import PrologVerif.Proofs.DCGSem2Sim
namespace PrologVerif.Grammar
open PrologVerif

/-- outcomes of corresponding unifications: the SLD side is out of fuel, or both fail, or both
    succeed and the new stores form a world after `W` in which nothing else was touched -/
def UOut (W : World) : Fuel (Option Subst) → Fuel (Option Subst) → Prop
  | .out, _ => True
  | .done none, .done none => True
  | .done (some σS'), .done (some σD') =>
    ∃ W' : World, W'.σS = σS' ∧ W'.σD = σD' ∧ W'.nS = W.nS ∧ W'.nD = W.nD ∧ W'.Good ∧
      Step W W' (fun _ => False)
  | _, _ => False

theorem UOut.same {W : World} (hW : W.Good) : UOut W (.done (some W.σS)) (.done (some W.σD)) :=
  ⟨W, rfl, rfl, rfl, rfl, hW, Step.refl W _⟩

theorem UOut.trans {W W1 : World} (h1 : Step W W1 (fun _ => False)) (e1 : W1.nS = W.nS) (e2 : W1.nD = W.nD)
    {rS rD : Fuel (Option Subst)} (h : UOut W1 rS rD) : UOut W rS rD := by
  match rS, rD, h with
  | .out, _, _ => trivial
  | .done none, .done none, _ => trivial
  | .done (some _), .done (some _), ⟨W', a, b, c, d, e, f⟩ =>
    exact ⟨W', a, b, by rw [c, e1], by rw [d, e2], e, h1.trans f (fun _ h => h) (fun _ h => h)⟩

theorem bind_out {W : World} (hW : W.Good) {aS aD : Nat} {uS uD : Term} (ha : W.ρ aS aD)
    (hu : Sim1 W.ρ W.Eq uS uD) (hne : uS ≠ .var aS) :
    UOut W (.done (some ((aS, uS) :: W.σS))) (.done (some ((aD, uD) :: W.σD))) := by
  obtain ⟨g, s⟩ := World.bindPar_ok hW ha hu hne
  exact ⟨W.bindPar aS uS aD uD, rfl, rfl, rfl, rfl, g, s⟩

theorem unifyArgs_sim (kS kD : Nat)
    (IH : ∀ (W : World), W.Good → ∀ tS uS tD uD, W.Eq tS tD → W.Eq uS uD →
      UOut W (unify kS W.σS tS uS) (unify kD W.σD tD uD)) :
    ∀ (as as' : Args) (bs bs' : Args) (W : World), W.Good → ArgsRel W.Eq as as' → ArgsRel W.Eq bs bs' →
      UOut W (unifyArgsWith (unify kS) W.σS as bs) (unifyArgsWith (unify kD) W.σD as' bs')
  | .nil, _, _, _, W, hW, h1, h2 => by
    cases h1
    cases h2 with
    | nil => simp only [unifyArgsWith]; exact UOut.same hW
    | cons _ _ => simp only [unifyArgsWith]; trivial
  | .cons a as, _, _, _, W, hW, h1, h2 => by
    cases h1 with
    | cons ra ras =>
      cases h2 with
      | nil => simp only [unifyArgsWith]; trivial
      | cons rb rbs =>
        rename_i a' as' b b' bs bs'
        simp only [unifyArgsWith]
        have h := IH W hW a b a' b' ra rb
        match hS : unify kS W.σS a b, hD : unify kD W.σD a' b', h with
        | .out, _, _ => trivial
        | .done none, .done none, _ => trivial
        | .done (some σ1), .done (some σ1'), ⟨W1, e1, e2, e3, e4, g, s⟩ =>
          simp only []
          subst e1 e2
          exact UOut.trans s e3 e4
            (unifyArgs_sim kS kD IH as as' bs bs' W1 g (ras.mono (fun _ _ h => s.eq _ _ h))
              (rbs.mono (fun _ _ h => s.eq _ _ h)))

/-- **corresponding unifications.**  Related terms, the SLD side with at most the fuel of the
    denotation: the outcomes correspond. -/
theorem unify_sim : ∀ (kS kD : Nat), kS ≤ kD → ∀ (W : World), W.Good → ∀ tS uS tD uD : Term,
    W.Eq tS tD → W.Eq uS uD → UOut W (unify kS W.σS tS uS) (unify kD W.σD tD uD)
  | 0, _, _, _, _, _, _, _, _, _, _ => by simp only [unify]; trivial
  | kS + 1, 0, h, _, _, _, _, _, _, _, _ => by omega
  | kS + 1, kD + 1, hk, W, hW, tS, uS, tD, uD, h1, h2 => by
    have IH := unify_sim kS kD (by omega)
    unfold unify
    have h1' := (W.Eq_unfold tS tD).1 h1
    have h2' := (W.Eq_unfold uS uD).1 h2
    revert h1' h2'
    generalize walk W.σS tS = a
    generalize walk W.σD tD = a'
    generalize walk W.σS uS = b
    generalize walk W.σD uD = b'
    intro h1' h2'
    cases h1' with
    | var ra =>
      rename_i x x'
      cases h2' with
      | var rb =>
        rename_i y y'
        simp only []
        by_cases hxy : x = y
        · subst hxy
          have : x' = y' := hW.fn _ _ _ ra rb
          subst this
          simp only [if_true]
          exact UOut.same hW
        · have : x' ≠ y' := fun e => hxy (hW.inj _ _ _ ra (e ▸ rb))
          simp only [hxy, this, if_false]
          exact bind_out hW ra (.var rb) (fun e => hxy (by injection e with e; exact e.symm))
      | atom c => exact bind_out hW ra (.atom c) (by simp)
      | int c => exact bind_out hW ra (.int c) (by simp)
      | flt c => exact bind_out hW ra (.flt c) (by simp)
      | str c => exact bind_out hW ra (.str c) (by simp)
      | app r => exact bind_out hW ra (.app r) (by simp)
    | atom c =>
      cases h2' with
      | var rb => exact bind_out hW rb (.atom c) (by simp)
      | atom d =>
        simp only []
        by_cases hcd : c = d
        · subst hcd; simp only [if_true]; exact UOut.same hW
        · have : Term.atom c ≠ Term.atom d := fun e => hcd (by injection e)
          simp only [this, if_false]; trivial
      | int d => simp only [reduceCtorEq, if_false]; trivial
      | flt d => simp only [reduceCtorEq, if_false]; trivial
      | str d => simp only [reduceCtorEq, if_false]; trivial
      | app r => simp only [reduceCtorEq, if_false]; trivial
    | int c =>
      cases h2' with
      | var rb => exact bind_out hW rb (.int c) (by simp)
      | int d =>
        simp only []
        by_cases hcd : c = d
        · subst hcd; simp only [if_true]; exact UOut.same hW
        · have : Term.int c ≠ Term.int d := fun e => hcd (by injection e)
          simp only [this, if_false]; trivial
      | atom d => simp only [reduceCtorEq, if_false]; trivial
      | flt d => simp only [reduceCtorEq, if_false]; trivial
      | str d => simp only [reduceCtorEq, if_false]; trivial
      | app r => simp only [reduceCtorEq, if_false]; trivial
    | flt c =>
      cases h2' with
      | var rb => exact bind_out hW rb (.flt c) (by simp)
      | flt d =>
        simp only []
        by_cases hcd : c = d
        · subst hcd; simp only [if_true]; exact UOut.same hW
        · have : Term.flt c ≠ Term.flt d := fun e => hcd (by injection e)
          simp only [this, if_false]; trivial
      | atom d => simp only [reduceCtorEq, if_false]; trivial
      | int d => simp only [reduceCtorEq, if_false]; trivial
      | str d => simp only [reduceCtorEq, if_false]; trivial
      | app r => simp only [reduceCtorEq, if_false]; trivial
    | str c =>
      cases h2' with
      | var rb => exact bind_out hW rb (.str c) (by simp)
      | str d =>
        simp only []
        by_cases hcd : c = d
        · subst hcd; simp only [if_true]; exact UOut.same hW
        · have : Term.str c ≠ Term.str d := fun e => hcd (by injection e)
          simp only [this, if_false]; trivial
      | atom d => simp only [reduceCtorEq, if_false]; trivial
      | int d => simp only [reduceCtorEq, if_false]; trivial
      | flt d => simp only [reduceCtorEq, if_false]; trivial
      | app r => simp only [reduceCtorEq, if_false]; trivial
    | app r =>
      rename_i f as as'
      cases h2' with
      | var rb => exact bind_out hW rb (.app r) (by simp)
      | app r' =>
        rename_i g bs bs'
        simp only []
        by_cases hfg : f = g
        · simp only [hfg, if_true]
          exact unifyArgs_sim kS kD IH as as' bs bs' W hW r r'
        · simp only [hfg, if_false]; trivial
      | atom d => simp only [reduceCtorEq, if_false]; trivial
      | int d => simp only [reduceCtorEq, if_false]; trivial
      | flt d => simp only [reduceCtorEq, if_false]; trivial
      | str d => simp only [reduceCtorEq, if_false]; trivial

/-! ### argument lists -/

theorem unifyList_sim (kS kD : Nat) (hk : kS ≤ kD) :
    ∀ (as as' bs bs' : List Term) (W : World), W.Good → All2 W.Eq as as' → All2 W.Eq bs bs' →
      UOut W (unifyList kS W.σS as bs) (unifyList kD W.σD as' bs')
  | [], _, _, _, W, hW, h1, h2 => by
    cases h1
    cases h2 with
    | nil => simp only [unifyList]; exact UOut.same hW
    | cons _ _ => simp only [unifyList]; trivial
  | a :: as, _, _, _, W, hW, h1, h2 => by
    cases h1 with
    | cons ra ras =>
      cases h2 with
      | nil => simp only [unifyList]; trivial
      | cons rb rbs =>
        rename_i a' as' b b' bs bs'
        simp only [unifyList]
        have h := unify_sim kS kD hk W hW a b a' b' ra rb
        match hS : unify kS W.σS a b, hD : unify kD W.σD a' b', h with
        | .out, _, _ => trivial
        | .done none, .done none, _ => trivial
        | .done (some σ1), .done (some σ1'), ⟨W1, e1, e2, e3, e4, g, s⟩ =>
          simp only []
          subst e1 e2
          exact UOut.trans s e3 e4
            (unifyList_sim kS kD hk as as' bs bs' W1 g (ras.imp (fun _ _ h => s.eq _ _ h))
              (rbs.imp (fun _ _ h => s.eq _ _ h)))

/-- unifying `f(as…, ra…)` with `f(bs…, rb…)`: first the `as` with the `bs`, then the rest -/
theorem unifyArgs_append (k : Nat) : ∀ (as bs : List Term) (σ : Subst) (ra rb : List Term),
    as.length = bs.length →
    unifyArgsWith (unify k) σ (Args.ofList (as ++ ra)) (Args.ofList (bs ++ rb)) =
      (match unifyList k σ as bs with
       | .done (some σ') => unifyArgsWith (unify k) σ' (Args.ofList ra) (Args.ofList rb)
       | r => r)
  | [], [], σ, ra, rb, _ => by simp [unifyList]
  | [], _ :: _, _, _, _, h => by simp at h
  | _ :: _, [], _, _, _, h => by simp at h
  | a :: as, b :: bs, σ, ra, rb, h => by
    simp only [List.cons_append, Args.ofList, unifyArgsWith, unifyList]
    cases hu : unify k σ a b with
    | out => rfl
    | done r =>
      cases r with
      | none => rfl
      | some σ' => exact unifyArgs_append k as bs σ' ra rb (by simpa using h)

/-! ### applying the stores completely -/

mutual
  /-- the same term up to the correspondence of the variables -/
  inductive TRel (ρ : Nat → Nat → Prop) : Term → Term → Prop
    | var {a b : Nat} : ρ a b → TRel ρ (.var a) (.var b)
    | atom (a : String) : TRel ρ (.atom a) (.atom a)
    | int (i : Int) : TRel ρ (.int i) (.int i)
    | flt (b : UInt64) : TRel ρ (.flt b) (.flt b)
    | str (i : Nat) : TRel ρ (.str i) (.str i)
    | app {f : String} {as bs : Args} : TRelA ρ as bs → TRel ρ (.app f as) (.app f bs)
  inductive TRelA (ρ : Nat → Nat → Prop) : Args → Args → Prop
    | nil : TRelA ρ .nil .nil
    | cons {a b : Term} {as bs : Args} : TRel ρ a b → TRelA ρ as bs → TRelA ρ (.cons a as) (.cons b bs)
end

def ResRel (ρ : Nat → Nat → Prop) : Option Term → Option Term → Prop
  | none, none => True
  | some t, some u => TRel ρ t u
  | _, _ => False

def ResRelA (ρ : Nat → Nat → Prop) : Option Args → Option Args → Prop
  | none, none => True
  | some t, some u => TRelA ρ t u
  | _, _ => False

theorem resolveArgs_sim (W : World) (k : Nat)
    (IH : ∀ t u, Sim W k t u → ResRel W.ρ (resolve k W.σS t) (resolve k W.σD u)) :
    ∀ (as bs : Args), ArgsRel (Sim W k) as bs →
      ResRelA W.ρ (resolveArgsWith (resolve k W.σS) as) (resolveArgsWith (resolve k W.σD) bs)
  | .nil, _, h => by cases h; simp only [resolveArgsWith]; exact .nil
  | .cons a as, _, h => by
    cases h with
    | cons r rs =>
      rename_i b bs
      simp only [resolveArgsWith]
      have h1 := IH a b r
      have h2 := resolveArgs_sim W k IH as bs rs
      match hS : resolve k W.σS a, hD : resolve k W.σD b, h1 with
      | none, none, _ => simp only [ResRelA]
      | some a', some b', h1 =>
        match hS2 : resolveArgsWith (resolve k W.σS) as, hD2 : resolveArgsWith (resolve k W.σD) bs, h2 with
        | none, none, _ => simp only [ResRelA]
        | some as', some bs', h2 => exact .cons h1 h2

/-- related terms resolve (with the same fuel) to the same term up to the correspondence, or both
    run out of fuel -/
theorem resolve_sim (W : World) : ∀ (k : Nat) (t u : Term), Sim W k t u →
    ResRel W.ρ (resolve k W.σS t) (resolve k W.σD u)
  | 0, _, _, _ => by simp only [resolve, ResRel]
  | k + 1, t, u, h => by
    unfold Sim at h
    unfold resolve
    revert h
    generalize walk W.σS t = a
    generalize walk W.σD u = b
    intro h
    cases h with
    | var r => exact .var r
    | atom c => exact .atom c
    | int c => exact .int c
    | flt c => exact .flt c
    | str c => exact .str c
    | app r =>
      rename_i f as bs
      simp only []
      have := resolveArgs_sim W k (resolve_sim W k) as bs r
      match hS : resolveArgsWith (resolve k W.σS) as, hD : resolveArgsWith (resolve k W.σD) bs, this with
      | none, none, _ => simp only [Option.map, ResRel]
      | some as', some bs', h => exact .app h

/-! ### canonical forms -/

theorem indexOf_go_rel {ρ : Nat → Nat → Prop} (fn : ∀ a b b', ρ a b → ρ a b' → b = b')
    (inj : ∀ a a' b, ρ a b → ρ a' b → a = a') {a b : Nat} (r : ρ a b) :
    ∀ {xs ys : List Nat}, All2 ρ xs ys → ∀ i, indexOf?.go a xs i = indexOf?.go b ys i := by
  intro xs ys h
  induction h with
  | nil => intro i; rfl
  | @cons x y xs ys rxy _ ih =>
    intro i
    simp only [indexOf?.go]
    by_cases hx : x = a
    · have : y = b := fn _ _ _ rxy (hx ▸ r)
      simp [hx, this]
    · have : y ≠ b := fun e => hx (inj _ _ _ rxy (e ▸ r))
      simp only [hx, this, if_false]
      exact ih (i + 1)

mutual
  theorem canonAux_trel {ρ : Nat → Nat → Prop} (fn : ∀ a b b', ρ a b → ρ a b' → b = b')
      (inj : ∀ a a' b, ρ a b → ρ a' b → a = a') :
      ∀ (t u : Term), TRel ρ t u → ∀ (xs ys : List Nat), All2 ρ xs ys →
        (t.canonAux xs).1 = (u.canonAux ys).1 ∧ All2 ρ (t.canonAux xs).2 (u.canonAux ys).2
    | .var a, _, h, xs, ys, hxy => by
      cases h with
      | var r =>
        rename_i b
        simp only [Term.canonAux, indexOf?]
        rw [indexOf_go_rel fn inj r hxy 0]
        cases indexOf?.go b ys 0 with
        | some i => exact ⟨rfl, hxy⟩
        | none => exact ⟨by simp [hxy.length_eq], hxy.append (.cons r .nil)⟩
    | .atom _, _, h, xs, ys, hxy => by cases h; exact ⟨rfl, hxy⟩
    | .int _, _, h, xs, ys, hxy => by cases h; exact ⟨rfl, hxy⟩
    | .flt _, _, h, xs, ys, hxy => by cases h; exact ⟨rfl, hxy⟩
    | .str _, _, h, xs, ys, hxy => by cases h; exact ⟨rfl, hxy⟩
    | .app f as, _, h, xs, ys, hxy => by
      cases h with
      | app r =>
        rename_i bs
        have := canonArgs_trel fn inj as bs r xs ys hxy
        simp only [Term.canonAux, this.1]
        exact ⟨trivial, this.2⟩
  theorem canonArgs_trel {ρ : Nat → Nat → Prop} (fn : ∀ a b b', ρ a b → ρ a b' → b = b')
      (inj : ∀ a a' b, ρ a b → ρ a' b → a = a') :
      ∀ (as bs : Args), TRelA ρ as bs → ∀ (xs ys : List Nat), All2 ρ xs ys →
        (as.canonAux xs).1 = (bs.canonAux ys).1 ∧ All2 ρ (as.canonAux xs).2 (bs.canonAux ys).2
    | .nil, _, h, xs, ys, hxy => by cases h; exact ⟨rfl, hxy⟩
    | .cons a as, _, h, xs, ys, hxy => by
      cases h with
      | cons r rs =>
        rename_i b bs
        have h1 := canonAux_trel fn inj a b r xs ys hxy
        have h2 := canonArgs_trel fn inj as bs rs _ _ h1.2
        simp only [Args.canonAux, h1.1, h2.1]
        exact ⟨trivial, h2.2⟩
end

/-- terms that are equal up to a one-to-one correspondence of their variables have the same
    canonical form -/
theorem canon_trel {ρ : Nat → Nat → Prop} (fn : ∀ a b b', ρ a b → ρ a b' → b = b')
    (inj : ∀ a a' b, ρ a b → ρ a' b → a = a') {t u : Term} (h : TRel ρ t u) : t.canon = u.canon :=
  (canonAux_trel fn inj t u h [] [] .nil).1

/-- **answers.**  In a good world, related templates give the same projected answer. -/
theorem projected_eq {W : World} (hW : W.Good) (k : Nat) {t u : Term} (h : W.Eq t u) :
    (resolve k W.σS t).map Term.canon = (resolve k W.σD u).map Term.canon := by
  have := resolve_sim W k t u (h k)
  match hS : resolve k W.σS t, hD : resolve k W.σD u, this with
  | none, none, _ => rfl
  | some a, some b, h => simp only [Option.map]; rw [canon_trel hW.fn hW.inj h]

end PrologVerif.Grammar
