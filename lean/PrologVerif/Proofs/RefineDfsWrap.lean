/-
  Refine, part 11e — the search, continued: a call whose last clause is a WRAPPER
  (`P ; Q :- call((P ; Q)).` for a disjunction as a goal; the clauses before it — the two
  if-then-else clauses of `;`/2 — cannot unify with the goal).  The VM calls the clause: a frame of
  its own that the reference has NO LEVEL for (as for `true`): the reference runs the body of the
  clause in place of the goal, at the depth of the goal.  `direct_tail` (the frame without
  alternatives and without level) does the rest.
-/
import PrologVerif.Proofs.RefineDfsAlt
namespace PrologVerif.Refine
open PrologVerif PrologVerif.VM PrologVerif.DecompileCompile PrologVerif.Activation
  PrologVerif.RefineITree PrologVerif.RefineRobinson PrologVerif.VMScoped
  PrologVerif.Promise PrologVerif.DFSG PrologVerif.ForceDFSGConv

section
variable {fl : Bool} {mo : Option Nat} {tmpl : Term} {max : Nat} {prog : List Term} {F : Nat}

/-- the goals of an activated body without cut against the frames of the reference: no level needed -/
theorem grel_of_frRel_nocut {lv : Lv} {σ' : Subst} {π' : Nat → Nat} {D' : Nat → Prop} {d : Nat} {inst : Term → Term}
    {Bs : List Term} {Fs : List SLD.Frame} (hF : FrRel inst d Bs Fs) :
    (∀ bg ∈ Bs, bg ≠ .atom "!") → ∀ {G1 : List (Term × Nat)},
      Forall2 (fun g1 bg => InD D' g1.1 ∧ img σ' π' g1.1 = inst bg ∧ ∃ ρ', g1.1 = bg.rename ρ') G1 Bs →
      GRel none lv σ' π' D' G1 Fs := by
  induction hF with
  | nil => intro _ G1 h; cases h; exact .nil rfl
  | cons l hl _ ih =>
    intro hnc G1 h
    cases h with
    | cons hd tl =>
      obtain ⟨h1, h3, ρ', h4⟩ := hd
      refine .cons ⟨h1, l, Or.inl (by rw [h3]), fun hc => ?_⟩ (ih (fun bg hbg => hnc bg (by simp [hbg])) tl)
      rw [h4] at hc
      exact absurd (rename_eq_cut hc) (hnc _ (by simp))
  | callw l _ ih =>
    intro hnc G1 h
    cases h with
    | cons hd tl =>
      obtain ⟨h1, h3, ρ', h4⟩ := hd
      refine .cons ⟨h1, l, Or.inr ⟨⟨_, by rw [h4]; rfl⟩, by rw [h3]⟩, fun hc => ?_⟩
        (ih (fun bg hbg => hnc bg (by simp [hbg])) tl)
      rw [h4] at hc
      simp [SLD.call1, Term.rename, Term.subst] at hc

/-- the goals of a body without cut (cut parent `id`, no level) in front of the pending goals -/
theorem cutsOK_nocut {lv : Lv} {id : Nat} {G1 G : List (Term × Nat)}
    (hidn : id ∉ lv.map Prod.fst) (hnc : ∀ it ∈ G1, ¬ isCut it) (hco : CutsOK lv G) :
    CutsOK ((id, none) :: lv) (G1 ++ G) := by
  have hext := hext_push (lv := lv) (id := id) none hidn
  have hcoG : CutsOK ((id, none) :: lv) G := cutsOK_ext hext hco
  refine ⟨?_, ?_⟩
  · intro it hit hcut
    rcases List.mem_append.1 hit with h | h
    · exact absurd hcut (hnc it h)
    · exact hcoG.1 it h hcut
  · refine List.pairwise_append.2 ⟨?_, hcoG.2, ?_⟩
    · induction G1 with
      | nil => exact .nil
      | cons a G1 ih =>
        refine List.pairwise_cons.2 ⟨?_, ih (fun it hit => hnc it (by simp [hit]))⟩
        intro b _ hca
        exact absurd hca (hnc a (by simp))
    · intro a ha b _ hca
      exact absurd hca (hnc a ha)

/-- **the activation of a wrapper clause**: the goals of the body in front of the pending goals,
    against the reference's frames in front of the resolvent, on the path with the clause's frame
    WITHOUT level -/
theorem wrap_head {cl : Clause} {c g : Term} {K : Cont} {id : Nat} {m : MS} {q0 : Pr} {m1 : MS}
    {N : Nat} {env : Env} {σ : Subst} {π : Nat → Nat} {D : Nat → Prop} {nv d : Nat} {lv : Lv}
    {G : List (Term × Nat)} {R : List SLD.Frame} {q : Term}
    (hW : SimW tmpl N env σ π D nv) (hN : N ≤ m.user.nextVar) (hgD : InD D g) (hshape : Shape g)
    (hcg : ContGoals fl mo tmpl max K G) (hgr : GRel mo lv σ π D G R) (hco : CutsOK lv G) (hq' : q = img σ π tmpl)
    (hidn : id ∉ lv.map Prod.fst)
    (hev : evalThunk F (Thunk.clause cl (argList g) K env id) m = some (q0, m1))
    {Fs' : List SLD.Frame} (hit : AltRel fl σ π D nv d g cl c (some (.frames Fs'))) (hwb : WrapBody c) :
    ∃ fuel' env' N' K1 G1 σ' π' D', m.user.nextVar ≤ N' ∧ applyCont fuel' K1 env' (bump m N') = some (q0, m1) ∧
      SimW tmpl N' env' σ' π' D' nv ∧ ContGoals fl mo tmpl max K1 (G1 ++ G) ∧
      CutsOK ((id, none) :: lv) (G1 ++ G) ∧ q = img σ' π' tmpl ∧
      GRel mo ((id, none) :: lv) σ' π' D' (G1 ++ G) (Fs' ++ R) := by
  have hext := hext_push (lv := lv) (id := id) none hidn
  cases hit with
  | frames κ nv' τ2 ls hcr hkeyc hnv hκ1 hκ2 hκ3 hτ hsm1 hsm2 hFs =>
  rename_i Fs
  have hkey : functorName g = functorName (SLD.headBody c).1 ∧
      (argList g).length = (argList (SLD.headBody c).1).length := by
    have := hkeyc
    simp only [headKey, goalKey, Prod.mk.injEq] at this
    exact ⟨this.1.symm, this.2.symm⟩
  rcases thunk_head' (max := max) hcr hW F g K id m (q0, m1) hN hgD hshape hkey hev κ nv' hnv hκ1 hκ2 hκ3 with
    ⟨N', _, _, hno⟩ | ⟨fuel', env', N', K1, Bs, hN', hcont, hBs, _, hokh⟩
  · exact absurd hτ.sound (hno _)
  · obtain ⟨σ', π', D', G1, hW', hDD', heq, hcgK1, hbody, hDchar⟩ := hokh _ hτ
    have himg_old : ∀ t, InD D t → img σ' π' t = img σ π t := by
      intro t ht
      rw [heq t ht]
      apply hsm1
      intro z hz
      have hz' : ((t.subst σ).rename π).hasVar z = true := hz
      obtain ⟨u, hu, rfl⟩ := hasVar_rename _ hz'
      exact hW.bnd u (vars_subst_rv ht hu)
    have hvar : ∀ v : Nat, ∀ P : Nat → Prop, P v → ∀ w, (Term.var v).hasVar w = true → P w := by
      intro v P hP w hw
      simp only [Term.hasVar, beq_iff_eq] at hw
      subst hw; exact hP
    have hWB : SimW tmpl N' env' σ' π' D' nv := by
      refine ⟨hW'.mg, hW'.chain, hW'.pos, hW'.dlt, hW'.inj, ?_, hW'.tmplD⟩
      rintro x ⟨v, hv, hx⟩
      have h1 : (img σ' π' (.var v)).hasVar (π' x) = true := by
        simpa [img, Term.subst] using hasVar_rename_of hx
      rcases hDchar v hv with hv0 | ⟨x0, hx0, hx0e⟩
      · rw [himg_old (.var v) (hvar v _ hv0)] at h1
        have h1' : (((Term.var v).subst σ).rename π).hasVar (π' x) = true := h1
        obtain ⟨u, hu, hux⟩ := hasVar_rename _ h1'
        rw [← hux]
        exact hW.bnd u (vars_subst_rv (t := .var v) (hvar v _ hv0) hu)
      · rw [hx0e] at h1
        simp only [Term.rename, Term.subst] at h1
        exact hsm2 x0 hx0 _ h1
    have hq1 : q = img σ' π' tmpl := by rw [hq', himg_old tmpl hW.tmplD]
    have hgrR : GRel mo ((id, none) :: lv) σ' π' D' G R :=
      (grel_ext hext hgr).step_id hDD' himg_old
    -- the body is the list of its conjuncts: it is not `true`
    have hBs' : SLD.conjuncts (SLD.headBody c).2 = Bs := by
      rcases hBs with h | ⟨_, h⟩
      · exact h
      · exact absurd h hwb.2
    rw [← hBs'] at hbody
    have hnc1 : ∀ it ∈ G1, ¬ isCut it := by
      have key : ∀ {G1 : List (Term × Nat)} {Bs : List Term}, (∀ bg ∈ Bs, bg ≠ .atom "!") →
          Forall2 (fun (g1 : Term × Nat) bg => InD D' g1.1 ∧ g1.2 = id ∧ img σ' π' g1.1 = (bg.rename κ).subst τ2 ∧
            ∃ ρ', g1.1 = bg.rename ρ') G1 Bs → ∀ it ∈ G1, ¬ isCut it := by
        intro G1 Bs hnc h
        induction h with
        | nil => intro it hit; simp at hit
        | @cons a b as bs hd _ ih =>
          intro it hit hc
          rcases List.mem_cons.1 hit with rfl | hit
          · obtain ⟨_, _, _, ρ', h4⟩ := hd
            have hc' : it.1 = .atom "!" := hc
            rw [h4] at hc'
            exact hnc b (by simp) (rename_eq_cut hc')
          · exact ih (fun bg hbg => hnc bg (by simp [hbg])) it hit hc
      exact key hwb.1 hbody
    have hcoAll : CutsOK ((id, none) :: lv) (G1 ++ G) := cutsOK_nocut hidn hnc1 hco
    refine ⟨fuel', env', N', K1, G1, σ', π', D', hN', hcont, hWB, hcgK1 G hcg, hcoAll, hq1, ?_⟩
    rw [List.append_assoc]
    exact (grel_of_frRel_nocut hFs hwb.1 (hbody.imp (fun a b h => ⟨h.1, h.2.2.1, h.2.2.2⟩))).append (grel_skips hgrR ls)

/-- the wrapper clause, the last clause of its call: the frame that stays behind has no alternative
    and no level -/
theorem tw_last {k : Nat} (ihP : TPk fl mo tmpl max prog F k) (hprog : ∀ c ∈ prog, clauseS fl c = true)
    {cl : Clause} {c g : Term} {K : Cont} {env : Env} {id : Nat} {R : List SLD.Frame} {q : Term} {nv n d : Nat}
    {r : SLD.Res} {lv : Lv} {m : MS} {sig : SigG Err} {m' : MS} {ans0 : List Term} {Fs : List SLD.Frame}
    (hda : dfsAlts (VM.sem F) 0 (k + 1) (Thunk.clause cl (argList g) K env id) ({ id := id, delayed := [] } : Pr)
      (lv.map Prod.fst) m = some (sig, m'))
    (hgood : GoodA fl F (k + 1) (Thunk.clause cl (argList g) K env id) { id := id, delayed := [] } (lv.map Prod.fst) m)
    (hans : m.user.answers = ans0) (hid0 : id ≠ 0) (hidn : id ∉ lv.map Prod.fst) (hshape : Shape g)
    (hsim : SimAt fl mo tmpl max lv K env m.user.nextVar R q nv
      (fun σ π D => InD D g ∧ AltRel fl σ π D nv d g cl c (some (.frames Fs)) ∧ WrapBody c))
    (hs : SLD.solve false (progS prog) n d nv (Fs ++ R) q (max - ans0.length) = some r)
    (hok : LvOK mo lv d) (hst : StOK prog m) (hlt : ans0.length < max) :
    sig = .illScoped ∨ Match mo tmpl max prog lv ans0 m m' sig r := by
  subst hans
  cases hev : evalThunk F (Thunk.clause cl (argList g) K env id) m with
  | none => rw [dfsAlts_thunk_none (sem := VM.sem F) (by exact hev)] at hda; cases hda
  | some pr =>
  obtain ⟨q0, m1⟩ := pr
  obtain ⟨N, σ, π, D, G, hN, hW, hcg, hgr, hco, hq', hgD, hit, hwb⟩ := hsim
  obtain ⟨fuel', env', N', K1, G1, σ', π', D', hN', hcont, hWB, hcgK1, hcoAll, hq1, hgrAll⟩ :=
    wrap_head (F := F) hW hN hgD hshape hcg hgr hco hq' hidn hev hit hwb
  obtain ⟨hspec, hst1, hnv1⟩ := cont_run tmpl max prog hprog fuel' K1 env' (bump m N') q0 m1 hcont
    (fun hfl => (hgood _ _ .here).fine hfl _ hev) ((id, none) :: lv) (Fs ++ R) q nv
    ⟨N', σ', π', D', G1 ++ G, Nat.le_refl _, hWB, hcgK1, hgrAll, hcoAll, hq1, trivial⟩
    (stOK_bump hst N') n d r hs
  exact direct_tail ihP hda hgood hev hid0 hidn hspec hok hst1 hlt (Nat.le_trans hN' hnv1)

/-- a clause before the wrapper: its head cannot unify with the goal -/
theorem tw_dead {k : Nat} (ihP : TPk fl mo tmpl max prog F k)
    {it : Item} {its : List Item} {cl : Clause} {c g : Term} {K : Cont} {env : Env} {id : Nat} {R : List SLD.Frame}
    {q : Term} {nv n d : Nat} {r : SLD.Res} {lv : Lv} {m : MS} {sig : SigG Err} {m' : MS} {ans0 : List Term}
    {Fs : List SLD.Frame}
    (hda : dfsAlts (VM.sem F) 0 (k + 1) (Thunk.clause it.1 (argList g) K env id)
      ({ id := id, delayed := its.map (fun it => Thunk.clause it.1 (argList g) K env id) ++
          [Thunk.clause cl (argList g) K env id] } : Pr) (lv.map Prod.fst) m = some (sig, m'))
    (hgood : GoodA fl F (k + 1) (Thunk.clause it.1 (argList g) K env id)
      { id := id, delayed := its.map (fun it => Thunk.clause it.1 (argList g) K env id) ++
          [Thunk.clause cl (argList g) K env id] } (lv.map Prod.fst) m)
    (hans : m.user.answers = ans0) (hid0 : id ≠ 0) (hshape : Shape g)
    (hsim : SimAt fl mo tmpl max lv K env m.user.nextVar R q nv
      (fun σ π D => InD D g ∧ AltsRel fl σ π D nv d g (it :: its) ∧ (it :: its).filterMap (·.2.2) = [] ∧
        AltRel fl σ π D nv d g cl c (some (.frames Fs)) ∧ WrapBody c))
    (hs : SLD.solve false (progS prog) n d nv (Fs ++ R) q (max - ans0.length) = some r)
    (hok : LvOK mo lv d) (hst : StOK prog m) (hlt : ans0.length < max) :
    sig = .illScoped ∨ Match mo tmpl max prog lv ans0 m m' sig r := by
  subst hans
  obtain ⟨cl0, c0, oa⟩ := it
  simp only at hda hgood
  cases hev : evalThunk F (Thunk.clause cl0 (argList g) K env id) m with
  | none => rw [dfsAlts_thunk_none (sem := VM.sem F) (by exact hev)] at hda; cases hda
  | some pr =>
  obtain ⟨q0, m1⟩ := pr
  obtain ⟨N, σ, π, D, G, hN, hW, hcg, hgr, hco, hq', hgD, halts, hnil, hwr, hwb⟩ := hsim
  have hoa : oa = none ∧ its.filterMap (·.2.2) = [] := by
    cases oa with
    | none => exact ⟨rfl, by simpa using hnil⟩
    | some a => simp at hnil
  obtain ⟨rfl, hnil'⟩ := hoa
  have hhead : AltRel fl σ π D nv d g cl0 c0 none ∧ AltsRel fl σ π D nv d g its := by
    cases halts with
    | cons hit hR => exact ⟨hit, hR⟩
  obtain ⟨hit, hR⟩ := hhead
  cases hit with
  | dead κ nv' hcr hkeyc hnv hκ1 hκ2 hκ3 hclash =>
    have hkey : functorName g = functorName (SLD.headBody c0).1 ∧
        (argList g).length = (argList (SLD.headBody c0).1).length := by
      have := hkeyc
      simp only [headKey, goalKey, Prod.mk.injEq] at this
      exact ⟨this.1.symm, this.2.symm⟩
    rcases thunk_head' (mo := mo) (max := max) hcr hW F g K id m (q0, m1) hN hgD hshape hkey hev κ nv' hnv hκ1 hκ2 hκ3 with
      ⟨N', hN', hres, _⟩ | ⟨fuel', env', N', K1, Bs, hN', hcont, hBs, hnoclash, hokh⟩
    · simp only [Prod.mk.injEq] at hres
      obtain ⟨rfl, rfl⟩ := hres
      refine alt_fail ihP hda hgood hev hN' (PSpec.toW ?_) hok hst hlt
      exact .wrap rfl hid0 hshape
        ⟨N, σ, π, D, G, Nat.le_trans hN hN', hW, hcg, hgr, hco, hq', hgD, hR, hnil', hwr, hwb⟩ hs
    · obtain ⟨n0, hn0⟩ := hclash
      exact absurd hn0 (hnoclash n0)

end

end PrologVerif.Refine
