/-
  Proofs/StreamSeg.lean — sources that go on after an end of file (Reader.marks): the buffer never
  reads across an end-of-file mark the source has not reported, and "the source's last Read reported
  io.EOF" (errReader.err, what checkEOS uses for `at`) holds only while the buffer stands exactly at the
  mark that was reported.  Helper lemmas of C19_reset_segments_partial.
-/
import PrologVerif.Proofs.StreamBuf
namespace PrologVerif.Stream

/-- the marks of a well-formed segmented source: ascending, inside the source -/
def MarksOk (c : Cfg) : Prop :=
  c.rd.marks ≠ [] ∧ c.rd.marks.Pairwise (· ≤ ·) ∧ ∀ m ∈ c.rd.marks, m ≤ c.src.length

/-- where the segment the source is delivering ends: its next unreported mark, or the end of the source -/
def segLimit (c : Cfg) (b : Buf) : Nat := (c.rd.marks.drop b.eofs).head?.getD c.src.length

structure SegInv (c : Cfg) (b : Buf) : Prop where
  cur_le : b.cur ≤ b.fetched
  /-- nothing is fetched from behind a mark the source has not reported yet -/
  fetched_le : b.fetched ≤ segLimit c b
  eofs_le : b.eofs ≤ c.rd.marks.length
  /-- the recorded read error is io.EOF only while the buffer has fetched exactly up to the end of file that was
      reported: the mark reported last, or (all marks reported) the end of the source -/
  rderr : b.rdErr = true →
    (1 ≤ b.eofs ∧ c.rd.marks[b.eofs - 1]? = some b.fetched) ∨ (b.eofs = c.rd.marks.length ∧ b.fetched = c.src.length)
  pend : b.pendErr = true → b.rdErr = true

theorem segLimit_le (c : Cfg) (h : MarksOk c) (b : Buf) : segLimit c b ≤ c.src.length := by
  unfold segLimit
  cases hd : (c.rd.marks.drop b.eofs).head? with
  | none => simp
  | some m =>
    simp only [Option.getD_some]
    apply h.2.2
    have : m ∈ c.rd.marks.drop b.eofs := List.mem_of_mem_head? hd
    exact List.mem_of_mem_drop this

theorem head_drop (l : List Nat) (k : Nat) : (l.drop k).head? = l[k]? := by
  rw [List.head?_drop]

/-- in an ascending list the next mark is not before this one -/
theorem marks_mono (c : Cfg) (h : MarksOk c) (k : Nat) (m : Nat) (hm : c.rd.marks[k]? = some m) :
    m ≤ (c.rd.marks.drop (k + 1)).head?.getD c.src.length := by
  rw [head_drop]
  cases hn : c.rd.marks[k + 1]? with
  | none =>
    simp only [Option.getD_none]
    apply h.2.2
    exact List.mem_of_getElem? hm
  | some m' =>
    simp only [Option.getD_some]
    have hk : k < c.rd.marks.length := by
      by_cases hk : k < c.rd.marks.length
      · exact hk
      · rw [List.getElem?_eq_none (by omega)] at hm; exact absurd hm (by simp)
    have hk1 : k + 1 < c.rd.marks.length := by
      by_cases hk1 : k + 1 < c.rd.marks.length
      · exact hk1
      · rw [List.getElem?_eq_none (by omega)] at hn; exact absurd hn (by simp)
    have e1 : c.rd.marks[k] = m := by rw [List.getElem?_eq_getElem hk] at hm; exact Option.some.inj hm
    have e2 : c.rd.marks[k + 1] = m' := by rw [List.getElem?_eq_getElem hk1] at hn; exact Option.some.inj hn
    rw [← e1, ← e2]
    exact List.pairwise_iff_getElem.mp h.2.1 k (k + 1) hk hk1 (by omega)

/-- one Read of a segmented source keeps the invariant -/
theorem fillSeg_inv {c : Cfg} (hm : MarksOk c) {b : Buf} (h : SegInv c b) : SegInv c (fillSeg c.src c.rd b) := by
  have hlim : segLimit c b = (c.rd.marks.drop b.eofs).head?.getD c.src.length := rfl
  cases hd : (c.rd.marks.drop b.eofs).head? with
  | none =>
    -- all marks reported: an ordinary finite source from here on
    have hempty : (c.rd.marks.drop b.eofs).isEmpty = true := by
      cases hl : c.rd.marks.drop b.eofs with
      | nil => rfl
      | cons x xs => rw [hl] at hd; simp at hd
    have heq : b.eofs = c.rd.marks.length := by
      have : c.rd.marks.drop b.eofs = [] := by simpa using hempty
      have := List.drop_eq_nil_iff.mp this
      have := h.eofs_le; omega
    have hl : segLimit c b = c.src.length := by rw [hlim, hd]; rfl
    unfold fillSeg
    simp only [hd, hempty, Option.getD_none, if_true, ite_self]
    split
    · rename_i hlt
      refine ⟨?_, ?_, h.eofs_le, ?_, ?_⟩
      · simp only; have := h.cur_le; omega
      · show _ ≤ segLimit c _
        unfold segLimit; simp only [hd, Option.getD_none]; omega
      · simp only [Bool.and_eq_true, decide_eq_true_eq]
        intro hh; right; exact ⟨heq, hh.2⟩
      · simp only; intro hh; exact hh
    · rename_i hge
      have hf : b.fetched = c.src.length := by have := h.fetched_le; omega
      refine ⟨h.cur_le, ?_, h.eofs_le, ?_, ?_⟩
      · show _ ≤ segLimit c _
        unfold segLimit; simp only [hd, Option.getD_none]; omega
      · intro _; right; exact ⟨heq, hf⟩
      · intro _; rfl
  | some m =>
    have hne : (c.rd.marks.drop b.eofs).isEmpty = false := by
      cases hl : c.rd.marks.drop b.eofs with
      | nil => rw [hl] at hd; simp at hd
      | cons x xs => rfl
    have hmk : c.rd.marks[b.eofs]? = some m := by rw [← head_drop]; exact hd
    have hlt' : b.eofs < c.rd.marks.length := by
      by_cases hk : b.eofs < c.rd.marks.length
      · exact hk
      · rw [List.getElem?_eq_none (by omega)] at hmk; exact absurd hmk (by simp)
    have hl : segLimit c b = m := by rw [hlim, hd]; rfl
    have hnext := marks_mono c hm b.eofs m hmk
    unfold fillSeg
    simp only [hd, hne, Option.getD_some, Bool.false_eq_true, if_false]
    split
    · rename_i hlt
      by_cases heof : (c.rd.eofWithData && decide (b.fetched + max 1 (min (c.rd.chunk b.fetched) (min (m - b.fetched) (4096 - (b.fetched - b.cur)))) = m)) = true
      · -- the last bytes of the segment, with io.EOF: the mark is reported
        simp only [heof, if_true]
        have hfm : b.fetched + max 1 (min (c.rd.chunk b.fetched) (min (m - b.fetched) (4096 - (b.fetched - b.cur)))) = m := by
          simp only [Bool.and_eq_true, decide_eq_true_eq] at heof; exact heof.2
        refine ⟨?_, ?_, by show b.eofs + 1 ≤ _; omega, ?_, ?_⟩
        · simp only; have := h.cur_le; omega
        · show _ ≤ segLimit c _
          unfold segLimit; simp only; rw [hfm]; exact hnext
        · intro _; left
          refine ⟨by show 1 ≤ b.eofs + 1; omega, ?_⟩
          show c.rd.marks[b.eofs + 1 - 1]? = some _
          rw [Nat.add_sub_cancel, hmk, hfm]
        · intro _; rfl
      · simp only [heof, Bool.false_eq_true, if_false]
        refine ⟨?_, ?_, h.eofs_le, ?_, ?_⟩
        · simp only; have := h.cur_le; omega
        · show _ ≤ segLimit c _
          unfold segLimit; simp only [hd, Option.getD_some]; omega
        · intro hh; exact absurd hh (by simp)
        · intro hh; exact absurd hh (by simp)
    · rename_i hge
      -- at the mark: io.EOF, the mark is reported, the source goes on behind it
      have hf : b.fetched = m := by have := h.fetched_le; omega
      refine ⟨h.cur_le, ?_, by show b.eofs + 1 ≤ _; omega, ?_, ?_⟩
      · show _ ≤ segLimit c _
        unfold segLimit; simp only; rw [hf]; exact hnext
      · intro _; left
        refine ⟨by show 1 ≤ b.eofs + 1; omega, ?_⟩
        show c.rd.marks[b.eofs + 1 - 1]? = some _
        rw [Nat.add_sub_cancel, hmk, hf]
      · intro _; rfl

theorem fill_seg_inv {c : Cfg} (hm : MarksOk c) {b : Buf} (h : SegInv c b) : SegInv c (fill c.src c.rd b) := by
  unfold fill; rw [if_neg hm.1]; exact fillSeg_inv hm h

theorem fillForRune_seg_inv {c : Cfg} (hm : MarksOk c) (n : Nat) {b : Buf} (h : SegInv c b) :
    SegInv c (fillForRune c.src c.rd n b) := by
  induction n generalizing b with
  | zero => exact h
  | succ n ih =>
    unfold fillForRune
    split
    · exact ih (fill_seg_inv hm h)
    · exact h

/-- Stream.reset: a new buffer over the same source, which is where it is -/
theorem reset_seg_inv {c : Cfg} {b : Buf} (h : SegInv c b) :
    SegInv c { cur := b.fetched, fetched := b.fetched, eofs := b.eofs } := by
  refine ⟨Nat.le_refl _, h.fetched_le, h.eofs_le, ?_, ?_⟩ <;> (intro hh; exact absurd hh (by simp))

/-- only `cur` (within what is fetched), `pendErr` (cleared) and the unread bookkeeping change -/
theorem SegInv.of_same_source {c : Cfg} {b b' : Buf} (h : SegInv c b) (hc : b'.cur ≤ b'.fetched)
    (hf : b'.fetched = b.fetched) (he : b'.eofs = b.eofs) (hr : b'.rdErr = b.rdErr)
    (hp : b'.pendErr = true → b.pendErr = true) : SegInv c b' := by
  refine ⟨hc, ?_, ?_, ?_, ?_⟩
  · have := h.fetched_le; unfold segLimit at *; rw [hf, he]; exact this
  · rw [he]; exact h.eofs_le
  · rw [hr, he, hf]; exact h.rderr
  · intro hh; rw [hr]; exact h.pend (hp hh)

/-- bufio.ReadRune over a segmented source; when it reports io.EOF the buffer is empty and the source's last
    Read reported io.EOF -/
theorem bufReadRune_seg_inv {c : Cfg} (hm : MarksOk c) {b : Buf} (h : SegInv c b) :
    SegInv c (bufReadRune c.src c.rd b).2 ∧
    (∀ (_ : (bufReadRune c.src c.rd b).1 = .eof),
      (bufReadRune c.src c.rd b).2.cur = (bufReadRune c.src c.rd b).2.fetched ∧
      (bufReadRune c.src c.rd b).2.rdErr = true) := by
  have h1 := fillForRune_seg_inv hm 4 h
  unfold bufReadRune
  simp only
  generalize fillForRune c.src c.rd 4 b = b1 at h1
  by_cases heq : b1.cur = b1.fetched
  · rw [if_pos heq]
    by_cases hp : b1.pendErr = true
    · rw [if_pos hp]
      refine ⟨h1.of_same_source (Nat.le_of_eq heq) rfl rfl rfl (by intro hh; simp at hh), ?_⟩
      intro _; exact ⟨heq, h1.pend hp⟩
    · rw [if_neg hp]
      refine ⟨h1.of_same_source h1.cur_le rfl rfl rfl (fun hh => hh), ?_⟩
      intro hh; simp at hh
  · rw [if_neg heq]
    have hle := segLimit_le c hm b1
    have hsz := decodeRune_size_le (avail c.src b1)
    rw [avail_length _ _ (Nat.le_trans h1.fetched_le hle)] at hsz
    refine ⟨h1.of_same_source (by show b1.cur + _ ≤ b1.fetched; have := h1.cur_le; omega) rfl rfl rfl (fun hh => hh), ?_⟩
    intro hh; simp at hh

theorem bufReadByte_seg_inv {c : Cfg} (hm : MarksOk c) {b : Buf} (h : SegInv c b) :
    SegInv c (bufReadByte c.src c.rd b).2 ∧
    (∀ (_ : (bufReadByte c.src c.rd b).1 = .eof),
      (bufReadByte c.src c.rd b).2.cur = (bufReadByte c.src c.rd b).2.fetched ∧
      (bufReadByte c.src c.rd b).2.rdErr = true) := by
  have h1 : SegInv c (if b.cur = b.fetched ∧ b.pendErr = false then fill c.src c.rd b else b) := by
    split
    · exact fill_seg_inv hm h
    · exact h
  unfold bufReadByte
  simp only
  generalize (if b.cur = b.fetched ∧ b.pendErr = false then fill c.src c.rd b else b) = b1 at h1
  by_cases heq : b1.cur = b1.fetched
  · rw [if_pos heq]
    by_cases hp : b1.pendErr = true
    · rw [if_pos hp]
      refine ⟨h1.of_same_source (Nat.le_of_eq heq) rfl rfl rfl (by intro hh; simp at hh), ?_⟩
      intro _; exact ⟨heq, h1.pend hp⟩
    · rw [if_neg hp]
      refine ⟨h1.of_same_source h1.cur_le rfl rfl rfl (fun hh => hh), ?_⟩
      intro hh; simp at hh
  · rw [if_neg heq]
    cases hx : c.src[b1.cur]? with
    | some x =>
      simp only
      refine ⟨h1.of_same_source (by show b1.cur + 1 ≤ b1.fetched; have := h1.cur_le; omega) rfl rfl rfl (fun hh => hh), ?_⟩
      intro hh; simp at hh
    | none =>
      simp only
      refine ⟨h1.of_same_source h1.cur_le rfl rfl rfl (fun hh => hh), ?_⟩
      intro hh; simp at hh

theorem bufUnreadRune_seg_inv {c : Cfg} {b b' : Buf} (h : SegInv c b) (hu : bufUnreadRune b = some b') : SegInv c b' := by
  unfold bufUnreadRune at hu
  split at hu
  · split at hu
    · simp at hu
    · simp only [Option.some.injEq] at hu; subst hu
      exact h.of_same_source (by show b.cur - _ ≤ b.fetched; have := h.cur_le; omega) rfl rfl rfl (fun hh => hh)
  · simp at hu

theorem bufUnreadByte_seg_inv {c : Cfg} {b b' : Buf} (h : SegInv c b) (hu : bufUnreadByte b = some b') : SegInv c b' := by
  unfold bufUnreadByte at hu
  split at hu
  · simp at hu
  · simp only [Option.some.injEq] at hu; subst hu
    exact h.of_same_source (by show b.cur - 1 ≤ b.fetched; have := h.cur_le; omega) rfl rfl rfl (fun hh => hh)

/-- what checkEOS concludes from "buffer empty and the source's last Read reported io.EOF": the buffer stands
    exactly at the end of file that was reported — no byte of the segment that just ended is unread, and no
    byte behind the mark has been fetched -/
theorem at_means_segment_end {c : Cfg} {b : Buf} (h : SegInv c b) (he : b.buffered = 0) (hr : b.rdErr = true) :
    b.cur = b.fetched ∧
    ((1 ≤ b.eofs ∧ c.rd.marks[b.eofs - 1]? = some b.cur) ∨ (b.eofs = c.rd.marks.length ∧ b.cur = c.src.length)) := by
  have hc : b.cur = b.fetched := by unfold Buf.buffered at he; have := h.cur_le; omega
  refine ⟨hc, ?_⟩
  rw [hc]; exact h.rderr hr

/-- the operations a stream performs on its buffer (Model/Stream.lean: ReadRune → bufReadRune, ReadByte →
    bufReadByte, UnreadRune/UnreadByte → bufUnread…, reset → a new buffer over the same source) -/
inductive BufOp | readRune | readByte | unreadRune | unreadByte | reset

def applyBufOp (c : Cfg) : BufOp → Buf → Buf
  | .readRune, b => (bufReadRune c.src c.rd b).2
  | .readByte, b => (bufReadByte c.src c.rd b).2
  | .unreadRune, b => (bufUnreadRune b).getD b
  | .unreadByte, b => (bufUnreadByte b).getD b
  | .reset, b => { cur := b.fetched, fetched := b.fetched, eofs := b.eofs }


end PrologVerif.Stream
