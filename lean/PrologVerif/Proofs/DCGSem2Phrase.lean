/-
  Proofs/DCGSem2Phrase — from the denotation ⟦b⟧ to `Grammar.phrase` (phrase/3 of the
  specification: parse, then unify what is left with the third argument) when the third argument
  is a fresh variable: the final unification binds that variable (or the remainder variable to
  it) on the denotation's side only; afterwards the query's template is the same on both sides.
-/
import PrologVerif.Proofs.DCGSem2Top
namespace PrologVerif.Grammar
open PrologVerif

/-- the denotation's side binds an untouched variable -/
def World.bindD (W : World) (v : Nat) (u : Term) : World := { W with σD := (v, u) :: W.σD }

theorem World.bindD_ok {W : World} (hW : W.Good) {v : Nat} (u : Term) (hv : ¬ W.TD v) (hlt : v < W.nD) :
    (W.bindD v u).Good ∧ ∀ t t', W.Eq t t' → (W.bindD v u).Eq t t' := by
  have hunb : ∀ a b, (W.bindD v u).ρ a b →
      (∀ p ∈ (W.bindD v u).σS, p.1 ≠ a) ∧ (∀ p ∈ (W.bindD v u).σD, p.1 ≠ b) := by
    intro a b r
    refine ⟨(hW.unb a b r).1, fun p hp => ?_⟩
    simp only [World.bindD, List.mem_cons] at hp
    rcases hp with rfl | hp
    · exact fun e => hv (.inr ⟨a, by have e' : v = b := e; rw [e']; exact r⟩)
    · exact (hW.unb a b r).2 p hp
  refine ⟨⟨hW.fn, hW.inj, hW.scS, fun x hx => ?_, hunb⟩, ?_⟩
  · rcases hx with ⟨p, hp, e⟩ | ⟨a, r⟩
    · simp only [World.bindD, List.mem_cons] at hp
      rcases hp with rfl | hp
      · rw [← e]; exact hlt
      · exact hW.scD x (.inl ⟨p, hp, e⟩)
    · exact hW.scD x (.inr ⟨a, r⟩)
  · refine persist (ΔS := []) (ΔD := [(v, u)]) rfl rfl ?_
    intro x y r k _
    have hy : y ≠ v := fun e => hv (.inr ⟨x, e ▸ r⟩)
    rw [walk_single]
    simp only [hy, if_false, walk]
    exact .var r

/-- the denotation's side binds a variable `c` that has a partner to an untouched variable `v`,
    which takes its place -/
def World.swapD (W : World) (c v : Nat) : World :=
  { W with σD := (c, .var v) :: W.σD, ρ := fun x y => (W.ρ x y ∧ y ≠ c) ∨ (y = v ∧ W.ρ x c) }

theorem World.swapD_ok {W : World} (hW : W.Good) {a c v : Nat} (hc : W.ρ a c) (hv : ¬ W.TD v) (hlt : v < W.nD) :
    (W.swapD c v).Good ∧ ∀ t t', W.Eq t t' → (W.swapD c v).Eq t t' := by
  have hvρ : ∀ x, ¬ W.ρ x v := fun x r => hv (.inr ⟨x, r⟩)
  have hunb : ∀ x y, (W.swapD c v).ρ x y →
      (∀ p ∈ (W.swapD c v).σS, p.1 ≠ x) ∧ (∀ p ∈ (W.swapD c v).σD, p.1 ≠ y) := by
    intro x y r
    rcases r with r | r
    · refine ⟨(hW.unb x y r.1).1, fun p hp => ?_⟩
      simp only [World.swapD, List.mem_cons] at hp
      rcases hp with rfl | hp
      · exact fun e => r.2 e.symm
      · exact (hW.unb x y r.1).2 p hp
    · refine ⟨(hW.unb x c r.2).1, fun p hp => ?_⟩
      simp only [World.swapD, List.mem_cons] at hp
      rw [r.1]
      rcases hp with rfl | hp
      · exact fun e => hvρ a (by have e' : c = v := e; rw [← e']; exact hc)
      · exact W.unbD hv p hp
  refine ⟨⟨?_, ?_, fun x hx => ?_, fun y hy => ?_, hunb⟩, ?_⟩
  · intro x b b' h h'
    rcases h with h | h <;> rcases h' with h' | h'
    · exact hW.fn _ _ _ h.1 h'.1
    · exact absurd (hW.fn _ _ _ h.1 h'.2) h.2
    · exact absurd (hW.fn _ _ _ h'.1 h.2) h'.2
    · rw [h.1, h'.1]
  · intro x x' b h h'
    rcases h with h | h <;> rcases h' with h' | h'
    · exact hW.inj _ _ _ h.1 h'.1
    · exact absurd (h'.1 ▸ h.1) (hvρ x)
    · exact absurd (h.1 ▸ h'.1) (hvρ x')
    · exact hW.inj _ _ _ h.2 h'.2
  · rcases hx with ⟨p, hp, e⟩ | ⟨b, r⟩
    · exact hW.scS x (.inl ⟨p, hp, e⟩)
    · rcases r with r | r
      · exact hW.scS x (.inr ⟨b, r.1⟩)
      · exact hW.scS x (.inr ⟨c, r.2⟩)
  · rcases hy with ⟨p, hp, e⟩ | ⟨x, r⟩
    · simp only [World.swapD, List.mem_cons] at hp
      rcases hp with rfl | hp
      · rw [← e]; exact hW.scD c (.inr ⟨a, hc⟩)
      · exact hW.scD y (.inl ⟨p, hp, e⟩)
    · rcases r with r | r
      · exact hW.scD y (.inr ⟨x, r.1⟩)
      · rw [r.1]; exact hlt
  · refine persist (ΔS := []) (ΔD := [(c, .var v)]) rfl rfl ?_
    intro x y r k _
    rw [walk_single]
    simp only [walk]
    by_cases hy : y = c
    · subst hy; simp only [if_true]; exact .var (.inr ⟨rfl, r⟩)
    · simp only [hy, if_false]; exact .var (.inl ⟨r, hy⟩)

/-- **the final unification of phrase/3** with a fresh variable `v` as third argument: in a world
    where the SLD side's `v` is what the denotation's remainder `rem` is and `v` is untouched on
    the denotation's side, `unify rem v` succeeds (given fuel) and afterwards `v` is `v` -/
theorem final_unify (k : Nat) {W : World} (hW : W.Good) {rem : Term} {v : Nat} (he : W.Eq (.var v) rem)
    (hv : ¬ W.TD v) (hlt : v < W.nD) :
    ∃ σD', unify (k + 1) W.σD rem (.var v) = .done (some σD') ∧
      ∃ W' : World, W'.σS = W.σS ∧ W'.σD = σD' ∧ W'.Good ∧ (∀ t t', W.Eq t t' → W'.Eq t t') ∧
        W'.Eq (.var v) (.var v) := by
  have hwv : walk W.σD (.var v) = .var v := W.walkD_untouched hv
  by_cases hvar : isVar (walk W.σD rem) = true
  · obtain ⟨c, hc⟩ : ∃ c, walk W.σD rem = .var c := by
      cases h : walk W.σD rem <;> simp_all [isVar]
    have h1 := (W.Eq_unfold (.var v) rem).1 he
    rw [hc] at h1
    obtain ⟨a, hwa, ra⟩ : ∃ a, walk W.σS (.var v) = .var a ∧ W.ρ a c := by
      revert h1; generalize walk W.σS (.var v) = w; intro h1
      cases h1 with | var r => exact ⟨_, rfl, r⟩
    have hcv : c ≠ v := fun e => hv (.inr ⟨a, e ▸ ra⟩)
    obtain ⟨g, pe⟩ := World.swapD_ok hW ra hv hlt
    refine ⟨(c, .var v) :: W.σD, unify_walkvar_var k _ rem c v hc hcv (W.unbD hv), W.swapD c v, rfl, rfl, g, pe, ?_⟩
    rw [World.Eq_unfold]
    show Sim1 _ _ (walk W.σS (.var v)) (walk ((c, .var v) :: W.σD) (.var v))
    rw [hwa]
    have : walk ((c, .var v) :: W.σD) (.var v) = .var v := by
      simp only [walk, hwv]; simp [Ne.symm hcv]
    rw [this]
    exact .var (.inr ⟨rfl, ra⟩)
  · have hnv : isVar (walk W.σD rem) = false := by simpa using hvar
    obtain ⟨g, pe⟩ := World.bindD_ok hW (walk W.σD rem) hv hlt
    refine ⟨(v, walk W.σD rem) :: W.σD, unify_nonvar_var k _ rem _ v rfl hnv (W.unbD hv),
      W.bindD v (walk W.σD rem), rfl, rfl, g, pe, ?_⟩
    refine (pe _ _ he).of_walk rfl ?_
    show walk ((v, walk W.σD rem) :: W.σD) (.var v) = walk ((v, walk W.σD rem) :: W.σD) rem
    rw [walk_bind _ _ _ (W.unbD hv)]
    simp only [walk]
    cases h : walk W.σD rem <;> simp_all [isVar]

/-- `phrase`'s fold over the answers of the denotation -/
def phraseStep (uf : Nat) (r : Term) (a : St × Term) (acc : Res (List St)) : Res (List St) :=
  match acc, unify uf a.1.σ a.2 r with
  | .error e, _ => .error e
  | _, .out => .error .fuel
  | .ok rest, .done none => .ok rest
  | .ok rest, .done (some σ') => .ok ({ a.1 with σ := σ' } :: rest)

def phraseFold (uf : Nat) (r : Term) (answers : List (St × Term)) : Res (List St) :=
  answers.foldr (phraseStep uf r) (.ok [])

theorem phrase_eq (cfg : Cfg) (gr : Grammar) (n : Nat) (b : Body) (st : St) (l r : Term) :
    Grammar.phrase cfg gr n b st l r =
      (match den cfg gr n true b st l with
       | .error e => .error e
       | .ok o => phraseFold cfg.uf r o.answers) := rfl

/-- the SLD answers and the answers of phrase/3 (third argument the fresh variable `v`), projected
    on a template whose terms are related in the initial world -/
theorem phraseFold_projected (uf : Nat) {k nh : Nat} {P : Nat → Prop} (tS tD : Term)
    (ht : ∀ W' : World, (∀ t t', (World.init k nh).Eq t t' → W'.Eq t t') → W'.Eq (.var k) (.var k) → W'.Eq tS tD) :
    ∀ {As : List St} {Ds : List (St × Term)}, All2 (AnsW (World.init k nh) P k) As Ds →
      ∀ D, phraseFold uf (.var k) Ds = .ok D →
        As.map (fun st => (resolve uf st.σ tS).map Term.canon) = D.map (fun st => (resolve uf st.σ tD).map Term.canon) := by
  intro As Ds h
  induction h with
  | nil => intro D hD; simp [phraseFold] at hD; subst hD; rfl
  | @cons st' a As Ds hr _ ih =>
    intro D hD
    obtain ⟨W', e1, e2, g, st, he⟩ := hr
    have hvD : ¬ W'.TD k := by
      intro hv
      rcases st.tD k hv with h | h
      · rcases h with ⟨p, hp, _⟩ | ⟨a, r⟩
        · simp [World.init] at hp
        · have : a = k ∧ a < k := r
          omega
      · have : k + 1 ≤ k := h
        omega
    have hlt : k < W'.nD := by have : k + 1 ≤ W'.nD := st.nD; omega
    have hstep : phraseFold uf (.var k) (a :: Ds) = phraseStep uf (.var k) a (phraseFold uf (.var k) Ds) := rfl
    rw [hstep] at hD
    cases hrest : phraseFold uf (.var k) Ds with
    | error e => rw [hrest] at hD; simp [phraseStep] at hD
    | ok rest =>
      rw [hrest] at hD
      unfold phraseStep at hD
      cases uf with
      | zero => simp [unify] at hD
      | succ j =>
        have e2' : a.1.σ = W'.σD := by rw [e2]; rfl
        obtain ⟨σD', hu, W'', f1, f2, g'', pe, hvv⟩ := final_unify j g he hvD hlt
        rw [e2', hu] at hD
        simp only [Except.ok.injEq] at hD
        subst hD
        simp only [List.map_cons]
        rw [ih rest hrest]
        congr 1
        have hT := ht W'' (fun t t' h => pe _ _ (st.eq _ _ h)) hvv
        have := projected_eq g'' (j + 1) hT
        rw [f1, f2] at this
        rw [e1]
        exact this

/-- in the shape of the open statement, the third argument of phrase/3 a fresh variable `v` -/
theorem phrase_agrees (cfg : Cfg) (hcfg : cfg.engine = false) (gr : Grammar) (hgr : ∀ r ∈ gr, GoodRuleW false r)
    (q l : Term) (b : Body) (hq : Body.ofTerm q = .ok b) (hb : b.ok false = true) (v : Nat)
    (hqv : boundT q ≤ v) (hlv : boundT l ≤ v) (n : Nat) (A : SOut) (D : List St)
    (hA : solve cfg.uf (programOf gr) n (b.tr l (.var v) (v + 1)).1 ⟨[], v + 1 + b.nhid⟩ = .ok A)
    (hD : Grammar.phrase cfg gr n b ⟨[], v + 1⟩ l (.var v) = .ok D) :
    projected cfg.uf (Term.mk "t" [q, l, .var v]) A.answers = projected cfg.uf (Term.mk "t" [q, l, .var v]) D := by
  have hbk : b.varsBelow v = true := varsBelow_mono b hqv (ofTerm_varsBelow q b hq)
  have h := query_simW false cfg hcfg gr hgr b hb l v hbk hlv n
  rw [hA] at h
  rw [phrase_eq] at hD
  cases hden : den cfg gr n true b ⟨[], v + 1⟩ l with
  | error e => rw [hden] at hD; simp at hD
  | ok O =>
    rw [hden] at h hD
    simp only [] at hD
    obtain ⟨_, hall⟩ := h
    unfold projected
    refine phraseFold_projected cfg.uf _ _ (fun W' pe hvv => ?_) hall D hD
    rw [World.Eq_unfold]
    simp only [Term.mk, Args.ofList]
    rw [walk_nonvar _ _ rfl, walk_nonvar _ _ rfl]
    exact .app (.cons (pe _ _ (World.init_eq v b.nhid q hqv)) (.cons (pe _ _ (World.init_eq v b.nhid l hlv))
      (.cons hvv .nil)))

end PrologVerif.Grammar
