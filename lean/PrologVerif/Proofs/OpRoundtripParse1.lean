/-
  P2: the reader on operator tokens — small-step facts and the combinators of the correctness
  argument for operator-precedence printing.

  `ParsesAs mp X rest t …`: `term mp` on the tokens `X ++ rest` reads `X` as the operand `t` and goes on
  with its `for` loop (`infixLoop mp t`) at `rest`.
-/
import PrologVerif.Proofs.OpRoundtripDefs
set_option linter.unusedSimpArgs false
set_option linter.unusedVariables false
namespace PrologVerif.Write
open PrologVerif PrologVerif.Lexer PrologVerif.Ops PrologVerif.Read

/-! ## the table -/

theorem opOf_some {ops : Table} {a : String} {c : Class} {op : Op} (h : opOf ops a c = some op) :
    ∃ d ∈ ops, d.name = a ∧ d.spec.cls = c ∧ op = ⟨d.pri, d.spec, d.name⟩ := by
  unfold opOf Ops.lookup at h
  cases hf : ops.find? (fun o => slot o a c) with
  | none => simp [hf] at h
  | some d =>
    have hm := List.mem_of_find?_eq_some hf
    have hp := List.find?_some hf
    simp only [slot, Bool.and_eq_true, beq_iff_eq] at hp
    simp only [hf, Option.map_some, Option.some.injEq] at h
    exact ⟨d, hm, hp.1, hp.2, h.symm⟩

theorem opOf_none_of_notDefinedInClass {ops : Table} {a : String} {c : Class}
    (h : definedInClass ops a c = false) : opOf ops a c = none := by
  unfold opOf Ops.lookup
  have : ops.find? (fun o => slot o a c) = none := by
    rw [List.find?_eq_none]
    intro o ho hs
    have : definedInClass ops a c = true := by
      unfold definedInClass
      rw [List.any_eq_true]
      exact ⟨o, ho, hs⟩
    rw [h] at this; cases this
  simp [this]

/-- what `tableOK` says about an operator found in the table -/
structure OpFacts (ops : Table) (a : String) (c : Class) (op : Op) : Prop where
  name : op.name = a
  cls : op.spec.cls = c
  hi : op.pri ≤ 1200
  noList : a ≠ "[]"
  noCurly : a ≠ "{}"
  noPost : c = .inf → opOf ops a .post = none
  noInf : c = .post → opOf ops a .inf = none
  comma : a = "," → c = .inf ∧ op.pri = 1000
  bar : a = "|" → c = .inf ∧ 1001 ≤ op.pri

theorem opFacts {ops : Table} (hops : tableOK ops = true) {a : String} {c : Class} {op : Op}
    (h : opOf ops a c = some op) : OpFacts ops a c op := by
  obtain ⟨d, hd, hn, hc, rfl⟩ := opOf_some h
  unfold tableOK at hops
  rw [List.all_eq_true] at hops
  have hd' := hops d hd
  simp only [Bool.and_eq_true, decide_eq_true_eq, Bool.not_eq_true', Bool.and_eq_false_iff,
    decide_eq_false_iff_not] at hd'
  obtain ⟨⟨⟨⟨⟨h1, h2⟩, h3⟩, h4⟩, h5⟩, h6⟩ := hd'
  subst hn
  refine ⟨rfl, hc, h1, h6.1, h6.2, ?_, ?_, ?_, ?_⟩
  · intro hi
    apply opOf_none_of_notDefinedInClass
    rcases h2 with h2 | h2
    · exact absurd (hc.trans hi) h2
    · exact h2
  · intro hi
    apply opOf_none_of_notDefinedInClass
    rcases h3 with h3 | h3
    · exact absurd (hc.trans hi) h3
    · exact h3
  · intro hn
    obtain ⟨h41, h42⟩ := h4 hn
    exact ⟨hc.symm.trans h41, h42⟩
  · intro hn
    obtain ⟨h51, h52⟩ := h5 hn
    exact ⟨hc.symm.trans h51, h52⟩

theorem opOf_cls {ops : Table} {a : String} {c : Class} {op : Op} (h : opOf ops a c = some op) :
    op.spec.cls = c ∧ op.name = a := by
  obtain ⟨d, _, hn, hc, rfl⟩ := opOf_some h
  exact ⟨hc, hn⟩

/-- the operator `WriteCompound` picks for a compound with one argument -/
theorem pickOp_one {ops : Table} {f : String} {op : Op} (h : pickOp ops f 1 = some op) :
    (op.spec.cls = .pre ∧ opOf ops f .pre = some op) ∨ (op.spec.cls = .post ∧ opOf ops f .post = some op) := by
  unfold pickOp at h
  simp only [List.findSome?_cons, List.findSome?_nil] at h
  cases h1 : opOf ops f .pre with
  | some o1 =>
    have hc := (opOf_cls h1).1
    simp [h1, hc] at h
    subst h
    exact .inl ⟨hc, rfl⟩
  | none =>
    cases h2 : opOf ops f .post with
    | some o2 =>
      have hc := (opOf_cls h2).1
      simp [h1, h2, hc] at h
      subst h
      exact .inr ⟨hc, rfl⟩
    | none =>
      cases h3 : opOf ops f .inf with
      | some o3 =>
        have hc := (opOf_cls h3).1
        simp [h1, h2, h3, hc] at h
      | none => simp [h1, h2, h3] at h

/-- … and with two arguments -/
theorem pickOp_two {ops : Table} {f : String} {op : Op} (h : pickOp ops f 2 = some op) :
    op.spec.cls = .inf ∧ opOf ops f .inf = some op := by
  have key : ∀ (x1 x2 x3 : Option Op), (∀ o, x1 = some o → o.spec.cls = .pre) →
      (∀ o, x2 = some o → o.spec.cls = .post) → (∀ o, x3 = some o → o.spec.cls = .inf) →
      [x1, x2, x3].findSome? (fun o => match o with
        | some o => if (if o.spec.cls = Class.inf then 2 else 1) = 2 then some o else none
        | none => none) = some op → op.spec.cls = .inf ∧ x3 = some op := by
    intro x1 x2 x3 c1 c2 c3 h
    cases x1 <;> cases x2 <;> cases x3 <;> simp_all
  exact key _ _ _ (fun o ho => (opOf_cls ho).1) (fun o ho => (opOf_cls ho).1) (fun o ho => (opOf_cls ho).1) h

/-! ## stop tokens -/

/-- tokens on which neither a term nor an operator starts -/
def HardStop (t : Token) : Prop :=
  t.kind = .end_ ∨ t.kind = .close ∨ t.kind = .closeCurly ∨ t.kind = .closeList

theorem atom_hard {t : Token} (h : HardStop t) (dq : DoubleQuotes) (b r : List Token) (vs : Vars) (nv : Nat) :
    Read.atom dq ⟨b, t :: r, vs, nv⟩ = (.error .expectation, ⟨b, t :: r, vs, nv⟩) := by
  rcases h with h | h | h | h <;> simp [Read.atom, Read.name, Read.next, Read.backup, h]

theorem op_hard {t : Token} (h : HardStop t) (dq : DoubleQuotes) (mp : Nat) (b r : List Token) (vs : Vars) (nv : Nat) :
    Read.op dq mp ⟨b, t :: r, vs, nv⟩ = (.error .expectation, ⟨b, t :: r, vs, nv⟩) := by
  rcases h with h | h | h | h <;> simp [Read.op, Read.atom, Read.name, Read.next, Read.backup, h]

/-- the `for` loop of `term(q)` stops at these tokens -/
def StopAt (ops : Table) (dq : DoubleQuotes) (q : Nat) (rest : List Token) : Prop :=
  ∀ (b : List Token) (vs : Vars) (nv : Nat),
    «infix» ops dq q ⟨b, rest, vs, nv⟩ = (.error .noOp, ⟨b, rest, vs, nv⟩)

theorem infixLoop_stopAt {ops : Table} {dq : DoubleQuotes} {q : Nat} {rest : List Token} (h : StopAt ops dq q rest)
    (fuel : Nat) (lhs : Term) (b : List Token) (vs : Vars) (nv : Nat) :
    infixLoop ops dq (fuel + 1) q lhs ⟨b, rest, vs, nv⟩ = (.ok lhs, ⟨b, rest, vs, nv⟩) := by
  simp [infixLoop, h b vs nv]

theorem stopAt_hard {t : Token} (h : HardStop t) (ops : Table) (dq : DoubleQuotes) (q : Nat) (r : List Token) :
    StopAt ops dq q (t :: r) := by
  intro b vs nv
  simp [«infix», op_hard h]

/-- `infix` in terms of `op` -/
theorem infix_of_op {ops : Table} {dq : DoubleQuotes} {mp : Nat} {p p' : PState} {a : String}
    (h : Read.op dq mp p = (.ok a, p')) :
    «infix» ops dq mp p =
      match (opOf ops a .inf).filter (fun o => o.pri ≤ mp) with
      | some o => (.ok o, p')
      | none =>
        match (opOf ops a .post).filter (fun o => o.pri ≤ mp) with
        | some o => (.ok o, p')
        | none => (.error .noOp, Read.backup p') := by
  unfold «infix»
  rw [h]
  dsimp only
  generalize (opOf ops a .inf).filter (fun o => o.pri ≤ mp) = x
  generalize (opOf ops a .post).filter (fun o => o.pri ≤ mp) = y
  cases x <;> cases y <;> rfl

theorem infix_of_op_err {ops : Table} {dq : DoubleQuotes} {mp : Nat} {p p' : PState} {e : PErr}
    (h : Read.op dq mp p = (.error e, p')) : «infix» ops dq mp p = (.error .noOp, p') := by
  unfold «infix»
  rw [h]

/-- the single token `t` is what the writer puts for the operator named `String.ofList s` -/
def OpTokP (s : List Char) (t : Token) : Prop :=
  (AtomToks s [t] ∧ ¬ isBracketAtom s) ∨ (t = commaTok ∧ s = [',']) ∨ (t = barTok ∧ s = ['|'])

theorem op_opTok {s : List Char} {t : Token} (h : OpTokP s t) (dq : DoubleQuotes) (mp : Nat)
    (hc : t = commaTok → 1000 ≤ mp) (b r : List Token) (vs : Vars) (nv : Nat) :
    Read.op dq mp ⟨b, t :: r, vs, nv⟩ = (.ok (String.ofList s), ⟨t :: b, r, vs, nv⟩) := by
  rcases h with ⟨h, hb⟩ | ⟨rfl, rfl⟩ | ⟨rfl, rfl⟩
  · have := op_atomToks h dq mp b r vs nv
    simpa [hb] using this
  · have := hc rfl
    simp [Read.op, Read.atom, Read.name, Read.next, Read.backup, commaTok, this]
  · simp [Read.op, Read.atom, Read.name, Read.next, Read.backup, barTok]

theorem op_commaTok_lt (dq : DoubleQuotes) (mp : Nat) (hc : mp < 1000) (b r : List Token) (vs : Vars) (nv : Nat) :
    Read.op dq mp ⟨b, commaTok :: r, vs, nv⟩ = (.error .expectation, ⟨b, commaTok :: r, vs, nv⟩) := by
  have : ¬ mp ≥ 1000 := by omega
  simp [Read.op, Read.atom, Read.name, Read.next, Read.backup, commaTok, this]

/-- the operator token of an infix operator that fits -/
theorem infix_opTok_inf {ops : Table} {s : List Char} {t : Token} (h : OpTokP s t) (dq : DoubleQuotes) (mp : Nat)
    {op : Op} (ho : opOf ops (String.ofList s) .inf = some op) (hp : op.pri ≤ mp)
    (hc : t = commaTok → 1000 ≤ mp) (b r : List Token) (vs : Vars) (nv : Nat) :
    «infix» ops dq mp ⟨b, t :: r, vs, nv⟩ = (.ok op, ⟨t :: b, r, vs, nv⟩) := by
  rw [infix_of_op (op_opTok h dq mp hc b r vs nv), ho]
  simp [Option.filter, hp]

/-- the operator token of a postfix operator that fits -/
theorem infix_opTok_post {ops : Table} {s : List Char} {t : Token} (h : OpTokP s t) (dq : DoubleQuotes) (mp : Nat)
    {op : Op} (hi : opOf ops (String.ofList s) .inf = none) (ho : opOf ops (String.ofList s) .post = some op)
    (hp : op.pri ≤ mp) (hc : t = commaTok → 1000 ≤ mp) (b r : List Token) (vs : Vars) (nv : Nat) :
    «infix» ops dq mp ⟨b, t :: r, vs, nv⟩ = (.ok op, ⟨t :: b, r, vs, nv⟩) := by
  rw [infix_of_op (op_opTok h dq mp hc b r vs nv), hi, ho]
  simp [Option.filter, hp]

/-- an operator token whose operators do not fit ends the loop -/
theorem stopAt_opTok {ops : Table} {s : List Char} {t : Token} (h : OpTokP s t) (dq : DoubleQuotes) (q : Nat)
    (hi : ∀ o, opOf ops (String.ofList s) .inf = some o → q < o.pri)
    (hpo : ∀ o, opOf ops (String.ofList s) .post = some o → q < o.pri) (r : List Token) :
    StopAt ops dq q (t :: r) := by
  intro b vs nv
  by_cases hc : t = commaTok ∧ q < 1000
  · obtain ⟨rfl, hq⟩ := hc
    rw [infix_of_op_err (op_commaTok_lt dq q hq b r vs nv)]
  · have hc' : t = commaTok → 1000 ≤ q := by
      intro ht
      have : ¬ q < 1000 := fun hq => hc ⟨ht, hq⟩
      omega
    rw [infix_of_op (op_opTok h dq q hc' b r vs nv)]
    have e1 : (opOf ops (String.ofList s) .inf).filter (fun o => o.pri ≤ q) = none := by
      cases ho : opOf ops (String.ofList s) .inf with
      | none => rfl
      | some o => have := hi o ho; simp [Option.filter]; omega
    have e2 : (opOf ops (String.ofList s) .post).filter (fun o => o.pri ≤ q) = none := by
      cases ho : opOf ops (String.ofList s) .post with
      | none => rfl
      | some o => have := hpo o ho; simp [Option.filter]; omega
    rw [e1, e2]
    rfl

/-! ## `prefix` -/

/-- `prefix` answers noOp, restoring the state, whenever `op` fails restoring the state -/
theorem prefix_of_op_err {ops : Table} {dq : DoubleQuotes} {mp : Nat} {p p' : PState} {e : PErr}
    (h : Read.op dq mp p = (.error e, p')) : «prefix» ops dq mp p = (.error .noOp, p') := by
  unfold «prefix»
  rw [h]

/-- a prefix operator that fits, followed by a token that is neither `(` directly nor (for `-`) a number -/
theorem prefix_opTok {ops : Table} {s : List Char} {t : Token} (h : AtomToks s [t]) (hb : ¬ isBracketAtom s)
    (dq : DoubleQuotes) (mp : Nat) {op : Op} (ho : opOf ops (String.ofList s) .pre = some op) (hp : op.pri ≤ mp)
    (nxt : Token) (hn : nxt.kind ≠ .openCT) (hnum : String.ofList s = "-" → isNumberKind nxt.kind = false)
    (b r : List Token) (vs : Vars) (nv : Nat) :
    «prefix» ops dq mp ⟨b, t :: nxt :: r, vs, nv⟩ = (.ok op, ⟨t :: b, nxt :: r, vs, nv⟩) := by
  have hop := op_atomToks h dq mp b (nxt :: r) vs nv
  simp only [hb, if_false, List.singleton_append, List.reverse_cons, List.reverse_nil, List.nil_append] at hop
  unfold «prefix»
  rw [hop]
  by_cases hm : String.ofList s = "-"
  · have ho' := ho
    rw [hm] at ho'
    simp [hm, Read.next, Read.backup, hn, hnum hm, ho', hp]
  · simp [hm, Read.next, Read.backup, hn, ho, hp]

/-- an atom that is not a prefix operator -/
theorem prefix_atom_noPre {ops : Table} {s : List Char} {toks : List Token} (h : AtomToks s toks)
    (dq : DoubleQuotes) (mp : Nat) (ho : opOf ops (String.ofList s) .pre = none)
    (nxt : Token) (b r : List Token) (vs : Vars) (nv : Nat) :
    «prefix» ops dq mp ⟨b, toks ++ nxt :: r, vs, nv⟩ = (.error .noOp, ⟨b, toks ++ nxt :: r, vs, nv⟩) := by
  by_cases hb : isBracketAtom s
  · exact prefix_bracket h hb ops dq mp b _ vs nv
  · obtain ⟨t, rfl⟩ := atomToks_single h hb
    have hop := op_atomToks h dq mp b (nxt :: r) vs nv
    simp only [hb, if_false, List.singleton_append, List.reverse_cons, List.reverse_nil, List.nil_append] at hop
    unfold «prefix»
    simp only [List.singleton_append]
    rw [hop]
    have ho' := ho
    by_cases hm : String.ofList s = "-"
    · rw [hm] at ho'
      by_cases hn : nxt.kind = .openCT
      · simp [hm, Read.next, Read.backup, hn, isNumberKind, ho']
      · by_cases hnum : isNumberKind nxt.kind = true <;> simp [hm, Read.next, Read.backup, hn, hnum, ho']
    · by_cases hn : nxt.kind = .openCT <;> simp [hm, Read.next, Read.backup, hn, ho]

/-! ## the combinators -/

/-- `term(mp)` on `X ++ rest` reads `X` as the operand `t` and goes on with its loop at `rest` -/
def ParsesAs (ops : Table) (dq : DoubleQuotes) (mp : Nat) (X rest : List Token) (t : Term)
    (vs : Vars) (nv : Nat) (vs' : Vars) (nv' : Nat) : Prop :=
  1 ≤ X.length ∧
  ∀ (fuel : Nat) (b : List Token), 8 * X.length ≤ fuel →
    ∃ k, k ≤ X.length ∧ term ops dq fuel mp ⟨b, X ++ rest, vs, nv⟩ =
      infixLoop ops dq (fuel - k) mp t ⟨X.reverse ++ b, rest, vs', nv'⟩

theorem op_open {t : Token} (h : t.kind = .open_ ∨ t.kind = .openCT) (dq : DoubleQuotes) (mp : Nat)
    (b r : List Token) (vs : Vars) (nv : Nat) :
    Read.op dq mp ⟨b, t :: r, vs, nv⟩ = (.error .expectation, ⟨b, t :: r, vs, nv⟩) := by
  rcases h with h | h <;> simp [Read.op, Read.atom, Read.name, Read.next, Read.backup, h]

theorem openTok_kind (sp : Bool) : (openTok sp).kind = .open_ ∨ (openTok sp).kind = .openCT := by
  cases sp <;> simp [openTok]

/-- a primary: `prefix` declines, `term0` reads it -/
theorem parses_primary {ops : Table} {dq : DoubleQuotes} {mp : Nat} {X rest : List Token} {t : Term}
    {vs : Vars} {nv : Nat} {vs' : Vars} {nv' : Nat} (hl : 1 ≤ X.length)
    (hp : ∀ b, «prefix» ops dq mp ⟨b, X ++ rest, vs, nv⟩ = (.error .noOp, ⟨b, X ++ rest, vs, nv⟩))
    (h0 : ∀ fuel b, 8 * X.length ≤ fuel + 1 →
      term0 ops dq fuel mp ⟨b, X ++ rest, vs, nv⟩ = (.ok t, ⟨X.reverse ++ b, rest, vs', nv'⟩)) :
    ParsesAs ops dq mp X rest t vs nv vs' nv' := by
  refine ⟨hl, ?_⟩
  intro fuel b hf
  obtain ⟨F, rfl⟩ : ∃ F, fuel = F + 1 := ⟨fuel - 1, by omega⟩
  refine ⟨1, hl, ?_⟩
  simp only [term, hp b, h0 F b hf, Nat.add_sub_cancel]

/-- `( X )` -/
theorem parses_bracket {ops : Table} {dq : DoubleQuotes} {mp : Nat} {X rest : List Token} {t : Term}
    {vs : Vars} {nv : Nat} {vs' : Vars} {nv' : Nat} (sp : Bool)
    (h : ParsesAs ops dq 1201 X (closeTok :: rest) t vs nv vs' nv') :
    ParsesAs ops dq mp (openTok sp :: (X ++ [closeTok])) rest t vs nv vs' nv' := by
  obtain ⟨hl, h⟩ := h
  refine parses_primary (by simp) ?_ ?_
  · intro b
    exact prefix_of_op_err (op_open (openTok_kind sp) dq mp b _ vs nv)
  · intro fuel b hf
    simp only [List.length_cons, List.length_append, List.length_nil] at hf
    obtain ⟨F, rfl⟩ : ∃ F, fuel = F + 3 := ⟨fuel - 3, by omega⟩
    obtain ⟨k, hk, e1⟩ := h (F + 1) (openTok sp :: b) (by omega)
    obtain ⟨G, hG⟩ : ∃ G, F + 1 - k = G + 1 := ⟨F - k, by omega⟩
    have hst : StopAt ops dq 1201 (closeTok :: rest) := stopAt_hard (.inr (.inl rfl)) ops dq 1201 rest
    rw [hG, infixLoop_stopAt hst] at e1
    have e2 : openTok sp :: (X ++ [closeTok]) ++ rest = openTok sp :: (X ++ closeTok :: rest) := by simp
    rw [e2]
    have hck : closeTok.kind = .close := rfl
    rcases openTok_kind sp with hk' | hk' <;>
      simp [term0, Read.next, hk', openClose, e1, hck]

/-- a prefix operator and its operand -/
theorem parses_prefix {ops : Table} {dq : DoubleQuotes} {mp : Nat} {s : List Char} {tk nxt : Token}
    {X rest : List Token} {a : Term} {vs : Vars} {nv : Nat} {vs' : Vars} {nv' : Nat} {op : Op}
    (hat : AtomToks s [tk]) (hb : ¬ isBracketAtom s) (ho : opOf ops (String.ofList s) .pre = some op)
    (hp : op.pri ≤ mp) (hn : nxt.kind ≠ .openCT) (hnum : String.ofList s = "-" → isNumberKind nxt.kind = false)
    (h : ParsesAs ops dq (bindingPriorities op).2 (nxt :: X) rest a vs nv vs' nv')
    (hst : StopAt ops dq (bindingPriorities op).2 rest) :
    ParsesAs ops dq mp (tk :: nxt :: X) rest (.app (String.ofList s) (.cons a .nil)) vs nv vs' nv' := by
  obtain ⟨hl, h⟩ := h
  refine ⟨by simp, ?_⟩
  intro fuel b hf
  simp only [List.length_cons] at hf hl
  obtain ⟨F, rfl⟩ : ∃ F, fuel = F + 1 := ⟨fuel - 1, by omega⟩
  obtain ⟨k, hk, e1⟩ := h F (tk :: b) (by simp only [List.length_cons]; omega)
  simp only [List.length_cons] at hk
  obtain ⟨G, hG⟩ : ∃ G, F - k = G + 1 := ⟨F - k - 1, by omega⟩
  rw [hG, infixLoop_stopAt hst] at e1
  simp only [List.cons_append] at e1
  refine ⟨1, by simp, ?_⟩
  have hname : op.name = String.ofList s := (opOf_cls ho).2
  simp only [term, List.cons_append, prefix_opTok hat hb dq mp ho hp nxt hn hnum, e1, Nat.add_sub_cancel,
    Read.apply, Term.mk, Args.ofList, hname]
  simp

/-- left operand, infix operator, right operand -/
theorem parses_infix {ops : Table} {dq : DoubleQuotes} {mp : Nat} {s : List Char} {tk : Token}
    {A B rest : List Token} {a c : Term} {vs : Vars} {nv : Nat} {vs1 : Vars} {nv1 : Nat} {vs2 : Vars} {nv2 : Nat}
    {op : Op} (htk : OpTokP s tk) (ho : opOf ops (String.ofList s) .inf = some op) (hp : op.pri ≤ mp)
    (hc : tk = commaTok → 1000 ≤ mp) (hr : (bindingPriorities op).2 ≤ 1200)
    (ha : ParsesAs ops dq mp A (tk :: (B ++ rest)) a vs nv vs1 nv1)
    (hb : ParsesAs ops dq (bindingPriorities op).2 B rest c vs1 nv1 vs2 nv2)
    (hst : StopAt ops dq (bindingPriorities op).2 rest) :
    ParsesAs ops dq mp (A ++ tk :: B) rest (.app (String.ofList s) (.cons a (.cons c .nil))) vs nv vs2 nv2 := by
  obtain ⟨hla, ha⟩ := ha
  obtain ⟨hlb, hb⟩ := hb
  refine ⟨by simp; omega, ?_⟩
  intro fuel b hf
  simp only [List.length_append, List.length_cons] at hf
  obtain ⟨ka, hka, e1⟩ := ha fuel b (by omega)
  obtain ⟨F, hF⟩ : ∃ F, fuel - ka = F + 1 := ⟨fuel - ka - 1, by omega⟩
  obtain ⟨kb, hkb, e2⟩ := hb F (tk :: (A.reverse ++ b)) (by omega)
  obtain ⟨G, hG⟩ : ∃ G, F - kb = G + 1 := ⟨F - kb - 1, by omega⟩
  rw [hG, infixLoop_stopAt hst] at e2
  refine ⟨ka + 1, by simp; omega, ?_⟩
  have hname : op.name = String.ofList s := (opOf_cls ho).2
  have e0 : A ++ tk :: B ++ rest = A ++ tk :: (B ++ rest) := by simp
  have hnot : ¬ (bindingPriorities op).2 > 1200 := by omega
  rw [e0, e1, hF]
  simp only [infixLoop, infix_opTok_inf htk dq mp ho hp hc, hnot, if_false, e2, Read.apply, Term.mk, Args.ofList, hname]
  have : fuel - (ka + 1) = F := by omega
  rw [this]
  simp

/-- operand and postfix operator -/
theorem parses_postfix {ops : Table} {dq : DoubleQuotes} {mp : Nat} {s : List Char} {tk : Token}
    {A rest : List Token} {a : Term} {vs : Vars} {nv : Nat} {vs1 : Vars} {nv1 : Nat}
    {op : Op} (htk : OpTokP s tk) (hi : opOf ops (String.ofList s) .inf = none)
    (ho : opOf ops (String.ofList s) .post = some op) (hp : op.pri ≤ mp)
    (hc : tk = commaTok → 1000 ≤ mp) (hr : (bindingPriorities op).2 > 1200)
    (ha : ParsesAs ops dq mp A (tk :: rest) a vs nv vs1 nv1) :
    ParsesAs ops dq mp (A ++ [tk]) rest (.app (String.ofList s) (.cons a .nil)) vs nv vs1 nv1 := by
  obtain ⟨hla, ha⟩ := ha
  refine ⟨by simp, ?_⟩
  intro fuel b hf
  simp only [List.length_append, List.length_cons, List.length_nil] at hf
  obtain ⟨ka, hka, e1⟩ := ha fuel b (by omega)
  obtain ⟨F, hF⟩ : ∃ F, fuel - ka = F + 1 := ⟨fuel - ka - 1, by omega⟩
  refine ⟨ka + 1, by simp; omega, ?_⟩
  have hname : op.name = String.ofList s := (opOf_cls ho).2
  have e0 : A ++ [tk] ++ rest = A ++ tk :: rest := by simp
  rw [e0, e1, hF]
  simp only [infixLoop, infix_opTok_post htk dq mp hi ho hp hc, hr, if_true, Read.apply, Term.mk, Args.ofList, hname]
  have : fuel - (ka + 1) = F := by omega
  rw [this]
  simp

end PrologVerif.Write
