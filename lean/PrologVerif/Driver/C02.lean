import PrologVerif.Driver.Common
import PrologVerif.Model.Unify
import PrologVerif.Model.Env
import PrologVerif.Spec.Robinson
namespace PrologVerif.Driver.C02
open PrologVerif PrologVerif.Driver

def fuel : Nat := 4000

mutual
  def maxVar : Term → Nat
    | .var v => v + 1
    | .app _ as => maxVarArgs as
    | _ => 0
  def maxVarArgs : Args → Nat
    | .nil => 0
    | .cons t ts => max (maxVar t) (maxVarArgs ts)
end

mutual
  def shiftVars (k : Nat) : Term → Term
    | .var v => .var (v + k)
    | .app f as => .app f (shiftArgs k as)
    | t => t
  def shiftArgs (k : Nat) : Args → Args
    | .nil => .nil
    | .cons t ts => .cons (shiftVars k t) (shiftArgs k ts)
end

def identV : Term := .var 100000
def resV : Term := .var 100001

structure Case where
  mode : String
  x : Term
  y : Term

mutual
  /-- `'$share'(K, T)` in a payload tells the harness to reach T through one shared Go object; the
      abstract term is T -/
  def stripShare : Term → Term
    | .app f as =>
      match f, stripShareArgs as with
      | "$share", .cons _ (.cons t .nil) => t
      | f, as' => .app f as'
    | t => t
  def stripShareArgs : Args → Args
    | .nil => .nil
    | .cons t ts => .cons (stripShare t) (stripShareArgs ts)
end

def parseCase (payload : String) : Option Case :=
  match fields payload with
  | [mode, _, xs, _, ys] =>
    match Term.ofWire xs, Term.ofWire ys with
    | some x, some y => some ⟨mode, stripShare x, stripShare y⟩
    | _, _ => none
  | _ => none

/-- the observation template of the harness: t(Ident, Res, X, Y, [V0, …]) -/
def template (c : Case) (x' : Term) : Term :=
  let nv := if c.mode = "h" then maxVar c.y else max (maxVar c.x) (maxVar c.y)
  let vs := Term.list ((List.range nv).map Term.var)
  if c.mode = "h" then .app "t" (Args.ofList [identV, resV, c.y, c.y, vs])
  else .app "t" (Args.ofList [identV, resV, x', c.y, vs])

def show' (e : Env) (t : Term) : String :=
  match applyAll fuel e t with
  | some t' => "ok " ++ t'.canon.wire
  | none => "cyclic"

def runModel (c : Case) : String :=
  let x' := if c.mode = "h" then shiftVars 1000 c.x else c.x
  let tmpl := template c x'
  let r := match c.mode with
    | "u" | "f" | "m" | "k" => unify fuel false [] x' c.y   -- "m": the arguments one after the other = left to right
    | "r" => unify fuel false [] c.y x'
    | "o" => unify fuel true [] x' c.y
    | _ => unify fuel false [] c.y x'          -- "h": exec unifies the argument with the head skeleton
  match r with
  | none => "out-of-fuel"
  | some (e, res) =>
    if c.mode = "f" then
      if res = .ok then show' (e.bind 100001 (.atom "yes")) tmpl
      else show' (Env.bind [] 100001 (.atom "no")) tmpl
    else if res = .ok then
      if c.mode = "h" then show' e tmpl
      else
        let same := match applyAll fuel e x', applyAll fuel e c.y with
          | some a, some b => if a = b then "true" else "false"
          | _, _ => "cyclic"
        if same = "cyclic" then "cyclic" else show' (e.bind 100000 (.atom same)) tmpl
    else "fail"

/-- spec: the reference algorithm decides unifiability and yields the mgu; the implementation's
    answer must be that mgu applied to the template (up to renaming = equal canonical forms), the
    two terms must be identical (==) afterwards, and a failed attempt must leave no binding -/
def judge (c : Case) (impl : String) : String :=
  let x' := if c.mode = "h" then shiftVars 1000 c.x else c.x
  let tmpl := template c x'
  let notUnifiable :=
    if c.mode = "f" then
      let want := "ok " ++ (Robinson.applySubst [(100001, .atom "no")] tmpl).canon.wire
      if impl = want then "ok" else "FAIL after a failed unification no binding may be observable: want " ++ want
    else if impl = "fail" then "ok"
    else if impl = "cyclic" && c.mode ≠ "o" then "-"   -- a cyclic binding was created: the pair was subject to occurs check
    else "FAIL terms are not unifiable, got " ++ impl
  match Robinson.sto 20000 [(x', c.y)] with
  | none => "-"
  | some true =>
    -- subject to occurs check: undefined for =/2 and head unification (ISO 7.3.3);
    -- unify_with_occurs_check/2 must fail (no finite unifier)
    if c.mode = "o" then notUnifiable else "-"
  | some false =>
  match Robinson.solve 20000 [(x', c.y)] [] with
  | .outOfFuel => "-"
  | .clash => notUnifiable
  | .occurs => "-"   -- unreachable when `sto` is false
  | .mgu σ =>
    let σ' := if c.mode = "h" then σ
      else if c.mode = "f" then (100001, Term.atom "yes") :: σ
      else (100000, Term.atom "true") :: σ
    let want := "ok " ++ (Robinson.applySubst σ' tmpl).canon.wire
    if impl = want then "ok" else "FAIL not the most general unifier / not identical afterwards: want " ++ want

def handler : Handler := fun payload impl =>
  match parseCase payload with
  | none => ("BAD-CASE", "-")
  | some c => (runModel c, judge c impl)

/-! ### c02.env -/

def dumpTree : RBEnv → String
  | .nil => "."
  | .node c l k v r =>
    let cs := match c with | .red => "R" | .black => "B"
    let ks := if k = 1 then "root" else toString ((-k) - 2)
    "(" ++ cs ++ " " ++ ks ++ "=" ++ v.wire ++ " " ++ dumpTree l ++ " " ++ dumpTree r ++ ")"

def envHandler : Handler := fun payload impl =>
  match splitOps payload with
  | nvs :: ops =>
    let nv := nvs.toNat!
    let versions : List RBEnv := ops.foldl (fun (vs : List RBEnv) op =>
      match words op with
      | ["b", base, v, val] =>
        let e := match base.toInt? with
          | some b => if b < 0 then RBEnv.nil else vs.getD b.toNat RBEnv.nil
          | none => RBEnv.nil
        match Term.ofWire val with
        | some t => vs ++ [e.bind (Int.ofNat (v.toNat! + 2)) t]
        | none => vs
      | _ => vs) []
    let outs := versions.map fun e =>
      dumpTree e ++ " [" ++ " ".intercalate ((List.range nv).map fun j =>
        match e.lookup (Int.ofNat (j + 2)) with
        | some t => t.wire
        | none => "-") ++ "]"
    let model := " ; ".intercalate outs
    -- spec: persistence + map semantics, judged on the implementation's lookups
    let specOuts : List String := (ops.foldl (fun (st : List (List (Nat × Term))) op =>
      match words op with
      | ["b", base, v, val] =>
        let m := match base.toInt? with
          | some b => if b < 0 then [] else st.getD b.toNat []
          | none => []
        match Term.ofWire val with
        | some t => st ++ [(v.toNat!, t) :: m]
        | none => st
      | _ => st) []).map fun m =>
        "[" ++ " ".intercalate ((List.range nv).map fun j =>
          match m.lookup j with
          | some t => t.wire
          | none => "-") ++ "]"
    let implLookups := (splitOps impl).map fun s => String.ofList (s.toList.dropWhile (· != '['))
    let verdict := if implLookups = specOuts then "ok" else "FAIL lookups in some version differ from the map semantics (persistence)"
    (model, verdict)
  | _ => ("BAD-CASE", "-")

end PrologVerif.Driver.C02
