import PrologVerif.Driver.Common
import PrologVerif.Model.DCG
import PrologVerif.Spec.Grammar
import PrologVerif.Spec.DcgSLD
namespace PrologVerif.Driver.C17
open PrologVerif PrologVerif.Driver PrologVerif.DCG PrologVerif.Grammar

def pterm (xs : List Term) : String := (Term.mk "p" xs).canon.wire

def errStr : Err → String
  | .notApplicable => "n/a"
  | .exc f => "err " ++ f.canon.wire

/-! ## c17.expand -/

/-- the four sections the harness prints, computed by the model -/
def expandModel (t : Term) : List String :=
  let n := boundT t
  let exp := "exp " ++ pterm [t, (expand t n).1]
  let dcg := match expandDCG t n with
    | .ok (c, _) => "dcg " ++ pterm [t, c]
    | .error e => "dcg " ++ errStr e
  let body := match t with
    | .app "-->" (.cons _ (.cons b .nil)) =>
      match dcgBody b (.var n) (.var (n + 1)) (n + 2) with
      | .ok (g, _) => "body " ++ pterm [b, .var n, .var (n + 1), g]
      | .error e => "body " ++ errStr e
    | _ => "body -"
  -- phrase/3 itself on a body that is (still) a variable
  let phr := match t with
    | .app "-->" (.cons _ (.cons (.var v) .nil)) =>
      match phraseGoal (.var v) (.var n) (.var (n + 1)) (n + 2) with
      | .ok _ => "phr called"
      | .error e => "phr " ++ errStr e
    | _ => "phr -"
  let items := match expandDCG t n with
    | .ok (.app ":-" (.cons _ (.cons b .nil)), _) =>
      "items " ++ pterm [t, Term.list ((altItems b).map fun a => Term.list (seqItems (a.size + 1) a))]
    | _ => "items -"
  [exp, dcg, body, items, phr]

/-- the same sections from the specification (reader + reference translation) -/
def expandSpec (t : Term) : List String :=
  let n := boundT t
  let r := Rule.ofTerm t
  let exp := match r with
    | .ok r => "exp " ++ pterm [t, (r.tr n).1]
    | .error _ => "exp " ++ pterm [t, t]
  let dcg := match r with
    | .ok r => "dcg " ++ pterm [t, (r.tr n).1]
    | .error none => "dcg n/a"
    | .error (some e) => "dcg err " ++ e.canon.wire
  let body := match t with
    | .app "-->" (.cons _ (.cons b .nil)) =>
      match Body.ofTerm b with
      | .ok b' => "body " ++ pterm [b, .var n, .var (n + 1), (b'.tr (.var n) (.var (n + 1)) (n + 2)).1]
      | .error e => "body err " ++ e.canon.wire
    | _ => "body -"
  let items := match r with
    | .ok r =>
      match (r.tr n).1 with
      | .app ":-" (.cons _ (.cons b .nil)) =>
        "items " ++ pterm [t, Term.list ((disjuncts b).map fun a => Term.list (conjuncts a))]
      | _ => "items -"
    | .error _ => "items -"
  -- DCG draft 8.1.1.3 a: phrase/3 with a variable body is an instantiation error
  let phr := match t with
    | .app "-->" (.cons _ (.cons (.var _) .nil)) => "phr err " ++ instErr.canon.wire
    | _ => "phr -"
  [exp, dcg, body, items, phr]

def firstDiff : List String → List String → Option String
  | a :: as, b :: bs => if a == b then firstDiff as bs else some (headWord a).1
  | [], [] => none
  | _, _ => some "length"

def handlerExpand : Handler := fun payload impl =>
  match Term.ofWire payload with
  | none => ("BAD-PAYLOAD", "FAIL bad payload")
  | some t =>
    let want := expandSpec t
    let v := match firstDiff (splitOps impl) want with
      | none => "ok"
      | some sec => s!"FAIL section {sec} differs from the reference translation: want " ++
          " ; ".intercalate want
    (" ; ".intercalate (expandModel t), v)

/-! ## c17.lang -/

def alphabet : List Term := [.atom "x", .atom "y", .atom "z"]

def listsOfLen : Nat → List (List Term)
  | 0 => [[]]
  | l + 1 => (listsOfLen l).flatMap fun p => alphabet.map fun a => p ++ [a]

def allLists (n : Nat) : List (List Term) := (List.range (n + 1)).flatMap listsOfLen

mutual
  def varsT : Term → List Nat → List Nat
    | .var v, acc => if acc.contains v then acc else acc ++ [v]
    | .app _ as, acc => varsA as acc
    | _, acc => acc
  def varsA : Args → List Nat → List Nat
    | .nil, acc => acc
    | .cons t ts, acc => varsA ts (varsT t acc)
end

def answerCap : Nat := 24
def denFuel : Nat := 64

/-- print the answers of one query: the template under each answer substitution -/
def showAnswers (cfg : Cfg) (template : Term) (sts : List St) : Option String :=
  let rows := (sts.take answerCap).map fun st => (resolve 4096 st.σ template).map fun t => t.canon.wire
  if rows.any Option.isNone then none
  else some (" | ".intercalate (rows.filterMap id))

structure Case where
  maxLen : Nat
  gen : Bool
  start : Term
  body : Body
  gr : Grammar

def flagOf (flags : String) (k : String) : String :=
  match (words flags).filterMap (fun kv => if kv.startsWith (k ++ "=") then some (kv.drop (k.length + 1)).toString else none) with
  | v :: _ => v
  | [] => ""

def parseCase (payload : String) : Except String Case :=
  match (payload.splitOn " ; ") with
  | flags :: startW :: ruleWs =>
    match Term.ofWire startW, ruleWs.mapM Term.ofWire with
    | some start, some rules =>
      match Body.ofTerm start, rules.mapM (fun r => match Rule.ofTerm r with | .ok r => some r | _ => none) with
      | .ok b, some gr =>
        .ok { maxLen := (flagOf flags "len").toNat!, gen := flagOf flags "gen" == "1", start := start, body := b, gr := gr }
      | _, _ => .error "grammar does not parse"
    | _, _ => .error "bad wire"
  | _ => .error "bad payload"

/-- all sections of the output line, from the denotation -/
def langLines (cfg : Cfg) (sld : Bool) (c : Case) : Except String (List String) := do
  let vars := (varsT c.start []).map Term.var
  let n0 := boundT c.start
  let rem := Term.var n0
  let st0 : St := { σ := [], next := n0 + 2 }
  let prog := programOf c.gr
  let run := fun (l r template : Term) =>
    let res : Res (List St) :=
      if sld then
        -- the reference SLD evaluation of the TRANSLATED grammar and body
        let g := c.body.tr l r st0.next
        match solve cfg.uf prog denFuel g.1 { st0 with next := g.2 } with
        | .ok o => .ok o.answers
        | .error e => .error e
      else Grammar.phrase cfg c.gr denFuel c.body st0 l r
    match res with
    | .error .fuel => Except.error "out of fuel"
    | .error (.unsupported w) => Except.error ("unsupported: " ++ w)
    | .ok sts => match showAnswers cfg template sts with
      | none => Except.error "out of fuel (resolve)"
      | some s => Except.ok s
  let mut out : List String := []
  let mut k := 0
  for l in allLists c.maxLen do
    let lt := Term.list l
    let m ← run lt rem (Term.mk "t" (vars ++ [rem]))
    if m ≠ "" then out := s!"m{k} {m}" :: out
    let r ← run lt Term.nilT (Term.mk "t" (Term.atom "-" :: vars))
    if r ≠ "" then out := s!"r{k} {r}" :: out
    k := k + 1
  if c.gen then
    let l := Term.var (n0 + 1)
    let g ← run l Term.nilT (Term.mk "t" (vars ++ [l]))
    if g ≠ "" then out := s!"g {g}" :: out
    let h ← run l rem (Term.mk "t" (vars ++ [l, rem]))
    if h ≠ "" then out := s!"h {h}" :: out
  return out.reverse

def firstDiffLine : List String → List String → String
  | a :: as, b :: bs => if a == b then firstDiffLine as bs else s!"got «{a}» want «{b}»"
  | a :: _, [] => s!"got «{a}» want nothing more"
  | [], b :: _ => s!"got nothing more, want «{b}»"
  | [], [] => "no difference"

/-- model column (denotation with the engine's cut barriers) and verdict (ISO denotation) for the
    implementation's answer lines of one grammar case -/
def judgeLang (c : Case) (impl : String) : String × String :=
  let iso := langLines { engine := false } false c
  let eng := langLines { engine := true } false c
  let sld := langLines { engine := false } true c
  let model := match eng with
    | .ok ls => " ; ".intercalate ls
    | .error e => "NO-MODEL " ++ e
  let implLs := splitOps impl
  let v := match iso with
    | .error _ => "-"
    | .ok ls =>
      if sld.toOption.isSome && sld.toOption != some ls then
        "FAIL SPEC-INCONSISTENT: the reference SLD evaluation of the translated grammar and the denotation disagree: " ++
          firstDiffLine (sld.toOption.getD []) ls
      else if ls == implLs then "ok"
      else if eng.toOption == some implLs then
        "FAIL [engine-cut-barrier] a cut inside a nested alternation or an if-then-else branch is local to it (ISO: it cuts the rule): " ++ firstDiffLine implLs ls
      else "FAIL answers differ from the denotation: " ++ firstDiffLine implLs ls
  (model, v)

def handlerLang : Handler := fun payload impl =>
  match parseCase payload with
  | .error e => ("BAD-CASE " ++ e, "FAIL " ++ e)
  | .ok c => judgeLang c impl

/-! ## c17.rep — bodies, rules and push-backs whose parts are BUILT AT RUN TIME

  An item of the payload is a template term followed by construction steps `step(How, V, T)`: the
  harness binds the variable `V` at run time to (some Go representation of) the term `T` — by
  `=..`, read/1, functor/3, cell-by-cell lists with tails bound later, aliases, strings, append/3 …
  — in the SAME query as the phrase/expand_term call.  Abstractly nothing but the substitution
  V := T has happened, so everything here is computed on the substituted term: the result must
  not depend on the representation. -/

mutual
  def substVT (m : List (Nat × Term)) : Term → Term
    | .var v => match m.lookup v with | some t => t | none => .var v
    | .app f as => .app f (substVA m as)
    | t => t
  def substVA (m : List (Nat × Term)) : Args → Args
    | .nil => .nil
    | .cons t ts => .cons (substVT m t) (substVA m ts)
end

/-- template + steps ↦ the abstract term (placeholders may mention earlier placeholders) -/
def abstractItem (ts : List Term) : Option Term :=
  match ts with
  | [] => none
  | tmpl :: steps =>
    let m := steps.filterMap fun s => match s with
      | .app "step" (.cons _ (.cons (.var v) (.cons t .nil))) => some (v, t)
      | _ => none
    if m.length ≠ steps.length then none
    else some ((List.range (m.length + 1)).foldl (fun t _ => substVT m t) tmpl)

def handlerRep : Handler := fun payload impl =>
  match payload.splitOn " ; " with
  | flags :: itemWs =>
    match itemWs.mapM (fun w => (parseTerms w).bind abstractItem) with
    | none => ("BAD-CASE", "FAIL bad payload")
    | some [] => ("BAD-CASE", "FAIL bad payload")
    | some (first :: rest) =>
      if flagOf flags "mode" == "expand" then
        -- expand_term/2 twice on the same rule term, both results
        let n := boundT first
        let m1 := expand first n
        let m2 := expand first m1.2
        let model := "x2 " ++ pterm [first, m1.1, m2.1]
        let want := match Rule.ofTerm first with
          | .ok r => let c1 := r.tr n; let c2 := r.tr c1.2; "x2 " ++ pterm [first, c1.1, c2.1]
          | .error _ => "x2 " ++ pterm [first, first, first]
        (model, if impl == want then "ok"
                else "FAIL expand_term/2 (twice, on a rule with parts built at run time) differs from the reference translation: want " ++ want)
      else
        match Body.ofTerm first, rest.mapM (fun r => match Rule.ofTerm r with | .ok r => some r | _ => none) with
        | .ok b, some gr =>
          judgeLang { maxLen := (flagOf flags "len").toNat!, gen := flagOf flags "gen" == "1",
                      start := first, body := b, gr := gr } impl
        | _, _ => ("BAD-CASE grammar does not parse", "FAIL grammar does not parse")
  | _ => ("BAD-CASE", "FAIL bad payload")

end PrologVerif.Driver.C17
