/-
  P2 (writeq with operators reads back), lexing half: the text `writeq` emits lexes to the token sequence `qt`
  — the writer's spacing rules never glue two tokens together nor split one.

  * `lexSeq_qt_cont`: the general statement, in continuation form (`Cont`): a term written under any options
    of writeq, followed by a text `y` that lexes to `us` (also after a space, if the term has an operator on
    its right: only then the writer may end the term with a space, which belongs to the next token).
  * `lexSeq_qt`: the statement for options without an operator on the right (then no space is written at the end).
  * `lexSeq_writeq`: the text of `writeq` followed by ` .`.

  Extra hypothesis `CapOK e.cfg`: no graphic character counts as a capital letter for the character-class
  oracle (true of Go's `unicode` tables).  Without it the statement is false: see the report.
-/
import PrologVerif.Proofs.OpRoundtripLex4
set_option linter.unusedSimpArgs false
set_option linter.unusedVariables false
namespace PrologVerif.Write
open PrologVerif PrologVerif.Lexer PrologVerif.Ops PrologVerif.Read

theorem firstFor_term (e : Env) (G : UInt64 → GText) (P : UInt64 → Bool) (he : EnvOK e G P) (hs : SignOK G P)
    (hcap : CapOK e.cfg) (ops : Table) (t : Term) (hw : wfTerm t = true) (hn : numsOK P t = true)
    (hv : noVAR t = true) : FirstFor e ops (writeTerm e t) :=
  fun o lo hq hl => fc_term e G P he hs hcap ops lo t o hw hn hv hq hl

mutual
  theorem main_term (e : Env) (G : UInt64 → GText) (P : UInt64 → Bool) (he : EnvOK e G P) (hs : SignOK G P)
      (hcap : CapOK e.cfg) (ops : Table) (hops : tableOK ops = true) (tail : List Char) :
      (t : Term) → wfTerm t = true → numsOK P t = true → noVAR t = true →
        MainFor e ops tail (writeTerm e t) (qt e G t)
    | .var v, _, _, _ => by
      intro o y us hq hc
      simp only [writeTerm, qt]
      exact lex_var e G P he hcap o v hc
    | .atom a, _, _, _ => by
      intro o y us hq hc
      simp only [writeTerm, qt]
      exact lex_atom e he.conv hcap o hq.quo a.toList hc
    | .int i, _, hn, _ => by
      intro o y us hq hc
      simp only [numsOK, decide_eq_true_eq] at hn
      simp only [writeTerm, qt]
      exact lex_int e he.conv hcap o i hn.1 hn.2 hc
    | .flt b, _, hn, _ => by
      intro o y us hq hc
      simp only [numsOK] at hn
      simp only [writeTerm, qt]
      exact lex_float e G P he o b hn hc
    | .str _, hw, _, _ => by simp [wfTerm] at hw
    | .app f .nil, hw, _, _ => by simp [wfTerm] at hw
    | .app f (.cons a0 .nil), hw, hn, hv => by
      simp only [wfTerm, wfArgs, Bool.and_eq_true] at hw
      simp only [numsOK, numsOKArgs, Bool.and_eq_true] at hn
      simp only [noVAR, noVARArgs, Bool.and_eq_true, Bool.not_eq_true'] at hv
      have hcomp := lex_comp1 e G he.conv hcap ops hops tail f a0 hv.1
        (main_term e G P he hs hcap ops hops tail a0 hw.1 hn.1 hv.2.1)
        (firstFor_term e G P he hs hcap ops a0 hw.1 hn.1 hv.2.1)
      intro o y us hq hc
      simp only [writeTerm, qt]
      exact hcomp o y us hq hc
    | .app f (.cons a0 (.cons a1 .nil)), hw, hn, hv => by
      simp only [wfTerm, wfArgs, Bool.and_eq_true] at hw
      simp only [numsOK, numsOKArgs, Bool.and_eq_true] at hn
      simp only [noVAR, noVARArgs, Bool.and_eq_true, Bool.not_eq_true'] at hv
      have hcomp := lex_comp2 e G he.conv hcap ops tail f a0 a1
        (main_term e G P he hs hcap ops hops tail a0 hw.1 hn.1 hv.2.1)
        (main_term e G P he hs hcap ops hops tail a1 hw.2.1 hn.2.1 hv.2.2.1)
        (main_list e G P he hs hcap ops hops tail a1 hw.2.1 hn.2.1 hv.2.2.1)
        (firstFor_term e G P he hs hcap ops a1 hw.2.1 hn.2.1 hv.2.2.1)
      intro o y us hq hc
      simp only [writeTerm, qt]
      exact hcomp o y us hq hc
    | .app f (.cons a0 (.cons a1 (.cons a2 rest))), hw, hn, hv => by
      simp only [wfTerm, wfArgs, Bool.and_eq_true] at hw
      simp only [numsOK, numsOKArgs, Bool.and_eq_true] at hn
      simp only [noVAR, noVARArgs, Bool.and_eq_true, Bool.not_eq_true'] at hv
      have hcomp := lex_comp3 e G he.conv hcap ops tail f a0 a1 a2 rest
        (main_term e G P he hs hcap ops hops tail a0 hw.1 hn.1 hv.2.1)
        (main_term e G P he hs hcap ops hops tail a1 hw.2.1 hn.2.1 hv.2.2.1)
        (main_term e G P he hs hcap ops hops tail a2 hw.2.2.1 hn.2.2.1 hv.2.2.2.1)
        (main_args e G P he hs hcap ops hops tail rest hw.2.2.2 hn.2.2.2 hv.2.2.2.2)
      intro o y us hq hc
      simp only [writeTerm, qt]
      exact hcomp o y us hq hc
  theorem main_list (e : Env) (G : UInt64 → GText) (P : UInt64 → Bool) (he : EnvOK e G P) (hs : SignOK G P)
      (hcap : CapOK e.cfg) (ops : Table) (hops : tableOK ops = true) (tail : List Char) :
      (t : Term) → wfTerm t = true → numsOK P t = true → noVAR t = true →
        MainForB e ops tail (writeListTail e t) (qtL e G t)
    | .app f (.cons h (.cons t .nil)), hw, hn, hv => by
      simp only [wfTerm, wfArgs, Bool.and_eq_true] at hw
      simp only [numsOK, numsOKArgs, Bool.and_eq_true] at hn
      simp only [noVAR, noVARArgs, Bool.and_eq_true, Bool.not_eq_true'] at hv
      have ih_h := main_term e G P he hs hcap ops hops tail h hw.1 hn.1 hv.2.1
      have ih_t := main_term e G P he hs hcap ops hops tail t hw.2.1 hn.2.1 hv.2.2.1
      have ih_l := main_list e G P he hs hcap ops hops tail t hw.2.1 hn.2.1 hv.2.2.1
      intro o y us hq hr hp hs'
      simp only [writeListTail, qtL]
      by_cases hdot : f = "."
      · simp only [hdot, if_true]
        have h3 := ih_l o y us hq hr hp hs'
        have h2 := ih_h.bare o _ _ hq hr
          (by simpa [List.append_assoc] using listTail_head e t o (y ++ tail) hp) h3
        have h1 := (comma_seq e he.conv h2).1
        simpa [List.append_assoc] using h1
      · simp only [hdot, if_false]
        have hcomp := lex_comp2 e G he.conv hcap ops tail f h t ih_h ih_t ih_l
          (firstFor_term e G P he hs hcap ops t hw.2.1 hn.2.1 hv.2.2.1)
        have h2 := hcomp.bare o y us hq hr hp hs'
        have h1 := (bar_seq e he.conv h2).1
        simpa [List.append_assoc] using h1
    | .app f .nil, hw, _, _ => by simp [wfTerm] at hw
    | .app f (.cons a0 .nil), hw, hn, hv => by
      simp only [wfTerm, wfArgs, Bool.and_eq_true] at hw
      simp only [numsOK, numsOKArgs, Bool.and_eq_true] at hn
      simp only [noVAR, noVARArgs, Bool.and_eq_true, Bool.not_eq_true'] at hv
      have hcomp := lex_comp1 e G he.conv hcap ops hops tail f a0 hv.1
        (main_term e G P he hs hcap ops hops tail a0 hw.1 hn.1 hv.2.1)
        (firstFor_term e G P he hs hcap ops a0 hw.1 hn.1 hv.2.1)
      intro o y us hq hr hp hs'
      simp only [writeListTail, qtL]
      have h2 := hcomp.bare o y us hq hr hp hs'
      have h1 := (bar_seq e he.conv h2).1
      simpa [List.append_assoc] using h1
    | .app f (.cons a0 (.cons a1 (.cons a2 rest))), hw, hn, hv => by
      simp only [wfTerm, wfArgs, Bool.and_eq_true] at hw
      simp only [numsOK, numsOKArgs, Bool.and_eq_true] at hn
      simp only [noVAR, noVARArgs, Bool.and_eq_true, Bool.not_eq_true'] at hv
      have hcomp := lex_comp3 e G he.conv hcap ops tail f a0 a1 a2 rest
        (main_term e G P he hs hcap ops hops tail a0 hw.1 hn.1 hv.2.1)
        (main_term e G P he hs hcap ops hops tail a1 hw.2.1 hn.2.1 hv.2.2.1)
        (main_term e G P he hs hcap ops hops tail a2 hw.2.2.1 hn.2.2.1 hv.2.2.2.1)
        (main_args e G P he hs hcap ops hops tail rest hw.2.2.2 hn.2.2.2 hv.2.2.2.2)
      intro o y us hq hr hp hs'
      simp only [writeListTail, qtL]
      have h2 := hcomp.bare o y us hq hr hp hs'
      have h1 := (bar_seq e he.conv h2).1
      simpa [List.append_assoc] using h1
    | .atom a, _, _, _ => by
      intro o y us hq hr hp hs'
      simp only [writeListTail, qtL]
      by_cases hnil : a = "[]"
      · simp only [hnil, if_true]
        simpa using hs'
      · simp only [hnil, if_false]
        have h2 := lex_atom e he.conv hcap o hq.quo a.toList (Cont.closed hr hp hs')
        have h1 := (bar_seq e he.conv h2).1
        simpa [List.append_assoc] using h1
    | .var v, _, _, _ => by
      intro o y us hq hr hp hs'
      simp only [writeListTail, qtL]
      have h2 := lex_var e G P he hcap o v (Cont.closed hr hp hs')
      have h1 := (bar_seq e he.conv h2).1
      simpa [List.append_assoc] using h1
    | .int i, _, hn, _ => by
      intro o y us hq hr hp hs'
      simp only [numsOK, decide_eq_true_eq] at hn
      simp only [writeListTail, qtL]
      have h2 := lex_int e he.conv hcap o i hn.1 hn.2 (Cont.closed hr hp hs')
      have h1 := (bar_seq e he.conv h2).1
      simpa [List.append_assoc] using h1
    | .flt b, _, hn, _ => by
      intro o y us hq hr hp hs'
      simp only [numsOK] at hn
      simp only [writeListTail, qtL]
      have h2 := lex_float e G P he o b hn (Cont.closed hr hp hs')
      have h1 := (bar_seq e he.conv h2).1
      simpa [List.append_assoc] using h1
    | .str _, hw, _, _ => by simp [wfTerm] at hw
  theorem main_args (e : Env) (G : UInt64 → GText) (P : UInt64 → Bool) (he : EnvOK e G P) (hs : SignOK G P)
      (hcap : CapOK e.cfg) (ops : Table) (hops : tableOK ops = true) (tail : List Char) :
      (as : Args) → wfArgs as = true → numsOKArgs P as = true → noVARArgs as = true →
        MainForB e ops tail (writeArgsTail e as) (qtA e G as)
    | .nil, _, _, _ => by
      intro o y us hq hr hp hs'
      simp only [writeArgsTail, qtA]
      simpa using hs'
    | .cons a rest, hw, hn, hv => by
      simp only [wfArgs, Bool.and_eq_true] at hw
      simp only [numsOKArgs, Bool.and_eq_true] at hn
      simp only [noVARArgs, Bool.and_eq_true] at hv
      have ih_a := main_term e G P he hs hcap ops hops tail a hw.1 hn.1 hv.1
      have ih_r := main_args e G P he hs hcap ops hops tail rest hw.2 hn.2 hv.2
      intro o y us hq hr hp hs'
      simp only [writeArgsTail, qtA]
      have h3 := ih_r o y us hq hr hp hs'
      have h2 := ih_a.bare o _ _ hq hr
        (by simpa [List.append_assoc] using argsTail_head e rest o (y ++ tail) hp) h3
      have h1 := (comma_seq e he.conv h2).1
      simpa [List.append_assoc] using h1
end

/-- the general statement, in continuation form: the text of a term written under the options `o` of writeq,
    followed by a text `y` that lexes to `us` (also after a space, if `o.right` is an operator), lexes to the
    tokens `qt e G t o` followed by `us` -/
theorem lexSeq_qt_cont (e : Env) (G : UInt64 → GText) (P : UInt64 → Bool) (he : EnvOK e G P) (hs : SignOK G P)
    (hcap : CapOK e.cfg) (ops : Table) (hops : tableOK ops = true) (t : Term) (o : WOpts) (y : List Char)
    (us : List Token) (tail : List Char) (hw : wfTerm t = true) (hn : numsOK P t = true) (hv : noVAR t = true)
    (hq : QOpts ops o) (hc : Cont e o y us tail) :
    LexSeq e.cfg (writeTerm e t o ++ y) (qt e G t o ++ us) tail :=
  main_term e G P he hs hcap ops hops tail t hw hn hv o y us hq.qo hc

/-- the text of a term written under options of writeq without an operator on the right lexes to `qt` -/
theorem lexSeq_qt (e : Env) (G : UInt64 → GText) (P : UInt64 → Bool) (he : EnvOK e G P) (hs : SignOK G P)
    (hcap : CapOK e.cfg) (ops : Table) (hops : tableOK ops = true) :
    (t : Term) → (o : WOpts) → (tail : List Char) → wfTerm t = true → numsOK P t = true → noVAR t = true →
      QOpts ops o → o.right = none → TailOK e o tail → LexSeq e.cfg (writeTerm e t o) (qt e G t o) tail := by
  intro t o tail hw hn hv hq hr ht
  have hp : HeadIs Punct ([] ++ tail) := by
    rcases ht with h | ⟨ro, _, h, _⟩
    · exact fun c hc => Punct.of_closer (h c hc)
    · rw [hr] at h; cases h
  have := lexSeq_qt_cont e G P he hs hcap ops hops t o [] [] tail hw hn hv hq (Cont.closed hr hp (.nil tail))
  simpa using this

/-- the text of `writeq(T)` followed by ` .` lexes to the tokens `qt` of `T` and the end token -/
theorem lexSeq_writeq (e : Env) (G : UInt64 → GText) (P : UInt64 → Bool) (he : EnvOK e G P) (hs : SignOK G P)
    (hcap : CapOK e.cfg) (ops : Table) (hops : tableOK ops = true) (t : Term) (hw : wfTerm t = true)
    (hn : numsOK P t = true) (hv : noVAR t = true) :
    LexSeq e.cfg (writeq e ops t ++ [' ', '.']) (qt e G t (qopts ops) ++ [⟨.end_, ['.']⟩]) [] :=
  LexSeq.append e.cfg (y := [' ', '.'])
    (by
      have := lexSeq_qt e G P he hs hcap ops hops t (qopts ops) [' ', '.'] hw hn hv (qopts_ok ops) rfl
        (.inl (HeadIs.cons (.inl rfl)))
      have hw' : writeq e ops t = writeTerm e t (qopts ops) := rfl
      rw [hw']
      simpa using this)
    (LexSeq.single e.cfg (lexTok_end e.cfg he.conv))

end PrologVerif.Write
