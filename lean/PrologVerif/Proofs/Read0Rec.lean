/-
  The recursive descent of Model/Read0 on the current code (`Zip`, `g = true`), by induction on
  the fuel, for all operator tables, token lists and priorities:

    * every function leaves the cursor at or after the position it was entered at, never changes the
      tape, and no backup() in it finds nothing to undo                                   (`Mono 0`)
    * a fuel of more than 5·(tokens left) + rank suffices: every call consumes input or moves to a function of
      smaller rank                                                                        (termination)
-/
import PrologVerif.Proofs.Read0
set_option linter.unusedSimpArgs false
set_option linter.unusedVariables false
namespace PrologVerif.Read0
open PrologVerif PrologVerif.Ops

@[simp] theorem withBuf_buf (s : PS Zip) (b : Zip) : (withBuf s b).buf = b := rfl

/-- the statement proved for a call `r = f … s`: soundness, and termination under the fuel bound -/
def Good (n rank : Nat) (s : PS Zip) (r : Res Term × PS Zip) : Prop :=
  Mono 0 s.buf r.2.buf ∧ (5 * s.buf.rem + rank < n → r.1 ≠ .fuel)

structure AllGood (c : Cfg) (n : Nat) : Prop where
  term : ∀ m s, Good n 2 s (term c n m s)
  termLoop : ∀ m l s, Good n 0 s (termLoop c n m l s)
  term0 : ∀ m s, Good n 1 s (term0 c n m s)
  term0Atom : ∀ m s, Good n 0 s (term0Atom c n m s)
  openClose : ∀ s, Good n 3 s (openClose c n s)
  curly : ∀ s, Good n 3 s (curly c n s)
  list : ∀ s, Good n 4 s (list c n s)
  listLoop : ∀ l s, Good n 0 s (listLoop c n l s)
  functionalNotation : ∀ f s, Good n 0 s (functionalNotation c n f s)
  fnLoop : ∀ f l s, Good n 0 s (fnLoop c n f l s)
  arg : ∀ s, Good n 3 s (arg c n s)

theorem good_zero (rank : Nat) (s : PS Zip) : Good 0 rank s ((.fuel : Res Term), s) :=
  ⟨Mono.refl _, fun h => by omega⟩

theorem allGood_zero (c : Cfg) : AllGood c 0 := by
  constructor <;> intros <;> first
    | (unfold term; exact good_zero _ _) | (unfold termLoop; exact good_zero _ _)
    | (unfold term0; exact good_zero _ _) | (unfold term0Atom; exact good_zero _ _)
    | (unfold openClose; exact good_zero _ _) | (unfold curly; exact good_zero _ _)
    | (unfold list; exact good_zero _ _) | (unfold listLoop; exact good_zero _ _)
    | (unfold functionalNotation; exact good_zero _ _) | (unfold fnLoop; exact good_zero _ _)
    | (unfold arg; exact good_zero _ _)

/-- chaining: the callee was entered at a state reached soundly from `s` -/
theorem Good.mono {n rank : Nat} {s s1 : PS Zip} {r : Res Term × PS Zip} {k : Nat}
    (h1 : Mono k s.buf s1.buf) (h : Good n rank s1 r) : Mono k s.buf r.2.buf := by
  simpa using h1.trans h.1

theorem term_succ (c : Cfg) (n : Nat) (ih : AllGood c n) (m : Int) (s : PS Zip) :
    Good (n + 1) 2 s (term c (n + 1) m s) := by
  unfold term
  cases hp : prefixOp c m s.buf with
  | mk r b1 =>
    cases r with
    | fuel => exact (prefix_fuel hp).elim
    | ok o =>
      have h1 : Mono 1 s.buf b1 := prefix_ok hp
      have hr1 := h1.rem
      simp only []
      have ih1 := ih.term o.rbp (withBuf s b1)
      cases ht : Read0.term c n o.rbp (withBuf s b1) with
      | mk r2 s2 =>
        rw [ht] at ih1
        have h2 : Mono 1 s.buf s2.buf := Good.mono (s1 := withBuf s b1) h1 ih1
        cases r2 with
        | ok t =>
          simp only []
          have ih2 := ih.termLoop m (.app o.name (.cons t .nil)) s2
          refine ⟨(Good.mono h2 ih2).weaken (by omega), fun hf => ih2.2 ?_⟩
          have := h2.rem; omega
        | fuel =>
          simp only []
          refine ⟨h2.weaken (by omega), fun hf => ?_⟩
          exact absurd rfl (ih1.2 (by simp; omega))
        | err e =>
          simp only []
          have h3 : Mono 0 s.buf (withBuf s2 (Buf.backup s2.buf)).buf := by simpa using h2.backup
          have ih3 := ih.term0 m (withBuf s2 (Buf.backup s2.buf))
          refine ⟨Good.mono h3 ih3, fun hf => ih3.2 ?_⟩
          have := h3.rem; omega
    | err e =>
      have h1 : Mono 0 s.buf b1 := prefix_err hp
      have hr1 := h1.rem
      cases e with
      | noOp =>
        simp only []
        have ih1 := ih.term0 m (withBuf s b1)
        cases ht : Read0.term0 c n m (withBuf s b1) with
        | mk r2 s2 =>
          rw [ht] at ih1
          have h2 : Mono 0 s.buf s2.buf := Good.mono (s1 := withBuf s b1) h1 ih1
          cases r2 with
          | ok t =>
            simp only []
            have ih2 := ih.termLoop m t s2
            refine ⟨Good.mono h2 ih2, fun hf => ih2.2 ?_⟩
            have := h2.rem; omega
          | fuel =>
            simp only []
            refine ⟨h2, fun hf => ?_⟩
            exact absurd rfl (ih1.2 (by simp; omega))
          | err e => simp only []; exact ⟨h2, fun _ => by simp⟩
      | lex => simp only []; exact ⟨by simpa using h1, fun _ => by simp⟩
      | expectation => simp only []; exact ⟨by simpa using h1, fun _ => by simp⟩
      | unexpected t => simp only []; exact ⟨by simpa using h1, fun _ => by simp⟩
      | repr f => simp only []; exact ⟨by simpa using h1, fun _ => by simp⟩

theorem termLoop_succ (c : Cfg) (n : Nat) (ih : AllGood c n) (m : Int) (l : Term) (s : PS Zip) :
    Good (n + 1) 0 s (termLoop c (n + 1) m l s) := by
  unfold termLoop
  cases hp : infixOp c m s.buf with
  | mk r b1 =>
    cases r with
    | fuel => exact (infix_fuel hp).elim
    | err e => simp only []; exact ⟨by simpa using infix_err hp, fun _ => by simp⟩
    | ok o =>
      have h1 : Mono 1 s.buf b1 := infix_ok hp
      have hr1 := h1.rem
      simp only []
      by_cases hpost : o.rbp > 1200
      · simp only [hpost, ↓reduceIte]
        have ih2 := ih.termLoop m (.app o.name (.cons l .nil)) (withBuf s b1)
        refine ⟨(Good.mono (s1 := withBuf s b1) h1 ih2).weaken (by omega), fun hf => ih2.2 ?_⟩
        simp; omega
      · simp only [hpost, ↓reduceIte]
        have ih1 := ih.term o.rbp (withBuf s b1)
        cases ht : Read0.term c n o.rbp (withBuf s b1) with
        | mk r2 s2 =>
          rw [ht] at ih1
          have h2 : Mono 1 s.buf s2.buf := Good.mono (s1 := withBuf s b1) h1 ih1
          cases r2 with
          | ok rhs =>
            simp only []
            have ih2 := ih.termLoop m (.app o.name (.cons l (.cons rhs .nil))) s2
            refine ⟨(Good.mono h2 ih2).weaken (by omega), fun hf => ih2.2 ?_⟩
            have := h2.rem; omega
          | fuel =>
            simp only []
            refine ⟨h2.weaken (by omega), fun hf => ?_⟩
            exact absurd rfl (ih1.2 (by simp; omega))
          | err e => simp only []; exact ⟨h2.weaken (by omega), fun _ => by simp⟩

theorem integer_ne_fuel (sg : Int) (v : String) : integer sg v ≠ .fuel := by
  unfold integer
  cases natOfChars v.toList with
  | none => simp
  | some k =>
    simp only []
    by_cases h1 : sg * (k : Int) > 9223372036854775807
    · simp [h1]
    · by_cases h2 : sg * (k : Int) < -9223372036854775808
      · simp [h1, h2]
      · simp [h1, h2]
theorem float_ne_fuel (b : Bool) (v : String) : float b v ≠ .fuel := by
  unfold float; split <;> simp

theorem term0_succ (c : Cfg) (hg : c.g = true) (n : Nat) (ih : AllGood c n) (m : Int) (s : PS Zip) :
    Good (n + 1) 1 s (term0 c (n + 1) m s) := by
  unfold term0
  cases hn : (Buf.next s.buf : Option Token × Zip) with
  | mk o b1 =>
    cases o with
    | none => simp only []; rw [next_none hn]; exact ⟨Mono.refl _, fun _ => by simp⟩
    | some t =>
      have h1 : Mono 1 s.buf b1 := by simpa using (Mono.refl s.buf).next hn
      have hr1 := h1.rem
      have hatom : Good (n + 1) 1 s (term0Atom c n m (withBuf s (Buf.backup b1))) := by
        have h2 : Mono 0 s.buf (withBuf s (Buf.backup b1)).buf := by simpa using h1.backup
        have ih2 := ih.term0Atom m (withBuf s (Buf.backup b1))
        refine ⟨Good.mono h2 ih2, fun hf => ih2.2 ?_⟩
        have := h2.rem; omega
      have hopen : Good (n + 1) 1 s (openClose c n (withBuf s b1)) := by
        have ih2 := ih.openClose (withBuf s b1)
        refine ⟨(Good.mono (s1 := withBuf s b1) h1 ih2).weaken (by omega), fun hf => ih2.2 ?_⟩
        simp; omega
      simp only []
      cases hk : t.kind <;> simp only [] <;> try exact hatom
      case open_ => exact hopen
      case openCT => exact hopen
      case integer => exact ⟨by simpa using h1.weaken (by omega), fun _ => integer_ne_fuel _ _⟩
      case floatNumber => exact ⟨by simpa using h1.weaken (by omega), fun _ => float_ne_fuel _ _⟩
      case «variable» => exact ⟨by simpa [parseVar] using (by split <;> (try split) <;> simpa using h1.weaken (by omega)), fun _ => by simp⟩
      case openList =>
        cases hn2 : (Buf.next b1 : Option Token × Zip) with
        | mk o2 b2 =>
          cases o2 with
          | none => simp only [hg, ↓reduceIte]; rw [next_none hn2]; exact ⟨by simpa using h1.weaken (by omega), fun _ => by simp⟩
          | some u =>
            have h2 : Mono 2 s.buf b2 := by simpa using h1.next hn2
            simp only []
            by_cases hu : u.kind = Kind.closeList
            · simp only [hu, ↓reduceIte]
              have h3 : Mono 0 s.buf (withBuf s (Buf.backup (Buf.backup b2))).buf := by simpa using h2.backup.backup
              have ih2 := ih.term0Atom m (withBuf s (Buf.backup (Buf.backup b2)))
              refine ⟨Good.mono h3 ih2, fun hf => ih2.2 ?_⟩
              have := h3.rem; omega
            · simp only [hu, ↓reduceIte]
              have h3 : Mono 1 s.buf (withBuf s (Buf.backup b2)).buf := by simpa using h2.backup
              have ih2 := ih.list (withBuf s (Buf.backup b2))
              refine ⟨(Good.mono h3 ih2).weaken (by omega), fun hf => ih2.2 ?_⟩
              have := h3.rem; omega
      case openCurly =>
        cases hn2 : (Buf.next b1 : Option Token × Zip) with
        | mk o2 b2 =>
          cases o2 with
          | none => simp only [hg, ↓reduceIte]; rw [next_none hn2]; exact ⟨by simpa using h1.weaken (by omega), fun _ => by simp⟩
          | some u =>
            have h2 : Mono 2 s.buf b2 := by simpa using h1.next hn2
            simp only []
            by_cases hu : u.kind = Kind.closeCurly
            · simp only [hu, ↓reduceIte]
              have h3 : Mono 0 s.buf (withBuf s (Buf.backup (Buf.backup b2))).buf := by simpa using h2.backup.backup
              have ih2 := ih.term0Atom m (withBuf s (Buf.backup (Buf.backup b2)))
              refine ⟨Good.mono h3 ih2, fun hf => ih2.2 ?_⟩
              have := h3.rem; omega
            · simp only [hu, ↓reduceIte]
              have h3 : Mono 1 s.buf (withBuf s (Buf.backup b2)).buf := by simpa using h2.backup
              have ih2 := ih.curly (withBuf s (Buf.backup b2))
              refine ⟨(Good.mono h3 ih2).weaken (by omega), fun hf => ih2.2 ?_⟩
              have := h3.rem; omega
      case doubleQuotedList =>
        by_cases hd : c.dq = DQ.atom
        · simp only [hd, ↓reduceIte]; exact hatom
        · simp only [hd, ↓reduceIte]; exact ⟨by simpa using h1.weaken (by omega), fun _ => by simp⟩

theorem operandCheck_spec (c : Cfg) (m : Int) (s : Zip) (r : Res Term × PS Zip) (h : Mono 1 s r.2.buf) :
    Mono 0 s (operandCheck c m r).2.buf ∧ ((operandCheck c m r).1 = .fuel → r.1 = .fuel) := by
  unfold operandCheck
  split
  · next f s3 =>
    by_cases hc : m < 1201 ∧ defined c.ops f = true
    · simp only [hc, and_self, ↓reduceIte]; exact ⟨by simpa using h.backup, fun h => by simp at h⟩
    · simp only [hc, ↓reduceIte]; exact ⟨h.weaken (by omega), fun h => by simp at h⟩
  · exact ⟨h.weaken (by omega), id⟩

theorem term0Atom_succ (c : Cfg) (n : Nat) (ih : AllGood c n) (m : Int) (s : PS Zip) :
    Good (n + 1) 0 s (term0Atom c (n + 1) m s) := by
  unfold term0Atom
  cases ha : atom c s.buf with
  | mk r b1 =>
    cases r with
    | fuel => exact (atom_fuel ha).elim
    | err e => simp only []; exact ⟨by simpa using atom_err ha, fun _ => by simp⟩
    | ok a =>
      have hok := atom_ok ha
      have hml := minusLook_spec a s.buf b1 hok
      simp only []
      cases hm : minusLook a b1 with
      | mk o b2 =>
        rw [hm] at hml
        cases o with
        | some ot =>
          cases ot with
          | none => simp only []; exact ⟨by simpa using hml.weaken (by omega), fun _ => by simp⟩
          | some t =>
            simp only []
            refine ⟨by simpa using hml.weaken (by omega), fun _ => ?_⟩
            by_cases hk : t.kind = Kind.integer
            · simp only [hk, ↓reduceIte]; exact integer_ne_fuel _ _
            · simp only [hk, ↓reduceIte]; exact float_ne_fuel _ _
        | none =>
          simp only [] at hml ⊢
          have hr := hml.rem
          have ih2 := ih.functionalNotation a (withBuf s b2)
          have h2 : Mono 1 s.buf (functionalNotation c n a (withBuf s b2)).2.buf :=
            Good.mono (s1 := withBuf s b2) hml ih2
          have hoc := operandCheck_spec c m s.buf _ h2
          refine ⟨hoc.1, fun hf hfuel => ih2.2 ?_ (hoc.2 hfuel)⟩
          simp; omega

theorem openClose_succ (c : Cfg) (hg : c.g = true) (n : Nat) (ih : AllGood c n) (s : PS Zip) :
    Good (n + 1) 3 s (openClose c (n + 1) s) := by
  unfold openClose
  have ih1 := ih.term 1201 s
  cases ht : Read0.term c n 1201 s with
  | mk r s1 =>
    rw [ht] at ih1
    have h1 : Mono 0 s.buf s1.buf := ih1.1
    cases r with
    | fuel => simp only []; exact ⟨h1, fun hf => absurd rfl (ih1.2 (by omega))⟩
    | err e => simp only []; exact ⟨h1, fun _ => by simp⟩
    | ok t =>
      simp only []
      cases hn : (Buf.next s1.buf : Option Token × Zip) with
      | mk o b2 =>
        cases o with
        | none => simp only [hg, ↓reduceIte]; rw [next_none hn]; exact ⟨by simpa using h1, fun _ => by simp⟩
        | some u =>
          have h2 : Mono 1 s.buf b2 := by simpa using h1.next hn
          simp only []
          by_cases hu : u.kind = Kind.close
          · simp only [hu, ↓reduceIte]; exact ⟨by simpa using h2.weaken (by omega), fun _ => by simp⟩
          · simp only [hu, ↓reduceIte]; exact ⟨by simpa using h2.backup, fun _ => by simp⟩

theorem curly_succ (c : Cfg) (hg : c.g = true) (n : Nat) (ih : AllGood c n) (s : PS Zip) :
    Good (n + 1) 3 s (curly c (n + 1) s) := by
  unfold curly
  have ih1 := ih.term 1201 s
  cases ht : Read0.term c n 1201 s with
  | mk r s1 =>
    rw [ht] at ih1
    have h1 : Mono 0 s.buf s1.buf := ih1.1
    cases r with
    | fuel => simp only []; exact ⟨h1, fun hf => absurd rfl (ih1.2 (by omega))⟩
    | err e => simp only []; exact ⟨h1, fun _ => by simp⟩
    | ok t =>
      simp only []
      cases hn : (Buf.next s1.buf : Option Token × Zip) with
      | mk o b2 =>
        cases o with
        | none => simp only [hg, ↓reduceIte]; rw [next_none hn]; exact ⟨by simpa using h1, fun _ => by simp⟩
        | some u =>
          have h2 : Mono 1 s.buf b2 := by simpa using h1.next hn
          simp only []
          by_cases hu : u.kind = Kind.closeCurly
          · simp only [hu, ↓reduceIte]; exact ⟨by simpa using h2.weaken (by omega), fun _ => by simp⟩
          · simp only [hu, ↓reduceIte]; exact ⟨by simpa using h2.backup, fun _ => by simp⟩

theorem list_succ (c : Cfg) (n : Nat) (ih : AllGood c n) (s : PS Zip) :
    Good (n + 1) 4 s (list c (n + 1) s) := by
  unfold list
  have ih1 := ih.arg s
  cases ht : Read0.arg c n s with
  | mk r s1 =>
    rw [ht] at ih1
    have h1 : Mono 0 s.buf s1.buf := ih1.1
    cases r with
    | fuel => simp only []; exact ⟨h1, fun hf => absurd rfl (ih1.2 (by omega))⟩
    | err e => simp only []; exact ⟨h1, fun _ => by simp⟩
    | ok a =>
      simp only []
      have ih2 := ih.listLoop [a] s1
      refine ⟨Good.mono h1 ih2, fun hf => ih2.2 ?_⟩
      have := h1.rem; omega

theorem listLoop_succ (c : Cfg) (hg : c.g = true) (n : Nat) (ih : AllGood c n) (l : List Term) (s : PS Zip) :
    Good (n + 1) 0 s (listLoop c (n + 1) l s) := by
  unfold listLoop
  cases hn : (Buf.next s.buf : Option Token × Zip) with
  | mk o b1 =>
    cases o with
    | none => simp only [hg, ↓reduceIte]; rw [next_none hn]; exact ⟨Mono.refl _, fun _ => by simp⟩
    | some t =>
      have h1 : Mono 1 s.buf b1 := by simpa using (Mono.refl s.buf).next hn
      have hr1 := h1.rem
      have hbad : Good (n + 1) 0 s ((Res.err PErr.expectation : Res Term), withBuf s (Buf.backup b1)) :=
        ⟨by simpa using h1.backup, fun _ => by simp⟩
      simp only []
      cases hk : t.kind <;> simp only [] <;> try exact hbad
      case comma =>
        have ih1 := ih.arg (withBuf s b1)
        cases ht : Read0.arg c n (withBuf s b1) with
        | mk r s2 =>
          rw [ht] at ih1
          have h2 : Mono 1 s.buf s2.buf := Good.mono (s1 := withBuf s b1) h1 ih1
          cases r with
          | fuel => simp only []; exact ⟨h2.weaken (by omega), fun hf => absurd rfl (ih1.2 (by simp; omega))⟩
          | err e => simp only []; exact ⟨h2.weaken (by omega), fun _ => by simp⟩
          | ok a =>
            simp only []
            have ih2 := ih.listLoop (l ++ [a]) s2
            refine ⟨(Good.mono h2 ih2).weaken (by omega), fun hf => ih2.2 ?_⟩
            have := h2.rem; omega
      case bar =>
        have ih1 := ih.arg (withBuf s b1)
        cases ht : Read0.arg c n (withBuf s b1) with
        | mk r s2 =>
          rw [ht] at ih1
          have h2 : Mono 1 s.buf s2.buf := Good.mono (s1 := withBuf s b1) h1 ih1
          cases r with
          | fuel => simp only []; exact ⟨h2.weaken (by omega), fun hf => absurd rfl (ih1.2 (by simp; omega))⟩
          | err e => simp only []; exact ⟨h2.weaken (by omega), fun _ => by simp⟩
          | ok tl =>
            simp only []
            cases hn3 : (Buf.next s2.buf : Option Token × Zip) with
            | mk o3 b3 =>
              cases o3 with
              | none => simp only [hg, ↓reduceIte]; rw [next_none hn3]; exact ⟨by simpa using h2.weaken (by omega), fun _ => by simp⟩
              | some u =>
                have h3 : Mono 2 s.buf b3 := by simpa using h2.next hn3
                simp only []
                by_cases hu : u.kind = Kind.closeList
                · simp only [hu, ↓reduceIte]; exact ⟨by simpa using h3.weaken (by omega), fun _ => by simp⟩
                · simp only [hu, ↓reduceIte]; exact ⟨by simpa using h3.backup.weaken (by omega), fun _ => by simp⟩
      case closeList => exact ⟨by simpa using h1.weaken (by omega), fun _ => by simp⟩

theorem fnLoop_succ (c : Cfg) (hg : c.g = true) (n : Nat) (ih : AllGood c n) (f : String) (l : List Term) (s : PS Zip) :
    Good (n + 1) 0 s (fnLoop c (n + 1) f l s) := by
  unfold fnLoop
  cases hn : (Buf.next s.buf : Option Token × Zip) with
  | mk o b1 =>
    cases o with
    | none => simp only [hg, ↓reduceIte]; rw [next_none hn]; exact ⟨Mono.refl _, fun _ => by simp⟩
    | some t =>
      have h1 : Mono 1 s.buf b1 := by simpa using (Mono.refl s.buf).next hn
      have hr1 := h1.rem
      have hbad : Good (n + 1) 0 s ((Res.err PErr.expectation : Res Term), withBuf s (Buf.backup b1)) :=
        ⟨by simpa using h1.backup, fun _ => by simp⟩
      simp only []
      cases hk : t.kind <;> simp only [] <;> try exact hbad
      case comma =>
        have ih1 := ih.arg (withBuf s b1)
        cases ht : Read0.arg c n (withBuf s b1) with
        | mk r s2 =>
          rw [ht] at ih1
          have h2 : Mono 1 s.buf s2.buf := Good.mono (s1 := withBuf s b1) h1 ih1
          cases r with
          | fuel => simp only []; exact ⟨h2.weaken (by omega), fun hf => absurd rfl (ih1.2 (by simp; omega))⟩
          | err e => simp only []; exact ⟨h2.weaken (by omega), fun _ => by simp⟩
          | ok a =>
            simp only []
            have ih2 := ih.fnLoop f (l ++ [a]) s2
            refine ⟨(Good.mono h2 ih2).weaken (by omega), fun hf => ih2.2 ?_⟩
            have := h2.rem; omega
      case close => exact ⟨by simpa using h1.weaken (by omega), fun _ => by simp⟩

theorem functionalNotation_succ (c : Cfg) (hg : c.g = true) (n : Nat) (ih : AllGood c n) (f : String) (s : PS Zip) :
    Good (n + 1) 0 s (functionalNotation c (n + 1) f s) := by
  unfold functionalNotation
  cases hn : (Buf.next s.buf : Option Token × Zip) with
  | mk o b1 =>
    cases o with
    | none => simp only [hg, ↓reduceIte]; rw [next_none hn]; exact ⟨Mono.refl _, fun _ => by simp⟩
    | some t =>
      have h1 : Mono 1 s.buf b1 := by simpa using (Mono.refl s.buf).next hn
      have hr1 := h1.rem
      simp only []
      by_cases hk : t.kind = Kind.openCT
      · simp only [hk, ↓reduceIte]
        have ih1 := ih.arg (withBuf s b1)
        cases ht : Read0.arg c n (withBuf s b1) with
        | mk r s2 =>
          rw [ht] at ih1
          have h2 : Mono 1 s.buf s2.buf := Good.mono (s1 := withBuf s b1) h1 ih1
          cases r with
          | fuel => simp only []; exact ⟨h2.weaken (by omega), fun hf => absurd rfl (ih1.2 (by simp; omega))⟩
          | err e => simp only []; exact ⟨h2.weaken (by omega), fun _ => by simp⟩
          | ok a =>
            simp only []
            have ih2 := ih.fnLoop f [a] s2
            refine ⟨(Good.mono h2 ih2).weaken (by omega), fun hf => ih2.2 ?_⟩
            have := h2.rem; omega
      · simp only [hk, ↓reduceIte]; exact ⟨by simpa using h1.backup, fun _ => by simp⟩

theorem arg_succ (c : Cfg) (hg : c.g = true) (n : Nat) (ih : AllGood c n) (s : PS Zip) :
    Good (n + 1) 3 s (arg c (n + 1) s) := by
  unfold arg
  cases ha : atom c s.buf with
  | mk r b1 =>
    have hterm : ∀ b : Zip, Mono 0 s.buf b → Good (n + 1) 3 s (Read0.term c n 999 (withBuf s b)) := by
      intro b hb
      have ih1 := ih.term 999 (withBuf s b)
      refine ⟨Good.mono (s1 := withBuf s b) hb ih1, fun hf => ih1.2 ?_⟩
      have := hb.rem; simp; omega
    cases r with
    | fuel => exact (atom_fuel ha).elim
    | err e => simp only []; exact hterm b1 (atom_err ha)
    | ok a =>
      have hok := atom_ok ha
      have hal := argLook_spec c hg a s.buf b1 hok
      simp only []
      cases hl : argLook c a b1 with
      | mk o b2 =>
        rw [hl] at hal
        cases o with
        | true => simp only []; exact ⟨by simpa using hal.weaken (by omega), fun _ => by simp⟩
        | false => simp only [] at hal ⊢; exact hterm _ (unreadAtom_spec s.buf b2 hal)

/-- all eleven functions, for every fuel -/
theorem allGood (c : Cfg) (hg : c.g = true) : ∀ n, AllGood c n
  | 0 => allGood_zero c
  | n + 1 =>
    have ih := allGood c hg n
    { term := term_succ c n ih
      termLoop := termLoop_succ c n ih
      term0 := term0_succ c hg n ih
      term0Atom := term0Atom_succ c n ih
      openClose := openClose_succ c hg n ih
      curly := curly_succ c hg n ih
      list := list_succ c n ih
      listLoop := listLoop_succ c hg n ih
      functionalNotation := functionalNotation_succ c hg n ih
      fnLoop := fnLoop_succ c hg n ih
      arg := arg_succ c hg n ih }

theorem readTerm_good (c : Cfg) (hg : c.g = true) (n : Nat) (s : PS Zip) : Good n 2 s (readTerm c n s) := by
  unfold readTerm
  have ih1 := (allGood c hg n).term 1201 s
  cases ht : Read0.term c n 1201 s with
  | mk r s1 =>
    rw [ht] at ih1
    have h1 : Mono 0 s.buf s1.buf := ih1.1
    cases r with
    | fuel => simp only []; exact ⟨h1, ih1.2⟩
    | err e => cases e <;> simp only [] <;> exact ⟨h1, fun _ => by simp⟩
    | ok t =>
      simp only []
      cases hn : (Buf.next s1.buf : Option Token × Zip) with
      | mk o b2 =>
        cases o with
        | none => simp only [hg, ↓reduceIte]; rw [next_none hn]; exact ⟨by simpa using h1, fun _ => by simp⟩
        | some u =>
          have h2 : Mono 1 s.buf b2 := by simpa using h1.next hn
          simp only []
          by_cases hu : u.kind = Kind.end_
          · simp only [hu, ↓reduceIte]; exact ⟨by simpa using h2.weaken (by omega), fun _ => by simp⟩
          · simp only [hu, ↓reduceIte]; exact ⟨by simpa using h2.backup, fun _ => by simp⟩

theorem readAll_good (c : Cfg) (hg : c.g = true) (n : Nat) : ∀ (k : Nat) (s : PS Zip),
    Mono 0 s.buf (readAll c n k s).2.buf ∧ (5 * s.buf.rem + 2 < n → ∀ r ∈ (readAll c n k s).1, r ≠ .fuel)
  | 0, s => by unfold readAll; exact ⟨Mono.refl _, fun _ r hr => by simp at hr⟩
  | k + 1, s => by
    unfold readAll
    have hm := more_mono s.buf
    cases hmo : more s.buf with
    | mk b b1 =>
      rw [hmo] at hm
      cases b with
      | false => simp only []; exact ⟨by simpa using hm, fun _ r hr => by simp at hr⟩
      | true =>
        simp only [] at hm ⊢
        have hrt := readTerm_good c hg n (withBuf s b1)
        have hr1 := hm.rem
        cases hr : readTerm c n (withBuf s b1) with
        | mk r s2 =>
          rw [hr] at hrt
          have h2 : Mono 0 s.buf s2.buf := Good.mono (s1 := withBuf s b1) hm hrt
          have hne : 5 * s.buf.rem + 2 < n → r ≠ .fuel := fun hf => hrt.2 (by simp; omega)
          cases r with
          | ok t =>
            simp only []
            have ih := readAll_good c hg n k s2
            refine ⟨by simpa using h2.trans ih.1, fun hf r hr => ?_⟩
            simp at hr
            cases hr with
            | inl h => rw [h]; simp
            | inr h => exact ih.2 (by have := h2.rem; omega) r h
          | err e => simp only []; exact ⟨h2, fun hf r hr => by simp at hr; rw [hr]; simp⟩
          | fuel => simp only []; exact ⟨h2, fun hf r hr => by simp at hr; rw [hr]; exact hne hf⟩

/-- a successful `Parser.Term` consumed at least its end token -/
theorem readTerm_ok (c : Cfg) (hg : c.g = true) (n : Nat) (s s' : PS Zip) (t : Term)
    (h : readTerm c n s = (.ok t, s')) : Mono 1 s.buf s'.buf := by
  unfold readTerm at h
  have ih1 := (allGood c hg n).term 1201 s
  cases ht : Read0.term c n 1201 s with
  | mk r s1 =>
    rw [ht] at ih1 h
    have h1 : Mono 0 s.buf s1.buf := ih1.1
    cases r with
    | fuel => simp at h
    | err e => cases e <;> simp at h
    | ok t1 =>
      simp only [] at h
      cases hn : (Buf.next s1.buf : Option Token × Zip) with
      | mk o b2 =>
        rw [hn] at h
        cases o with
        | none => simp only [hg, ↓reduceIte] at h; simp at h
        | some u =>
          have h2 : Mono 1 s.buf b2 := by simpa using h1.next hn
          simp only [] at h
          by_cases hu : u.kind = Kind.end_
          · simp only [hu, ↓reduceIte] at h
            simp at h
            rw [← h.2]; simpa using h2
          · simp only [hu, ↓reduceIte] at h; simp at h

/-- the loop `for p.More() { p.Term() … }` makes at most (tokens left) + 1 calls of `Term`, whatever `k` -/
theorem readAll_length (c : Cfg) (hg : c.g = true) (n : Nat) : ∀ (k : Nat) (s : PS Zip),
    (readAll c n k s).1.length ≤ s.buf.rem + 1
  | 0, s => by unfold readAll; simp
  | k + 1, s => by
    unfold readAll
    have hm := more_mono s.buf
    cases hmo : more s.buf with
    | mk b b1 =>
      rw [hmo] at hm
      cases b with
      | false => simp
      | true =>
        simp only [] at hm ⊢
        have hr1 := hm.rem
        cases hr : readTerm c n (withBuf s b1) with
        | mk r s2 =>
          cases r with
          | ok t =>
            simp only []
            have h1 := readTerm_ok c hg n (withBuf s b1) s2 t hr
            have := h1.rem
            have ih := readAll_length c hg n k s2
            simp at this ⊢
            omega
          | err e => simp
          | fuel => simp

end PrologVerif.Read0
