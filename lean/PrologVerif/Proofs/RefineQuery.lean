/-
  Refine, part 13 — the two top levels: what `SLD.solveQuery` reduces to on a query of the fragment,
  and the first activation of the VM (the query's own clause `tuple(FVs) :- Query`), after which the
  two machines are in the simulation relation on the query's conjuncts.
-/
import PrologVerif.Proofs.RefineTop
namespace PrologVerif.Refine
open PrologVerif PrologVerif.VM PrologVerif.DecompileCompile PrologVerif.Activation
  PrologVerif.RefineITree PrologVerif.RefineRobinson PrologVerif.VMScoped
  PrologVerif.Promise PrologVerif.DFSG PrologVerif.ForceDFSGConv

/-! ### the reference interpreter's top level -/

theorem solveAlts_frames (prog : List Term) (n d nv : Nat) (fs : List SLD.Frame) (rest : List SLD.Frame)
    (q : Term) (limit : Nat) :
    SLD.solveAlts false prog (n + 1) d nv [.frames fs] rest q limit =
      match SLD.solve false prog n (d + 1) nv (fs ++ rest) q limit with
      | none => none
      | some r =>
        match r.stop with
        | .exhausted => (SLD.solveAlts false prog n d nv [] rest q (limit - r.answers.length)).map (SLD.Res.prepend r.answers)
        | .cut c' => some { r with stop := if c' = d then .exhausted else .cut c' }
        | _ => some r := by
  rw [SLD.solveAlts]
  rfl

theorem hornGoal_isGoal {t : Term} (h : cutGoal t = true) : SLD.isGoal t = true := by
  rcases cutGoal_cases h with rfl | h
  · rfl
  · cases t <;> simp_all [hornGoal, SLD.isGoal]

theorem okBody_horn {b : Term} (h : bodyOK b = true) : SLD.okBody false b = true := by
  simp only [SLD.okBody, Bool.false_eq_true, if_false, disjuncts_horn b h, List.all_cons, List.all_nil, Bool.and_true]
  simp only [bodyOK, List.all_eq_true] at h ⊢
  exact fun t ht => hornGoal_isGoal (h t ht)

theorem addArgs_nil {b : Term} (hw : wfT b = true) (hnv : ∀ v, b ≠ .var v) (hc : SLD.isGoal b = true) :
    SLD.addArgs b [] = some b := by
  cases b with
  | var v => exact absurd rfl (hnv v)
  | atom f => simp [SLD.addArgs, SLD.functor, Term.mk]
  | app f as =>
    cases as with
    | nil => simp [wfT] at hw
    | cons a as' => simp [SLD.addArgs, SLD.functor, Term.mk, Args.toList, Args.ofList]
  | _ => simp [SLD.isGoal] at hc

/-- a Horn body, as a goal: atom or compound -/
theorem hornBody_isGoal {b : Term} (h : bodyOK b = true) : SLD.isGoal b = true := by
  cases b with
  | var v => exact absurd rfl (bodyOK_not_var h v)
  | atom _ => rfl
  | app _ _ => rfl
  | int i =>
    simp [bodyOK, SLD.conjuncts, SLD.wrapVar, cutGoal, hornGoal] at h
  | flt i =>
    simp [bodyOK, SLD.conjuncts, SLD.wrapVar, cutGoal, hornGoal] at h
  | str i =>
    simp [bodyOK, SLD.conjuncts, SLD.wrapVar, cutGoal, hornGoal] at h

theorem solve_call1 (prog : List Term) (n d nv l : Nat) (b : Term) (rest : List SLD.Frame) (q : Term) (limit : Nat)
    (hb : bodyOK b = true) (hw : wfT b = true) :
    SLD.solve false prog (n + 1) d nv (.goal (SLD.call1 b) l :: rest) q limit =
      SLD.solveAlts false prog n d nv [.frames ((SLD.conjuncts b).map (SLD.Frame.goal · d))] rest q limit := by
  have hnv := bodyOK_not_var hb
  rw [SLD.solve]
  · simp only [SLD.call1, SLD.functor, Args.toList, List.length_nil, Nat.not_lt_zero, if_false,
      addArgs_nil hw hnv (hornBody_isGoal hb), okBody_horn hb, if_true, SLD.bodyAlts, Bool.false_eq_true,
      disjuncts_horn b hb, List.map_cons, List.map_nil, SLD.bodyFrames]
  · intro v hv; cases hv

/-- how the reference reports the end of the search -/
def sldEnd : SLD.Stop → SLD.End
  | .exhausted | .cut _ => .exhausted
  | .full => .more
  | .raised (.app "error" (.cons formal (.cons _ .nil))) _ => .err formal
  | .raised b _ => .ball b

theorem solveQuery_horn (prog : List Term) (query : Term) (max f2 : Nat) (as2 : List Term) (e2 : SLD.End)
    (hb : bodyOK query = true) (hw : wfT query = true)
    (h : SLD.solveQuery f2 prog query max = some (as2, e2)) :
    ∃ n r1, SLD.solve false (progS prog) n 1 (SLD.maxVar query)
        ((SLD.conjuncts query).map (SLD.Frame.goal · 0)) query max = some r1 ∧
      as2 = r1.answers ∧ e2 = sldEnd r1.stop := by
  unfold SLD.solveQuery at h
  simp only [Bool.false_eq_true, if_false] at h
  change (match SLD.solve false (progS prog) f2 0 (SLD.maxVar query) [.goal (SLD.call1 query) 0] query max with
    | none => none
    | some r => some (r.answers, sldEnd r.stop)) = some (as2, e2) at h
  cases f2 with
  | zero => rw [solve_zero] at h; cases h
  | succ f =>
    rw [solve_call1 _ _ _ _ _ _ _ _ _ hb hw] at h
    cases f with
    | zero => rw [solveAlts_zero] at h; cases h
    | succ f' =>
      rw [solveAlts_frames, List.append_nil] at h
      cases hs : SLD.solve false (progS prog) f' 1 (SLD.maxVar query)
          ((SLD.conjuncts query).map (SLD.Frame.goal · 0)) query max with
      | none => rw [hs] at h; cases h
      | some r1 =>
        rw [hs] at h
        simp only at h
        refine ⟨f', r1, hs, ?_⟩
        cases hst : r1.stop with
        | exhausted =>
          rw [hst] at h
          simp only at h
          cases f' with
          | zero => rw [solve_zero] at hs; cases hs
          | succ f'' =>
            rw [solveAlts_nil] at h
            simp only [SLD.failed, Option.map_some, SLD.Res.prepend, List.append_nil, Option.some.injEq,
              Prod.mk.injEq] at h
            exact ⟨h.1.symm, h.2.symm⟩
        | cut c =>
          rw [hst] at h
          simp only [Option.some.injEq, Prod.mk.injEq] at h
          refine ⟨h.1.symm, ?_⟩
          rw [← h.2]
          by_cases hc : c = 0 <;> simp [hc, sldEnd]
        | full =>
          rw [hst] at h
          simp only [Option.some.injEq, Prod.mk.injEq] at h
          exact ⟨h.1.symm, by rw [← h.2, hst]⟩
        | raised b ex =>
          rw [hst] at h
          simp only [Option.some.injEq, Prod.mk.injEq] at h
          exact ⟨h.1.symm, by rw [← h.2, hst]⟩

/-! ### the VM's first activation: the query's own clause -/

theorem hasVar_shift {k w : Nat} {t : Term} (h : (SLD.shift k t).hasVar w = true) :
    ∃ v, t.hasVar v = true ∧ w = v + k := by
  rw [shift_eq_rename] at h
  obtain ⟨v, hv, rfl⟩ := hasVar_rename t h
  exact ⟨v, hv, rfl⟩

theorem unshift (k : Nat) (t : Term) : (SLD.shift k t).rename (· - k) = t := by
  rw [shift_eq_rename, rename_rename]
  have : t.rename (fun v => v + k - k) = t.rename id := rename_congr t (fun v _ => by simp)
  rw [this, Term.rename]
  exact Term.subst_id t

/-- substitutions that agree on a term agree on its variables -/
theorem subst_eq_vars (s1 s2 : Subst) : ∀ t : Term, t.subst s1 = t.subst s2 → ∀ v, t.hasVar v = true → s1 v = s2 v := by
  intro t
  refine Term.rec (motive_1 := fun t => t.subst s1 = t.subst s2 → ∀ v, t.hasVar v = true → s1 v = s2 v)
    (motive_2 := fun as => as.subst s1 = as.subst s2 → ∀ v, as.hasVar v = true → s1 v = s2 v)
    ?_ ?_ ?_ ?_ ?_ ?_ ?_ ?_ t
  · intro w hw v hv
    simp only [Term.hasVar, beq_iff_eq] at hv
    subst hv
    simpa [Term.subst] using hw
  · intro _ _ v hv; simp [Term.hasVar] at hv
  · intro _ _ v hv; simp [Term.hasVar] at hv
  · intro _ _ v hv; simp [Term.hasVar] at hv
  · intro _ _ v hv; simp [Term.hasVar] at hv
  · intro f as ih hw v hv
    simp only [Term.subst, Term.app.injEq, true_and] at hw
    exact ih hw v (by simpa [Term.hasVar] using hv)
  · intro _ v hv; simp [Args.hasVar] at hv
  · intro t ts iht ihts hw v hv
    simp only [Args.subst, Args.cons.injEq] at hw
    simp only [Args.hasVar, Bool.or_eq_true] at hv
    rcases hv with hv | hv
    · exact iht hw.1 v hv
    · exact ihts hw.2 v hv

theorem img_id (π : Nat → Nat) (t : Term) : img (fun v => .var v) π t = t.rename π := by
  simp only [img, Term.subst_id]

section start
variable (query : Term)

/-- the unifier of `tuple(x̄)` and `tuple(ȳ)`: x = v' + B ↦ y = v' - 10 for the variables v' of the shifted query -/
def tau0 : Subst := fun z =>
  if SLD.maxVar query ≤ z ∧ (SLD.shift 10 query).hasVar (z - SLD.maxVar query) = true
  then .var (z - SLD.maxVar query - 10) else .var z

theorem qvar_bounds {v : Nat} (h : (SLD.shift 10 query).hasVar v = true) : 10 ≤ v ∧ v - 10 < SLD.maxVar query := by
  obtain ⟨u, hu, rfl⟩ := hasVar_shift h
  have := hasVar_lt_maxVar query hu
  omega

theorem tau0_a {t : Term} (ht : ∀ v, t.hasVar v = true → (SLD.shift 10 query).hasVar v = true) :
    (t.rename (· + SLD.maxVar query)).subst (tau0 query) = t.rename (· - 10) := by
  rw [rename_subst]
  apply subst_congr
  intro v hv
  have hq := ht v hv
  show tau0 query (v + SLD.maxVar query) = _
  unfold tau0
  rw [if_pos ⟨by omega, by simpa using hq⟩]
  simp

theorem tau0_b {t : Term} (ht : ∀ v, t.hasVar v = true → (SLD.shift 10 query).hasVar v = true) :
    (t.rename (· - 10)).subst (tau0 query) = t.rename (· - 10) := by
  have : (t.rename (· - 10)).subst (tau0 query) = (t.rename (· - 10)).subst (fun v => .var v) := by
    apply subst_congr
    intro z hz
    obtain ⟨v, hv, rfl⟩ := hasVar_rename t hz
    have := qvar_bounds query (ht v hv)
    unfold tau0
    rw [if_neg (by omega)]
  rw [this, Term.subst_id]

theorem tau0_mgu {h : Term} (hh : ∀ v, h.hasVar v = true ↔ (SLD.shift 10 query).hasVar v = true) :
    MguLike (h.rename (· + SLD.maxVar query)) (h.rename (· - 10)) (tau0 query) := by
  refine ⟨?_, ?_, ?_⟩
  · rw [tau0_a query (fun v hv => (hh v).1 hv), tau0_b query (fun v hv => (hh v).1 hv)]
  · intro β hβ z
    rw [rename_subst, rename_subst] at hβ
    have key := subst_eq_vars _ _ h hβ
    unfold tau0
    split
    · rename_i hc
      have := key (z - SLD.maxVar query) ((hh _).2 hc.2)
      simp only [Term.subst]
      rw [← this]
      congr 1
      omega
    · rfl
  · intro y z hz
    unfold tau0 at hz
    split at hz
    · rename_i hc
      simp only [Term.hasVar, beq_iff_eq] at hz
      right; right
      rw [← hz]
      exact hasVar_rename_of (π := (· - 10)) ((hh _).2 hc.2)
    · simp only [Term.hasVar, beq_iff_eq] at hz
      exact Or.inl hz.symm

end start

end PrologVerif.Refine
