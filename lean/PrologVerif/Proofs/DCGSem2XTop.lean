/-
  Proofs/DCGSem2XTop — the query with an arbitrary third argument of phrase/3: the conclusion of the
  open statement for the fragment of stage C (closures of call//N computed at run time allowed).
-/
import PrologVerif.Proofs.DCGSem2X
namespace PrologVerif.Grammar
open PrologVerif

/-- both stores empty; the variables below `k` correspond to themselves; the SLD side has `nh`
    hidden variables from `k` on -/
def World.initX (k nh : Nat) : World :=
  { σS := [], σD := [], ρ := fun x y => x = y ∧ x < k, nS := k + nh, nD := k }

theorem World.initX_good (k nh : Nat) : (World.initX k nh).Good := by
  refine ⟨fun a b b' h h' => by rw [← h.1, ← h'.1], fun a a' b h h' => by rw [h.1, h'.1], ?_, ?_,
    fun a b _ => ⟨fun p hp => by simp [World.initX] at hp, fun p hp => by simp [World.initX] at hp⟩⟩
  · intro v hv
    rcases hv with ⟨p, hp, _⟩ | ⟨b, r⟩
    · simp [World.initX] at hp
    · have : v < k := r.2
      show v < k + nh
      omega
  · intro v hv
    rcases hv with ⟨p, hp, _⟩ | ⟨b, r⟩
    · simp [World.initX] at hp
    · have : b = v ∧ b < k := r
      show v < k
      omega

theorem World.initX_var (k nh v : Nat) (hv : v < k) : (World.initX k nh).Eq (.var (v + 0)) (.var (v + 0)) := by
  rw [World.Eq_unfold]
  show Sim1 _ _ (walk [] _) (walk [] _)
  simp only [walk]
  exact .var ⟨rfl, hv⟩

theorem World.initX_eq (k nh : Nat) (t : Term) (h : boundT t ≤ k) : (World.initX k nh).Eq t t := by
  have := rename_eq (W := World.initX k nh) (oS := 0) (oD := 0) (fun v hv => World.initX_var k nh v hv) t h
  rwa [renameT_zero] at this

theorem World.initX_untouched (k nh v : Nat) (hv : k ≤ v) : ¬ (World.initX k nh).TS v := by
  rintro (⟨p, hp, _⟩ | ⟨b, r⟩)
  · simp [World.initX] at hp
  · have : v < k := r.2
    omega

/-- **the query, arbitrary third argument** -/
theorem query_simX (cfg : Cfg) (hcfg : cfg.engine = false) (gr : Grammar)
    (hgr : ∀ r ∈ gr, GoodRuleW false r) (b : Body) (hb : b.ok false = true) (l r : Term) (k : Nat)
    (hbk : b.varsBelow k = true) (hlk : boundT l ≤ k) (hrk : boundT r ≤ k) (n : Nat) :
    RelX (World.initX k b.nhid) (FrX k (k + b.nhid))
      (solve cfg.uf (programOf gr) n (b.tr l r k).1 ⟨[], k + b.nhid⟩)
      (post cfg.uf r (den cfg gr n true b ⟨[], k⟩ l)) := by
  have hrel : BodyRel (World.initX k b.nhid).Eq b b := by
    have := rename_bodyRel (W := World.initX k b.nhid) (oS := 0) (oD := 0)
      (fun v hv => World.initX_var k b.nhid v hv) b hbk
    rwa [rename_zero] at this
  exact level_simX cfg hcfg gr hgr n b hb b (World.initX k b.nhid) hrel true l l r r k
    ⟨World.initX_good k b.nhid, World.initX_eq k b.nhid l hlk, World.initX_eq k b.nhid r hrk,
      fun v h _ => World.initX_untouched k b.nhid v h, Nat.le_refl _⟩

/-- in the shape of the open statement -/
theorem phrase_agreesX (cfg : Cfg) (hcfg : cfg.engine = false) (gr : Grammar) (hgr : ∀ r ∈ gr, GoodRuleW false r)
    (q l r : Term) (b : Body) (hq : Body.ofTerm q = .ok b) (hb : b.ok false = true) (k : Nat)
    (hqk : boundT q ≤ k) (hlk : boundT l ≤ k) (hrk : boundT r ≤ k) (n : Nat) (A : SOut) (D : List St)
    (hA : solve cfg.uf (programOf gr) n (b.tr l r k).1 ⟨[], k + b.nhid⟩ = .ok A)
    (hD : Grammar.phrase cfg gr n b ⟨[], k⟩ l r = .ok D) :
    projected cfg.uf (Term.mk "t" [q, l, r]) A.answers = projected cfg.uf (Term.mk "t" [q, l, r]) D := by
  have hbk : b.varsBelow k = true := varsBelow_mono b hqk (ofTerm_varsBelow q b hq)
  have h := query_simX cfg hcfg gr hgr b hb l r k hbk hlk hrk n
  rw [hA] at h
  rw [phrase_eq] at hD
  cases hden : den cfg gr n true b ⟨[], k⟩ l with
  | error e => rw [hden] at hD; simp at hD
  | ok O =>
    rw [hden] at h hD
    simp only [] at hD
    obtain ⟨as, hp, hDas⟩ := phraseFold_postL cfg.uf r O.answers D hD
    simp only [post, hp] at h
    obtain ⟨_, hall⟩ := h
    subst hDas
    unfold projected
    rw [List.map_map]
    refine hall.map_eq _ _ (fun st' a ha => ?_)
    obtain ⟨W', e1, e2, g, st, _⟩ := ha
    simp only [Function.comp]
    rw [e1, e2]
    refine projected_eq g cfg.uf ?_
    rw [World.Eq_unfold]
    simp only [Term.mk, Args.ofList]
    rw [walk_nonvar _ _ rfl, walk_nonvar _ _ rfl]
    exact .app (.cons (st.eq _ _ (World.initX_eq k b.nhid q hqk)) (.cons (st.eq _ _ (World.initX_eq k b.nhid l hlk))
      (.cons (st.eq _ _ (World.initX_eq k b.nhid r hrk)) .nil)))

/-! ### what the reader delivers is well-formed -/

theorem headOf_bound {h : Term} {f : String} {as : List Term} (e : headOf h = .ok (f, as)) (n : Nat)
    (hn : boundT h ≤ n) : as.all (fun t => decide (boundT t ≤ n)) = true := by
  cases h with
  | var v => simp [headOf] at e
  | atom a => simp only [headOf, Except.ok.injEq, Prod.mk.injEq] at e; rw [← e.2]; rfl
  | app g bs =>
    simp only [headOf, Except.ok.injEq, Prod.mk.injEq] at e
    rw [← e.2]
    refine all_bound_occ _ n (fun v hv => ?_)
    have : occT v (.app g bs) = true := by simpa [occT, occL_toList] using hv
    have := occ_bound _ v this
    omega
  | int _ => simp [headOf] at e
  | flt _ => simp [headOf] at e
  | str _ => simp [headOf] at e

theorem terminalsOf_bound {t : Term} {ts : List Term} (e : terminalsOf t = .ok ts) (n : Nat)
    (hn : boundT t ≤ n) : ts.all (fun t => decide (boundT t ≤ n)) = true := by
  refine all_bound_occ _ n (fun v hv => ?_)
  have := occ_bound _ v (terminalsOf_occ v t ts e hv)
  omega

/-- a rule read by `Rule.ofTerm` is well-formed and its body is in the non-strict fragment -/
theorem ofTerm_rule_wf (rt : Term) (r : Rule) (h : Rule.ofTerm rt = .ok r) :
    r.wf = true ∧ r.body.ok false = true := by
  unfold Rule.ofTerm at h
  split at h
  · rename_i hd bd
    simp only at h
    split at h
    · rename_i nt pb
      cases hh : headOf nt with
      | error e => simp [hh] at h
      | ok p =>
        obtain ⟨f, as⟩ := p
        simp only [hh] at h
        cases hb : Body.ofTerm bd with
        | error e => simp [hb] at h
        | ok b' =>
          simp only [hb] at h
          cases hp : terminalsOf pb with
          | error e => simp [hp] at h
          | ok ts =>
            simp only [hp, Except.ok.injEq] at h
            subst h
            have hbnd : boundT (Term.app "," (.cons nt (.cons pb .nil))) = max (boundT nt) (max (boundT pb) 0) := rfl
            refine ⟨?_, ofTerm_ok bd b' hb⟩
            simp only [Rule.wf, Bool.and_eq_true]
            refine ⟨⟨headOf_bound hh _ (by rw [hbnd]; omega), terminalsOf_bound hp _ (by rw [hbnd]; omega)⟩, ?_⟩
            exact varsBelow_mono b' (Nat.le_max_right _ _) (ofTerm_varsBelow bd b' hb)
    · rename_i hne
      cases hh : headOf hd with
      | error e => simp [hh] at h
      | ok p =>
        obtain ⟨f, as⟩ := p
        simp only [hh] at h
        cases hb : Body.ofTerm bd with
        | error e => simp [hb] at h
        | ok b' =>
          simp only [hb, Except.ok.injEq] at h
          subst h
          refine ⟨?_, ofTerm_ok bd b' hb⟩
          simp only [Rule.wf, Bool.and_eq_true]
          exact ⟨⟨headOf_bound hh _ (Nat.le_max_left _ _), trivial⟩,
            varsBelow_mono b' (Nat.le_max_right _ _) (ofTerm_varsBelow bd b' hb)⟩
  · simp at h

/-- stage E:   a --> [x].    b --> [y].    t(B) --> call(a), phrase(b), B.
    (call//1, phrase//1 and a variable body) -/
def exampleGrammarE : Grammar :=
  [ { name := "a", args := [], pushback := none, nv := 0, body := .terminals [.atom "x"] },
    { name := "b", args := [], pushback := none, nv := 0, body := .terminals [.atom "y"] },
    { name := "t", args := [.var 0], pushback := none, nv := 1,
      body := .seq (.call1 (.atom "a")) (.seq (.phrase (.atom "b")) (.var 0)) } ]

end PrologVerif.Grammar
