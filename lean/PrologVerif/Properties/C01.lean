/-
  C01 — answers are those of depth-first, left-to-right SLD resolution, in order.

  Subject: `Model/VM.lean` (exec, Arrive, clauses.call, Call and the control builtins, on the
  trampoline of `Model/Promise.lean`), loaded with the REGENERATED bootstrap clauses.  The
  end-to-end refinement against `Spec/SLD.lean` is checked by the answer streams (c01.answers,
  c03.answers, c04.answers: real interpreter vs VM model vs reference interpreter) and is NOT yet a
  theorem; proved here are the pieces it composes: database order of alternatives, one shared and
  fresh cut parent per call, opacity of call/N, freshness of activation variables, and — by
  reference — force_dfs (C03), decompile_compile (C10), unify (C02).
-/
import PrologVerif.Model.VM
import PrologVerif.Proofs.SLDSanity
import PrologVerif.Properties.C01Activation
namespace PrologVerif.C01
open PrologVerif PrologVerif.VM PrologVerif.Promise

/-- **C01_clauses_in_database_order**: a call to a user predicate creates ONE promise whose
    alternatives are the predicate's clauses at call time, in database order, all sharing that
    promise as their cut parent; the promise's id is fresh -/
theorem C01_clauses_in_database_order (cs : List Clause) (args : List Term) (k : Cont) (env : Env) (m : MS) :
    let r := clausesCall cs args k env m
    r.1.id = m.user.nextId ∧
    r.1.delayed = cs.map (fun c => Thunk.clause c args k env m.user.nextId) ∧
    r.1.cutParent = none ∧ r.1.recover = none ∧
    r.2.user.nextId = m.user.nextId + 1 := by
  simp [clausesCall, freshId]

/-- **C01_call_is_opaque**: `Call` (call/N, the goal of `\+`, findall/3, catch/3, and every control
    construct of bootstrap.pl, which all go through it) runs its goal as an anonymous one-off
    predicate with its OWN fresh cut parent: a cut inside can only cut back to that promise -/
theorem C01_call_is_opaque (goal : Term) (k : Cont) (env : Env) (m : MS) (cs : List Clause) (fvs : List Term)
    (hg : ∀ v, res env goal ≠ .var v) (hc : compileCall (res env goal) env = .ok (cs, fvs)) :
    (callGoal goal k env m).1.id = m.user.nextId ∧
    (callGoal goal k env m).1.delayed = cs.map (fun c => Thunk.clause c fvs k env m.user.nextId) := by
  unfold callGoal
  split
  · rename_i v h; exact absurd h (hg v)
  · simp [hc, clausesCall, freshId]

/-- **C01_activation_fresh**: the variables of a clause activation (and the skeleton variables of
    get_functor / get_list / get_partial) are drawn from a counter that only grows: they are
    pairwise distinct, at or above the counter's value before, and below its value after — so
    they are distinct from every variable created earlier and from those of every other
    activation, sibling branch or later answer -/
theorem C01_activation_fresh (n : Nat) (m : MS) :
    let r := freshVars n m
    r.1 = (List.range n).map (· + m.user.nextVar) ∧
    r.2.user.nextVar = m.user.nextVar + n ∧
    r.1.Nodup ∧ ∀ v ∈ r.1, m.user.nextVar ≤ v ∧ v < r.2.user.nextVar := by
  refine ⟨rfl, rfl, ?_, ?_⟩
  · simp only [freshVars]
    rw [List.nodup_iff_pairwise_ne, List.pairwise_map]
    exact List.Pairwise.imp (fun {a b} (h : a < b) => by omega) List.pairwise_lt_range
  · intro v hv
    simp only [freshVars, List.mem_map, List.mem_range] at hv
    obtain ⟨a, ha, rfl⟩ := hv
    simp [freshVars]; omega

/-- the control constructs the VM model executes are the clauses bootstrap.pl contains NOW: the
    conjunction, disjunction, if-then(-else), once/1, \=/2, fail/0 clauses, exactly as expected -/
def expectedControl : List Term :=
  [ -- true.
    .atom "true",
    -- fail :- \+true.
    .app ":-" (.cons (.atom "fail") (.cons (.app "\\+" (.cons (.atom "true") .nil)) .nil)),
    -- ! :- !.
    .app ":-" (.cons (.atom "!") (.cons (.atom "!") .nil)),
    -- P, Q :- call((P, Q)).
    .app ":-" (.cons (.app "," (.cons (.var 0) (.cons (.var 1) .nil)))
      (.cons (.app "call" (.cons (.app "," (.cons (.var 0) (.cons (.var 1) .nil))) .nil)) .nil)),
    -- If -> Then; _ :- If, !, Then.
    .app ":-" (.cons (.app ";" (.cons (.app "->" (.cons (.var 0) (.cons (.var 1) .nil))) (.cons (.var 2) .nil)))
      (.cons (.app "," (.cons (.var 0) (.cons (.app "," (.cons (.atom "!") (.cons (.var 1) .nil))) .nil))) .nil)),
    -- _ -> _; Else :- !, Else.
    .app ":-" (.cons (.app ";" (.cons (.app "->" (.cons (.var 0) (.cons (.var 1) .nil))) (.cons (.var 2) .nil)))
      (.cons (.app "," (.cons (.atom "!") (.cons (.var 2) .nil))) .nil)),
    -- P; Q :- call((P; Q)).
    .app ":-" (.cons (.app ";" (.cons (.var 0) (.cons (.var 1) .nil)))
      (.cons (.app "call" (.cons (.app ";" (.cons (.var 0) (.cons (.var 1) .nil))) .nil)) .nil)),
    -- If -> Then :- If, !, Then.
    .app ":-" (.cons (.app "->" (.cons (.var 0) (.cons (.var 1) .nil)))
      (.cons (.app "," (.cons (.var 0) (.cons (.app "," (.cons (.atom "!") (.cons (.var 1) .nil))) .nil))) .nil)),
    -- X \= Y :- \+(X = Y).
    .app ":-" (.cons (.app "\\=" (.cons (.var 0) (.cons (.var 1) .nil)))
      (.cons (.app "\\+" (.cons (.app "=" (.cons (.var 0) (.cons (.var 1) .nil))) .nil)) .nil)) ]

theorem C01_bootstrap_control_tied :
    ((Generated.bootstrapTerms.filter fun t =>
      match t with | .app ":-" (.cons _ .nil) => false | _ => true).take 9) = expectedControl := by
  decide +kernel

/-- once/1 is `once(P) :- P, !.` in the regenerated bootstrap -/
theorem C01_bootstrap_once_tied :
    Generated.bootstrapTerms.contains
      (.app ":-" (.cons (.app "once" (.cons (.var 0) .nil))
        (.cons (.app "," (.cons (.var 0) (.cons (.atom "!") .nil))) .nil))) = true := by
  decide +kernel

end PrologVerif.C01
