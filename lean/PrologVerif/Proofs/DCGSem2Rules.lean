/-
  Proofs/DCGSem2Rules — renaming apart on the two sides: the translation commutes with renaming
  (`tr_renameG`, for every body), the renamed rule on the SLD side and the renamed rule on the
  denotation's side are related once their variables are (`rename_eq`, `rename_bodyRel`), the
  clause of a rule (`clause_eq`), well-formed rules.
-/
import PrologVerif.Proofs.DCGSem2Body
namespace PrologVerif.Grammar
open PrologVerif

/-! ### renaming commutes with the translation -/

theorem renameA_ofList (k : Nat) : ∀ l : List Term, renameA k (Args.ofList l) = Args.ofList (l.map (renameT k))
  | [] => rfl
  | t :: ts => by simp [Args.ofList, renameA, renameA_ofList k ts]

theorem renameT_mk2 (k : Nat) (f : String) (as : List Term) (x y : Term) :
    renameT k (Term.mk f (as ++ [x, y])) = Term.mk f (as.map (renameT k) ++ [renameT k x, renameT k y]) := by
  rw [mk_append2, mk_append2]
  simp [renameT, renameA_ofList]

theorem renameT_a1 (k : Nat) (f : String) (x : Term) : renameT k (Term.a1 f x) = Term.a1 f (renameT k x) := by
  simp [Term.a1, renameT, renameA]

theorem renameT_a3 (k : Nat) (f : String) (x y z : Term) :
    renameT k (Term.a3 f x y z) = Term.a3 f (renameT k x) (renameT k y) (renameT k z) := by
  simp [Term.a3, renameT, renameA]

theorem rename_nhid (k : Nat) (b : Body) : (b.rename k).nhid = b.nhid := by
  induction b <;> simp_all [Body.rename, Body.nhid]

/-- renaming a translated body apart = translating the renamed body with the renamed hidden
    arguments and the shifted supply -/
theorem tr_renameG (k : Nat) (b : Body) :
    ∀ (i o : Term) (n : Nat),
      renameT k (b.tr i o n).1 = ((b.rename k).tr (renameT k i) (renameT k o) (n + k)).1 := by
  induction b with
  | eps => intro i o n; simp [Body.tr, Body.rename, renameT_a2]
  | terminals ts => intro i o n; simp [Body.tr, Body.rename, renameT_a2, renameT_list]
  | nt f as => intro i o n; simp [Body.tr, Body.rename, renameT_mk2]
  | seq a b iha ihb =>
    intro i o n
    simp only [Body.tr, Body.rename, tr_next, renameT_a2, iha, ihb, rename_nhid]
    simp [renameT, Nat.add_assoc, Nat.add_comm]
  | alt a b iha ihb =>
    intro i o n
    simp only [Body.tr, Body.rename, tr_next, renameT_a2, iha, ihb, rename_nhid]
    rw [Nat.add_right_comm n a.nhid k]
  | ite c t e ihc iht ihe =>
    intro i o n
    simp only [Body.tr, Body.rename, tr_next, renameT_a2, ihc, iht, ihe, rename_nhid]
    simp [renameT, Nat.add_assoc, Nat.add_comm]
  | ifthen c t ihc iht =>
    intro i o n
    simp only [Body.tr, Body.rename, tr_next, renameT_a2, ihc, iht, rename_nhid]
    simp [renameT, Nat.add_assoc, Nat.add_comm]
  | block g => intro i o n; simp [Body.tr, Body.rename, renameT_a2]
  | not b ih =>
    intro i o n
    simp only [Body.tr, Body.rename, renameT_a2, renameT_a1, ih]
    simp [renameT, Nat.add_assoc, Nat.add_comm]
  | cut => intro i o n; simp [Body.tr, Body.rename, renameT_a2, renameT]
  | call1 g => intro i o n; simp [Body.tr, Body.rename, renameT_a3]
  | phrase g => intro i o n; simp [Body.tr, Body.rename, renameT_a3]
  | var v => intro i o n; simp [Body.tr, Body.rename, renameT_a3, renameT]

/-! ### the fragment is closed under renaming -/

theorem goalOK_rename (k : Nat) : ∀ g : Term, goalOK (renameT k g) = goalOK g
  | .app f (.cons a (.cons b .nil)) => by
    simp only [renameT, renameA, goalOK]
    rw [goalOK_rename k a, goalOK_rename k b]
  | .app _ .nil => rfl
  | .app _ (.cons _ .nil) => rfl
  | .app _ (.cons _ (.cons _ (.cons _ _))) => rfl
  | .atom _ => rfl
  | .var _ => rfl
  | .int _ => rfl
  | .flt _ => rfl
  | .str _ => rfl

theorem staticClosure_rename (k : Nat) (g : Term) : staticClosure (renameT k g) = staticClosure g := by
  cases g <;> simp [renameT, staticClosure]

theorem ntOK_rename (strict : Bool) (k : Nat) (f : String) (as : List Term) :
    ntOK strict f (as.map (renameT k)) = ntOK strict f as := by
  unfold ntOK
  split
  · cases as with
    | nil => rfl
    | cons a as => cases as with
      | nil => rfl
      | cons b bs => simp [staticClosure_rename]
  · simp

theorem isIfthen_rename (k : Nat) (b : Body) : (b.rename k).isIfthen = b.isIfthen := by
  cases b <;> rfl

theorem ok_rename (strict : Bool) (k : Nat) (b : Body) : (b.rename k).ok strict = b.ok strict := by
  induction b <;> simp_all [Body.rename, Body.ok, ntOK_rename, goalOK_rename, isIfthen_rename]

/-! ### well-formed rules: every variable is below `nv` -/

/-- every term of the body satisfies `p` -/
def Body.allT (p : Term → Bool) : Body → Bool
  | .eps => true
  | .terminals ts => ts.all p
  | .nt _ as => as.all p
  | .seq a b => a.allT p && b.allT p
  | .alt a b => a.allT p && b.allT p
  | .ite c t e => c.allT p && t.allT p && e.allT p
  | .ifthen c t => c.allT p && t.allT p
  | .block g => p g
  | .not b => b.allT p
  | .cut => true
  | .call1 g => p g
  | .phrase g => p g
  | .var v => p (.var v)

/-- all variables of the body are below `n` -/
def Body.varsBelow (n : Nat) (b : Body) : Bool := b.allT (fun t => decide (boundT t ≤ n))

/-- the rule's variables are 0 … nv-1, as `Rule.ofTerm` guarantees -/
def Rule.wf (r : Rule) : Bool :=
  r.args.all (fun t => decide (boundT t ≤ r.nv)) &&
    (match r.pushback with | none => true | some pb => pb.all (fun t => decide (boundT t ≤ r.nv))) &&
    r.body.varsBelow r.nv

/-! ### renamed terms correspond -/

mutual
  theorem rename_eq {W : World} {oS oD nv : Nat}
      (hv : ∀ v, v < nv → W.Eq (.var (v + oS)) (.var (v + oD))) :
      ∀ t : Term, boundT t ≤ nv → W.Eq (renameT oS t) (renameT oD t)
    | .var v, h => by simp only [boundT] at h; exact hv v (by omega)
    | .atom a, _ => by
      rw [World.Eq_unfold]; simp only [renameT]
      rw [walk_nonvar _ _ rfl, walk_nonvar _ _ rfl]; exact .atom a
    | .int a, _ => by
      rw [World.Eq_unfold]; simp only [renameT]
      rw [walk_nonvar _ _ rfl, walk_nonvar _ _ rfl]; exact .int a
    | .flt a, _ => by
      rw [World.Eq_unfold]; simp only [renameT]
      rw [walk_nonvar _ _ rfl, walk_nonvar _ _ rfl]; exact .flt a
    | .str a, _ => by
      rw [World.Eq_unfold]; simp only [renameT]
      rw [walk_nonvar _ _ rfl, walk_nonvar _ _ rfl]; exact .str a
    | .app f as, h => by
      rw [World.Eq_unfold]; simp only [renameT]
      rw [walk_nonvar _ _ rfl, walk_nonvar _ _ rfl]
      exact .app (renameA_eq hv as (by simpa [boundT] using h))
  theorem renameA_eq {W : World} {oS oD nv : Nat}
      (hv : ∀ v, v < nv → W.Eq (.var (v + oS)) (.var (v + oD))) :
      ∀ as : Args, boundA as ≤ nv → ArgsRel W.Eq (renameA oS as) (renameA oD as)
    | .nil, _ => .nil
    | .cons t ts, h => by
      simp only [boundA] at h
      exact .cons (rename_eq hv t (by omega)) (renameA_eq hv ts (by omega))
end

theorem renameL_eq {W : World} {oS oD nv : Nat}
    (hv : ∀ v, v < nv → W.Eq (.var (v + oS)) (.var (v + oD))) :
    ∀ ts : List Term, ts.all (fun t => decide (boundT t ≤ nv)) = true →
      All2 W.Eq (ts.map (renameT oS)) (ts.map (renameT oD))
  | [], _ => .nil
  | t :: ts, h => by
    simp only [List.all_cons, Bool.and_eq_true, decide_eq_true_eq] at h
    exact .cons (rename_eq hv t h.1) (renameL_eq hv ts h.2)

theorem evalBlock_arity3 (uf : Nat) (f : String) (a b c : Term) (ds : Args) (st : St) :
    ∃ e, evalBlock uf (.app f (.cons a (.cons b (.cons c ds)))) st = .error e := by
  unfold evalBlock
  split <;> simp_all

theorem evalBlock_arity1 (uf : Nat) (f : String) (a : Term) (st : St) :
    ∃ e, evalBlock uf (.app f (.cons a .nil)) st = .error e := by
  unfold evalBlock
  split <;> simp_all

theorem evalBlock_arity0 (uf : Nat) (f : String) (st : St) :
    ∃ e, evalBlock uf (.app f .nil) st = .error e := by
  unfold evalBlock
  split <;> simp_all

/-- a renamed `{}`-goal on the two sides: the same control structure, related arguments; a goal of
    another shape is one the denotation does not cover, renamed or not -/
theorem rename_goalRel {W : World} {oS oD nv : Nat}
    (hv : ∀ v, v < nv → W.Eq (.var (v + oS)) (.var (v + oD))) :
    ∀ g : Term, boundT g ≤ nv → GoalRel W.Eq (renameT oS g) (renameT oD g)
  | .app f (.cons a (.cons b .nil)), hb => by
    simp only [boundT, boundA] at hb
    simp only [renameT, renameA]
    by_cases hf : f = ","
    · subst hf
      exact .conj (rename_goalRel hv a (by omega)) (rename_goalRel hv b (by omega))
    · exact .bin hf (rename_eq hv a (by omega)) (rename_eq hv b (by omega))
  | .atom a, _ => .atom a
  | .app _ .nil, _ => by
    simp only [renameT, renameA]
    exact .other rfl (fun uf st => evalBlock_arity0 uf _ st)
  | .app _ (.cons _ .nil), _ => by
    simp only [renameT, renameA]
    exact .other rfl (fun uf st => evalBlock_arity1 uf _ _ st)
  | .app _ (.cons _ (.cons _ (.cons _ _))), _ => by
    simp only [renameT, renameA]
    exact .other rfl (fun uf st => evalBlock_arity3 uf _ _ _ _ _ st)
  | .var _, _ => .other rfl (fun _ _ => ⟨_, rfl⟩)
  | .int _, _ => .other rfl (fun _ _ => ⟨_, rfl⟩)
  | .flt _, _ => .other rfl (fun _ _ => ⟨_, rfl⟩)
  | .str _, _ => .other rfl (fun _ _ => ⟨_, rfl⟩)

theorem rename_bodyRel {W : World} {oS oD nv : Nat}
    (hv : ∀ v, v < nv → W.Eq (.var (v + oS)) (.var (v + oD))) (b : Body) :
    b.varsBelow nv = true → BodyRel W.Eq (b.rename oS) (b.rename oD) := by
  induction b with
  | eps => intro _; exact .eps
  | terminals ts => intro h; exact .terminals (renameL_eq hv ts h)
  | nt f as => intro h; exact .nt (renameL_eq hv as h)
  | seq a b iha ihb =>
    intro h
    simp only [Body.varsBelow, Body.allT, Bool.and_eq_true] at h
    exact .seq (iha h.1) (ihb h.2)
  | alt a b iha ihb =>
    intro h
    simp only [Body.varsBelow, Body.allT, Bool.and_eq_true] at h
    exact .alt (iha h.1) (ihb h.2)
  | ite c t e ihc iht ihe =>
    intro h
    simp only [Body.varsBelow, Body.allT, Bool.and_eq_true] at h
    exact .ite (ihc h.1.1) (iht h.1.2) (ihe h.2)
  | ifthen c t ihc iht =>
    intro h
    simp only [Body.varsBelow, Body.allT, Bool.and_eq_true] at h
    exact .ifthen (ihc h.1) (iht h.2)
  | block g =>
    intro h
    simp only [Body.varsBelow, Body.allT, decide_eq_true_eq] at h
    exact .block (rename_goalRel hv g h)
  | not b ih =>
    intro h
    simp only [Body.varsBelow, Body.allT] at h
    exact .not (ih h)
  | cut => intro _; exact .cut
  | call1 g =>
    intro h
    simp only [Body.varsBelow, Body.allT, decide_eq_true_eq] at h
    exact .call1 (rename_eq hv g h)
  | phrase g =>
    intro h
    simp only [Body.varsBelow, Body.allT, decide_eq_true_eq] at h
    exact .phrase (rename_eq hv g h)
  | var w =>
    intro h
    simp only [Body.varsBelow, Body.allT, boundT] at h
    have := of_decide_eq_true h
    exact .var (hv w (by omega))

/-! ### the clause of a rule -/

theorem clause_eq (r : Rule) :
    r.clause = { head := Term.mk r.name (r.args ++ [.var r.nv, .var (r.nv + 2)]),
                 body := (match r.pushback with
                   | none => (r.body.tr (.var r.nv) (.var (r.nv + 2)) (r.nv + 3)).1
                   | some pb => Term.a2 "," (r.body.tr (.var r.nv) (.var (r.nv + 1)) (r.nv + 3)).1
                       (Term.a2 "=" (.var (r.nv + 2)) (Term.list pb (.var (r.nv + 1))))),
                 nv := r.nv + 3 + r.body.nhid } := by
  cases hp : r.pushback <;> simp [Rule.clause, Rule.tr, hp, Term.a2, tr_next]

end PrologVerif.Grammar
