"""Per-property configuration of bin/check (streams, sizes, trusted base). See DESIGN.md §6."""

COMMON_TRUSTED = [
    "Lean 4.33.0 kernel (thorough tier: re-checked with leanchecker); axioms allowed in property theorems: propext, Classical.choice, Quot.sound only (audited on every run by PrologVerif/Audit.lean); no sorry/admit/native_decide/bv_decide/own axioms (grep on every run)",
    "hand-written Lean model mirrors the Go code: CHECKED by the correspondence streams (differential testing, bounded by the generators; distributions are in this file), not proved",
    "/verif/extract (regenerated facts / translated definitions) and /verif/harness (in-process runner, canonicalisation: variables renamed by first occurrence, map-ordered output sorted, error context dropped)",
    "Go compiler/runtime and standard library behave as documented",
]

NOT_APPLICABLE = {}

PROPS = {
    "C18": dict(
        level_text="Proof: the operator-table state machine (Op/validateOp/CurrentOp and the operators methods) is modelled in Lean; for ALL histories of op/3 calls with arbitrary argument terms the ISO invariant (C18_inv), atomicity of failed updates (C18_atomic), the exact effect of successful updates (C18_update_exact: latest wins, 0 removes, other classes kept) and exactness of current_op/3 (C18_current_op_exact) are kernel-checked theorems, the default table being regenerated from bootstrap.pl. The model is tied to the Go code by the c18.hist correspondence stream (impl vs model, plus an independent executable ISO specification as oracle, plus reader/writer probes).",
        level_note="Trusted: Lean kernel; the hand-written model of Op/validateOp/CurrentOp (checked by differential runs, not proved); harness canonicalisation; reader/writer use of the table is only probed, not modelled. Pattern variables of current_op/3 assumed pairwise distinct.",
        technique="Lean 4 invariant proof by induction over op/3 histories + regenerated default table + model/implementation correspondence",
        lean_module="PrologVerif.Properties.C18",
        ns="PrologVerif.C18",
        streams=[dict(name="c18.hist", quick=3000, thorough=40000)],
        rule="histories of 1..8 operations over op/3 (valid and invalid priorities, specifiers, names, lists with invalid members, partial lists, special names , | [] {}), current_op/3 in every instantiation pattern, and a reader/writer probe; generated from one PRNG (VERIF_SEED); non-trivial = at least two op/3 calls in the history changed the table, or one changed it and another was rejected; distinct = distinct case text",
        trusted=[
            "modelled (hand-written, correspondence-checked): engine/builtin.go Op, validateOp, appendUniqNewAtom, CurrentOp; engine/parser.go operators.define/remove/definedInClass; ListIterator as used by Op",
            "regenerated from source on every run: the default operator table = the op/3 directives of bootstrap.pl read by the real parser (Generated/Bootstrap.lean); C18_default_valid is re-proved against it by kernel evaluation",
            "not modelled: the reader and writer themselves (only probed: 'a n b', 'n a', 'a n' parse / writeq(n(a,b)), writeq(n(a)) print according to the table); Go map iteration order (answers compared as sets)",
        ],
        modelled={"hand_modelled": ["Op", "validateOp", "appendUniqNewAtom", "CurrentOp", "operators.define", "operators.remove", "operators.definedInClass"],
                  "regenerated": ["bootstrap.pl op/3 directives"], "observed_only": ["Parser (probe)", "WriteCompound (probe)"]},
        assumptions=["pattern variables of current_op/3 calls are pairwise distinct (the model matches argument-wise)"],
    ),
}
