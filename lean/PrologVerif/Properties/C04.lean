/-
  C04 — throw/1 unwinds to the innermost still-executing catch/3, undoing bindings.

  Subject: `Model/Promise.lean` (`recover`, the error leaf case of `Force`) for every semantics of
  thunks and handlers, and the handler of the (fixed) `Catch` builtin in its pure form
  (`Model/PTree.lean`: a handler consults the activity flag of its catch/3 call).  Binding
  undoing, ball copying and builtin errors are statements about the VM model (Properties/C01).
-/
import PrologVerif.Proofs.Promise
import PrologVerif.Model.PTree
import PrologVerif.Proofs.VMCatchFlags
import PrologVerif.Restate
namespace PrologVerif.C04
open PrologVerif PrologVerif.Promise

variable {τ ρ ε σ : Type}

/-- **C04_recover_innermost**.  An error pops frames from the top; frames without a recovery
    function and frames whose recovery function declines (catcher does not unify / catch not active)
    are discarded; the FIRST frame whose recovery function accepts is replaced by the promise it
    returns (Recovery runs in its place) and everything older is untouched. -/
theorem C04_recover_innermost (sem : Sem τ ρ ε σ) (e : ε) (above : List (P τ ρ ε)) (h : P τ ρ ε)
    (below : List (P τ ρ ε)) (m m1 m' : M σ) (r : ρ) (q : P τ ρ ε)
    (hdecl : declineAll sem e above m = some m1) (hr : h.recover = some r)
    (hacc : sem.evalRecover r e m1 = (some q, m')) :
    recoverStack sem e (above ++ h :: below) m = (some (q :: below), m') := by
  rw [recoverStack_append sem e above (h :: below) m m1 hdecl]
  simp [recoverStack, hr, hacc]

/-- **C04_unhandled**: if no frame accepts, the stack is consumed and `Force` ends with the error
    carrying the ball -/
theorem C04_unhandled (sem : Sem τ ρ ε σ) (e : ε) (stack : List (P τ ρ ε)) (m m1 : M σ)
    (hdecl : declineAll sem e stack m = some m1) :
    recoverStack sem e stack m = (none, m1) := by
  have := recoverStack_append sem e stack [] m m1 hdecl
  simpa [recoverStack] using this

theorem C04_force_unhandled (sem : Sem τ ρ ε σ) (n : Nat) (p : P τ ρ ε) (e : ε) (stack : List (P τ ρ ε))
    (m m1 : M σ) (hd : p.delayed = []) (he : p.err = some e)
    (hdecl : declineAll sem e stack { m with iter := m.iter + 1 } = some m1) :
    force sem none (n + 1) (p :: stack) m = some (.error e, m1) := by
  simp [force, isCancelled, hd, he, C04_unhandled sem e stack _ m1 hdecl]

/-- **C04_exited_catch_inactive**: the handler of a catch/3 whose goal has exited (activity flag
    false: set by the first alternative of the exit promise the fixed `Catch` builds) declines every
    error, so the error travels on to the next enclosing catch — -/
theorem C04_exited_catch_inactive (h : PTree.Handler) (e : Nat) (m : M PTree.St)
    (hflag : m.user.flag h.flag = false) : PTree.evalRecover h e m = (none, m) := by
  simp [PTree.evalRecover, hflag]

/-- — and it intercepts again once execution has backtracked into the goal (flag true again) -/
theorem C04_rearmed_catch_active (h : PTree.Handler) (e : Nat) (m : M PTree.St) (t : PTree.PT)
    (hflag : m.user.flag h.flag = true) (hfind : h.handles.find e = some t) :
    PTree.evalRecover h e m = (some (PTree.evalThunk t m).1, (PTree.evalThunk t m).2) := by
  simp [PTree.evalRecover, hflag, hfind]

/-- a catch/3 is born active -/
theorem C04_catch_born_active (f : Nat) : ({} : PTree.St).flag f = true := rfl

end PrologVerif.C04

/-! ## catch/3 and throw/1 of the VM model (proofs: Proofs/VMCatch.lean, Proofs/VMCatchFlags.lean)

  Subject: `Model/VM.lean` — the builtins "catch" and "throw", `mkErr`, `renamedCopy`, the recovery
  closure `evalRecover`, the thunks `.catchBody` / `.exitAlt`, the continuation `.catchExit`. -/

namespace PrologVerif.C04
open PrologVerif PrologVerif.Promise PrologVerif.VM PrologVerif.VMCatch
open PrologVerif.Collect (vars)
open PrologVerif.CollectSpec (Variant)

/-- **C04_vm_copy_spec**: `renamedCopy t env m` (what `NewException` takes) is `t` with the bindings
    applied and its variables renamed one to one (ISO variant) to variables in
    `[old nextVar, new nextVar)`; nothing else in the state changes -/
theorem C04_vm_copy_spec (t : Term) (env : Env) (m : MS) :
    Variant (app env t) (renamedCopy t env m).1 ∧
    (∀ v ∈ vars (renamedCopy t env m).1, m.user.nextVar ≤ v ∧ v < (renamedCopy t env m).2.user.nextVar) ∧
    (renamedCopy t env m).2 =
      { m with user := { m.user with nextVar := m.user.nextVar + (termVars (app env t) []).length } } :=
  renamedCopy_spec t env m

/-- **C04_vm_ball_is_copy**: `throw(B)`, `B` not a variable, raises an error whose term is a variant
    of `B` with the bindings of the moment applied, over variables that did not exist before (all
    `≥` the old `nextVar`): the ball shares no variable with the goal that threw it -/
theorem C04_vm_ball_is_copy (n : Nat) (ball : Term) (k : Cont) (env : Env) (m : MS)
    (hnv : ∀ v, res env ball ≠ .var v) :
    ∃ c m', builtin (n + 1) "throw" [ball] k env m = some (some (errP (.exc c), m')) ∧
      Variant (app env (res env ball)) c ∧
      (∀ v ∈ vars c, m.user.nextVar ≤ v ∧ v < m'.user.nextVar) ∧
      m' = { m with user := { m.user with nextVar := m.user.nextVar + (termVars (app env (res env ball)) []).length } } :=
  vm_ball_is_copy n ball k env m hnv

/-- resolving `B` first does not matter: `app env (res env B) = app env B` (if applying the bindings
    finishes within the internal fuel) -/
theorem C04_vm_ball_app_res (env : Env) (t b : Term) (h : resolve (inner - 1) env t = some b)
    (hs : (applyAll inner env t).isSome = true) : res env t = b ∧ app env b = app env t :=
  app_res env t b h hs

/-- `throw(_)`: instantiation error -/
theorem C04_vm_throw_var (n : Nat) (ball : Term) (k : Cont) (env : Env) (m : MS) (v : Nat)
    (hv : res env ball = .var v) :
    builtin (n + 1) "throw" [ball] k env m = some (some (mkErr instErr env m)) :=
  vm_throw_var n ball k env m v hv

/-- **C04_vm_builtin_error_is_copy**: errors raised by built-ins are balls of the same kind: the
    copy of `error(Formal, Context)` -/
theorem C04_vm_builtin_error_is_copy (formal : Term) (env : Env) (m : MS) :
    ∃ c m', mkErr formal env m = (errP (.exc c), m') ∧
      Variant (app env (.app "error" (.cons formal (.cons (.var varContext) .nil)))) c ∧
      (∀ v ∈ vars c, m.user.nextVar ≤ v ∧ v < m'.user.nextVar) :=
  vm_builtin_error_is_copy formal env m

/-- **C04_vm_recovery_env**: an accepting catch/3 frame calls its recovery goal with the
    continuation of the catch/3 call (`h.k`) under `env'` = the unifier of catcher and ball over the
    environment captured when catch/3 was called (`h.env`): its solutions are exactly the solutions
    of `h.env` that unify catcher and ball — every binding made since the call is absent -/
theorem C04_vm_recovery_env (h : Handler) (e : Err) (m : MS) (env' : Env)
    (hflag : m.user.flag h.flag = true)
    (hu : unify inner false h.env h.catcher (ballOf e) = some (env', .ok)) :
    evalRecover h e m = (some (callGoal h.recover h.k env' m).1, (callGoal h.recover h.k env' m).2) ∧
    ∀ θ, Sol env' θ ↔ (Sol h.env θ ∧ Unifies θ h.catcher (ballOf e)) :=
  vm_recovery_env h e m env' hflag hu

/-- **C04_vm_recovery_declines**: an inactive flag or a catcher that does not unify declines,
    leaving the state untouched; there is no other way to decline -/
theorem C04_vm_recovery_declines (h : Handler) (e : Err) (m : MS) :
    (Declines h e m → evalRecover h e m = (none, m)) ∧
    ((evalRecover h e m).1 = none → Declines h e m) :=
  vm_recovery_declines h e m

/-- a catcher that does not unify: no solution of the call-time environment unifies it with the ball -/
theorem C04_vm_recovery_declines_sound (h : Handler) (e : Err) (env' : Env) (r : Res)
    (hu : unify inner false h.env h.catcher (ballOf e) = some (env', r)) (hr : r ≠ .ok) :
    ∀ θ, Sol h.env θ → ¬ Unifies θ h.catcher (ballOf e) :=
  vm_recovery_declines_sound h e env' r hu hr

/-- **C04_vm_catch_flag_fresh** (flag protocol, 1): catch/3 draws its activity flag with `freshId`;
    in a well-formed state (`FlagsBelow`, kept by every step: `C04_vm_flags_wellformed_preserved`)
    the flag has never been written — the catch is born active — and differs from the flag of every
    other catch/3 frame, thunk and continuation in existence -/
theorem C04_vm_catch_flag_fresh (n : Nat) (goal catcher recover : Term) (k : Cont) (env : Env) (m : MS)
    (hm : FlagsBelow m.user) :
    builtin (n + 1) "catch" [goal, catcher, recover] k env m =
      some (some ({ delayed := [.catchBody goal m.user.nextId k env],
                    recover := some ⟨m.user.nextId, catcher, recover, k, env⟩ }, (freshId m).2)) ∧
    (freshId m).2.user.flag m.user.nextId = true ∧
    (∀ b, (m.user.nextId, b) ∉ (freshId m).2.user.flags) ∧
    (∀ q, prFl m.user.nextId q → ∀ h, q.recover = some h → h.flag ≠ m.user.nextId) ∧
    (∀ f b k' env', thunkFl m.user.nextId (.exitAlt f b k' env') → f ≠ m.user.nextId) :=
  vm_catch_flag_fresh n goal catcher recover k env m hm

/-- the environment the recovery closure captures is the environment of the catch/3 CALL (plus
    `Arrive`'s binding of the context variable to `catch/3`) -/
theorem C04_vm_catch_arrive (n : Nat) (goal catcher recover : Term) (k : Cont) (env : Env) (m : MS) :
    arrive (n + 2) "catch" [goal, catcher, recover] k env m =
      some ({ delayed := [.catchBody goal m.user.nextId k
                (env.bind varContext (.app "/" (.cons (.atom "catch") (.cons (.int 3) .nil))))],
              recover := some ⟨m.user.nextId, catcher, recover, k,
                env.bind varContext (.app "/" (.cons (.atom "catch") (.cons (.int 3) .nil)))⟩ }, (freshId m).2) :=
  vm_catch_arrive n goal catcher recover k env m

/- **C04_vm_flags_wellformed_preserved**: every step of the VM keeps "all flags mentioned or written
    are below `nextId`", and `nextId` only grows -/
restate C04_vm_flags_wellformed_preserved := VMCatch.vm_flags_wellformed_preserved

/-- the invariant holds along every query run -/
theorem C04_vm_run_flags_ok (fuel : Nat) (prog : List Term) (query : Term) (max : Nat) (ca : Option Nat)
    (r : Promise.Res Err) (m' : MS) (h : VMCancel.runQueryM fuel prog query max ca = some (r, m')) :
    FlagsBelow m'.user :=
  vm_run_flags_ok fuel prog query max ca r m' h

/-- (flag protocol, 2) the thunk of catch/3 calls `Goal` with the exit continuation -/
theorem C04_vm_catch_body (n : Nat) (goal : Term) (flag : Nat) (k : Cont) (env : Env) (m : MS) :
    evalThunk (n + 1) (.catchBody goal flag k env) m = some (callGoal goal (.catchExit flag k) env m) :=
  vm_catch_body n goal flag k env m

/-- **C04_vm_catch_exit** (flag protocol, 3): every exit of `Goal` returns a promise with exactly two
    alternatives: "flag OFF, then the continuation of catch/3" and "flag ON, then fail" -/
theorem C04_vm_catch_exit (n : Nat) (flag : Nat) (k : Cont) (env : Env) (m : MS) :
    applyCont (n + 1) (.catchExit flag k) env m =
      some ({ id := m.user.nextId,
              delayed := [.exitAlt flag false (some k) env, .exitAlt flag true none env] }, (freshId m).2) :=
  vm_catch_exit n flag k env m

/-- (flag protocol, 4) the first alternative switches exactly this flag off and runs the continuation -/
theorem C04_vm_exit_alt_off (n : Nat) (flag : Nat) (k : Cont) (env : Env) (m : MS) :
    evalThunk (n + 1) (.exitAlt flag false (some k) env) m = applyCont n k env (setFlag m flag false) ∧
    (setFlag m flag false).user.flag flag = false ∧
    ∀ f, f ≠ flag → (setFlag m flag false).user.flag f = m.user.flag f :=
  vm_exit_alt_off n flag k env m

/-- (flag protocol, 5) the second alternative switches exactly this flag on again and fails -/
theorem C04_vm_exit_alt_on (n : Nat) (flag : Nat) (env : Env) (m : MS) :
    evalThunk (n + 1) (.exitAlt flag true none env) m = some (failP, setFlag m flag true) ∧
    (setFlag m flag true).user.flag flag = true ∧
    ∀ f, f ≠ flag → (setFlag m flag true).user.flag f = m.user.flag f :=
  vm_exit_alt_on n flag env m

/-- while the flag is off the frame declines every error (cf. `C04_exited_catch_inactive`) -/
theorem C04_vm_exited_catch_inactive (h : Handler) (e : Err) (m : MS) (hf : m.user.flag h.flag = false) :
    evalRecover h e m = (none, m) :=
  vm_inactive_declines h e m hf

/- **C04_vm_catch_exit_run** (flag protocol on the trampoline): with the exit promise on top,
    iteration 1 switches the flag off and runs the continuation of catch/3; if that fails, the next
    iterations switch the flag on again and fall back to the stack below (into `Goal`) -/
restate C04_vm_catch_exit_run := VMCatch.vm_catch_exit_run

/-- **C04_vm_throw_to_innermost**: an error promise on top of the stack `above ++ frame :: below`;
    every catch/3 frame of `above` declines (inactive or not unifying), `frame` is active and its
    catcher unifies with the ball: in ONE iteration the frames of `above` are discarded, `frame` is
    replaced by its recovery goal called with the continuation of that catch/3 call under the
    unifier over its call-time environment, `below` is untouched -/
theorem C04_vm_throw_to_innermost (fuel n : Nat) (ca : Option Nat) (p : Pr) (e : Err) (above : List Pr)
    (frame : Pr) (below : List Pr) (m : MS) (hd : Handler) (env' : Env)
    (hnc : isCancelled ca m.iter = false) (hpd : p.delayed = []) (hpe : p.err = some e)
    (habove : ∀ q ∈ above, ∀ h, q.recover = some h → Declines h e { m with iter := m.iter + 1 })
    (hr : frame.recover = some hd) (hflag : m.user.flag hd.flag = true)
    (hu : unify inner false hd.env hd.catcher (ballOf e) = some (env', .ok)) :
    force (VM.sem fuel) ca (n + 1) (p :: (above ++ frame :: below)) m =
      force (VM.sem fuel) ca n
        ((callGoal hd.recover hd.k env' { m with iter := m.iter + 1 }).1 :: below)
        (callGoal hd.recover hd.k env' { m with iter := m.iter + 1 }).2 ∧
    ∀ θ, Sol env' θ ↔ (Sol hd.env θ ∧ Unifies θ hd.catcher (ballOf e)) :=
  vm_throw_to_innermost fuel n ca p e above frame below m hd env' hnc hpd hpe habove hr hflag hu

/-- **C04_vm_throw_unhandled**: every frame declines: the run ends with the error carrying the ball -/
theorem C04_vm_throw_unhandled (fuel n : Nat) (ca : Option Nat) (p : Pr) (e : Err) (stack : List Pr) (m : MS)
    (hnc : isCancelled ca m.iter = false) (hpd : p.delayed = []) (hpe : p.err = some e)
    (hall : ∀ q ∈ stack, ∀ h, q.recover = some h → Declines h e { m with iter := m.iter + 1 }) :
    force (VM.sem fuel) ca (n + 1) (p :: stack) m = some (.error e, { m with iter := m.iter + 1 }) :=
  vm_throw_unhandled fuel n ca p e stack m hnc hpd hpe hall

end PrologVerif.C04
