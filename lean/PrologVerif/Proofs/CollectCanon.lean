/-
  C11: the variant test of the specification ORACLE (Spec/Collect.lean `classesOf`, the stream
  `c11.variant`): two terms are variants iff their canonical forms — variables numbered by first
  occurrence, `Term.canon` of Basic.lean — coincide.
-/
import PrologVerif.Proofs.CollectVariant
namespace PrologVerif.Collect
open PrologVerif PrologVerif.CollectSpec

/-! ## first-occurrence index -/

theorem go_map_inj {ρ : Nat → Nat} {v : Nat} : ∀ (xs : List Nat) (i : Nat),
    (∀ x ∈ xs, ρ x = ρ v → x = v) → indexOf?.go (ρ v) (xs.map ρ) i = indexOf?.go v xs i
  | [], _, _ => by simp [indexOf?.go]
  | x :: xs, i, h => by
    simp only [List.map_cons, indexOf?.go]
    by_cases hx : x = v
    · subst hx; simp
    · have : ρ x ≠ ρ v := fun e => hx (h x (by simp) e)
      simp only [hx, this, if_false]
      exact go_map_inj xs (i + 1) (fun y hy => h y (by simp [hy]))

theorem indexOf_map_inj {ρ : Nat → Nat} {v : Nat} (xs : List Nat) (h : ∀ x ∈ xs, ρ x = ρ v → x = v) :
    indexOf? (xs.map ρ) (ρ v) = indexOf? xs v := go_map_inj xs 0 h

theorem go_none {v : Nat} : ∀ (xs : List Nat) (i : Nat), indexOf?.go v xs i = none ↔ v ∉ xs
  | [], _ => by simp [indexOf?.go]
  | x :: xs, i => by
    simp only [indexOf?.go]
    by_cases hx : x = v
    · subst hx; simp
    · simp only [hx, if_false, go_none xs (i + 1), List.mem_cons]
      constructor
      · intro h e; rcases e with e | e
        · exact hx e.symm
        · exact h e
      · intro h e; exact h (Or.inr e)

theorem go_append_mem {v : Nat} : ∀ (xs ys : List Nat) (i : Nat), v ∈ xs →
    indexOf?.go v (xs ++ ys) i = indexOf?.go v xs i
  | [], _, _, h => by simp at h
  | x :: xs, ys, i, h => by
    simp only [List.cons_append, indexOf?.go]
    by_cases hx : x = v
    · simp [hx]
    · simp only [hx, if_false]
      exact go_append_mem xs ys (i + 1) (by
        rcases List.mem_cons.mp h with e | e
        · exact absurd e.symm hx
        · exact e)

theorem go_append_new {v : Nat} : ∀ (xs : List Nat) (i : Nat), v ∉ xs →
    indexOf?.go v (xs ++ [v]) i = some (i + xs.length)
  | [], i, _ => by simp [indexOf?.go]
  | x :: xs, i, h => by
    have hx : x ≠ v := fun e => h (by simp [e])
    simp only [List.cons_append, indexOf?.go, hx, if_false, List.length_cons]
    rw [go_append_new xs (i + 1) (fun e => h (by simp [e]))]
    congr 1; omega

theorem go_get {v : Nat} : ∀ (xs : List Nat) (i k : Nat), indexOf?.go v xs i = some k →
    i ≤ k ∧ xs[k - i]? = some v
  | [], _, _, h => by simp [indexOf?.go] at h
  | x :: xs, i, k, h => by
    simp only [indexOf?.go] at h
    by_cases hx : x = v
    · simp [hx] at h; subst h; simp [hx]
    · simp only [hx, if_false] at h
      obtain ⟨h1, h2⟩ := go_get xs (i + 1) k h
      refine ⟨by omega, ?_⟩
      have : k - i = (k - (i + 1)) + 1 := by omega
      rw [this, List.getElem?_cons_succ]
      exact h2

/-- the index function of a list of seen variables (0 for variables not in the list) -/
def idxFn (s : List Nat) (v : Nat) : Nat := match indexOf? s v with | some i => i | none => 0

theorem idxFn_append_mem {s s' : List Nat} {v : Nat} (h : v ∈ s) : idxFn (s ++ s') v = idxFn s v := by
  simp only [idxFn, indexOf?, go_append_mem s s' 0 h]

theorem idxFn_get {s : List Nat} {v : Nat} (h : v ∈ s) : s[idxFn s v]? = some v := by
  simp only [idxFn, indexOf?]
  cases hg : indexOf?.go v s 0 with
  | none => exact absurd h ((go_none s 0).mp hg)
  | some k => simpa using (go_get s 0 k hg).2

/-! ## what `canonAux` computes -/

structure CanonOut (vs seen seen' : List Nat) : Prop where
  ext : ∃ tail, seen' = seen ++ tail
  dom : ∀ v ∈ vs, v ∈ seen'
  only : ∀ v ∈ seen', v ∈ seen ∨ v ∈ vs

mutual
  theorem canonAux_spec : ∀ (t : Term) (seen : List Nat),
      CanonOut (vars t) seen (t.canonAux seen).2 ∧ (t.canonAux seen).1 = rename (idxFn (t.canonAux seen).2) t
    | .var v, seen => by
      simp only [Term.canonAux]
      cases hi : indexOf? seen v with
      | some i =>
        have hm : v ∈ seen := by
          apply Classical.byContradiction
          intro hn
          have := (go_none seen 0).mpr hn
          simp [indexOf?, this] at hi
        exact ⟨⟨⟨[], by simp⟩, by simp [hm], fun _ h => Or.inl h⟩, by simp [idxFn, hi]⟩
      | none =>
        have hm : v ∉ seen := (go_none seen 0).mp hi
        refine ⟨⟨⟨[v], rfl⟩, by simp, ?_⟩, ?_⟩
        · intro u hu
          rcases List.mem_append.mp hu with h | h
          · exact Or.inl h
          · exact Or.inr (by simpa using h)
        · simp [idxFn, indexOf?, go_append_new seen 0 hm]
    | .app f as, seen => by
      obtain ⟨h1, h2⟩ := canonArgs_spec as seen
      simp only [Term.canonAux]
      exact ⟨by simpa using h1, by simp [h2]⟩
    | .atom _, seen => ⟨⟨⟨[], by simp [Term.canonAux]⟩, by simp, fun _ h => Or.inl (by simpa [Term.canonAux] using h)⟩, by simp [Term.canonAux]⟩
    | .int _, seen => ⟨⟨⟨[], by simp [Term.canonAux]⟩, by simp, fun _ h => Or.inl (by simpa [Term.canonAux] using h)⟩, by simp [Term.canonAux]⟩
    | .flt _, seen => ⟨⟨⟨[], by simp [Term.canonAux]⟩, by simp, fun _ h => Or.inl (by simpa [Term.canonAux] using h)⟩, by simp [Term.canonAux]⟩
    | .str _, seen => ⟨⟨⟨[], by simp [Term.canonAux]⟩, by simp, fun _ h => Or.inl (by simpa [Term.canonAux] using h)⟩, by simp [Term.canonAux]⟩
  theorem canonArgs_spec : ∀ (as : Args) (seen : List Nat),
      CanonOut (varsArgs as) seen (as.canonAux seen).2 ∧
      (as.canonAux seen).1 = renameArgs (idxFn (as.canonAux seen).2) as
    | .nil, seen => ⟨⟨⟨[], by simp [Args.canonAux]⟩, by simp, fun _ h => Or.inl (by simpa [Args.canonAux] using h)⟩, by simp [Args.canonAux]⟩
    | .cons t ts, seen => by
      obtain ⟨h1, h2⟩ := canonAux_spec t seen
      obtain ⟨h3, h4⟩ := canonArgs_spec ts (t.canonAux seen).2
      simp only [Args.canonAux]
      obtain ⟨tail1, e1⟩ := h1.ext
      obtain ⟨tail2, e2⟩ := h3.ext
      refine ⟨⟨⟨tail1 ++ tail2, by rw [e2, e1, List.append_assoc]⟩, ?_, ?_⟩, ?_⟩
      · intro v hv
        simp only [varsArgs_cons, List.mem_append] at hv
        rcases hv with hv | hv
        · rw [e2]; exact List.mem_append.mpr (Or.inl (h1.dom v hv))
        · exact h3.dom v hv
      · intro v hv
        rcases h3.only v hv with h | h
        · rcases h1.only v h with h | h
          · exact Or.inl h
          · exact Or.inr (by simp [h])
        · exact Or.inr (by simp [h])
      · simp only [renameArgs_cons, h4]
        congr 1
        rw [h2]
        refine rename_congr t (fun v hv => ?_)
        rw [e2]
        exact (idxFn_append_mem (h1.dom v hv)).symm
end

/-! ## canonical forms are invariant under one-to-one renamings -/

mutual
  theorem canonAux_rename {ρ : Nat → Nat} : ∀ (t : Term) (seen : List Nat),
      (∀ a, a ∈ seen ∨ a ∈ vars t → ∀ b, b ∈ seen ∨ b ∈ vars t → ρ a = ρ b → a = b) →
      (rename ρ t).canonAux (seen.map ρ) = ((t.canonAux seen).1, (t.canonAux seen).2.map ρ)
    | .var v, seen, h => by
      simp only [rename_var, Term.canonAux]
      rw [indexOf_map_inj seen (fun x hx e => h x (Or.inl hx) v (Or.inr (by simp)) e)]
      cases indexOf? seen v with
      | some i => simp
      | none => simp
    | .app f as, seen, h => by
      simp only [rename_app, Term.canonAux]
      rw [canonArgs_rename as seen (by simpa using h)]
    | .atom _, _, _ => by simp [Term.canonAux]
    | .int _, _, _ => by simp [Term.canonAux]
    | .flt _, _, _ => by simp [Term.canonAux]
    | .str _, _, _ => by simp [Term.canonAux]
  theorem canonArgs_rename {ρ : Nat → Nat} : ∀ (as : Args) (seen : List Nat),
      (∀ a, a ∈ seen ∨ a ∈ varsArgs as → ∀ b, b ∈ seen ∨ b ∈ varsArgs as → ρ a = ρ b → a = b) →
      (renameArgs ρ as).canonAux (seen.map ρ) = ((as.canonAux seen).1, (as.canonAux seen).2.map ρ)
    | .nil, _, _ => by simp [Args.canonAux]
    | .cons t ts, seen, h => by
      simp only [renameArgs_cons, Args.canonAux]
      have h1 := canonAux_rename (ρ := ρ) t seen (fun a ha b hb => h a (by
        rcases ha with ha | ha
        · exact Or.inl ha
        · exact Or.inr (by simp [ha])) b (by
        rcases hb with hb | hb
        · exact Or.inl hb
        · exact Or.inr (by simp [hb])))
      rw [h1]
      simp only
      have hs := (canonAux_spec t seen).1
      have h2 := canonArgs_rename (ρ := ρ) ts (t.canonAux seen).2 (by
        have key : ∀ a, a ∈ (t.canonAux seen).2 ∨ a ∈ varsArgs ts → a ∈ seen ∨ a ∈ varsArgs (.cons t ts) := by
          intro a ha
          rcases ha with ha | ha
          · rcases hs.only a ha with h' | h'
            · exact Or.inl h'
            · exact Or.inr (by simp [h'])
          · exact Or.inr (by simp [ha])
        intro a ha b hb
        exact h a (key a ha) b (key b hb))
      rw [h2]
end

theorem canon_rename {ρ : Nat → Nat} (t : Term) (h : ∀ a ∈ vars t, ∀ b ∈ vars t, ρ a = ρ b → a = b) :
    (rename ρ t).canon = t.canon := by
  have := canonAux_rename (ρ := ρ) t [] (by
    intro a ha b hb
    rcases ha with ha | ha
    · simp at ha
    · rcases hb with hb | hb
      · simp at hb
      · exact h a ha b hb)
  simp only [List.map_nil] at this
  simp [Term.canon, this]

/-- the oracle's variant test: equality of canonical forms is ISO's "variant" -/
theorem canon_eq_iff_variant (t1 t2 : Term) : t1.canon = t2.canon ↔ Variant t1 t2 := by
  constructor
  · intro h
    obtain ⟨o1, e1⟩ := canonAux_spec t1 []
    obtain ⟨o2, e2⟩ := canonAux_spec t2 []
    simp only [Term.canon] at h
    rw [e1, e2] at h
    -- κ1, κ2 = index functions; σ = the variable of t2 with a given index
    let s1 := (t1.canonAux []).2
    let s2 := (t2.canonAux []).2
    let σ : Nat → Nat := fun i => match s2[i]? with | some v => v | none => 0
    have hσ : ∀ b ∈ vars t2, σ (idxFn s2 b) = b := by
      intro b hb
      show (match s2[idxFn s2 b]? with | some v => v | none => 0) = b
      rw [idxFn_get (o2.dom b hb)]
    have hρ : rename (σ ∘ idxFn s1) t1 = t2 := by
      rw [← rename_rename, h, rename_rename]
      have hc : rename (σ ∘ idxFn s2) t2 = rename id t2 := rename_congr t2 (fun v hv => hσ v hv)
      rw [rename_id] at hc
      exact hc
    refine variant_def.mpr ⟨σ ∘ idxFn s1, ?_, hρ⟩
    -- injective: the index of a variable of t1 determines it
    intro a ha b hb hab
    have hv : (vars (rename (idxFn s1) t1)) = (vars (rename (idxFn s2) t2)) := by rw [h]
    rw [vars_rename, vars_rename] at hv
    have ha' : idxFn s1 a ∈ (vars t2).map (idxFn s2) := by rw [← hv]; exact List.mem_map_of_mem ha
    have hb' : idxFn s1 b ∈ (vars t2).map (idxFn s2) := by rw [← hv]; exact List.mem_map_of_mem hb
    obtain ⟨a2, ha2, ea⟩ := List.mem_map.mp ha'
    obtain ⟨b2, hb2, eb⟩ := List.mem_map.mp hb'
    have h1 : σ (idxFn s1 a) = a2 := by rw [← ea]; exact hσ a2 ha2
    have h2 : σ (idxFn s1 b) = b2 := by rw [← eb]; exact hσ b2 hb2
    have hab' : a2 = b2 := by rw [← h1, ← h2]; exact hab
    have hidx : idxFn s1 a = idxFn s1 b := by rw [← ea, ← eb, hab']
    have ga := idxFn_get (o1.dom a ha)
    have gb := idxFn_get (o1.dom b hb)
    rw [hidx] at ga
    rw [ga] at gb
    exact Option.some.inj gb
  · intro h
    obtain ⟨ρ, hinj, e⟩ := variant_def.mp h
    rw [← e]
    exact (canon_rename t1 hinj).symm

end PrologVerif.Collect
