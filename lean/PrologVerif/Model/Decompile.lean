/-
  Reading bytecode back as the clause it denotes (specification side of C10).  `decompile` is the
  inverse of the compiler: it rebuilds, from the get/put instructions and the clause's variable
  table, the head arguments and the body goals as abstract terms over the SOURCE variables.
-/
import PrologVerif.Model.Compile
namespace PrologVerif.VM
open PrologVerif

/-- a run of get (head = true) or put (head = false) instructions denoting `k` terms;
    fuel = length of the code is always enough -/
def decTerms : Nat → Bool → List Nat → Nat → List Op → Option (List Term × List Op)
  | 0, _, _, _, _ => none
  | _ + 1, _, _, 0, code => some ([], code)
  | fuel + 1, head, vars, k + 1, code =>
    let one : Option (Term × List Op) :=
      match code with
      | .getConst c :: rest => if head then some (c, rest) else none
      | .putConst c :: rest => if head then none else some (c, rest)
      | .getVar i :: rest => if head then (vars[i]?).map fun v => (.var v, rest) else none
      | .putVar i :: rest => if head then none else (vars[i]?).map fun v => (.var v, rest)
      | .getFunctor f n :: rest =>
        if head then
          match decTerms fuel head vars n rest with
          | some (args, .pop :: rest') => some (.app f (Args.ofList args), rest')
          | _ => none
        else none
      | .putFunctor f n :: rest =>
        if head then none else
          match decTerms fuel head vars n rest with
          | some (args, .pop :: rest') => some (.app f (Args.ofList args), rest')
          | _ => none
      | .getList n :: rest =>
        if head then
          match decTerms fuel head vars n rest with
          | some (es, .pop :: rest') => some (Term.list es, rest')
          | _ => none
        else none
      | .putList n :: rest =>
        if head then none else
          match decTerms fuel head vars n rest with
          | some (es, .pop :: rest') => some (Term.list es, rest')
          | _ => none
      | .getPartial n :: rest =>
        if head then
          match decTerms fuel head vars (n + 1) rest with
          | some (tail :: es, .pop :: rest') => some (Term.list es tail, rest')
          | _ => none
        else none
      | .putPartial n :: rest =>
        if head then none else
          match decTerms fuel head vars (n + 1) rest with
          | some (tail :: es, .pop :: rest') => some (Term.list es tail, rest')
          | _ => none
      | _ => none
    match one with
    | none => none
    | some (t, rest) =>
      match decTerms fuel head vars k rest with
      | some (ts, rest') => some (t :: ts, rest')
      | none => none

/-- a maximal run of put-terms (the arguments of the next goal) -/
def decPutSeq : Nat → List Nat → List Op → Option (List Term × List Op)
  | 0, _, _ => none
  | fuel + 1, vars, code =>
    match code with
    | [] => some ([], code)
    | .call _ _ :: _ => some ([], code)
    | .cut :: _ => some ([], code)
    | .exit :: _ => some ([], code)
    | _ =>
      match decTerms fuel false vars 1 code with
      | some ([t], rest) =>
        match decPutSeq fuel vars rest with
        | some (ts, rest') => some (t :: ts, rest')
        | none => none
      | _ => none

/-- the body goals: each goal is its put-instructions followed by `call f n`, or `cut` -/
def decGoals : Nat → List Nat → List Op → Option (List Term)
  | 0, _, _ => none
  | fuel + 1, vars, code =>
    match code with
    | [.exit] => some []
    | .cut :: rest => (decGoals fuel vars rest).map (Term.atom "!" :: ·)
    | _ =>
      match decPutSeq fuel vars code with
      | some (args, .call f n :: rest) =>
        if n = args.length then
          (decGoals fuel vars rest).map fun gs =>
            (if args.isEmpty then Term.atom f else Term.app f (Args.ofList args)) :: gs
        else none
      | _ => none

/-- head term and body goals denoted by a compiled clause -/
def decompile (c : Clause) : Option (Term × List Term) :=
  let fuel := c.code.length + 2
  match decTerms fuel true c.vars c.arity c.code with
  | some (args, rest) =>
    let head := if args.isEmpty then Term.atom c.name else Term.app c.name (Args.ofList args)
    match rest with
    | [.exit] => some (head, [])
    | .enter :: rest' => (decGoals fuel c.vars rest').map fun gs => (head, gs)
    | _ => none
  | none => none

end PrologVerif.VM
