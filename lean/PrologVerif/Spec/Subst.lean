/-
  Substitutions and the solution set of an environment (specification side of C02).

  A substitution is a TOTAL function from variables to (finite) terms, applied structurally.
  An environment is read as a set of equations in triangular form; `Sol e` is the set of
  substitutions that satisfy every equation.  No acyclicity is needed to state this: a cyclic
  environment (X ↦ f(X)) simply has no solution in finite terms.
-/
import PrologVerif.Model.Unify
namespace PrologVerif

abbrev Subst := Nat → Term

mutual
  def Term.subst (θ : Subst) : Term → Term
    | .var v => θ v
    | .atom s => .atom s
    | .int i => .int i
    | .flt b => .flt b
    | .str n => .str n
    | .app f as => .app f (Args.subst θ as)
  def Args.subst (θ : Subst) : Args → Args
    | .nil => .nil
    | .cons t ts => .cons (Term.subst θ t) (Args.subst θ ts)
end

/-- θ solves every equation `v = t` of the environment -/
def Sol (e : Env) (θ : Subst) : Prop := ∀ v t, e.lookup v = some t → θ v = t.subst θ

/-- θ unifies x and y -/
def Unifies (θ : Subst) (x y : Term) : Prop := x.subst θ = y.subst θ

/-- composition: first σ, then θ -/
def Subst.comp (θ σ : Subst) : Subst := fun v => (σ v).subst θ

end PrologVerif
