/-
  Refine — non-vacuity of `vm_refines_sld_horn` (stage 1): a recursive program with two answers.

      parent(a, b).   parent(b, c).
      anc(X, Y) :- parent(X, Y).
      anc(X, Y) :- parent(X, Z), anc(Z, Y).
      ?- anc(a, W).                      max = 5

  * the fragment hypothesis `HornFrag` holds (decided in the kernel — this evaluates `bootState`, the
    compiled bootstrap clauses, to check that `parent/2`, `anc/2` are not bootstrap predicates);
  * the reference side is evaluated in the kernel: two answers, then exhausted;
  * the VM side cannot be evaluated by `decide` (`exec` is defined by well-founded recursion);
    `#eval Driver.C01.vmLine ⟨5, queryEx, progEx⟩` prints
        "a C2:anc Aa Ab ; a C2:anc Aa Ac ; end exhausted"
    (fuel 60000; 200 suffices), the same line as `specLine`.  The example therefore takes the VM run
    as a hypothesis and concludes, FOR EVERY FUEL with which `runQuery` returns: exactly two answers,
    related to `anc(a,b)`, `anc(a,c)`, and `exhausted`.
-/
import PrologVerif.Proofs.Refine
import PrologVerif.Proofs.RefineExamples4
namespace PrologVerif.Refine.Example
open PrologVerif PrologVerif.Refine

def v (n : Nat) : Term := .var n
def parent (a b : Term) : Term := .app "parent" (.cons a (.cons b .nil))
def anc (a b : Term) : Term := .app "anc" (.cons a (.cons b .nil))

def progEx : List Term :=
  [parent (.atom "a") (.atom "b"), parent (.atom "b") (.atom "c"),
   SLD.rule (anc (v 0) (v 1)) (parent (v 0) (v 1)),
   SLD.rule (anc (v 0) (v 1)) (.app "," (.cons (parent (v 0) (v 2)) (.cons (anc (v 2) (v 1)) .nil)))]

def queryEx : Term := anc (.atom "a") (v 0)

/-- the program and the query are in the fragment -/
theorem fragEx : HornFrag progEx queryEx :=
  ⟨by decide +kernel, by decide +kernel, by decide +kernel, by decide +kernel⟩

/-- the reference interpreter: two answers, exhausted -/
theorem sldEx : SLD.solveQuery 40 progEx queryEx 5 =
    some ([anc (.atom "a") (.atom "b"), anc (.atom "a") (.atom "c")], .exhausted) := by decide +kernel

/-- every returning run of the VM model, whatever its fuel -/
example (f1 : Nat) (as1 : List Term) (e1 : VM.End)
    (h1 : VM.runQuery f1 progEx (Driver.C01.shiftVars 10 queryEx) 5 = some (as1, e1)) :
    Forall2 (AnsRel (Driver.C01.shiftVars 10 queryEx)) as1
      [anc (.atom "a") (.atom "b"), anc (.atom "a") (.atom "c")] ∧ endAgree e1 .exhausted :=
  vm_refines_sld_horn progEx queryEx 5 fragEx (by decide) f1 40 as1 _ e1 _ h1 sldEx

/-- … and if none of its answers is the unresolved query term, they are the reference's answers up
    to `Term.canon` -/
example (f1 : Nat) (as1 : List Term) (e1 : VM.End)
    (h1 : VM.runQuery f1 progEx (Driver.C01.shiftVars 10 queryEx) 5 = some (as1, e1))
    (hin : ∀ a ∈ as1, a ≠ Driver.C01.shiftVars 10 queryEx) :
    as1.map Term.canon = [anc (.atom "a") (.atom "b"), anc (.atom "a") (.atom "c")].map Term.canon ∧
      endAgree e1 .exhausted :=
  vm_refines_sld_horn_canon progEx queryEx 5 fragEx (by decide) f1 40 as1 _ e1 _ h1 sldEx (Or.inr hin)

/-- a ground query (`?- anc(a, c).`): the statement of the task without further hypothesis -/
example (f1 f2 : Nat) (as1 as2 : List Term) (e1 : VM.End) (e2 : SLD.End)
    (h1 : VM.runQuery f1 progEx (Driver.C01.shiftVars 10 (anc (.atom "a") (.atom "c"))) 5 = some (as1, e1))
    (h2 : SLD.solveQuery f2 progEx (anc (.atom "a") (.atom "c")) 5 = some (as2, e2)) :
    as1.map Term.canon = as2.map Term.canon ∧ endAgree e1 e2 :=
  vm_refines_sld_horn_canon progEx _ 5
    ⟨fragEx.clauses, by decide +kernel, by decide +kernel, by decide +kernel⟩ (by decide) f1 f2 as1 as2 e1 e2 h1 h2
    (Or.inl (by decide +kernel))

/-! ## stage 2: cut

      p(a).  p(b).
      f(X) :- p(X), !.
      f(z).
      ?- p(Y), f(X).        max = 5      two answers: (a, a), (b, a) — the cut commits f/1 to its first solution

  `#eval Driver.C01.vmLine ⟨5, queryC, progC⟩` = `specLine` =
      "a C2:%2c C1:p Aa C1:f Aa ; a C2:%2c C1:p Ab C1:f Aa ; end exhausted" -/

def p (a : Term) : Term := .app "p" (.cons a .nil)
def f (a : Term) : Term := .app "f" (.cons a .nil)
def conj (a b : Term) : Term := .app "," (.cons a (.cons b .nil))

def progC : List Term :=
  [p (.atom "a"), p (.atom "b"), SLD.rule (f (v 0)) (conj (p (v 0)) (.atom "!")), f (.atom "z")]

def queryC : Term := conj (p (v 1)) (f (v 0))

theorem fragC : CutFrag progC queryC :=
  ⟨by decide +kernel, by decide +kernel, by decide +kernel, by decide +kernel⟩

theorem sldC : SLD.solveQuery 40 progC queryC 5 =
    some ([conj (p (.atom "a")) (f (.atom "a")), conj (p (.atom "b")) (f (.atom "a"))], .exhausted) := by
  decide +kernel

example (f1 : Nat) (as1 : List Term) (e1 : VM.End)
    (h1 : VM.runQuery f1 progC (Driver.C01.shiftVars 10 queryC) 5 = some (as1, e1)) :
    Forall2 (AnsRel (Driver.C01.shiftVars 10 queryC)) as1
      [conj (p (.atom "a")) (f (.atom "a")), conj (p (.atom "b")) (f (.atom "a"))] ∧ endAgree e1 .exhausted :=
  vm_refines_sld_cut progC queryC 5 fragC (by decide) f1 40 as1 _ e1 _ h1 sldC

/-- a cut in the query itself: `?- p(Y), !, f(X).` — one answer -/
def queryC2 : Term := conj (p (v 1)) (conj (.atom "!") (f (v 0)))

theorem sldC2 : SLD.solveQuery 40 progC queryC2 5 =
    some ([conj (p (.atom "a")) (conj (.atom "!") (f (.atom "a")))], .exhausted) := by decide +kernel

example (f1 : Nat) (as1 : List Term) (e1 : VM.End)
    (h1 : VM.runQuery f1 progC (Driver.C01.shiftVars 10 queryC2) 5 = some (as1, e1)) :
    Forall2 (AnsRel (Driver.C01.shiftVars 10 queryC2)) as1
      [conj (p (.atom "a")) (conj (.atom "!") (f (.atom "a")))] ∧ endAgree e1 .exhausted :=
  vm_refines_sld_cut progC queryC2 5
    ⟨fragC.clauses, by decide +kernel, by decide +kernel, by decide +kernel⟩ (by decide) f1 40 as1 _ e1 _ h1 sldC2

/-! ## stage 3a: `call/1`

      p(a).  p(b).
      q(X) :- G = p(X), call(G).           % the goal is built at run time
      s(X) :- call((p(X), !)).             % a cut inside call/1 is local to the call
      s(z).
      ?- q(X).            two answers a, b
      ?- s(X).            two answers a, z   (the cut commits p/1 only, not s/1)

  `#eval Driver.C01.vmLine ⟨5, q (v 0), progK⟩` = `specLine … false` = "a C1:q Aa ; a C1:q Ab ; end exhausted",
  `#eval Driver.C01.vmLine ⟨5, s (v 0), progK⟩` = `specLine … false` = "a C1:s Aa ; a C1:s Az ; end exhausted". -/

def q (a : Term) : Term := .app "q" (.cons a .nil)
def s (a : Term) : Term := .app "s" (.cons a .nil)
def eq (a b : Term) : Term := .app "=" (.cons a (.cons b .nil))
def call1 (a : Term) : Term := .app "call" (.cons a .nil)

def progK : List Term :=
  [p (.atom "a"), p (.atom "b"),
   SLD.rule (q (v 0)) (conj (eq (v 1) (p (v 0))) (call1 (v 1))),
   SLD.rule (s (v 0)) (call1 (conj (p (v 0)) (.atom "!"))),
   s (.atom "z")]

theorem fragK1 : CallFrag progK (q (v 0)) :=
  ⟨by decide +kernel, by decide +kernel, by decide +kernel, (fun _ h => by cases h), by decide +kernel⟩

theorem fragK2 : CallFrag progK (s (v 0)) :=
  ⟨fragK1.clauses, by decide +kernel, by decide +kernel, (fun _ h => by cases h), by decide +kernel⟩

theorem sldK1 : SLD.solveQuery 40 progK (q (v 0)) 5 = some ([q (.atom "a"), q (.atom "b")], .exhausted) := by
  decide +kernel

theorem sldK2 : SLD.solveQuery 40 progK (s (v 0)) 5 = some ([s (.atom "a"), s (.atom "z")], .exhausted) := by
  decide +kernel

/-- `G = p(X), call(G)`: the called goal is a variable of the clause, bound at call time -/
example (f1 : Nat) (as1 : List Term) (e1 : VM.End)
    (h1 : VM.runQuery f1 progK (Driver.C01.shiftVars 10 (q (v 0))) 5 = some (as1, e1))
    (hcalls : CallsOK true f1 progK (q (v 0)) 5) :
    Forall2 (AnsRel (Driver.C01.shiftVars 10 (q (v 0)))) as1 [q (.atom "a"), q (.atom "b")] ∧
      endAgree e1 .exhausted :=
  vm_refines_sld_call progK _ 5 fragK1 (by decide) f1 40 as1 _ e1 _ h1 sldK1 hcalls

/-- the cut inside `call/1` is local: the second clause of `s/1` is still tried -/
example (f1 : Nat) (as1 : List Term) (e1 : VM.End)
    (h1 : VM.runQuery f1 progK (Driver.C01.shiftVars 10 (s (v 0))) 5 = some (as1, e1))
    (hcalls : CallsOK true f1 progK (s (v 0)) 5) :
    Forall2 (AnsRel (Driver.C01.shiftVars 10 (s (v 0)))) as1 [s (.atom "a"), s (.atom "z")] ∧
      endAgree e1 .exhausted :=
  vm_refines_sld_call progK _ 5 fragK2 (by decide) f1 40 as1 _ e1 _ h1 sldK2 hcalls

/-! ## stage 3b: if-then-else, if-then

      q(a).  q(b).
      pick(X) :- ( q(X) -> true ; X = none ).          % the condition is solved once
      t(X) :- ( true -> q(X), ! ; true ).              % a cut inside a branch is local to the branch
      t(z).
      w(X) :- ( q(X) -> true ), q(_).
      w(z).
      ?- pick(X).      one answer a
      ?- t(X).         two answers a, z
      ?- w(X).         three answers a, a, z

  (`#eval Driver.C01.vmLine` = `specLine … false` on all three.) -/

def pick (a : Term) : Term := .app "pick" (.cons a .nil)
def t (a : Term) : Term := .app "t" (.cons a .nil)
def w (a : Term) : Term := .app "w" (.cons a .nil)

def progI : List Term :=
  [q (.atom "a"), q (.atom "b"),
   SLD.rule (pick (v 0)) (SLD.ifThenElse (q (v 0)) (.atom "true") (eq (v 0) (.atom "none"))),
   SLD.rule (t (v 0)) (SLD.ifThenElse (.atom "true") (conj (q (v 0)) (.atom "!")) (.atom "true")),
   t (.atom "z"),
   SLD.rule (w (v 0)) (conj (SLD.mk2 "->" (q (v 0)) (.atom "true")) (q (v 1))),
   w (.atom "z")]

theorem fragI1 : CtlFrag progI (pick (v 0)) :=
  ⟨by decide +kernel, by decide +kernel, by decide +kernel, (fun _ h => by cases h), by decide +kernel⟩

theorem sldI1 : SLD.solveQuery 40 progI (pick (v 0)) 5 = some ([pick (.atom "a")], .exhausted) := by
  decide +kernel

theorem sldI2 : SLD.solveQuery 40 progI (t (v 0)) 5 = some ([t (.atom "a"), t (.atom "z")], .exhausted) := by
  decide +kernel

theorem sldI3 : SLD.solveQuery 40 progI (w (v 0)) 5 =
    some ([w (.atom "a"), w (.atom "a"), w (.atom "z")], .exhausted) := by
  decide +kernel

example (f1 : Nat) (as1 : List Term) (e1 : VM.End)
    (h1 : VM.runQuery f1 progI (Driver.C01.shiftVars 10 (pick (v 0))) 5 = some (as1, e1))
    (hcalls : CallsOK true f1 progI (pick (v 0)) 5) :
    Forall2 (AnsRel (Driver.C01.shiftVars 10 (pick (v 0)))) as1 [pick (.atom "a")] ∧ endAgree e1 .exhausted :=
  vm_refines_sld_ctl progI _ 5 fragI1 (by decide) f1 40 as1 _ e1 _ h1 sldI1 hcalls

/-- the cut inside the then-branch is local: the second clause of `t/1` is still tried -/
example (f1 : Nat) (as1 : List Term) (e1 : VM.End)
    (h1 : VM.runQuery f1 progI (Driver.C01.shiftVars 10 (t (v 0))) 5 = some (as1, e1))
    (hcalls : CallsOK true f1 progI (t (v 0)) 5) :
    Forall2 (AnsRel (Driver.C01.shiftVars 10 (t (v 0)))) as1 [t (.atom "a"), t (.atom "z")] ∧
      endAgree e1 .exhausted :=
  vm_refines_sld_ctl progI _ 5
    ⟨fragI1.clauses, by decide +kernel, by decide +kernel, (fun _ h => by cases h), by decide +kernel⟩
    (by decide) f1 40 as1 _ e1 _ h1 sldI2 hcalls

example (f1 : Nat) (as1 : List Term) (e1 : VM.End)
    (h1 : VM.runQuery f1 progI (Driver.C01.shiftVars 10 (w (v 0))) 5 = some (as1, e1))
    (hcalls : CallsOK true f1 progI (w (v 0)) 5) :
    Forall2 (AnsRel (Driver.C01.shiftVars 10 (w (v 0)))) as1 [w (.atom "a"), w (.atom "a"), w (.atom "z")] ∧
      endAgree e1 .exhausted :=
  vm_refines_sld_ctl progI _ 5
    ⟨fragI1.clauses, by decide +kernel, by decide +kernel, (fun _ h => by cases h), by decide +kernel⟩
    (by decide) f1 40 as1 _ e1 _ h1 sldI3 hcalls

/-! ## stage 3b: once/1

      q(a).  q(b).
      first(X) :- once(q(X)).
      u(X, Y) :- once(q(X)), q(Y).        % the goals after once/1 are not affected by its cut
      u(z, z).
      ?- first(X).      one answer a
      ?- u(X, Y).       three answers (a,a), (a,b), (z,z)

  (`#eval Driver.C01.vmLine` = `specLine … false` on both.) -/

def first (a : Term) : Term := .app "first" (.cons a .nil)
def once (a : Term) : Term := .app "once" (.cons a .nil)
def u (a b : Term) : Term := .app "u" (.cons a (.cons b .nil))

def progO : List Term :=
  [q (.atom "a"), q (.atom "b"),
   SLD.rule (first (v 0)) (once (q (v 0))),
   SLD.rule (u (v 0) (v 1)) (conj (once (q (v 0))) (q (v 1))),
   u (.atom "z") (.atom "z")]

theorem fragO1 : CtlFrag progO (first (v 0)) :=
  ⟨by decide +kernel, by decide +kernel, by decide +kernel, (fun _ h => by cases h), by decide +kernel⟩

theorem sldO1 : SLD.solveQuery 40 progO (first (v 0)) 5 = some ([first (.atom "a")], .exhausted) := by
  decide +kernel

theorem sldO2 : SLD.solveQuery 40 progO (u (v 0) (v 1)) 5 =
    some ([u (.atom "a") (.atom "a"), u (.atom "a") (.atom "b"), u (.atom "z") (.atom "z")], .exhausted) := by
  decide +kernel

example (f1 : Nat) (as1 : List Term) (e1 : VM.End)
    (h1 : VM.runQuery f1 progO (Driver.C01.shiftVars 10 (first (v 0))) 5 = some (as1, e1))
    (hcalls : CallsOK true f1 progO (first (v 0)) 5) :
    Forall2 (AnsRel (Driver.C01.shiftVars 10 (first (v 0)))) as1 [first (.atom "a")] ∧ endAgree e1 .exhausted :=
  vm_refines_sld_ctl progO _ 5 fragO1 (by decide) f1 40 as1 _ e1 _ h1 sldO1 hcalls

example (f1 : Nat) (as1 : List Term) (e1 : VM.End)
    (h1 : VM.runQuery f1 progO (Driver.C01.shiftVars 10 (u (v 0) (v 1))) 5 = some (as1, e1))
    (hcalls : CallsOK true f1 progO (u (v 0) (v 1)) 5) :
    Forall2 (AnsRel (Driver.C01.shiftVars 10 (u (v 0) (v 1)))) as1
      [u (.atom "a") (.atom "a"), u (.atom "a") (.atom "b"), u (.atom "z") (.atom "z")] ∧ endAgree e1 .exhausted :=
  vm_refines_sld_ctl progO _ 5
    ⟨fragO1.clauses, by decide +kernel, by decide +kernel, (fun _ h => by cases h), by decide +kernel⟩
    (by decide) f1 40 as1 _ e1 _ h1 sldO2 hcalls

/-! ## stage 3b: `\\+`/1

      q(a).  q(b).  s(a).  s(c).
      notin(X) :- \\+ q(X).
      dd(X) :- s(X), \\+ q(X).
      ?- notin(c).     one answer          ?- notin(a).   no answer
      ?- dd(X).        one answer c

  (`#eval Driver.C01.vmLine` = `specLine … false` on all three.) -/

def s' (a : Term) : Term := .app "s" (.cons a .nil)
def notin (a : Term) : Term := .app "notin" (.cons a .nil)
def dd (a : Term) : Term := .app "dd" (.cons a .nil)
def neg (a : Term) : Term := .app "\\+" (.cons a .nil)

def progN : List Term :=
  [q (.atom "a"), q (.atom "b"), s' (.atom "a"), s' (.atom "c"),
   SLD.rule (notin (v 0)) (neg (q (v 0))),
   SLD.rule (dd (v 0)) (conj (s' (v 0)) (neg (q (v 0))))]

theorem fragN1 : CtlFrag progN (notin (.atom "c")) :=
  ⟨by decide +kernel, by decide +kernel, by decide +kernel, (fun _ h => by cases h), by decide +kernel⟩

theorem sldN1 : SLD.solveQuery 40 progN (notin (.atom "c")) 5 = some ([notin (.atom "c")], .exhausted) := by
  decide +kernel

theorem sldN2 : SLD.solveQuery 40 progN (notin (.atom "a")) 5 = some ([], .exhausted) := by
  decide +kernel

theorem sldN3 : SLD.solveQuery 60 progN (dd (v 0)) 5 = some ([dd (.atom "c")], .exhausted) := by
  decide +kernel

example (f1 : Nat) (as1 : List Term) (e1 : VM.End)
    (h1 : VM.runQuery f1 progN (Driver.C01.shiftVars 10 (notin (.atom "c"))) 5 = some (as1, e1))
    (hcalls : CallsOK true f1 progN (notin (.atom "c")) 5) :
    Forall2 (AnsRel (Driver.C01.shiftVars 10 (notin (.atom "c")))) as1 [notin (.atom "c")] ∧ endAgree e1 .exhausted :=
  vm_refines_sld_ctl progN _ 5 fragN1 (by decide) f1 40 as1 _ e1 _ h1 sldN1 hcalls

example (f1 : Nat) (as1 : List Term) (e1 : VM.End)
    (h1 : VM.runQuery f1 progN (Driver.C01.shiftVars 10 (notin (.atom "a"))) 5 = some (as1, e1))
    (hcalls : CallsOK true f1 progN (notin (.atom "a")) 5) :
    Forall2 (AnsRel (Driver.C01.shiftVars 10 (notin (.atom "a")))) as1 [] ∧ endAgree e1 .exhausted :=
  vm_refines_sld_ctl progN _ 5
    ⟨fragN1.clauses, by decide +kernel, by decide +kernel, (fun _ h => by cases h), by decide +kernel⟩
    (by decide) f1 40 as1 _ e1 _ h1 sldN2 hcalls

example (f1 : Nat) (as1 : List Term) (e1 : VM.End)
    (h1 : VM.runQuery f1 progN (Driver.C01.shiftVars 10 (dd (v 0))) 5 = some (as1, e1))
    (hcalls : CallsOK true f1 progN (dd (v 0)) 5) :
    Forall2 (AnsRel (Driver.C01.shiftVars 10 (dd (v 0)))) as1 [dd (.atom "c")] ∧ endAgree e1 .exhausted :=
  vm_refines_sld_ctl progN _ 5
    ⟨fragN1.clauses, by decide +kernel, by decide +kernel, (fun _ h => by cases h), by decide +kernel⟩
    (by decide) f1 60 as1 _ e1 _ h1 sldN3 hcalls

/-! ## stage 3b: disjunction at the top level of a clause body, of a called goal and of the query

      q(a).  q(b).
      t(X) :- ( q(X), ! ; X = y ; X = z ).      % three alternatives; the cut cuts t/1
      t(w).
      e(X) :- call(( q(X) ; X = z )).            % `call/1` of a disjunction
      ?- t(X).               one answer a
      ?- e(X).               three answers a, b, z
      ?- ( q(X) ; X = z ).   three answers

  (`#eval Driver.C01.vmLine` = `specLine … false` on all three.) -/

def disj (a b : Term) : Term := .app ";" (.cons a (.cons b .nil))
def tt (a : Term) : Term := .app "tt" (.cons a .nil)
def ee (a : Term) : Term := .app "ee" (.cons a .nil)

def progE : List Term :=
  [q (.atom "a"), q (.atom "b"),
   SLD.rule (tt (v 0)) (disj (conj (q (v 0)) (.atom "!")) (disj (eq (v 0) (.atom "y")) (eq (v 0) (.atom "z")))),
   tt (.atom "w"),
   SLD.rule (ee (v 0)) (call1 (disj (q (v 0)) (eq (v 0) (.atom "z"))))]

theorem fragE1 : CtlFrag progE (tt (v 0)) :=
  ⟨by decide +kernel, by decide +kernel, by decide +kernel, (fun _ h => by cases h), by decide +kernel⟩

theorem sldE1 : SLD.solveQuery 40 progE (tt (v 0)) 5 = some ([tt (.atom "a")], .exhausted) := by decide +kernel

theorem sldE2 : SLD.solveQuery 40 progE (ee (v 0)) 5 =
    some ([ee (.atom "a"), ee (.atom "b"), ee (.atom "z")], .exhausted) := by decide +kernel

example (f1 : Nat) (as1 : List Term) (e1 : VM.End)
    (h1 : VM.runQuery f1 progE (Driver.C01.shiftVars 10 (tt (v 0))) 5 = some (as1, e1))
    (hcalls : CallsOK true f1 progE (tt (v 0)) 5) :
    Forall2 (AnsRel (Driver.C01.shiftVars 10 (tt (v 0)))) as1 [tt (.atom "a")] ∧ endAgree e1 .exhausted :=
  vm_refines_sld_ctl progE _ 5 fragE1 (by decide) f1 40 as1 _ e1 _ h1 sldE1 hcalls

example (f1 : Nat) (as1 : List Term) (e1 : VM.End)
    (h1 : VM.runQuery f1 progE (Driver.C01.shiftVars 10 (ee (v 0))) 5 = some (as1, e1))
    (hcalls : CallsOK true f1 progE (ee (v 0)) 5) :
    Forall2 (AnsRel (Driver.C01.shiftVars 10 (ee (v 0)))) as1 [ee (.atom "a"), ee (.atom "b"), ee (.atom "z")] ∧
      endAgree e1 .exhausted :=
  vm_refines_sld_ctl progE _ 5
    ⟨fragE1.clauses, by decide +kernel, by decide +kernel, (fun _ h => by cases h), by decide +kernel⟩
    (by decide) f1 40 as1 _ e1 _ h1 sldE2 hcalls

/-- a disjunctive query -/
example : CtlFrag progE (disj (q (v 0)) (eq (v 0) (.atom "z"))) :=
  ⟨fragE1.clauses, by decide +kernel, by decide +kernel, (fun _ h => by cases h), by decide +kernel⟩

end PrologVerif.Refine.Example
