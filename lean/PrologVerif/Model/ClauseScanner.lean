/-
  Model/ClauseScanner.lean — the term reader (engine/lexer.go + engine/parser.go behind
  `ReadTerm`) as a consumer of runes: it finds the END of the clause the way the lexer does and
  reports the clause, it does not parse.

      layout/comments  CLAUSE TEXT  '.'  (layout char | '%' | end of input)

  The end token is a '.' that does not continue a graphic token and is followed by a layout
  character, '%' or the end of the input; quoted items ('…', "…", `…` with doubled quotes) and
  `%…` / `/*…*/` comments are skipped over.  What was measured on the real code and is mirrored here
  is how far the reader reads — up to and including the end token plus exactly one look-ahead rune
  (none at the end of the input) — and that a clean end of input (only layout and comments, even an
  unterminated comment) is `end_of_file`.

  What is reported: a clause that is a single letter-digit atom, decimal integer, quoted atom, `[]` or
  `{}` is reported as that term; any other clause as `'$clause'(Text)` with Text the clause text without
  layout and comments (the harness prints writeq of the term it read; the generators only draw
  clauses whose writeq text is their own text).  Backslash escapes, newlines in quoted items and
  everything that is not well-formed are outside the fragment (`syntaxErr`, or a clause text the
  real parser would reject): the generators avoid them.  The C19 theorems are about ANY `Scanner`,
  not about this one.
-/
import PrologVerif.Model.StreamTypes
namespace PrologVerif.Stream.Clause

/-- unicode.IsSpace -/
def isLayout (r : Nat) : Prop :=
  (9 ≤ r ∧ r ≤ 13) ∨ r = 32 ∨ r = 0x85 ∨ r = 0xA0 ∨ r = 0x1680 ∨ (0x2000 ≤ r ∧ r ≤ 0x200A) ∨
  r = 0x2028 ∨ r = 0x2029 ∨ r = 0x202F ∨ r = 0x205F ∨ r = 0x3000
instance (r : Nat) : Decidable (isLayout r) := by unfold isLayout; infer_instance

def isDigit (r : Nat) : Prop := 48 ≤ r ∧ r ≤ 57
instance (r : Nat) : Decidable (isDigit r) := by unfold isDigit; infer_instance

/-- small letters: a–z and the three non-ASCII letters the generators draw (é, あ, 𝒶) -/
def isSmall (r : Nat) : Prop := (97 ≤ r ∧ r ≤ 122) ∨ r = 0xE9 ∨ r = 0x3042 ∨ r = 0x1D4B6
instance (r : Nat) : Decidable (isSmall r) := by unfold isSmall; infer_instance

def isAlnum (r : Nat) : Prop := isSmall r ∨ (65 ≤ r ∧ r ≤ 90) ∨ isDigit r ∨ r = 95
instance (r : Nat) : Decidable (isAlnum r) := by unfold isAlnum; infer_instance

/-- lexer.go isGraphicChar (ASCII part) and the backslash -/
def isGraphic (r : Nat) : Prop :=
  r ∈ [35, 36, 38, 42, 43, 45, 46, 47, 58, 60, 61, 62, 63, 64, 94, 126, 92]   -- #$&*+-./:<=>?@^~\
instance (r : Nat) : Decidable (isGraphic r) := by unfold isGraphic; infer_instance

def isQuote (r : Nat) : Prop := r = 39 ∨ r = 34 ∨ r = 96      -- ' " `
instance (r : Nat) : Decidable (isQuote r) := by unfold isQuote; infer_instance

/-- where the scanner is inside the clause text -/
inductive Mode
  | normal
  | quote (q : Nat)          -- inside a quoted item opened by q
  | quoteQ (q : Nat)         -- q seen inside it: its end, or the first of a doubled quote
  | lineC | slash | blockC | blockStar
  | dot                      -- '.' seen at a token start: an end token if an end char follows
  deriving DecidableEq

inductive St
  | pre (m : Mode)                                  -- before the clause (normal / lineC / slash / blockC / blockStar)
  | body (acc : List Nat) (pg : Bool) (m : Mode)    -- clause text so far (reversed), "previous rune was graphic"

/-- undouble the quotes of the inside of a quoted atom; `none` if a quote stands alone -/
def undouble : List Nat → Option (List Nat)
  | [] => some []
  | 39 :: 39 :: rest => (undouble rest).map (39 :: ·)
  | 39 :: _ => none
  | c :: rest => (undouble rest).map (c :: ·)

def strOf (cs : List Nat) : String := String.ofList (cs.map Char.ofNat)

/-- what a clause text is reported as -/
def classify (acc : List Nat) : Term :=
  let cs := acc.reverse
  match cs with
  | [] => .atom ""
  | c :: rest =>
    if isSmall c ∧ rest.all (fun r => decide (isAlnum r)) then .atom (strOf cs)
    else if cs = [91, 93] ∨ cs = [123, 125] then .atom (strOf cs)          -- [] and {}
    else if cs.all (fun r => decide (isDigit r)) then
      .int (Int.ofNat (cs.foldl (fun n d => n * 10 + (d - 48)) 0))
    else if c = 39 ∧ rest.getLast? = some 39 then
      match undouble rest.dropLast with
      | some inner => .atom (strOf inner)
      | none => .app "$clause" (.cons (.atom (strOf cs)) .nil)
    else .app "$clause" (.cons (.atom (strOf cs)) .nil)

/-- a rune of the clause text outside quoted items and comments -/
def normalStep (acc : List Nat) (pg : Bool) (r : Nat) : St ⊕ ReadOut :=
  if isLayout r then .inl (.body acc false .normal)
  else if r = 37 then .inl (.body acc false .lineC)
  else if r = 47 then .inl (.body acc pg .slash)
  else if isQuote r then .inl (.body (r :: acc) false (.quote r))
  else if r = 46 then (if pg then .inl (.body (r :: acc) true .normal) else .inl (.body acc false .dot))
  else .inl (.body (r :: acc) (decide (isGraphic r)) .normal)

def step : St → Nat → St ⊕ ReadOut
  | .pre .normal, r =>
    if isLayout r then .inl (.pre .normal)
    else if r = 37 then .inl (.pre .lineC)
    else if r = 47 then .inl (.pre .slash)
    else if r = 46 then .inr .syntaxErr                -- a clause cannot start with an end token
    else normalStep [] false r
  | .pre .lineC, r => if r = 10 then .inl (.pre .normal) else .inl (.pre .lineC)
  | .pre .slash, r => if r = 42 then .inl (.pre .blockC) else normalStep [47] true r
  | .pre .blockC, r => if r = 42 then .inl (.pre .blockStar) else .inl (.pre .blockC)
  | .pre .blockStar, r =>
    if r = 47 then .inl (.pre .normal) else if r = 42 then .inl (.pre .blockStar) else .inl (.pre .blockC)
  | .pre _, _ => .inr .syntaxErr
  | .body acc pg .normal, r => normalStep acc pg r
  | .body acc _ (.quote q), r =>
    if r = q then .inl (.body (r :: acc) false (.quoteQ q))
    else if r = 92 ∨ r = 10 then .inr .syntaxErr        -- escapes and newlines in quoted items: outside the fragment
    else .inl (.body (r :: acc) false (.quote q))
  | .body acc _ (.quoteQ q), r =>
    if r = q then .inl (.body (r :: acc) false (.quote q)) else normalStep acc false r
  | .body acc _ .lineC, r => if r = 10 then .inl (.body acc false .normal) else .inl (.body acc false .lineC)
  | .body acc pg .slash, r =>
    if r = 42 ∧ pg = false then .inl (.body acc false .blockC) else normalStep (47 :: acc) true r
  | .body acc _ .blockC, r => if r = 42 then .inl (.body acc false .blockStar) else .inl (.body acc false .blockC)
  | .body acc _ .blockStar, r =>
    if r = 47 then .inl (.body acc false .normal)
    else if r = 42 then .inl (.body acc false .blockStar) else .inl (.body acc false .blockC)
  | .body acc _ .dot, r =>
    if isLayout r ∨ r = 37 then .inr (.term (classify acc))
    else normalStep (46 :: acc) true r                  -- not an end token after all ("1.5", "a.b")

def eofOut : St → EOFOut
  | .pre .normal => .endOfFile
  | .pre .lineC => .endOfFile
  | .pre .blockC => .endOfFile
  | .pre .blockStar => .endOfFile
  | .body acc _ .dot => .out (.term (classify acc))
  | _ => .out .syntaxErr

def scanner : Scanner St := { init := .pre .normal, step := step, eof := eofOut }


/-! ## reads that fail: the real reader, measured

  Where the real lexer+parser stop on a clause that is NOT well-formed depends on the whole grammar.
  For those reads the correspondence stream measures the real reader ALONE (hook `VerifReadProbe`:
  lexer+parser over a counting rune reader, no `Stream`, no `ReadTerm`): fed these runes it raises a
  syntax error after pulling exactly these runes (the last one being its look-ahead), or it runs into
  the end of the input.  `measured` is the reader that behaves as the table says on the measured rune
  sequences and as `scanner` everywhere else.  A deterministic reader stops at the same rune whenever
  it is fed the same runes, so the table is keyed by the runes fed. -/

namespace Measured

inductive Kind
  | synRune     -- syntax error; the last rune of the entry is the look-ahead it stopped on
  | synEOF      -- syntax error detected at the end of the input (all runes of the entry consumed)
  | eofMid      -- the input ended inside a clause and the reader reported io.EOF (end_of_file)
  deriving DecidableEq

abbrev Table := List (List Nat × Kind)

structure St where
  acc : List Nat              -- runes fed so far, reversed
  inner : Option Clause.St    -- `scanner` run alongside; none once it has stopped

def has (tab : Table) (fed : List Nat) (k : Kind) : Bool := tab.any (fun e => e.1 == fed && e.2 == k)

/-- some measured read goes on after these runes -/
def goesOn (tab : Table) (fed : List Nat) : Bool :=
  tab.any (fun e => (fed.isPrefixOf e.1 && decide (fed.length < e.1.length)) || (e.1 == fed && e.2 != .synRune))

def step (tab : Table) (st : St) (r : Nat) : St ⊕ ReadOut :=
  let acc := r :: st.acc
  let fed := acc.reverse
  if has tab fed .synRune then .inr .syntaxErr
  else if goesOn tab fed then
    .inl { acc := acc, inner := st.inner.bind fun i => match Clause.step i r with | .inl i' => some i' | .inr _ => none }
  else
    match st.inner with
    | some i =>
      match Clause.step i r with
      | .inl i' => .inl { acc := acc, inner := some i' }
      | .inr o => .inr o
    | none => .inr .syntaxErr

/-- `strict`: what ISO demands of an input that ends inside a clause (a syntax error) instead of what
    the real reader does (io.EOF, i.e. end_of_file): the specification side of the known finding D27 -/
def eofOut (tab : Table) (strict : Bool) (st : St) : EOFOut :=
  let fed := st.acc.reverse
  if has tab fed .synEOF then .out .syntaxErr
  else if has tab fed .eofMid then (if strict then .out .syntaxErr else .endOfFile)
  else
    match st.inner with
    | some i => Clause.eofOut i
    | none => .out .syntaxErr

def scanner (tab : Table) (strict : Bool) : Scanner St :=
  { init := { acc := [], inner := some (.pre .normal) }, step := step tab, eof := eofOut tab strict }

end Measured

end PrologVerif.Stream.Clause
