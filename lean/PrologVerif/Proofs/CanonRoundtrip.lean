/-
  P1: write_canonical followed by read_term is the identity up to variable renaming.
-/
import PrologVerif.Proofs.CanonParse
import PrologVerif.Proofs.LexerSpec
set_option linter.unusedSimpArgs false
set_option linter.unusedVariables false
namespace PrologVerif.Write
open PrologVerif PrologVerif.Lexer PrologVerif.Ops PrologVerif.Read

/-- a token always consists of at least one rune (by the progress theorem of the lexer) -/
theorem LexTok.ne_nil {cfg : Cfg} {x : List Char} {t : Token} {tail : List Char} (h : LexTok cfg x t tail) :
    x ≠ [] := by
  intro hx
  subst hx
  obtain ⟨l', h1, h2⟩ := h [] [] {}
  have hs := lexToken_spec cfg ⟨[], [] ++ tail, [], {}⟩ (by simp [RI])
  rw [h1] at hs
  simp only [Post, List.nil_append] at hs
  rw [h2] at hs
  omega

theorem LexSeq.length_le {cfg : Cfg} {text : List Char} {toks : List Token} {tail : List Char}
    (h : LexSeq cfg text toks tail) : toks.length ≤ text.length := by
  induction h with
  | nil _ => simp
  | @cons x y t ts tl ht _ ih =>
    have hne := ht.ne_nil
    have : 1 ≤ x.length := by
      cases x with
      | nil => exact absurd rfl hne
      | cons _ _ => simp
    simp only [List.length_cons, List.length_append]
    omega

/-- P1: for every well-formed finite term with 64-bit integers, every operator table and every
    double_quotes flag, the text of `write_canonical` followed by ` .` is read back by `read_term` as
    the same term with its variables renamed by first occurrence -/
theorem readTerm_writeCanonical (e : Env) (G : UInt64 → GText) (P : UInt64 → Bool) (he : EnvOK e G P) (ops : Table)
    (dq : DoubleQuotes) (t : Term) (hw : wfTerm t = true) (hi : numsOK P t = true) :
    readTerm e.cfg ops dq (writeCanonical e ops t ++ [' ', '.']) = .ok t.canon := by
  rw [writeCanonical_eq e ops t hw]
  have hseq : LexSeq e.cfg (canonText e t ++ [' ', '.']) (ctoks e G t ++ [⟨.end_, ['.']⟩]) [] :=
    LexSeq.append e.cfg (y := [' ', '.'])
      (by simpa using lexSeq_term e G P he t [' ', '.'] hw hi (HeadIs.cons (.inl rfl)))
      (LexSeq.single e.cfg (lexTok_end e.cfg he.conv))
  unfold readTerm
  rw [tokens_all e.cfg hseq _ (by have := hseq.length_le; omega)]
  by_cases hat : isAtomTerm t = true
  · -- an atom at the top
    cases t with
    | atom a =>
      have h := term_atom_top (atomToks_atomTokens e G P he a) ops dq
        (8 * (ctoks e G (.atom a) ++ [(⟨.end_, ['.']⟩ : Token)]).length + 11) ⟨.end_, ['.']⟩ rfl [] [] [] 0
      have hfs : String.ofList a.toList = a := by simp
      rw [hfs] at h
      have hc : (Term.atom a).canon = .atom a := rfl
      rw [hc]
      exact parseTerm_end (he := rfl) (h := by simpa [readFuel, ctoks, Nat.add_assoc] using h)
    | var _ => simp [isAtomTerm] at hat
    | int _ => simp [isAtomTerm] at hat
    | flt _ => simp [isAtomTerm] at hat
    | str _ => simp [isAtomTerm] at hat
    | app _ _ => simp [isAtomTerm] at hat
  · have hna : isAtomTerm t = false := by simpa using hat
    obtain ⟨vs', nv', h, _⟩ := termSpec_all e G P ops dq he t hw hi hna
      (readFuel (ctoks e G t ++ [⟨.end_, ['.']⟩])) 1201 ⟨.end_, ['.']⟩ [] [] [] 0 [] (.inl rfl) (.inl rfl)
      (by simp [readFuel]; omega) ⟨rfl, rfl⟩
    exact parseTerm_end (he := rfl) (h := by simpa [Term.canon] using h)

end PrologVerif.Write
