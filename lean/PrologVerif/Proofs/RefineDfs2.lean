/-
  Refine, part 11b — the search, continued: the clause compiled by `call/1` (`tc_succ`), the
  promises (`tp_succ`), and the induction on the fuel of the search (`t_all`).
-/
import PrologVerif.Proofs.RefineDfs
import PrologVerif.Proofs.RefineCallSim
namespace PrologVerif.Refine
open PrologVerif PrologVerif.VM PrologVerif.DecompileCompile PrologVerif.Activation
  PrologVerif.RefineITree PrologVerif.RefineRobinson PrologVerif.VMScoped
  PrologVerif.Promise PrologVerif.DFSG PrologVerif.ForceDFSGConv

section
variable {fl : Bool} {tmpl : Term} {max : Nat} {prog : List Term} {F : Nat}

theorem Forall2.imp_mem {α β : Type} {R S : α → β → Prop} {as : List α} {bs : List β} (h : Forall2 R as bs)
    (hRS : ∀ a ∈ as, ∀ b, R a b → S a b) : Forall2 S as bs := by
  induction h with
  | nil => exact .nil
  | cons hd _ ih => exact .cons (hRS _ (by simp) _ hd) (ih (fun a ha => hRS a (by simp [ha])))

/-- below a cut parent the levels are at most its level -/
theorem lev_le_of_drop {lv : Lv} {d : Nat} (h : LvOK lv d) {cp l : Nat} (hcp : lv.lev cp = some l)
    {e : Nat × Option Nat} (he : e ∈ lv.dropWhile (fun e => e.1 ≠ cp)) {l' : Nat} (hl' : e.2 = some l') : l' ≤ l := by
  have hmcp := Lv.mem_of_lev hcp
  have hmono := h.mono
  have hnd := h.nodup
  clear hcp h
  induction lv with
  | nil => simp at hmcp
  | cons a lv ih =>
    by_cases ha : a.1 = cp
    · simp only [List.dropWhile, ha, ne_eq, not_true_eq_false, decide_false] at he
      have hacp : a = (cp, some l) := by
        rcases List.mem_cons.1 hmcp with h | h
        · exact h.symm
        · exfalso
          simp only [List.map_cons, List.nodup_cons] at hnd
          exact hnd.1 (ha ▸ List.mem_map_of_mem (f := Prod.fst) h)
      rcases List.mem_cons.1 he with h | h
      · rw [h, hacp] at hl'
        simp only [Option.some.injEq] at hl'
        omega
      · have := (List.pairwise_cons.1 hmono).1 e h l l' (by rw [hacp]) hl'
        omega
    · simp only [List.dropWhile, ha, ne_eq, not_false_eq_true, decide_true] at he
      have hmcp' : (cp, some l) ∈ lv := by
        rcases List.mem_cons.1 hmcp with h | h
        · exact absurd (by rw [← h]) ha
        · exact h
      simp only [List.map_cons, List.nodup_cons] at hnd
      exact ih he hmcp' (List.pairwise_cons.1 hmono).2 hnd.2

theorem afterCut_answers (l : Nat) (r : SLD.Res) : (SLD.afterCut l r).answers = r.answers := by
  unfold SLD.afterCut
  split <;> rfl

theorem tp_succ {k : Nat} (ihA : TAk fl tmpl max prog F k) (ihD : TDk fl tmpl max prog F k)
    (ihPall : ∀ j, j ≤ k → TPk fl tmpl max prog F j) (hprog : ∀ c ∈ prog, clauseS fl c = true) :
    TPk fl tmpl max prog F (k + 1) := by
  intro p lv m sig m' hd hgood d ans0 r hspec hok hst hlt
  cases hspec with
  | fail hans =>
    rw [leaf_ok' rfl rfl] at hd
    simp only [Option.some.injEq, Prod.mk.injEq] at hd
    obtain ⟨rfl, rfl⟩ := hd
    exact Or.inr ⟨⟨[], (by show m.user.answers = [] ++ ans0; simpa using hans), .nil⟩,
      Or.inl ⟨rfl, rfl, by rw [show (tick m).user.answers = m.user.answers from rfl, hans]; exact hlt⟩,
      stOK_tick hst, Nat.le_refl _⟩
  | answer hans hrel =>
    rename_i a q
    by_cases hc : (a :: ans0).length ≥ max
    · rw [if_pos hc] at hd
      rw [leaf_ok' rfl rfl] at hd
      simp only [Option.some.injEq, Prod.mk.injEq] at hd
      obtain ⟨rfl, rfl⟩ := hd
      have h1 : max - ans0.length = 1 := by simp only [List.length_cons] at hc; omega
      refine Or.inr ⟨⟨[a], (by show m.user.answers = [a] ++ ans0; simpa using hans), .cons hrel .nil⟩,
        Or.inr (Or.inr (Or.inl ⟨rfl, by simp [h1]⟩)), stOK_tick hst, Nat.le_refl _⟩
    · rw [if_neg hc] at hd
      rw [leaf_ok' rfl rfl] at hd
      simp only [Option.some.injEq, Prod.mk.injEq] at hd
      obtain ⟨rfl, rfl⟩ := hd
      have h1 : max - ans0.length ≠ 1 := by simp only [List.length_cons] at hc; omega
      refine Or.inr ⟨⟨[a], (by show m.user.answers = [a] ++ ans0; simpa using hans), .cons hrel .nil⟩,
        Or.inl ⟨rfl, by simp [h1], ?_⟩, stOK_tick hst, Nat.le_refl _⟩
      rw [show (tick m).user.answers = m.user.answers from rfl, hans]
      simp only [List.length_cons] at hc ⊢
      omega
  | err hans =>
    rename_i F' c1 c2
    rw [leaf_err' rfl rfl] at hd
    simp only [Option.some.injEq, Prod.mk.injEq] at hd
    obtain ⟨rfl, rfl⟩ := hd
    exact Or.inr ⟨⟨[], (by show m.user.answers = [] ++ ans0; simpa using hans), .nil⟩,
      Or.inr (Or.inr (Or.inr ⟨F', c1, c2, [], none, rfl, rfl⟩)), stOK_tick hst, Nat.le_refl _⟩
  | alts hans hid0 hshape hsim hs =>
    rename_i id its g K env R q nv n
    cases its with
    | nil =>
      rw [leaf_ok' rfl rfl] at hd
      simp only [Option.some.injEq, Prod.mk.injEq] at hd
      obtain ⟨rfl, rfl⟩ := hd
      cases n with
      | zero => rw [List.filterMap_nil, solveAlts_zero] at hs; cases hs
      | succ n' =>
        rw [List.filterMap_nil, solveAlts_nil] at hs
        simp only [SLD.failed, Option.some.injEq] at hs
        subst hs
        exact Or.inr ⟨⟨[], (by show m.user.answers = [] ++ ans0; simpa using hans), .nil⟩,
          Or.inl ⟨rfl, rfl, by rw [show (tick m).user.answers = m.user.answers from rfl, hans]; exact hlt⟩,
          stOK_tick hst, Nat.le_refl _⟩
    | cons it its' =>
      by_cases hid : (id ≠ 0 ∧ (lv.map Prod.fst).contains id)
      · rw [ill_id' rfl hid] at hd
        simp only [Option.some.injEq, Prod.mk.injEq] at hd
        exact Or.inl hd.1.symm
      · rw [nocut' rfl hid rfl] at hd
        have hf : afterChild ({ ({ id := id, delayed := (it :: its').map (fun it => Thunk.clause (clauseOf it.1) (argList g) K env id) } : Pr) with cutParent := none }) =
            ({ id := id, delayed := its'.map (fun it => Thunk.clause (clauseOf it.1) (argList g) K env id) } : Pr) := by
          simp [afterChild]
        rw [hf] at hd
        simp only [List.map_cons] at hd
        have hidn : id ∉ lv.map Prod.fst := by
          intro hmem
          exact hid ⟨hid0, by simpa using hmem⟩
        have hgA : GoodA fl F k (Thunk.clause (clauseOf it.1) (argList g) K env id)
            { id := id, delayed := its'.map (fun it => Thunk.clause (clauseOf it.1) (argList g) K env id) }
            (lv.map Prod.fst) (tick m) := by
          intro x mx hx
          rw [← hf] at hx
          exact hgood x mx (.nocut (ts := its'.map (fun it => Thunk.clause (clauseOf it.1) (argList g) K env id)) rfl hid rfl hx)
        rcases ihA it its' id g K env R q nv n d r lv (tick m) sig m' ans0 hd hgA hans hid0 hidn hshape hsim hs
          hok (stOK_tick hst) hlt with hill | hm
        · exact Or.inl hill
        · exact Or.inr (hm.from (Nat.le_refl _))
  | direct hans hid0 hcode hvars hsim hs =>
    rename_i id ct K env R q nv n
    by_cases hid : (id ≠ 0 ∧ (lv.map Prod.fst).contains id)
    · rw [ill_id' rfl hid] at hd
      simp only [Option.some.injEq, Prod.mk.injEq] at hd
      exact Or.inl hd.1.symm
    · rw [nocut' rfl hid rfl] at hd
      have hf : afterChild ({ ({ id := id, delayed := [Thunk.clause ct [] K env id] } : Pr) with cutParent := none }) =
          ({ id := id, delayed := [] } : Pr) := by
        simp [afterChild]
      rw [hf] at hd
      have hidn : id ∉ lv.map Prod.fst := by
        intro hmem
        exact hid ⟨hid0, by simpa using hmem⟩
      have hgA : GoodA fl F k (Thunk.clause ct [] K env id) { id := id, delayed := [] }
          (lv.map Prod.fst) (tick m) := by
        intro x mx hx
        rw [← hf] at hx
        exact hgood x mx (.nocut (ts := []) rfl hid rfl hx)
      rcases ihD ct id K env R q nv n d r lv (tick m) sig m' ans0 hd hgA hans hid0 hidn hcode hvars hsim hs
        hok (stOK_tick hst) hlt with hill | hm
      · exact Or.inl hill
      · exact Or.inr (hm.from (Nat.le_refl _))
  | cut hans hlcp hN hW hcg hgr hco hq hbnd hs =>
    rename_i pc vars kk cp l env R q nv n r' N σ π D G'
    -- the cut: everything created since `cp` was called is discarded
    have hmem : (lv.map Prod.fst).contains cp = true := by
      simpa using mem_ids_of_lev hlcp
    rw [cut' (t := .afterCut pc vars kk [] [] env cp) (ts := []) rfl (by simp [cutPromise]) rfl hmem] at hd
    have hf : afterChild ({ cutPromise pc vars kk env cp with cutParent := none }) = ({} : Pr) := by
      simp [afterChild, cutPromise]
    rw [hf] at hd
    simp only [Option.map_eq_some_iff] at hd
    obtain ⟨⟨sigA, mA⟩, hda, hpair⟩ := hd
    simp only [Prod.mk.injEq] at hpair
    obtain ⟨rfl, rfl⟩ := hpair
    -- the path below the cut
    let lv' : Lv := lv.dropWhile (fun e => e.1 ≠ cp)
    have hsub : lv'.Sublist lv := List.dropWhile_sublist _
    have hok' : LvOK lv' d := hok.drop cp
    have hlive' : lv'.map Prod.fst = (lv.map Prod.fst).dropWhile (· ≠ cp) := map_fst_dropWhile cp lv
    rw [← hlive'] at hda
    have hin : ∀ it ∈ G', isCut it → ∀ l', lv.lev it.2 = some l' → lv'.lev it.2 = some l' := by
      intro it hit hc l' hl'
      have := mem_drop_of_le hok hlcp hl' (hbnd it hit hc l' hl')
      exact Lv.lev_of_mem hok'.nodup this
    have hgr' : GRel lv' σ π D G' R := by
      refine Forall2.imp_mem hgr ?_
      rintro it hit fr ⟨hg, l0, hfr, hl0⟩
      exact ⟨hg, l0, hfr, fun hc => hin it hit hc l0 (hl0 hc)⟩
    have hco' : CutsOK lv' G' := by
      refine ⟨fun it hit hc => ?_, ?_⟩
      · obtain ⟨l0, hl0⟩ := hco.1 it hit hc
        exact ⟨l0, hin it hit hc l0 hl0⟩
      · refine hco.2.imp ?_
        intro a b hab hca hcb la lb hla hlb
        exact hab hca hcb la lb (lev_of_sub hsub hok.nodup hla) (lev_of_sub hsub hok.nodup hlb)
    cases k with
    | zero => simp [dfsAlts] at hda
    | succ k0 =>
    have ihP0 : TPk fl tmpl max prog F k0 := ihPall k0 (Nat.le_succ k0)
    cases hev : evalThunk F (Thunk.afterCut pc vars kk [] [] env cp) (tick m) with
    | none => rw [dfsAlts_thunk_none (sem := VM.sem F) (by exact hev)] at hda; cases hda
    | some pr =>
      obtain ⟨q0, m1⟩ := pr
      have hcont : applyCont F (.exec pc vars cp kk) env (tick m) = some (q0, m1) := by
        cases F with
        | zero => simp [evalThunk] at hev
        | succ F' =>
          rw [continuation_resumes]
          rw [evalThunk] at hev
          exact hev
      subst hans
      have hgA : GoodA fl F (k0 + 1) (Thunk.afterCut pc vars kk [] [] env cp) ({} : Pr)
          (lv'.map Prod.fst) (tick m) := by
        intro x mx hx
        rw [← hf, hlive'] at hx
        exact hgood x mx (.cut (ts := []) rfl (by simp [cutPromise]) rfl hmem hx)
      obtain ⟨hspec, hst1, hnv1⟩ := cont_run tmpl max prog hprog F _ env (tick m) q0 m1 hcont
        (fun hfl => hgA _ _ .here hfl _ hev) lv' R q nv
        ⟨N, σ, π, D, G', hN, hW, hcg, hgr', hco', hq, trivial⟩ (stOK_tick hst) n d r' hs
      have hlv1 : lv'.map Prod.fst = push ({} : Pr).id (lv'.map Prod.fst) := by simp [push]
      rcases after_child ihP0 hda hgA (by exact hev) hlv1 hspec hok' hst1 hlt rfl with
        hill | ⟨m2, hm, hf2, _⟩ | ⟨sig1, m2, hm, hne, hresA⟩
      · subst hill
        exact Or.inl rfl
      · right
        cases k0 with
        | zero => simp [dfsP] at hf2
        | succ k' =>
          rw [leaf_ok' rfl rfl] at hf2
          simp only [Option.some.injEq, Prod.mk.injEq] at hf2
          obtain ⟨rfl, rfl⟩ := hf2
          rcases hm.stop with ⟨_, h2, h3⟩ | ⟨_, _, h1, _⟩ | ⟨h1, _⟩ | ⟨_, _, _, _, _, h1, _⟩
          · refine ⟨by rw [afterCut_answers]; exact hm.ans, Or.inr (Or.inl ⟨cp, l, rfl, ?_, hlcp, h3⟩), hm.st, Nat.le_trans hnv1 hm.nvar⟩
            simp [SLD.afterCut, h2]
          · cases h1
          · cases h1
          · cases h1
      · right
        rcases hm.stop with ⟨h1, _, _⟩ | ⟨c', l', h1, h2, h3, h4⟩ | ⟨h1, h2⟩ | ⟨F', c1, c2, ex, co, h1, h2⟩
        · exact absurd h1 hne
        · subst h1
          have hmem' := Lv.mem_of_lev h3
          have hc0 : c' ≠ 0 := hok'.nz _ hmem'
          rw [absorb_cut_ne m2 hc0] at hresA
          simp only [Prod.mk.injEq] at hresA
          obtain ⟨rfl, rfl⟩ := hresA
          have hle : l' ≤ l := lev_le_of_drop hok hlcp hmem' rfl
          refine ⟨by rw [afterCut_answers]; exact hm.ans,
            Or.inr (Or.inl ⟨c', l', rfl, ?_, lev_of_sub hsub hok.nodup h3, h4⟩), hm.st, Nat.le_trans hnv1 hm.nvar⟩
          simp [SLD.afterCut, h2, Nat.min_eq_left hle]
        · subst h1
          rw [absorb_found] at hresA
          simp only [Prod.mk.injEq] at hresA
          obtain ⟨rfl, rfl⟩ := hresA
          refine ⟨by rw [afterCut_answers]; exact hm.ans, Or.inr (Or.inr (Or.inl ⟨rfl, ?_⟩)), hm.st, Nat.le_trans hnv1 hm.nvar⟩
          simp [SLD.afterCut, h2]
        · subst h1
          obtain ⟨co', hco''⟩ := absorb_raised 0 (.exc (errT F' c1)) co m2
          rw [hco''] at hresA
          simp only [Prod.mk.injEq] at hresA
          obtain ⟨rfl, rfl⟩ := hresA
          refine ⟨by rw [afterCut_answers]; exact hm.ans,
            Or.inr (Or.inr (Or.inr ⟨F', c1, c2, ex, ?_⟩)), hm.st, Nat.le_trans hnv1 hm.nvar⟩
          cases co' with
          | none => exact ⟨some cp, rfl, by simp [SLD.afterCut, h2]⟩
          | some c0 => exact ⟨some c0, rfl, by simp [SLD.afterCut, h2]⟩

theorem tp_zero : TPk fl tmpl max prog F 0 := by
  intro p lv m sig m' hd
  simp [dfsP] at hd

theorem ta_zero : TAk fl tmpl max prog F 0 := by
  intro it its id g K env R q nv n d r lv m sig m' ans0 hda
  simp [dfsAlts] at hda

theorem td_zero : TDk fl tmpl max prog F 0 := by
  intro ct id K env R q nv n d r lv m sig m' ans0 hda
  simp [dfsAlts] at hda

theorem t_all (hprog : ∀ c ∈ prog, clauseS fl c = true) : ∀ k : Nat,
    (∀ j, j ≤ k → TPk fl tmpl max prog F j) ∧ TAk fl tmpl max prog F k ∧ TDk fl tmpl max prog F k
  | 0 => ⟨fun j hj => by
      have : j = 0 := by omega
      subst this; exact tp_zero, ta_zero, td_zero⟩
  | k + 1 =>
    have ih := t_all hprog k
    have ihP : TPk fl tmpl max prog F k := ih.1 k (Nat.le_refl k)
    ⟨fun j hj => by
      rcases Nat.lt_or_ge j (k + 1) with h | h
      · exact ih.1 j (by omega)
      · have : j = k + 1 := by omega
        subst this
        exact tp_succ ih.2.1 ih.2.2 ih.1 hprog,
     ta_succ ihP hprog, td_succ ihP hprog⟩

theorem tp_all (hprog : ∀ c ∈ prog, clauseS fl c = true) (k : Nat) : TPk fl tmpl max prog F k :=
  (t_all hprog k).1 k (Nat.le_refl k)

end

end PrologVerif.Refine
