/-
  Specification of findall/3, bagof/3, setof/3 (ISO/IEC 13211-1 §7.1.1.3, §7.1.1.4, §7.1.6.1,
  §8.10), as worded by property C11.  Written independently of Model/Collect.lean (it shares only
  `Term`).  Two parts:

  * definitions the theorems of Properties/C11.lean are stated against (`Occurs`, `Existential`,
    `Free`, `Variant`, `IsPartition`, `IsSetOf`) — meant to be read;
  * an executable oracle (`judge`) that decides whether the answers the IMPLEMENTATION gave for a
    call are the ones ISO prescribes for the observed solution sequence of the goal.  It never uses
    the model: classes of solutions are formed by comparing canonical forms of the witnesses, the
    witness unifications are done in closed form (corresponding variables of variant witnesses are
    identified), lists are unified with `Instances` by a textbook unification with occurs check
    (a case that would need the occurs check is "undefined" in ISO: no verdict), the order of
    variables is left open (any order of a setof list that is consistent with the known part of the
    term order is accepted).
-/
import PrologVerif.Model.Errors
namespace PrologVerif.CollectSpec
open PrologVerif

/-! ## definitions used by the theorems -/

/-- `v` occurs in the term -/
inductive Occurs (v : Nat) : Term → Prop
  | var : Occurs v (.var v)
  | arg {f : String} {as : Args} {t : Term} : t ∈ as.toList → Occurs v t → Occurs v (.app f as)

/-- ISO 7.1.1.3: `v` is in the existential variables set of the term: the term is `V^G` and `v`
    occurs in `V` or is existential in `G` -/
inductive Existential (v : Nat) : Term → Prop
  | here {V G : Term} : Occurs v V → Existential v (Term.a2 "^" V G)
  | there {V G : Term} : Existential v G → Existential v (Term.a2 "^" V G)

/-- ISO 7.1.1.4: `v` is in the free variables set of `goal` with respect to `template`
    (= the free variables of `template^goal`) -/
def Free (v : Nat) (template goal : Term) : Prop :=
  Occurs v goal ∧ ¬ Occurs v template ∧ ¬ Existential v goal

/-- ISO 7.1.6.2 iterated goal term -/
inductive IteratedGoal : Term → Term → Prop
  | strip {V G R : Term} : IteratedGoal G R → IteratedGoal (Term.a2 "^" V G) R
  | done {G : Term} : (∀ V G', G ≠ Term.a2 "^" V G') → IteratedGoal G G

mutual
  def rename (ρ : Nat → Nat) : Term → Term
    | .var v => .var (ρ v)
    | .app f as => .app f (renameArgs ρ as)
    | t => t
  def renameArgs (ρ : Nat → Nat) : Args → Args
    | .nil => .nil
    | .cons t ts => .cons (rename ρ t) (renameArgs ρ ts)
end

/-- ISO 7.1.6.1: `t2` is a variant of `t1`: equal up to a renaming of variables that is one-to-one -/
def Variant (t1 t2 : Term) : Prop :=
  ∃ ρ : Nat → Nat, (∀ a b, Occurs a t1 → Occurs b t1 → ρ a = ρ b → a = b) ∧ rename ρ t1 = t2

/-- the groups of bagof/setof: a partition of the solution sequence into the classes of
    "witness is a variant of", each class in solution order -/
structure IsPartition (sols : List (Term × Term)) (gs : List (List (Term × Term))) : Prop where
  /-- together the groups contain every solution exactly once -/
  perm : gs.flatten.Perm sols
  nonempty : ∀ g ∈ gs, g ≠ []
  /-- within a group solution order is kept -/
  order : ∀ g ∈ gs, g.Sublist sols
  /-- solutions in one group have variant witnesses -/
  same : ∀ g ∈ gs, ∀ p ∈ g, ∀ q ∈ g, Variant p.1 q.1
  /-- solutions in different groups do not -/
  different : gs.Pairwise fun g h => ∀ p ∈ g, ∀ q ∈ h, ¬ Variant p.1 q.1

mutual
  /-- the value of a term under a set of bindings `variable ↦ term` (what writing an answer shows):
      bound variables are replaced, recursively, by the value of the term they are bound to -/
  inductive Value (e : List (Nat × Term)) : Term → Term → Prop
    | unbound {v : Nat} : e.lookup v = none → Value e (.var v) (.var v)
    | bound {v : Nat} {t r : Term} : e.lookup v = some t → Value e t r → Value e (.var v) r
    | app {f : String} {as rs : Args} : ValueArgs e as rs → Value e (.app f as) (.app f rs)
    | atom {s : String} : Value e (.atom s) (.atom s)
    | int {i : Int} : Value e (.int i) (.int i)
    | flt {b : UInt64} : Value e (.flt b) (.flt b)
    | str {n : Nat} : Value e (.str n) (.str n)
  inductive ValueArgs (e : List (Nat × Term)) : Args → Args → Prop
    | nil : ValueArgs e .nil .nil
    | cons {t r : Term} {ts rs : Args} : Value e t r → ValueArgs e ts rs → ValueArgs e (.cons t ts) (.cons r rs)
end

/-- a total order given as a three-way comparison -/
structure IsTotalOrder {α : Type} (cmp : α → α → Ordering) : Prop where
  eq_iff : ∀ a b, cmp a b = .eq ↔ a = b
  gt_iff : ∀ a b, cmp a b = .gt ↔ cmp b a = .lt
  trans : ∀ a b c, cmp a b = .lt → cmp b c = .lt → cmp a c = .lt

/-- ISO 7.1.6.5 sorted list of a list: strictly ascending, same elements -/
structure IsSetOf {α : Type} (cmp : α → α → Ordering) (l r : List α) : Prop where
  sorted : r.Pairwise fun a b => cmp a b = .lt
  same : ∀ x, x ∈ r ↔ x ∈ l

/-! ## executable oracle -/

mutual
  def varsOf : Term → List Nat
    | .var v => [v]
    | .app _ as => varsOfArgs as
    | _ => []
  def varsOfArgs : Args → List Nat
    | .nil => []
    | .cons t ts => varsOf t ++ varsOfArgs ts
end

mutual
  def existentialOf : Term → List Nat
    | .app f as => if f = "^" then existentialArgs as else []
    | _ => []
  def existentialArgs : Args → List Nat
    | .cons v (.cons g .nil) => varsOf v ++ existentialOf g
    | _ => []
end

/-- free variables of `template^goal`, ascending, without repetition -/
def freeOf (template goal : Term) : List Nat :=
  let fv := (varsOf goal).filter fun v => !(varsOf template).contains v && !(existentialOf goal).contains v
  (fv.eraseDups.toArray.qsort (· < ·)).toList

mutual
  def substT (σ : List (Nat × Term)) : Term → Term
    | .var v => match σ.lookup v with | some t => t | none => .var v
    | .app f as => .app f (substA σ as)
    | t => t
  def substA (σ : List (Nat × Term)) : Args → Args
    | .nil => .nil
    | .cons t ts => .cons (substT σ t) (substA σ ts)
end

def occursB (v : Nat) (t : Term) : Bool := (varsOf t).contains v

inductive UResult
  | fail
  | undefined            -- subject to occurs check (ISO: undefined) or out of fuel
  | ok (σ : List (Nat × Term))

/-- textbook unification (Martelli–Montanari with eager substitution); the result is idempotent -/
def unifyEqs : Nat → List (Term × Term) → List (Nat × Term) → UResult
  | 0, _, _ => .undefined
  | _ + 1, [], σ => .ok σ
  | n + 1, (s, t) :: rest, σ =>
    let elim (x : Nat) (u : Term) : UResult :=
      if occursB x u then .undefined else
      unifyEqs n (rest.map fun p => (substT [(x, u)] p.1, substT [(x, u)] p.2))
        ((x, u) :: σ.map fun p => (p.1, substT [(x, u)] p.2))
    if s = t then unifyEqs n rest σ else
    match s, t with
    | .var x, u => elim x u
    | u, .var y => elim y u
    | .app f as, .app g bs =>
      if f = g ∧ as.length = bs.length then unifyEqs n (as.toList.zip bs.toList ++ rest) σ else .fail
    | _, _ => .fail

/-- ISO 7.2 term order as far as it is fixed: `none` when the answer depends on the order of two
    distinct variables (implementation dependent) or on floats (not used by the stream) -/
def rank : Term → Option Nat
  | .var _ => some 0 | .int _ => some 1 | .atom _ => some 3 | .app _ _ => some 4 | _ => none

mutual
  def termOrder : Term → Term → Option Ordering
    | .var a, .var b => if a = b then some .eq else none
    | .int a, .int b => some (compare a b)
    | .atom a, .atom b => some (compare a b)
    | .app f as, .app g bs =>
      if as.length ≠ bs.length then some (compare as.length bs.length)
      else if f ≠ g then some (compare f g)
      else argsOrder as bs
    | x, y => match rank x, rank y with
      | some a, some b => if a = b then none else some (compare a b)
      | _, _ => none
  def argsOrder : Args → Args → Option Ordering
    | .cons a as, .cons b bs =>
      match termOrder a b with
      | some .eq => argsOrder as bs
      | r => r
    | _, _ => some .eq
end

def perms {α : Type} : List α → List (List α)
  | [] => [[]]
  | x :: xs => (perms xs).flatMap fun p => (List.range (p.length + 1)).map fun i => p.take i ++ x :: p.drop i

def pairwiseB {α : Type} (r : α → α → Bool) : List α → Bool
  | [] => true
  | x :: xs => xs.all (r x) && pairwiseB r xs

/-- the lists a setof may deliver for these elements: duplicates removed, ascending in the fixed part
    of the term order; `none` = too many undetermined comparisons to enumerate -/
def sortedCandidates (xs : List Term) : Option (List (List Term)) :=
  let ds := xs.eraseDups
  let ok (a b : Term) : Bool := match termOrder a b with | some .lt => true | none => true | _ => false
  if ds.length ≤ 6 then some ((perms ds).filter (pairwiseB ok))
  else if pairwiseB (fun a b => (termOrder a b).isSome) ds then
    some [(ds.toArray.qsort (fun a b => termOrder a b == some .lt)).toList]
  else none

def indexIn (xs : List Nat) (v : Nat) : Nat := (xs.takeWhile (· ≠ v)).length

/-- rename the variables of a term: those in `shared` to `base + index in shared`, the others to
    `priv + index of first occurrence` -/
def renameApart (shared : List Nat) (base priv : Nat) (t : Term) : Term :=
  let own := ((varsOf t).filter fun v => !shared.contains v).eraseDups
  substT ((shared.eraseDups.map fun v => (v, Term.var (base + indexIn shared.eraseDups v))) ++
          (own.map fun v => (v, Term.var (priv + indexIn own v)))) t

def listOf (xs : List Term) : Term := xs.foldr (fun h t => Term.a2 "." h t) (.atom "[]")

mutual
  def isPartialList : Term → Bool
    | .var _ => true
    | .atom a => a = "[]"
    | .app f as => f = "." && isPartialListArgs as
    | _ => false
  def isPartialListArgs : Args → Bool
    | .cons _ (.cons t .nil) => isPartialList t
    | _ => false
end

def bound (ts : List Term) : Nat := (ts.flatMap varsOf).foldl (fun m v => max m (v + 1)) 0

def fuel : Nat := 100000

/-- canonical text of an answer, the same way the harness prints the implementation's answers -/
def showAnswer (t : Term) : String := "ans " ++ t.canon.wire

/-- outcome of one group: `none` = undefined (no verdict), `some none` = the group gives no answer,
    `some (some s)` = the answer -/
def answerFor (q inst l : Term) : Option (Option String) :=
  match unifyEqs fuel [(l, inst)] [] with
  | .undefined => none
  | .fail => some none
  | .ok σ => some (some (showAnswer (substT σ q)))

/-- all ways to pick one outcome per group so that the picked answers are exactly `remaining` -/
def matchAll : List (List (Option String)) → List String → Bool
  | [], remaining => remaining.isEmpty
  | c :: cs, remaining => c.any fun o =>
    match o with
    | none => matchAll cs remaining
    | some s => remaining.contains s && matchAll cs (remaining.erase s)

def splitAnswers (right : String) : List String :=
  ((right.splitOn " ; ").map fun s => String.ofList (trimSp s.toList)).filter (· ≠ "")

/-- classes of solution indices under "witnesses have the same canonical form" -/
def classesOf (ws : List Term) : List (List Nat) :=
  let keys := ws.map fun w => w.canon
  let idx := List.range ws.length
  (keys.eraseDups).map fun k => idx.filter fun i => keys[i]? == some k

def judge (kind : String) (template goal instances : Term) (sols : List (List (Nat × Term)))
    (gerr : Option Term) (right : String) : String :=
  let q := Term.a3 "q" template goal instances
  let instErr := "err " ++ (typeErr "list" instances).canon.wire
  let goalErr := gerr.map fun e => "err " ++ e.canon.wire
  if (right.splitOn "CYCLIC").length > 1 then "-" else
  if !isPartialList instances then
    if right == instErr || some right == goalErr then "ok"
    else s!"FAIL Instances is neither a partial list nor a list: want {instErr}"
  else match goalErr with
  | some e => if right == e then "ok" else s!"FAIL the goal raised an error, want {e}"
  | none =>
    let base := bound (q :: sols.flatMap fun σ => σ.map (·.2))
    let stride := base + 1
    let got := if right == "none" then [] else splitAnswers right
    if kind == "findall" then
      let ts := sols.zipIdx.map fun (σ, i) => renameApart [] 0 (base + i * stride) (substT σ template)
      match answerFor q instances (listOf ts) with
      | none => "-"
      | some none => if got.isEmpty then "ok" else "FAIL the list of copies does not unify with Instances: want failure"
      | some (some s) => if got == [s] then "ok" else s!"FAIL want {s}"
    else
      let fv := freeOf template goal
      let witness := Term.mk "w" (fv.map .var)
      let ws := sols.map fun σ => substT σ witness
      let ts := sols.map fun σ => substT σ template
      let classes := classesOf ws
      -- one group per class: witness variables identified, other variables renamed apart
      let outcomes : List (Option (List (Option String))) := classes.map fun cls =>
        let wvars (i : Nat) : List Nat := (varsOf (ws.getD i (.atom "w"))).eraseDups
        let w0 := renameApart (wvars (cls.headD 0)) base 0 (ws.getD (cls.headD 0) (.atom "w"))
        let elems := cls.map fun i => renameApart (wvars i) base (base + (i + 1) * stride) (ts.getD i (.atom "?"))
        -- the free variables become the group's witness
        let θ := fv.zip (match w0 with | .app _ as => as.toList | _ => [])
        let q' := substT θ q
        let inst' := substT θ instances
        let lists := if kind == "setof" then sortedCandidates elems else some [elems]
        match lists with
        | none => none
        | some ls => ls.mapM fun l => answerFor q' inst' (listOf l)
      if outcomes.any (·.isNone) then "-" else
      let outs := outcomes.filterMap id
      if matchAll outs got then "ok"
      else
        let want := outs.map fun c => match c with | [some s] => s | [none] => "(no answer)" | _ => "(one of several orders)"
        s!"FAIL answers differ from the groups ISO prescribes (classes of solutions under variant witnesses): want {want}"

end PrologVerif.CollectSpec
