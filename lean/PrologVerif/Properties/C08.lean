/-
  C08 — the standard order is total and representation-independent; sorts obey it.

  Property theorems only (helper lemmas: Proofs/OrderBase, Utf8, OrderSpec, OrderModel, SortGeneric).
  They are about `Model/Order.lean`, which mirrors the per-type `Compare` methods, `CompareCompound`,
  `CompareAtomic`, `Env.set`, `Sort`, `KeySort` of the engine and the six comparison operators of
  bootstrap.pl; the tie to the source is the correspondence streams `c08.compare` / `c08.sort` and the
  regenerated bootstrap clauses (`bootstrap_order_clauses_tied`).

  `noNaN t`: no float inside `t` is a NaN.  Go's `Float.Compare` answers 0 whenever an operand is a
  NaN, so with NaNs `=` is not transitive (`compare_nan_witness`); every theorem that needs the
  hypothesis says so.  Antisymmetry, totality, the type order and the compound rule hold for ALL terms.
-/
import PrologVerif.Proofs.OrderModel
import PrologVerif.Proofs.OrderExtra
import PrologVerif.Proofs.SortGeneric
import PrologVerif.Generated.Bootstrap
namespace PrologVerif.C08
open PrologVerif PrologVerif.Order PrologVerif.OrderSpec PrologVerif.OrderProofs

/-! ### the order -/

/-- **compare_antisymm**: for ALL terms (NaN included) the per-type methods are pairwise consistent:
    swapping the arguments swaps the outcome. -/
theorem compare_antisymm (x y : Term) : Order.compare y x = (Order.compare x y).swap :=
  compare_swap x y

/-- **compare_total**: exactly one of `x < y`, `x = y`, `x > y`, and the reversed call agrees. -/
theorem compare_total (x y : Term) :
    (Order.compare x y = .lt ∧ Order.compare y x = .gt) ∨
    (Order.compare x y = .eq ∧ Order.compare y x = .eq) ∨
    (Order.compare x y = .gt ∧ Order.compare y x = .lt) := by
  rw [compare_antisymm x y]
  cases Order.compare x y <;> simp [Ordering.swap]

/-- every term compares `=` with itself (NaN included) -/
theorem compare_refl (x : Term) : Order.compare x x = .eq := by
  have := compare_antisymm x x
  cases h : Order.compare x x <;> simp [h, Ordering.swap] at this ⊢

/-- **compare_eq_spec**: on NaN-free terms the Go dispatch computes the specification order
    (type rank, then value: variables by number, floats by position on the real line, integers by
    value, atoms by code points, compounds by arity, name, arguments left to right). -/
theorem compare_eq_spec (x y : Term) (hx : noNaN x = true) (hy : noNaN y = true) :
    Order.compare x y = stdCompare x y :=
  compare_eq_std x y hx hy

/-- **compare_trans**: `<` is transitive, and so is `≤`; `=` is a congruence (the three facts that
    make the order a total preorder), for all NaN-free terms. -/
theorem compare_trans (x y z : Term) (hx : noNaN x = true) (hy : noNaN y = true) (hz : noNaN z = true) :
    (Order.compare x y = .lt → Order.compare y z = .lt → Order.compare x z = .lt) ∧
    (Order.compare x y ≠ .gt → Order.compare y z ≠ .gt → Order.compare x z ≠ .gt) ∧
    (Order.compare x y = .eq → Order.compare x z = Order.compare y z) ∧
    (Order.compare y z = .eq → Order.compare x z = Order.compare x y) := by
  rw [compare_eq_spec x y hx hy, compare_eq_spec y z hy hz, compare_eq_spec x z hx hz]
  exact ⟨stdCompare_lawful.lt_trans, stdCompare_lawful.le_trans,
    fun h => stdCompare_lawful.congr_left h z, fun h => stdCompare_lawful.congr_right h x⟩

/-- **compare_refl_iff_identical**: `=` exactly for structurally identical terms (floats by `==`). -/
theorem compare_refl_iff_identical (x y : Term) (hx : noNaN x = true) (hy : noNaN y = true) :
    Order.compare x y = .eq ↔ identical x y = true := by
  rw [compare_eq_spec x y hx hy]
  exact ⟨identical_of_std_eq x y hx hy, std_eq_of_identical x y⟩

/-- the hypothesis `noNaN` is needed: with a NaN, `1.0 = NaN` and `NaN = 2.0` but `1.0 < 2.0`
    (on the pinned tree a NaN can be built: D4 lets `+Inf` through, `Inf - Inf` is NaN). -/
theorem compare_nan_witness :
    ¬ ∀ x y z : Term, Order.compare x y = .eq → Order.compare y z = .eq → Order.compare x z = .eq := by
  intro h
  have := h (.flt 0x3FF0000000000000) (.flt 0x7FF8000000000001) (.flt 0x4000000000000000)
    (by decide +kernel) (by decide +kernel)
  revert this
  decide +kernel

/-- "structurally identical modulo float ==" made concrete: two NaN-free terms are identical iff
    they are EQUAL after every -0.0 is replaced by 0.0.  So `compare` answers `=` exactly when the
    canonical forms coincide. -/
theorem compare_eq_iff_canonical (x y : Term) (hx : noNaN x = true) (hy : noNaN y = true) :
    Order.compare x y = .eq ↔ normZero x = normZero y := by
  rw [compare_refl_iff_identical x y hx hy]
  exact identical_iff_normZero x y hx hy

/-- **compare_var_order_independent**: the ONLY implementation-dependent part of the order is the
    relative order of two distinct unbound variables: if the comparison of `x` and `y` does not
    reach such a pair before it is decided (`hingesOnVars`), the outcome is the same under every
    renumbering `ρ` of the variables (order preserving or not, injective or not). -/
theorem compare_var_order_independent (ρ : Nat → Nat) (x y : Term)
    (hx : noNaN x = true) (hy : noNaN y = true) (h : hingesOnVars x y = false) :
    Order.compare (renameVars ρ x) (renameVars ρ y) = Order.compare x y := by
  rw [compare_eq_spec x y hx hy,
    compare_eq_spec _ _ (by rw [noNaN_rename]; exact hx) (by rw [noNaN_rename]; exact hy)]
  exact std_rename ρ x y hx hy h

/-- **compare_type_order**: Var < Float < Integer < Atom < stream < Compound, for ALL terms;
    in particular `1.0 @< 1` (by type, not by value). -/
theorem compare_type_order (x y : Term) (h : rank x < rank y) : Order.compare x y = .lt := by
  cases x <;> cases y <;>
    simp [rank] at h <;>
    simp [Order.compare, compareVar, compareFloat, compareInt, compareAtom, compareStream]

/-- **compare_compound**: compounds by arity, then by name (text), then by the arguments left to
    right: the first argument pair that is not `=` decides.  For ALL terms. -/
theorem compare_compound (f g : String) (as bs : Args) :
    (as.length < bs.length → Order.compare (.app f as) (.app g bs) = .lt) ∧
    (as.length = bs.length → cmpCodePoints f.toList g.toList = .lt →
      Order.compare (.app f as) (.app g bs) = .lt) ∧
    (as.length = bs.length → f = g → Order.compare (.app f as) (.app g bs) = compareArgs as bs) ∧
    (∀ a b as' bs', compareArgs (.cons a as') (.cons b bs') =
      if Order.compare a b = .eq then compareArgs as' bs' else Order.compare a b) := by
  refine ⟨?_, ?_, ?_, ?_⟩
  · intro h
    simp [Order.compare, cmpNat_eq, cmpOfLt_nat_lt.mpr h, Ordering.then]
  · intro h1 h2
    simp [Order.compare, cmpNat_eq, cmpOfLt_nat_eq.mpr h1, Ordering.then, cmpText_eq, h2]
  · intro h1 h2
    subst h2
    simp [Order.compare, cmpNat_eq, cmpOfLt_nat_eq.mpr h1, Ordering.then, cmpText_lawful.refl]
  · intro a b as' bs'
    simp only [compareArgs]
    cases Order.compare a b <;> simp [Ordering.then]

/-- **atom_order_is_codepoint_lex**: Go's byte-wise `strings.Compare` on the UTF-8 texts of two atoms
    is the lexicographic order of their code points (a proper prefix is smaller); the bytes are the
    ones Lean's `String` stores. -/
theorem atom_order_is_codepoint_lex (a b : String) :
    Order.compare (.atom a) (.atom b) = cmpCodePoints a.toList b.toList ∧
    utf8 a = a.toByteArray.data.toList := by
  exact ⟨by simp [Order.compare, compareAtom, cmpText_eq], utf8_eq_toByteArray a⟩

/-! ### compare/3 and the six operators -/

/-- compare/3 with an unbound first argument binds it to the outcome; with `<`, `=`, `>` it
    succeeds iff that is the outcome; anything else is the ISO error. -/
theorem compare3_spec (o t1 t2 : Term) :
    (∀ v, o = .var v → compare3 o t1 t2 = .ok (some (orderAtom (Order.compare t1 t2)))) ∧
    (∀ c, c = .lt ∨ c = .eq ∨ c = .gt → o = orderAtom c →
      compare3 o t1 t2 = .ok (if Order.compare t1 t2 = c then some o else none)) := by
  constructor
  · intro v h; subst h; rfl
  · intro c _ h; subst h
    cases c <;> cases h : Order.compare t1 t2 <;> simp [compare3, orderAtom, h]

def headName : Term → Option String
  | .app ":-" (.cons (.app h _) _) => some h
  | .app h _ => some h
  | _ => none

def isOrderOp (n : String) : Bool := n ∈ ["@<", "@=<", "@>", "@>=", "==", "\\=="]

/-- **tie**: the clauses of bootstrap.pl (regenerated from the source by the real parser on every
    run) whose head is one of the six operators are exactly the clauses the model evaluates. -/
theorem bootstrap_order_clauses_tied :
    Generated.bootstrapTerms.filter (fun t => (headName t).any isOrderOp) = orderClauses := by
  decide +kernel

/-- the comparison hinges on the order of two distinct unbound variables at top level — the case
    the property leaves implementation dependent for calls through a clause head -/
def TopVars (t1 t2 : Term) : Prop := ∃ a b, t1 = .var a ∧ t2 = .var b ∧ a ≠ b

/-- the renaming done by the head unification does not change the outcome unless both arguments
    are distinct unbound variables -/
theorem headArgs_compare (n : Nat) (t1 t2 : Term) (h : ¬ TopVars t1 t2) :
    Order.compare (headArgs n t1 t2).1 (headArgs n t1 t2).2 = Order.compare t1 t2 := by
  cases t1 <;> cases t2 <;>
    simp [headArgs, Order.compare, compareVar, compareFloat, compareInt, compareAtom, compareStream]
  rename_i a b
  by_cases e : a = b
  · simp [e, cmpNat, Order.compare, compareVar]
  · exact absurd ⟨a, b, rfl, rfl, e⟩ h

/-- **order_ops_from_compare**: through the tied bootstrap clauses each of the six operators
    succeeds exactly once or not at all, according to the outcome of `compare`:
    `X @< Y ⇔ <`, `X @=< Y ⇔ not >`, `X @> Y ⇔ >`, `X @>= Y ⇔ not <`, `X == Y ⇔ =`, `X \== Y ⇔ not =`
    — unless the call passes two distinct unbound variables at top level. -/
theorem order_ops_from_compare (n : Nat) (t1 t2 : Term) (h : ¬ TopVars t1 t2) :
    callOrderOp n "@<" t1 t2 = some (if Order.compare t1 t2 = .lt then 1 else 0) ∧
    callOrderOp n "@=<" t1 t2 = some (if Order.compare t1 t2 ≠ .gt then 1 else 0) ∧
    callOrderOp n "@>" t1 t2 = some (if Order.compare t1 t2 = .gt then 1 else 0) ∧
    callOrderOp n "@>=" t1 t2 = some (if Order.compare t1 t2 ≠ .lt then 1 else 0) ∧
    callOrderOp n "==" t1 t2 = some (if Order.compare t1 t2 = .eq then 1 else 0) ∧
    callOrderOp n "\\==" t1 t2 = some (if Order.compare t1 t2 ≠ .eq then 1 else 0) := by
  have := callOrderOp_eq n t1 t2
  simp only [headArgs_compare n t1 t2 h] at this
  exact this

/-- the implementation-dependent case made explicit: two distinct unbound variables passed to an
    operator are renamed by the head unification in argument order, so the FIRST one is smaller
    whatever their age (`X @< Y` and `Y @< X` both hold); `==`/`\==` are not affected. -/
theorem order_ops_distinct_vars (n a b : Nat) (h : a ≠ b) :
    callOrderOp n "@<" (.var a) (.var b) = some 1 ∧ callOrderOp n "@=<" (.var a) (.var b) = some 1 ∧
    callOrderOp n "@>" (.var a) (.var b) = some 0 ∧ callOrderOp n "@>=" (.var a) (.var b) = some 0 ∧
    callOrderOp n "==" (.var a) (.var b) = some 0 ∧ callOrderOp n "\\==" (.var a) (.var b) = some 1 := by
  have hc : Order.compare (.var n) (.var (n + 1)) = .lt := by
    simp [Order.compare, compareVar, cmpNat]
  have := callOrderOp_eq n (.var a) (.var b)
  simp only [headArgs, h, if_false, hc] at this
  simpa using this

/-! ### sort/2 = `Env.set` -/

/-- **set_spec**: whatever arrangement `p` of the elements `sort.Slice` produces — ANY permutation
    that is ascending w.r.t. the order — removing adjacent duplicates yields a strictly ascending
    list with the same elements up to `=`; and that list is unique up to `=`: any other strictly
    ascending list with the same elements is element-wise `=` to it.  So the answer of sort/2 does
    not depend on Go's sorting algorithm. -/
theorem set_spec (ts p : List Term) (hn : ∀ t ∈ ts, noNaN t = true)
    (hp : p.Perm ts) (ha : Ascending Order.compare p) :
    IsSetOf Order.compare ts (dedupAdjacent Order.compare p) ∧
    ∀ r, (∀ t ∈ r, noNaN t = true) → IsSetOf Order.compare ts r →
      EqvLists Order.compare (dedupAdjacent Order.compare p) r := by
  have hnp : ∀ t ∈ p, noNaN t = true := fun t ht => hn t (hp.mem_iff.mp ht)
  have L := stdCompare_lawful
  -- move to the specification order on these NaN-free lists
  have ha' : Ascending stdCompare p := (ascending_congr p (compare_eq_std_on p hnp)).mp ha
  obtain ⟨s1, s2⟩ := dedupAdjacent_spec L p ha'
  have hsame : SameElems stdCompare ts (dedupAdjacent stdCompare p) :=
    sameElems_trans L (sameElems_of_perm L hp.symm) s2
  have hnd : ∀ t ∈ dedupAdjacent stdCompare p, noNaN t = true :=
    fun t ht => hnp t (mem_of_mem_dedupFrom stdCompare p none t ht)
  have toStd : ∀ r, (∀ t ∈ r, noNaN t = true) →
      (IsSetOf Order.compare ts r ↔ IsSetOf stdCompare ts r) := fun r hr =>
    isSetOf_congr ts r (fun x hx y hy =>
      compare_eq_std x y (hx.elim (hn x) (hr x)) (hr y hy))
  rw [dedupAdjacent_congr p (compare_eq_std_on p hnp)]
  refine ⟨(toStd _ hnd).mpr ⟨s1, hsame⟩, ?_⟩
  intro r hr hset
  have hset' := (toStd r hr).mp hset
  rw [eqvLists_congr _ r (fun x hx y hy => compare_eq_std x y (hnd x hx) (hr y hy))]
  exact strictAscending_unique L _ r s1 hset'.1 (sameElems_trans L (sameElems_symm L hsame) hset'.2)

/-- the `less` function the engine hands to `sort.Slice` (`ts[i].Compare(ts[j], e) == -1`) -/
def less (x y : Term) : Prop := Order.compare x y = .lt

/-- **less_strict_weak_order**: on NaN-free terms `less` is a strict weak order — irreflexive,
    transitive, and with a transitive incomparability relation (which is `=`).  This is the
    PRECONDITION under which `sort.Slice`/`sort.SliceStable` promise a sorted result, so the
    engine uses the library inside its contract. -/
theorem less_strict_weak_order (x y z : Term)
    (hx : noNaN x = true) (hy : noNaN y = true) (hz : noNaN z = true) :
    ¬ less x x ∧
    (less x y → less y z → less x z) ∧
    ((¬ less x y ∧ ¬ less y x) → (¬ less y z ∧ ¬ less z y) → (¬ less x z ∧ ¬ less z x)) ∧
    ((¬ less x y ∧ ¬ less y x) ↔ Order.compare x y = .eq) := by
  unfold less
  have t := compare_trans x y z hx hy hz
  have inc : ∀ a b : Term, (¬ Order.compare a b = .lt ∧ ¬ Order.compare b a = .lt) ↔ Order.compare a b = .eq := by
    intro a b
    rw [compare_antisymm a b]
    cases Order.compare a b <;> simp [Ordering.swap]
  refine ⟨by rw [compare_refl]; simp, t.1, ?_, inc x y⟩
  intro h1 h2
  rw [inc] at h1 h2 ⊢
  rw [t.2.2.1 h1, h2]

/-- the contract of Go's `sort.Slice` on the input `ts`: the result is a permutation of `ts` that is
    ascending w.r.t. `less(i, j) := ts[i].Compare(ts[j]) == -1` -/
def SliceContract (sorter : List Term → List Term) (ts : List Term) : Prop :=
  (sorter ts).Perm ts ∧ Ascending Order.compare (sorter ts)

/-- **set_algorithm_independent**: two sorting procedures that both meet the `sort.Slice` contract
    give sort/2 answers that are element-wise `=` (identical modulo float ==): which of `0.0`/`-0.0`
    survives is all an algorithm can influence. -/
theorem set_algorithm_independent (s1 s2 : List Term → List Term) (ts : List Term)
    (hn : ∀ t ∈ ts, noNaN t = true) (h1 : SliceContract s1 ts) (h2 : SliceContract s2 ts) :
    EqvLists Order.compare (Order.set s1 ts) (Order.set s2 ts) := by
  have a := set_spec ts (s1 ts) hn h1.1 h1.2
  have b := set_spec ts (s2 ts) hn h2.1 h2.2
  apply a.2 _ _ b.1
  intro t ht
  exact hn t (h2.1.mem_iff.mp (mem_of_mem_dedupFrom _ _ none t ht))

/-- the model's executable sorter (stable insertion sort) meets the `sort.Slice` contract -/
theorem insertionSort_contract (ts : List Term) (hn : ∀ t ∈ ts, noNaN t = true) :
    SliceContract (insertionSort Order.compare) ts := by
  refine ⟨insertionSort_perm ts, ?_⟩
  rw [insertionSort_congr ts (compare_eq_std_on ts hn)]
  have hs : ∀ t ∈ insertionSort stdCompare ts, noNaN t = true :=
    fun t ht => hn t ((insertionSort_perm ts).mem_iff.mp ht)
  rw [ascending_congr _ (compare_eq_std_on _ hs)]
  exact insertionSort_ascending stdCompare_lawful ts

/-- the model's executable sorter meets the contract, so the model's `sort/2` answer is a
    strictly ascending list with the same elements -/
theorem set_model (ts : List Term) (hn : ∀ t ∈ ts, noNaN t = true) :
    IsSetOf Order.compare ts (Order.set (insertionSort Order.compare) ts) :=
  (set_spec ts _ hn (insertionSort_contract ts hn).1 (insertionSort_contract ts hn).2).1

/-- the answer of sort/2 only contains elements of the input (so it is NaN-free when the input is) -/
theorem noNaN_of_set {s : List Term → List Term} {ts : List Term} (hn : ∀ t ∈ ts, noNaN t = true)
    (h : SliceContract s ts) : ∀ t ∈ Order.set s ts, noNaN t = true :=
  fun t ht => hn t (h.1.mem_iff.mp (mem_of_mem_dedupFrom _ _ none t ht))

/-- **sort_idempotent**: sorting a sort/2 answer again (with any contract-abiding sorter) changes nothing. -/
theorem sort_idempotent (s1 s2 : List Term → List Term) (ts : List Term)
    (hn : ∀ t ∈ ts, noNaN t = true) (h1 : SliceContract s1 ts) (h2 : SliceContract s2 (Order.set s1 ts)) :
    Order.set s2 (Order.set s1 ts) = Order.set s1 ts := by
  have hstrict := (set_spec ts (s1 ts) hn h1.1 h1.2).1.1
  have hn1 := noNaN_of_set hn h1
  change StrictAscending Order.compare (Order.set s1 ts) at hstrict
  generalize Order.set s1 ts = r at *
  have hr := compare_eq_std_on r hn1
  have hstrict' := (strictAscending_congr r hr).mp hstrict
  have hn2 : ∀ t ∈ s2 r, noNaN t = true := fun t ht => hn1 t (h2.1.mem_iff.mp ht)
  have hasc := (ascending_congr _ (compare_eq_std_on _ hn2)).mp h2.2
  have e : s2 r = r := ascending_perm_of_strict r (s2 r) hstrict' h2.1 hasc
  unfold Order.set
  rw [e, dedupAdjacent_congr r hr]
  exact dedupAdjacent_of_strict r hstrict'

/-- **sort_perm_invariant**: the answer of sort/2 depends only on the multiset of elements
    (element-wise `=`, i.e. identical modulo float ==). -/
theorem sort_perm_invariant (s : List Term → List Term) (ts us : List Term)
    (hn : ∀ t ∈ ts, noNaN t = true) (hp : us.Perm ts)
    (h1 : SliceContract s ts) (h2 : SliceContract s us) :
    EqvLists Order.compare (Order.set s ts) (Order.set s us) := by
  have a := set_spec ts (s ts) hn h1.1 h1.2
  have b := set_spec ts (s us) hn (h2.1.trans hp) h2.2
  apply a.2 _ _ b.1
  intro t ht
  exact hn t ((h2.1.trans hp).mem_iff.mp (mem_of_mem_dedupFrom _ _ none t ht))

/-- element-wise `=` is element-wise structural identity -/
theorem eqvLists_identical : ∀ (l r : List Term), (∀ t ∈ l, noNaN t = true) → (∀ t ∈ r, noNaN t = true) →
    EqvLists Order.compare l r → l.length = r.length ∧ ∀ p ∈ l.zip r, identical p.1 p.2 = true
  | [], [], _, _, _ => by simp
  | [], _ :: _, _, _, h => h.elim
  | _ :: _, [], _, _, h => h.elim
  | a :: l, b :: r, hl, hr, h => by
    obtain ⟨ih1, ih2⟩ := eqvLists_identical l r (fun t ht => hl t (by simp [ht]))
      (fun t ht => hr t (by simp [ht])) h.2
    refine ⟨by simp [ih1], ?_⟩
    intro p hp
    simp only [List.zip_cons_cons, List.mem_cons] at hp
    rcases hp with rfl | hp
    · exact (compare_refl_iff_identical a b (hl a (by simp)) (hr b (by simp))).mp h.1
    · exact ih2 p hp

/-- **set_canonical**: with every -0.0 printed as 0.0 (the canonical form of `=`), the answer of
    sort/2 is the SAME list for every sorting procedure that meets the contract — this is the
    canonicalisation the correspondence stream `c08.sort` applies to both sides. -/
theorem set_canonical (s1 s2 : List Term → List Term) (ts : List Term)
    (hn : ∀ t ∈ ts, noNaN t = true) (h1 : SliceContract s1 ts) (h2 : SliceContract s2 ts) :
    (Order.set s1 ts).map normZero = (Order.set s2 ts).map normZero := by
  have e := set_algorithm_independent s1 s2 ts hn h1 h2
  have n1 := noNaN_of_set hn h1
  have n2 := noNaN_of_set hn h2
  revert e n1 n2
  generalize Order.set s1 ts = l
  generalize Order.set s2 ts = r
  intro e n1 n2
  induction l generalizing r with
  | nil => cases r <;> simp_all [EqvLists]
  | cons a l ih =>
    cases r with
    | nil => simp_all [EqvLists]
    | cons b r =>
      simp only [List.map_cons, List.cons.injEq]
      exact ⟨(compare_eq_iff_canonical a b (n1 a (by simp)) (n2 b (by simp))).mp e.1,
        ih r e.2 (fun t ht => n1 t (by simp [ht])) (fun t ht => n2 t (by simp [ht]))⟩

/-! ### keysort/2 -/

/-- **keysort_spec**: `sort.SliceStable` is specified to return a stable sort by key; ANY list that
    is a stable sort of the pairs by key (ascending permutation keeping the relative order of pairs
    with `=` keys) IS the model's answer — stability determines the result completely. -/
theorem keysort_spec (l r : List Term) (hn : ∀ t ∈ l, noNaN (keyOf t) = true)
    (h : IsStableSortOf cmpKey l r) : r = insertionSort cmpKey l := by
  let sk : Term → Term → Ordering := fun x y => stdCompare (keyOf x) (keyOf y)
  have L : Lawful sk := stdCompare_lawful.pullback keyOf
  have hnr : ∀ t ∈ r, noNaN (keyOf t) = true := fun t ht => hn t (h.1.mem_iff.mp ht)
  have e : ∀ x, (x ∈ l ∨ x ∈ r) → ∀ y, (y ∈ l ∨ y ∈ r) → cmpKey x y = sk x y :=
    fun x hx y hy => compare_eq_std _ _ (hx.elim (hn x) (hnr x)) (hy.elim (hn y) (hnr y))
  have h' := (isStableSortOf_congr l r e).mp h
  rw [stableSort_unique L l r h']
  exact (insertionSort_congr l (fun x hx y hy => e x (Or.inl hx) y (Or.inl hy))).symm

/-- and the model's answer is a stable sort by key -/
theorem keysort_model (l : List Term) (hn : ∀ t ∈ l, noNaN (keyOf t) = true) :
    IsStableSortOf cmpKey l (insertionSort cmpKey l) := by
  let sk : Term → Term → Ordering := fun x y => stdCompare (keyOf x) (keyOf y)
  have L : Lawful sk := stdCompare_lawful.pullback keyOf
  have e : ∀ x ∈ l, ∀ y ∈ l, cmpKey x y = sk x y :=
    fun x hx y hy => compare_eq_std _ _ (hn x hx) (hn y hy)
  rw [insertionSort_congr l e]
  have hm : ∀ t, t ∈ insertionSort sk l → t ∈ l := fun t ht => (insertionSort_perm l).mem_iff.mp ht
  apply (isStableSortOf_congr l _ _).mpr (insertionSort_stable L l)
  intro x hx y hy
  exact compare_eq_std _ _ (hn x (hx.elim id (hm x))) (hn y (hy.elim id (hm y)))

/-! ### the built-ins' argument checks -/

/-- sort/2 on a proper list with an unbound second argument answers `set` of the elements;
    a partial list is an instantiation error. -/
theorem sort_builtin (sorter : List Term → List Term) (xs : List Term) (v : Nat) :
    Order.sort sorter (Term.list xs) (.var v) = .ok (Term.list (Order.set sorter xs)) ∧
    Order.sort sorter (Term.list xs (.var v)) (.var v) = .error instErr := by
  constructor
  · simp only [Order.sort, listElems, listEnd, spine_list_nil, bind, Except.bind, pure, Except.pure]
    simp [Term.nilT, Term.spine]
  · simp [Order.sort, listElems, listEnd, spine_list_var, bind, Except.bind]

/-- keysort/2 on a proper list of pairs with an unbound second argument answers the pairs as
    arranged by the stable sorter; an unbound element is an instantiation error and any other
    non-pair a `type_error(pair, E)`. -/
theorem keysort_builtin (sorter : List Term → List Term) (xs : List Term) (v : Nat) :
    (checkPairs xs = .ok () →
      Order.keysort sorter (Term.list xs) (.var v) = .ok (Term.list (sorter xs))) ∧
    (∀ e, checkPairs xs = .error e → Order.keysort sorter (Term.list xs) (.var v) = .error e) := by
  constructor
  · intro h
    simp only [Order.keysort, listEnd, spine_list_nil, bind, Except.bind, pure, Except.pure]
    simp [Term.nilT, h]
  · intro e h
    simp only [Order.keysort, listEnd, spine_list_nil, bind, Except.bind, pure, Except.pure]
    simp [Term.nilT, h]

/-! ### non-vacuity -/

example : noNaN (Term.list [.flt 0x3FF0000000000000, .atom "a", .var 3]) = true := by decide +kernel
example : hingesOnVars (Term.a2 "f" (.atom "a") (.var 1)) (Term.a2 "f" (.atom "b") (.var 2)) = false := by
  decide +kernel                               -- decided at the first argument, the variables are never reached
example : hingesOnVars (Term.a2 "f" (.var 1) (.atom "a")) (Term.a2 "f" (.var 2) (.atom "b")) = true := by
  decide +kernel
example : SliceContract (insertionSort Order.compare) [.atom "b", .flt 0, .atom "a", .var 2] :=
  insertionSort_contract _ (by decide +kernel)
example : normZero (Term.a1 "f" (.flt 0x8000000000000000)) = Term.a1 "f" (.flt 0) := by decide +kernel
example : Order.compare (.int 1) (.flt 0x3FF0000000000000) = .gt := by decide +kernel   -- 1 vs 1.0: by type
example : Order.compare (.flt 0) (.flt 0x8000000000000000) = .eq := by decide +kernel  -- 0.0 vs -0.0
example : identical (.flt 0) (.flt 0x8000000000000000) = true := by decide +kernel
example : Order.compare (.atom "ab") (.atom "abc") = .lt := by decide +kernel
example : Order.compare (.atom "é") (.atom "z") = .gt := by decide +kernel
example : Order.compare (Term.a2 "f" (.atom "b") (.atom "a")) (Term.a1 "g" (.atom "z")) = .gt := by decide +kernel
example : ¬ TopVars (.var 1) (Term.a1 "f" (.var 2)) := by
  rintro ⟨a, b, _, h, _⟩; cases h
example : Order.set (insertionSort Order.compare) [.atom "b", .int 2, .atom "a", .int 2, .var 1]
    = [.var 1, .int 2, .atom "a", .atom "b"] := by decide +kernel
example : insertionSort cmpKey [Term.a2 "-" (.int 2) (.atom "x"), Term.a2 "-" (.int 1) (.atom "y"),
      Term.a2 "-" (.int 2) (.atom "a")]
    = [Term.a2 "-" (.int 1) (.atom "y"), Term.a2 "-" (.int 2) (.atom "x"), Term.a2 "-" (.int 2) (.atom "a")] := by
  decide +kernel
example : IsStableSortOf cmpKey [Term.a2 "-" (.int 2) (.atom "x"), Term.a2 "-" (.int 1) (.atom "y")]
    [Term.a2 "-" (.int 1) (.atom "y"), Term.a2 "-" (.int 2) (.atom "x")] := by
  refine ⟨List.Perm.swap _ _ _, by unfold Ascending; decide +kernel, ?_⟩
  intro x hx
  simp only [List.mem_cons, List.not_mem_nil, or_false] at hx
  rcases hx with rfl | rfl <;> decide +kernel

end PrologVerif.C08
