package main

// Generator-side reference interpreter for the c01/c03/c04 answer streams.
//
// This is NOT the oracle (the oracle is lean/PrologVerif/Spec/SLD.lean, run by the driver on every
// case).  It is a line-by-line Go transcription of that specification, instrumented, and is used only
//   * by the generators, to screen candidates: programs whose search exceeds the step budget, or that
//     meet a unification subject to occurs check (undefined in ISO 7.3.3; the engine builds a cyclic
//     term there and later overflows the Go stack on it, see DESIGN §7 / C05), are discarded;
//   * by the runner, to compute the tags of a case (non-trivial by the stream's rule, ISO vs engine
//     cut transparency, size buckets).
// A bug here can skew the input distribution, never a verdict.

import (
	"fmt"
	"strconv"
	"strings"
)

// ---------------------------------------------------------------------------
// terms
// ---------------------------------------------------------------------------

func refMk2(f string, a, b *gt) *gt { return gApp(f, a, b) }
func refCall1(g *gt) *gt          { return gApp("call", g) }
func refRule(h, b *gt) *gt        { return gApp(":-", h, b) }
func refITE(c, t, e *gt) *gt      { return gApp(";", gApp("->", c, t), e) }
func refErrorT(formal *gt) *gt    { return gApp("error", formal, gVar(0)) }
func refInstErr() *gt             { return refErrorT(gAtom("instantiation_error")) }
func refTypeErr(ty string, culprit *gt) *gt {
	return refErrorT(gApp("type_error", gAtom(ty), culprit))
}
func refExistenceErr(name string, arity int) *gt {
	return refErrorT(gApp("existence_error", gAtom("procedure"), gApp("/", gAtom(name), gInt(int64(arity)))))
}

func (t *gt) is(f string, n int) bool {
	if n == 0 {
		return t.kind == "atom" && t.s == f
	}
	return t.kind == "app" && t.s == f && len(t.args) == n
}

func refFunctor(t *gt) (string, []*gt, bool) {
	switch t.kind {
	case "atom":
		return t.s, nil, true
	case "app":
		return t.s, t.args, true
	}
	return "", nil, false
}

func refMk(f string, args []*gt) *gt {
	if len(args) == 0 {
		return gAtom(f)
	}
	return gApp(f, args...)
}

func refMaxVar(t *gt) int {
	if t.kind == "var" {
		return t.v + 1
	}
	m := 0
	for _, a := range t.args {
		if k := refMaxVar(a); k > m {
			m = k
		}
	}
	return m
}

func refShift(k int, t *gt) *gt {
	switch t.kind {
	case "var":
		return gVar(t.v + k)
	case "app":
		args := make([]*gt, len(t.args))
		for i, a := range t.args {
			args[i] = refShift(k, a)
		}
		return gApp(t.s, args...)
	}
	return t
}

// refCanon renames variables by first occurrence starting at base.
func refCanon(t *gt, base int, seen map[int]int) *gt {
	switch t.kind {
	case "var":
		n, ok := seen[t.v]
		if !ok {
			n = len(seen)
			seen[t.v] = n
		}
		return gVar(base + n)
	case "app":
		args := make([]*gt, len(t.args))
		for i, a := range t.args {
			args[i] = refCanon(a, base, seen)
		}
		return gApp(t.s, args...)
	}
	return t
}

func refFreshen(t *gt, nv int) (*gt, int) {
	seen := map[int]int{}
	c := refCanon(t, nv, seen)
	return c, nv + len(seen)
}

func refEqual(a, b *gt) bool {
	if a.kind != b.kind {
		return false
	}
	switch a.kind {
	case "var":
		return a.v == b.v
	case "atom":
		return a.s == b.s
	case "int":
		return a.i == b.i
	case "flt":
		return a.f == b.f
	}
	if a.s != b.s || len(a.args) != len(b.args) {
		return false
	}
	for i := range a.args {
		if !refEqual(a.args[i], b.args[i]) {
			return false
		}
	}
	return true
}

func refHeadBody(c *gt) (*gt, *gt) {
	if c.is(":-", 2) {
		return c.args[0], c.args[1]
	}
	return c, gAtom("true")
}

func refWrapVar(t *gt) *gt {
	if t.kind == "var" {
		return refCall1(t)
	}
	return t
}

func refConjuncts(t *gt) []*gt {
	// the leaves of the ','/2 tree (a conjunction is transparent to cut however it is nested)
	if t.is(",", 2) {
		return append(refConjuncts(t.args[0]), refConjuncts(t.args[1])...)
	}
	return []*gt{refWrapVar(t)}
}

func refDisjuncts(t *gt) []*gt {
	var out []*gt
	for t.is(";", 2) {
		if t.args[0].is("->", 2) {
			break
		}
		out = append(out, t.args[0])
		t = t.args[1]
	}
	return append(out, t)
}

func refIsCtl(t *gt) bool { return t.is(",", 2) || t.is(";", 2) || t.is("->", 2) }

func refConvert(t *gt) *gt {
	if t.kind == "var" {
		return refCall1(t)
	}
	if refIsCtl(t) {
		return gApp(t.s, refConvert(t.args[0]), refConvert(t.args[1]))
	}
	return t
}

func refIsGoal(t *gt) bool { return t.kind == "var" || t.kind == "atom" || t.kind == "app" }

func refOkBodyIso(t *gt) bool {
	if refIsCtl(t) {
		return refOkBodyIso(t.args[0]) && refOkBodyIso(t.args[1])
	}
	return refIsGoal(t)
}

func refOkBody(iso bool, b *gt) bool {
	if iso {
		return refOkBodyIso(b)
	}
	for _, d := range refDisjuncts(b) {
		for _, c := range refConjuncts(d) {
			if !refIsGoal(c) {
				return false
			}
		}
	}
	return true
}

func refSplitClause(c *gt) []*gt {
	h, b := refHeadBody(c)
	var out []*gt
	for _, d := range refDisjuncts(b) {
		out = append(out, refRule(h, d))
	}
	return out
}

var refLibrary = []*gt{
	gApp("member", gVar(0), gApp(".", gVar(0), gVar(1))),
	refRule(gApp("member", gVar(0), gApp(".", gVar(1), gVar(2))), gApp("member", gVar(0), gVar(2))),
	gApp("append", gAtom("[]"), gVar(0), gVar(0)),
	refRule(gApp("append", gApp(".", gVar(0), gVar(1)), gVar(2), gApp(".", gVar(0), gVar(3))), gApp("append", gVar(1), gVar(2), gVar(3))),
}

// ---------------------------------------------------------------------------
// unification with occurs check (idempotent result applied by refApply)
// ---------------------------------------------------------------------------

type refSubst struct {
	m    map[int]*gt
	work *int // term nodes visited (budgeted: terms share subterms, their size as trees can explode)
}

func (th refSubst) tick() {
	*th.work++
	if *th.work > refMaxWork {
		panic(refAbort{"size"})
	}
}

func (th refSubst) walk(t *gt) *gt {
	for t.kind == "var" {
		u, ok := th.m[t.v]
		if !ok {
			return t
		}
		t = u
	}
	return t
}

func (th refSubst) occurs(v int, t *gt) bool {
	th.tick()
	t = th.walk(t)
	if t.kind == "var" {
		return t.v == v
	}
	for _, a := range t.args {
		if th.occurs(v, a) {
			return true
		}
	}
	return false
}

const (
	refOK = iota
	refFail
	refSTO
)

func (th refSubst) unify(a, b *gt) int {
	th.tick()
	a, b = th.walk(a), th.walk(b)
	if a.kind == "var" && b.kind == "var" && a.v == b.v {
		return refOK
	}
	if a.kind == "var" {
		if th.occurs(a.v, b) {
			return refSTO
		}
		th.m[a.v] = b
		return refOK
	}
	if b.kind == "var" {
		if th.occurs(b.v, a) {
			return refSTO
		}
		th.m[b.v] = a
		return refOK
	}
	if a.kind != b.kind {
		return refFail
	}
	switch a.kind {
	case "atom":
		if a.s != b.s {
			return refFail
		}
		return refOK
	case "int":
		if a.i != b.i {
			return refFail
		}
		return refOK
	case "flt":
		if a.f != b.f {
			return refFail
		}
		return refOK
	}
	if a.s != b.s || len(a.args) != len(b.args) {
		return refFail
	}
	for i := range a.args {
		if st := th.unify(a.args[i], b.args[i]); st != refOK {
			return st
		}
	}
	return refOK
}

func (th refSubst) apply(t *gt) *gt {
	if len(th.m) == 0 {
		return t
	}
	th.tick()
	t = th.walk(t)
	if t.kind != "app" {
		return t
	}
	args := make([]*gt, len(t.args))
	changed := false
	for i, a := range t.args {
		args[i] = th.apply(a)
		if args[i] != a {
			changed = true
		}
	}
	if !changed {
		return t
	}
	return gApp(t.s, args...)
}

// ---------------------------------------------------------------------------
// the search (see Spec/SLD.lean: solve / solveAlts)
// ---------------------------------------------------------------------------

type refFrame struct {
	g         *gt
	level     int
	exitCatch bool
	depth     int
	implicit  bool // the cut that if-then-else / once / \+ put after their condition
}

const (
	stopExhausted = iota
	stopCut
	stopRaised
	stopFull
)

type refRes struct {
	answers []*gt
	stop    int
	level   int   // stopCut
	ball    *gt   // stopRaised
	exited  []int // stopRaised
}

type refAlt struct {
	clause *gt // resolve goal with this clause
	goal   *gt
	frames []refFrame
}

type refAbort struct{ why string }

type refInterp struct {
	iso      bool
	prog     []*gt
	steps    int
	maxSteps int
	rdepth   int
	maxRD    int
	maxSize  int
	// instrumentation
	pending         []int // per depth: alternatives not yet tried
	cutPending      int   // cuts written in the program executed while an alternative was pending in their scope
	cutsRun         int
	failedAfterHead int // clause alternatives that failed after a successful head unification
	throws          int
	crossExited     int // a ball passed a catch/3 whose goal had exited
	crossNoMatch    int // a ball passed a catch/3 whose catcher did not unify
	caught          int
	caughtAfterRedo int          // a ball caught by a catch/3 whose goal had exited before and was re-entered
	exitSeen        map[int]bool // per catch depth: its goal has exited at least once
	peakRD          int
	work            int
}

func refSubstFrames(th refSubst, fs []refFrame) []refFrame {
	out := make([]refFrame, len(fs))
	for i, f := range fs {
		if !f.exitCatch {
			f.g = th.apply(f.g)
		}
		out[i] = f
	}
	return out
}

func refGoalFrames(gs []*gt, l int) []refFrame {
	out := make([]refFrame, len(gs))
	for i, g := range gs {
		out[i] = refFrame{g: g, level: l}
	}
	return out
}

func refCat(a, b []refFrame) []refFrame {
	out := make([]refFrame, 0, len(a)+len(b))
	out = append(out, a...)
	return append(out, b...)
}

func (ri *refInterp) bodyFrames(b *gt, d int) []refFrame {
	if ri.iso {
		return []refFrame{{g: refConvert(b), level: d}}
	}
	return refGoalFrames(refConjuncts(b), d)
}

func (ri *refInterp) bodyAlts(b *gt, d int) []refAlt {
	if ri.iso {
		return []refAlt{{frames: ri.bodyFrames(b, d)}}
	}
	var out []refAlt
	for _, x := range refDisjuncts(b) {
		out = append(out, refAlt{frames: ri.bodyFrames(x, d)})
	}
	return out
}

func refRaise(ball *gt) refRes { return refRes{stop: stopRaised, ball: ball} }

// refSizeOver: does the term (as a tree) have more than limit nodes?
func refSizeOver(t *gt, limit int) bool {
	var count func(t *gt) bool
	n := 0
	count = func(t *gt) bool {
		n++
		if n > limit {
			return true
		}
		for _, a := range t.args {
			if count(a) {
				return true
			}
		}
		return false
	}
	return count(t)
}

func (ri *refInterp) checkSize(ts ...*gt) {
	for _, t := range ts {
		if refSizeOver(t, ri.maxSize) {
			panic(refAbort{"size"})
		}
	}
}

func (ri *refInterp) tick() {
	ri.steps++
	if ri.steps > ri.maxSteps {
		panic(refAbort{"steps"})
	}
	if ri.rdepth > ri.maxRD {
		panic(refAbort{"depth"})
	}
	if ri.rdepth > ri.peakRD {
		ri.peakRD = ri.rdepth
	}
}

func (ri *refInterp) unify(a, b *gt) (refSubst, int) {
	th := refSubst{m: map[int]*gt{}, work: &ri.work}
	st := th.unify(a, b)
	if st == refSTO {
		panic(refAbort{"sto"})
	}
	return th, st
}

type refStep struct {
	kind  int // 0 unify, 1 raise, 2 goals
	a, b  *gt
	goals [][]*gt
}

func refTest(b bool) *refStep {
	if b {
		return &refStep{kind: 2, goals: [][]*gt{{}}}
	}
	return &refStep{kind: 2}
}

func refIsPartialList(t *gt) bool {
	_, tail := t.spine()
	return tail.kind == "var" || tail.is("[]", 0)
}

func refBuiltin(f string, args []*gt) *refStep {
	key := f + "/" + strconv.Itoa(len(args))
	tr, fl := gAtom("true"), gAtom("fail")
	switch key {
	case "true/0":
		return refTest(true)
	case "fail/0", "false/0":
		return refTest(false)
	case "=/2":
		return &refStep{kind: 0, a: args[0], b: args[1]}
	case "\\=/2":
		return &refStep{kind: 2, goals: [][]*gt{{refITE(refMk2("=", args[0], args[1]), fl, tr)}}}
	case "==/2":
		return refTest(refEqual(args[0], args[1]))
	case "\\==/2":
		return refTest(!refEqual(args[0], args[1]))
	case "\\+/1":
		return &refStep{kind: 2, goals: [][]*gt{{refITE(refCall1(args[0]), fl, tr)}}}
	case "once/1":
		return &refStep{kind: 2, goals: [][]*gt{{refMk2("->", refCall1(args[0]), tr)}}}
	case "throw/1":
		if args[0].kind == "var" {
			return &refStep{kind: 1, a: refInstErr()}
		}
		return &refStep{kind: 1, a: args[0]}
	case "between/3":
		l, h, x := args[0], args[1], args[2]
		switch {
		case l.kind == "var", l.kind == "int" && h.kind == "var":
			return &refStep{kind: 1, a: refInstErr()}
		case l.kind != "int":
			return &refStep{kind: 1, a: refTypeErr("integer", l)}
		case h.kind != "int":
			return &refStep{kind: 1, a: refTypeErr("integer", h)}
		case x.kind == "int":
			return refTest(l.i <= x.i && x.i <= h.i)
		case x.kind == "var":
			if h.i < l.i {
				return refTest(false)
			}
			if l.i == h.i {
				return &refStep{kind: 0, a: x, b: l}
			}
			return &refStep{kind: 2, goals: [][]*gt{{refMk2("=", x, l)}, {gApp("between", gInt(l.i+1), h, x)}}}
		default:
			return &refStep{kind: 1, a: refTypeErr("integer", x)}
		}
	case "atom_length/2":
		a, l := args[0], args[1]
		switch {
		case a.kind == "var":
			return &refStep{kind: 1, a: refInstErr()}
		case a.kind != "atom":
			return &refStep{kind: 1, a: refTypeErr("atom", a)}
		case l.kind == "var":
			return &refStep{kind: 0, a: l, b: gInt(int64(len([]rune(a.s))))}
		case l.kind == "int":
			if l.i < 0 {
				return &refStep{kind: 1, a: refErrorT(gApp("domain_error", gAtom("not_less_than_zero"), l))}
			}
			return refTest(l.i == int64(len([]rune(a.s))))
		default:
			return &refStep{kind: 1, a: refTypeErr("integer", l)}
		}
	}
	if len(args) == 1 {
		t := args[0]
		switch f {
		case "var":
			return refTest(t.kind == "var")
		case "nonvar":
			return refTest(t.kind != "var")
		case "atom":
			return refTest(t.kind == "atom")
		case "integer":
			return refTest(t.kind == "int")
		case "compound":
			return refTest(t.kind == "app")
		case "callable":
			return refTest(t.kind == "atom" || t.kind == "app")
		case "atomic":
			return refTest(t.kind != "var" && t.kind != "app")
		}
	}
	return nil
}

func (ri *refInterp) sameProc(f string, n int, c *gt) bool {
	h, _ := refHeadBody(c)
	g, as, ok := refFunctor(h)
	return ok && g == f && len(as) == n
}

func refAfterCut(l int, r refRes) refRes {
	switch r.stop {
	case stopExhausted:
		r.stop, r.level = stopCut, l
	case stopCut:
		if l < r.level {
			r.level = l
		}
	}
	return r
}

func (ri *refInterp) solve(d, nv int, frames []refFrame, q *gt, limit int) refRes {
	ri.rdepth++
	defer func() { ri.rdepth-- }()
	ri.tick()
	if len(frames) == 0 {
		ri.checkSize(q)
		st := stopExhausted
		if limit == 1 {
			st = stopFull
		}
		return refRes{answers: []*gt{q}, stop: st}
	}
	fr, rest := frames[0], frames[1:]
	if fr.exitCatch {
		ri.exitSeen[fr.depth] = true
		r := ri.solve(d, nv, rest, q, limit)
		if r.stop == stopRaised {
			r.exited = append([]int{fr.depth}, r.exited...)
		}
		return r
	}
	g, l := fr.g, fr.level
	branch := func(as []refAlt) refRes { return ri.solveAlts(d, nv, as, rest, q, limit) }
	callBody := func(b *gt) refRes {
		if b.kind == "var" {
			return refRaise(refInstErr())
		}
		if !refOkBody(ri.iso, b) {
			return refRaise(refTypeErr("callable", b))
		}
		return branch(ri.bodyAlts(b, d))
	}
	branchGoal := func(t *gt) refFrame {
		if ri.iso {
			return refFrame{g: t, level: l}
		}
		return refFrame{g: refCall1(t), level: l}
	}
	f, args, ok := refFunctor(g)
	if !ok {
		if g.kind == "var" {
			return refRaise(refInstErr())
		}
		return refRaise(refTypeErr("callable", g))
	}
	cutF := func() refFrame { return refFrame{g: gAtom("!"), level: d, implicit: true} }
	switch {
	case f == "!" && len(args) == 0:
		// the predicate calls on the current branch have depths < d; those at depth >= l are in the cut's scope
		if !fr.implicit {
			ri.cutsRun++
			for k := l; k < d && k < len(ri.pending); k++ {
				if ri.pending[k] > 0 {
					ri.cutPending++
					break
				}
			}
		}
		saved := append([]int(nil), ri.pending...)
		for k := l; k < d && k < len(ri.pending); k++ {
			ri.pending[k] = 0 // gone
		}
		r := refAfterCut(l, ri.solve(d, nv, rest, q, limit))
		copy(ri.pending, saved)
		return r
	case f == "," && len(args) == 2:
		if ri.iso {
			return ri.solve(d, nv, refCat([]refFrame{{g: args[0], level: l}, {g: args[1], level: l}}, rest), q, limit)
		}
		return callBody(g)
	case f == ";" && len(args) == 2 && args[0].is("->", 2):
		c, t, e := args[0].args[0], args[0].args[1], args[1]
		return branch([]refAlt{{frames: []refFrame{{g: refCall1(c), level: d}, cutF(), branchGoal(t)}}, {frames: []refFrame{branchGoal(e)}}})
	case f == "->" && len(args) == 2:
		return branch([]refAlt{{frames: []refFrame{{g: refCall1(args[0]), level: d}, cutF(), branchGoal(args[1])}}})
	case f == ";" && len(args) == 2:
		if ri.iso {
			return branch([]refAlt{{frames: []refFrame{{g: args[0], level: l}}}, {frames: []refFrame{{g: args[1], level: l}}}})
		}
		return callBody(g)
	case f == "call" && len(args) >= 1:
		if len(args) > 8 {
			return refRaise(refExistenceErr(f, len(args)))
		}
		cf, cargs, ok := refFunctor(args[0])
		if !ok {
			if args[0].kind == "var" {
				return refRaise(refInstErr())
			}
			return refRaise(refTypeErr("callable", args[0]))
		}
		return callBody(refMk(cf, append(append([]*gt{}, cargs...), args[1:]...)))
	case f == "findall" && len(args) == 3:
		if !refIsPartialList(args[2]) {
			return refRaise(refTypeErr("list", args[2]))
		}
		sub := ri.solve(d+1, nv, []refFrame{{g: refCall1(args[1]), level: d}}, args[0], 0)
		if sub.stop == stopRaised {
			return refRaise(sub.ball)
		}
		nv2 := nv
		ri.checkSize(sub.answers...)
		copies := make([]*gt, len(sub.answers))
		for i, t := range sub.answers {
			copies[i], nv2 = refFreshen(t, nv2)
		}
		return ri.solve(d, nv2, refCat([]refFrame{{g: refMk2("=", args[2], gList(copies, gAtom("[]"))), level: l}}, rest), q, limit)
	case f == "catch" && len(args) == 3:
		savedSeen := ri.exitSeen[d]
		ri.exitSeen[d] = false
		r := ri.solve(d+1, nv, refCat([]refFrame{{g: refCall1(args[0]), level: d}, {exitCatch: true, depth: d}}, rest), q, limit)
		seen := ri.exitSeen[d]
		ri.exitSeen[d] = savedSeen
		if r.stop != stopRaised {
			return r
		}
		for _, e := range r.exited {
			if e == d {
				ri.crossExited++
				return r
			}
		}
		ri.checkSize(r.ball)
		ball, nv2 := refFreshen(r.ball, nv)
		th, st := ri.unify(args[1], ball)
		if st == refFail {
			ri.crossNoMatch++
			return r
		}
		ri.caught++
		if seen {
			ri.caughtAfterRedo++
		}
		lim := limit - len(r.answers)
		if lim < 0 {
			lim = 0
		}
		r2 := ri.solve(d, nv2, refSubstFrames(th, refCat([]refFrame{{g: refCall1(args[2]), level: l}}, rest)), th.apply(q), lim)
		r2.answers = append(append([]*gt{}, r.answers...), r2.answers...)
		return r2
	}
	if (f == "==" || f == "\\==") && len(args) == 2 {
		ri.checkSize(args...)
	}
	if st := refBuiltin(f, args); st != nil {
		switch st.kind {
		case 1:
			if f == "throw" {
				ri.throws++
			}
			return refRaise(st.a)
		case 0:
			th, u := ri.unify(st.a, st.b)
			if u == refFail {
				return refRes{}
			}
			return ri.solve(d, nv, refSubstFrames(th, rest), th.apply(q), limit)
		default:
			if len(st.goals) == 1 {
				return ri.solve(d, nv, refCat(refGoalFrames(st.goals[0], l), rest), q, limit)
			}
			var as []refAlt
			for _, gs := range st.goals {
				as = append(as, refAlt{frames: refGoalFrames(gs, l)})
			}
			return branch(as)
		}
	}
	var as []refAlt
	for _, c := range ri.prog {
		if ri.sameProc(f, len(args), c) {
			as = append(as, refAlt{clause: c, goal: g})
		}
	}
	if len(as) == 0 {
		return refRaise(refExistenceErr(f, len(args)))
	}
	return branch(as)
}

func (ri *refInterp) solveAlts(d, nv int, alts []refAlt, rest []refFrame, q *gt, limit int) refRes {
	ri.rdepth++
	defer func() { ri.rdepth-- }()
	ri.tick()
	if len(alts) == 0 {
		return refRes{}
	}
	a, as := alts[0], alts[1:]
	for len(ri.pending) <= d {
		ri.pending = append(ri.pending, 0)
	}
	savedPending := ri.pending[d]
	ri.pending[d] = len(as)
	defer func() { ri.pending[d] = savedPending }()
	next := func(got []*gt) refRes {
		lim := limit - len(got)
		if lim < 0 {
			lim = 0
		}
		r := ri.solveAlts(d, nv, as, rest, q, lim)
		r.answers = append(append([]*gt{}, got...), r.answers...)
		return r
	}
	run := func(resolvent []refFrame, q2 *gt, nv2 int, isClause bool) refRes {
		r := ri.solve(d+1, nv2, resolvent, q2, limit)
		switch r.stop {
		case stopExhausted:
			if isClause && len(r.answers) == 0 {
				ri.failedAfterHead++
			}
			return next(r.answers)
		case stopCut:
			if r.level == d {
				r.stop = stopExhausted
			}
			return r
		}
		return r
	}
	if a.clause == nil {
		return run(refCat(a.frames, rest), q, nv, false)
	}
	h, b := refHeadBody(refShift(nv, a.clause))
	th, st := ri.unify(a.goal, h)
	if st == refFail {
		return next(nil)
	}
	return run(refSubstFrames(th, refCat(ri.bodyFrames(b, d), rest)), th.apply(q), nv+refMaxVar(a.clause), true)
}

// refOutcome is the result of a reference run.
type refOutcome struct {
	abort   string // "", steps, depth, sto, size
	answers []*gt
	end     string // exhausted | more | err <wire> | ball <wire>
	ri      *refInterp
}

const (
	refMaxSteps = 3000
	refMaxRD    = 1500
	refMaxSize  = 400
	refMaxWork  = 300000
)

// call_nth(G, 1) is once(G) by definition (the first solution of G, no other); the reference
// interpreter has no call_nth/2, so the clauses of a program are read with that goal rewritten
// (only in clauses: answers print the query term, which must be the same on all sides)
func refRewriteCallNth(t *gt) *gt {
	if t.kind != "app" {
		return t
	}
	if t.s == "call_nth" && len(t.args) == 2 && t.args[1].kind == "int" && t.args[1].i == 1 {
		return gApp("once", refRewriteCallNth(t.args[0]))
	}
	args := make([]*gt, len(t.args))
	for i, a := range t.args {
		args[i] = refRewriteCallNth(a)
	}
	return gApp(t.s, args...)
}

func refSolveQuery(prog0 []*gt, query *gt, max int, iso bool) (out refOutcome) {
	prog := make([]*gt, len(prog0))
	for i, c := range prog0 {
		prog[i] = refRewriteCallNth(c)
	}
	ri := &refInterp{iso: iso, maxSteps: refMaxSteps, maxRD: refMaxRD, maxSize: refMaxSize, exitSeen: map[int]bool{}}
	out.ri = ri
	if iso {
		ri.prog = append(ri.prog, prog...)
	} else {
		for _, c := range prog {
			ri.prog = append(ri.prog, refSplitClause(c)...)
		}
	}
	ri.prog = append(ri.prog, refLibrary...)
	defer func() {
		if r := recover(); r != nil {
			if a, ok := r.(refAbort); ok {
				out.abort = a.why
				return
			}
			panic(r)
		}
	}()
	r := ri.solve(0, refMaxVar(query), []refFrame{{g: refCall1(query), level: 0}}, query, max)
	out.answers = r.answers
	switch r.stop {
	case stopExhausted, stopCut:
		out.end = "exhausted"
	case stopFull:
		out.end = "more"
	case stopRaised:
		ri.checkSize(r.ball)
		if r.ball.is("error", 2) {
			out.end = "err " + refCanon(r.ball.args[0], 0, map[int]int{}).String()
		} else {
			out.end = "ball " + refCanon(r.ball, 0, map[int]int{}).String()
		}
	}
	return out
}

// line renders the outcome in the format of the runner (canonical variables).
func (o refOutcome) line() string {
	var parts []string
	for _, a := range o.answers {
		parts = append(parts, "a "+refCanon(a, 0, map[int]int{}).String())
	}
	parts = append(parts, "end "+o.end)
	return strings.Join(parts, " ; ")
}

// ---------------------------------------------------------------------------
// wire -> gt
// ---------------------------------------------------------------------------

func gtFromWire(s string) (*gt, error) {
	toks := strings.Fields(s)
	t, rest, err := gtDec(toks)
	if err != nil {
		return nil, err
	}
	if len(rest) != 0 {
		return nil, fmt.Errorf("trailing tokens")
	}
	return t, nil
}

func gtDec(toks []string) (*gt, []string, error) {
	if len(toks) == 0 || toks[0] == "" {
		return nil, nil, fmt.Errorf("unexpected end")
	}
	tok, rest := toks[0], toks[1:]
	body := tok[1:]
	switch tok[0] {
	case 'V':
		n, err := strconv.Atoi(body)
		return gVar(n), rest, err
	case 'A':
		s, err := decName(body)
		return gAtom(s), rest, err
	case 'I':
		n, err := strconv.ParseInt(body, 10, 64)
		return gInt(n), rest, err
	case 'C':
		i := strings.IndexByte(body, ':')
		if i < 0 {
			return nil, nil, fmt.Errorf("bad compound %q", tok)
		}
		n, err := strconv.Atoi(body[:i])
		if err != nil {
			return nil, nil, err
		}
		f, err := decName(body[i+1:])
		if err != nil {
			return nil, nil, err
		}
		args := make([]*gt, n)
		for j := 0; j < n; j++ {
			args[j], rest, err = gtDec(rest)
			if err != nil {
				return nil, nil, err
			}
		}
		return gApp(f, args...), rest, nil
	}
	return nil, nil, fmt.Errorf("bad token %q", tok)
}
