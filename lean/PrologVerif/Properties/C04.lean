/-
  C04 — throw/1 unwinds to the innermost still-executing catch/3, undoing bindings.

  Subject: `Model/Promise.lean` (`recover`, the error leaf case of `Force`) for every semantics of
  thunks and handlers, and the handler of the (fixed) `Catch` builtin in its pure form
  (`Model/PTree.lean`: a handler consults the activity flag of its catch/3 call).  Binding
  undoing, ball copying and builtin errors are statements about the VM model (Properties/C01).
-/
import PrologVerif.Proofs.Promise
import PrologVerif.Model.PTree
namespace PrologVerif.C04
open PrologVerif PrologVerif.Promise

variable {τ ρ ε σ : Type}

/-- **C04_recover_innermost**.  An error pops frames from the top; frames without a recovery
    function and frames whose recovery function declines (catcher does not unify / catch not active)
    are discarded; the FIRST frame whose recovery function accepts is replaced by the promise it
    returns (Recovery runs in its place) and everything older is untouched. -/
theorem C04_recover_innermost (sem : Sem τ ρ ε σ) (e : ε) (above : List (P τ ρ ε)) (h : P τ ρ ε)
    (below : List (P τ ρ ε)) (m m1 m' : M σ) (r : ρ) (q : P τ ρ ε)
    (hdecl : declineAll sem e above m = some m1) (hr : h.recover = some r)
    (hacc : sem.evalRecover r e m1 = (some q, m')) :
    recoverStack sem e (above ++ h :: below) m = (some (q :: below), m') := by
  rw [recoverStack_append sem e above (h :: below) m m1 hdecl]
  simp [recoverStack, hr, hacc]

/-- **C04_unhandled**: if no frame accepts, the stack is consumed and `Force` ends with the error
    carrying the ball -/
theorem C04_unhandled (sem : Sem τ ρ ε σ) (e : ε) (stack : List (P τ ρ ε)) (m m1 : M σ)
    (hdecl : declineAll sem e stack m = some m1) :
    recoverStack sem e stack m = (none, m1) := by
  have := recoverStack_append sem e stack [] m m1 hdecl
  simpa [recoverStack] using this

theorem C04_force_unhandled (sem : Sem τ ρ ε σ) (n : Nat) (p : P τ ρ ε) (e : ε) (stack : List (P τ ρ ε))
    (m m1 : M σ) (hd : p.delayed = []) (he : p.err = some e)
    (hdecl : declineAll sem e stack { m with iter := m.iter + 1 } = some m1) :
    force sem none (n + 1) (p :: stack) m = some (.error e, m1) := by
  simp [force, isCancelled, hd, he, C04_unhandled sem e stack _ m1 hdecl]

/-- **C04_exited_catch_inactive**: the handler of a catch/3 whose goal has exited (activity flag
    false: set by the first alternative of the exit promise the fixed `Catch` builds) declines every
    error, so the error travels on to the next enclosing catch — -/
theorem C04_exited_catch_inactive (h : PTree.Handler) (e : Nat) (m : M PTree.St)
    (hflag : m.user.flag h.flag = false) : PTree.evalRecover h e m = (none, m) := by
  simp [PTree.evalRecover, hflag]

/-- — and it intercepts again once execution has backtracked into the goal (flag true again) -/
theorem C04_rearmed_catch_active (h : PTree.Handler) (e : Nat) (m : M PTree.St) (t : PTree.PT)
    (hflag : m.user.flag h.flag = true) (hfind : h.handles.find e = some t) :
    PTree.evalRecover h e m = (some (PTree.evalThunk t m).1, (PTree.evalThunk t m).2) := by
  simp [PTree.evalRecover, hflag, hfind]

/-- a catch/3 is born active -/
theorem C04_catch_born_active (f : Nat) : ({} : PTree.St).flag f = true := rfl

end PrologVerif.C04
