/-
  exec_safe, part 4 — one-step preservation, by induction on the fuel: all functions of the mutual
  block of `Model/VM.lean` at fuel `n + 1` only call functions at fuel `n`.
-/
import PrologVerif.Proofs.ExecSafeForce
namespace PrologVerif.ExecSafe
open PrologVerif PrologVerif.VM PrologVerif.Promise

/-- the induction hypothesis: every function of the mutual block (and `evalThunk`) at fuel `n` -/
structure StepOK (n : Nat) : Prop where
  exec : ∀ pc vars k args astack env cp (m : MS),
    safe pc vars.length args.length (astack.map shapeOf) = true → ContOK k → StOK m.user →
    ROK (exec n pc vars k args astack env cp m)
  applyCont : ∀ k env (m : MS), ContOK k → StOK m.user → ROK (applyCont n k env m)
  arrive : ∀ f args k env (m : MS), ContOK k → StOK m.user → ROK (arrive n f args k env m)
  builtin : ∀ f args k env (m : MS), ContOK k → StOK m.user → R2OK (builtin n f args k env m)
  evalThunk : ∀ t (m : MS), ThunkOK t → StOK m.user → ROK (evalThunk n t m)

theorem exec_succ {n : Nat} (ih : StepOK n) : ∀ pc vars k args astack env cp (m : MS),
    safe pc vars.length args.length (astack.map shapeOf) = true → ContOK k → StOK m.user →
    ROK (exec (n + 1) pc vars k args astack env cp m) := by
  intro pc vars k args astack env cp m hs hk hm
  cases pc with
  | nil => simp [safe] at hs
  | cons op pc =>
    cases op with
    | getConst c =>
      cases args with
      | nil => simp [safe] at hs
      | cons a rest =>
        simp only [safe, List.length_cons, Nat.add_sub_cancel, Bool.and_eq_true, decide_eq_true_eq] at hs
        simp only [exec]
        split
        · exact ih.exec _ _ _ _ _ _ _ _ hs.2 hk hm
        · exact ROK_some PrOK_failP hm
        · exact ROK_none
    | putConst c =>
      simp only [safe] at hs
      simp only [exec]
      exact ih.exec _ _ _ _ _ _ _ _ (by simpa using hs) hk hm
    | getVar i =>
      cases args with
      | nil => simp [safe] at hs
      | cons a rest =>
        simp only [safe, List.length_cons, Nat.add_sub_cancel, Bool.and_eq_true, decide_eq_true_eq] at hs
        obtain ⟨⟨hi, _⟩, hs⟩ := hs
        have hv : vars[i]? = some vars[i] := List.getElem?_eq_getElem hi
        rw [exec.eq_def]
        simp only [hv]
        split
        · exact ih.exec _ _ _ _ _ _ _ _ hs hk hm
        · exact ROK_some PrOK_failP hm
        · exact ROK_none
    | putVar i =>
      simp only [safe, Bool.and_eq_true, decide_eq_true_eq] at hs
      have hv : vars[i]? = some vars[i] := List.getElem?_eq_getElem hs.1
      rw [exec.eq_def]
      simp only [hv]
      exact ih.exec _ _ _ _ _ _ _ _ (by simpa using hs.2) hk hm
    | getFunctor f ar =>
      cases args with
      | nil => simp [safe] at hs
      | cons a rest =>
        simp only [safe, List.length_cons, Nat.add_sub_cancel, Bool.and_eq_true, decide_eq_true_eq] at hs
        simp only [exec, freshVars]
        split
        · exact ih.exec _ _ _ _ _ _ _ _ (by simpa [shapeOf] using hs.2) hk hm
        · exact ROK_some PrOK_failP hm
        · exact ROK_none
    | putFunctor f ar =>
      simp only [safe] at hs
      simp only [exec]
      exact ih.exec _ _ _ _ _ _ _ _ (by simpa [shapeOf] using hs) hk hm
    | pop =>
      cases astack with
      | nil => simp [safe] at hs
      | cons fr as' =>
        cases fr with
        | get rest =>
          simp only [List.map_cons, shapeOf, safe] at hs
          simp only [exec]
          exact ih.exec _ _ _ _ _ _ _ _ hs hk hm
        | put outer c =>
          simp only [List.map_cons, shapeOf, safe] at hs
          simp only [exec]
          exact ih.exec _ _ _ _ _ _ _ _ (by simpa using hs) hk hm
    | enter =>
      simp only [safe] at hs
      simp only [exec]
      exact ih.exec _ _ _ _ _ _ _ _ hs hk hm
    | call f ar =>
      simp only [safe] at hs
      simp only [exec]
      exact ih.arrive _ _ _ _ _ (.exec pc vars cp k hs hk) hm
    | exit =>
      simp only [exec]
      exact ih.applyCont _ _ _ hk hm
    | cut =>
      simp only [safe] at hs
      simp only [exec]
      refine ROK_some (PrOK_delayed 0 _ _ false ?_) hm
      intro t ht
      simp only [List.mem_singleton] at ht
      subst ht
      exact .afterCut pc vars k args astack env cp hs hk
    | getList l =>
      cases args with
      | nil => simp [safe] at hs
      | cons a rest =>
        simp only [safe, List.length_cons, Nat.add_sub_cancel, Bool.and_eq_true, decide_eq_true_eq] at hs
        simp only [exec, freshVars]
        split
        · exact ih.exec _ _ _ _ _ _ _ _ (by simpa [shapeOf] using hs.2) hk hm
        · exact ROK_some PrOK_failP hm
        · exact ROK_none
    | putList l =>
      simp only [safe] at hs
      simp only [exec]
      exact ih.exec _ _ _ _ _ _ _ _ (by simpa [shapeOf] using hs) hk hm
    | getPartial l =>
      cases args with
      | nil => simp [safe] at hs
      | cons a rest =>
        simp only [safe, List.length_cons, Nat.add_sub_cancel, Bool.and_eq_true, decide_eq_true_eq] at hs
        simp only [exec, freshVars]
        split
        · exact ih.exec _ _ _ _ _ _ _ _ (by simpa [shapeOf] using hs.2) hk hm
        · exact ROK_some PrOK_failP hm
        · exact ROK_none
    | putPartial l =>
      simp only [safe] at hs
      simp only [exec]
      exact ih.exec _ _ _ _ _ _ _ _ (by simpa [shapeOf] using hs) hk hm
    | unsupported w =>
      simp only [exec]
      exact ROK_some (PrOK_goErr _ (by decide +kernel)) hm

theorem applyCont_succ {n : Nat} (ih : StepOK n) : ∀ k env (m : MS), ContOK k → StOK m.user →
    ROK (applyCont (n + 1) k env m) := by
  intro k env m hk hm
  cases hk with
  | done => simp only [applyCont]; exact ROK_some PrOK_okP hm
  | exec pc vars cp k hs hk =>
    simp only [applyCont]
    exact ih.exec _ _ _ _ _ _ _ _ hs hk hm
  | collect t mx =>
    simp only [applyCont]
    refine ROK_some ?_ hm
    split
    · exact PrOK_okP
    · exact PrOK_failP
  | findallK t s =>
    simp only [applyCont]
    exact ROK_some PrOK_failP hm
  | catchExit f k hk =>
    simp only [applyCont]
    refine ROK_some (PrOK_delayed _ _ none false ?_) hm
    intro t ht
    simp only [List.mem_cons, List.not_mem_nil, or_false] at ht
    rcases ht with rfl | rfl
    · exact .exitAltSome _ _ k env hk
    · exact .exitAltNone _ _ env

theorem arrive_succ {n : Nat} (ih : StepOK n) : ∀ f args k env (m : MS), ContOK k → StOK m.user →
    ROK (arrive (n + 1) f args k env m) := by
  intro f args k env m hk hm
  simp only [arrive]
  split
  · rename_i r hr
    intro p m' e
    subst e
    exact ih.builtin _ _ _ _ _ hk hm p m' hr
  · split
    · rename_i pr hl
      refine ROK_pair (clausesCall_ok _ _ _ _ _ ?_ hk hm)
      intro c hc
      obtain ⟨h1, h2⟩ := hm _ _ pr hl c hc
      exact ⟨h1, h2.symm⟩
    · exact ROK_pair (mkErr_ok _ _ _ hm)

theorem assertClause_ok {n : Nat} (ihc : ∀ k env (m : MS), ContOK k → StOK m.user → ROK (applyCont n k env m))
    (front : Bool) (t : Term) (k : Cont) (env : Env) (m : MS) (hk : ContOK k) (hm : StOK m.user) :
    PrOK (assertClause front t k env m n).1 ∧ StOK (assertClause front t k env m n).2.user := by
  unfold assertClause
  simp only []
  split
  · exact mkErr_ok _ _ _ hm
  · exact mkErr_ok _ _ _ hm
  · exact mkErr_ok _ _ _ hm
  · exact mkErr_ok _ _ _ hm
  · split
    · exact mkErr_ok _ _ _ hm
    · rename_i cs hcs
      split
      · exact ⟨PrOK_failP, hm⟩
      · rename_i c rest
        have hnew := StOK_addClauses m.user _ c rest { dynamic := true } front rfl hcs hm
          ((lookupProc m.user c.name c.arity).getD { dynamic := true }).dynamic
        split
        · rename_i r hr
          exact ihc k env _ hk hnew r.1 r.2 hr
        · exact ⟨PrOK_goErr _ (by decide +kernel), hnew⟩

theorem all1 {P : Thunk → Prop} {a : Thunk} (ha : P a) : ∀ t ∈ [a], P t := by
  intro t ht
  simp only [List.mem_singleton] at ht
  exact ht ▸ ha

theorem all2 {P : Thunk → Prop} {a b : Thunk} (ha : P a) (hb : P b) : ∀ t ∈ [a, b], P t := by
  intro t ht
  simp only [List.mem_cons, List.not_mem_nil, or_false] at ht
  rcases ht with rfl | rfl
  · exact ha
  · exact hb

local macro "leaf" : tactic => `(tactic| first
  | exact R2OK_none
  | exact R2OK_some_none
  | exact R2OK_pair (callGoal_ok _ _ _ _ ‹ContOK _› ‹StOK _›)
  | exact R2OK_pair (mkErr_ok _ _ _ ‹StOK _›)
  | exact R2OK_pair (appendLists_ok _ _ _ _ _ _ ‹ContOK _› ‹StOK _›)
  | exact R2OK_pair (assertClause_ok (StepOK.applyCont ‹StepOK _›) _ _ _ _ _ ‹ContOK _› ‹StOK _›)
  | exact R2OK_pair ⟨PrOK_failP, ‹StOK _›⟩
  | exact R2OK_pair ⟨PrOK_exc _, ‹StOK _›⟩
  | exact R2OK_some (StepOK.applyCont ‹StepOK _› _ _ _ ‹ContOK _› ‹StOK _›)
  | exact R2OK_pair ⟨PrOK_delayed _ _ none _ (all1 (by constructor; assumption)), ‹StOK _›⟩
  | exact R2OK_pair ⟨PrOK_delayed _ _ none _
      (all2 (by constructor; assumption) (by constructor; assumption)), ‹StOK _›⟩
  | exact R2OK_pair ⟨⟨all1 (by constructor; assumption), by intro h hh; cases hh; assumption,
      not_IsPanic_of_err_none rfl⟩, ‹StOK _›⟩)

-- (irreducible here only so that the failing alternatives of `leaf` fail fast)
attribute [local irreducible] callGoal mkErr appendLists in
theorem builtin_succ {n : Nat} (ih : StepOK n) : ∀ f args k env (m : MS), ContOK k → StOK m.user →
    R2OK (builtin (n + 1) f args k env m) := by
  intro f args k env m hk hm
  rw [builtin.eq_def]
  simp only []
  split
  all_goals (repeat' (first | leaf | split))

theorem semOK_of {n : Nat} (ih : StepOK n) : SemOK ⟨fun _ t m => evalThunk n t m, evalRecover⟩ :=
  ⟨fun _ t m ht hm => ih.evalThunk t m ht hm, fun h e m hk hm => evalRecover_ok h e m hk hm⟩

theorem all1P {P : Pr → Prop} {a : Pr} (ha : P a) : ∀ t ∈ [a], P t := by
  intro t ht
  simp only [List.mem_singleton] at ht
  exact ht ▸ ha

theorem evalThunk_succ {n : Nat} (ih : StepOK n) : ∀ t (m : MS), ThunkOK t → StOK m.user →
    ROK (evalThunk (n + 1) t m) := by
  intro t m ht hm
  cases ht with
  | clause c args k env parent hc ha hk =>
    simp only [evalThunk, freshVars]
    exact ih.exec _ _ _ _ _ _ _ _ (by simpa [ClauseOK, ha] using hc) hk hm
  | afterCut pc vars k args astack env cp hs hk =>
    simp only [evalThunk]
    exact ih.exec _ _ _ _ _ _ _ _ hs hk hm
  | contK k env hk =>
    simp only [evalThunk]
    exact ih.applyCont _ _ _ hk hm
  | exitAltSome f b k env hk =>
    simp only [evalThunk]
    exact ih.applyCont _ _ _ hk hm
  | exitAltNone f b env =>
    simp only [evalThunk]
    exact ROK_some PrOK_failP hm
  | negate g k env hk =>
    simp only [evalThunk]
    obtain ⟨hp, hm1⟩ := callGoal_ok g .done env m .done hm
    split
    · exact ROK_none
    · rename_i m' hf
      exact ROK_some PrOK_failP (force_ok _ (semOK_of ih) _ _ _ _ _ _ hf (all1P hp) hm1).2
    · rename_i m' hf
      exact ih.applyCont _ _ _ hk (force_ok _ (semOK_of ih) _ _ _ _ _ _ hf (all1P hp) hm1).2
    · rename_i e m' hf
      obtain ⟨h1, h2⟩ := force_ok _ (semOK_of ih) _ _ _ _ _ _ hf (all1P hp) hm1
      exact ROK_some (PrOK_errP (h1 e rfl)) h2
    · rename_i m' hf
      exact ROK_some (PrOK_goErr _ (by decide +kernel))
        (force_ok _ (semOK_of ih) _ _ _ _ _ _ hf (all1P hp) hm1).2
  | findall t g i k env hk =>
    simp only [evalThunk]
    obtain ⟨hp, hm1⟩ := callGoal_ok g (.findallK t (freshId m).1) env (freshId m).2 (.findallK _ _) hm
    split
    · exact ROK_none
    · rename_i e m' hf
      obtain ⟨h1, h2⟩ := force_ok _ (semOK_of ih) _ _ _ _ _ _ hf (all1P hp) hm1
      exact ROK_some (PrOK_errP (h1 e rfl)) h2
    · rename_i m' hf
      exact ROK_some (PrOK_goErr _ (by decide +kernel))
        (force_ok _ (semOK_of ih) _ _ _ _ _ _ hf (all1P hp) hm1).2
    · rename_i r m' _ _ hf
      have h2 := (force_ok _ (semOK_of ih) _ _ _ _ _ _ hf (all1P hp) hm1).2
      split
      · exact ih.applyCont _ _ _ hk h2
      · exact ROK_some PrOK_failP h2
      · exact ROK_none
  | catchBody g f k env hk =>
    simp only [evalThunk]
    exact ROK_pair (callGoal_ok _ _ _ _ (.catchExit f k hk) hm)
  | unifyK x y k env hk =>
    simp only [evalThunk]
    split
    · exact ih.applyCont _ _ _ hk hm
    · exact ROK_some PrOK_failP hm
    · exact ROK_none
  | betweenNext l u v k env hk =>
    simp only [evalThunk]
    split
    · rename_i r hr
      intro p m' e
      cases e
      exact ih.builtin _ _ _ _ _ hk hm p m' hr
    · exact ROK_none
  | appendRec x y z k env hk =>
    simp only [evalThunk, freshVars]
    split
    · split
      · exact ROK_pair (appendLists_ok _ _ _ _ _ _ hk hm)
      · exact ROK_some PrOK_failP hm
      · exact ROK_none
    · exact ROK_none

theorem stepOK_zero : StepOK 0 where
  exec := by intros; simp only [exec]; exact ROK_none
  applyCont := by intros; simp only [applyCont]; exact ROK_none
  arrive := by intros; simp only [arrive]; exact ROK_none
  builtin := by intros; simp only [builtin]; exact R2OK_some_none
  evalThunk := by intros; simp only [evalThunk]; exact ROK_none

theorem stepOK : ∀ n, StepOK n
  | 0 => stepOK_zero
  | n + 1 =>
    have ih := stepOK n
    ⟨exec_succ ih, applyCont_succ ih, arrive_succ ih, builtin_succ ih, evalThunk_succ ih⟩

/-- the closures `force` calls in `runQuery` (and in the nested trampolines) keep the invariants -/
theorem semOK (fuel : Nat) : SemOK (sem fuel) := semOK_of (stepOK fuel)

end PrologVerif.ExecSafe
