import PrologVerif.Driver.Common
import PrologVerif.Model.Order
import PrologVerif.Spec.Order
namespace PrologVerif.Driver.C08
open PrologVerif PrologVerif.Order PrologVerif.OrderSpec PrologVerif.Driver

/-! Stream handlers for C08.
    model line  : computed by Model/Order.lean from the ABSTRACT terms of the payload
    verdict     : Spec/Order.lean (and the order laws themselves) judging the implementation's answers -/

def ordChar : Ordering → String
  | .lt => "<"
  | .eq => "="
  | .gt => ">"

def opNames : List String := ["@<", "@=<", "@>", "@>=", "==", "\\=="]

def digit : Option Nat → String
  | some n => toString n
  | none => "?"

def errOut (e : Term) : String := "err " ++ e.canon.wire

/-- one pair of a triple: outcome of compare/3 and the solution counts of the six operators -/
def pairOut (x y : Term) : String :=
  ordChar (Order.compare x y) ++ String.join (opNames.map fun n => digit (callOrderOp 1000 n x y))

def boundOut (x y : Term) : String :=
  "b:" ++ String.join (["<", "=", ">"].map fun o =>
    match compare3 (.atom o) x y with
    | .ok (some _) => "1"
    | .ok none => "0"
    | .error _ => "E")

def triModel (ts : List Term) : String :=
  let pairs := ts.flatMap fun x => ts.map fun y => pairOut x y
  " ".intercalate (pairs ++ [match ts with | x :: y :: _ => boundOut x y | _ => "b:"])

/-! ### verdict for a triple -/

def parseOrd : Char → Option Ordering
  | '<' => some .lt
  | '=' => some .eq
  | '>' => some .gt
  | _ => none

def trans3B (o1 o2 o3 : Ordering) : Bool :=
  (o1 != .eq || o3 == o2) && (o2 != .eq || o3 == o1) &&
  (!(o1 == .lt && o2 == .lt) || o3 == .lt) && (!(o1 == .gt && o2 == .gt) || o3 == .gt)

def topVars (x y : Term) : Bool :=
  match x, y with
  | .var a, .var b => a != b
  | _, _ => false

/-- expected solution counts of the six operators given the outcome `o` of compare/3 -/
def opsExpected (o : Ordering) : List Nat :=
  [if o == .lt then 1 else 0, if o != .gt then 1 else 0, if o == .gt then 1 else 0,
   if o != .lt then 1 else 0, if o == .eq then 1 else 0, if o != .eq then 1 else 0]

def getD {α : Type} (l : List α) (i : Nat) (d : α) : α := (l[i]?).getD d

def judgeTri (ts : List Term) (impl : String) : String :=
  if ts.any (fun t => !noNaN t) then "-" else
  let toks := words impl
  if toks.length != 10 then "FAIL malformed answer line" else
  let n := 3
  -- decode the nine pair tokens
  let dec := (toks.take 9).map fun tok =>
    match tok.toList with
    | c :: ds => (parseOrd c, ds.map fun d => d.toNat - 48)
    | [] => (none, [])
  if dec.any (fun p => p.1.isNone || p.2.length != 6 || p.2.any (· > 1)) then
    "FAIL an answer is not one of < = >, or an operator did not succeed 0 or 1 times" else
  let o := fun (i j : Nat) => ((getD dec (i * n + j) (none, [])).1).getD .eq
  let ops := fun (i j : Nat) => (getD dec (i * n + j) (none, [])).2
  let t := fun (i : Nat) => getD ts i (.atom "[]")
  let hinge := fun (i j : Nat) => hingesOnVars (t i) (t j)
  let idx := [0, 1, 2]
  let problems : List String := idx.flatMap fun i => idx.flatMap fun j =>
    let pre := s!"pair ({i+1},{j+1}): "
    -- the answer itself against the specification order
    (if !hinge i j && o i j != stdCompare (t i) (t j) then
      [pre ++ s!"compare/3 answered {ordChar (o i j)}, the standard order says {ordChar (stdCompare (t i) (t j))}"] else []) ++
    -- laws on the real answers
    (if i == j && o i j != .eq then [pre ++ "a term does not compare = with itself"] else []) ++
    (if !hinge i j && o j i != (o i j).swap then [pre ++ "antisymmetry broken: the reversed call does not give the swapped answer"] else []) ++
    (if (o i j == .eq) != identical (t i) (t j) then [pre ++ "'=' is answered for non-identical terms or not for identical ones"] else []) ++
    (idx.flatMap fun k =>
      if !hinge i j && !hinge j k && !hinge i k && !trans3B (o i j) (o j k) (o i k) then
        [pre ++ s!"transitivity broken through term {k+1}"] else []) ++
    -- the six operators against compare/3's own answer
    (if !hinge i j then
      (if ops i j != opsExpected (o i j) then [pre ++ "operators disagree with compare/3: " ++ toString (ops i j)] else [])
     else
      (if getD (ops i j) 4 9 != 0 || getD (ops i j) 5 9 != 1 then [pre ++ "==/\\== wrong on terms that differ in a variable"] else []))
  let bprob :=
    match toks[9]? with
    | some b =>
      if hinge 0 1 then [] else
      let want := "b:" ++ String.join ([Ordering.lt, .eq, .gt].map fun c => if o 0 1 == c then "1" else "0")
      if b == want then [] else [s!"compare/3 with a bound first argument: got {b}, want {want}"]
    | none => ["missing b: token"]
  match problems ++ bprob with
  | [] => "ok"
  | p :: _ => "FAIL " ++ p

/-! ### compare/3 with an arbitrary first argument -/

def cmp3Model (o x y : Term) : String :=
  match compare3 o x y with
  | .ok (some b) => "true " ++ b.wire
  | .ok none => "false"
  | .error e => errOut e

def judgeCmp3 (o x y : Term) (impl : String) : String :=
  if !noNaN x || !noNaN y then "-" else
  if hingesOnVars x y then "-" else
  let c := ordChar (stdCompare x y)
  let want :=
    match o with
    | .var _ => "true A" ++ c
    | .atom a =>
      if a == "<" || a == "=" || a == ">" then (if a == c then "true A" ++ a else "false")
      else "err " ++ (Term.app "domain_error" (.cons (.atom "order") (.cons o .nil))).canon.wire
    | _ => "err " ++ (Term.app "type_error" (.cons (.atom "atom") (.cons o .nil))).canon.wire
  if impl == want then "ok" else "FAIL compare/3: want " ++ want

/-! ### arithmetic probe (corpus): can a NaN / infinity be built? -/

def judgeArith (impl : String) : String :=
  match words impl with
  | "val" :: v :: _ =>
    match Term.ofWire v with
    | some (.flt b) =>
      if b.toNat % 2 ^ 63 ≥ 0x7FF0000000000000 then
        "FAIL is/2 returned a NaN or an infinity; compare/3 answers '=' for a NaN against every float, so '=' is not transitive (compare_nan_witness)"
      else "ok"
    | _ => "ok"
  | _ => "ok"

def compareHandler : Handler := fun payload impl =>
  let f := fields payload
  match f with
  | ["tri", _, _, _, _, a1, a2, a3] =>
    match Term.ofWire a1, Term.ofWire a2, Term.ofWire a3 with
    | some x, some y, some z => (triModel [x, y, z], judgeTri [x, y, z] impl)
    | _, _, _ => ("BAD-TERMS", "FAIL unparsable payload")
  | ["cmp3", _, o, x, y] =>
    match Term.ofWire o, Term.ofWire x, Term.ofWire y with
    | some o, some x, some y => (cmp3Model o x y, judgeCmp3 o x y impl)
    | _, _, _ => ("BAD-TERMS", "FAIL unparsable payload")
  | "arith" :: _ => (impl, judgeArith impl)
  | _ => ("BAD-PAYLOAD", "FAIL unparsable payload")

/-! ## c08.sort -/

/-! canonical printing of sort/2 answers: -0.0 as 0.0 (`OrderSpec.normZero`): which of two `=` elements
    survives the duplicate removal depends on Go's unstable sort.Slice; `set_spec` proves uniqueness up
    to `=` only, `set_canonical` that the normalised answers coincide. -/

/-- unification of the answer with a `Sorted` argument made of fresh distinct variables, list cells
    and `[]` only (the generator's patterns): succeeds iff the skeleton fits; `Sorted` then IS the answer -/
def fitsPattern : Nat → Term → Term → Bool
  | 0, _, _ => false
  | _, .var _, _ => true
  | _, .atom "[]", .atom "[]" => true
  | fuel + 1, .app "." (.cons p (.cons ps .nil)), .app "." (.cons v (.cons vs .nil)) =>
    fitsPattern fuel p v && fitsPattern fuel ps vs
  | _, _, _ => false

def sortModel (kind : String) (list sorted : Term) : String :=
  let r : Except Term Term :=
    match kind with
    | "sort" => Order.sort (insertionSort Order.compare) list sorted
    | "keysort" => Order.keysort (insertionSort cmpKey) list sorted
    | _ => -- setof(X, member(X, List), Sorted) on a ground proper list
      match listElems false list with
      | .ok [] => .error (.atom "$fail")
      | .ok es => .ok (Term.list (set (insertionSort Order.compare) es))
      | .error e => .error e
  match r with
  | .error (.atom "$fail") => "false"
  | .error e => errOut e
  | .ok ans =>
    if fitsPattern (2 * ans.size + 4) sorted ans then
      "ans " ++ (if kind == "keysort" then ans else normZero ans).wire ++
        -- re-runs on the real engine must agree with sort_idempotent / sort_perm_invariant / keysort stability
        (match sorted with
         | .var _ => if kind == "keysort" then " ; idem=same" else " ; idem=same perm=same"
         | _ => "")
    else "false"

/-! ### verdict for the sorting built-ins -/

def isPair : Term → Bool
  | .app "-" (.cons _ (.cons _ .nil)) => true
  | _ => false

def keyOfPair : Term → Term
  | .app "-" (.cons k _) => k
  | t => t

def isVar : Term → Bool
  | .var _ => true
  | _ => false

def mkErr2 (f a : String) (c : Term) : String :=
  "err " ++ (Term.app f (.cons (.atom a) (.cons c .nil))).canon.wire

/-- every error the ISO rules admit for this call (the order of the checks is not fixed) -/
def admissibleErrors (kind : String) (list sorted : Term) : List String :=
  let (es, tail) := list.spine
  let (ss, stail) := sorted.spine
  (if isVar tail then ["err " ++ (Term.atom "instantiation_error").wire] else []) ++
  (if !isVar tail && tail != .atom "[]" then [mkErr2 "type_error" "list" list] else []) ++
  (if !isVar stail && stail != .atom "[]" then [mkErr2 "type_error" "list" sorted] else []) ++
  (if kind == "keysort" then
    (if es.any isVar then ["err " ++ (Term.atom "instantiation_error").wire] else []) ++
    (es.filter (fun e => !isVar e && !isPair e)).map (mkErr2 "type_error" "pair") ++
    (ss.filter (fun e => !isVar e && !isPair e)).map (mkErr2 "type_error" "pair")
   else [])

/-- strictly ascending, tolerating adjacent pairs whose order hinges on two distinct variables -/
def strictAscMod : List Term → Bool
  | [] => true
  | [_] => true
  | a :: b :: rest =>
    (if hingesOnVars a b then stdCompare a b != .eq else stdCompare a b == .lt) && strictAscMod (b :: rest)

def ascByKeyMod : List Term → Bool
  | [] => true
  | [_] => true
  | a :: b :: rest =>
    (hingesOnVars (keyOfPair a) (keyOfPair b) || stdCompare (keyOfPair a) (keyOfPair b) != .gt) && ascByKeyMod (b :: rest)

def countOcc (x : Term) (l : List Term) : Nat := (l.filter (· == x)).length

def judgeSort (kind : String) (list sorted : Term) (impl : String) : String :=
  if !noNaN list then "-" else
  let errs := admissibleErrors kind list sorted
  if impl.startsWith "err " then
    if errs.contains impl then "ok" else
      "FAIL unexpected error; admissible: " ++ toString errs
  else if !errs.isEmpty then "FAIL the call must raise one of " ++ toString errs
  else
    let (es, _) := list.spine
    let (ps, _) := sorted.spine
    match words impl with
    | ["false"] =>
      -- only a Sorted pattern that is longer than the answer can make the call fail
      let classes := es.foldl (fun acc e => if acc.any (fun a => stdCompare a e == .eq) then acc else acc ++ [e]) []
      let need := if kind == "keysort" then es.length else classes.length
      if kind == "setof" && es.isEmpty then "ok"
      else if ps.length > need then "ok" else "FAIL the call failed"
    | "ans" :: rest0 =>
      let rest := rest0.takeWhile (· != ";")
      if rest0.contains "idem=diff" then "FAIL sorting the answer again changed it (sort_idempotent / stability)" else
      if rest0.contains "perm=diff" then "FAIL sorting the reversed list gave a different answer (sort_perm_invariant)" else
      match Term.ofWire (" ".intercalate rest) with
      | none => "FAIL unparsable answer"
      | some ans =>
        let (r, rt) := ans.spine
        if rt != .atom "[]" then "FAIL the answer is not a list" else
        if kind == "keysort" then
          if !(r.length == es.length && es.all (fun e => countOcc e r == countOcc e es)) then
            "FAIL keysort/2: the answer is not a permutation of the pairs"
          else if !ascByKeyMod r then "FAIL keysort/2: keys are not ascending"
          else if !(es.all fun x =>
              r.filter (fun y => stdCompare (keyOfPair x) (keyOfPair y) == .eq)
                == es.filter (fun y => stdCompare (keyOfPair x) (keyOfPair y) == .eq)) then
            "FAIL keysort/2: not stable (pairs with = keys changed their relative order)"
          else "ok"
        else
          let es' := es.map normZero
          if !strictAscMod r then "FAIL sort/2: the answer is not strictly ascending (sorted, duplicate-free)"
          else if !sameElemsB es' r then "FAIL sort/2: the answer does not have the same elements"
          else "ok"
    | _ => "FAIL malformed answer line"

def sortHandler : Handler := fun payload impl =>
  match fields payload with
  | [kind, _, _, _, al, as] =>
    match Term.ofWire al, Term.ofWire as with
    | some l, some s => (sortModel kind l s, judgeSort kind l s impl)
    | _, _ => ("BAD-TERMS", "FAIL unparsable payload")
  | _ => ("BAD-PAYLOAD", "FAIL unparsable payload")

end PrologVerif.Driver.C08
