/-
  exec_safe, part 2 — the pieces every step is made of: well-formed promises (`failP`, `okP`, errors
  that are not panics, `mkErr`, `clausesCall`, `callGoal`, `appendLists`) and well-formed states
  (`freshVars`, `freshId`, `renamedCopy` leave the procedures alone; `setProc` with compiled clauses
  of the right arity keeps `StOK`).
-/
import PrologVerif.Proofs.ExecSafeCompile
namespace PrologVerif.ExecSafe
open PrologVerif PrologVerif.VM PrologVerif.Promise

/-! ## results -/

/-- the result of a step (`none` = out of fuel) is a well-formed promise and a well-formed state -/
def ROK (r : Option (Pr × MS)) : Prop := ∀ p m', r = some (p, m') → PrOK p ∧ StOK m'.user

/-- the same for `builtin` (outer `none` = not a builtin, `some none` = out of fuel) -/
def R2OK (r : Option (Option (Pr × MS))) : Prop := ∀ p m', r = some (some (p, m')) → PrOK p ∧ StOK m'.user

theorem ROK_none : ROK none := fun _ _ h => by cases h

theorem ROK_some {p : Pr} {m : MS} (hp : PrOK p) (hm : StOK m.user) : ROK (some (p, m)) := by
  intro p' m' h
  cases h
  exact ⟨hp, hm⟩

theorem ROK_pair {r : Pr × MS} (h : PrOK r.1 ∧ StOK r.2.user) : ROK (some r) := by
  intro p' m' e
  cases e
  exact h

theorem R2OK_none : R2OK none := fun _ _ h => by cases h
theorem R2OK_some_none : R2OK (some none) := fun _ _ h => by cases h

theorem R2OK_some {r : Option (Pr × MS)} (h : ROK r) : R2OK (some r) := by
  intro p m' e
  cases e
  exact h p m' rfl

theorem R2OK_pair {r : Pr × MS} (h : PrOK r.1 ∧ StOK r.2.user) : R2OK (some (some r)) :=
  R2OK_some (ROK_pair h)

/-! ## promises -/

theorem not_IsPanic_of_err_none {p : Pr} (h : p.err = none) : ¬ IsPanic p := by
  rintro ⟨msg, h1, _⟩
  rw [h] at h1
  cases h1

theorem PrOK_failP : PrOK failP :=
  ⟨by simp [failP], by simp [failP], not_IsPanic_of_err_none rfl⟩

theorem PrOK_okP : PrOK okP :=
  ⟨by simp [okP], by simp [okP], not_IsPanic_of_err_none rfl⟩

theorem PrOK_exc (t : Term) : PrOK (errP (.exc t)) := by
  refine ⟨by simp [errP], by simp [errP], ?_⟩
  rintro ⟨msg, h1, _⟩
  simp [errP] at h1

theorem PrOK_goErr (msg : String) (h : msg.startsWith "panic" = false) : PrOK (errP (.goErr msg)) := by
  refine ⟨by simp [errP], by simp [errP], ?_⟩
  rintro ⟨msg', h1, h2⟩
  simp only [errP, Option.some.injEq, Err.goErr.injEq] at h1
  subst h1
  rw [h] at h2
  cases h2

/-- a promise that only holds alternatives -/
theorem PrOK_delayed (id : Nat) (ts : List Thunk) (cp : Option Nat) (rep : Bool) (h : ∀ t ∈ ts, ThunkOK t) :
    PrOK { id := id, delayed := ts, cutParent := cp, rep := rep } :=
  ⟨h, by simp, not_IsPanic_of_err_none rfl⟩

/-! ## states -/

theorem StOK_of_procs {s s' : St} (h : s'.procs = s.procs) (hs : StOK s) : StOK s' := by
  intro f n p hp
  apply hs f n p
  simpa [lookupProc, h] using hp

theorem freshVars_length (n : Nat) (m : MS) : (freshVars n m).1.length = n := by simp [freshVars]

theorem freshVars_eq {n : Nat} {m m' : MS} {fs : List Nat} (h : freshVars n m = (fs, m')) :
    fs.length = n ∧ m'.user.procs = m.user.procs := by
  simp only [freshVars, Prod.mk.injEq] at h
  obtain ⟨rfl, rfl⟩ := h
  simp

theorem renamedCopy_procs (t : Term) (env : Env) (m : MS) :
    (renamedCopy t env m).2.user.procs = m.user.procs := rfl

theorem mkErr_ok (formal : Term) (env : Env) (m : MS) (hm : StOK m.user) :
    PrOK (mkErr formal env m).1 ∧ StOK (mkErr formal env m).2.user :=
  ⟨PrOK_exc _, hm⟩

theorem clausesCall_ok (cs : List Clause) (args : List Term) (k : Cont) (env : Env) (m : MS)
    (hcs : ∀ c ∈ cs, ClauseOK c ∧ args.length = c.arity) (hk : ContOK k) (hm : StOK m.user) :
    PrOK (clausesCall cs args k env m).1 ∧ StOK (clausesCall cs args k env m).2.user := by
  refine ⟨?_, hm⟩
  refine PrOK_delayed _ _ none false ?_
  intro t ht
  simp only [List.mem_map] at ht
  obtain ⟨c, hc, rfl⟩ := ht
  exact .clause c args k env _ (hcs c hc).1 (hcs c hc).2 hk

theorem appendLists_ok (xs ys zs : Term) (k : Cont) (env : Env) (m : MS) (hk : ContOK k)
    (hm : StOK m.user) :
    PrOK (appendLists xs ys zs k env m).1 ∧ StOK (appendLists xs ys zs k env m).2.user := by
  refine ⟨?_, hm⟩
  refine PrOK_delayed _ _ none false ?_
  intro t ht
  simp only [List.mem_cons, List.not_mem_nil, or_false] at ht
  rcases ht with rfl | rfl
  · exact .unifyK _ _ k env hk
  · exact .appendRec _ _ _ k env hk

/-! ## `Call` -/

theorem toReps_length : ∀ as : Args, (toReps as).length = as.length
  | .nil => rfl
  | .cons _ ts => by simp [toReps, RepList.length, Args.length, toReps_length ts]

theorem Args.length_ofList : ∀ l : List Term, (Args.ofList l).length = l.length
  | [] => rfl
  | _ :: ts => by simp [Args.ofList, Args.length, Args.length_ofList ts]

theorem mkApp_of_ne (f : String) (rs : RepList) (h : f ≠ ".") : mkApp f rs = .compound f rs := by
  unfold mkApp
  split
  · exact absurd rfl h
  · rfl

theorem tupleName_ne : tupleName ≠ "." := by decide

theorem compileCall_ok (g : Term) (env : Env) (cs : List Clause) (fvs : List Term)
    (h : compileCall g env = .ok (cs, fvs)) : ∀ c ∈ cs, ClauseOK c ∧ fvs.length = c.arity := by
  unfold compileCall at h
  simp only at h
  split at h
  · rename_i cs' hc
    simp only [Except.ok.injEq, Prod.mk.injEq] at h
    obtain ⟨rfl, rfl⟩ := h
    intro c hmem
    have he : toRep (.app ":-" (.cons
        (if ((termVars (app env g) []).map Term.var).isEmpty then Term.atom tupleName
          else Term.app tupleName (Args.ofList ((termVars (app env g) []).map Term.var)))
        (.cons (app env g) .nil))) =
        .compound ":-" (.cons (toRep
          (if ((termVars (app env g) []).map Term.var).isEmpty then Term.atom tupleName
          else Term.app tupleName (Args.ofList ((termVars (app env g) []).map Term.var))))
          (.cons (toRep (app env g)) .nil)) := by
      simp only [toRep, toReps]
      exact mkApp_of_ne _ _ (by decide)
    rw [he] at hc
    obtain ⟨h1, _, h3⟩ := compile_emitted _ _ hc c hmem
    refine ⟨h1, ?_⟩
    rw [h3]
    simp only [headOf]
    split
    · rename_i hemp
      simp only [toRep, compileHead]
      simpa using hemp
    · simp only [toRep, mkApp_of_ne _ _ tupleName_ne, compileHead, toReps_length, Args.length_ofList]
  · cases h

theorem callGoal_ok (goal : Term) (k : Cont) (env : Env) (m : MS) (hk : ContOK k) (hm : StOK m.user) :
    PrOK (callGoal goal k env m).1 ∧ StOK (callGoal goal k env m).2.user := by
  unfold callGoal
  split
  · exact mkErr_ok _ _ _ hm
  · split
    · rename_i cs fvs hc
      exact clausesCall_ok cs fvs k env m (compileCall_ok _ _ _ _ hc) hk hm
    · exact mkErr_ok _ _ _ hm

/-! ## adding clauses -/

theorem lookup_filter_ne {β : Type} (k0 k : String × Nat) (hk : k ≠ k0) :
    ∀ l : List ((String × Nat) × β), (l.filter (fun e => decide (e.1 ≠ k0))).lookup k = l.lookup k
  | [] => rfl
  | (a, b) :: l => by
    have ih := lookup_filter_ne k0 k hk l
    by_cases ha : a = k0
    · have hb : (k == a) = false := by rw [ha]; simpa using hk
      simp only [List.filter, ne_eq, ha, not_true_eq_false, decide_false, List.lookup]
      rw [← ha] at ih ⊢
      simp only [hb]
      exact ih
    · simp only [List.filter, ne_eq, ha, not_false_eq_true, decide_true, List.lookup]
      split
      · rfl
      · exact ih

theorem lookupProc_setProc (s : St) (f : String) (n : Nat) (p : Proc) (f' : String) (n' : Nat) :
    lookupProc (setProc s f n p) f' n' = if (f', n') = (f, n) then some p else lookupProc s f' n' := by
  unfold lookupProc setProc
  by_cases h : (f', n') = (f, n)
  · simp [List.lookup, h]
  · have hb : ((f', n') == (f, n)) = false := by simpa using h
    simp only [List.lookup, hb, h, if_false]
    exact lookup_filter_ne (f, n) (f', n') h s.procs

theorem StOK_setProc (s : St) (f : String) (n : Nat) (p : Proc) (hs : StOK s)
    (hp : ∀ c ∈ p.clauses, ClauseOK c ∧ c.arity = n) : StOK (setProc s f n p) := by
  intro f' n' p' h
  rw [lookupProc_setProc] at h
  split at h
  · rename_i heq
    cases h
    simp only [Prod.mk.injEq] at heq
    rw [heq.2]
    exact hp
  · exact hs f' n' p' h

/-- the step shared by `assertClause`, `loadClauses` and `runQuery`: the clauses of one compiled term
    go in front of / behind the clauses stored under the first one's name and arity -/
theorem StOK_addClauses (s : St) (r : Rep) (c : Clause) (rest : List Clause) (d : Proc) (front : Bool)
    (hd : d.clauses = []) (h : compile r = .ok (c :: rest)) (hs : StOK s) (dyn : Bool) :
    StOK (setProc s c.name c.arity
      { clauses := if front then (c :: rest) ++ ((lookupProc s c.name c.arity).getD d).clauses
                   else ((lookupProc s c.name c.arity).getD d).clauses ++ (c :: rest),
        dynamic := dyn }) := by
  apply StOK_setProc _ _ _ _ hs
  have hnew : ∀ c' ∈ c :: rest, ClauseOK c' ∧ c'.arity = c.arity := by
    intro c' hc'
    have h1 := compile_emitted r _ h c' hc'
    have h2 := compile_emitted r _ h c (by simp)
    exact ⟨h1.1, by rw [h1.2.2, h2.2.2]⟩
  have hold : ∀ c' ∈ ((lookupProc s c.name c.arity).getD d).clauses, ClauseOK c' ∧ c'.arity = c.arity := by
    intro c' hc'
    cases hl : lookupProc s c.name c.arity with
    | none => rw [hl] at hc'; simp [hd] at hc'
    | some p => rw [hl] at hc'; exact hs _ _ p hl c' hc'
  intro c' hc'
  simp only at hc'
  cases front with
  | true =>
    simp only [if_true] at hc'
    rcases List.mem_append.1 hc' with h | h
    · exact hnew c' h
    · exact hold c' h
  | false =>
    simp only [Bool.false_eq_true, if_false] at hc'
    rcases List.mem_append.1 hc' with h | h
    · exact hold c' h
    · exact hnew c' h

end PrologVerif.ExecSafe
