/-
  Hoare-style specifications of every function of the lexer model (Model/Lexer.lean):
  ring-buffer soundness, consumption accounting and fuel adequacy in one pass.

  `RI k l`  : the ghost ring buffer of `l` is sound and `k` more backups are possible.
  `Post a b l r` : the result `r` of a lexer function started in `l` is not a fuel error and, if it
                  is a token with state `l'`, then `RI 0 l'` and `l'.rest.length + a ≤ l.rest.length + b`.
-/
import PrologVerif.Model.Lexer
set_option linter.unusedSimpArgs false
set_option linter.unusedVariables false
namespace PrologVerif.Lexer

/-- ring invariant with `k` backups in credit: the buffer is sound, holds at most its 4 slots,
    and `k` more `UnreadRune`s can be made without stepping over what it holds -/
def RI (k : Nat) (l : Lexer) : Prop :=
  l.ring.sound = true ∧ l.ring.held + l.ring.pend ≤ 4 ∧ l.ring.pend + k ≤ 3 ∧ k ≤ l.ring.held ∧
    l.ring.held ≤ l.hist.length

/-- postcondition of a lexer function started in `l` -/
def Post {α : Type} (a b : Nat) (l : Lexer) : Except Err (α × Lexer) → Prop
  | .ok (_, l') => RI 0 l' ∧ l'.rest.length + a ≤ l.rest.length + b
  | .error .eof => True
  | .error .fuel => False

theorem Post.mono {α : Type} {a b a' b' : Nat} {l l1 : Lexer} {r : Except Err (α × Lexer)} (h : Post a b l1 r)
    (hl : ∀ n, n + a ≤ l1.rest.length + b → n + a' ≤ l.rest.length + b') : Post a' b' l r := by
  unfold Post at *
  split <;> simp_all

theorem RI.mono {k k' : Nat} {l : Lexer} (h : RI k l) (hk : k' ≤ k) : RI k' l := by
  unfold RI at *; refine ⟨h.1, ?_, ?_, ?_, ?_⟩ <;> omega

/-- closes the arithmetic side goals once the state has been made explicit -/
macro "lx" : tactic =>
  `(tactic| (simp (config := { decide := false }) [RI, Post, emit, accept, backup, Ring.read, Ring.unread, *] <;> omega))

variable (cfg : Cfg)

/-! ## simple loops -/

theorem letterDigitToken_spec (fuel : Nat) (l : Lexer) (hr : RI 0 l) (hf : l.rest.length + 1 ≤ fuel) :
    Post 0 0 l (letterDigitToken cfg fuel l) := by
  induction fuel generalizing l with
  | zero => omega
  | succ fuel ih =>
    rcases l with ⟨hist, rest, chunk, ring⟩
    simp only [RI] at hr
    obtain ⟨hs, h1, h2, h3, h4⟩ := hr
    cases rest with
    | nil => simp only [letterDigitToken, next, rawNext]; lx
    | cons c rest =>
      simp only [letterDigitToken, next, rawNext]
      simp only [List.length_cons] at hf
      split
      · refine (ih _ ?_ ?_).mono ?_ <;> lx
      · lx

theorem graphicToken_spec (fuel : Nat) (l : Lexer) (hr : RI 0 l) (hf : l.rest.length + 1 ≤ fuel) :
    Post 0 0 l (graphicToken cfg fuel l) := by
  induction fuel generalizing l with
  | zero => omega
  | succ fuel ih =>
    rcases l with ⟨hist, rest, chunk, ring⟩
    simp only [RI] at hr
    obtain ⟨hs, h1, h2, h3, h4⟩ := hr
    cases rest with
    | nil => simp only [graphicToken, next, rawNext]; lx
    | cons c rest =>
      simp only [graphicToken, next, rawNext]
      simp only [List.length_cons] at hf
      split
      · refine (ih _ ?_ ?_).mono ?_ <;> lx
      · lx

theorem variableToken_spec (fuel : Nat) (l : Lexer) (hr : RI 0 l) (hf : l.rest.length + 1 ≤ fuel) :
    Post 0 0 l (variableToken cfg fuel l) := by
  induction fuel generalizing l with
  | zero => omega
  | succ fuel ih =>
    rcases l with ⟨hist, rest, chunk, ring⟩
    simp only [RI] at hr
    obtain ⟨hs, h1, h2, h3, h4⟩ := hr
    cases rest with
    | nil => simp only [variableToken, next, rawNext]; lx
    | cons c rest =>
      simp only [variableToken, next, rawNext]
      simp only [List.length_cons] at hf
      split
      · refine (ih _ ?_ ?_).mono ?_ <;> lx
      · lx

theorem digitLoop_spec (isDigit : Char → Bool) (k : Kind) (fuel : Nat) (l : Lexer) (hr : RI 0 l)
    (hf : l.rest.length + 1 ≤ fuel) : Post 0 0 l (digitLoop cfg isDigit k fuel l) := by
  induction fuel generalizing l with
  | zero => omega
  | succ fuel ih =>
    rcases l with ⟨hist, rest, chunk, ring⟩
    simp only [RI] at hr
    obtain ⟨hs, h1, h2, h3, h4⟩ := hr
    cases rest with
    | nil => simp only [digitLoop, next, rawNext]; lx
    | cons c rest =>
      simp only [digitLoop, next, rawNext]
      simp only [List.length_cons] at hf
      split
      · refine (ih _ ?_ ?_).mono ?_ <;> lx
      · lx

/-! ## escape sequences -/

theorem octalEscapeSequence_spec (fuel : Nat) (l : Lexer) (hr : RI 0 l) (hf : l.rest.length + 1 ≤ fuel) :
    Post 1 0 l (octalEscapeSequence fuel l) := by
  induction fuel generalizing l with
  | zero => omega
  | succ fuel ih =>
    rcases l with ⟨hist, rest, chunk, ring⟩
    simp only [RI] at hr
    obtain ⟨hs, h1, h2, h3, h4⟩ := hr
    cases rest with
    | nil => simp [octalEscapeSequence, rawNext, Post]
    | cons c rest =>
      simp only [octalEscapeSequence, rawNext]
      simp only [List.length_cons] at hf
      split
      · lx
      · split
        · refine (ih _ ?_ ?_).mono ?_ <;> lx
        · lx

theorem hexadecimalEscapeLoop_spec (fuel : Nat) (l : Lexer) (hr : RI 0 l) (hf : l.rest.length + 1 ≤ fuel) :
    Post 1 0 l (hexadecimalEscapeLoop cfg fuel l) := by
  induction fuel generalizing l with
  | zero => omega
  | succ fuel ih =>
    rcases l with ⟨hist, rest, chunk, ring⟩
    simp only [RI] at hr
    obtain ⟨hs, h1, h2, h3, h4⟩ := hr
    cases rest with
    | nil => simp [hexadecimalEscapeLoop, next, rawNext, Post]
    | cons c rest =>
      simp only [hexadecimalEscapeLoop, next, rawNext]
      simp only [List.length_cons] at hf
      split
      · lx
      · split
        · refine (ih _ ?_ ?_).mono ?_ <;> lx
        · lx

theorem hexadecimalEscapeSequence_spec (fuel : Nat) (l : Lexer) (hr : RI 0 l) (hf : l.rest.length + 1 ≤ fuel) :
    Post 1 0 l (hexadecimalEscapeSequence cfg fuel l) := by
  rcases l with ⟨hist, rest, chunk, ring⟩
  simp only [RI] at hr
  obtain ⟨hs, h1, h2, h3, h4⟩ := hr
  cases rest with
  | nil => simp [hexadecimalEscapeSequence, rawNext, Post]
  | cons c rest =>
    simp only [hexadecimalEscapeSequence, rawNext]
    simp only [List.length_cons] at hf
    split
    · refine (hexadecimalEscapeLoop_spec cfg _ _ ?_ ?_).mono ?_ <;> lx
    · lx

theorem escapeSequence_spec (fuel : Nat) (l : Lexer) (hr : RI 0 l) (hf : l.rest.length + 1 ≤ fuel) :
    Post 1 0 l (escapeSequence cfg fuel l) := by
  rcases l with ⟨hist, rest, chunk, ring⟩
  simp only [RI] at hr
  obtain ⟨hs, h1, h2, h3, h4⟩ := hr
  cases rest with
  | nil => simp [escapeSequence, rawNext, Post]
  | cons c rest =>
    simp only [escapeSequence, rawNext]
    simp only [List.length_cons] at hf
    split
    · lx
    · split
      · refine (octalEscapeSequence_spec _ _ ?_ ?_).mono ?_ <;> lx
      · split
        · refine (hexadecimalEscapeSequence_spec cfg _ _ ?_ ?_).mono ?_ <;> lx
        · lx

/-- the way every caller continues after `escapeSequence`: an invalid token, or `cont()` -/
theorem escMatch_post {α : Type} (fuel : Nat) (X l : Lexer) (a b : Nat)
    (onInv onCont : Lexer → Except Err (α × Lexer))
    (hX : RI 0 X) (hXf : X.rest.length + 1 ≤ fuel)
    (hInv : ∀ l', RI 0 l' → l'.rest.length + 1 ≤ X.rest.length → Post a b l (onInv l'))
    (hCont : ∀ l', RI 0 l' → l'.rest.length + 1 ≤ X.rest.length → Post a b l (onCont l')) :
    Post a b l (escThen (escapeSequence cfg fuel X) onInv onCont) := by
  have h := escapeSequence_spec cfg fuel X hX hXf
  revert h
  unfold escThen
  cases escapeSequence cfg fuel X with
  | error e => cases e <;> simp [Post]
  | ok v =>
    rcases v with ⟨e, l'⟩
    cases e
    · intro h; exact hInv l' h.1 (by have := h.2; omega)
    · intro h; exact hCont l' h.1 (by have := h.2; omega)

/-! ## quoted tokens -/

theorem finishQuoted_post (a b : Nat) (l l0 : Lexer) (hr : RI 0 l)
    (hl : l.rest.length + a ≤ l0.rest.length + b) : Post a b l0 (finishQuoted l) := by
  unfold finishQuoted
  split <;> simp [emit, Post, hr, hl]

theorem quotedToken_spec (fuel : Nat) (l : Lexer) (hr : RI 0 l) (hf : l.rest.length + 1 ≤ fuel) :
    Post 0 0 l (quotedToken cfg fuel l) := by
  induction fuel generalizing l with
  | zero => omega
  | succ fuel ih =>
    rcases l with ⟨hist, rest, chunk, ring⟩
    simp only [RI] at hr
    obtain ⟨hs, h1, h2, h3, h4⟩ := hr
    cases rest with
    | nil => simp [quotedToken, rawNext, Post]
    | cons c rest =>
      simp only [quotedToken, rawNext]
      simp only [List.length_cons] at hf
      split
      · refine (ih _ ?_ ?_).mono ?_ <;> lx
      · split
        · -- closing quote, or a doubled one
          cases rest with
          | nil =>
            simp only [accept, rawNext, List.length_nil] at hf ⊢
            exact finishQuoted_post _ _ _ _ (by lx) (by lx)
          | cons c2 rest =>
            simp only [accept, rawNext, List.length_cons] at hf ⊢
            split
            · refine (ih _ ?_ ?_).mono ?_ <;> lx
            · exact finishQuoted_post _ _ _ _ (by lx) (by lx)
        · split
          · -- backslash
            cases rest with
            | nil =>
              simp only [accept, rawNext, List.length_nil] at hf ⊢
              refine escMatch_post cfg _ _ _ _ _ _ _ (by lx) (by lx) ?_ ?_
              · intro l' h1' h2'; simp at h2'
              · intro l' h1' h2'; simp at h2'
            | cons c2 rest =>
              simp only [accept, rawNext, List.length_cons] at hf ⊢
              split
              · refine (ih _ ?_ ?_).mono ?_ <;> lx
              · refine escMatch_post cfg _ _ _ _ _ _ _ (by lx) (by lx) ?_ ?_
                · intro l' h1' h2'
                  simp only [backup, List.length_cons] at h2'
                  simp only [emit, Post, List.length_cons]
                  exact ⟨h1', by omega⟩
                · intro l' h1' h2'
                  simp only [backup, List.length_cons] at h2'
                  refine (ih _ h1' (by omega)).mono ?_
                  simp only [List.length_cons]; omega
          · lx

theorem doubleQuotedListToken_spec (fuel : Nat) (l : Lexer) (hr : RI 0 l) (hf : l.rest.length + 1 ≤ fuel) :
    Post 0 0 l (doubleQuotedListToken cfg fuel l) := by
  induction fuel generalizing l with
  | zero => omega
  | succ fuel ih =>
    rcases l with ⟨hist, rest, chunk, ring⟩
    simp only [RI] at hr
    obtain ⟨hs, h1, h2, h3, h4⟩ := hr
    cases rest with
    | nil => simp [doubleQuotedListToken, rawNext, Post]
    | cons c rest =>
      simp only [doubleQuotedListToken, rawNext]
      simp only [List.length_cons] at hf
      split
      · cases rest with
        | nil => simp only [accept, next, rawNext, List.length_nil] at hf ⊢; lx
        | cons c2 rest =>
          simp only [accept, next, rawNext, List.length_cons] at hf ⊢
          split
          · refine (ih _ ?_ ?_).mono ?_ <;> lx
          · lx
      · split
        · cases rest with
          | nil => simp [accept, next, rawNext, Post]
          | cons c2 rest =>
            simp only [accept, next, rawNext, List.length_cons] at hf ⊢
            split
            · refine (ih _ ?_ ?_).mono ?_ <;> lx
            · refine escMatch_post cfg _ _ _ _ _ _ _ (by lx) (by lx) ?_ ?_
              · intro l' h1' h2'
                simp only [backup, List.length_cons] at h2'
                simp only [emit, Post, List.length_cons]
                exact ⟨h1', by omega⟩
              · intro l' h1' h2'
                simp only [backup, List.length_cons] at h2'
                refine (ih _ h1' (by omega)).mono ?_
                simp only [List.length_cons]; omega
        · refine (ih _ ?_ ?_).mono ?_ <;> lx

/-! ## numbers -/

theorem exponent_spec (fuel : Nat) (l : Lexer) (hr : RI 0 l) (hf : l.rest.length + 1 ≤ fuel) :
    Post 0 0 l (exponent cfg fuel l) := digitLoop_spec cfg _ _ fuel l hr hf

theorem fraction_spec (fuel : Nat) (l : Lexer) (hr : RI 0 l) (hf : l.rest.length + 1 ≤ fuel) :
    Post 0 0 l (fraction cfg fuel l) := by
  induction fuel generalizing l with
  | zero => omega
  | succ fuel ih =>
    rcases l with ⟨hist, rest, chunk, ring⟩
    simp only [RI] at hr
    obtain ⟨hs, h1, h2, h3, h4⟩ := hr
    cases rest with
    | nil => simp only [fraction, next, rawNext]; lx
    | cons c rest =>
      simp only [fraction, next, rawNext]
      simp only [List.length_cons] at hf
      split
      · refine (ih _ ?_ ?_).mono ?_ <;> lx
      · split
        · -- exponent character
          cases rest with
          | nil => lx
          | cons c2 rest =>
            simp only [List.length_cons] at hf ⊢
            by_cases hsg : isSignChar (cfg.conv c2) = true
            · simp only [hsg, ↓reduceIte]
              cases rest with
              | nil => simp only [Option.isSome]; lx
              | cons c3 rest =>
                simp only [List.length_cons] at hf ⊢
                split
                · refine (exponent_spec cfg _ _ ?_ ?_).mono ?_ <;> lx
                · simp only [Option.isSome]; lx
            · simp only [hsg, Bool.false_eq_true, ↓reduceIte, backup, next, rawNext, Option.isSome]
              split
              · refine (exponent_spec cfg _ _ ?_ ?_).mono ?_ <;> lx
              · lx
        · lx

theorem integerConstant_spec (fuel : Nat) (l : Lexer) (hr : RI 0 l) (hf : l.rest.length + 1 ≤ fuel) :
    Post 0 0 l (integerConstant cfg fuel l) := by
  induction fuel generalizing l with
  | zero => omega
  | succ fuel ih =>
    rcases l with ⟨hist, rest, chunk, ring⟩
    simp only [RI] at hr
    obtain ⟨hs, h1, h2, h3, h4⟩ := hr
    cases rest with
    | nil => simp only [integerConstant, next, rawNext]; lx
    | cons c rest =>
      simp only [integerConstant, next, rawNext]
      simp only [List.length_cons] at hf
      split
      · refine (ih _ ?_ ?_).mono ?_ <;> lx
      · split
        · cases rest with
          | nil => lx
          | cons c2 rest =>
            simp only [List.length_cons] at hf ⊢
            split
            · refine (fraction_spec cfg _ _ ?_ ?_).mono ?_ <;> lx
            · lx
        · lx

theorem characterCodeConstant_spec (fuel : Nat) (l : Lexer) (hr : RI 0 l) (hf : l.rest.length + 1 ≤ fuel) :
    Post 0 0 l (characterCodeConstant cfg fuel l) := by
  rcases l with ⟨hist, rest, chunk, ring⟩
  simp only [RI] at hr
  obtain ⟨hs, h1, h2, h3, h4⟩ := hr
  cases rest with
  | nil => simp [characterCodeConstant, next, rawNext, Post]
  | cons c rest =>
    simp only [characterCodeConstant, next, rawNext]
    simp only [List.length_cons] at hf
    split
    · cases rest with
      | nil => simp only [accept]; lx
      | cons c2 rest => simp only [accept]; lx
    · split
      · refine escMatch_post cfg _ _ _ _ _ _ _ (by lx) (by lx) ?_ ?_
        · intro l' h1' h2'
          simp only [accept, List.length_cons] at h2'
          simp only [emit, Post, List.length_cons]
          exact ⟨h1', by omega⟩
        · intro l' h1' h2'
          simp only [accept, List.length_cons] at h2'
          simp only [emit, Post, List.length_cons]
          exact ⟨h1', by omega⟩
      · split <;> lx

/-- entered after `0` and `'` have been read: needs one backup in credit; may end one rune before
    where it started (the quote is given back when the token is just `0`) -/
theorem integerTokenCharacterCode_spec (fuel : Nat) (q : Char) (l : Lexer) (hr : RI 1 l)
    (hf : l.rest.length + 1 ≤ fuel) : Post 0 1 l (integerTokenCharacterCode cfg fuel q l) := by
  rcases l with ⟨hist, rest, chunk, ring⟩
  simp only [RI] at hr
  obtain ⟨hs, h1, h2, h3, h4⟩ := hr
  cases hist with
  | nil => simp at h4; omega
  | cons p hist =>
  simp only [List.length_cons] at h4
  cases rest with
  | nil =>
    simp only [integerTokenCharacterCode, next, rawNext]
    refine (characterCodeConstant_spec cfg _ _ ?_ ?_).mono ?_ <;> lx
  | cons c rest =>
    simp only [integerTokenCharacterCode, next, rawNext]
    simp only [List.length_cons] at hf
    split
    · cases rest with
      | nil => lx
      | cons c2 rest =>
        simp only [List.length_cons] at hf ⊢
        split
        · refine (characterCodeConstant_spec cfg _ _ ?_ ?_).mono ?_ <;> lx
        · lx
    · split
      · cases rest with
        | nil =>
          simp only []
          refine (characterCodeConstant_spec cfg _ _ ?_ ?_).mono ?_ <;> lx
        | cons c2 rest =>
          simp only [List.length_cons] at hf ⊢
          split
          · lx
          · refine (characterCodeConstant_spec cfg _ _ ?_ ?_).mono ?_ <;> lx
      · refine (characterCodeConstant_spec cfg _ _ ?_ ?_).mono ?_ <;> lx

theorem integerTokenRadix_spec (isDigit : Char → Bool) (fuel : Nat) (p : Char) (l : Lexer) (hr : RI 1 l)
    (hf : l.rest.length + 1 ≤ fuel) : Post 0 1 l (integerTokenRadix cfg isDigit fuel p l) := by
  rcases l with ⟨hist, rest, chunk, ring⟩
  simp only [RI] at hr
  obtain ⟨hs, h1, h2, h3, h4⟩ := hr
  cases hist with
  | nil => simp at h4; omega
  | cons p0 hist =>
  simp only [List.length_cons] at h4
  cases rest with
  | nil => simp only [integerTokenRadix, next, rawNext]; lx
  | cons c rest =>
    simp only [integerTokenRadix, next, rawNext]
    simp only [List.length_cons] at hf
    split
    · refine (digitLoop_spec cfg _ _ _ _ ?_ ?_).mono ?_ <;> lx
    · lx

/-- entered after the first digit has been read (not yet accepted) -/
theorem integerToken_spec (fuel : Nat) (first : Char) (l : Lexer) (hr : RI 1 l)
    (hf : l.rest.length + 1 ≤ fuel) : Post 0 0 l (integerToken cfg fuel first l) := by
  rcases l with ⟨hist, rest, chunk, ring⟩
  simp only [RI] at hr
  obtain ⟨hs, h1, h2, h3, h4⟩ := hr
  unfold integerToken
  split
  · cases rest with
    | nil =>
      simp only [accept, next, rawNext]
      refine (integerConstant_spec cfg _ _ ?_ ?_).mono ?_ <;> lx
    | cons c rest =>
      simp only [accept, next, rawNext]
      simp only [List.length_cons] at hf
      split
      · refine (integerTokenCharacterCode_spec cfg _ _ _ ?_ ?_).mono ?_ <;> lx
      · split
        · refine (integerTokenRadix_spec cfg _ _ _ _ ?_ ?_).mono ?_ <;> lx
        · split
          · refine (integerTokenRadix_spec cfg _ _ _ _ ?_ ?_).mono ?_ <;> lx
          · split
            · refine (integerTokenRadix_spec cfg _ _ _ _ ?_ ?_).mono ?_ <;> lx
            · refine (integerConstant_spec cfg _ _ ?_ ?_).mono ?_ <;> lx
  · refine (integerConstant_spec cfg _ _ ?_ ?_).mono ?_ <;> lx

/-! ## tokens -/

theorem wasEndChar_spec (l : Lexer) (hr : RI 0 l) :
    RI 0 (wasEndChar cfg l).2 ∧ (wasEndChar cfg l).2.rest.length = l.rest.length := by
  rcases l with ⟨hist, rest, chunk, ring⟩
  simp only [RI] at hr
  obtain ⟨hs, h1, h2, h3, h4⟩ := hr
  cases rest with
  | nil => simp [wasEndChar, next, rawNext, RI, *]; omega
  | cons c rest => simp only [wasEndChar, next, rawNext]; lx

/-- a successful `token` call consumes at least one rune -/
theorem token_spec (fuel : Nat) (afterLayout : Bool) (l : Lexer) (hr : RI 0 l)
    (hf : l.rest.length + 1 ≤ fuel) : Post 1 0 l (token cfg fuel afterLayout l) := by
  rcases l with ⟨hist, rest, chunk, ring⟩
  have hr0 := hr
  simp only [RI] at hr
  obtain ⟨hs, h1, h2, h3, h4⟩ := hr
  cases rest with
  | nil => simp [token, next, rawNext, Post]
  | cons c rest =>
    simp only [token, next, rawNext]
    simp only [List.length_cons] at hf
    split
    · refine (letterDigitToken_spec cfg _ _ ?_ ?_).mono ?_ <;> lx
    · split
      · -- `.`
        have hw := wasEndChar_spec cfg (accept { hist := c :: hist, rest := rest, chunk := chunk, ring := ring.read } (cfg.conv c)) (by lx)
        revert hw
        generalize wasEndChar cfg _ = w
        rcases w with ⟨e, l3⟩
        simp only [accept]
        intro hw
        split
        · simp only [emit, Post, List.length_cons]; exact ⟨hw.1, by omega⟩
        · refine (graphicToken_spec cfg _ _ hw.1 (by omega)).mono ?_
          simp only [List.length_cons]; omega
      · split
        · refine (graphicToken_spec cfg _ _ ?_ ?_).mono ?_ <;> lx
        · split
          · refine (quotedToken_spec cfg _ _ ?_ ?_).mono ?_ <;> lx
          · split
            · refine (variableToken_spec cfg _ _ ?_ ?_).mono ?_ <;> lx
            · split
              · refine (integerToken_spec cfg _ _ _ ?_ ?_).mono ?_ <;> lx
              · split
                · refine (doubleQuotedListToken_spec cfg _ _ ?_ ?_).mono ?_ <;> lx
                · split <;> lx

/-! ## layout text -/

theorem layout_spec (fuel : Nat) :
    (∀ al l, RI 0 l → l.rest.length + 2 ≤ fuel → Post 1 0 l (layoutTextSequence cfg fuel al l)) ∧
    (∀ br l, RI 0 l → l.rest.length + 2 ≤ fuel → Post 0 0 l (commentText cfg fuel br l)) ∧
    (∀ l, RI 0 l → l.rest.length + 2 ≤ fuel → Post 0 0 l (commentOpen cfg fuel l)) ∧
    (∀ l, RI 0 l → l.rest.length + 2 ≤ fuel → Post 0 0 l (commentClose cfg fuel l)) := by
  induction fuel with
  | zero => refine ⟨?_, ?_, ?_, ?_⟩ <;> intros <;> omega
  | succ fuel ih =>
    obtain ⟨ihL, ihT, ihO, ihC⟩ := ih
    refine ⟨?_, ?_, ?_, ?_⟩
    · intro al l hr hf
      rcases l with ⟨hist, rest, chunk, ring⟩
      have hr0 := hr
      simp only [RI] at hr
      obtain ⟨hs, h1, h2, h3, h4⟩ := hr
      cases rest with
      | nil =>
        simp only [layoutTextSequence, next, rawNext]
        exact token_spec cfg _ _ _ hr0 (by simp at hf ⊢; omega)
      | cons c rest =>
        simp only [layoutTextSequence, next, rawNext]
        simp only [List.length_cons] at hf
        split
        · refine (ihL _ _ ?_ ?_).mono ?_ <;> lx
        · split
          · refine (ihT _ _ ?_ ?_).mono ?_ <;> lx
          · split
            · refine (ihO _ ?_ ?_).mono ?_ <;> lx
            · refine (token_spec cfg _ _ _ ?_ ?_).mono ?_ <;> lx
    · intro br l hr hf
      rcases l with ⟨hist, rest, chunk, ring⟩
      simp only [RI] at hr
      obtain ⟨hs, h1, h2, h3, h4⟩ := hr
      cases rest with
      | nil => simp [commentText, next, rawNext, Post]
      | cons c rest =>
        simp only [commentText, next, rawNext]
        simp only [List.length_cons] at hf
        split
        · split
          · refine (ihC _ ?_ ?_).mono ?_ <;> lx
          · refine (ihT _ _ ?_ ?_).mono ?_ <;> lx
        · split
          · refine (ihL _ _ ?_ ?_).mono ?_ <;> lx
          · refine (ihT _ _ ?_ ?_).mono ?_ <;> lx
    · intro l hr hf
      rcases l with ⟨hist, rest, chunk, ring⟩
      simp only [RI] at hr
      obtain ⟨hs, h1, h2, h3, h4⟩ := hr
      cases rest with
      | nil =>
        simp only [commentOpen, next, rawNext]
        refine (graphicToken_spec cfg _ _ ?_ ?_).mono ?_ <;> lx
      | cons c rest =>
        simp only [commentOpen, next, rawNext]
        simp only [List.length_cons] at hf
        split
        · refine (ihT _ _ ?_ ?_).mono ?_ <;> lx
        · refine (graphicToken_spec cfg _ _ ?_ ?_).mono ?_ <;> lx
    · intro l hr hf
      rcases l with ⟨hist, rest, chunk, ring⟩
      simp only [RI] at hr
      obtain ⟨hs, h1, h2, h3, h4⟩ := hr
      cases rest with
      | nil => simp [commentClose, next, rawNext, Post]
      | cons c rest =>
        simp only [commentClose, next, rawNext]
        simp only [List.length_cons] at hf
        split
        · refine (ihL _ _ ?_ ?_).mono ?_ <;> lx
        · split
          · refine (ihC _ ?_ ?_).mono ?_ <;> lx
          · refine (ihT _ _ ?_ ?_).mono ?_ <;> lx

/-- `Token()`: started with a sound ring buffer it never runs out of the fuel the model supplies,
    and if it delivers a token it has consumed at least one rune and leaves the ring buffer sound -/
theorem lexToken_spec (l : Lexer) (hr : RI 0 l) : Post 1 0 l (lexToken cfg l) := by
  unfold lexToken
  refine ((layout_spec cfg (tokenFuel l)).1 false { l with chunk := [] } ?_ ?_).mono ?_
  · simpa [RI] using hr
  · simp [tokenFuel]; omega
  · simp

end PrologVerif.Lexer
