/-
  C20: the loader's contiguity check simulates the run-scanning specification.
-/
import PrologVerif.Proofs.Text
namespace PrologVerif.Load
open PrologVerif
open PrologVerif.DB (PI clausePI)

/-- the staging text and the scanner of the specification describe the same situation -/
structure Sim (tx : Text) (s : Scan) : Prop where
  cur : s.cur = (tx.buf.head?).map (·.1)
  closed : ∀ pi, pi ∈ s.closed ↔ stagedClauses tx pi ≠ []
  disc : ∀ pi, pi ∈ s.disc ↔ (orEmpty (tx.clauses.get pi)).discontiguous = true
  bufok : BufOK tx

theorem stagedClauses_eq (tx : Text) (pi : PI) :
    stagedClauses tx pi = (orEmpty (tx.clauses.get pi)).clauses := by
  unfold stagedClauses orEmpty
  cases tx.clauses.get pi <;> rfl

theorem sim_empty : Sim Text.empty ⟨none, [], []⟩ := by
  refine ⟨rfl, ?_, ?_, bufOK_nil rfl⟩
  · intro pi; simp [stagedClauses, Text.empty, Table.get]
  · intro pi; simp [Text.empty, Table.get, orEmpty, UProc.empty]

/-- `text.flush` fails exactly when the specification's run end is a violation, and otherwise
    both move to corresponding states -/
theorem flush_sim {tx : Text} {s : Scan} (h : Sim tx s) :
    (endRun s = none → ∃ pi, flush tx = .error (.discontiguous pi)) ∧
    (∀ s', endRun s = some s' → ∃ tx', flush tx = .ok tx' ∧ Sim tx' s' ∧ tx'.buf = []) := by
  unfold endRun flush
  cases hbuf : tx.buf with
  | nil =>
    have hc : s.cur = none := by rw [h.cur, hbuf]; rfl
    simp only [hc]
    constructor
    · intro h0; cases h0
    · intro s' hs
      simp only [Option.some.injEq] at hs
      subst hs
      exact ⟨tx, rfl, h, hbuf⟩
  | cons e b =>
    obtain ⟨pi0, r0⟩ := e
    have hc : s.cur = some pi0 := by rw [h.cur, hbuf]; rfl
    simp only [hc]
    generalize hu : orEmpty (tx.clauses.get pi0) = u
    have hcl : pi0 ∈ s.closed ↔ u.clauses ≠ [] := by rw [h.closed, stagedClauses_eq, hu]
    have hdi : pi0 ∉ s.disc ↔ u.discontiguous = false := by
      rw [h.disc, hu]; cases u.discontiguous <;> simp
    by_cases hv : pi0 ∈ s.closed ∧ pi0 ∉ s.disc
    · have hv' : u.clauses ≠ [] ∧ u.discontiguous = false := ⟨hcl.mp hv.1, hdi.mp hv.2⟩
      rw [if_pos hv, if_pos hv']
      exact ⟨fun _ => ⟨pi0, rfl⟩, fun s' hs => by cases hs⟩
    · have hv' : ¬ (u.clauses ≠ [] ∧ u.discontiguous = false) := fun hh => hv ⟨hcl.mpr hh.1, hdi.mpr hh.2⟩
      rw [if_neg hv, if_neg hv']
      constructor
      · intro h0; cases h0
      · intro s' hs
        simp only [Option.some.injEq] at hs
        subst hs
        refine ⟨_, rfl, ⟨rfl, ?_, ?_, bufOK_nil rfl⟩, rfl⟩
        · intro pi
          simp only [List.mem_cons, stagedClauses_eq, Table.get_set]
          by_cases hp : pi = pi0
          · subst hp; simp [orEmpty]
          · simp only [hp, false_or, if_false]
            rw [h.closed, stagedClauses_eq]
        · intro pi
          simp only [Table.get_set]
          by_cases hp : pi = pi0
          · subst hp
            simp only [if_true, orEmpty]
            rw [h.disc, hu]
          · simp only [hp, if_false]
            exact h.disc pi

/-! ### declarations -/

def piOf (e : Term) : Option PI :=
  match declPI e with
  | .ok pi => some pi
  | .error _ => none

theorem declPIs_eq (a : Term) :
    declPIs a = if (anyElems a).2.isSome then none else (anyElems a).1.mapM piOf := rfl

theorem orEmpty_get_set (cs : Table UProc) (pi0 pi : PI) (u : UProc) :
    orEmpty ((cs.set pi0 u).get pi) = if pi = pi0 then u else orEmpty (cs.get pi) := by
  rw [Table.get_set]
  by_cases h : pi = pi0 <;> simp [h, orEmpty]

/-- a well-formed declaration succeeds; the entries of the declared predicates satisfy whatever
    `f` establishes, every other entry is as before, and whatever `f` preserves is preserved -/
theorem forEach_go_spec (f : UProc → UProc) (es : List Term) (ps : List PI) (cs : Table UProc)
    (hps : es.mapM piOf = some ps) :
    ∃ cs', forEachUserDefined.go f none es cs = .ok cs' ∧
      (∀ pi, pi ∉ ps → orEmpty (cs'.get pi) = orEmpty (cs.get pi)) ∧
      (∀ Q : UProc → Prop, (∀ u, Q (f u)) → (∀ u, Q u → Q (f u)) → ∀ pi, pi ∈ ps → Q (orEmpty (cs'.get pi))) ∧
      (∀ R : UProc → Prop, (∀ u, R (f u) ↔ R u) → ∀ pi, R (orEmpty (cs'.get pi)) ↔ R (orEmpty (cs.get pi))) ∧
      (∀ P : UProc → Prop, (∀ u, P u → P (f u)) → (∀ pi, P (orEmpty (cs.get pi))) → ∀ pi, P (orEmpty (cs'.get pi))) := by
  induction es generalizing ps cs with
  | nil =>
    simp only [List.mapM_nil, pure, Option.some.injEq] at hps
    subst hps
    refine ⟨cs, by simp [forEachUserDefined.go], fun _ _ => rfl, ?_, fun _ _ _ => Iff.rfl, fun _ _ h => h⟩
    intro Q _ _ pi hpi
    cases hpi
  | cons e es ih =>
    simp only [List.mapM_cons, bind, Option.bind] at hps
    cases hpe : piOf e with
    | none => simp [hpe] at hps
    | some pi0 =>
      simp only [hpe] at hps
      cases hrest : es.mapM piOf with
      | none => simp [hrest] at hps
      | some ps' =>
        simp only [hrest, pure, Option.some.injEq] at hps
        subst hps
        have hd : declPI e = .ok pi0 := by
          unfold piOf at hpe
          split at hpe
          · rename_i pi h; simp only [Option.some.injEq] at hpe; subst hpe; exact h
          · cases hpe
        obtain ⟨cs', hgo, hA, hB, hC, hD⟩ := ih ps' (cs.set pi0 (f (orEmpty (cs.get pi0)))) hrest
        refine ⟨cs', ?_, ?_, ?_, ?_, ?_⟩
        · unfold forEachUserDefined.go
          simp only [hd]
          exact hgo
        · intro pi hpi
          simp only [List.mem_cons, not_or] at hpi
          rw [hA pi hpi.2, orEmpty_get_set]
          simp [hpi.1]
        · intro Q hQ hQ' pi hpi
          by_cases hin : pi ∈ ps'
          · exact hB Q hQ hQ' pi hin
          · rw [hA pi hin, orEmpty_get_set]
            simp only [List.mem_cons] at hpi
            rcases hpi with rfl | hpi
            · simp only [if_true]; exact hQ _
            · exact absurd hpi hin
        · intro R hR pi
          rw [hC R hR pi, orEmpty_get_set]
          by_cases hp : pi = pi0
          · subst hp; simp only [if_true]; exact hR _
          · simp [hp]
        · intro P hP hall pi
          apply hD P hP
          intro pi'
          rw [orEmpty_get_set]
          by_cases hp : pi' = pi0
          · subst hp; simp only [if_true]; exact hP _ (hall _)
          · simp only [hp, if_false]; exact hall pi'

/-- an ill-formed declaration is an error -/
theorem forEach_go_error (f : UProc → UProc) (tailErr : Option LoadErr) (es : List Term) (cs : Table UProc)
    (h : tailErr.isSome = true ∨ es.mapM piOf = none) :
    ∃ e, forEachUserDefined.go f tailErr es cs = .error e := by
  induction es generalizing cs with
  | nil =>
    rcases h with h | h
    · unfold forEachUserDefined.go
      cases tailErr with
      | none => cases h
      | some e => exact ⟨e, rfl⟩
    · simp at h
  | cons e es ih =>
    unfold forEachUserDefined.go
    cases hd : declPI e with
    | error err => exact ⟨err, rfl⟩
    | ok pi0 =>
      simp only
      apply ih
      rcases h with h | h
      · exact Or.inl h
      · right
        have hpe : piOf e = some pi0 := by simp [piOf, hd]
        simp only [List.mapM_cons, bind, Option.bind, hpe] at h
        cases hrest : es.mapM piOf with
        | none => rfl
        | some ps' => simp [hrest] at h

/-! ### one item -/

theorem altGoals_ne_nil (t : Term) : DB.altGoals t ≠ [] := by
  unfold DB.altGoals
  split
  · split
    · unfold DB.altArgs
      split
      · split <;> simp
      · simp
    · simp
  · simp

theorem compile_ne_nil {t : Term} {raws : List Term} (h : DB.compile t = .ok raws) : raws ≠ [] := by
  unfold DB.compile at h
  split at h
  · split at h
    · simp only [Except.ok.injEq] at h
      subst h
      rename_i hd b _
      intro e
      exact altGoals_ne_nil b (List.map_eq_nil_iff.mp e)
    · cases h
  · simp only [Except.ok.injEq] at h
    subst h
    simp

/-- an item that can only fail for contiguity -/
structure Benign (call : Call) (it : Item) : Prop where
  noFault : classify it ≠ .fault
  noInclude : isInclude it = false
  goalsOk : ∀ p g, classify it = .goal g → (call p g).2 = .ok

theorem sim_of_clauses_eq {tx tx' : Text} {s : Scan} (h : Sim tx s) (hb : tx'.buf = tx.buf)
    (hc : tx'.clauses = tx.clauses) : Sim tx' s := by
  refine ⟨by rw [hb]; exact h.cur, ?_, ?_, ?_⟩
  · intro pi; rw [h.closed]; unfold stagedClauses; rw [hc]
  · intro pi; rw [hc]; exact h.disc pi
  · intro e he e' he'; rw [hb] at he he'; exact h.bufok e he e' he'

/-- a well-formed declaration after a flush -/
theorem declare_sim (ls : LoadState) (s : Scan) (a : Term) (ps : List PI) (f : UProc → UProc)
    (hsim : Sim ls.tx s) (hps : declPIs a = some ps) (hfc : ∀ u, (f u).clauses = u.clauses) :
    ∃ ls', declare ls a f = .next ls' ∧ ls'.tx.buf = ls.tx.buf ∧
      (∀ pi, stagedClauses ls'.tx pi = stagedClauses ls.tx pi) ∧
      (∀ pi, pi ∉ ps → orEmpty (ls'.tx.clauses.get pi) = orEmpty (ls.tx.clauses.get pi)) ∧
      (∀ Q : UProc → Prop, (∀ u, Q (f u)) → (∀ u, Q u → Q (f u)) → ∀ pi, pi ∈ ps → Q (orEmpty (ls'.tx.clauses.get pi))) ∧
      (∀ R : UProc → Prop, (∀ u, R (f u) ↔ R u) → ∀ pi, R (orEmpty (ls'.tx.clauses.get pi)) ↔ R (orEmpty (ls.tx.clauses.get pi))) := by
  rw [declPIs_eq] at hps
  split at hps
  · cases hps
  · rename_i hte
    have hte' : (anyElems a).2 = none := by
      cases h : (anyElems a).2 with
      | none => rfl
      | some e => simp [h] at hte
    obtain ⟨cs', hgo, hA, hB, hC, _⟩ := forEach_go_spec f (anyElems a).1 ps ls.tx.clauses hps
    have hfe : forEachUserDefined ls.tx a f = .ok { ls.tx with clauses := cs' } := by
      unfold forEachUserDefined
      have : anyElems a = ((anyElems a).1, (anyElems a).2) := rfl
      rw [this, hte']
      simp only [hgo]
    refine ⟨{ ls with tx := { ls.tx with clauses := cs' } }, ?_, rfl, ?_, hA, hB, hC⟩
    · unfold declare; rw [hfe]
    · intro pi
      exact (forEach_view hfc hfe).2.2 pi |> fun hv => by
        unfold view at hv
        simpa using hv

theorem sim_after_declare {tx tx' : Text} {s : Scan} (h : Sim tx s) (hb : tx'.buf = tx.buf)
    (hcl : ∀ pi, stagedClauses tx' pi = stagedClauses tx pi)
    (hdisc : ∀ pi, (orEmpty (tx'.clauses.get pi)).discontiguous = true ↔
      (orEmpty (tx.clauses.get pi)).discontiguous = true) : Sim tx' s := by
  refine ⟨by rw [hb]; exact h.cur, ?_, ?_, ?_⟩
  · intro pi; rw [h.closed, hcl]
  · intro pi; rw [h.disc, hdisc]
  · intro e he e' he'; rw [hb] at he he'; exact h.bufok e he e' he'

/-- a directive: the flush in front of it fails iff the specification's run end is a violation;
    otherwise both go on in corresponding states -/
theorem directive_sim (fs : FS) (call : Call) (ls : LoadState) (s : Scan) (d : Term)
    (hsim : Sim ls.tx s) (hb : Benign call (.term (.app ":-" (.cons d .nil)))) :
    (scanStep (classify (.term (.app ":-" (.cons d .nil)))) s = none →
      ∃ ls' pi, directive fs call ls d = .stop ls' (.discontiguous pi)) ∧
    (∀ s', scanStep (classify (.term (.app ":-" (.cons d .nil)))) s = some s' →
      ∃ ls', directive fs call ls d = .next ls' ∧ Sim ls'.tx s') := by
  obtain ⟨hnone, hsome⟩ := flush_sim hsim
  unfold directive
  have hnf := hb.noFault
  -- case analysis on the directive, following `classify`
  unfold classify at hnf ⊢
  simp only at hnf ⊢
  split at hnf
  · -- dynamic
    rename_i a
    cases hps : declPIs a with
    | none => simp [hps] at hnf
    | some ps =>
      simp only [hps, scanStep]
      constructor
      · intro h0
        obtain ⟨pi, hf⟩ := hnone h0
        exact ⟨ls, pi, by rw [hf]⟩
      · intro s' hs
        obtain ⟨tx', hf, hsim', _⟩ := hsome s' hs
        rw [hf]
        obtain ⟨ls', hd, hbuf, hcl, _, _, hC⟩ := declare_sim { ls with tx := tx' } s' a ps
          (fun u => { u with dynamic := true, isPublic := true }) hsim' hps (fun _ => rfl)
        exact ⟨ls', hd, sim_after_declare hsim' hbuf hcl
          (fun pi => hC (fun u => u.discontiguous = true) (fun _ => Iff.rfl) pi)⟩
  · -- multifile
    rename_i a
    cases hps : declPIs a with
    | none => simp [hps] at hnf
    | some ps =>
      simp only [hps, scanStep]
      constructor
      · intro h0
        obtain ⟨pi, hf⟩ := hnone h0
        exact ⟨ls, pi, by rw [hf]⟩
      · intro s' hs
        obtain ⟨tx', hf, hsim', _⟩ := hsome s' hs
        rw [hf]
        obtain ⟨ls', hd, hbuf, hcl, _, _, hC⟩ := declare_sim { ls with tx := tx' } s' a ps
          (fun u => { u with multifile := true }) hsim' hps (fun _ => rfl)
        exact ⟨ls', hd, sim_after_declare hsim' hbuf hcl
          (fun pi => hC (fun u => u.discontiguous = true) (fun _ => Iff.rfl) pi)⟩
  · -- discontiguous
    rename_i a
    cases hps : declPIs a with
    | none => simp [hps] at hnf
    | some ps =>
      simp only [hps, scanStep]
      constructor
      · intro h0
        cases he : endRun s with
        | none =>
          obtain ⟨pi, hf⟩ := hnone he
          exact ⟨ls, pi, by rw [hf]⟩
        | some s1 => simp [he] at h0
      · intro s' hs
        cases he : endRun s with
        | none => simp [he] at hs
        | some s1 =>
          simp only [he, Option.some.injEq] at hs
          subst hs
          obtain ⟨tx', hf, hsim', _⟩ := hsome s1 he
          rw [hf]
          obtain ⟨ls', hd, hbuf, hcl, hA, hB, _⟩ := declare_sim { ls with tx := tx' } s1 a ps
            (fun u => { u with discontiguous := true }) hsim' hps (fun _ => rfl)
          refine ⟨ls', hd, ⟨by rw [hbuf]; exact hsim'.cur, ?_, ?_, ?_⟩⟩
          · intro pi; rw [hsim'.closed, hcl]
          · intro pi
            simp only [List.mem_append]
            by_cases hin : pi ∈ ps
            · have := hB (fun u => u.discontiguous = true) (fun _ => rfl) (fun _ _ => rfl) pi hin
              simp [hin, this]
            · rw [hA pi hin, ← hsim'.disc]
              simp [hin]
          · intro e he1 e' he2; rw [hbuf] at he1 he2; exact hsim'.bufok e he1 e' he2
  · -- initialization
    rename_i g
    simp only [scanStep]
    constructor
    · intro h0
      obtain ⟨pi, hf⟩ := hnone h0
      exact ⟨ls, pi, by rw [hf]⟩
    · intro s' hs
      obtain ⟨tx', hf, hsim', _⟩ := hsome s' hs
      rw [hf]
      exact ⟨_, rfl, sim_of_clauses_eq hsim' rfl rfl⟩
  · -- a goal directive (or include, which is excluded)
    rename_i h1 h2 h3 h4
    simp only [scanStep]
    have hgo := hb.goalsOk
    have hcg : classify (.term (.app ":-" (.cons d .nil))) = .goal d := by
      have h1' : ∀ a, d ≠ .app "dynamic" (.cons a .nil) := fun a e => h1 a e
      have h2' : ∀ a, d ≠ .app "multifile" (.cons a .nil) := fun a e => h2 a e
      have h3' : ∀ a, d ≠ .app "discontiguous" (.cons a .nil) := fun a e => h3 a e
      have h4' : ∀ a, d ≠ .app "initialization" (.cons a .nil) := fun a e => h4 a e
      unfold classify
      simp only
    have hni := hb.noInclude
    constructor
    · intro h0
      obtain ⟨pi, hf⟩ := hnone h0
      exact ⟨ls, pi, by rw [hf]⟩
    · intro s' hs
      obtain ⟨tx', hf, hsim', _⟩ := hsome s' hs
      rw [hf]
      dsimp only
      split
      · rename_i a; exact absurd rfl (h1 a)
      · rename_i a; exact absurd rfl (h2 a)
      · rename_i a; exact absurd rfl (h3 a)
      · rename_i g; exact absurd rfl (h4 g)
      · simp [isInclude] at hni
      · have hok := hgo ls.procs d hcg
        unfold directiveResult
        simp only [hok]
        exact ⟨_, rfl, hsim'⟩

/-- a clause -/
theorem stageClause_sim (call : Call) (ls : LoadState) (s : Scan) (t : Term)
    (hnd : ∀ d, t ≠ .app ":-" (.cons d .nil)) (hsim : Sim ls.tx s) (hb : Benign call (.term t)) :
    (scanStep (classify (.term t)) s = none → ∃ ls' pi, stageClause ls t = .stop ls' (.discontiguous pi)) ∧
    (∀ s', scanStep (classify (.term t)) s = some s' → ∃ ls', stageClause ls t = .next ls' ∧ Sim ls'.tx s') := by
  -- a benign clause item compiles
  have hcomp : ∃ pi raws, clausePI t = .ok pi ∧ DB.compile t = .ok raws := by
    have hnf := hb.noFault
    cases h1 : clausePI t with
    | error e =>
      exfalso; apply hnf
      unfold classify
      split
      · rfl
      · rename_i d heq; simp only [Item.term.injEq] at heq; exact absurd heq (hnd d)
      · rename_i t' _ heq
        simp only [Item.term.injEq] at heq; subst heq
        simp [h1]
    | ok pi =>
      cases h2 : DB.compile t with
      | error e =>
        exfalso; apply hnf
        unfold classify
        split
        · rfl
        · rename_i d heq; simp only [Item.term.injEq] at heq; exact absurd heq (hnd d)
        · rename_i t' _ heq
          simp only [Item.term.injEq] at heq; subst heq
          simp [h1, h2]
      | ok raws => exact ⟨pi, raws, rfl, rfl⟩
  obtain ⟨pi, raws, hpi, hc⟩ := hcomp
  have hne := compile_ne_nil hc
  rw [classify_clause t hnd pi raws hpi hc]
  obtain ⟨hnone, hsome⟩ := flush_sim hsim
  -- the state after appending the new clauses to a run of `pi` (or to no run)
  have happ : ∀ (tx1 : Text) (s1 : Scan), Sim tx1 s1 → (∀ e ∈ tx1.buf, e.1 = pi) →
      Sim { tx1 with buf := tx1.buf ++ raws.map fun r => (pi, r) } { s1 with cur := some pi } := by
    intro tx1 s1 h1 hall
    refine ⟨?_, ?_, ?_, ?_⟩
    · cases hb1 : tx1.buf with
      | nil =>
        cases raws with
        | nil => exact absurd rfl hne
        | cons r rs => simp
      | cons e b =>
        have := hall e (by rw [hb1]; simp)
        simp [this]
    · intro pi'; exact h1.closed pi'
    · intro pi'; exact h1.disc pi'
    · intro e he e' he'
      simp only [List.mem_append, List.mem_map] at he he'
      have h1 : e.1 = pi := by
        rcases he with he | ⟨r, _, rfl⟩
        · exact hall e he
        · rfl
      have h2 : e'.1 = pi := by
        rcases he' with he' | ⟨r, _, rfl⟩
        · exact hall e' he'
        · rfl
      rw [h1, h2]
  unfold stageClause scanStep
  simp only [hpi, hc]
  cases hbuf : ls.tx.buf with
  | nil =>
    have hcur : s.cur = none := by rw [hsim.cur, hbuf]; rfl
    have hne' : ¬ s.cur = some pi := by rw [hcur]; simp
    have her : endRun s = some s := by unfold endRun; rw [hcur]
    simp only [hne', if_false, her]
    constructor
    · intro h0; cases h0
    · intro s' hs
      simp only [Option.some.injEq] at hs
      subst hs
      refine ⟨_, rfl, ?_⟩
      have := happ ls.tx s hsim (by intro e he; rw [hbuf] at he; cases he)
      simpa [hbuf] using this
  | cons e0 b =>
    obtain ⟨pi0, r0⟩ := e0
    have hcur : s.cur = some pi0 := by rw [hsim.cur, hbuf]; rfl
    by_cases hpp : pi = pi0
    · subst hpp
      simp only [hcur, if_true, ne_eq, not_true_eq_false, if_false]
      constructor
      · intro h0; cases h0
      · intro s' hs
        simp only [Option.some.injEq] at hs
        subst hs
        refine ⟨_, rfl, ?_⟩
        have hall : ∀ e ∈ ls.tx.buf, e.1 = pi := fun e he => hsim.bufok e he (pi, r0) (by rw [hbuf]; simp)
        have := happ ls.tx s hsim hall
        have hs' : ({ s with cur := some pi } : Scan) = s := by
          cases s; simp only at hcur; subst hcur; rfl
        rw [hs'] at this
        simpa [hbuf] using this
    · have hne1 : ¬ s.cur = some pi := by rw [hcur]; intro e; exact hpp (Option.some.inj e).symm
      have hne2 : pi ≠ pi0 := hpp
      simp only [hne1, if_false, hne2, ne_eq, not_false_eq_true, if_true]
      constructor
      · intro h0
        cases he : endRun s with
        | none =>
          obtain ⟨pi', hf⟩ := hnone he
          refine ⟨ls, pi', ?_⟩
          rw [hf]
        | some s1 => simp [he] at h0
      · intro s' hs
        cases he : endRun s with
        | none => simp [he] at hs
        | some s1 =>
          simp only [he, Option.some.injEq] at hs
          subst hs
          obtain ⟨tx', hf, hsim', hb'⟩ := hsome s1 he
          rw [hf]
          refine ⟨_, rfl, ?_⟩
          exact happ tx' s1 hsim' (by intro e he; rw [hb'] at he; cases he)

theorem stepItem_sim (fs : FS) (call : Call) (ls : LoadState) (s : Scan) (it : Item)
    (hsim : Sim ls.tx s) (hb : Benign call it) :
    (scanStep (classify it) s = none → ∃ ls' pi, stepItem fs call ls it = .stop ls' (.discontiguous pi)) ∧
    (∀ s', scanStep (classify it) s = some s' → ∃ ls', stepItem fs call ls it = .next ls' ∧ Sim ls'.tx s') := by
  unfold stepItem
  split
  · exact absurd rfl hb.noFault
  · exact directive_sim fs call ls s _ hsim hb
  · rename_i t hnd
    exact stageClause_sim call ls s t (fun d e => hnd d e) hsim hb

/-- the read loop over a text of benign items: it stops with a contiguity error exactly when the
    specification's scan finds a violation, and otherwise ends in a corresponding state -/
theorem compileLoop_sim (fs : FS) (call : Call) (fuel : Nat) (items : List Item) (ls : LoadState) (s : Scan)
    (hfuel : items.length < fuel) (hsim : Sim ls.tx s) (hb : ∀ it ∈ items, Benign call it) :
    (scanItems (items.map classify) s = none →
      ∃ ls' pi, compileLoop fs call fuel items ls = (ls', some (.discontiguous pi))) ∧
    (∀ s', scanItems (items.map classify) s = some s' →
      ∃ ls', compileLoop fs call fuel items ls = (ls', none) ∧ Sim ls'.tx s') := by
  induction items generalizing fuel ls s with
  | nil =>
    cases fuel with
    | zero => simp at hfuel
    | succ fuel =>
      unfold compileLoop scanItems
      constructor
      · intro h; cases h
      · intro s' hs
        have hs' : s = s' := by simpa using hs
        subst hs'
        exact ⟨ls, rfl, hsim⟩
  | cons it rest ih =>
    cases fuel with
    | zero => simp at hfuel
    | succ fuel =>
      have hfuel' : rest.length < fuel := by simp at hfuel; omega
      obtain ⟨h1, h2⟩ := stepItem_sim fs call ls s it hsim (hb it (by simp))
      unfold compileLoop
      simp only [List.map_cons, scanItems]
      cases hst : scanStep (classify it) s with
      | none =>
        obtain ⟨ls', pi, hstep⟩ := h1 hst
        rw [hstep]
        constructor
        · intro _; exact ⟨ls', pi, rfl⟩
        · intro s' hs; cases hs
      | some s1 =>
        obtain ⟨ls1, hstep, hsim1⟩ := h2 s1 hst
        rw [hstep]
        exact ih fuel ls1 s1 hfuel' hsim1 (fun i hi => hb i (List.mem_cons_of_mem _ hi))

/-! ### flags -/

def flagVal (fl : Flag) (u : UProc) : Bool :=
  match fl with
  | .dynamic => u.dynamic
  | .multifile => u.multifile
  | .discontiguous => u.discontiguous

/-- does this reading declare flag `fl` for `pi`? -/
def declaresNow (r : Reading) (fl : Flag) (pi : PI) : Bool :=
  match r with
  | .declare f' ps => decide (f' = fl ∧ pi ∈ ps)
  | _ => false

/-- the flags of the staged entry of `pi` (of an empty entry if there is none) -/
def stagedFlag (tx : Text) (fl : Flag) (pi : PI) : Bool := flagVal fl (orEmpty (tx.clauses.get pi))

/-- `isPublic` goes with `dynamic` -/
def PublicOK (tx : Text) : Prop := ∀ pi, (orEmpty (tx.clauses.get pi)).isPublic = (orEmpty (tx.clauses.get pi)).dynamic

theorem flush_flags {tx tx' : Text} (h : flush tx = .ok tx') :
    (∀ fl pi, stagedFlag tx' fl pi = stagedFlag tx fl pi) ∧ (PublicOK tx → PublicOK tx') := by
  unfold flush at h
  split at h
  · simp only [Except.ok.injEq] at h; subst h; exact ⟨fun _ _ => rfl, id⟩
  · rename_i pi0 _ _ _
    dsimp only at h
    split at h
    · cases h
    · simp only [Except.ok.injEq] at h
      subst h
      constructor
      · intro fl pi
        unfold stagedFlag
        simp only [orEmpty_get_set]
        by_cases hp : pi = pi0
        · subst hp; cases fl <;> simp [flagVal]
        · simp [hp]
      · intro hpo pi
        simp only [orEmpty_get_set]
        by_cases hp : pi = pi0
        · subst hp; simp only [if_true]; exact hpo pi
        · simp only [hp, if_false]; exact hpo pi

theorem forEach_ok_declPIs {tx tx' : Text} {a : Term} {f : UProc → UProc}
    (h : forEachUserDefined tx a f = .ok tx') : ∃ ps, declPIs a = some ps := by
  rw [declPIs_eq]
  by_cases hte : (anyElems a).2.isSome = true
  · exfalso
    obtain ⟨e, he⟩ := forEach_go_error f (anyElems a).2 (anyElems a).1 tx.clauses (Or.inl hte)
    unfold forEachUserDefined at h
    have : anyElems a = ((anyElems a).1, (anyElems a).2) := rfl
    rw [this] at h
    simp only [he] at h
    cases h
  · simp only [hte, Bool.false_eq_true, if_false]
    cases hm : (anyElems a).1.mapM piOf with
    | some ps => exact ⟨ps, rfl⟩
    | none =>
      exfalso
      obtain ⟨e, he⟩ := forEach_go_error f (anyElems a).2 (anyElems a).1 tx.clauses (Or.inr hm)
      unfold forEachUserDefined at h
      have : anyElems a = ((anyElems a).1, (anyElems a).2) := rfl
      rw [this] at h
      simp only [he] at h
      cases h

/-- what a declaration directive does to the flags -/
theorem declare_flags (ls ls' : LoadState) (a : Term) (f : UProc → UProc) (which : Flag)
    (hfc : ∀ u, (f u).clauses = u.clauses)
    (hset : ∀ u, flagVal which (f u) = true)
    (hother : ∀ fl u, fl ≠ which → flagVal fl (f u) = flagVal fl u)
    (hpub : ∀ u, u.isPublic = u.dynamic → (f u).isPublic = (f u).dynamic)
    (h : declare ls a f = .next ls') :
    ∃ ps, declPIs a = some ps ∧
      (∀ fl pi, stagedFlag ls'.tx fl pi = (stagedFlag ls.tx fl pi || decide (which = fl ∧ pi ∈ ps))) ∧
      (PublicOK ls.tx → PublicOK ls'.tx) := by
  unfold declare at h
  split at h
  · rename_i tx' hfe
    simp only [Step.next.injEq] at h
    subst h
    obtain ⟨ps, hps⟩ := forEach_ok_declPIs hfe
    refine ⟨ps, hps, ?_, ?_⟩
    all_goals
      rw [declPIs_eq] at hps
      split at hps
      · cases hps
      rename_i hte
      have hte' : (anyElems a).2 = none := by
        cases h : (anyElems a).2 with
        | none => rfl
        | some e => simp [h] at hte
      obtain ⟨cs', hgo, hA, hB, hC, hD⟩ := forEach_go_spec f (anyElems a).1 ps ls.tx.clauses hps
      have htx : tx' = { ls.tx with clauses := cs' } := by
        unfold forEachUserDefined at hfe
        have : anyElems a = ((anyElems a).1, (anyElems a).2) := rfl
        rw [this, hte'] at hfe
        simp only [hgo, Except.ok.injEq] at hfe
        exact hfe.symm
      subst htx
    · intro fl pi
      unfold stagedFlag
      simp only
      by_cases hfl : which = fl
      · subst hfl
        by_cases hin : pi ∈ ps
        · have := hB (fun u => flagVal which u = true) hset (fun u _ => hset u) pi hin
          simp [hin, this]
        · rw [hA pi hin]; simp [hin]
      · have hne : fl ≠ which := fun e => hfl e.symm
        have := hC (fun u => flagVal fl u = true) (fun u => by rw [hother fl u hne]) pi
        simp only [hfl, false_and, decide_false, Bool.or_false]
        exact Bool.eq_iff_iff.mpr this
    · intro hpo pi
      exact hD (fun u => u.isPublic = u.dynamic) hpub hpo pi
  · cases h

theorem directive_flags (fs : FS) (call : Call) (ls ls' : LoadState) (d : Term)
    (h : directive fs call ls d = .next ls') :
    (∀ fl pi, stagedFlag ls'.tx fl pi =
      (stagedFlag ls.tx fl pi || declaresNow (classify (.term (.app ":-" (.cons d .nil)))) fl pi)) ∧
    (PublicOK ls.tx → PublicOK ls'.tx) := by
  unfold directive at h
  split at h
  · cases h
  · rename_i tx hfl
    obtain ⟨hff, hfp⟩ := flush_flags hfl
    dsimp only at h
    split at h
    · rename_i a
      obtain ⟨ps, hps, h1, h2⟩ := declare_flags { ls with tx := tx } ls' a _ .dynamic (by intro u; rfl)
        (by intro u; rfl) (by intro fl u hne; cases fl <;> simp_all [flagVal]) (by intro u _; rfl) h
      refine ⟨fun fl pi => ?_, fun hp => h2 (hfp hp)⟩
      rw [h1 fl pi, hff]
      simp [classify, hps, declaresNow]
    · rename_i a
      obtain ⟨ps, hps, h1, h2⟩ := declare_flags { ls with tx := tx } ls' a _ .multifile (by intro u; rfl)
        (by intro u; rfl) (by intro fl u hne; cases fl <;> simp_all [flagVal]) (by intro u hu; exact hu) h
      refine ⟨fun fl pi => ?_, fun hp => h2 (hfp hp)⟩
      rw [h1 fl pi, hff]
      simp [classify, hps, declaresNow]
    · rename_i a
      obtain ⟨ps, hps, h1, h2⟩ := declare_flags { ls with tx := tx } ls' a _ .discontiguous (by intro u; rfl)
        (by intro u; rfl) (by intro fl u hne; cases fl <;> simp_all [flagVal]) (by intro u hu; exact hu) h
      refine ⟨fun fl pi => ?_, fun hp => h2 (hfp hp)⟩
      rw [h1 fl pi, hff]
      simp [classify, hps, declaresNow]
    · simp only [Step.next.injEq] at h
      subst h
      refine ⟨fun fl pi => ?_, fun hp => hfp hp⟩
      show stagedFlag tx fl pi = _
      rw [hff]
      simp [classify, declaresNow]
    · split at h <;> cases h
    · rename_i h1 h2 h3 h4 _
      have hcg : classify (.term (.app ":-" (.cons d .nil))) = .goal d := by
        have h1' : ∀ a, d ≠ .app "dynamic" (.cons a .nil) := fun a e => h1 a e
        have h2' : ∀ a, d ≠ .app "multifile" (.cons a .nil) := fun a e => h2 a e
        have h3' : ∀ a, d ≠ .app "discontiguous" (.cons a .nil) := fun a e => h3 a e
        have h4' : ∀ a, d ≠ .app "initialization" (.cons a .nil) := fun a e => h4 a e
        unfold classify
        simp only
      split at h
      · rename_i ls1 heq
        simp only [Step.next.injEq] at h
        subst h
        unfold directiveResult at heq
        have htx : ls1.tx = tx := by
          split at heq <;> simp only [Prod.mk.injEq] at heq <;> obtain ⟨rfl, _⟩ := heq <;> rfl
        rw [htx, hcg]
        exact ⟨fun fl pi => by rw [hff]; simp [declaresNow], fun hp => hfp hp⟩
      · cases h

theorem stageClause_flags (ls ls' : LoadState) (t : Term) (hnd : ∀ d, t ≠ .app ":-" (.cons d .nil))
    (h : stageClause ls t = .next ls') :
    (∀ fl pi, stagedFlag ls'.tx fl pi = (stagedFlag ls.tx fl pi || declaresNow (classify (.term t)) fl pi)) ∧
    (PublicOK ls.tx → PublicOK ls'.tx) := by
  unfold stageClause at h
  split at h
  · cases h
  · rename_i pi hpi
    dsimp only at h
    split at h
    · cases h
    · rename_i tx hfl
      split at h
      · cases h
      · rename_i raws hc
        simp only [Step.next.injEq] at h
        subst h
        rw [classify_clause t hnd pi raws hpi hc]
        have hkey : (∀ fl pi, stagedFlag tx fl pi = stagedFlag ls.tx fl pi) ∧ (PublicOK ls.tx → PublicOK tx) := by
          split at hfl
          · split at hfl
            · exact flush_flags hfl
            · simp only [Except.ok.injEq] at hfl; subst hfl; exact ⟨fun _ _ => rfl, id⟩
          · simp only [Except.ok.injEq] at hfl; subst hfl; exact ⟨fun _ _ => rfl, id⟩
        exact ⟨fun fl pi' => by
          show stagedFlag tx fl pi' = _
          rw [hkey.1]; simp [declaresNow], hkey.2⟩

theorem stepItem_flags (fs : FS) (call : Call) (ls ls' : LoadState) (it : Item)
    (h : stepItem fs call ls it = .next ls') :
    (∀ fl pi, stagedFlag ls'.tx fl pi = (stagedFlag ls.tx fl pi || declaresNow (classify it) fl pi)) ∧
    (PublicOK ls.tx → PublicOK ls'.tx) := by
  unfold stepItem at h
  split at h
  · cases h
  · exact directive_flags fs call ls ls' _ h
  · rename_i t hnd
    exact stageClause_flags ls ls' t (fun d e => hnd d e) h

theorem declared_cons (r : Reading) (rs : List Reading) (fl : Flag) (pi : PI) :
    declared (r :: rs) fl pi = (declaresNow r fl pi || declared rs fl pi) := by
  unfold declared declaresNow
  rw [List.any_cons]
  cases r <;> rfl

theorem compileLoop_flags (fs : FS) (call : Call) (fuel : Nat) (items : List Item) (ls ls' : LoadState)
    (hni : ∀ it ∈ items, isInclude it = false)
    (h : compileLoop fs call fuel items ls = (ls', none)) :
    (∀ fl pi, stagedFlag ls'.tx fl pi = (stagedFlag ls.tx fl pi || declared (items.map classify) fl pi)) ∧
    (PublicOK ls.tx → PublicOK ls'.tx) := by
  induction fuel generalizing items ls with
  | zero => unfold compileLoop at h; simp at h
  | succ fuel ih =>
    cases items with
    | nil =>
      unfold compileLoop at h
      simp only [Prod.mk.injEq, and_true] at h
      subst h
      exact ⟨fun fl pi => by simp [declared], id⟩
    | cons it rest =>
      unfold compileLoop at h
      split at h
      · rename_i ls1 hstep
        obtain ⟨h1, h2⟩ := stepItem_flags fs call ls ls1 it hstep
        obtain ⟨h3, h4⟩ := ih rest ls1 (fun i hi => hni i (List.mem_cons_of_mem _ hi)) h
        refine ⟨fun fl pi => ?_, fun hp => h4 (h2 hp)⟩
        rw [h3, h1, List.map_cons, declared_cons, Bool.or_assoc]
      · rename_i items1 ls1 hstep
        exact absurd hstep (stepItem_not_splice fs call ls ls1 it items1 (hni it (by simp)))
      · simp at h

end PrologVerif.Load
