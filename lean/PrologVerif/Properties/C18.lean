/-
  C18 — the operator table evolves as op/3 defines; failed updates change nothing.

  Property theorems only (helper lemmas live in Proofs/Ops*.lean).  Everything is about
  `Model/Ops.lean`, which mirrors engine/builtin.go `Op/validateOp/CurrentOp` and the
  `operators` methods of engine/parser.go; the tie to the source is the correspondence
  stream `c18.hist` and the regenerated default table (Generated/Bootstrap).
-/
import PrologVerif.Proofs.OpsValid
namespace PrologVerif.C18
open PrologVerif PrologVerif.Ops

/-- a history is a list of op/3 calls with arbitrary (resolved) argument terms -/
abbrev Call := Term × Term × Term

def step (t : Table) (c : Call) : Table := (op t c.1 c.2.1 c.2.2).1

def run (h : List Call) : Table := h.foldl step defaultTable

/-! ### the default table satisfies the ISO rules -/

theorem C18_default_valid : Valid defaultTable := by
  refine ⟨by decide +kernel, by decide +kernel, ?_, by decide +kernel, by decide +kernel,
    by decide +kernel, by decide +kernel⟩
  intro n ⟨_, hpost⟩
  rw [definedInClass_iff] at hpost
  obtain ⟨o, ho, _, hc⟩ := hpost
  have : ∀ o ∈ defaultTable, o.spec.cls ≠ .post := by decide +kernel
  exact this o ho hc

/-! ### atomicity: an op/3 call that raises an error leaves the table unchanged -/

theorem C18_atomic (t : Table) (p s n : Term) (e : Term)
    (h : (op t p s n).2 = some e) : (op t p s n).1 = t := by
  unfold op at *
  cases hp : parseArgs p s n with
  | error e' => simp
  | ok v =>
    obtain ⟨pp, sp, ns⟩ := v
    simp only [hp] at h ⊢
    cases hv : ns.findSome? (validateOp t pp sp) with
    | some e' => simp
    | none => simp [hv] at h

/-- conversely, a successful call went through all three argument checks and the validation of
    *every* name before the first mutation -/
theorem C18_success_validated (t : Table) (p s n : Term)
    (h : (op t p s n).2 = none) :
    ∃ pp sp ns, parseArgs p s n = .ok (pp, sp, ns) ∧ (∀ m ∈ ns, validateOp t pp sp m = none) ∧
      (op t p s n).1 = applyNames t pp sp ns := by
  unfold op at *
  split at h
  · simp at h
  · rename_i pp sp ns hparse
    split at h
    · simp at h
    · rename_i hnone
      refine ⟨pp, sp, ns, hparse, ?_, ?_⟩
      · intro m hm
        rw [List.findSome?_eq_none_iff] at hnone
        exact hnone m hm
      · simp

/-! ### the ISO invariant holds after every history -/

theorem parseArgs_facts (p s n : Term) (pp : Nat) (sp : Spec) (ns : List String)
    (h : parseArgs p s n = .ok (pp, sp, ns)) : pp ≤ 1200 ∧ ns.Nodup := by
  unfold parseArgs at h
  split at h
  · simp at h
  rename_i pv hp
  split at h
  · simp at h
  rename_i sv hs
  split at h
  · simp at h
  rename_i nv hn
  simp only [Except.ok.injEq, Prod.mk.injEq] at h
  obtain ⟨h1, h2, h3⟩ := h
  subst h1 h2 h3
  constructor
  · unfold parsePriority at hp
    split at hp
    · simp at hp
    · split at hp
      · simp at hp
      · rename_i i hi
        simp only [Except.ok.injEq] at hp
        omega
    · simp at hp
  · unfold parseNames at hn
    split at hn
    · simp only [Except.ok.injEq] at hn; subst hn; simp
    · exact collectNames_nodup _ _ hn

theorem C18_op_preserves_valid (t : Table) (p s n : Term) (hv : Valid t) :
    Valid (op t p s n).1 := by
  cases he : (op t p s n).2 with
  | some e => rw [C18_atomic t p s n e he]; exact hv
  | none =>
    obtain ⟨pp, sp, ns, hparse, hval, heq⟩ := C18_success_validated t p s n he
    rw [heq]
    obtain ⟨hle, hnd⟩ := parseArgs_facts p s n pp sp ns hparse
    exact valid_applyNames pp sp hle ns t hnd hv hval

/-- **C18_inv**: after any sequence of op/3 calls (successful or not), starting from the default
    table: one definition per (name, class); priorities in 1..1200; never an infix and a postfix
    operator of the same name; ',' is (1000, xfy); '|' at most infix with priority ≥ 1001;
    '[]' and '{}' are not operators. -/
theorem C18_inv (h : List Call) : Valid (run h) := by
  unfold run
  suffices ∀ t, Valid t → Valid (h.foldl step t) from this _ C18_default_valid
  induction h with
  | nil => intro t hv; exact hv
  | cons c cs ih => intro t hv; exact ih _ (C18_op_preserves_valid t c.1 c.2.1 c.2.2 hv)

/-! ### what a successful update does: latest wins, 0 removes, other classes are kept -/

theorem absTable_applyNames (p : Nat) (s : Spec) :
    ∀ (ns : List String) (t : Table) (m : String) (c : Class),
      absTable (applyNames t p s ns) m c = specApply (absTable t) p s ns m c
  | [], t, m, c => by simp [applyNames, specApply]
  | n :: ns, t, m, c => by
    rw [applyNames_eq, List.foldl_cons, ← applyNames_eq, absTable_applyNames p s ns]
    unfold specApply
    by_cases h1 : m ∈ ns ∧ c = s.cls
    · have : m ∈ n :: ns ∧ c = s.cls := ⟨by simp [h1.1], h1.2⟩
      simp [h1, this]
    · simp only [h1, if_false]
      by_cases h2 : m = n ∧ c = s.cls
      · obtain ⟨rfl, rfl⟩ := h2
        have : m ∈ m :: ns ∧ s.cls = s.cls := ⟨by simp, rfl⟩
        simp only [this, and_self, if_true]
        unfold absTable
        rw [lookup_stepName_same]
        by_cases hp : p = 0 <;> simp [hp]
      · have h3 : ¬ (m ∈ n :: ns ∧ c = s.cls) := by
          rintro ⟨hm, hc⟩
          rcases List.mem_cons.mp hm with e | e
          · exact h2 ⟨e, hc⟩
          · exact h1 ⟨e, hc⟩
        simp only [h3, if_false]
        unfold absTable
        rw [lookup_stepName_other]
        by_cases hmn : m = n
        · right; intro hc; exact h2 ⟨hmn, hc⟩
        · left; exact hmn

/-- **C18_update_exact** (latest wins / zero removes / other classes kept): a successful
    `op(P, S, Names)` sets exactly the slots (name, class of S) for name ∈ Names to (P, S) — or
    empties them when P = 0 — and leaves every other slot as it was. -/
theorem C18_update_exact (t : Table) (p s n : Term) (h : (op t p s n).2 = none) :
    ∃ pp sp ns, parseArgs p s n = .ok (pp, sp, ns) ∧
      ∀ m c, absTable (op t p s n).1 m c = specApply (absTable t) pp sp ns m c := by
  obtain ⟨pp, sp, ns, hparse, _, heq⟩ := C18_success_validated t p s n h
  exact ⟨pp, sp, ns, hparse, fun m c => by rw [heq, absTable_applyNames]⟩

/-! ### current_op/3 enumerates exactly the table -/

/-- **C18_current_op_exact**: the answers are exactly the table entries matching the pattern
    (sound and complete), and on a valid table no (name, class) is answered twice. -/
theorem C18_current_op_exact (t : Table) (p s n : Term) (r : List OpDef)
    (hv : Valid t) (h : currentOp t p s n = .ok r) :
    (∀ o, o ∈ r ↔ o ∈ t ∧ matchArg p (.int o.pri) = true ∧ matchArg s (.atom o.spec.name) = true
        ∧ matchArg n (.atom o.name) = true) ∧
    r.Pairwise (fun a b => ¬ (a.name = b.name ∧ a.spec.cls = b.spec.cls)) := by
  have hr : r = t.filter fun o =>
      matchArg p (.int o.pri) && matchArg s (.atom o.spec.name) && matchArg n (.atom o.name) := by
    unfold currentOp at h
    simp only [bind, Except.bind, pure, Except.pure] at h
    repeat' split at h
    all_goals first | (simp at h; done) | (simp at h; exact h.symm) | skip
    all_goals simp_all
  subst hr
  constructor
  · intro o; simp [List.mem_filter, and_assoc]
  · exact List.Pairwise.sublist List.filter_sublist hv.unique

/-! ### non-vacuity -/

example : (op defaultTable (.int 700) (.atom "xfx") (.atom "foo")).2 = none := by decide +kernel
example : (op defaultTable (.int 700) (.atom "xfx")
    (Term.list [.atom "foo", .atom "[]"])).2 = some (permissionErr "create" "operator" (.atom "[]")) := by
  decide +kernel
example : absTable (run [(.int 200, .atom "xfy", .atom "foo"), (.int 0, .atom "xfy", .atom "foo")])
    "foo" .inf = none := by decide +kernel
example : absTable (run [(.int 200, .atom "xfy", .atom "foo"), (.int 300, .atom "yfx", .atom "foo")])
    "foo" .inf = some (300, .yfx) := by decide +kernel

end PrologVerif.C18
