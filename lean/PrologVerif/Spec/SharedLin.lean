/-
  Spec/SharedLin — what an observer may conclude from the results that concurrently running
  clients got from the shared atom table and variable counter: an executable LINEARIZABILITY
  check, written independently of Model/Shared (it never runs the table; it only looks at who
  asked what and which answer came back).

  A set of per-client histories is accepted iff
    1. every answer has the right shape (old names answer `old`, one-rune names the rune itself,
       other names a fresh table id);
    2. fresh ids are a function of the name and injective: same name ⇔ same id, across ALL clients;
    3. fresh ids are dense: K distinct names received exactly the ids 0..K-1 (none lost, none twice);
    4. asking an atom for its name gives back the name it was interned under;
    5. variables are pairwise distinct over all clients, strictly increasing per client, and are
       exactly 1..(number of newVar calls) relative to the counter at the start (no lost update);
    6. there IS a total order of all interning calls, compatible with each client's program order,
       in which id k is created before anybody receives it and before id k+1 is created
       (found greedily: run every client as far as it only receives ids that exist; then some
       client must be the creator of the next id).
-/
import PrologVerif.Basic
namespace PrologVerif.SharedLin

/-- what a client asked -/
inductive Ask where
  | intern (name : String) (old : Bool)
  | nameOf (k : Nat)        -- the name of the atom its own k-th call returned
  | nameRune (cp : Nat)     -- the name of a one-rune atom
  | newVar
  deriving DecidableEq, Repr

/-- what it was answered (ids relative to the table size / counter at the start) -/
inductive Obs where
  | rune (cp : Nat)
  | old
  | fresh (k : Nat)
  | name (s : String)
  | var (v : Nat)
  | bad (s : String)
  deriving DecidableEq, Repr

abbrev Hist := List (Ask × Obs)

def runeName (cp : Nat) : String :=
  if cp.isValidChar then String.singleton (Char.ofNat cp) else "�"

def oneRune? (s : String) : Option Nat :=
  match s.toList with
  | [c] => if c.toNat = 0xFFFD then none else some c.toNat
  | _ => none

/-- 1 + 4: each answer has the right shape -/
def shapeOk (h : Hist) : Option String :=
  let rec go (i : Nat) : Hist → Option String
    | [] => none
    | (a, o) :: rest =>
      let bad := some s!"call #{i}: {repr a} answered {repr o}"
      let ok := go (i + 1) rest
      match a, o with
      | .intern _ true, .old => ok
      | .intern n false, .rune cp => if oneRune? n = some cp then ok else bad
      | .intern n false, .fresh _ => if (oneRune? n).isNone then ok else bad
      | .nameOf k, .name s =>
        match h[k]? with
        | some (.intern n _, _) => if k < i ∧ s = n then ok else bad
        | _ => bad
      | .nameRune cp, .name s => if s = runeName cp then ok else bad
      | .newVar, .var _ => ok
      | _, _ => bad
  go 0 h

/-- the (name, id) pairs of fresh internings, in program order -/
def freshPairs (h : Hist) : List (String × Nat) :=
  h.filterMap fun
    | (.intern n false, .fresh k) => some (n, k)
    | _ => none

def varsOf (h : Hist) : List Nat :=
  h.filterMap fun
    | (_, .var v) => some v
    | _ => none

def increasing : List Nat → Bool
  | a :: b :: rest => a < b && increasing (b :: rest)
  | _ => true

/-- 6: greedy search for a linearization of the fresh-id histories.
    `qs` = per client the ids still to be received, `n` = number of ids created so far. -/
def linearize : Nat → Nat → List (List Nat) → Bool
  | 0, _, qs => qs.all (·.isEmpty)
  | fuel + 1, n, qs =>
    -- every client consumes what already exists
    let qs := qs.map (fun q => q.dropWhile (· < n))
    if qs.all (·.isEmpty) then true
    else
      -- somebody must be about to create id n
      match qs.findIdx? (fun q => q.head? = some n) with
      | none => false
      | some i => linearize fuel (n + 1) (qs.modify i (·.drop 1))

def check (clients : List Hist) : Option String :=
  match (clients.zipIdx.filterMap fun (h, c) => (shapeOk h).map (s!"client {c} " ++ ·)).head? with
  | some e => some e
  | none =>
    let pairs := (clients.map freshPairs).flatten
    let names := (pairs.map (·.1)).eraseDups
    let K := names.length
    if pairs.any (fun p => pairs.any fun q => decide (p.1 = q.1) != decide (p.2 = q.2)) then
      some "interning is not a bijection between names and ids (same name, two atoms — or one atom, two names)"
    else if pairs.any (fun p => K ≤ p.2) then
      some s!"ids are not dense: {K} fresh names but an id ≥ {K} was handed out"
    else
      let vars := (clients.map varsOf).flatten
      if !vars.all (fun v => 1 ≤ v ∧ v ≤ vars.length) then
        some "a variable outside counter+1 .. counter+#calls was handed out (lost or spurious update)"
      else if vars.eraseDups.length ≠ vars.length then
        some "the same variable was handed out twice"
      else if !clients.all (fun h => increasing (varsOf h)) then
        some "a client received variables that do not increase"
      else
        let qs := clients.map fun h => (freshPairs h).map (·.2)
        if linearize ((qs.map List.length).sum + K + 1) 0 qs then none
        else some "no linearization: a client received an atom before any order of the calls could have created it"

end PrologVerif.SharedLin
