/-
  C14 — separate interpreters are isolated and run concurrently without data races.

  What is logic here and what is runtime (DESIGN §6 C14, §10): absence of data races under the Go
  memory model is a runtime notion and is *observed* (race detector, stream `c14.race` /
  `c14.table`); isolation of *results* is logic and is proved below, for ALL schedules and any
  number of clients, about `Model/Shared.lean`:

    the only process-wide mutable state is the atom table and the variable counter
    (regenerated fact, `C14_facts_*`), every operation on them is one atomic step (regenerated
    fact: the mutex / the atomic add), and then
      * the table is a linearizable interning function            `C14_atom_table_linearizable`
      * each client sees what it would see alone, up to ids        `C14_view_as_alone`
      * variables are fresh, increasing, never shared              `C14_var_supply`
      * nothing above the table depends on the numeric ids         `C14_id_parametric`
    hence another interpreter cannot change an interpreter's answers (`C14_answers_unchanged`).
    Without the atomicity the first theorem is false (`C14_nonatomic_witness`).

  Helper lemmas live in Proofs/Shared*.lean.
-/
import PrologVerif.Proofs.SharedView
import PrologVerif.Proofs.SharedParam
import PrologVerif.Generated.SharedState
namespace PrologVerif.C14
open PrologVerif PrologVerif.Shared

/-- **C14_atom_table_linearizable.**  From any consistent table, under EVERY interleaving of any
    number of clients:
    1. interning is *injective and stable* across clients and time: two `newAtom` calls anywhere
       in the history returned the same atom iff they were given the same name;
    2. `atomName (newAtom s) = s`: whoever asks, any time after some client was given `a` for `s`,
       `atomName a` answers `s` (never another name, never the index-out-of-range panic);
    3. ids only grow: at every point of the schedule the table is an extension *at the end* of what
       it was at any earlier point — an atom keeps its name for ever, new atoms get larger ids;
    4. the table stays consistent (`TableInv`: no duplicate name, `atoms` is the inverse of `names`). -/
theorem C14_atom_table_linearizable (σ₀ : State) (h₀ : TableInv σ₀) (sched : Schedule) :
    (∀ e₁ ∈ exec σ₀ sched, ∀ e₂ ∈ exec σ₀ sched, ∀ s₁ s₂ a₁ a₂,
        e₁.op = .newAtom s₁ → e₁.res = .atom a₁ → e₂.op = .newAtom s₂ → e₂.res = .atom a₂ →
        (a₁ = a₂ ↔ s₁ = s₂)) ∧
    (exec σ₀ sched).Pairwise (fun e₁ e₂ => ∀ s a, e₁.op = .newAtom s → e₁.res = .atom a →
        e₂.op = .atomName a → e₂.res = .name (some s)) ∧
    (∀ p q, sched = p ++ q → (final σ₀ p).names <+: (final σ₀ sched).names ∧
        ∀ a s, atomName (final σ₀ p) a = some s → atomName (final σ₀ sched) a = some s) ∧
    TableInv (final σ₀ sched) := by
  refine ⟨?_, ?_, ?_, final_inv sched σ₀ h₀⟩
  · intro e₁ he₁ e₂ he₂ s₁ s₂ a₁ a₂ ho₁ hr₁ ho₂ hr₂
    have H₁ := exec_holds sched σ₀ h₀ e₁ he₁
    have H₂ := exec_holds sched σ₀ h₀ e₂ he₂
    simp only [Holds, ho₁, hr₁] at H₁
    simp only [Holds, ho₂, hr₂] at H₂
    constructor
    · rintro rfl
      have := H₁.2.symm.trans H₂.2
      simpa using this
    · rintro rfl
      have := H₁.1.symm.trans H₂.1
      simpa using this
  · -- later atomName calls
    suffices ∀ sched σ, TableInv σ → (exec σ sched).Pairwise (fun e₁ e₂ => ∀ s a, e₁.op = .newAtom s →
        e₁.res = .atom a → e₂.op = .atomName a → e₂.res = .name (some s)) from this sched σ₀ h₀
    intro sched
    induction sched with
    | nil => intro σ _; simp [exec]
    | cons x rest ih =>
      intro σ hi
      simp only [exec]
      refine List.pairwise_cons.mpr ⟨?_, ih _ (step_inv hi x.2)⟩
      intro e he s a hop hres hop2
      obtain ⟨c, o⟩ := x
      simp only at hop hres
      subst hop
      simp only [step, Res.atom.injEq] at hres
      subst hres
      exact exec_atomName_later rest _ _ s (newAtom_name hi s) e he hop2
  · rintro p q rfl
    rw [final_append]
    have hle := final_le q (final σ₀ p)
    exact ⟨hle.1, fun a s h => atomName_stable hle h⟩

/-- **C14_var_supply.**  Under EVERY interleaving, the variables handed out are strictly
    increasing along the whole history and all above the counter's initial value; hence each
    client receives a strictly increasing sequence of pairwise distinct variables, none of which
    is ever given to another client (or existed before). -/
theorem C14_var_supply (σ₀ : State) (sched : Schedule) :
    (varsOf (exec σ₀ sched)).Pairwise (· < ·) ∧
    (∀ v ∈ varsOf (exec σ₀ sched), σ₀.counter < v) ∧
    (∀ c, (varsOf (view c (exec σ₀ sched))).Pairwise (· < ·)) ∧
    (∀ e₁ ∈ exec σ₀ sched, ∀ e₂ ∈ exec σ₀ sched, ∀ v, e₁.res = .var v → e₂.res = .var v → e₁ = e₂) := by
  obtain ⟨h1, h2⟩ := varsOf_exec sched σ₀
  refine ⟨h2, h1, fun c => h2.sublist (varsOf_filter_sublist _ _), ?_⟩
  exact var_event_unique _ h2

/-- **C14_view_as_alone** (the second half of linearizability: "each client observes exactly the
    abstract interning function it would observe alone, up to the numeric value of ids").
    Take ANY interleaving of any number of clients and any client `c` that only asks for names of
    atoms it has learned.  Then there are a renaming `ρ` of atoms — the identity on one-rune atoms,
    injective and name-preserving on the atoms `c` saw — and a renaming `μ` of variables — strictly
    monotone on the variables `c` received — such that replaying `c`'s operations ALONE from the
    same initial state yields exactly `c`'s view, renamed.  Nothing any other client did is visible
    to `c` except through the numeric values of ids. -/
theorem C14_view_as_alone (σ₀ : State) (h₀ : TableInv σ₀) (sched : Schedule) (c : Nat)
    (hwf : learnedOnly σ₀.names.length [] (view c (exec σ₀ sched)) = true) :
    ∃ ρ μ : Nat → Nat,
      (∀ a, a < base → ρ a = a) ∧
      (∀ a ∈ atomsOf (view c (exec σ₀ sched)), ∀ b ∈ atomsOf (view c (exec σ₀ sched)), ρ a = ρ b → a = b) ∧
      (∀ a ∈ atomsOf (view c (exec σ₀ sched)),
        atomName (final σ₀ (soloSched ρ c (view c (exec σ₀ sched)))) (ρ a) = atomName (final σ₀ sched) a) ∧
      (∀ v ∈ varsOf (view c (exec σ₀ sched)), ∀ w ∈ varsOf (view c (exec σ₀ sched)), v < w → μ v < μ w) ∧
      exec σ₀ (soloSched ρ c (view c (exec σ₀ sched))) = (view c (exec σ₀ sched)).map (renEvent ρ μ) := by
  let h := view c (exec σ₀ sched)
  let σf := final σ₀ sched
  let τf := final σ₀ (soloSched id c h)
  have hσf : TableInv σf := final_inv _ _ h₀
  have hτf : TableInv τf := final_inv _ _ h₀
  have hknown : ∀ a, (a < base + σ₀.names.length ∨ a ∈ ([] : List Nat)) → Known σ₀ σ₀ a := by
    intro a ha
    rcases ha with ha | ha
    · by_cases ha0 : a < base
      · exact Or.inl ha0
      · have hlt : a - base < σ₀.names.length := by omega
        refine Or.inr ⟨σ₀.names[a - base], a, by simp [hlt], ?_⟩
        exact (h₀.atoms_names _ _).mpr ⟨a - base, by omega, by simp [hlt]⟩
    · simp at ha
  obtain ⟨hsim, hk⟩ := sim c σf τf hτf σ₀.counter (varsOf h) σ₀.names.length sched σ₀ σ₀ [] []
    h₀ h₀ (Le.refl _) (Le.refl _) hknown hwf (by simp [h]) (by simp) (by simp)
  refine ⟨mkRho σf τf, mkMu σ₀.counter (varsOf h), fun a ha => mkRho_rune _ _ ha, ?_, ?_, ?_, hsim⟩
  · intro a ha b hb hab
    exact mkRho_inj hσf hτf (hk a ha) (hk b hb) hab
  · intro a ha
    rw [final_soloSched (mkRho σf τf) id]
    exact mkRho_name hτf (hk a ha)
  · intro v hv w _ hvw
    have := countP_lt_strict hvw (varsOf h) hv
    simp only [mkMu]; omega

/-- **C14_id_parametric.**  The layers above the table, on id-level terms as Go manipulates them
    (atoms are uint64 ids compared with `==`, ordered by NAME through `Atom.String`; variables are
    numbers ordered numerically; answers are read with atoms by name and variables renamed by first
    occurrence).  For ANY renaming `ρ` of atom ids that preserves names and is injective on the
    atoms involved, and ANY renaming `μ` of variable numbers that is strictly monotone on the
    variables involved:  identity (`==`, the base of unification), the standard order
    (`compare/3`, sorting, `setof`), and canonical answers are unchanged. -/
theorem C14_id_parametric (nm nm' : Nat → String) (ρ μ : Nat → Nat) (t u : ITerm)
    (hname : ∀ a ∈ t.atoms ++ u.atoms, nm' (ρ a) = nm a)
    (hρ : ∀ a ∈ t.atoms ++ u.atoms, ∀ b ∈ t.atoms ++ u.atoms, ρ a = ρ b → a = b)
    (hμ : ∀ v ∈ t.vars ++ u.vars, ∀ w ∈ t.vars ++ u.vars, v < w → μ v < μ w) :
    (t.ren ρ μ = u.ren ρ μ ↔ t = u) ∧
    ITerm.cmp nm' (t.ren ρ μ) (u.ren ρ μ) = ITerm.cmp nm t u ∧
    (t.ren ρ μ).answer nm' = t.answer nm ∧
    (t.ren ρ μ).abs nm' = (t.abs nm).mapVars μ := by
  have hinj : ∀ v ∈ t.vars ++ u.vars, ∀ w ∈ t.vars ++ u.vars, μ v = μ w → v = w := by
    intro v hv w hw h
    rcases Nat.lt_trichotomy v w with hlt | heq | hgt
    · have := hμ v hv w hw hlt; omega
    · exact heq
    · have := hμ w hw v hv hgt; omega
  have hcmp : ∀ v ∈ t.vars ++ u.vars, ∀ w ∈ t.vars ++ u.vars, compare (μ v) (μ w) = compare v w := by
    intro v hv w hw
    rcases Nat.lt_trichotomy v w with hlt | heq | hgt
    · rw [Nat.compare_eq_lt.mpr hlt, Nat.compare_eq_lt.mpr (hμ v hv w hw hlt)]
    · subst heq; simp
    · rw [Nat.compare_eq_gt.mpr hgt, Nat.compare_eq_gt.mpr (hμ w hw v hv hgt)]
  have habs := ITerm.abs_ren nm nm' ρ μ t (fun a ha => hname a (by simp [ha]))
  refine ⟨⟨ITerm.ren_inj ρ μ t u hρ hinj, fun h => by rw [h]⟩, ITerm.cmp_ren nm nm' ρ μ t u hname hcmp, ?_, habs⟩
  unfold ITerm.answer
  rw [habs]
  apply Term.canon_mapVars
  rw [ITerm.vars_abs]
  exact fun v hv w hw => hinj v (by simp [hv]) w (by simp [hw])

/-- **C14_unify_parametric.**  Unification of id-level terms (atoms compared by id, bindings by
    variable number) commutes with every renaming that is injective on the atoms and variables of
    the two terms: the renamed problem is solvable (within the same fuel) iff the original one is,
    and its solution is the renamed solution — for renamings `ρ' μ'` that agree with `ρ μ` on
    everything the two terms mention (the solution mentions nothing else). -/
theorem C14_unify_parametric (ρ μ : Nat → Nat) (fuel : Nat) (t u : ITerm)
    (hρ : ∀ a ∈ t.atoms ++ u.atoms, ∀ b ∈ t.atoms ++ u.atoms, ρ a = ρ b → a = b)
    (hμ : ∀ v ∈ t.vars ++ u.vars, ∀ w ∈ t.vars ++ u.vars, μ v = μ w → v = w) :
    (ITerm.unify fuel (t.ren ρ μ) (u.ren ρ μ) []).isSome = (ITerm.unify fuel t u []).isSome ∧
    ∃ ρ' μ' : Nat → Nat,
      (∀ a ∈ t.atoms ++ u.atoms, ρ' a = ρ a) ∧ (∀ v ∈ t.vars ++ u.vars, μ' v = μ v) ∧
      ITerm.unify fuel (t.ren ρ μ) (u.ren ρ μ) [] = (ITerm.unify fuel t u []).map (·.ren ρ' μ') := by
  have key : ITerm.unify fuel (t.ren ρ μ) (u.ren ρ μ) [] =
      (ITerm.unify fuel t u []).map (·.ren (extend ρ (t.atoms ++ u.atoms)) (extend μ (t.vars ++ u.vars))) := by
    rw [ITerm.ren_congr ρ (extend ρ (t.atoms ++ u.atoms)) μ (extend μ (t.vars ++ u.vars)) t
        (fun a ha => (extend_agrees ρ _ (by simp [ha])).symm)
        (fun v hv => (extend_agrees μ _ (by simp [hv])).symm),
      ITerm.ren_congr ρ (extend ρ (t.atoms ++ u.atoms)) μ (extend μ (t.vars ++ u.vars)) u
        (fun a ha => (extend_agrees ρ _ (by simp [ha])).symm)
        (fun v hv => (extend_agrees μ _ (by simp [hv])).symm)]
    exact ITerm.unify_ren _ _ (extend_injective ρ _ hρ) (extend_injective μ _ hμ) fuel t u []
  refine ⟨by rw [key]; simp, _, _, fun a ha => extend_agrees ρ _ ha, fun v hv => extend_agrees μ _ hv, key⟩

/-- Go decides identity of atoms by `==` on ids, every model in this framework (and ISO) by
    equality of names.  As long as the naming is injective on the atoms involved — which
    `C14_atom_table_linearizable` guarantees for every atom obtained from `NewAtom`, whatever other
    interpreters do — the two coincide. -/
theorem C14_id_equality_is_name_equality (nm : Nat → String) (t u : ITerm)
    (hinj : ∀ a ∈ t.atoms ++ u.atoms, ∀ b ∈ t.atoms ++ u.atoms, nm a = nm b → a = b) :
    t.abs nm = u.abs nm ↔ t = u :=
  ⟨ITerm.abs_inj nm t u hinj, fun h => by rw [h]⟩

/-- **C14_answers_unchanged** (the three theorems combined).  Whatever the other interpreters do
    to the shared state — any number of them, any interleaving — the ids client `c` holds differ
    from the ids it would hold had it run ALONE only by renamings under which identity, order,
    unifiability and canonical answers of every term built from them are the same. -/
theorem C14_answers_unchanged (σ₀ : State) (h₀ : TableInv σ₀) (sched : Schedule) (c : Nat)
    (hwf : learnedOnly σ₀.names.length [] (view c (exec σ₀ sched)) = true) :
    ∃ ρ μ : Nat → Nat,
      exec σ₀ (soloSched ρ c (view c (exec σ₀ sched))) = (view c (exec σ₀ sched)).map (renEvent ρ μ) ∧
      ∀ t u : ITerm,
        (∀ a ∈ t.atoms ++ u.atoms, a ∈ atomsOf (view c (exec σ₀ sched))) →
        (∀ v ∈ t.vars ++ u.vars, v ∈ varsOf (view c (exec σ₀ sched))) →
        (t.ren ρ μ = u.ren ρ μ ↔ t = u) ∧
        ITerm.cmp (nameFn (final σ₀ (soloSched ρ c (view c (exec σ₀ sched))))) (t.ren ρ μ) (u.ren ρ μ)
          = ITerm.cmp (nameFn (final σ₀ sched)) t u ∧
        (t.ren ρ μ).answer (nameFn (final σ₀ (soloSched ρ c (view c (exec σ₀ sched)))))
          = t.answer (nameFn (final σ₀ sched)) ∧
        (∀ fuel, (ITerm.unify fuel (t.ren ρ μ) (u.ren ρ μ) []).isSome = (ITerm.unify fuel t u []).isSome) := by
  obtain ⟨ρ, μ, _, hinj, hname, hmono, hsim⟩ := C14_view_as_alone σ₀ h₀ sched c hwf
  refine ⟨ρ, μ, hsim, ?_⟩
  intro t u hat hvt
  have := C14_id_parametric (nameFn (final σ₀ sched))
    (nameFn (final σ₀ (soloSched ρ c (view c (exec σ₀ sched))))) ρ μ t u
    (fun a ha => by simp only [nameFn, hname a (hat a ha)])
    (fun a ha b hb => hinj a (hat a ha) b (hat b hb))
    (fun v hv w hw => hmono v (hvt v hv) w (hvt w hw))
  refine ⟨this.1, this.2.1, this.2.2.1, fun fuel => ?_⟩
  refine (C14_unify_parametric ρ μ fuel t u (fun a ha b hb => hinj a (hat a ha) b (hat b hb)) ?_).1
  intro v hv w hw h
  rcases Nat.lt_trichotomy v w with hlt | heq | hgt
  · have := hmono v (hvt v hv) w (hvt w hw) hlt; omega
  · exact heq
  · have := hmono w (hvt w hw) v (hvt v hv) hgt; omega

/-! ### regenerated facts: the assumptions of the model, re-read from the source on every run

  `Generated/SharedState.lean` is rewritten by `extract/shared.go` (go/types) from the working tree
  before every check; the theorems below compare it with what the model assumes.  They do not prove
  behaviour — they make drift visible: dropping the mutex, reading the map on a lock-free fast
  path, a non-atomic counter, a new package-level cache, or operators/flags/streams moving out of
  `VM` into a package-level variable changes a list and the proof (`decide`) fails. -/

open PrologVerif.Generated in
/-- The atom table is touched by exactly the two functions the model has (`NewAtom`, `Atom.String`),
    every write sits under `atomTable.Lock()` and every read under `Lock()` or `RLock()`, held from
    before the access to the function's return (`defer Unlock`).  This is what makes `newAtom` and
    `atomName` ATOMIC steps of `Model/Shared`. -/
theorem C14_facts_atom_table_locked :
    SharedState.atomTableAccesses =
      [ ("atom.go", "NewAtom", "atoms", "read", "Lock"),       -- a, ok := atomTable.atoms[name]
        ("atom.go", "NewAtom", "names", "read", "Lock"),       -- len(atomTable.names)
        ("atom.go", "NewAtom", "atoms", "write", "Lock"),      -- atomTable.atoms[name] = a
        ("atom.go", "NewAtom", "names", "write", "Lock"),      -- atomTable.names = append(…
        ("atom.go", "NewAtom", "names", "read", "Lock"),       --   … atomTable.names, name)
        ("atom.go", "Atom.String", "names", "read", "RLock") ] ∧
    (∀ x ∈ SharedState.atomTableAccesses,
      (x.2.2.2.1 = "write" → x.2.2.2.2 = "Lock") ∧
      (x.2.2.2.1 = "read" → x.2.2.2.2 = "Lock" ∨ x.2.2.2.2 = "RLock")) := by
  decide +kernel

open PrologVerif.Generated in
/-- `varCounter` is only ever changed through `atomic.AddInt64` (in `NewVariable`); the one plain
    read, `lastVariable`, has no caller outside `_test.go` and the observation hook. -/
theorem C14_facts_var_counter_atomic :
    SharedState.varCounterAccesses =
      [ ("variable.go", "lastVariable", "read"),
        ("variable.go", "NewVariable", "atomic.AddInt64") ] ∧
    SharedState.lastVariableCallers = [ ("verif_hooks.go", "VerifVarCounter") ] := by
  decide +kernel

/-- the package-level variables of `engine` and `prolog` (well-known `Atom` values aside), audited
    by hand as never changing after initialisation -/
def expectedPackageVars : List (String × String × String) := [
  -- (the compiled regular expression quotedAtomEscapePattern is gone with repair fedf6cc of `quote`)
  -- THE shared mutable state #1 (Model/Shared.State.names/atoms)
  ("engine", "atomTable", "struct{sync.RWMutex; names []string; atoms map[string]Atom}"),
  -- lookup tables, filled by their composite literal (or init()) and only read afterwards
  ("engine", "operatorSpecifiers", "map[Atom]operatorSpecifier"),
  -- test seams: assigned in _test.go only
  ("engine", "openFile", "func"),
  ("engine", "osExit", "func"),
  ("engine", "errNotCallable", "error"),
  ("engine", "writeCompoundOps", "[...]func(w io.Writer, c Compound, opts *WriteOptions, env *Env, op *operator) error"),
  ("engine", "errDCGNotApplicable", "error"),
  ("engine", "dcgConstr", "map[procedureIndicator]func(args []Term, list Term, rest Term, env *Env) (Term, error)"),
  -- immutable: the context variable and the root environment node
  ("engine", "varContext", "Variable"),
  ("engine", "rootEnv", "*Env"),
  ("engine", "validTypeAtoms", "[...]Atom"),
  ("engine", "validDomainAtoms", "[...]Atom"),
  ("engine", "objectTypeAtoms", "[...]Atom"),
  ("engine", "operationAtoms", "[...]Atom"),
  ("engine", "permissionTypeAtoms", "[...]Atom"),
  ("engine", "flagAtoms", "[...]Atom"),
  ("engine", "resourceAtoms", "[...]Atom"),
  ("engine", "exceptionalValueAtoms", "[...]Atom"),
  ("engine", "soloTokenKinds", "[...]tokenKind"),
  ("engine", "errOutOfMemory", "error"),
  ("engine", "termSize", "int64"),
  ("engine", "memFree", "func"),
  ("engine", "maxInt", "Integer"),
  ("engine", "minInt", "Integer"),
  ("engine", "constants", "map[Atom]Number"),
  ("engine", "unaryFunctors", "map[Atom]func(Number) (Number, error)"),
  ("engine", "binaryFunctors", "map[Atom]func(Number, Number) (Number, error)"),
  ("engine", "errExpectation", "error"),
  ("engine", "errNoOp", "error"),
  ("engine", "errNotANumber", "error"),
  ("engine", "errPlaceholder", "error"),
  ("engine", "quotedIdentEscapePattern", "*regexp.Regexp"),
  ("engine", "doubleQuotedEscapePattern", "*regexp.Regexp"),
  -- shared leaf promises (no `delayed`, so `Force` never writes to them) and the cut sentinel
  ("engine", "truePromise", "*Promise"),
  ("engine", "falsePromise", "*Promise"),
  ("engine", "dummyCutParent", "Promise"),
  ("engine", "errWrongIOMode", "error"),
  ("engine", "errWrongStreamType", "error"),
  ("engine", "errPastEndOfStream", "error"),
  ("engine", "errReposition", "error"),
  -- read-only write options (passed by pointer; the `with…` methods copy)
  ("engine", "defaultWriteOptions", "WriteOptions"),
  -- THE shared mutable state #2 (Model/Shared.State.counter)
  ("engine", "varCounter", "int64"),
  ("prolog", "bootstrap", "string"),
  ("prolog", "ErrNoSolutions", "error"),
  ("prolog", "ErrClosed", "error"),
  ("prolog", "errConversion", "error"),
  ("prolog", "atomEmptyList", "engine.Atom") ]

open PrologVerif.Generated in
/-- No package-level variable of `engine` or `prolog` other than the atom table and the variable
    counter is assigned, incremented or mutated through a pointer-receiver method outside `init()`
    and its declaration; the only addresses taken are of the read-only `defaultWriteOptions` and of
    the `dummyCutParent` sentinel.  The set of package-level variables is the audited one, every
    well-known `Atom` variable is a `NewAtom(<literal>)` value, and operators, flags, character
    conversions, streams, current input/output and the database are fields of `VM`. -/
theorem C14_facts_no_other_shared_state :
    SharedState.packageVarWrites =
      [ ("engine.atomTable", "atom.go", "NewAtom", "ptrmethod:Lock"),
        ("engine.atomTable", "atom.go", "NewAtom", "ptrmethod:Unlock"),
        ("engine.atomTable", "atom.go", "NewAtom", "assign"),
        ("engine.atomTable", "atom.go", "NewAtom", "assign"),
        ("engine.atomTable", "atom.go", "Atom.String", "ptrmethod:RLock"),
        ("engine.atomTable", "atom.go", "Atom.String", "ptrmethod:RUnlock"),
        ("engine.defaultWriteOptions", "builtin.go", "numberCharsWrite", "addr"),
        ("engine.defaultWriteOptions", "builtin.go", "numberCodesWrite", "addr"),
        ("engine.defaultWriteOptions", "exception.go", "Exception.Error", "addr"),
        ("engine.dummyCutParent", "promise.go", "cut", "addr"),
        -- (the comparison `p.cutParent != &dummyCutParent` of the double-cut repair 0088de9: the
        --  sentinel is recognised so that it is never written to)
        ("engine.dummyCutParent", "promise.go", "Promise.Force", "addr"),
        ("engine.varCounter", "variable.go", "NewVariable", "atomic.AddInt64") ] ∧
    SharedState.packageVars = expectedPackageVars ∧
    SharedState.atomVarsOddInit = [] ∧
    SharedState.vmFields =
      [ ("Unknown", "func"),
        ("procedures", "map[procedureIndicator]procedure"),
        ("unknown", "unknownAction"),
        ("FS", "fs.FS"),
        ("loaded", "map[string]struct{}"),
        ("operators", "operators"),
        ("charConversions", "map[rune]rune"),
        ("charConvEnabled", "bool"),
        ("doubleQuotes", "doubleQuotes"),
        ("streams", "streams"),
        ("input", "*Stream"),
        ("output", "*Stream"),
        ("debug", "bool") ] := by
  decide +kernel

/-! ### the theorems rest on the atomicity of NewAtom (the mutex) -/

/-- Without the lock — `NewAtom` as two separately scheduled halves, look up then insert —
    interning is NOT stable: two clients can be handed different atoms for the same name. -/
theorem C14_nonatomic_witness :
    ¬ ∀ sched : List (Nat × NA.MicroOp), NA.stable (NA.exec ⟨empty, []⟩ sched) = true := by
  intro h
  have := h [(0, .lookup "foo"), (1, .lookup "foo"), (0, .insert), (1, .insert)]
  revert this
  decide +kernel

/-! ### non-vacuity -/

/-- an interleaving of two clients that meets the hypothesis of `C14_view_as_alone` for client 0,
    in which client 0 is handed an atom that client 1 created, and variables interleave -/
example :
    let sched : Schedule := [(1, .newAtom "bar"), (0, .newAtom "foo"), (1, .newVar), (0, .newAtom "bar"),
      (0, .newVar), (1, .newAtom "foo"), (0, .atomName (base + 0)), (1, .newVar), (0, .newVar)]
    learnedOnly empty.names.length [] (view 0 (exec empty sched)) = true ∧
    exec empty sched ≠ exec empty (soloSched id 0 (view 0 (exec empty sched))) ∧
    (view 0 (exec empty sched)).map (·.res) =
      [.atom (base + 1), .atom (base + 0), .var 2, .name (some "bar"), .var 4] ∧
    (exec empty (soloSched id 0 (view 0 (exec empty sched)))).map (·.res) =
      [.atom (base + 0), .atom (base + 1), .var 1, .name (some "foo"), .var 2] := by
  decide +kernel

example : TableInv empty := inv_empty

/-- `f(X, foo) = f(bar, Y)` with `foo ↦ base+0, bar ↦ base+1` and with the ids swapped and the
    variables shifted: both unify, with corresponding solutions -/
example :
    let t := ITerm.app (base + 2) (.cons (.var 1) (.cons (.atom (base + 0)) .nil))
    let u := ITerm.app (base + 2) (.cons (.atom (base + 1)) (.cons (.var 2) .nil))
    let ρ := fun a => if a = base + 0 then base + 1 else if a = base + 1 then base + 0 else a
    let μ := fun v => v + 10
    ITerm.unify 5 t u [] = some [(2, .atom (base + 0)), (1, .atom (base + 1))] ∧
    ITerm.unify 5 (t.ren ρ μ) (u.ren ρ μ) [] = some [(12, .atom (base + 1)), (11, .atom (base + 0))] := by
  decide +kernel

end PrologVerif.C14
