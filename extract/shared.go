package main

// SharedState.lean — regenerated facts for C14 (separate interpreters are isolated):
//
//   (1) every read/write of atomTable.names / atomTable.atoms, with the enclosing function and
//       whether that function holds atomTable.Lock()/RLock() (taken and deferred-released as the
//       first thing at the top level of its body) for the whole access;
//   (2) every access to varCounter and whether it goes through sync/atomic; callers of lastVariable;
//   (3) every package-level `var` of packages engine and prolog, and every assignment / inc-dec /
//       address-taking / pointer-receiver method call on one of them outside init() and outside
//       package-level declarations;
//   (4) the fields of engine.VM (where all per-interpreter state is expected to live).
//
// Non-test files only, build tag `verif` on (the harness is built with it).  Identifiers are
// resolved with go/types (shadowing-safe); the standard library is type-checked from source.

import (
	"fmt"
	"go/ast"
	"go/build"
	"go/importer"
	"go/parser"
	"go/token"
	"go/types"
	"os"
	"path/filepath"
	"regexp"
	"sort"
	"strings"
)

func init() {
	extractors = append(extractors, extractor{file: "SharedState.lean", run: genSharedState})
}

type loadedPkg struct {
	name  string
	fset  *token.FileSet
	files []*ast.File
	info  *types.Info
	pkg   *types.Package
}

type chainImporter struct {
	known map[string]*types.Package
	next  types.Importer
}

func (c chainImporter) Import(path string) (*types.Package, error) {
	if p, ok := c.known[path]; ok {
		return p, nil
	}
	return c.next.Import(path)
}

func loadPkg(fset *token.FileSet, dir, path string, imp types.Importer) (*loadedPkg, error) {
	ctx := build.Default
	ctx.BuildTags = append([]string{"verif"}, ctx.BuildTags...)
	ents, err := os.ReadDir(dir)
	if err != nil {
		return nil, err
	}
	var files []*ast.File
	for _, e := range ents {
		n := e.Name()
		if e.IsDir() || !strings.HasSuffix(n, ".go") || strings.HasSuffix(n, "_test.go") {
			continue
		}
		ok, err := ctx.MatchFile(dir, n)
		if err != nil {
			return nil, err
		}
		if !ok {
			continue
		}
		f, err := parser.ParseFile(fset, filepath.Join(dir, n), nil, parser.SkipObjectResolution)
		if err != nil {
			return nil, err
		}
		files = append(files, f)
	}
	info := &types.Info{
		Uses:       map[*ast.Ident]types.Object{},
		Defs:       map[*ast.Ident]types.Object{},
		Selections: map[*ast.SelectorExpr]*types.Selection{},
		Types:      map[ast.Expr]types.TypeAndValue{},
	}
	var firstErr error
	conf := types.Config{Importer: imp, Error: func(err error) {
		if firstErr == nil {
			firstErr = err
		}
	}}
	pkg, _ := conf.Check(path, fset, files, info)
	if firstErr != nil {
		return nil, fmt.Errorf("type-checking %s: %v", path, firstErr)
	}
	return &loadedPkg{name: pkg.Name(), fset: fset, files: files, info: info, pkg: pkg}, nil
}

// rootIdent returns the identifier at the root of an addressable expression x, x.f, x[i], *x, (x).
func rootIdent(e ast.Expr) *ast.Ident {
	for {
		switch v := e.(type) {
		case *ast.Ident:
			return v
		case *ast.SelectorExpr:
			e = v.X
		case *ast.IndexExpr:
			e = v.X
		case *ast.StarExpr:
			e = v.X
		case *ast.ParenExpr:
			e = v.X
		case *ast.SliceExpr:
			e = v.X
		default:
			return nil
		}
	}
}

type sharedFacts struct {
	tableAccesses [][5]string
	varCounter    [][3]string
	lastVarCalls  [][2]string
	pkgVars       [][3]string
	atomVarCount  int
	atomVarsOdd   []string
	writes        [][4]string
	vmFields      [][2]string
}

func funcName(fd *ast.FuncDecl) string {
	if fd.Recv != nil && len(fd.Recv.List) > 0 {
		t := fd.Recv.List[0].Type
		if s, ok := t.(*ast.StarExpr); ok {
			t = s.X
		}
		if ix, ok := t.(*ast.IndexExpr); ok {
			t = ix.X
		}
		if id, ok := t.(*ast.Ident); ok {
			return id.Name + "." + fd.Name.Name
		}
	}
	return fd.Name.Name
}

// lockRegion: if the body starts (at its top level) with `atomTable.Lock(); defer atomTable.Unlock()`
// (or RLock/RUnlock), possibly after statements that do not mention atomTable, returns the kind and
// the position from which the lock is held until the function returns.
func lockRegion(lp *loadedPkg, body *ast.BlockStmt, isTable func(*ast.Ident) bool) (string, token.Pos) {
	if body == nil {
		return "", token.NoPos
	}
	callOn := func(e ast.Expr) string {
		c, ok := e.(*ast.CallExpr)
		if !ok || len(c.Args) != 0 {
			return ""
		}
		s, ok := c.Fun.(*ast.SelectorExpr)
		if !ok {
			return ""
		}
		id, ok := s.X.(*ast.Ident)
		if !ok || !isTable(id) {
			return ""
		}
		return s.Sel.Name
	}
	for i := 0; i+1 < len(body.List); i++ {
		es, ok := body.List[i].(*ast.ExprStmt)
		if !ok {
			continue
		}
		m := callOn(es.X)
		if m != "Lock" && m != "RLock" {
			continue
		}
		ds, ok := body.List[i+1].(*ast.DeferStmt)
		if !ok {
			return "", token.NoPos
		}
		want := map[string]string{"Lock": "Unlock", "RLock": "RUnlock"}[m]
		if callOn(ds.Call) != want {
			return "", token.NoPos
		}
		return m, ds.End()
	}
	return "", token.NoPos
}

func collectShared(lp *loadedPkg, pkgVars map[types.Object]bool, facts *sharedFacts) {
	qual := func(p *types.Package) string {
		if p == lp.pkg {
			return ""
		}
		return p.Name()
	}
	objName := func(o types.Object) string { return o.Pkg().Name() + "." + o.Name() }
	isNamed := func(id *ast.Ident, name string) bool {
		o := lp.info.Uses[id]
		return o != nil && pkgVars[o] && o.Pkg().Name() == "engine" && o.Name() == name
	}
	for _, f := range lp.files {
		file := filepath.Base(lp.fset.Position(f.Pos()).Filename)
		// observation hooks (build tag verif, add-only) may keep tables of their own; they are not
		// part of the shipped package and are excluded from (3), but not from (1) and (2)
		isHook := strings.HasPrefix(file, "verif_hooks")
		for _, d := range f.Decls {
			switch d := d.(type) {
			case *ast.GenDecl:
				if d.Tok != token.VAR {
					continue
				}
				for _, sp := range d.Specs {
					vs := sp.(*ast.ValueSpec)
					for i, n := range vs.Names {
						if n.Name == "_" {
							continue
						}
						o := lp.info.Defs[n]
						ts := typeStr(o.Type(), qual)
						if lp.name == "engine" && ts == "Atom" {
							facts.atomVarCount++
							ok := false
							if i < len(vs.Values) {
								if c, isCall := vs.Values[i].(*ast.CallExpr); isCall && len(c.Args) == 1 {
									if fn, isId := c.Fun.(*ast.Ident); isId && fn.Name == "NewAtom" {
										if _, isLit := c.Args[0].(*ast.BasicLit); isLit {
											ok = true
										}
									}
								}
							}
							if !ok {
								facts.atomVarsOdd = append(facts.atomVarsOdd, n.Name)
							}
							continue
						}
						if !isHook {
							facts.pkgVars = append(facts.pkgVars, [3]string{lp.name, n.Name, ts})
						}
					}
				}
			case *ast.FuncDecl:
				if d.Body == nil {
					continue
				}
				fn := funcName(d)
				inInit := d.Recv == nil && d.Name.Name == "init"
				lockKind, lockFrom := lockRegion(lp, d.Body, func(id *ast.Ident) bool { return isNamed(id, "atomTable") })
				// walk with a parent stack
				var stack []ast.Node
				ast.Inspect(d.Body, func(n ast.Node) bool {
					if n == nil {
						stack = stack[:len(stack)-1]
						return true
					}
					stack = append(stack, n)
					id, ok := n.(*ast.Ident)
					if !ok {
						return true
					}
					o := lp.info.Uses[id]
					if o == nil || !pkgVars[o] {
						// calls of lastVariable
						if o != nil && o.Pkg() != nil && o.Pkg().Name() == "engine" && o.Name() == "lastVariable" {
							if _, isFn := o.(*types.Func); isFn {
								facts.lastVarCalls = append(facts.lastVarCalls, [2]string{file, fn})
							}
						}
						return true
					}
					// the maximal addressable expression rooted at id, and the node above it
					top := len(stack) - 1
					for top > 0 {
						switch p := stack[top-1].(type) {
						case *ast.SelectorExpr:
							if p.X == stack[top] {
								// a method value/call is not part of the addressable expression
								if sel := lp.info.Selections[p]; sel != nil && sel.Kind() != types.FieldVal {
									goto done
								}
								top--
								continue
							}
						case *ast.IndexExpr:
							if p.X == stack[top] {
								top--
								continue
							}
						case *ast.ParenExpr, *ast.StarExpr:
							top--
							continue
						case *ast.SliceExpr:
							if p.X == stack[top] {
								top--
								continue
							}
						}
						break
					}
				done:
					expr := stack[top].(ast.Expr)
					var parent ast.Node
					if top > 0 {
						parent = stack[top-1]
					}
					inFuncLit := false
					for _, s := range stack[:top] {
						switch s.(type) {
						case *ast.FuncLit, *ast.GoStmt:
							inFuncLit = true
						}
					}
					kind := "read"
					switch p := parent.(type) {
					case *ast.AssignStmt:
						for _, l := range p.Lhs {
							if l == expr {
								kind = "assign"
							}
						}
					case *ast.IncDecStmt:
						if p.X == expr {
							kind = "incdec"
						}
					case *ast.UnaryExpr:
						if p.Op == token.AND && p.X == expr {
							kind = "addr"
							if top > 1 {
								if c, ok := stack[top-2].(*ast.CallExpr); ok {
									if s, ok := c.Fun.(*ast.SelectorExpr); ok {
										if pid, ok := s.X.(*ast.Ident); ok {
											if pn, ok := lp.info.Uses[pid].(*types.PkgName); ok && pn.Imported().Path() == "sync/atomic" {
												kind = "atomic." + s.Sel.Name
											}
										}
									}
								}
							}
						}
					case *ast.RangeStmt:
						if (p.Key == expr || p.Value == expr) && p.Tok == token.ASSIGN {
							kind = "assign"
						}
					case *ast.SelectorExpr:
						// method call / method value on the variable
						if sel := lp.info.Selections[p]; sel != nil && sel.Kind() != types.FieldVal {
							if sig, ok := sel.Obj().Type().(*types.Signature); ok && sig.Recv() != nil {
								if _, isPtr := sig.Recv().Type().(*types.Pointer); isPtr {
									if _, recvIsPtr := lp.info.Types[expr].Type.(*types.Pointer); !recvIsPtr {
										kind = "ptrmethod:" + p.Sel.Name
									}
								}
							}
						}
					}
					// (1) atom table
					if o.Pkg().Name() == "engine" && o.Name() == "atomTable" {
						// which field?
						field := ""
						if top < len(stack)-1 {
							if s, ok := stack[len(stack)-2].(*ast.SelectorExpr); ok && s.X == id {
								if sel := lp.info.Selections[s]; sel != nil && sel.Kind() == types.FieldVal {
									field = s.Sel.Name
								}
							}
						}
						if field != "" {
							rw := "read"
							if kind == "assign" || kind == "incdec" || kind == "addr" || strings.HasPrefix(kind, "atomic.") {
								rw = "write"
							}
							lock := "none"
							if lockKind != "" && id.Pos() > lockFrom && !inFuncLit {
								lock = lockKind
							}
							facts.tableAccesses = append(facts.tableAccesses, [5]string{file, fn, field, rw, lock})
						}
					}
					// (2) variable counter
					if o.Pkg().Name() == "engine" && o.Name() == "varCounter" {
						facts.varCounter = append(facts.varCounter, [3]string{file, fn, kind})
					}
					// (3) writes to package-level variables
					if kind != "read" && !inInit && !isHook {
						facts.writes = append(facts.writes, [4]string{objName(o), file, fn, kind})
					}
					return true
				})
			}
		}
	}
	// (4) the VM struct
	if lp.name == "engine" {
		if o := lp.pkg.Scope().Lookup("VM"); o != nil {
			if st, ok := o.Type().Underlying().(*types.Struct); ok {
				for i := 0; i < st.NumFields(); i++ {
					ts := typeStr(st.Field(i).Type(), qual)
					facts.vmFields = append(facts.vmFields, [2]string{st.Field(i).Name(), ts})
				}
			}
		}
	}
}

var arrayLen = regexp.MustCompile(`\[\d+\]`)

// typeStr prints a type; function types as "func", array lengths elided (adding a table entry is not a finding).
func typeStr(t types.Type, qual types.Qualifier) string {
	ts := types.TypeString(t, qual)
	if strings.HasPrefix(ts, "func(") {
		return "func"
	}
	return arrayLen.ReplaceAllString(ts, "[...]")
}

func leanTuple(xs ...string) string {
	q := make([]string, len(xs))
	for i, x := range xs {
		q[i] = leanString(x)
	}
	return "(" + strings.Join(q, ", ") + ")"
}

func genSharedState(repo string) (string, error) {
	fset := token.NewFileSet()
	src := importer.ForCompiler(fset, "source", nil)
	eng, err := loadPkg(fset, filepath.Join(repo, "engine"), "github.com/ichiban/prolog/engine", src)
	if err != nil {
		return "", err
	}
	top, err := loadPkg(fset, repo, "github.com/ichiban/prolog",
		chainImporter{known: map[string]*types.Package{"github.com/ichiban/prolog/engine": eng.pkg}, next: src})
	if err != nil {
		return "", err
	}
	pkgVars := map[types.Object]bool{}
	for _, lp := range []*loadedPkg{eng, top} {
		sc := lp.pkg.Scope()
		for _, n := range sc.Names() {
			if v, ok := sc.Lookup(n).(*types.Var); ok {
				pkgVars[v] = true
			}
		}
	}
	var facts sharedFacts
	for _, lp := range []*loadedPkg{eng, top} {
		sort.Slice(lp.files, func(i, j int) bool {
			return lp.fset.Position(lp.files[i].Pos()).Filename < lp.fset.Position(lp.files[j].Pos()).Filename
		})
		collectShared(lp, pkgVars, &facts)
	}
	if len(facts.tableAccesses) == 0 && len(facts.varCounter) == 0 {
		return "", fmt.Errorf("neither atomTable nor varCounter found in engine: the shared-state model has lost its anchor")
	}
	var sb strings.Builder
	sb.WriteString("namespace PrologVerif.Generated.SharedState\n\n")
	sb.WriteString("/-- every access to atomTable.names / atomTable.atoms: (file, function, field, read|write, lock held for the whole access: Lock|RLock|none) -/\n")
	sb.WriteString("def atomTableAccesses : List (String × String × String × String × String) := [\n")
	for i, a := range facts.tableAccesses {
		if i > 0 {
			sb.WriteString(",\n")
		}
		sb.WriteString("  " + leanTuple(a[:]...))
	}
	sb.WriteString("\n]\n\n/-- every access to varCounter: (file, function, how) — how = atomic.<F> | read | assign | incdec | addr -/\n")
	sb.WriteString("def varCounterAccesses : List (String × String × String) := [\n")
	for i, a := range facts.varCounter {
		if i > 0 {
			sb.WriteString(",\n")
		}
		sb.WriteString("  " + leanTuple(a[:]...))
	}
	sb.WriteString("\n]\n\n/-- callers of lastVariable (the non-atomic read) outside _test.go: (file, function) -/\n")
	sb.WriteString("def lastVariableCallers : List (String × String) := [\n")
	for i, a := range facts.lastVarCalls {
		if i > 0 {
			sb.WriteString(",\n")
		}
		sb.WriteString("  " + leanTuple(a[:]...))
	}
	sb.WriteString("\n]\n\n/-- package-level variables of engine and prolog other than the well-known atoms: (package, name, type) -/\n")
	sb.WriteString("def packageVars : List (String × String × String) := [\n")
	for i, a := range facts.pkgVars {
		if i > 0 {
			sb.WriteString(",\n")
		}
		sb.WriteString("  " + leanTuple(a[:]...))
	}
	fmt.Fprintf(&sb, "\n]\n\n/-- package-level variables of type Atom (immutable uint64 values) -/\ndef atomVarCount : Nat := %d\n\n", facts.atomVarCount)
	sb.WriteString("/-- those of them NOT initialised by `NewAtom(<literal>)` at their declaration -/\ndef atomVarsOddInit : List String := [")
	for i, a := range facts.atomVarsOdd {
		if i > 0 {
			sb.WriteString(", ")
		}
		sb.WriteString(leanString(a))
	}
	sb.WriteString("]\n\n/-- every assignment / inc-dec / address-taking / pointer-receiver method call on a package-level variable\n    outside init() and package-level declarations: (package.var, file, function, kind) -/\n")
	sb.WriteString("def packageVarWrites : List (String × String × String × String) := [\n")
	for i, a := range facts.writes {
		if i > 0 {
			sb.WriteString(",\n")
		}
		sb.WriteString("  " + leanTuple(a[:]...))
	}
	sb.WriteString("\n]\n\n/-- the fields of engine.VM: (name, type) -/\ndef vmFields : List (String × String) := [\n")
	for i, a := range facts.vmFields {
		if i > 0 {
			sb.WriteString(",\n")
		}
		sb.WriteString("  " + leanTuple(a[:]...))
	}
	sb.WriteString("\n]\n\nend PrologVerif.Generated.SharedState\n")
	return sb.String(), nil
}
