/-
  Driver for the answer streams c01.answers / c03.answers / c04.answers (one payload format, one runner):

      <maxAnswers> | <Query wire> | <Clause wire> | ...          (payload)
      a <wire> ; a <wire> ; ... ; end exhausted|more|err F|ball B  (implementation line)

  Verdict: the reference interpreter `SLD.solveQuery` (cut transparency of the engine: iso = false)
  must produce the same line.  The "model output" column is a placeholder until the VM model is wired
  in (the streams run with no_model_compare).
-/
import PrologVerif.Driver.Common
import PrologVerif.Spec.SLD
namespace PrologVerif.Driver.C01
open PrologVerif PrologVerif.Driver

/-- bounds the depth of the reference search, not its size; the generators only emit cases whose
    reference search is far smaller -/
def fuel : Nat := 20000

structure Case where
  max : Nat
  query : Term
  prog : List Term

def parseCase (payload : String) : Option Case :=
  match fields payload with
  | m :: q :: cs =>
    match m.toNat?, Term.ofWire q, (cs.filter (· ≠ "")).mapM Term.ofWire with
    | some max, some query, some prog => some ⟨max, query, prog⟩
    | _, _, _ => none
  | _ => none

def showEnd : SLD.End → String
  | .exhausted => "end exhausted"
  | .more => "end more"
  | .err f => "end err " ++ f.canon.wire
  | .ball b => "end ball " ++ b.canon.wire

/-- the line the runner prints for this outcome -/
def showOutcome (r : List Term × SLD.End) : String :=
  " ; ".intercalate (r.1.map (fun a => "a " ++ a.canon.wire) ++ [showEnd r.2])

def specLine (c : Case) (iso : Bool) : Option String :=
  (SLD.solveQuery fuel c.prog c.query c.max iso).map showOutcome

def noOracle (impl : String) : Bool :=
  impl.endsWith "end timeout" || impl.endsWith "end cyclic" || impl.startsWith "assert-" || impl.startsWith "BAD-CASE"

def judge (c : Case) (iso : Bool) (impl : String) : String :=
  if noOracle impl then "-" else
  match specLine c iso with
  | none => "-"         -- out of fuel, or a unification subject to occurs check: undefined
  | some want => if impl = want then "ok" else "FAIL spec says " ++ want

def handler (iso : Bool := false) : Handler := fun payload impl =>
  match parseCase payload with
  | none => ("BAD-CASE", "-")
  | some c => (impl, judge c iso impl)

end PrologVerif.Driver.C01
