/-
  force_dfsG — the trampoline (Model/Promise.lean `force`) finds exactly what the recursive
  reference search (Spec/DFSG.lean `dfsP`) finds, for EVERY semantics record `sem` (pure promise
  trees, the VM, …): same result, same final machine state (user state and poll counter), for every
  well-scoped promise on top of any stack.

  DEFINITIONS AND STATEMENTS in this header section; the proofs follow.
-/
import PrologVerif.Spec.DFSG
import PrologVerif.Proofs.Promise
namespace PrologVerif.ForceDFSG
open PrologVerif.Promise PrologVerif.DFSG

variable {τ ρ ε σ : Type}

/-- ids of the identified frames of a stack (promises with an identity, and markers), top first -/
def ids (stack : List (P τ ρ ε)) : List Nat :=
  stack.filterMap fun p => if p.id = 0 then none else some p.id

def cutOpt : Option Nat → List (P τ ρ ε) → List (P τ ρ ε)
  | none, st => st
  | some c, st => cutStack c st

/-- where the machine is once the promise that sat on top of `stack` has signalled `sig`:
    `n` is the fuel left, `m` the machine state at that moment -/
def after (sem : Sem τ ρ ε σ) (sig : SigG ε) (stack : List (P τ ρ ε)) (m : M σ) (n : Nat) :
    Option (Res ε × M σ) :=
  match sig with
  | .found => some (.yes, m)
  | .exhausted co => force sem none n (cutOpt co stack) m
  | .raised e co =>
    match recoverStack sem e (cutOpt co stack) m with
    | (none, m') => some (.error e, m')
    | (some st', m') => force sem none n st' m'
  | .illScoped => none

/-- more fuel does not change what calling a thunk does -/
def SemMono (sem : Sem τ ρ ε σ) : Prop :=
  ∀ n t m r, sem.evalThunk n t m = some r → sem.evalThunk (n + 1) t m = some r

/-- the statement of force_dfsG for a promise `p` sitting on top of `stack`: if the reference search
    (thunks called with fuel `tf`) signals `sig` in state `m'`, the trampoline, given `cost`
    iterations (and at least `tf` fuel left for the thunks), is where `after` says -/
def ForceDfsGStatement : Prop :=
  ∀ {τ ρ ε σ : Type} (sem : Sem τ ρ ε σ), SemMono sem →
  ∀ (tf k : Nat) (p : P τ ρ ε) (live : List Nat) (m m' : M σ) (sig : SigG ε),
    dfsP sem tf k p live m = some (sig, m') → sig ≠ .illScoped →
    ∀ (stack : List (P τ ρ ε)), ids stack = live → live.Nodup →
      ∃ cost, ∀ n, tf ≤ n →
        force sem none (n + cost) (p :: stack) m = after sem sig stack m' n

/-- thunks and recovery functions that leave the poll counter alone (no nested trampolines) -/
structure IterPure (sem : Sem τ ρ ε σ) : Prop where
  thunk : ∀ n t m q m', sem.evalThunk n t m = some (q, m') → m'.iter = m.iter
  recover : ∀ r e m, (sem.evalRecover r e m).2.iter = m.iter

/-! ## Proofs

### one iteration of `force` on each shape of promise -/

theorem semMono_le {sem : Sem τ ρ ε σ} (h : SemMono sem) {n n' : Nat} (hle : n ≤ n') {t : τ} {m : M σ}
    {r : P τ ρ ε × M σ} (he : sem.evalThunk n t m = some r) : sem.evalThunk n' t m = some r := by
  induction hle with
  | refl => exact he
  | step _ ih => exact h _ _ _ _ ih

theorem step_empty (sem : Sem τ ρ ε σ) (n : Nat) (p : P τ ρ ε) (stack : List (P τ ρ ε)) (m : M σ)
    (hd : p.delayed = []) (he : p.err = none) (ho : p.ok = false) :
    force sem none (n + 1) (p :: stack) m = force sem none n stack (tick m) := by
  simp [force, isCancelled, hd, he, ho, tick]

theorem step_ok (sem : Sem τ ρ ε σ) (n : Nat) (p : P τ ρ ε) (stack : List (P τ ρ ε)) (m : M σ)
    (hd : p.delayed = []) (he : p.err = none) (ho : p.ok = true) :
    force sem none (n + 1) (p :: stack) m = some (.yes, tick m) := by
  simp [force, isCancelled, hd, he, ho, tick]

theorem step_err (sem : Sem τ ρ ε σ) (n : Nat) (p : P τ ρ ε) (e : ε) (stack : List (P τ ρ ε)) (m : M σ)
    (hd : p.delayed = []) (he : p.err = some e) :
    force sem none (n + 1) (p :: stack) m = after sem (.raised e none) stack (tick m) n := by
  simp only [force, isCancelled, hd, he, after, cutOpt, tick]
  rcases recoverStack sem e stack _ with ⟨_ | st', m'⟩ <;> rfl

theorem step_thunk (sem : Sem τ ρ ε σ) (n : Nat) (p : P τ ρ ε) (t : τ) (ts : List τ)
    (stack : List (P τ ρ ε)) (m : M σ) (q : P τ ρ ε) (m1 : M σ)
    (hd : p.delayed = t :: ts) (he : sem.evalThunk n t (tick m) = some (q, m1)) :
    force sem none (n + 1) (p :: stack) m =
      force sem none n (q :: afterChild { p with cutParent := none } :: cutOpt p.cutParent stack) m1 := by
  simp only [tick] at he
  simp only [force, isCancelled, hd, he]
  cases p.cutParent <;> simp [cutOpt]

/-! ### `ids`, `popUntil`, `cutStack` -/

theorem ids_nil : ids ([] : List (P τ ρ ε)) = [] := rfl

theorem ids_cons_zero (p : P τ ρ ε) (st : List (P τ ρ ε)) (h : p.id = 0) : ids (p :: st) = ids st := by
  simp [ids, h]

theorem ids_cons_pos (p : P τ ρ ε) (st : List (P τ ρ ε)) (h : p.id ≠ 0) : ids (p :: st) = p.id :: ids st := by
  simp [ids, h]

theorem ids_cons (p : P τ ρ ε) (st : List (P τ ρ ε)) : ids (p :: st) = push p.id (ids st) := by
  unfold push
  split
  · rename_i h; exact ids_cons_zero p st h
  · rename_i h; exact ids_cons_pos p st h

theorem zero_not_mem_ids : ∀ st : List (P τ ρ ε), 0 ∉ ids st
  | [] => by simp [ids]
  | p :: st => by
    by_cases h : p.id = 0
    · rw [ids_cons_zero p st h]; exact zero_not_mem_ids st
    · rw [ids_cons_pos p st h]
      intro hm
      rcases List.mem_cons.1 hm with h0 | h0
      · exact h h0.symm
      · exact zero_not_mem_ids st h0

theorem cutStack_skip (c : Nat) (p : P τ ρ ε) (st : List (P τ ρ ε)) (h : p.id ≠ c ∨ c = 0) :
    cutStack c (p :: st) = cutStack c st := by
  unfold cutStack
  by_cases hc : c = 0
  · simp [hc]
  · rcases h with h | h
    · simp [hc, popUntil, h]
    · exact absurd h hc

theorem cutStack_hit (c : Nat) (p : P τ ρ ε) (st : List (P τ ρ ε)) (h : p.id = c) (hc : c ≠ 0) :
    cutStack c (p :: st) = marker c :: st := by
  simp [cutStack, hc, popUntil, h]

/-- after the cut step the identified frames are those from the cut parent downwards -/
theorem ids_cutStack (c : Nat) : ∀ st : List (P τ ρ ε), c ∈ ids st →
    ids (cutStack c st) = (ids st).dropWhile (· ≠ c)
  | [], h => by simp [ids] at h
  | p :: st, h => by
    have hc : c ≠ 0 := fun h0 => zero_not_mem_ids (p :: st) (h0 ▸ h)
    by_cases hp : p.id = 0
    · rw [ids_cons_zero p st hp] at h ⊢
      rw [cutStack_skip c p st (Or.inl (by omega))]
      exact ids_cutStack c st h
    · rw [ids_cons_pos p st hp] at h ⊢
      by_cases hpc : p.id = c
      · rw [cutStack_hit c p st hpc hc, ids_cons_pos _ _ (by simpa [marker] using hc)]
        simp [marker, hpc]
      · rw [cutStack_skip c p st (Or.inl hpc)]
        have : c ∈ ids st := by
          rcases List.mem_cons.1 h with h0 | h0
          · exact absurd h0.symm hpc
          · exact h0
        rw [ids_cutStack c st this]
        simp [List.dropWhile, hpc]

/-- a second cut, to a parent below the first one, ends where it would have ended without the first -/
theorem popUntil_popUntil (c c' : Nat) : ∀ st : List (P τ ρ ε), (ids st).Nodup →
    c' ∈ (ids st).dropWhile (· ≠ c) → c' ≠ c → popUntil c' (popUntil c st) = popUntil c' st
  | [], _, h, _ => by simp [ids] at h
  | p :: st, hn, h, hne => by
    have hc' : c' ≠ 0 := fun h0 =>
      zero_not_mem_ids (p :: st) (h0 ▸ (List.dropWhile_sublist _).subset h)
    by_cases hp : p.id = 0
    · rw [ids_cons_zero p st hp] at h hn
      by_cases hpc : p.id = c
      · -- c = 0: nothing below
        have : c' ∈ ids st := (List.dropWhile_sublist _).subset h
        have hpc' : p.id ≠ c' := by omega
        show popUntil c' (if p.id = c then st else popUntil c st) = (if p.id = c' then st else popUntil c' st)
        rw [if_pos hpc, if_neg hpc']
      · have hpc' : p.id ≠ c' := by omega
        simp only [popUntil, hpc, hpc', if_false]
        exact popUntil_popUntil c c' st hn h hne
    · rw [ids_cons_pos p st hp] at h hn
      have hnd := List.nodup_cons.1 hn
      by_cases hpc : p.id = c
      · simp only [List.dropWhile, hpc, ne_eq, not_true_eq_false, decide_false] at h
        have hm : c' ∈ ids st := by
          rcases List.mem_cons.1 h with h0 | h0
          · exact absurd h0 hne
          · exact h0
        have hpc' : p.id ≠ c' := fun h0 => hnd.1 (h0 ▸ hm)
        show popUntil c' (if p.id = c then st else popUntil c st) = (if p.id = c' then st else popUntil c' st)
        rw [if_pos hpc, if_neg hpc']
      · simp only [List.dropWhile, ne_eq, hpc, not_false_eq_true, decide_true] at h
        have hm : c' ∈ ids st := (List.dropWhile_sublist _).subset h
        have hpc' : p.id ≠ c' := fun h0 => hnd.1 (h0 ▸ hm)
        simp only [popUntil, hpc, hpc', if_false]
        exact popUntil_popUntil c c' st hnd.2 h hne

/-- a cut executed below an executed cut -/
theorem cutStack_cutStack (c c' : Nat) (st : List (P τ ρ ε))
    (hn : (ids st).Nodup) (hc : c ∈ ids st) (hc' : c' ∈ (ids st).dropWhile (· ≠ c)) :
    cutStack c' (cutStack c st) = cutStack c' st := by
  have hc0 : c ≠ 0 := fun h0 => zero_not_mem_ids st (h0 ▸ hc)
  have hc'0 : c' ≠ 0 := fun h0 => zero_not_mem_ids st (h0 ▸ (List.dropWhile_sublist _).subset hc')
  by_cases h : c' = c
  · subst h
    simp only [cutStack, if_neg hc'0, popUntil, marker, if_true]
  · have h2 : ¬ c = c' := fun h0 => h h0.symm
    simp only [cutStack, if_neg hc'0, if_neg hc0, popUntil, marker, if_neg h2]
    rw [popUntil_popUntil c c' st hn hc' h]

/-! ### the cut parent carried by a signal is live -/

/-- the cut parent carried by a signal is live -/
def sigIn : SigG ε → List Nat → Prop
  | .exhausted (some c), live => c ∈ live
  | .raised _ (some c), live => c ∈ live
  | _, _ => True

theorem sigIn_mono {sig : SigG ε} {l l' : List Nat} (h : ∀ x, x ∈ l → x ∈ l') : sigIn sig l → sigIn sig l' := by
  cases sig with
  | found => exact id
  | illScoped => exact id
  | exhausted co => cases co with
    | none => exact id
    | some c => exact h c
  | raised e co => cases co with
    | none => exact id
    | some c => exact h c

theorem sigIn_afterCut {c : Nat} {r : SigG ε} {live : List Nat} (hc : c ∈ live) (h : sigIn r live) :
    sigIn (afterCut c r) live := by
  cases r with
  | found => exact h
  | illScoped => exact h
  | exhausted co => cases co with
    | none => exact hc
    | some c => exact h
  | raised e co => cases co with
    | none => exact hc
    | some c => exact h

theorem mem_of_mem_push {id c : Nat} {live : List Nat} (h : c ∈ push id live) (hne : c ≠ id) : c ∈ live := by
  unfold push at h
  split at h
  · exact h
  · rcases List.mem_cons.1 h with h0 | h0
    · exact absurd h0 hne
    · exact h0

theorem sigIn_absorb {id : Nat} {r : SigG ε} {m : M σ} {live : List Nat} (h : sigIn r (push id live)) :
    sigIn (absorb id r m).1 live := by
  cases r with
  | found => trivial
  | illScoped => trivial
  | exhausted co => cases co with
    | none => trivial
    | some c =>
      simp only [absorb]
      split
      · trivial
      · rename_i hne; exact mem_of_mem_push h hne
  | raised e co => cases co with
    | none => trivial
    | some c =>
      simp only [absorb]
      split
      · trivial
      · rename_i hne; exact mem_of_mem_push h hne

theorem sigIn_both (sem : Sem τ ρ ε σ) (tf : Nat) : ∀ k : Nat,
    (∀ p live m sig m', dfsP sem tf k p live m = some (sig, m') → sigIn sig live) ∧
    (∀ t f live m sig m', dfsAlts sem tf k t f live m = some (sig, m') → sigIn sig live) := by
  intro k
  induction k with
  | zero => exact ⟨fun _ _ _ _ _ h => by simp [dfsP] at h, fun _ _ _ _ _ _ h => by simp [dfsAlts] at h⟩
  | succ k ih =>
    obtain ⟨ihP, ihA⟩ := ih
    constructor
    · intro p live m sig m' h
      simp only [dfsP] at h
      split at h
      · split at h
        · simp only [Option.some.injEq, Prod.mk.injEq] at h; obtain ⟨rfl, rfl⟩ := h; trivial
        · simp only [Option.some.injEq, Prod.mk.injEq] at h; obtain ⟨rfl, rfl⟩ := h
          split <;> trivial
      · split at h
        · simp only [Option.some.injEq, Prod.mk.injEq] at h; obtain ⟨rfl, rfl⟩ := h; trivial
        · split at h
          · exact ihA _ _ _ _ _ _ h
          · rename_i c hcp
            split at h
            · rename_i hc
              split at h
              · simp at h
              · rename_i r m1 h1
                simp only [Option.some.injEq, Prod.mk.injEq] at h; obtain ⟨rfl, rfl⟩ := h
                exact sigIn_afterCut (by simpa using hc)
                  (sigIn_mono (fun x hx => (List.dropWhile_sublist _).subset hx) (ihA _ _ _ _ _ _ h1))
            · simp only [Option.some.injEq, Prod.mk.injEq] at h; obtain ⟨rfl, rfl⟩ := h; trivial
    · intro t f live m sig m' h
      simp only [dfsAlts] at h
      split at h
      · simp at h
      · rename_i q m1 hev
        split at h
        · simp at h
        · exact ihP _ _ _ _ _ h
        · rename_i e m2 h1
          split at h
          · simp only [Option.some.injEq, Prod.mk.injEq] at h; obtain ⟨rfl, rfl⟩ := h; trivial
          · split at h
            · simp only [Option.some.injEq, Prod.mk.injEq] at h; obtain ⟨rfl, rfl⟩ := h; trivial
            · exact ihP _ _ _ _ _ h
        · rename_i r m2 hr1 hr2 h1
          simp only [Option.some.injEq] at h
          have := sigIn_absorb (m := m2) (live := live) (ihP _ _ _ _ _ h1)
          rw [h] at this
          exact this

/-! ### how a signal passes the frames on the stack -/

theorem after_cutsig_skip_exh (sem : Sem τ ρ ε σ) (c : Nat) (p : P τ ρ ε) (st : List (P τ ρ ε)) (m : M σ) (n : Nat)
    (h : p.id ≠ c ∨ c = 0) :
    after sem (.exhausted (some c)) (p :: st) m n = after sem (.exhausted (some c)) st m n := by
  simp only [after, cutOpt, cutStack_skip c p st h]

theorem after_cutsig_skip_raised (sem : Sem τ ρ ε σ) (e : ε) (c : Nat) (p : P τ ρ ε) (st : List (P τ ρ ε)) (m : M σ)
    (n : Nat) (h : p.id ≠ c ∨ c = 0) :
    after sem (.raised e (some c)) (p :: st) m n = after sem (.raised e (some c)) st m n := by
  simp only [after, cutOpt, cutStack_skip c p st h]

theorem after_raised_skip (sem : Sem τ ρ ε σ) (e : ε) (p : P τ ρ ε) (st : List (P τ ρ ε)) (m : M σ) (n : Nat)
    (h : p.recover = none) :
    after sem (.raised e none) (p :: st) m n = after sem (.raised e none) st m n := by
  simp only [after, cutOpt, recoverStack_no_handler sem e p st m h]

theorem after_raised_decline (sem : Sem τ ρ ε σ) (e : ε) (p : P τ ρ ε) (h : ρ) (st : List (P τ ρ ε)) (m m3 : M σ)
    (n : Nat) (hr : p.recover = some h) (hd : sem.evalRecover h e m = (none, m3)) :
    after sem (.raised e none) (p :: st) m n = after sem (.raised e none) st m3 n := by
  simp only [after, cutOpt, recoverStack, hr, hd]

theorem after_raised_accept (sem : Sem τ ρ ε σ) (e : ε) (p : P τ ρ ε) (h : ρ) (q : P τ ρ ε) (st : List (P τ ρ ε))
    (m m3 : M σ) (n : Nat) (hr : p.recover = some h) (hd : sem.evalRecover h e m = (some q, m3)) :
    after sem (.raised e none) (p :: st) m n = force sem none n (q :: st) m3 := by
  simp only [after, cutOpt, recoverStack, hr, hd]

/-- the frame `f` absorbs a cut whose parent it is: one more iteration is needed exactly when the
    marker has to be popped -/
def extraAbs (id : Nat) : SigG ε → Nat
  | .exhausted (some c) => if c = id then 1 else 0
  | _ => 0

theorem after_frame_pass (sem : Sem τ ρ ε σ) (f : P τ ρ ε) (r : SigG ε) (st : List (P τ ρ ε)) (m : M σ) (n : Nat)
    (hin : sigIn r (ids (f :: st))) (h1 : r ≠ .exhausted none) (h2 : ∀ e, r ≠ .raised e none) :
    after sem r (f :: st) m (n + extraAbs f.id r)
      = after sem (absorb f.id r m).1 st (absorb f.id r m).2 n := by
  cases r with
  | found => rfl
  | illScoped => rfl
  | exhausted co => cases co with
    | none => exact absurd rfl h1
    | some c =>
      have hc0 : c ≠ 0 := fun h0 => zero_not_mem_ids (f :: st) (h0 ▸ hin)
      by_cases hc : c = f.id
      · simp only [extraAbs, absorb, if_pos hc, after, cutOpt]
        rw [cutStack_hit c f st hc.symm hc0]
        exact step_empty sem n (marker c) st m rfl rfl rfl
      · simp only [extraAbs, absorb, if_neg hc, Nat.add_zero]
        exact after_cutsig_skip_exh sem c f st m n (Or.inl (fun h0 => hc h0.symm))
  | raised e co => cases co with
    | none => exact absurd rfl (h2 e)
    | some c =>
      have hc0 : c ≠ 0 := fun h0 => zero_not_mem_ids (f :: st) (h0 ▸ hin)
      simp only [extraAbs, Nat.add_zero]
      by_cases hc : c = f.id
      · simp only [absorb, if_pos hc, after, cutOpt]
        rw [cutStack_hit c f st hc.symm hc0, recoverStack_no_handler sem e (marker c) st _ rfl]
      · simp only [absorb, if_neg hc]
        exact after_cutsig_skip_raised sem e c f st m n (Or.inl (fun h0 => hc h0.symm))

/-- a signal that arrives on the stack a cut has left -/
theorem after_cut_pass (sem : Sem τ ρ ε σ) (c : Nat) (r : SigG ε) (st : List (P τ ρ ε)) (m : M σ) (n : Nat)
    (hn : (ids st).Nodup) (hc : c ∈ ids st) (hin : sigIn r ((ids st).dropWhile (· ≠ c))) :
    after sem r (cutStack c st) m n = after sem (afterCut c r) st m n := by
  cases r with
  | found => rfl
  | illScoped => rfl
  | exhausted co => cases co with
    | none => rfl
    | some c' => simp only [after, cutOpt, afterCut, cutStack_cutStack c c' st hn hc hin]
  | raised e co => cases co with
    | none => rfl
    | some c' => simp only [after, cutOpt, afterCut, cutStack_cutStack c c' st hn hc hin]

/-! ### the simulation -/

section Sim
variable (sem : Sem τ ρ ε σ) (tf : Nat)

/-- the conclusion: `cost` iterations of this trampoline; when thunks do not poll, the poll counter
    advances by exactly that much -/
def Concl (stack0 : List (P τ ρ ε)) (m0 : M σ) (sig : SigG ε) (stack : List (P τ ρ ε)) (m' : M σ) : Prop :=
  ∃ cost, (IterPure sem → m'.iter = m0.iter + cost) ∧
    ∀ n, tf ≤ n → force sem none (n + cost) stack0 m0 = after sem sig stack m' n

/-- `ForceDfsGStatement` at dfs fuel `k` -/
def StmtP (k : Nat) : Prop :=
  ∀ (p : P τ ρ ε) (live : List Nat) (m m' : M σ) (sig : SigG ε),
    dfsP sem tf k p live m = some (sig, m') → sig ≠ .illScoped →
    ∀ (stack : List (P τ ρ ε)), ids stack = live → live.Nodup →
      Concl sem tf (p :: stack) m sig stack m'

/-- the same for the alternatives of the frame `f`, once the thunk `t` has been called -/
def StmtA (k : Nat) : Prop :=
  ∀ (t : τ) (f : P τ ρ ε) (live : List Nat) (m m' : M σ) (sig : SigG ε),
    dfsAlts sem tf k t f live m = some (sig, m') → sig ≠ .illScoped →
    ∀ (stack : List (P τ ρ ε)), ids stack = live → live.Nodup → (f.id ≠ 0 → f.id ∉ live) →
      ∃ q m1, sem.evalThunk tf t m = some (q, m1) ∧ Concl sem tf (q :: f :: stack) m1 sig stack m'

end Sim

theorem afterCut_illScoped {c : Nat} {r : SigG ε} (h : afterCut c r ≠ .illScoped) : r ≠ .illScoped := by
  rintro rfl; exact h rfl

theorem absorb_illScoped {id : Nat} {r : SigG ε} {m : M σ} (h : (absorb id r m).1 ≠ .illScoped) :
    r ≠ .illScoped := by
  rintro rfl; exact h rfl

theorem absorb_iter (id : Nat) (r : SigG ε) (m : M σ) :
    (absorb id r m).2.iter = m.iter + extraAbs id r := by
  cases r with
  | found => rfl
  | illScoped => rfl
  | exhausted co => cases co with
    | none => rfl
    | some c => simp only [absorb, extraAbs]; split <;> rfl
  | raised e co => cases co with
    | none => rfl
    | some c => simp only [absorb, extraAbs]; split <;> rfl

theorem stmtP_succ (sem : Sem τ ρ ε σ) (hmono : SemMono sem) (tf k : Nat) (ihA : StmtA sem tf k) :
    StmtP sem tf (k + 1) := by
  intro p live m m' sig h hsig stack hlive hnd
  simp only [dfsP] at h
  split at h
  · -- a leaf
    rename_i hd
    split at h
    · rename_i e he
      simp only [Option.some.injEq, Prod.mk.injEq] at h; obtain ⟨rfl, rfl⟩ := h
      exact ⟨1, fun _ => rfl, fun n _ => step_err sem n p e stack m hd he⟩
    · rename_i he
      simp only [Option.some.injEq, Prod.mk.injEq] at h; obtain ⟨rfl, rfl⟩ := h
      refine ⟨1, fun _ => rfl, fun n _ => ?_⟩
      by_cases ho : p.ok = true
      · simp only [ho, if_true]; exact step_ok sem n p stack m hd he ho
      · have ho' : p.ok = false := by simpa using ho
        simp only [ho', Bool.false_eq_true, if_false]; exact step_empty sem n p stack m hd he ho'
  · rename_i t ts hd
    split at h
    · simp only [Option.some.injEq, Prod.mk.injEq] at h; obtain ⟨rfl, rfl⟩ := h
      exact absurd rfl hsig
    · rename_i hid
      have hfid : (afterChild { p with cutParent := none }).id = p.id := by
        unfold afterChild; split <;> rfl
      have hidl : ∀ l : List Nat, (∀ x, x ∈ l → x ∈ live) →
          (afterChild { p with cutParent := none }).id ≠ 0 →
          (afterChild { p with cutParent := none }).id ∉ l := by
        intro l hl h0 hm
        rw [hfid] at h0 hm
        exact hid ⟨h0, by simpa using hl _ hm⟩
      split at h
      · -- no cut
        rename_i hcp
        obtain ⟨q, m1, hev, cost, hit, hf⟩ := ihA t _ live _ m' sig h hsig stack hlive hnd (hidl live (fun _ hx => hx))
        refine ⟨cost + 1, fun hp => ?_, fun n hn => ?_⟩
        · have := hit hp; have := hp.thunk _ _ _ _ _ hev; simp only [tick] at this; omega
        · have hev' := semMono_le hmono (show tf ≤ n + cost by omega) hev
          rw [show n + (cost + 1) = (n + cost) + 1 by omega, step_thunk sem _ p t ts stack m q m1 hd hev', hcp]
          exact hf n hn
      · rename_i c hcp
        split at h
        · rename_i hc
          split at h
          · simp at h
          · rename_i r m2 h1
            simp only [Option.some.injEq, Prod.mk.injEq] at h; obtain ⟨rfl, rfl⟩ := h
            subst hlive
            have hcm : c ∈ ids stack := by simpa using hc
            have hin := (sigIn_both sem tf k).2 _ _ _ _ _ _ h1
            obtain ⟨q, m1, hev, cost, hit, hf⟩ := ihA t _ _ _ m2 r h1 (afterCut_illScoped hsig) (cutStack c stack)
              (ids_cutStack c stack hcm) ((List.dropWhile_sublist _).nodup hnd)
              (hidl _ (fun x hx => (List.dropWhile_sublist _).subset hx))
            refine ⟨cost + 1, fun hp => ?_, fun n hn => ?_⟩
            · have := hit hp; have := hp.thunk _ _ _ _ _ hev; simp only [tick] at this; omega
            · have hev' := semMono_le hmono (show tf ≤ n + cost by omega) hev
              rw [show n + (cost + 1) = (n + cost) + 1 by omega, step_thunk sem _ p t ts stack m q m1 hd hev', hcp]
              simp only [cutOpt]
              rw [hf n hn, after_cut_pass sem c r stack m2 n hnd hcm hin]
        · simp only [Option.some.injEq, Prod.mk.injEq] at h; obtain ⟨rfl, rfl⟩ := h
          exact absurd rfl hsig

theorem stmtA_succ (sem : Sem τ ρ ε σ) (tf k : Nat) (ihP : StmtP sem tf k) : StmtA sem tf (k + 1) := by
  intro t f live m m' sig h hsig stack hlive hnd hfid
  simp only [dfsAlts] at h
  split at h
  · simp at h
  · rename_i q m1 hev
    refine ⟨q, m1, hev, ?_⟩
    have hids : ids (f :: stack) = push f.id live := by rw [ids_cons, hlive]
    have hnd' : (push f.id live).Nodup := by
      unfold push
      split
      · exact hnd
      · rename_i h0; exact List.nodup_cons.2 ⟨hfid h0, hnd⟩
    split at h
    · simp at h
    · -- the first alternative is exhausted: back to the frame
      rename_i m2 h1
      obtain ⟨c1, hit1, hf1⟩ := ihP q _ m1 m2 _ h1 (by simp) (f :: stack) hids hnd'
      obtain ⟨c2, hit2, hf2⟩ := ihP f live m2 m' sig h hsig stack hlive hnd
      refine ⟨c2 + c1, fun hp => ?_, fun n hn => ?_⟩
      · have := hit1 hp; have := hit2 hp; omega
      · rw [show n + (c2 + c1) = (n + c2) + c1 by omega, hf1 (n + c2) (by omega)]
        exact hf2 n hn
    · -- an error that still looks for a handler
      rename_i e m2 h1
      obtain ⟨c1, hit1, hf1⟩ := ihP q _ m1 m2 _ h1 (by simp) (f :: stack) hids hnd'
      split at h
      · rename_i hr
        simp only [Option.some.injEq, Prod.mk.injEq] at h; obtain ⟨rfl, rfl⟩ := h
        refine ⟨c1, hit1, fun n hn => ?_⟩
        rw [hf1 n hn, after_raised_skip sem e f stack m2 n hr]
      · rename_i hdl hr
        split at h
        · rename_i m3 hrec
          simp only [Option.some.injEq, Prod.mk.injEq] at h; obtain ⟨rfl, rfl⟩ := h
          refine ⟨c1, fun hp => ?_, fun n hn => ?_⟩
          · have := hit1 hp; have := hp.recover hdl e m2; rw [hrec] at this; simp only at this; omega
          · rw [hf1 n hn, after_raised_decline sem e f hdl stack m2 m3 n hr hrec]
        · rename_i q' m3 hrec
          obtain ⟨c2, hit2, hf2⟩ := ihP q' live m3 m' sig h hsig stack hlive hnd
          refine ⟨c2 + c1, fun hp => ?_, fun n hn => ?_⟩
          · have := hit1 hp; have := hit2 hp; have := hp.recover hdl e m2; rw [hrec] at this
            simp only at this; omega
          · rw [show n + (c2 + c1) = (n + c2) + c1 by omega, hf1 (n + c2) (by omega),
              after_raised_accept sem e f hdl q' stack m2 m3 _ hr hrec]
            exact hf2 n hn
    · rename_i r m2 hr1 hr2 h1
      simp only [Option.some.injEq] at h
      have hsig' : (absorb f.id r m2).1 ≠ .illScoped := by rw [h]; exact hsig
      obtain ⟨c1, hit1, hf1⟩ := ihP q _ m1 m2 r h1 (absorb_illScoped hsig') (f :: stack) hids hnd'
      have hin := (sigIn_both sem tf k).1 _ _ _ _ _ h1
      rw [← hids] at hin
      refine ⟨extraAbs f.id r + c1, fun hp => ?_, fun n hn => ?_⟩
      · have := hit1 hp; have := absorb_iter f.id r m2; rw [h] at this; simp only at this; omega
      · rw [show n + (extraAbs f.id r + c1) = (n + extraAbs f.id r) + c1 by omega, hf1 _ (by omega),
          after_frame_pass sem f r stack m2 n hin (fun h0 => hr1 h0)
            (fun e h0 => hr2 e h0), h]

theorem stmt_both (sem : Sem τ ρ ε σ) (hmono : SemMono sem) (tf : Nat) :
    ∀ k : Nat, StmtP sem tf k ∧ StmtA sem tf k
  | 0 => ⟨fun _ _ _ _ _ h => by simp [dfsP] at h, fun _ _ _ _ _ _ h => by simp [dfsAlts] at h⟩
  | k + 1 => ⟨stmtP_succ sem hmono tf k (stmt_both sem hmono tf k).2,
      stmtA_succ sem tf k (stmt_both sem hmono tf k).1⟩

/-- **force_dfsG**: for every semantics record, the trampoline finds exactly what the recursive
    reference search finds -/
theorem force_dfsG : ForceDfsGStatement := by
  intro τ ρ ε σ sem hmono tf k p live m m' sig h hsig stack hlive hnd
  obtain ⟨cost, _, hf⟩ := (stmt_both sem hmono tf k).1 p live m m' sig h hsig stack hlive hnd
  exact ⟨cost, hf⟩

/-- with the iteration count: when thunks and recovery functions do not poll themselves, `cost` is
    the advance of the poll counter -/
theorem force_dfsG_cost (sem : Sem τ ρ ε σ) (hmono : SemMono sem) (hp : IterPure sem)
    (tf k : Nat) (p : P τ ρ ε) (live : List Nat) (m m' : M σ) (sig : SigG ε)
    (h : dfsP sem tf k p live m = some (sig, m')) (hsig : sig ≠ .illScoped)
    (stack : List (P τ ρ ε)) (hlive : ids stack = live) (hnd : live.Nodup) :
    m.iter ≤ m'.iter ∧ ∀ n, tf ≤ n →
      force sem none (n + (m'.iter - m.iter)) (p :: stack) m = after sem sig stack m' n := by
  obtain ⟨cost, hit, hf⟩ := (stmt_both sem hmono tf k).1 p live m m' sig h hsig stack hlive hnd
  have := hit hp
  refine ⟨by omega, fun n hn => ?_⟩
  rw [show m'.iter - m.iter = cost by omega]
  exact hf n hn

/-- result of `Force` for a signal that reaches the root -/
def toRes : SigG ε → Res ε
  | .found => .yes
  | .exhausted _ => .no
  | .raised e _ => .error e
  | .illScoped => .no

/-- **force_dfsG at the root**: forcing a promise on the empty stack ends with the result the
    reference search signals, in the state the reference search ends in -/
theorem force_dfsG_root (sem : Sem τ ρ ε σ) (hmono : SemMono sem) (tf k : Nat) (p : P τ ρ ε)
    (m m' : M σ) (sig : SigG ε) (h : dfsP sem tf k p [] m = some (sig, m')) (hsig : sig ≠ .illScoped) :
    ∃ cost, ∀ n, tf ≤ n → 0 < n → force sem none (n + cost) [p] m = some (toRes sig, m') := by
  obtain ⟨cost, hf⟩ := force_dfsG sem hmono tf k p [] m m' sig h hsig [] rfl List.nodup_nil
  have hin := (sigIn_both sem tf k).1 _ _ _ _ _ h
  refine ⟨cost, fun n hn hpos => ?_⟩
  rw [hf n hn]
  obtain ⟨n, rfl⟩ : ∃ n', n = n' + 1 := ⟨n - 1, by omega⟩
  cases sig with
  | found => rfl
  | illScoped => exact absurd rfl hsig
  | exhausted co => cases co with
    | none => rfl
    | some c => cases hin
  | raised e co => cases co with
    | none => rfl
    | some c => cases hin

end PrologVerif.ForceDFSG
