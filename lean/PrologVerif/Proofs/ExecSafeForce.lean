/-
  exec_safe, part 3 — the trampoline keeps the invariant: when every promise on the stack is
  well-formed and calling a thunk / a recovery closure yields well-formed promises and states,
  `force` ends in a well-formed state and, if it ends with an error, that error is no panic residue.
-/
import PrologVerif.Proofs.ExecSafeBase
namespace PrologVerif.ExecSafe
open PrologVerif PrologVerif.VM PrologVerif.Promise

/-- "this Go error is the residue of a panic inside exec" -/
def IsPanicErr (e : Err) : Prop := ∃ msg, e = .goErr msg ∧ msg.startsWith "panic" = true

theorem IsPanic_iff (p : Pr) : IsPanic p ↔ ∃ e, p.err = some e ∧ IsPanicErr e := by
  constructor
  · rintro ⟨msg, h1, h2⟩
    exact ⟨_, h1, msg, rfl, h2⟩
  · rintro ⟨e, h1, msg, rfl, h2⟩
    exact ⟨msg, h1, h2⟩

theorem PrOK_errP {e : Err} (h : ¬ IsPanicErr e) : PrOK (errP e) := by
  refine ⟨by simp [errP], by simp [errP], ?_⟩
  rw [IsPanic_iff]
  rintro ⟨e', h1, h2⟩
  simp only [errP, Option.some.injEq] at h1
  subst h1
  exact h h2

/-- the outcome of a run of the trampoline is no panic residue -/
def ResOK (r : Promise.Res Err) : Prop := ∀ e, r = .error e → ¬ IsPanicErr e

/-- what `force` needs of the closures it calls -/
structure SemOK (sem : Sem Thunk Handler Err St) : Prop where
  thunk : ∀ f t (m : MS), ThunkOK t → StOK m.user → ROK (sem.evalThunk f t m)
  recover : ∀ h e (m : MS), ContOK h.k → StOK m.user →
    (∀ q, (sem.evalRecover h e m).1 = some q → PrOK q) ∧ StOK (sem.evalRecover h e m).2.user

theorem evalRecover_ok (h : Handler) (e : Err) (m : MS) (hk : ContOK h.k) (hm : StOK m.user) :
    (∀ q, (evalRecover h e m).1 = some q → PrOK q) ∧ StOK (evalRecover h e m).2.user := by
  have key : ∀ ball : Term,
      (∀ q, (match unify inner false h.env h.catcher ball with
          | some (env', .ok) => (some (callGoal h.recover h.k env' m).1, (callGoal h.recover h.k env' m).2)
          | _ => ((none : Option Pr), m)).1 = some q → PrOK q) ∧
      StOK (match unify inner false h.env h.catcher ball with
          | some (env', .ok) => (some (callGoal h.recover h.k env' m).1, (callGoal h.recover h.k env' m).2)
          | _ => ((none : Option Pr), m)).2.user := by
    intro ball
    split
    · rename_i env' _
      have := callGoal_ok h.recover h.k env' m hk hm
      refine ⟨?_, this.2⟩
      intro q hq
      simp only [Option.some.injEq] at hq
      subst hq
      exact this.1
    · exact ⟨by simp, hm⟩
  unfold evalRecover
  split
  · exact key _
  · exact ⟨by simp, hm⟩

theorem recoverStack_ok (sem : Sem Thunk Handler Err St) (hsem : SemOK sem) (e : Err) :
    ∀ (stack : List Pr) (m : MS), (∀ p ∈ stack, PrOK p) → StOK m.user →
      (∀ st, (recoverStack sem e stack m).1 = some st → ∀ p ∈ st, PrOK p) ∧
        StOK (recoverStack sem e stack m).2.user
  | [], m, _, hm => by simp [recoverStack, hm]
  | p :: rest, m, hst, hm => by
    have hrest : ∀ q ∈ rest, PrOK q := fun q hq => hst q (by simp [hq])
    unfold recoverStack
    split
    · exact recoverStack_ok sem hsem e rest m hrest hm
    · rename_i r hr
      have hk : ContOK r.k := (hst p (by simp)).2.1 r hr
      obtain ⟨h1, h2⟩ := hsem.recover r e m hk hm
      split
      · rename_i q m' heq
        rw [heq] at h1 h2
        refine ⟨?_, h2⟩
        intro st hst'
        simp only [Option.some.injEq] at hst'
        subst hst'
        intro p' hp'
        rcases List.mem_cons.1 hp' with rfl | hp'
        · exact h1 _ rfl
        · exact hrest p' hp'
      · rename_i m' heq
        rw [heq] at h2
        exact recoverStack_ok sem hsem e rest m' hrest h2

theorem popUntil_mem (c : Nat) : ∀ (stack : List Pr) (p : Pr), p ∈ popUntil c stack → p ∈ stack
  | [], p, h => by simp [popUntil] at h
  | q :: rest, p, h => by
    simp only [popUntil] at h
    split at h
    · exact List.mem_cons_of_mem _ h
    · exact List.mem_cons_of_mem _ (popUntil_mem c rest p h)

theorem PrOK_marker (c : Nat) : PrOK (marker c : Pr) :=
  ⟨by simp [marker], by simp [marker], not_IsPanic_of_err_none rfl⟩

theorem cutStack_ok (c : Nat) (stack : List Pr) (h : ∀ p ∈ stack, PrOK p) :
    ∀ p ∈ cutStack c stack, PrOK p := by
  intro p hp
  unfold cutStack at hp
  split at hp
  · simp at hp
  · rcases List.mem_cons.1 hp with rfl | hp
    · exact PrOK_marker c
    · exact h p (popUntil_mem c stack p hp)

theorem PrOK_afterChild (p : Pr) (h : PrOK p) : PrOK (afterChild { p with cutParent := none }) := by
  obtain ⟨h1, h2, h3⟩ := h
  unfold afterChild
  split
  · exact ⟨h1, h2, h3⟩
  · refine ⟨?_, h2, h3⟩
    intro t ht
    exact h1 t (List.mem_of_mem_tail ht)

theorem force_ok (sem : Sem Thunk Handler Err St) (hsem : SemOK sem) (cancelAt : Option Nat) :
    ∀ (n : Nat) (stack : List Pr) (m : MS) (r : Promise.Res Err) (m' : MS),
      force sem cancelAt n stack m = some (r, m') → (∀ p ∈ stack, PrOK p) → StOK m.user →
      ResOK r ∧ StOK m'.user
  | 0, _, _, _, _, h, _, _ => by simp [force] at h
  | n + 1, [], m, r, m', h, _, hm => by
    simp only [force, Option.some.injEq, Prod.mk.injEq] at h
    obtain ⟨rfl, rfl⟩ := h
    exact ⟨fun e he => (by cases he), hm⟩
  | n + 1, p :: stack, m, r, m', h, hst, hm => by
    have hp : PrOK p := hst p (by simp)
    have hrest : ∀ q ∈ stack, PrOK q := fun q hq => hst q (by simp [hq])
    simp only [force] at h
    split at h
    · simp only [Option.some.injEq, Prod.mk.injEq] at h
      obtain ⟨rfl, rfl⟩ := h
      exact ⟨fun e he => (by cases he), hm⟩
    · have hm1 : StOK ({ m with iter := m.iter + 1 } : MS).user := hm
      split at h
      · -- no alternative left
        split at h
        · rename_i e he
          obtain ⟨h1, h2⟩ := recoverStack_ok sem hsem e stack _ hrest hm1
          split at h
          · rename_i m1 heq
            simp only [Option.some.injEq, Prod.mk.injEq] at h
            obtain ⟨rfl, rfl⟩ := h
            rw [heq] at h2
            refine ⟨?_, h2⟩
            intro e' he'
            cases he'
            intro hpanic
            exact hp.2.2 ((IsPanic_iff p).2 ⟨e, he, hpanic⟩)
          · rename_i st m1 heq
            rw [heq] at h1 h2
            exact force_ok sem hsem cancelAt n st m1 r m' h (h1 st rfl) h2
        · split at h
          · simp only [Option.some.injEq, Prod.mk.injEq] at h
            obtain ⟨rfl, rfl⟩ := h
            exact ⟨fun e he => (by cases he), hm1⟩
          · exact force_ok sem hsem cancelAt n stack _ r m' h hrest hm1
      · rename_i t ts hd
        have ht : ThunkOK t := hp.1 t (by rw [hd]; simp)
        split at h
        · cases h
        · rename_i q m1 heq
          obtain ⟨hq, hm2⟩ := hsem.thunk n t _ ht hm1 q m1 heq
          refine force_ok sem hsem cancelAt n _ m1 r m' h ?_ hm2
          intro p' hp'
          rcases List.mem_cons.1 hp' with rfl | hp'
          · exact hq
          · rcases List.mem_cons.1 hp' with rfl | hp'
            · exact PrOK_afterChild p hp
            · split at hp'
              · exact cutStack_ok _ stack hrest p' hp'
              · exact hrest p' hp'

end PrologVerif.ExecSafe
