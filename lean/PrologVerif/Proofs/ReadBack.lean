/-
  From token lemmas to `read_term`: the token sequence of a text, and the parser on the tokens of a
  number.
-/
import PrologVerif.Proofs.AtomRoundtrip
import PrologVerif.Proofs.FloatShape
import PrologVerif.Proofs.ParseLemmas
set_option linter.unusedSimpArgs false
set_option linter.unusedVariables false
namespace PrologVerif.Write
open PrologVerif PrologVerif.Lexer

variable (cfg : Cfg)

theorem lexToken_nil (l : Lexer) (h : l.rest = []) : lexToken cfg l = .error .eof := by
  rcases l with ⟨hist, rest, chunk, ring⟩
  simp only at h
  subst h
  simp [lexToken, tokenFuel, layoutTextSequence, next, rawNext, token]

/-- `tokens` delivers a lexed sequence, then goes on with what remains -/
theorem tokens_of_lexSeq {text : List Char} {toks : List Token} {tail : List Char}
    (h : LexSeq cfg text toks tail) :
    ∀ (n : Nat) (l : Lexer), l.rest = text ++ tail → toks.length ≤ n →
      ∃ l', l'.rest = tail ∧ tokens cfg n l =
        (toks ++ (tokens cfg (n - toks.length) l').1, (tokens cfg (n - toks.length) l').2) := by
  induction h with
  | nil tail => intro n l hl _; exact ⟨l, by simpa using hl, by simp⟩
  | cons ht _ ih =>
    rename_i x y t ts tail
    intro n l hl hn
    rcases l with ⟨hist, rest, chunk, ring⟩
    simp only [List.append_assoc] at hl
    subst hl
    obtain ⟨n, rfl⟩ : ∃ m, n = m + 1 := ⟨n - 1, by simp at hn; omega⟩
    obtain ⟨l1, e1, e2⟩ := ht hist chunk ring
    obtain ⟨l', h1, h2⟩ := ih n l1 e2 (by simp at hn; omega)
    refine ⟨l', h1, ?_⟩
    simp only [tokens, e1, h2, List.length_cons, List.cons_append, Nat.add_sub_add_right]

/-- the whole token sequence of a text -/
theorem tokens_all {text : List Char} {toks : List Token} (h : LexSeq cfg text toks []) (n : Nat)
    (hn : toks.length < n) : (tokens cfg n (Lexer.ofList text)).1 = toks := by
  obtain ⟨l', h1, h2⟩ := tokens_of_lexSeq cfg h n (Lexer.ofList text) (by simp [Lexer.ofList]) (by omega)
  rw [h2]
  obtain ⟨m, hm⟩ : ∃ m, n - toks.length = m + 1 := ⟨n - toks.length - 1, by omega⟩
  simp [hm, tokens, lexToken_nil cfg l' h1]

/-! ## integers through `read_term` -/

theorem graphicName_minus : GraphicName cfg ['-'] :=
  ⟨'-', [], rfl, by intro x hx; simp at hx; subst hx; rfl, rfl, rfl, by intro h; exact absurd h (by decide),
    by intro h; exact absurd h (by decide)⟩

theorem decD_not_gbs (d : Char) (h : DecD d) : isGraphicOrBs d = false := by
  obtain ⟨k, hk, rfl⟩ := h
  have h10 : k = 0 ∨ k = 1 ∨ k = 2 ∨ k = 3 ∨ k = 4 ∨ k = 5 ∨ k = 6 ∨ k = 7 ∨ k = 8 ∨ k = 9 := by omega
  rcases h10 with h|h|h|h|h|h|h|h|h|h <;> subst h <;> rfl

/-- the tokens of `FormatInt(i)` followed by ` .` -/
theorem lexSeq_formatInt (hconv : ∀ c, cfg.conv c = c) (i : Int) (hlo : -9223372036854775808 ≤ i)
    (hhi : i ≤ 9223372036854775807) :
    LexSeq cfg (formatInt i ++ [' ', '.'])
      ((if i < 0 then [⟨.graphic, ['-']⟩] else []) ++ [⟨.integer, decDigits i.natAbs⟩, ⟨.end_, ['.']⟩]) [] := by
  obtain ⟨h1, h2, h3⟩ := decDigits_spec i.natAbs (by omega)
  have hdig : LexSeq cfg (decDigits i.natAbs ++ [' ', '.']) [⟨.integer, decDigits i.natAbs⟩, ⟨.end_, ['.']⟩] [] := by
    refine LexSeq.cons (y := [' ', '.']) ?_ (LexSeq.single cfg (lexTok_end cfg hconv))
    exact lexTok_digits cfg hconv _ _ h1 h2 (HeadIs.cons ⟨rfl, by decide, by decide, by decide, by decide, by decide⟩)
  unfold formatInt
  split
  · obtain ⟨d, ds, hds⟩ := List.exists_cons_of_ne_nil h1
    have := LexSeq.cons (cfg := cfg) (x := ['-']) (y := decDigits i.natAbs ++ [' ', '.']) (tail := [])
      (t := ⟨.graphic, ['-']⟩) (ts := [⟨.integer, decDigits i.natAbs⟩, ⟨.end_, ['.']⟩])
      (lexTok_graphicName cfg hconv ['-'] _ (graphicName_minus cfg) (by
        rw [hds]; simp only [List.cons_append, List.append_nil]
        exact HeadIs.cons (decD_not_gbs d (h2 d (by simp [hds]))))) hdig
    simpa using this
  · simpa using hdig

/-- P0: an integer written by the writer and followed by ` .` is read back by `read_term` as that
    integer, under every operator table and every double_quotes flag (the reader's sign handling:
    the atom `-` directly followed by a number token is a negative literal) -/
theorem readTerm_formatInt (hconv : ∀ c, cfg.conv c = c) (ops : Ops.Table) (dq : Read.DoubleQuotes) (i : Int)
    (hlo : -9223372036854775808 ≤ i) (hhi : i ≤ 9223372036854775807) :
    Read.readTerm cfg ops dq (formatInt i ++ [' ', '.']) = .ok (.int i) := by
  have hseq := lexSeq_formatInt cfg hconv i hlo hhi
  have hint := integer_formatInt i hlo hhi
  unfold Read.readTerm
  have hlen : ((if i < 0 then [(⟨.graphic, ['-']⟩ : Token)] else []) ++
      [(⟨.integer, decDigits i.natAbs⟩ : Token), ⟨.end_, ['.']⟩]).length < (formatInt i ++ [' ', '.']).length + 1 := by
    unfold formatInt
    have := (decDigits_spec i.natAbs (by omega)).1
    have : (decDigits i.natAbs).length ≥ 1 := by
      cases hd : decDigits i.natAbs with
      | nil => exact absurd hd this
      | cons _ _ => simp
    split <;> simp <;> omega
  rw [tokens_all cfg hseq _ hlen]
  by_cases hneg : i < 0
  · simp only [hneg, if_true, List.cons_append, List.nil_append, Read.readFuel, List.length_cons, List.length_nil] at hint ⊢
    exact Read.parseTerm_end (he := rfl)
      (h := Read.term_minus_number ops dq 37 1201 _ ⟨.end_, ['.']⟩ _ rfl (by simp [Read.numberTerm, hint]; rfl) (.inl rfl) [] [] [] 0)
  · simp only [hneg, if_false, List.nil_append, Read.readFuel, List.length_cons, List.length_nil] at hint ⊢
    exact Read.parseTerm_end (he := rfl)
      (h := Read.term_number ops dq 30 1201 _ ⟨.end_, ['.']⟩ _ rfl (by simp [Read.numberTerm, hint]; rfl) (.inl rfl) [] [] [] 0)

end PrologVerif.Write
