/-
  Spec/Iter — the obvious sequential iterator over the outcome stream of a query.

  A query is abstracted as a stream of events `q : Nat → Event`: `q i` is what the search
  produces after `i` answers have been delivered — the next answer, exhaustion, or an error.
  A finite query is a stream reaching `exhausted`, an erroring query reaches `error e`, an
  infinite query (`repeat`) answers forever.  (What the stream says *after* its first
  `exhausted`/`error` is never looked at.)

  This file is the authority on what the four operations of `Solutions` must return.
  It knows nothing about goroutines or channels.
-/
namespace PrologVerif.Iter

inductive Event where
  | answer (a : Nat)
  | exhausted
  | error (e : Nat)
  deriving DecidableEq, Repr

abbrev Query := Nat → Event

/-- a query given by a finite list of events, exhausted afterwards -/
def Query.ofList (es : List Event) : Query := fun i => es.getD i .exhausted

/-- the infinite query whose i-th answer is i (`between(0, inf, X)`) -/
def Query.nat : Query := fun i => .answer i

inductive Op where
  | next | scan | err | close
  deriving DecidableEq, Repr

inductive Ret where
  /-- result of `Next` -/
  | bool (b : Bool)
  /-- what `Scan` reports: the answer the query variables are bound to, `none` = unbound -/
  | ans (a : Option Nat)
  /-- result of `Err`: the terminating error, if any -/
  | err (e : Option Nat)
  /-- result of `Close`: `closed false` = nil, `closed true` = ErrClosed -/
  | closed (already : Bool)
  deriving DecidableEq, Repr

structure State where
  /-- answers delivered so far -/
  pos : Nat := 0
  /-- a `Next` has reported the end of the stream (exhaustion or error) -/
  finished : Bool := false
  closed : Bool := false
  /-- the current answer: the one delivered by the most recent `Next` that looked at the stream -/
  cur : Option Nat := none
  err : Option Nat := none
  deriving DecidableEq, Repr

def step (q : Query) (s : State) : Op → State × Ret
  | .next =>
    if s.closed = true ∨ s.finished = true then (s, .bool false)
    else match q s.pos with
      | .answer a => ({ s with pos := s.pos + 1, cur := some a }, .bool true)
      | .exhausted => ({ s with finished := true, cur := none }, .bool false)
      | .error e => ({ s with finished := true, cur := none, err := some e }, .bool false)
  | .scan => (s, .ans s.cur)
  | .err => (s, .err s.err)
  | .close => if s.closed = true then (s, .closed true) else ({ s with closed := true }, .closed false)

/-- run a call sequence from the initial state: final state and the list of return values -/
def run (q : Query) (ops : List Op) : State × List Ret :=
  ops.foldl (fun acc op => let r := step q acc.1 op; (r.1, acc.2 ++ [r.2])) ({}, [])

def outs (q : Query) (ops : List Op) : List Ret := (run q ops).2

theorem run_append (q : Query) (ops : List Op) (op : Op) :
    run q (ops ++ [op]) = ((step q (run q ops).1 op).1, (run q ops).2 ++ [(step q (run q ops).1 op).2]) := by
  simp [run, List.foldl_append]

end PrologVerif.Iter
