/-
  Refine — non-vacuity of the stage-4 theorems `vm_refines_sld_callN` (call/N, 2 ≤ N ≤ 8) and
  `vm_refines_sld_ctl2` (a disjunction as a goal).  As in `RefineExamples.lean`: the fragment
  hypotheses and the reference side are decided in the kernel, the run of the VM model (and the side
  condition `CallsOK` on it) is a hypothesis; `#eval Driver.C01.vmLine` prints the same line as
  `specLine` on every query below.
-/
import PrologVerif.Proofs.Refine
namespace PrologVerif.Refine.Example4
open PrologVerif PrologVerif.Refine

def v (n : Nat) : Term := .var n
def p (a : Term) : Term := .app "p" (.cons a .nil)
def q (a : Term) : Term := .app "q" (.cons a .nil)
def eq (a b : Term) : Term := .app "=" (.cons a (.cons b .nil))
def conj (a b : Term) : Term := .app "," (.cons a (.cons b .nil))
def disj (a b : Term) : Term := .app ";" (.cons a (.cons b .nil))

/-! ## stage 4a: `call/N`, 2 ≤ N ≤ 8

      p(a).  p(b).  r(a, 1).  r(b, 2).
      twice(G, X) :- call(G, X).             % the closure is a variable of the clause
      both(X, Y) :- call(r, X, Y).           % call/3
      ?- twice(p, X).        two answers a, b          (the goal built: p(X))
      ?- twice(r(b), X).     one answer 2              (the goal built: r(b, X))
      ?- both(X, Y).         two answers
      ?- twice(3, X).        type_error(callable, 3)   ?- twice(G, X).   instantiation_error

  (`#eval Driver.C01.vmLine` = `specLine … false` on all five.) -/

def r2 (a b : Term) : Term := .app "r" (.cons a (.cons b .nil))
def r1 (a : Term) : Term := .app "r" (.cons a .nil)
def twice (a b : Term) : Term := .app "twice" (.cons a (.cons b .nil))
def both (a b : Term) : Term := .app "both" (.cons a (.cons b .nil))
def call2 (a b : Term) : Term := .app "call" (.cons a (.cons b .nil))
def call3 (a b c : Term) : Term := .app "call" (.cons a (.cons b (.cons c .nil)))

def progT : List Term :=
  [p (.atom "a"), p (.atom "b"), r2 (.atom "a") (.int 1), r2 (.atom "b") (.int 2),
   SLD.rule (twice (v 0) (v 1)) (call2 (v 0) (v 1)),
   SLD.rule (both (v 0) (v 1)) (call3 (.atom "r") (v 0) (v 1))]

theorem fragT1 : CallNFrag progT (twice (.atom "p") (v 0)) :=
  ⟨by decide +kernel, by decide +kernel, by decide +kernel, (fun _ h => by cases h), by decide +kernel⟩

theorem sldT1 : SLD.solveQuery 40 progT (twice (.atom "p") (v 0)) 5 =
    some ([twice (.atom "p") (.atom "a"), twice (.atom "p") (.atom "b")], .exhausted) := by decide +kernel

theorem sldT2 : SLD.solveQuery 40 progT (twice (r1 (.atom "b")) (v 0)) 5 =
    some ([twice (r1 (.atom "b")) (.int 2)], .exhausted) := by decide +kernel

theorem sldT3 : SLD.solveQuery 40 progT (both (v 0) (v 1)) 5 =
    some ([both (.atom "a") (.int 1), both (.atom "b") (.int 2)], .exhausted) := by decide +kernel

theorem sldT4 : SLD.solveQuery 40 progT (twice (.int 3) (v 0)) 5 =
    some ([], .err (SLD.mk2 "type_error" (.atom "callable") (.int 3))) := by decide +kernel

/-- `twice(p, X)`: the goal `p(X)` is built at run time from the closure `p` and the argument `X` -/
example (f1 : Nat) (as1 : List Term) (e1 : VM.End)
    (h1 : VM.runQuery f1 progT (Driver.C01.shiftVars 10 (twice (.atom "p") (v 0))) 5 = some (as1, e1))
    (hcalls : CallsOK true f1 progT (twice (.atom "p") (v 0)) 5) :
    Forall2 (AnsRel (Driver.C01.shiftVars 10 (twice (.atom "p") (v 0)))) as1
      [twice (.atom "p") (.atom "a"), twice (.atom "p") (.atom "b")] ∧ endAgree e1 .exhausted :=
  vm_refines_sld_callN progT _ 5 fragT1 (by decide) f1 40 as1 _ e1 _ h1 sldT1 hcalls

/-- a closure with an argument of its own: `call(r(b), X)` calls `r(b, X)` -/
example (f1 : Nat) (as1 : List Term) (e1 : VM.End)
    (h1 : VM.runQuery f1 progT (Driver.C01.shiftVars 10 (twice (r1 (.atom "b")) (v 0))) 5 = some (as1, e1))
    (hcalls : CallsOK true f1 progT (twice (r1 (.atom "b")) (v 0)) 5) :
    Forall2 (AnsRel (Driver.C01.shiftVars 10 (twice (r1 (.atom "b")) (v 0)))) as1
      [twice (r1 (.atom "b")) (.int 2)] ∧ endAgree e1 .exhausted :=
  vm_refines_sld_callN progT _ 5
    ⟨fragT1.clauses, by decide +kernel, by decide +kernel, (fun _ h => by cases h), by decide +kernel⟩
    (by decide) f1 40 as1 _ e1 _ h1 sldT2 hcalls

/-- call/3 -/
example (f1 : Nat) (as1 : List Term) (e1 : VM.End)
    (h1 : VM.runQuery f1 progT (Driver.C01.shiftVars 10 (both (v 0) (v 1))) 5 = some (as1, e1))
    (hcalls : CallsOK true f1 progT (both (v 0) (v 1)) 5) :
    Forall2 (AnsRel (Driver.C01.shiftVars 10 (both (v 0) (v 1)))) as1
      [both (.atom "a") (.int 1), both (.atom "b") (.int 2)] ∧ endAgree e1 .exhausted :=
  vm_refines_sld_callN progT _ 5
    ⟨fragT1.clauses, by decide +kernel, by decide +kernel, (fun _ h => by cases h), by decide +kernel⟩
    (by decide) f1 40 as1 _ e1 _ h1 sldT3 hcalls

/-- a closure that is not callable: no answer, both sides end with the same type error -/
example (f1 : Nat) (as1 : List Term) (e1 : VM.End)
    (h1 : VM.runQuery f1 progT (Driver.C01.shiftVars 10 (twice (.int 3) (v 0))) 5 = some (as1, e1))
    (hcalls : CallsOK true f1 progT (twice (.int 3) (v 0)) 5) :
    as1 = [] ∧ endAgree e1 (.err (SLD.mk2 "type_error" (.atom "callable") (.int 3))) := by
  obtain ⟨hfa, hend⟩ := vm_refines_sld_callN progT _ 5
    ⟨fragT1.clauses, by decide +kernel, by decide +kernel, (fun _ h => by cases h), by decide +kernel⟩
    (by decide) f1 40 as1 _ e1 _ h1 sldT4 hcalls
  cases hfa
  exact ⟨rfl, hend⟩

/-! ## stage 4b: a disjunction as a goal (a conjunct of a conjunction)

      q(a).  q(b).  q(c).  r(a).  r(b).
      or(X) :- q(X), ( X = a ; X = b ), r(X).
      oc(X, Y) :- q(X), ( q(Y), ! ; Y = z ).      % the cut is local to the disjunction
      ?- or(X).          two answers a, b
      ?- oc(X, Y).       three answers (a,a), (b,a), (c,a): the cut commits the disjunction, not oc/2
      ?- q(X), ( X = c ; r(X) ).     three answers

  (`#eval Driver.C01.vmLine` = `specLine … false` on all three.) -/

def or1 (a : Term) : Term := .app "or" (.cons a .nil)
def oc (a b : Term) : Term := .app "oc" (.cons a (.cons b .nil))
def rr (a : Term) : Term := .app "r" (.cons a .nil)

def progD : List Term :=
  [q (.atom "a"), q (.atom "b"), q (.atom "c"), rr (.atom "a"), rr (.atom "b"),
   SLD.rule (or1 (v 0)) (conj (q (v 0)) (conj (disj (eq (v 0) (.atom "a")) (eq (v 0) (.atom "b"))) (rr (v 0)))),
   SLD.rule (oc (v 0) (v 1)) (conj (q (v 0)) (disj (conj (q (v 1)) (.atom "!")) (eq (v 1) (.atom "z"))))]

theorem fragD1 : Ctl2Frag progD (or1 (v 0)) :=
  ⟨by decide +kernel, by decide +kernel, by decide +kernel, (fun _ h => by cases h), by decide +kernel⟩

/-- the program is NOT in the fragment of the earlier stages (so the example is one of stage 4b) -/
example : ¬ CallNFrag progD (or1 (v 0)) := fun h => by
  have := h.clauses
  revert this
  decide +kernel

theorem sldD1 : SLD.solveQuery 60 progD (or1 (v 0)) 5 = some ([or1 (.atom "a"), or1 (.atom "b")], .exhausted) := by
  decide +kernel

theorem sldD2 : SLD.solveQuery 60 progD (oc (v 0) (v 1)) 5 =
    some ([oc (.atom "a") (.atom "a"), oc (.atom "b") (.atom "a"), oc (.atom "c") (.atom "a")], .exhausted) := by
  decide +kernel

example (f1 : Nat) (as1 : List Term) (e1 : VM.End)
    (h1 : VM.runQuery f1 progD (Driver.C01.shiftVars 10 (or1 (v 0))) 5 = some (as1, e1))
    (hcalls : CallsOK true f1 progD (or1 (v 0)) 5) :
    Forall2 (AnsRel (Driver.C01.shiftVars 10 (or1 (v 0)))) as1 [or1 (.atom "a"), or1 (.atom "b")] ∧
      endAgree e1 .exhausted :=
  vm_refines_sld_ctl2 progD _ 5 fragD1 (by decide) f1 60 as1 _ e1 _ h1 sldD1 hcalls

/-- the cut inside a disjunct is local to the disjunction: `q(X)` is still backtracked into -/
example (f1 : Nat) (as1 : List Term) (e1 : VM.End)
    (h1 : VM.runQuery f1 progD (Driver.C01.shiftVars 10 (oc (v 0) (v 1))) 5 = some (as1, e1))
    (hcalls : CallsOK true f1 progD (oc (v 0) (v 1)) 5) :
    Forall2 (AnsRel (Driver.C01.shiftVars 10 (oc (v 0) (v 1)))) as1
      [oc (.atom "a") (.atom "a"), oc (.atom "b") (.atom "a"), oc (.atom "c") (.atom "a")] ∧
      endAgree e1 .exhausted :=
  vm_refines_sld_ctl2 progD _ 5
    ⟨fragD1.clauses, by decide +kernel, by decide +kernel, (fun _ h => by cases h), by decide +kernel⟩
    (by decide) f1 60 as1 _ e1 _ h1 sldD2 hcalls

/-- a disjunction as a conjunct of the query -/
example : Ctl2Frag progD (conj (q (v 0)) (disj (eq (v 0) (.atom "c")) (rr (v 0)))) :=
  ⟨fragD1.clauses, by decide +kernel, by decide +kernel, (fun _ h => by cases h), by decide +kernel⟩

end PrologVerif.Refine.Example4
