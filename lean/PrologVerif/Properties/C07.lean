/-
  C07 — arithmetic is exact or raises an evaluation error; comparisons are numeric.

  Property theorems only (helper lemmas: Proofs/Arith*.lean).  Every theorem is about
  `PrologVerif.Generated.Arith.*`: the Lean definitions that extract/arith.go TRANSLATES from
  engine/number.go on every run — editing a guard in number.go changes the definition the kernel
  checks these proofs against.  `Spec.ExactArith` is arithmetic over the unbounded integers.
  `outcome r = some o` reads: the kernel returned exactly what the specification demands (the same
  value as an unbounded integer, or the same evaluation/type error) — in particular it did not panic.
-/
import PrologVerif.Proofs.Arith
import PrologVerif.Proofs.ArithPow
namespace PrologVerif.C07
open PrologVerif.Arith PrologVerif.Generated.Arith PrologVerif.ArithProofs
open PrologVerif.Spec.ExactArith (Outcome inRange checked)

/-! ### + - * unary minus abs sign: exact, or int_overflow exactly when the exact result does not fit -/

/-- `addI`: x + y exactly if it fits, `int_overflow` otherwise — for all 2^128 operand pairs -/
theorem C07_addI_exact (x y : I64) : outcome (addI x y) = some (Spec.ExactArith.add x.val y.val) :=
  addI_exact x y

theorem C07_subI_exact (x y : I64) : outcome (subI x y) = some (Spec.ExactArith.sub x.val y.val) :=
  subI_exact x y

/-- `mulI`: the `r/y != x` overflow test of the code is exact (never a wrapped product, never a spurious error) -/
theorem C07_mulI_exact (x y : I64) : outcome (mulI x y) = some (Spec.ExactArith.mul x.val y.val) :=
  mulI_exact x y

theorem C07_negI_exact (x : I64) : outcome (negI x) = some (Spec.ExactArith.neg x.val) := negI_exact x

theorem C07_absI_exact (x : I64) : outcome (absI x) = some (Spec.ExactArith.abs x.val) := absI_exact x

theorem C07_signI_exact (x : I64) : outcome (.ok (signI x)) = some (Spec.ExactArith.sign x.val) := signI_exact x

/-! ### // rem mod div -/

/-- `//` truncates; zero_divisor iff y = 0; int_overflow iff minInt // -1 -/
theorem C07_intDivI_exact (x y : I64) : outcome (intDivI x y) = some (Spec.ExactArith.intDiv x.val y.val) :=
  intDivI_exact x y

theorem C07_remI_exact (x y : I64) : outcome (remI x y) = some (Spec.ExactArith.rem x.val y.val) :=
  remI_exact x y

/-- `mod` is the floored remainder (sign of the divisor) for ALL operands — the pinned code went
    through float64 and was wrong above 2^53 (D5: maxInt mod 10 = -513) -/
theorem C07_modI_exact (x y : I64) : outcome (modI x y) = some (Spec.ExactArith.mod x.val y.val) :=
  modI_exact x y

/-- `div` is the floored quotient for ALL operands (D5) -/
theorem C07_intFloorDivI_exact (x y : I64) :
    outcome (intFloorDivI x y) = some (Spec.ExactArith.floorDiv x.val y.val) :=
  intFloorDivI_exact x y

/-! ### ^ -/

/-- `intPow` (the translated square-and-multiply loop): exact power or int_overflow for every base and
    every non-negative exponent; in particular 64 units of fuel always suffice and the last squaring
    never causes a spurious overflow -/
theorem C07_intPow_exact (a b : I64) (hb : 0 ≤ b.val) :
    outcome (intPow a b) = some (Spec.ExactArith.pow a.val b.val) :=
  intPow_exact a b hb

example : ∃ a b : I64, 0 ≤ b.val ∧ a.val = -2 ∧ b.val = 63 := ⟨.ofInt (-2), .ofInt 63, by decide⟩

end PrologVerif.C07
