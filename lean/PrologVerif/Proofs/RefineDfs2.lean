/-
  Refine, part 11b — the search, continued: the clause compiled by `call/1` (`tc_succ`), the
  promises (`tp_succ`), and the induction on the fuel of the search (`t_all`).
-/
import PrologVerif.Proofs.RefineDfs
import PrologVerif.Proofs.RefineCallSim
namespace PrologVerif.Refine
open PrologVerif PrologVerif.VM PrologVerif.DecompileCompile PrologVerif.Activation
  PrologVerif.RefineITree PrologVerif.RefineRobinson PrologVerif.VMScoped
  PrologVerif.Promise PrologVerif.DFSG PrologVerif.ForceDFSGConv

section
variable {fl : Bool} {tmpl : Term} {max : Nat} {prog : List Term} {F : Nat}

theorem Forall2.imp_mem {α β : Type} {R S : α → β → Prop} {as : List α} {bs : List β} (h : Forall2 R as bs)
    (hRS : ∀ a ∈ as, ∀ b, R a b → S a b) : Forall2 S as bs := by
  induction h with
  | nil => exact .nil
  | cons hd _ ih => exact .cons (hRS _ (by simp) _ hd) (ih (fun a ha => hRS a (by simp [ha])))

/-- below a cut parent the levels are at most its level -/
theorem lev_le_of_drop {lv : Lv} {d : Nat} (h : LvOK lv d) {cp l : Nat} (hcp : lv.lev cp = some l)
    {e : Nat × Option Nat} (he : e ∈ lv.dropWhile (fun e => e.1 ≠ cp)) {l' : Nat} (hl' : e.2 = some l') : l' ≤ l := by
  have hmcp := Lv.mem_of_lev hcp
  have hmono := h.mono
  have hnd := h.nodup
  clear hcp h
  induction lv with
  | nil => simp at hmcp
  | cons a lv ih =>
    by_cases ha : a.1 = cp
    · simp only [List.dropWhile, ha, ne_eq, not_true_eq_false, decide_false] at he
      have hacp : a = (cp, some l) := by
        rcases List.mem_cons.1 hmcp with h | h
        · exact h.symm
        · exfalso
          simp only [List.map_cons, List.nodup_cons] at hnd
          exact hnd.1 (ha ▸ List.mem_map_of_mem (f := Prod.fst) h)
      rcases List.mem_cons.1 he with h | h
      · rw [h, hacp] at hl'
        simp only [Option.some.injEq] at hl'
        omega
      · have := (List.pairwise_cons.1 hmono).1 e h l l' (by rw [hacp]) hl'
        omega
    · simp only [List.dropWhile, ha, ne_eq, not_false_eq_true, decide_true] at he
      have hmcp' : (cp, some l) ∈ lv := by
        rcases List.mem_cons.1 hmcp with h | h
        · exact absurd (by rw [← h]) ha
        · exact h
      simp only [List.map_cons, List.nodup_cons] at hnd
      exact ih he hmcp' (List.pairwise_cons.1 hmono).2 hnd.2

theorem Forall2.imp_mem2 {α β : Type} {R S : α → β → Prop} {as : List α} {bs : List β} (h : Forall2 R as bs)
    (hRS : ∀ a, ∀ b ∈ bs, R a b → S a b) : Forall2 S as bs := by
  induction h with
  | nil => exact .nil
  | cons hd _ ih => exact .cons (hRS _ _ (by simp) hd) (ih (fun a b hb => hRS a b (by simp [hb])))

theorem body_grel_call {lv : Lv} {σ' : Subst} {π' : Nat → Nat} {D' : Nat → Prop} {ρ : Nat → Nat} {d id : Nat}
    {G1 : List (Term × Nat)} {Bs : List Term} (hid : lv.lev id = some d)
    (h : Forall2 (fun g1 bg => InD D' g1.1 ∧ g1.2 = id ∧ img σ' π' g1.1 = bg.rename ρ) G1 Bs) :
    GRel lv σ' π' D' G1 (Bs.map (fun bg => SLD.Frame.goal (bg.rename ρ) d)) := by
  induction h with
  | nil => exact .nil
  | cons hd _ ih =>
    refine .cons ⟨hd.1, d, ?_, fun _ => by rw [hd.2.1]; exact hid⟩ ih
    rw [hd.2.2]

/-- the goals of a clause body (cut parent `id`, level `d`) in front of the pending goals -/
theorem cutsOK_body {lv : Lv} {d id : Nat} {G1 G : List (Term × Nat)} (hok : LvOK lv d)
    (hidn : id ∉ lv.map Prod.fst) (hG1id : ∀ it ∈ G1, it.2 = id) (hco : CutsOK lv G) :
    CutsOK ((id, some d) :: lv) (G1 ++ G) := by
  have hext := hext_push (lv := lv) (id := id) (some d) hidn
  have hcoG : CutsOK ((id, some d) :: lv) G := cutsOK_ext hext hco
  refine ⟨?_, ?_⟩
  · intro it hit hcut
    rcases List.mem_append.1 hit with h | h
    · exact ⟨d, by rw [hG1id it h, lev_cons_self]⟩
    · exact hcoG.1 it h hcut
  · refine List.pairwise_append.2 ⟨?_, hcoG.2, ?_⟩
    · induction G1 with
      | nil => exact .nil
      | cons a G1 ih =>
        refine List.pairwise_cons.2 ⟨?_, ih (fun it hit => hG1id it (by simp [hit]))⟩
        intro b hb _ _ la lb hla hlb
        rw [hG1id a (by simp), lev_cons_self] at hla
        rw [hG1id b (by simp [hb]), lev_cons_self] at hlb
        simp only [Option.some.injEq] at hla hlb
        omega
    · intro a ha b hb _ hcb la lb hla hlb
      rw [hG1id a ha, lev_cons_self] at hla
      simp only [Option.some.injEq] at hla
      obtain ⟨l0, hl0⟩ := hco.1 b hb hcb
      have := hext _ _ hl0
      rw [this] at hlb
      simp only [Option.some.injEq] at hlb
      have := hok.lev_lt hl0
      omega

/-- **the clause compiled by `call/1`**: `tuple(V̄) :- G` is activated with `V̄` bound to themselves; the
    reference runs the conjuncts of `G` one level deeper, the cut barrier being this call -/
theorem tc_succ {k : Nat} (ihP : TPk fl tmpl max prog F k) (hprog : ∀ c ∈ prog, clauseS fl c = true) :
    TCk fl tmpl max prog F (k + 1) := by
  intro g' c id K env R q nv n d r lv m sig m' ans0 hda hgood hans hid0 hidn hw hb hsim hs hok hst hlt
  cases n with
  | zero => rw [solveAlts_zero] at hs; cases hs
  | succ n' =>
  rw [solveAlts_frames] at hs
  cases hev : evalThunk F (Thunk.clause (clauseOf (qClause g')) (argList (qHead g')) K env id) m with
  | none => rw [dfsAlts_thunk_none (sem := VM.sem F) (by exact hev)] at hda; cases hda
  | some pr =>
  obtain ⟨q0, m1⟩ := pr
  obtain ⟨N, σ, π, D, G, hN, hW, hcg, hgr, hco, hq', hgv, hc⟩ := hsim
  subst hc
  obtain ⟨hW2, hrv2⟩ := simW_addRV hW
  have hcr : CRel fl (clauseOf (qClause g')) (qHead g') g' := by
    have := (clauseOf_spec (qClause g') (clauseS_qClause hb hw)).2
    simpa [qClause, headBody_rule] using this
  have hσg : ∀ v, g'.hasVar v = true → σ v = .var v := by
    intro v hv
    obtain ⟨w, _, hwv⟩ := hgv v hv
    exact hW.mg.mgu.fixes hwv
  have hπg : ∀ v, g'.hasVar v = true → π v < nv := fun v hv => hW.bnd v (hgv v hv)
  have himg_g : ∀ t : Term, (∀ v, t.hasVar v = true → g'.hasVar v = true) → img σ π t = t.rename π := by
    intro t ht
    have : t.subst σ = t.subst (fun v => .var v) := subst_congr t _ _ (fun v hv => hσg v (ht v hv))
    simp only [img, this, Term.subst_id]
  have hcv : ∀ x, ((qHead g').hasVar x = true ∨ g'.hasVar x = true) → g'.hasVar x = true := by
    rintro x (hx | hx)
    · exact (qHead_hasVar g' x).1 hx
    · exact hx
  have hgD : InD (fun v => D v ∨ RV σ D v) (qHead g') :=
    fun v hv => Or.inr (hgv v ((qHead_hasVar g' v).1 hv))
  have hτ : MguLike (img σ π (qHead g')) ((qHead g').rename (fun x => π x + nv)) (tauC g' π nv) := by
    rw [himg_g _ (fun v hv => (qHead_hasVar g' v).1 hv)]
    exact tauC_mgu hπg (qHead_hasVar g')
  rcases thunk_head' (max := max) hcr hW2 F (qHead g') K id m (q0, m1) hN hgD (qHead_shape g') ⟨rfl, rfl⟩ hev
      (fun x => π x + nv) (2 * nv) (by omega)
      (fun x y hx hy hxy => hW.inj x y (hgv x (hcv x hx)) (hgv y (hcv y hy))
        (by have : π x + nv = π y + nv := hxy
            omega))
      (fun x u hx hu => by
        have := hW.bnd u ((hrv2 u).1 hu)
        show π u ≠ π x + nv
        omega)
      (fun x hx => by
        have := hπg x (hcv x hx)
        show π x + nv < 2 * nv
        omega) with
    ⟨N', _, _, hno⟩ | ⟨fuel', env', N', K1, Bs, hN', hcont, hBs, _, hokh⟩
  · exact absurd hτ.sound (hno _)
  · obtain ⟨σ', π', D', G1, hW', hDD', heq, hcgK1, hbody, hDchar⟩ := hokh _ hτ
    -- the images of the terms in use do not change
    have himg_old : ∀ t, InD (fun v => D v ∨ RV σ D v) t → img σ' π' t = img σ π t := by
      intro t ht
      rw [heq t ht]
      apply tauC_b
      intro z hz
      have hz' : ((t.subst σ).rename π).hasVar z = true := hz
      obtain ⟨u, hu, rfl⟩ := hasVar_rename _ hz'
      exact hW2.bnd u (vars_subst_rv ht hu)
    have hvar : ∀ v : Nat, ∀ P : Nat → Prop, P v → ∀ w, (Term.var v).hasVar w = true → P w := by
      intro v P hP w hw
      simp only [Term.hasVar, beq_iff_eq] at hw
      subst hw; exact hP
    have hWB : SimW tmpl N' env' σ' π' D' nv := by
      refine ⟨hW'.mg, hW'.chain, hW'.pos, hW'.dlt, hW'.inj, ?_, hW'.tmplD⟩
      rintro x ⟨v, hv, hx⟩
      have h1 : (img σ' π' (.var v)).hasVar (π' x) = true := by
        simpa [img, Term.subst] using hasVar_rename_of hx
      rcases hDchar v hv with hv0 | ⟨x0, hx0, hx0e⟩
      · rw [himg_old (.var v) (hvar v _ hv0)] at h1
        have h1' : (((Term.var v).subst σ).rename π).hasVar (π' x) = true := h1
        obtain ⟨u, hu, hux⟩ := hasVar_rename _ h1'
        rw [← hux]
        exact hW2.bnd u (vars_subst_rv (t := .var v) (hvar v _ hv0) hu)
      · rw [hx0e, tauC_a (t := .var x0) (hvar x0 (fun w => g'.hasVar w = true) (hcv _ hx0))] at h1
        simp only [Term.rename, Term.subst, Term.hasVar, beq_iff_eq] at h1
        have := hπg x0 (hcv x0 hx0)
        omega
    have hq1 : q = img σ' π' tmpl := by
      rw [hq', himg_old tmpl (fun v hv => Or.inl (hW.tmplD v hv))]
    have hlv1 : ((id, some d) :: lv).map Prod.fst =
        push ({ id := id, delayed := [] } : Pr).id (lv.map Prod.fst) := by
      simp [push, hid0]
    have hext := hext_push (lv := lv) (id := id) (some d) hidn
    have hok1 : LvOK ((id, some d) :: lv) (d + 1) := hok.push hid0 hidn
    have hgrR : GRel ((id, some d) :: lv) σ' π' D' G R :=
      (grel_ext hext hgr).step_id (fun v hv => hDD' v (Or.inl hv))
        (fun t ht => himg_old t (fun v hv => Or.inl (ht v hv)))
    have hcoG : CutsOK ((id, some d) :: lv) G := cutsOK_ext hext hco
    have hG1id : ∀ it ∈ G1, it.2 = id := forall2_left hbody (fun a b h => h.2.1)
    have hcoAll : CutsOK ((id, some d) :: lv) (G1 ++ G) := cutsOK_body hok hidn hG1id hco
    cases hs1 : SLD.solve false (progS prog) n' (d + 1) nv (SLD.bodyFrames false (g'.rename π) d ++ R) q
        (max - ans0.length) with
    | none => rw [hs1] at hs; simp at hs
    | some r1 =>
    rw [hs1] at hs
    simp only at hs
    subst hans
    have hspec1 : PSpec fl tmpl max prog ((id, some d) :: lv) (d + 1) q0 m1 m.user.answers r1 ∧ StOK prog m1 ∧
        N' ≤ m1.user.nextVar := by
      rcases hBs with hBs | ⟨hBs, hbt⟩
      · have hgr1 : GRel ((id, some d) :: lv) σ' π' D' (G1 ++ G) (SLD.bodyFrames false (g'.rename π) d ++ R) := by
          refine Forall2.append ?_ hgrR
          simp only [SLD.bodyFrames, Bool.false_eq_true, if_false, conjuncts_rename, hBs, List.map_map]
          refine body_grel_call (ρ := π) (lev_cons_self id (some d) lv) (Forall2.imp_mem2 hbody ?_)
          rintro a bg hbg ⟨h1, h2, h3⟩
          refine ⟨h1, h2, ?_⟩
          rw [h3]
          exact tauC_a (fun v hv => conjuncts_vars (hBs ▸ hbg) hv)
        exact cont_run tmpl max prog hprog fuel' K1 env' (bump m N') q0 m1 hcont
          (fun hfl => hgood _ _ .here hfl _ hev) _ _ _ _
          ⟨N', σ', π', D', G1 ++ G, Nat.le_refl _, hWB, hcgK1 G hcg, hgr1, hcoAll, hq1, trivial⟩
          (stOK_bump hst N') n' (d + 1) r1 hs1
      · subst hBs
        cases hbody
        have e1 : SLD.bodyFrames false (g'.rename π) d ++ R = SLD.Frame.goal (.atom "true") d :: R := by
          rw [hbt]
          simp [SLD.bodyFrames, SLD.conjuncts, SLD.wrapVar, Term.rename, Term.subst]
        rw [e1] at hs1
        cases n' with
        | zero => rw [solve_zero] at hs1; cases hs1
        | succ n'' =>
          rw [solve_true] at hs1
          exact cont_run tmpl max prog hprog fuel' K1 env' (bump m N') q0 m1 hcont
            (fun hfl => hgood _ _ .here hfl _ hev) _ _ _ _
            ⟨N', σ', π', D', G, Nat.le_refl _, hWB, by simpa using hcgK1 G hcg, hgrR, hcoG, hq1, trivial⟩
            (stOK_bump hst N') n'' (d + 1) r1 hs1
    obtain ⟨hspec, hst1, hnv1⟩ := hspec1
    have hmm1 : m.user.nextVar ≤ m1.user.nextVar := Nat.le_trans hN' hnv1
    rcases after_child ihP hda hgood (by exact hev) hlv1 hspec hok1 hst1 hlt rfl with
      hill | ⟨m2, hm, hf, _⟩ | ⟨sig1, m2, hm, hne, hresA⟩
    · exact Or.inl hill
    · -- exhausted: the frame of the call is empty
      right
      rcases hm.stop with ⟨_, hstop, hlen⟩ | ⟨_, _, h1, _⟩ | ⟨h1, _⟩ | ⟨_, _, _, _, _, h1, _⟩
      · rw [hstop] at hs
        cases n' with
        | zero => rw [solve_zero] at hs1; cases hs1
        | succ n'' =>
        rw [solveAlts_nil] at hs
        simp only [SLD.failed, Option.map_some, SLD.Res.prepend, List.append_nil, Option.some.injEq] at hs
        subst hs
        cases k with
        | zero => simp [dfsP] at hf
        | succ k' =>
          rw [leaf_ok' rfl rfl] at hf
          simp only [Option.some.injEq, Prod.mk.injEq] at hf
          obtain ⟨rfl, rfl⟩ := hf
          exact ⟨hm.ans, Or.inl ⟨rfl, rfl, hlen⟩, hm.st, Nat.le_trans hmm1 hm.nvar⟩
      · cases h1
      · cases h1
      · cases h1
    · right
      rcases hm.stop with ⟨h1, _, _⟩ | ⟨c0, l, h1, hstop, h3, h4⟩ | ⟨h1, hstop⟩ | ⟨F', c1, c2, ex, co, h1, hstop⟩
      · exact absurd h1 hne
      · subst h1
        rw [hstop] at hs
        simp only [Option.some.injEq] at hs
        subst hs
        by_cases hc0 : c0 = id
        · -- a cut of the called goal: local to the call
          subst hc0
          rw [lev_cons_self] at h3
          simp only [Option.some.injEq] at h3
          subst h3
          rw [absorb_cut_eq] at hresA
          simp only [Prod.mk.injEq] at hresA
          obtain ⟨rfl, rfl⟩ := hresA
          exact ⟨hm.ans, Or.inl ⟨rfl, by simp, h4⟩, hm.st, Nat.le_trans hmm1 hm.nvar⟩
        · rw [absorb_cut_ne m2 hc0] at hresA
          simp only [Prod.mk.injEq] at hresA
          obtain ⟨rfl, rfl⟩ := hresA
          rw [lev_cons_ne (some d) lv hc0] at h3
          have hld : l ≠ d := by have := hok.lev_lt h3; omega
          exact ⟨hm.ans, Or.inr (Or.inl ⟨c0, l, rfl, by simp [hld], h3, h4⟩), hm.st,
            Nat.le_trans hmm1 hm.nvar⟩
      · subst h1
        rw [hstop] at hs
        simp only [Option.some.injEq] at hs
        subst hs
        rw [absorb_found] at hresA
        simp only [Prod.mk.injEq] at hresA
        obtain ⟨rfl, rfl⟩ := hresA
        exact ⟨hm.ans, Or.inr (Or.inr (Or.inl ⟨rfl, hstop⟩)), hm.st, Nat.le_trans hmm1 hm.nvar⟩
      · subst h1
        rw [hstop] at hs
        simp only [Option.some.injEq] at hs
        subst hs
        obtain ⟨co', hco'⟩ := absorb_raised id (.exc (errT F' c1)) co m2
        rw [hco'] at hresA
        simp only [Prod.mk.injEq] at hresA
        obtain ⟨rfl, rfl⟩ := hresA
        exact ⟨hm.ans, Or.inr (Or.inr (Or.inr ⟨F', c1, c2, ex, co', rfl, hstop⟩)), hm.st,
          Nat.le_trans hmm1 hm.nvar⟩

theorem afterCut_answers (l : Nat) (r : SLD.Res) : (SLD.afterCut l r).answers = r.answers := by
  unfold SLD.afterCut
  split <;> rfl

theorem tp_succ {k : Nat} (ihA : TAk fl tmpl max prog F k) (ihD : TDk fl tmpl max prog F k)
    (ihC : TCk fl tmpl max prog F k)
    (ihPall : ∀ j, j ≤ k → TPk fl tmpl max prog F j) (hprog : ∀ c ∈ prog, clauseS fl c = true) :
    TPk fl tmpl max prog F (k + 1) := by
  intro p lv m sig m' hd hgood d ans0 r hspec hok hst hlt
  cases hspec with
  | fail hans =>
    rw [leaf_ok' rfl rfl] at hd
    simp only [Option.some.injEq, Prod.mk.injEq] at hd
    obtain ⟨rfl, rfl⟩ := hd
    exact Or.inr ⟨⟨[], (by show m.user.answers = [] ++ ans0; simpa using hans), .nil⟩,
      Or.inl ⟨rfl, rfl, by rw [show (tick m).user.answers = m.user.answers from rfl, hans]; exact hlt⟩,
      stOK_tick hst, Nat.le_refl _⟩
  | answer hans hrel =>
    rename_i a q
    by_cases hc : (a :: ans0).length ≥ max
    · rw [if_pos hc] at hd
      rw [leaf_ok' rfl rfl] at hd
      simp only [Option.some.injEq, Prod.mk.injEq] at hd
      obtain ⟨rfl, rfl⟩ := hd
      have h1 : max - ans0.length = 1 := by simp only [List.length_cons] at hc; omega
      refine Or.inr ⟨⟨[a], (by show m.user.answers = [a] ++ ans0; simpa using hans), .cons hrel .nil⟩,
        Or.inr (Or.inr (Or.inl ⟨rfl, by simp [h1]⟩)), stOK_tick hst, Nat.le_refl _⟩
    · rw [if_neg hc] at hd
      rw [leaf_ok' rfl rfl] at hd
      simp only [Option.some.injEq, Prod.mk.injEq] at hd
      obtain ⟨rfl, rfl⟩ := hd
      have h1 : max - ans0.length ≠ 1 := by simp only [List.length_cons] at hc; omega
      refine Or.inr ⟨⟨[a], (by show m.user.answers = [a] ++ ans0; simpa using hans), .cons hrel .nil⟩,
        Or.inl ⟨rfl, by simp [h1], ?_⟩, stOK_tick hst, Nat.le_refl _⟩
      rw [show (tick m).user.answers = m.user.answers from rfl, hans]
      simp only [List.length_cons] at hc ⊢
      omega
  | err hans =>
    rename_i F' c1 c2
    rw [leaf_err' rfl rfl] at hd
    simp only [Option.some.injEq, Prod.mk.injEq] at hd
    obtain ⟨rfl, rfl⟩ := hd
    exact Or.inr ⟨⟨[], (by show m.user.answers = [] ++ ans0; simpa using hans), .nil⟩,
      Or.inr (Or.inr (Or.inr ⟨F', c1, c2, [], none, rfl, rfl⟩)), stOK_tick hst, Nat.le_refl _⟩
  | alts hans hid0 hcs hshape hsim hs =>
    rename_i id cs g g2 K env R q nv n
    cases cs with
    | nil =>
      rw [leaf_ok' rfl rfl] at hd
      simp only [Option.some.injEq, Prod.mk.injEq] at hd
      obtain ⟨rfl, rfl⟩ := hd
      cases n with
      | zero => rw [List.map_nil, solveAlts_zero] at hs; cases hs
      | succ n' =>
        rw [List.map_nil, solveAlts_nil] at hs
        simp only [SLD.failed, Option.some.injEq] at hs
        subst hs
        exact Or.inr ⟨⟨[], (by show m.user.answers = [] ++ ans0; simpa using hans), .nil⟩,
          Or.inl ⟨rfl, rfl, by rw [show (tick m).user.answers = m.user.answers from rfl, hans]; exact hlt⟩,
          stOK_tick hst, Nat.le_refl _⟩
    | cons c cs' =>
      by_cases hid : (id ≠ 0 ∧ (lv.map Prod.fst).contains id)
      · rw [ill_id' rfl hid] at hd
        simp only [Option.some.injEq, Prod.mk.injEq] at hd
        exact Or.inl hd.1.symm
      · rw [nocut' rfl hid rfl] at hd
        have hf : afterChild ({ ({ id := id, delayed := (c :: cs').map (fun c => Thunk.clause (clauseOf c) (argList g) K env id) } : Pr) with cutParent := none }) =
            ({ id := id, delayed := cs'.map (fun c => Thunk.clause (clauseOf c) (argList g) K env id) } : Pr) := by
          simp [afterChild]
        rw [hf] at hd
        simp only [List.map_cons] at hd
        have hidn : id ∉ lv.map Prod.fst := by
          intro hmem
          exact hid ⟨hid0, by simpa using hmem⟩
        have hgA : GoodA fl F k (Thunk.clause (clauseOf c) (argList g) K env id)
            { id := id, delayed := cs'.map (fun c => Thunk.clause (clauseOf c) (argList g) K env id) }
            (lv.map Prod.fst) (tick m) := by
          intro x mx hx
          rw [← hf] at hx
          exact hgood x mx (.nocut (ts := cs'.map (fun c => Thunk.clause (clauseOf c) (argList g) K env id)) rfl hid rfl hx)
        rcases ihA c cs' id g g2 K env R q nv n d r lv (tick m) sig m' ans0 hd hgA hans hid0 hidn hcs hshape hsim hs
          hok (stOK_tick hst) hlt with hill | hm
        · exact Or.inl hill
        · exact Or.inr (hm.from (Nat.le_refl _))
  | direct hans hid0 hcode hvars hsim hs =>
    rename_i id ct K env R q nv n
    by_cases hid : (id ≠ 0 ∧ (lv.map Prod.fst).contains id)
    · rw [ill_id' rfl hid] at hd
      simp only [Option.some.injEq, Prod.mk.injEq] at hd
      exact Or.inl hd.1.symm
    · rw [nocut' rfl hid rfl] at hd
      have hf : afterChild ({ ({ id := id, delayed := [Thunk.clause ct [] K env id] } : Pr) with cutParent := none }) =
          ({ id := id, delayed := [] } : Pr) := by
        simp [afterChild]
      rw [hf] at hd
      have hidn : id ∉ lv.map Prod.fst := by
        intro hmem
        exact hid ⟨hid0, by simpa using hmem⟩
      have hgA : GoodA fl F k (Thunk.clause ct [] K env id) { id := id, delayed := [] }
          (lv.map Prod.fst) (tick m) := by
        intro x mx hx
        rw [← hf] at hx
        exact hgood x mx (.nocut (ts := []) rfl hid rfl hx)
      rcases ihD ct id K env R q nv n d r lv (tick m) sig m' ans0 hd hgA hans hid0 hidn hcode hvars hsim hs
        hok (stOK_tick hst) hlt with hill | hm
      · exact Or.inl hill
      · exact Or.inr (hm.from (Nat.le_refl _))
  | callp hans hid0 hw hb hsim hs =>
    rename_i id g' c K env R q nv n
    by_cases hid : (id ≠ 0 ∧ (lv.map Prod.fst).contains id)
    · rw [ill_id' rfl hid] at hd
      simp only [Option.some.injEq, Prod.mk.injEq] at hd
      exact Or.inl hd.1.symm
    · rw [nocut' rfl hid rfl] at hd
      have hf : afterChild ({ ({ id := id, delayed := [Thunk.clause (clauseOf (qClause g')) (argList (qHead g')) K env id] } : Pr) with cutParent := none }) =
          ({ id := id, delayed := [] } : Pr) := by
        simp [afterChild]
      rw [hf] at hd
      have hidn : id ∉ lv.map Prod.fst := by
        intro hmem
        exact hid ⟨hid0, by simpa using hmem⟩
      have hgA : GoodA fl F k (Thunk.clause (clauseOf (qClause g')) (argList (qHead g')) K env id)
          { id := id, delayed := [] } (lv.map Prod.fst) (tick m) := by
        intro x mx hx
        rw [← hf] at hx
        exact hgood x mx (.nocut (ts := []) rfl hid rfl hx)
      rcases ihC g' c id K env R q nv n d r lv (tick m) sig m' ans0 hd hgA hans hid0 hidn hw hb hsim hs
        hok (stOK_tick hst) hlt with hill | hm
      · exact Or.inl hill
      · exact Or.inr (hm.from (Nat.le_refl _))
  | cut hans hlcp hN hW hcg hgr hco hq hbnd hs =>
    rename_i pc vars kk cp l env R q nv n r' N σ π D G'
    -- the cut: everything created since `cp` was called is discarded
    have hmem : (lv.map Prod.fst).contains cp = true := by
      simpa using mem_ids_of_lev hlcp
    rw [cut' (t := .afterCut pc vars kk [] [] env cp) (ts := []) rfl (by simp [cutPromise]) rfl hmem] at hd
    have hf : afterChild ({ cutPromise pc vars kk env cp with cutParent := none }) = ({} : Pr) := by
      simp [afterChild, cutPromise]
    rw [hf] at hd
    simp only [Option.map_eq_some_iff] at hd
    obtain ⟨⟨sigA, mA⟩, hda, hpair⟩ := hd
    simp only [Prod.mk.injEq] at hpair
    obtain ⟨rfl, rfl⟩ := hpair
    -- the path below the cut
    let lv' : Lv := lv.dropWhile (fun e => e.1 ≠ cp)
    have hsub : lv'.Sublist lv := List.dropWhile_sublist _
    have hok' : LvOK lv' d := hok.drop cp
    have hlive' : lv'.map Prod.fst = (lv.map Prod.fst).dropWhile (· ≠ cp) := map_fst_dropWhile cp lv
    rw [← hlive'] at hda
    have hin : ∀ it ∈ G', isCut it → ∀ l', lv.lev it.2 = some l' → lv'.lev it.2 = some l' := by
      intro it hit hc l' hl'
      have := mem_drop_of_le hok hlcp hl' (hbnd it hit hc l' hl')
      exact Lv.lev_of_mem hok'.nodup this
    have hgr' : GRel lv' σ π D G' R := by
      refine Forall2.imp_mem hgr ?_
      rintro it hit fr ⟨hg, l0, hfr, hl0⟩
      exact ⟨hg, l0, hfr, fun hc => hin it hit hc l0 (hl0 hc)⟩
    have hco' : CutsOK lv' G' := by
      refine ⟨fun it hit hc => ?_, ?_⟩
      · obtain ⟨l0, hl0⟩ := hco.1 it hit hc
        exact ⟨l0, hin it hit hc l0 hl0⟩
      · refine hco.2.imp ?_
        intro a b hab hca hcb la lb hla hlb
        exact hab hca hcb la lb (lev_of_sub hsub hok.nodup hla) (lev_of_sub hsub hok.nodup hlb)
    cases k with
    | zero => simp [dfsAlts] at hda
    | succ k0 =>
    have ihP0 : TPk fl tmpl max prog F k0 := ihPall k0 (Nat.le_succ k0)
    cases hev : evalThunk F (Thunk.afterCut pc vars kk [] [] env cp) (tick m) with
    | none => rw [dfsAlts_thunk_none (sem := VM.sem F) (by exact hev)] at hda; cases hda
    | some pr =>
      obtain ⟨q0, m1⟩ := pr
      have hcont : applyCont F (.exec pc vars cp kk) env (tick m) = some (q0, m1) := by
        cases F with
        | zero => simp [evalThunk] at hev
        | succ F' =>
          rw [continuation_resumes]
          rw [evalThunk] at hev
          exact hev
      subst hans
      have hgA : GoodA fl F (k0 + 1) (Thunk.afterCut pc vars kk [] [] env cp) ({} : Pr)
          (lv'.map Prod.fst) (tick m) := by
        intro x mx hx
        rw [← hf, hlive'] at hx
        exact hgood x mx (.cut (ts := []) rfl (by simp [cutPromise]) rfl hmem hx)
      obtain ⟨hspec, hst1, hnv1⟩ := cont_run tmpl max prog hprog F _ env (tick m) q0 m1 hcont
        (fun hfl => hgA _ _ .here hfl _ hev) lv' R q nv
        ⟨N, σ, π, D, G', hN, hW, hcg, hgr', hco', hq, trivial⟩ (stOK_tick hst) n d r' hs
      have hlv1 : lv'.map Prod.fst = push ({} : Pr).id (lv'.map Prod.fst) := by simp [push]
      rcases after_child ihP0 hda hgA (by exact hev) hlv1 hspec hok' hst1 hlt rfl with
        hill | ⟨m2, hm, hf2, _⟩ | ⟨sig1, m2, hm, hne, hresA⟩
      · subst hill
        exact Or.inl rfl
      · right
        cases k0 with
        | zero => simp [dfsP] at hf2
        | succ k' =>
          rw [leaf_ok' rfl rfl] at hf2
          simp only [Option.some.injEq, Prod.mk.injEq] at hf2
          obtain ⟨rfl, rfl⟩ := hf2
          rcases hm.stop with ⟨_, h2, h3⟩ | ⟨_, _, h1, _⟩ | ⟨h1, _⟩ | ⟨_, _, _, _, _, h1, _⟩
          · refine ⟨by rw [afterCut_answers]; exact hm.ans, Or.inr (Or.inl ⟨cp, l, rfl, ?_, hlcp, h3⟩), hm.st, Nat.le_trans hnv1 hm.nvar⟩
            simp [SLD.afterCut, h2]
          · cases h1
          · cases h1
          · cases h1
      · right
        rcases hm.stop with ⟨h1, _, _⟩ | ⟨c', l', h1, h2, h3, h4⟩ | ⟨h1, h2⟩ | ⟨F', c1, c2, ex, co, h1, h2⟩
        · exact absurd h1 hne
        · subst h1
          have hmem' := Lv.mem_of_lev h3
          have hc0 : c' ≠ 0 := hok'.nz _ hmem'
          rw [absorb_cut_ne m2 hc0] at hresA
          simp only [Prod.mk.injEq] at hresA
          obtain ⟨rfl, rfl⟩ := hresA
          have hle : l' ≤ l := lev_le_of_drop hok hlcp hmem' rfl
          refine ⟨by rw [afterCut_answers]; exact hm.ans,
            Or.inr (Or.inl ⟨c', l', rfl, ?_, lev_of_sub hsub hok.nodup h3, h4⟩), hm.st, Nat.le_trans hnv1 hm.nvar⟩
          simp [SLD.afterCut, h2, Nat.min_eq_left hle]
        · subst h1
          rw [absorb_found] at hresA
          simp only [Prod.mk.injEq] at hresA
          obtain ⟨rfl, rfl⟩ := hresA
          refine ⟨by rw [afterCut_answers]; exact hm.ans, Or.inr (Or.inr (Or.inl ⟨rfl, ?_⟩)), hm.st, Nat.le_trans hnv1 hm.nvar⟩
          simp [SLD.afterCut, h2]
        · subst h1
          obtain ⟨co', hco''⟩ := absorb_raised 0 (.exc (errT F' c1)) co m2
          rw [hco''] at hresA
          simp only [Prod.mk.injEq] at hresA
          obtain ⟨rfl, rfl⟩ := hresA
          refine ⟨by rw [afterCut_answers]; exact hm.ans,
            Or.inr (Or.inr (Or.inr ⟨F', c1, c2, ex, ?_⟩)), hm.st, Nat.le_trans hnv1 hm.nvar⟩
          cases co' with
          | none => exact ⟨some cp, rfl, by simp [SLD.afterCut, h2]⟩
          | some c0 => exact ⟨some c0, rfl, by simp [SLD.afterCut, h2]⟩

theorem tp_zero : TPk fl tmpl max prog F 0 := by
  intro p lv m sig m' hd
  simp [dfsP] at hd

theorem ta_zero : TAk fl tmpl max prog F 0 := by
  intro c cs id g g2 K env R q nv n d r lv m sig m' ans0 hda
  simp [dfsAlts] at hda

theorem td_zero : TDk fl tmpl max prog F 0 := by
  intro ct id K env R q nv n d r lv m sig m' ans0 hda
  simp [dfsAlts] at hda

theorem tc_zero : TCk fl tmpl max prog F 0 := by
  intro g' c id K env R q nv n d r lv m sig m' ans0 hda
  simp [dfsAlts] at hda

theorem t_all (hprog : ∀ c ∈ prog, clauseS fl c = true) : ∀ k : Nat,
    (∀ j, j ≤ k → TPk fl tmpl max prog F j) ∧ TAk fl tmpl max prog F k ∧ TDk fl tmpl max prog F k ∧
      TCk fl tmpl max prog F k
  | 0 => ⟨fun j hj => by
      have : j = 0 := by omega
      subst this; exact tp_zero, ta_zero, td_zero, tc_zero⟩
  | k + 1 =>
    have ih := t_all hprog k
    have ihP : TPk fl tmpl max prog F k := ih.1 k (Nat.le_refl k)
    ⟨fun j hj => by
      rcases Nat.lt_or_ge j (k + 1) with h | h
      · exact ih.1 j (by omega)
      · have : j = k + 1 := by omega
        subst this
        exact tp_succ ih.2.1 ih.2.2.1 ih.2.2.2 ih.1 hprog,
     ta_succ ihP hprog, td_succ ihP hprog, tc_succ ihP hprog⟩

theorem tp_all (hprog : ∀ c ∈ prog, clauseS fl c = true) (k : Nat) : TPk fl tmpl max prog F k :=
  (t_all hprog k).1 k (Nat.le_refl k)

end

end PrologVerif.Refine
