/-
  Proofs/DCGSemBase — facts about `walk` and `unify` (Spec/DcgSubst) needed to relate the
  reference SLD evaluation of a translated grammar to the denotation: extension of a
  substitution, unification of ground terms, and unification of an input list with a terminal
  pattern `[t1,…,tn | S]`.
-/
import PrologVerif.Spec.DcgSLD
namespace PrologVerif.Grammar
open PrologVerif

def isVar : Term → Bool
  | .var _ => true
  | _ => false

theorem groundT_not_var {t : Term} (h : groundT t = true) : isVar t = false := by
  cases t <;> simp_all [groundT, isVar]

/-- two lists are related element by element -/
inductive All2 {α β : Type} (R : α → β → Prop) : List α → List β → Prop
  | nil : All2 R [] []
  | cons {a b as bs} : R a b → All2 R as bs → All2 R (a :: as) (b :: bs)

theorem All2.imp {α β : Type} {R S : α → β → Prop} {as : List α} {bs : List β}
    (h : All2 R as bs) (f : ∀ a b, R a b → S a b) : All2 S as bs := by
  induction h with
  | nil => exact .nil
  | cons r _ ih => exact .cons (f _ _ r) ih

theorem All2.append {α β : Type} {R : α → β → Prop} {as as' : List α} {bs bs' : List β}
    (h : All2 R as bs) (h' : All2 R as' bs') : All2 R (as ++ as') (bs ++ bs') := by
  induction h with
  | nil => exact h'
  | cons r _ ih => exact .cons r ih

theorem All2.length_eq {α β : Type} {R : α → β → Prop} {as : List α} {bs : List β}
    (h : All2 R as bs) : as.length = bs.length := by
  induction h with
  | nil => rfl
  | cons _ _ ih => simp [ih]

theorem All2.map_eq {α β γ : Type} {R : α → β → Prop} {as : List α} {bs : List β} (f : α → γ) (g : β → γ)
    (h : All2 R as bs) (hfg : ∀ a b, R a b → f a = g b) : as.map f = bs.map g := by
  induction h with
  | nil => rfl
  | cons r _ ih => simp [hfg _ _ r, ih]

theorem All2.forall_right {α β : Type} {R : α → β → Prop} {as : List α} {bs : List β} (p : β → Prop)
    (h : All2 R as bs) (hp : ∀ a b, R a b → p b) : ∀ b ∈ bs, p b := by
  induction h with
  | nil => intro b hb; simp at hb
  | cons r _ ih =>
    intro b hb
    rcases List.mem_cons.1 hb with rfl | hb
    · exact hp _ _ r
    · exact ih b hb

theorem All2.zip {α β : Type} {R : α → β → Prop} {as : List α} {bs : List β} (h : All2 R as bs) :
    ∀ p ∈ as.zip bs, R p.1 p.2 := by
  induction h with
  | nil => intro p hp; simp at hp
  | cons r _ ih =>
    intro p hp
    simp only [List.zip_cons_cons, List.mem_cons] at hp
    rcases hp with rfl | hp
    · exact r
    · exact ih p hp

/-! ### walk -/

theorem walk_nonvar (σ : Subst) (t : Term) (h : isVar t = false) : walk σ t = t := by
  induction σ with
  | nil => rfl
  | cons p σ ih =>
    obtain ⟨v, u⟩ := p
    simp only [walk, ih]
    cases t <;> simp_all [isVar]

theorem walk_unbound (σ : Subst) (v : Nat) (h : ∀ p ∈ σ, p.1 ≠ v) : walk σ (.var v) = .var v := by
  induction σ with
  | nil => rfl
  | cons p σ ih =>
    obtain ⟨w, u⟩ := p
    have h1 : w ≠ v := h (w, u) (by simp)
    have h2 := ih (fun p hp => h p (by simp [hp]))
    simp only [walk, h2]
    simp [Ne.symm h1]

theorem walk_append (Δ σ : Subst) (t : Term) : walk (Δ ++ σ) t = walk Δ (walk σ t) := by
  induction Δ with
  | nil => rfl
  | cons p Δ ih =>
    obtain ⟨w, u⟩ := p
    simp only [List.cons_append, walk, ih]

theorem walk_bind (σ : Subst) (v : Nat) (u : Term) (h : ∀ p ∈ σ, p.1 ≠ v) :
    walk ((v, u) :: σ) (.var v) = u := by
  simp [walk, walk_unbound σ v h]

theorem walk_bind_other (σ : Subst) (v : Nat) (u t : Term) (h : walk σ t ≠ .var v) :
    walk ((v, u) :: σ) t = walk σ t := by
  simp only [walk]
  split
  · rename_i w hw
    split
    · rename_i hwv; subst hwv; exact absurd hw h
    · exact hw.symm
  · rfl

theorem isVar_list (ts : List Term) : isVar (Term.list ts Term.nilT) = false := by
  cases ts <;> rfl

/-! ### size -/

theorem tsize_pos (t : Term) : 0 < t.size := by
  cases t <;> simp [Term.size] <;> omega

theorem asize_le_of_mem_cons (b : Term) (bs : Args) : b.size ≤ (Args.cons b bs).size ∧ bs.size ≤ (Args.cons b bs).size := by
  simp [Args.size]

/-! ### unification of ground terms -/

/-- argument lists: given the statement for the elements -/
theorem unifyArgs_ground (k : Nat) (σ : Subst)
    (ih : ∀ t u : Term, groundT t = true → groundT u = true → u.size ≤ k →
      unify k σ t u = .done (if t = u then some σ else none)) :
    ∀ (as bs : Args), groundA as = true → groundA bs = true → bs.size ≤ k →
      unifyArgsWith (unify k) σ as bs = .done (if as = bs then some σ else none)
  | .nil, .nil, _, _, _ => by simp [unifyArgsWith]
  | .nil, .cons _ _, _, _, _ => by simp [unifyArgsWith]
  | .cons _ _, .nil, _, _, _ => by simp [unifyArgsWith]
  | .cons a as, .cons b bs, ha, hb, hk => by
    simp only [groundA, Bool.and_eq_true] at ha hb
    have hsz := asize_le_of_mem_cons b bs
    have h1 := ih a b ha.1 hb.1 (by omega)
    have h2 := unifyArgs_ground k σ ih as bs ha.2 hb.2 (by omega)
    simp only [unifyArgsWith, h1]
    by_cases hab : a = b
    · simp [hab, h2]
    · simp [hab]

/-- two ground terms unify iff they are equal, and nothing is bound (fuel: the size of the
    right-hand side is enough) -/
theorem unify_ground : ∀ (k : Nat) (σ : Subst) (t u : Term), groundT t = true → groundT u = true →
    u.size ≤ k → unify k σ t u = .done (if t = u then some σ else none)
  | 0, _, _, u, _, _, hk => by have := tsize_pos u; omega
  | k + 1, σ, t, u, ht, hu, hk => by
    have wt := walk_nonvar σ t (groundT_not_var ht)
    have wu := walk_nonvar σ u (groundT_not_var hu)
    unfold unify
    rw [wt, wu]
    cases t with
    | var v => simp [groundT] at ht
    | app f as =>
      cases u with
      | var v => simp [groundT] at hu
      | app g bs =>
        simp only [groundT] at ht hu
        have hsz : bs.size ≤ k := by simp [Term.size] at hk; omega
        have := unifyArgs_ground k σ (fun t u ht hu hk => unify_ground k σ t u ht hu hk) as bs ht hu hsz
        by_cases hfg : f = g
        · simp [hfg, this]
        · simp [hfg]
      | _ => simp
    | atom a => cases u <;> simp_all [groundT]
    | int i => cases u <;> simp_all [groundT]
    | flt b => cases u <;> simp_all [groundT]
    | str i => cases u <;> simp_all [groundT]

/-! ### binding a variable -/

theorem unify_nonvar_var (k : Nat) (σ : Subst) (x t' : Term) (v : Nat)
    (hx : walk σ x = t') (ht : isVar t' = false) (hv : ∀ p ∈ σ, p.1 ≠ v) :
    unify (k + 1) σ x (.var v) = .done (some ((v, t') :: σ)) := by
  unfold unify
  rw [hx, walk_unbound σ v hv]
  cases t' <;> simp_all [isVar]

theorem unify_var_var (k : Nat) (σ : Subst) (a b : Nat) (hab : a ≠ b)
    (ha : ∀ p ∈ σ, p.1 ≠ a) (hb : ∀ p ∈ σ, p.1 ≠ b) :
    unify (k + 1) σ (.var a) (.var b) = .done (some ((a, .var b) :: σ)) := by
  unfold unify
  rw [walk_unbound σ a ha, walk_unbound σ b hb]
  simp [hab]

/-! ### an input list against a terminal pattern -/

/-- remove the terminals from the front of a list, if they are there -/
def stripPrefix : List Term → List Term → Option (List Term)
  | [], l => some l
  | _ :: _, [] => none
  | t :: ts, h :: l => if h = t then stripPrefix ts l else none

theorem groundT_list (l : List Term) (hl : ∀ t ∈ l, groundT t = true) : groundT (Term.list l Term.nilT) = true := by
  induction l with
  | nil => rfl
  | cons h l ih =>
    simp only [Term.list, List.foldr_cons] at ih ⊢
    simp [Term.consT, groundT, groundA, hl h (by simp), ih (fun t ht => hl t (by simp [ht]))]

theorem stripPrefix_ground (ts l l' : List Term) (hl : ∀ t ∈ l, groundT t = true)
    (h : stripPrefix ts l = some l') : ∀ t ∈ l', groundT t = true := by
  induction ts generalizing l with
  | nil => simp [stripPrefix] at h; subst h; exact hl
  | cons t ts ih =>
    cases l with
    | nil => simp [stripPrefix] at h
    | cons x l =>
      simp only [stripPrefix] at h
      split at h
      · exact ih l (fun t ht => hl t (by simp [ht])) h
      · simp at h

theorem list_cons (h : Term) (l : List Term) (tl : Term) :
    Term.list (h :: l) tl = .app "." (.cons h (.cons (Term.list l tl) .nil)) := rfl

theorem size_list_cons (t : Term) (ts : List Term) (tl : Term) :
    (Term.list (t :: ts) tl).size = 1 + (t.size + (Term.list ts tl).size) := by
  simp [list_cons, Term.size, Args.size]

/-- **`S0 = [t1,…,tn | S]`** when `S0` dereferences to the ground list `l`, the terminals are
    ground and `S` is an unbound variable: succeeds iff the terminals are a prefix of `l`, binding
    `S` to what is left (and nothing else) -/
theorem unify_terminals (s : Nat) : ∀ (ts : List Term) (k : Nat) (σ : Subst) (x : Term) (l : List Term),
    walk σ x = Term.list l Term.nilT → (∀ t ∈ l, groundT t = true) → (∀ t ∈ ts, groundT t = true) →
    (∀ p ∈ σ, p.1 ≠ s) → (Term.list ts Term.nilT).size ≤ k →
    unify k σ x (Term.list ts (.var s)) =
      .done ((stripPrefix ts l).map fun l' => (s, Term.list l' Term.nilT) :: σ)
  | [], k, σ, x, l, hx, _, _, hs, hk => by
    have : k = (k - 1) + 1 := by simp [Term.list, Term.nilT, Term.size] at hk; omega
    rw [this]
    simp only [Term.list, List.foldr_nil]
    rw [unify_nonvar_var (k - 1) σ x _ s hx (isVar_list l) hs]
    simp [stripPrefix, Term.list]
  | t :: ts, 0, σ, x, l, _, _, _, _, hk => by
    rw [size_list_cons] at hk; omega
  | t :: ts, k + 1, σ, x, l, hx, hl, hts, hs, hk => by
    rw [size_list_cons] at hk
    unfold unify
    rw [hx, walk_nonvar σ (Term.list (t :: ts) (.var s)) rfl]
    cases l with
    | nil => simp [Term.list, Term.nilT, stripPrefix, Term.consT]
    | cons h l =>
      have hg := unify_ground k σ h t (hl h (by simp)) (hts t (by simp)) (by omega)
      have hrec := unify_terminals s ts k σ (Term.list l Term.nilT) l
        (walk_nonvar σ _ (isVar_list l)) (fun t ht => hl t (by simp [ht]))
        (fun t ht => hts t (by simp [ht])) hs (by omega)
      simp only [list_cons, unifyArgsWith, hg, if_true]
      by_cases hht : h = t
      · simp only [hht, if_true, stripPrefix]
        rw [← hht] at *
        simp only [hrec]
        cases stripPrefix ts l <;> simp
      · simp [hht, stripPrefix]

/-- the denotation's `consume` on a ground input list and ground terminals: the same prefix
    test, no binding -/
theorem consume_ground (uf : Nat) (st : St) : ∀ (ts l : List Term),
    (∀ t ∈ l, groundT t = true) → (∀ t ∈ ts, groundT t = true) → (∀ t ∈ ts, t.size ≤ uf) →
    consume uf ts st (Term.list l Term.nilT) =
      .done ((stripPrefix ts l).map fun l' => (st, Term.list l' Term.nilT))
  | [], l, _, _, _ => by simp [consume, stripPrefix]
  | t :: ts, [], _, _, _ => by
    have : walk st.σ (Term.atom "[]") = Term.atom "[]" := walk_nonvar _ _ rfl
    simp [consume, stripPrefix, Term.list, Term.nilT, this]
  | t :: ts, h :: l, hl, hts, hsz => by
    have hg := unify_ground uf st.σ h t (hl h (by simp)) (hts t (by simp)) (hsz t (by simp))
    have hrec := consume_ground uf st ts l (fun t ht => hl t (by simp [ht]))
      (fun t ht => hts t (by simp [ht])) (fun t ht => hsz t (by simp [ht]))
    unfold consume
    rw [walk_nonvar st.σ _ (isVar_list (h :: l))]
    simp only [list_cons, hg]
    by_cases hht : h = t
    · simp [hht, stripPrefix, hrec]
    · simp [hht, stripPrefix]

/-! ### `Denotes`: an input that is a ground list under the substitution -/

theorem Denotes.ext {σ : Subst} {t : Term} {l : List Term} (h : Denotes σ t l) (Δ : Subst) :
    Denotes (Δ ++ σ) t l := by
  induction h with
  | nil hw => exact .nil (by rw [walk_append, hw]; exact walk_nonvar _ _ rfl)
  | cons hw hg _ ih => exact .cons (by rw [walk_append, hw]; exact walk_nonvar _ _ rfl) hg ih

theorem Denotes.cons_bind {σ : Subst} {t : Term} {l : List Term} (h : Denotes σ t l) (p : Nat × Term) :
    Denotes (p :: σ) t l := h.ext [p]

theorem Denotes.of_list (σ : Subst) : ∀ (l : List Term), (∀ t ∈ l, groundT t = true) →
    Denotes σ (Term.list l Term.nilT) l
  | [], _ => .nil (walk_nonvar _ _ rfl)
  | h :: l, hl =>
    .cons (walk_nonvar _ _ rfl) (hl h (by simp)) (Denotes.of_list σ l (fun t ht => hl t (by simp [ht])))

theorem Denotes.ground {σ : Subst} {t : Term} {l : List Term} (h : Denotes σ t l) :
    ∀ x ∈ l, groundT x = true := by
  induction h with
  | nil _ => intro x hx; simp at hx
  | cons _ hg _ ih =>
    intro x hx
    rcases List.mem_cons.1 hx with rfl | hx
    · exact hg
    · exact ih x hx

theorem Denotes.walk_nonvar {σ : Subst} {t : Term} {l : List Term} (h : Denotes σ t l) :
    isVar (walk σ t) = false := by
  cases h with
  | nil hw => rw [hw]; rfl
  | cons hw _ _ => rw [hw]; rfl

/-- the dereferenced term denotes the same list -/
theorem Denotes.walked {σ : Subst} {t : Term} {l : List Term} (h : Denotes σ t l) :
    Denotes σ (walk σ t) l := by
  have hn := h.walk_nonvar
  cases h with
  | nil hw => exact .nil (by rw [PrologVerif.Grammar.walk_nonvar σ _ hn, hw])
  | cons hw hg ht => exact .cons (by rw [PrologVerif.Grammar.walk_nonvar σ _ hn, hw]) hg ht

/-- a variable bound to a term that denotes `l` denotes `l` -/
theorem Denotes.of_bind {σ : Subst} {u : Term} {l : List Term} (v : Nat) (h : Denotes σ u l)
    (hu : isVar u = false) (hv : ∀ p ∈ σ, p.1 ≠ v) : Denotes ((v, u) :: σ) (.var v) l := by
  have hw : walk ((v, u) :: σ) (.var v) = u := walk_bind σ v u hv
  have h' : Denotes ((v, u) :: σ) u l := h.cons_bind _
  have hwu : walk ((v, u) :: σ) u = u := PrologVerif.Grammar.walk_nonvar _ _ hu
  cases h' with
  | nil hw' => exact .nil (by rw [hw, ← hwu, hw'])
  | cons hw' hg ht => exact .cons (by rw [hw, ← hwu, hw']) hg ht

/-- **`S0 = [t1,…,tn | S]`** when `S0` denotes the ground list `l`, the terminals are ground and `S`
    is an unbound variable: fails iff the terminals are not a prefix of `l`; otherwise binds `S`
    (and nothing else) to a non-variable term that denotes what is left -/
theorem unify_terminals_den (s : Nat) : ∀ (ts : List Term) (k : Nat) (σ : Subst) (x : Term) (l : List Term),
    Denotes σ x l → (∀ t ∈ ts, groundT t = true) → (∀ p ∈ σ, p.1 ≠ s) →
    (Term.list ts Term.nilT).size ≤ k →
    (stripPrefix ts l = none → unify k σ x (Term.list ts (.var s)) = .done none) ∧
    (∀ l', stripPrefix ts l = some l' → ∃ t', unify k σ x (Term.list ts (.var s)) = .done (some ((s, t') :: σ)) ∧
        isVar t' = false ∧ Denotes σ t' l')
  | [], k, σ, x, l, hx, _, hs, hk => by
    have : k = (k - 1) + 1 := by simp [Term.list, Term.nilT, Term.size] at hk; omega
    rw [this]
    simp only [Term.list, List.foldr_nil, stripPrefix]
    refine ⟨fun h => by simp at h, fun l' hl' => ?_⟩
    simp only [Option.some.injEq] at hl'
    subst hl'
    exact ⟨walk σ x, unify_nonvar_var (k - 1) σ x _ s rfl hx.walk_nonvar hs, hx.walk_nonvar, hx.walked⟩
  | t :: ts, 0, σ, x, l, _, _, _, hk => by
    rw [size_list_cons] at hk; omega
  | t :: ts, k + 1, σ, x, l, hx, hts, hs, hk => by
    rw [size_list_cons] at hk
    unfold unify
    rw [walk_nonvar σ (Term.list (t :: ts) (.var s)) rfl]
    cases hx with
    | nil hw =>
      rw [hw]
      simp [Term.list, Term.nilT, stripPrefix, Term.consT]
    | @cons _ h tl l hw hg htl =>
      rw [hw]
      have hg' := unify_ground k σ h t hg (hts t (by simp)) (by omega)
      have hrec := unify_terminals_den s ts k σ tl l htl (fun t ht => hts t (by simp [ht])) hs (by omega)
      simp only [list_cons, Term.consT, unifyArgsWith, hg', if_true]
      by_cases hht : h = t
      · simp only [hht, if_true, stripPrefix]
        refine ⟨fun hn => ?_, fun l' hl' => ?_⟩
        · rw [hrec.1 hn]
        · obtain ⟨t', e1, e2, e3⟩ := hrec.2 l' hl'
          exact ⟨t', by rw [e1], e2, e3⟩
      · simp [hht, stripPrefix]

end PrologVerif.Grammar
