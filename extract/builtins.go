package main

// Builtins.lean: the Register* calls of interpreter.go (name, arity, Go function) and the
// predicates that bootstrap.pl defines (heads of its clauses, read with the real parser).

import (
	"fmt"
	"go/ast"
	"go/parser"
	"go/token"
	"os"
	"path/filepath"
	"sort"
	"strconv"
	"strings"

	"github.com/ichiban/prolog"
	"github.com/ichiban/prolog/engine"
)

func init() {
	extractors = append(extractors, extractor{file: "Builtins.lean", run: genBuiltins})
}

type regCall struct {
	name  string
	arity int
	fn    string
}

func genBuiltins(repo string) (string, error) {
	fset := token.NewFileSet()
	f, err := parser.ParseFile(fset, filepath.Join(repo, "interpreter.go"), nil, 0)
	if err != nil {
		return "", err
	}
	var regs []regCall
	var bad error
	ast.Inspect(f, func(n ast.Node) bool {
		c, ok := n.(*ast.CallExpr)
		if !ok {
			return true
		}
		sel, ok := c.Fun.(*ast.SelectorExpr)
		if !ok || !strings.HasPrefix(sel.Sel.Name, "Register") {
			return true
		}
		ar, err := strconv.Atoi(strings.TrimPrefix(sel.Sel.Name, "Register"))
		if err != nil || len(c.Args) != 2 {
			bad = fmt.Errorf("unrecognised registration %s", exprSrc(c))
			return true
		}
		nameCall, ok := c.Args[0].(*ast.CallExpr)
		if !ok || len(nameCall.Args) != 1 {
			bad = fmt.Errorf("unrecognised registration name in %s", exprSrc(c))
			return true
		}
		bl, ok := nameCall.Args[0].(*ast.BasicLit)
		if !ok {
			bad = fmt.Errorf("registration name is not a literal in %s", exprSrc(c))
			return true
		}
		name, err := strconv.Unquote(bl.Value)
		if err != nil {
			bad = err
			return true
		}
		regs = append(regs, regCall{name: name, arity: ar, fn: exprSrc(c.Args[1])})
		return true
	})
	if bad != nil {
		return "", bad
	}
	if len(regs) < 50 {
		return "", fmt.Errorf("only %d Register* calls found in interpreter.go", len(regs))
	}

	// bootstrap.pl heads
	src, err := os.ReadFile(filepath.Join(repo, "bootstrap.pl"))
	if err != nil {
		return "", err
	}
	i := prolog.New(nil, nil)
	p := engine.NewParser(&i.VM, strings.NewReader(string(src)))
	type pi struct {
		name  string
		arity int
	}
	seen := map[pi]bool{}
	var boot []pi
	for p.More() {
		t, err := p.Term()
		if err != nil {
			return "", fmt.Errorf("bootstrap.pl: %v", err)
		}
		head := t
		if c, ok := t.(engine.Compound); ok && c.Functor().String() == ":-" {
			if c.Arity() == 1 {
				continue // directive
			}
			if c.Arity() == 2 {
				head = c.Arg(0)
			}
		}
		var k pi
		switch h := head.(type) {
		case engine.Atom:
			k = pi{h.String(), 0}
		case engine.Compound:
			k = pi{h.Functor().String(), h.Arity()}
			if h.Functor().String() == "-->" && h.Arity() == 2 {
				return "", fmt.Errorf("bootstrap.pl contains a DCG rule; extractor does not expand it")
			}
		default:
			return "", fmt.Errorf("bootstrap.pl: clause head %v", head)
		}
		if !seen[k] {
			seen[k] = true
			boot = append(boot, k)
		}
	}
	sort.Slice(boot, func(a, b int) bool {
		if boot[a].name != boot[b].name {
			return boot[a].name < boot[b].name
		}
		return boot[a].arity < boot[b].arity
	})

	var sb strings.Builder
	sb.WriteString("namespace PrologVerif.Generated.Builtins\n\n")
	sb.WriteString("/-- the `Register<n>` calls of interpreter.go `New`, in source order: (name, arity, Go function) -/\n")
	sb.WriteString("def registered : List (String × Nat × String) := [\n")
	for k, r := range regs {
		sep := ","
		if k == len(regs)-1 {
			sep = ""
		}
		fmt.Fprintf(&sb, "  (%s, %d, %s)%s\n", leanString(r.name), r.arity, leanString(r.fn), sep)
	}
	sb.WriteString("]\n\n")
	sb.WriteString("/-- predicates defined by the clauses of bootstrap.pl, sorted: (name, arity) -/\n")
	sb.WriteString("def bootstrapDefined : List (String × Nat) := [\n")
	for k, b := range boot {
		sep := ","
		if k == len(boot)-1 {
			sep = ""
		}
		fmt.Fprintf(&sb, "  (%s, %d)%s\n", leanString(b.name), b.arity, sep)
	}
	sb.WriteString("]\n\nend PrologVerif.Generated.Builtins\n")
	return sb.String(), nil
}
