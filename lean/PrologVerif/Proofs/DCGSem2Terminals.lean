/-
  Proofs/DCGSem2Terminals — a terminal list against the input, on the two sides of the simulation:
  the SLD side runs ONE unification `S0 = [t1,…,tn | S]`, the denotation `consume`s the terminals
  one by one (unifying each with the head of the current remainder, or — when the remainder is an
  unbound variable: generation — binding it to a new list cell).  Outcomes correspond
  (`terminals_sim`), and afterwards `S` is what the denotation says is left.
-/
import PrologVerif.Proofs.DCGSem2Unify
namespace PrologVerif.Grammar
open PrologVerif

def World.stS (W : World) : St := ⟨W.σS, W.nS⟩
def World.stD (W : World) : St := ⟨W.σD, W.nD⟩

/-! ### `X = S` with `S` an untouched variable of the SLD side -/

theorem unify_walkvar_var (k : Nat) (σ : Subst) (x : Term) (a s : Nat) (hx : walk σ x = .var a)
    (has : a ≠ s) (hs : ∀ p ∈ σ, p.1 ≠ s) :
    unify (k + 1) σ x (.var s) = .done (some ((a, .var s) :: σ)) := by
  unfold unify
  rw [hx, walk_unbound σ s hs]
  simp [has]

/-- `X = S`: the SLD side binds `S` to what `X` is (or `X`'s variable to `S`); afterwards `S` is
    what `X` was -/
theorem unify_to_hidden (k : Nat) {W : World} (hW : W.Good) {x l : Term} {s : Nat} (hx : W.Eq x l)
    (hs : ¬ W.TS s) (hlt : s < W.nS) :
    ∃ W' : World, unify (k + 1) W.σS x (.var s) = .done (some W'.σS) ∧ W'.σD = W.σD ∧ W'.nS = W.nS ∧
      W'.nD = W.nD ∧ W'.Good ∧ Step W W' (fun v => v = s) ∧ W'.Eq (.var s) l := by
  by_cases hv : isVar (walk W.σS x) = true
  · obtain ⟨a, ha⟩ : ∃ a, walk W.σS x = .var a := by
      cases h : walk W.σS x <;> simp_all [isVar]
    obtain ⟨aD, _, r⟩ := hx.var_left ha
    have has : a ≠ s := fun e => hs (e ▸ hx.touchedS ha)
    obtain ⟨g, st⟩ := World.swapS_ok hW r hs hlt
    exact ⟨W.swapS a s, unify_walkvar_var k _ x a s ha has (W.unbS hs), rfl, rfl, rfl, g, st,
      World.swapS_eq hs ha has (st.eq _ _ hx)⟩
  · have hv' : isVar (walk W.σS x) = false := by simpa using hv
    obtain ⟨g, st⟩ := World.bindS_ok hW (walk W.σS x) hs hlt
    refine ⟨W.bindS s (walk W.σS x), unify_nonvar_var k _ x _ s rfl hv' (W.unbS hs), rfl, rfl, rfl, g, st,
      World.bindS_eq hs (fun e => by rw [e] at hv'; simp [isVar] at hv') (st.eq _ _ hx)⟩

/-! ### generation: the denotation's side -/

/-- the bindings `consume` adds when the input is the unbound variable `v` and the supply is at `n`
    (newest first) -/
def genΔ : List Term → Nat → Nat → Subst
  | [], _, _ => []
  | t :: ts, v, n => genΔ ts n (n + 1) ++ [(v, Term.consT t (.var n))]

/-- the variable that is left as the remainder -/
def genLast : List Term → Nat → Nat → Nat
  | [], v, _ => v
  | _ :: ts, _, n => genLast ts n (n + 1)

theorem genLast_cons : ∀ (ts : List Term) (t : Term) (v n : Nat), genLast (t :: ts) v n = n + ts.length
  | [], _, _, _ => rfl
  | t' :: ts, t, v, n => by
    have := genLast_cons ts t' n (n + 1)
    simp only [genLast] at this ⊢
    rw [this]; simp; omega

theorem genΔ_keys : ∀ (ts : List Term) (v n : Nat) (p : Nat × Term), p ∈ genΔ ts v n →
    p.1 = v ∨ (n ≤ p.1 ∧ p.1 + 1 < n + ts.length)
  | [], _, _, p, h => by simp [genΔ] at h
  | t :: ts, v, n, p, h => by
    simp only [genΔ, List.mem_append, List.mem_singleton] at h
    rcases h with h | h
    · rcases genΔ_keys ts n (n + 1) p h with h | h
      · cases ts with
        | nil => simp [genΔ] at *
        | cons t' ts' => right; simp; omega
      · right; simp; omega
    · left; rw [h]

theorem consume_var (uf : Nat) (t : Term) (ts : List Term) (st : St) (l : Term) (v : Nat)
    (hw : walk st.σ l = .var v) :
    consume uf (t :: ts) st l =
      consume uf ts { σ := (v, Term.consT t (.var st.next)) :: st.σ, next := st.next + 1 } (.var st.next) := by
  rw [consume]
  simp only [hw]

theorem consume_cell (uf : Nat) (t : Term) (ts : List Term) (st : St) (l h tl : Term)
    (hw : walk st.σ l = .app "." (.cons h (.cons tl .nil))) :
    consume uf (t :: ts) st l =
      (match unify uf st.σ h t with
       | .out => .out
       | .done none => .done none
       | .done (some σ') => consume uf ts { st with σ := σ' } tl) := by
  rw [consume]
  simp only [hw]
  cases unify uf st.σ h t with
  | out => rfl
  | done r => cases r <;> rfl

theorem consume_other (uf : Nat) (t : Term) (ts : List Term) (st : St) (l : Term)
    (h1 : ∀ v, walk st.σ l ≠ .var v) (h2 : ∀ h tl, walk st.σ l ≠ .app "." (.cons h (.cons tl .nil))) :
    consume uf (t :: ts) st l = .done none := by
  rw [consume]
  split
  · rename_i h tl hw; exact absurd hw (h2 h tl)
  · rename_i v hw; exact absurd hw (h1 v)
  · rfl

theorem consume_gen (uf : Nat) : ∀ (ts : List Term) (t : Term) (σ : Subst) (n : Nat) (l : Term) (v : Nat),
    walk σ l = .var v → (∀ p ∈ σ, p.1 < n) → v < n →
    consume uf (t :: ts) ⟨σ, n⟩ l =
      .done (some (⟨genΔ (t :: ts) v n ++ σ, n + (ts.length + 1)⟩, .var (genLast (t :: ts) v n)))
  | [], t, σ, n, l, v, hw, _, _ => by
    rw [consume_var uf t [] ⟨σ, n⟩ l v hw]
    simp [consume, genΔ, genLast]
  | t' :: ts, t, σ, n, l, v, hw, hσ, hv => by
    rw [consume_var uf t (t' :: ts) ⟨σ, n⟩ l v hw]
    have hw' : walk ((v, Term.consT t (.var n)) :: σ) (.var n) = .var n := by
      apply walk_unbound
      intro p hp
      rcases List.mem_cons.1 hp with rfl | hp
      · simp; omega
      · have := hσ p hp; omega
    have := consume_gen uf ts t' ((v, Term.consT t (.var n)) :: σ) (n + 1) (.var n) n hw'
      (by
        intro p hp
        rcases List.mem_cons.1 hp with rfl | hp
        · simp; omega
        · have := hσ p hp; omega) (by omega)
    simp only [] at this ⊢
    rw [this]
    simp only [genΔ, genLast, List.append_assoc, List.cons_append, List.nil_append, List.length_cons]
    congr 4
    omega

theorem walk_genΔ_other (ts : List Term) (v n y : Nat) (h1 : y < n) (h2 : y ≠ v) :
    walk (genΔ ts v n) (.var y) = .var y := by
  apply walk_unbound
  intro p hp
  rcases genΔ_keys ts v n p hp with h | h
  · omega
  · omega

theorem walk_genΔ_first (t : Term) (ts : List Term) (v n : Nat) :
    walk (genΔ (t :: ts) v n) (.var v) = Term.consT t (.var n) := by
  simp only [genΔ]
  rw [walk_append, walk_bind [] v _ (by simp)]
  exact walk_nonvar _ _ rfl

theorem Sim_list_cons (W : World) (k : Nat) (tS tD : Term) (rS rD : Term)
    (h1 : Sim W k tS tD) (h2 : Sim W k rS rD) : Sim W (k + 1) (Term.consT tS rS) (Term.consT tD rD) := by
  unfold Sim
  rw [walk_nonvar _ _ rfl, walk_nonvar _ _ rfl]
  exact .app (.cons h1 (.cons h2 .nil))

/-- in a world whose denotation store ends in the generated cells, the SLD side's list pattern
    `[t… | S]` is what the generated variable is -/
theorem gen_suffix (W' : World) (s : Nat) (hs : walk W'.σS (.var s) = .var s) (k : Nat) :
    ∀ (tsS tsD : List Term), All2 (Sim W' k) tsS tsD → ∀ (v n : Nat) (σlo : Subst),
      W'.σD = genΔ tsD v n ++ σlo → (∀ p ∈ σlo, p.1 < n ∧ p.1 ≠ v) → v < n →
      W'.ρ s (genLast tsD v n) → ∀ j, j ≤ k → Sim W' j (Term.list tsS (.var s)) (.var v) := by
  intro tsS tsD h
  induction h with
  | nil =>
    intro v n σlo e hlo _ hρ j _
    cases j with
    | zero => trivial
    | succ j =>
      unfold Sim
      simp only [Term.list, List.foldr_nil]
      rw [hs, e]
      simp only [genΔ, List.nil_append]
      rw [walk_unbound σlo v (fun p hp => (hlo p hp).2)]
      exact .var hρ
  | @cons tS tD tsS tsD r _ ih =>
    intro v n σlo e hlo hv hρ j hj
    cases j with
    | zero => trivial
    | succ j =>
      have hw : walk W'.σD (.var v) = Term.consT tD (.var n) := by
        rw [e]
        simp only [genΔ, List.append_assoc, List.singleton_append]
        rw [walk_append, walk_bind σlo v _ (fun p hp => (hlo p hp).2)]
        exact walk_nonvar _ _ rfl
      unfold Sim
      rw [list_cons, walk_nonvar _ _ rfl, hw]
      refine .app (.cons (Sim.le W' (by omega) r) (.cons ?_ .nil))
      refine ih n (n + 1) ((v, Term.consT tD (.var n)) :: σlo) ?_ ?_ (by omega) hρ j (by omega)
      · rw [e]; simp [genΔ]
      · intro p hp
        rcases List.mem_cons.1 hp with rfl | hp
        · simp; omega
        · have := hlo p hp; omega

/-- the world after `S0 = [t… | S]` (SLD) resp. generating the cells (denotation), `S0` unbound -/
def World.gen (W : World) (aS : Nat) (tsS : List Term) (s : Nat) (aD : Nat) (tsD : List Term) : World :=
  { σS := (aS, Term.list tsS (.var s)) :: W.σS,
    σD := genΔ tsD aD W.nD ++ W.σD,
    ρ := fun x y => (W.ρ x y ∧ x ≠ aS) ∨ (x = s ∧ y = genLast tsD aD W.nD),
    nS := W.nS, nD := W.nD + tsD.length }

theorem World.gen_ok {W : World} (hW : W.Good) {aS aD s : Nat} (ha : W.ρ aS aD) {tS tD : Term}
    {tsS tsD : List Term} (ht : W.Eq tS tD) (hts : All2 W.Eq tsS tsD) (hs : ¬ W.TS s) (hlt : s < W.nS) :
    (W.gen aS (tS :: tsS) s aD (tD :: tsD)).Good ∧
      Step W (W.gen aS (tS :: tsS) s aD (tD :: tsD)) (fun v => v = s) ∧
      (W.gen aS (tS :: tsS) s aD (tD :: tsD)).Eq (.var s) (.var (genLast (tD :: tsD) aD W.nD)) := by
  have hsρ : ∀ y, ¬ W.ρ s y := fun y r => hs (.inr ⟨y, r⟩)
  have haD : aD < W.nD := hW.scD aD (.inr ⟨aS, ha⟩)
  have hlast : genLast (tD :: tsD) aD W.nD = W.nD + tsD.length := genLast_cons tsD tD aD W.nD
  have hsa : s ≠ aS := fun e => hsρ aD (e ▸ ha)
  have hσD : ∀ p ∈ W.σD, p.1 < W.nD := fun p hp => hW.scD _ (.inl ⟨p, hp, rfl⟩)
  have tS' : ∀ v, (W.gen aS (tS :: tsS) s aD (tD :: tsD)).TS v → W.TS v ∨ v = s := by
    intro v hv
    rcases hv with ⟨p, hp, e⟩ | ⟨b, r⟩
    · simp only [World.gen, List.mem_cons] at hp
      rcases hp with rfl | hp
      · exact .inl (.inr ⟨aD, e ▸ ha⟩)
      · exact .inl (.inl ⟨p, hp, e⟩)
    · rcases r with r | r
      · exact .inl (.inr ⟨b, r.1⟩)
      · exact .inr r.1
  have tD' : ∀ v, (W.gen aS (tS :: tsS) s aD (tD :: tsD)).TD v →
      W.TD v ∨ (W.nD ≤ v ∧ v < W.nD + (tsD.length + 1)) := by
    intro v hv
    rcases hv with ⟨p, hp, e⟩ | ⟨x, r⟩
    · simp only [World.gen, List.mem_append] at hp
      rcases hp with hp | hp
      · rcases genΔ_keys _ _ _ p hp with h | h
        · exact .inl (.inr ⟨aS, by rw [← e, h]; exact ha⟩)
        · simp only [List.length_cons] at h; exact .inr (by omega)
      · exact .inl (.inl ⟨p, hp, e⟩)
    · rcases r with r | r
      · exact .inl (.inr ⟨x, r.1⟩)
      · rw [hlast] at r; exact .inr (by omega)
  have hwS : walk (W.gen aS (tS :: tsS) s aD (tD :: tsD)).σS (.var s) = .var s := by
    apply walk_unbound
    intro p hp
    simp only [World.gen, List.mem_cons] at hp
    rcases hp with rfl | hp
    · exact fun e => hsa e.symm
    · exact W.unbS hs p hp
  have hunb : ∀ x y, (W.gen aS (tS :: tsS) s aD (tD :: tsD)).ρ x y →
      (∀ p ∈ (W.gen aS (tS :: tsS) s aD (tD :: tsD)).σS, p.1 ≠ x) ∧
      (∀ p ∈ (W.gen aS (tS :: tsS) s aD (tD :: tsD)).σD, p.1 ≠ y) := by
    intro x y r
    rcases r with r | r
    · have hy : y ≠ aD := fun e => r.2 (hW.inj _ _ _ r.1 (e ▸ ha))
      have hylt : y < W.nD := hW.scD y (.inr ⟨x, r.1⟩)
      constructor
      · intro p hp
        simp only [World.gen, List.mem_cons] at hp
        rcases hp with rfl | hp
        · exact fun e => r.2 e.symm
        · exact (hW.unb x y r.1).1 p hp
      · intro p hp
        simp only [World.gen, List.mem_append] at hp
        rcases hp with hp | hp
        · rcases genΔ_keys _ _ _ p hp with h | h
          · omega
          · omega
        · exact (hW.unb x y r.1).2 p hp
    · constructor
      · intro p hp
        simp only [World.gen, List.mem_cons] at hp
        rw [r.1]
        rcases hp with rfl | hp
        · exact fun e => hsa e.symm
        · exact W.unbS hs p hp
      · intro p hp
        simp only [World.gen, List.mem_append] at hp
        rw [r.2, hlast]
        rcases hp with hp | hp
        · rcases genΔ_keys _ _ _ p hp with h | h
          · omega
          · simp only [List.length_cons] at h; omega
        · have := hσD p hp; omega
  refine ⟨⟨?_, ?_, fun v hv => ?_, fun v hv => ?_, hunb⟩,
    ⟨?_, ⟨[(aS, Term.list (tS :: tsS) (.var s))], rfl⟩, ⟨genΔ (tD :: tsD) aD W.nD, rfl⟩, Nat.le_refl _,
      Nat.le_add_right _ _, fun v hv => ?_, fun v hv => ?_⟩, ?_⟩
  · intro x b b' h h'
    rcases h with h | h <;> rcases h' with h' | h'
    · exact hW.fn _ _ _ h.1 h'.1
    · exact absurd (h'.1 ▸ h.1) (hsρ b)
    · exact absurd (h.1 ▸ h'.1) (hsρ b')
    · rw [h.2, h'.2]
  · intro x x' b h h'
    rcases h with h | h <;> rcases h' with h' | h'
    · exact hW.inj _ _ _ h.1 h'.1
    · have := hW.scD b (.inr ⟨x, h.1⟩); rw [h'.2, hlast] at this; omega
    · have := hW.scD b (.inr ⟨x', h'.1⟩); rw [h.2, hlast] at this; omega
    · rw [h.1, h'.1]
  · rcases tS' v hv with h | h
    · exact hW.scS v h
    · subst h; exact hlt
  · show v < W.nD + (tD :: tsD).length
    rcases tD' v hv with h | h
    · have := hW.scD v h; simp; omega
    · simpa using h.2
  · refine persist (ΔS := [(aS, Term.list (tS :: tsS) (.var s))]) (ΔD := genΔ (tD :: tsD) aD W.nD) rfl rfl ?_
    intro x y r k Hk
    rw [walk_single]
    by_cases hx : x = aS
    · subst hx
      have hy : y = aD := hW.fn _ _ _ r ha
      subst hy
      simp only [if_true]
      rw [walk_genΔ_first, list_cons]
      refine .app (.cons (Hk _ _ ht) (.cons ?_ .nil))
      refine gen_suffix _ s hwS k tsS tsD (hts.imp (fun a b h => Hk a b h)) W.nD (W.nD + 1)
        ((y, Term.consT tD (.var W.nD)) :: W.σD) ?_ ?_ (by omega) ?_ k (Nat.le_refl _)
      · simp [World.gen, genΔ]
      · intro p hp
        rcases List.mem_cons.1 hp with rfl | hp
        · simp; omega
        · have := hσD p hp; omega
      · exact .inr ⟨rfl, rfl⟩
    · have hy : y ≠ aD := fun e => hx (hW.inj _ _ _ (e ▸ r) ha)
      simp only [hx, if_false]
      rw [walk_genΔ_other _ _ _ _ (hW.scD y (.inr ⟨x, r⟩)) hy]
      exact .var (.inl ⟨r, hx⟩)
  · rcases tS' v hv with h | h
    · exact .inl h
    · exact .inr (.inl h)
  · rcases tD' v hv with h | h
    · exact .inl h
    · exact .inr h.1
  · rw [World.Eq_unfold, hwS]
    have : walk (W.gen aS (tS :: tsS) s aD (tD :: tsD)).σD (.var (genLast (tD :: tsD) aD W.nD)) =
        .var (genLast (tD :: tsD) aD W.nD) := by
      apply walk_unbound
      intro p hp
      simp only [World.gen, List.mem_append] at hp
      rw [hlast]
      rcases hp with hp | hp
      · rcases genΔ_keys _ _ _ p hp with h | h
        · omega
        · simp only [List.length_cons] at h; omega
      · have := hσD p hp; omega
    rw [this]
    exact .var (.inr ⟨rfl, rfl⟩)

/-! ### the terminal list -/

/-- outcomes of `S0 = [t… | S]` and of `consume`: the SLD side is out of fuel, or both fail, or both
    succeed, in a world after `W` in which (beyond the unifications) only `S` was touched, and `S`
    is the denotation's remainder -/
def TOut (W : World) (s : Nat) : Fuel (Option Subst) → Fuel (Option (St × Term)) → Prop
  | .out, _ => True
  | .done none, .done none => True
  | .done (some σS'), .done (some (dst', r)) =>
    ∃ W' : World, W'.σS = σS' ∧ W'.nS = W.nS ∧ dst' = W'.stD ∧ W'.Good ∧ Step W W' (fun v => v = s) ∧
      W'.Eq (.var s) r
  | _, _ => False

theorem TOut.trans {W W1 : World} {s : Nat} (h1 : Step W W1 (fun _ => False)) (e1 : W1.nS = W.nS)
    {rS : Fuel (Option Subst)} {rD : Fuel (Option (St × Term))} (h : TOut W1 s rS rD) : TOut W s rS rD := by
  match rS, rD, h with
  | .out, _, _ => trivial
  | .done none, .done none, _ => trivial
  | .done (some _), .done (some (_, _)), ⟨W', a, b, c, d, e, f⟩ =>
    exact ⟨W', a, by rw [b, e1], c, d, h1.trans e (fun _ h => h.elim) (fun _ h => h), f⟩

theorem argsRel_length {R : Term → Term → Prop} {as bs : Args} (h : ArgsRel R as bs) : as.length = bs.length := by
  induction h with
  | nil => rfl
  | cons _ _ ih => simp [Args.length, ih]

theorem terminals_sim (uf : Nat) : ∀ (tsS tsD : List Term) (k : Nat), k ≤ uf → ∀ (W : World), W.Good →
    ∀ (x l : Term), W.Eq x l → All2 W.Eq tsS tsD → ∀ (s : Nat), ¬ W.TS s → s < W.nS →
      TOut W s (unify k W.σS x (Term.list tsS (.var s))) (consume uf tsD W.stD l)
  | _, _, 0, _, _, _, _, _, _, _, _, _, _ => by simp only [unify]; trivial
  | [], _, k + 1, _, W, hW, x, l, hx, hts, s, hs, hlt => by
    cases hts
    obtain ⟨W', e, e1, e2, e3, g, st, he⟩ := unify_to_hidden k hW hx hs hlt
    simp only [Term.list, List.foldr_nil, consume, e]
    exact ⟨W', rfl, e2, by simp [World.stD, e1, e3], g, st, he⟩
  | tS :: tsS, _, k + 1, hk, W, hW, x, l, hx, hts, s, hs, hlt => by
    cases hts with
    | cons ht hts =>
      rename_i tD tsD
      have hx' := (W.Eq_unfold x l).1 hx
      unfold unify
      rw [walk_nonvar W.σS (Term.list (tS :: tsS) (.var s)) rfl]
      cases hwS : walk W.σS x with
      | var a =>
        obtain ⟨aD, hwD, r⟩ := hx.var_left hwS
        have hgen := consume_gen uf tsD tD W.σD W.nD l aD hwD
          (fun p hp => hW.scD _ (.inl ⟨p, hp, rfl⟩)) (hW.scD _ (.inr ⟨a, r⟩))
        show TOut W s _ (consume uf (tD :: tsD) ⟨W.σD, W.nD⟩ l)
        rw [hgen]
        simp only [list_cons]
        obtain ⟨g, st, he⟩ := World.gen_ok hW r ht hts hs hlt
        exact ⟨W.gen a (tS :: tsS) s aD (tD :: tsD), rfl, rfl, by simp [World.stD, World.gen], g, st, he⟩
      | app f as =>
        rw [hwS] at hx'
        revert hx'
        cases hwD : walk W.σD l with
        | app f' bs =>
          intro hx'
          cases hx' with
          | app rargs =>
            simp only [list_cons]
            by_cases hf : f = "."
            · subst hf
              simp only [if_true]
              cases rargs with
              | nil =>
                rw [consume_other uf tD tsD W.stD l (by simp [World.stD, hwD]) (by simp [World.stD, hwD])]
                simp only [unifyArgsWith]; trivial
              | cons rh rtl =>
                rename_i h h' as1 bs1
                cases rtl with
                | nil =>
                  rw [consume_other uf tD tsD W.stD l (by simp [World.stD, hwD]) (by simp [World.stD, hwD])]
                  simp only [unifyArgsWith]
                  cases unify k W.σS h tS with
                  | out => trivial
                  | done o => cases o <;> trivial
                | cons rt rrest =>
                  rename_i tl tl' as2 bs2
                  cases rrest with
                  | cons _ _ =>
                    rw [consume_other uf tD tsD W.stD l (by simp [World.stD, hwD]) (by simp [World.stD, hwD])]
                    simp only [unifyArgsWith]
                    cases unify k W.σS h tS with
                    | out => trivial
                    | done o =>
                      cases o with
                      | none => trivial
                      | some σ1 =>
                        simp only []
                        cases unify k σ1 tl (Term.list tsS (.var s)) with
                        | out => trivial
                        | done o => cases o <;> trivial
                  | nil =>
                    rw [consume_cell uf tD tsD W.stD l h' tl' (by simp [World.stD, hwD])]
                    simp only [unifyArgsWith]
                    have hu := unify_sim k uf (by omega) W hW h tS h' tD rh ht
                    match hS : unify k W.σS h tS, hD : unify uf W.stD.σ h' tD, hu with
                    | .out, _, _ => trivial
                    | .done none, .done none, _ => trivial
                    | .done (some σ1), .done (some σ1'), ⟨W1, e1, e2, e3, e4, g, st⟩ =>
                      simp only []
                      subst e1 e2
                      have hs1 : ¬ W1.TS s := st.untouched hs (fun h => h) hlt
                      have := terminals_sim uf tsS tsD k (by omega) W1 g tl tl' (st.eq _ _ rt)
                        (hts.imp (fun _ _ h => st.eq _ _ h)) s hs1 (by omega)
                      have e5 : W1.stD = { W.stD with σ := W1.σD } := by simp [World.stD, e4]
                      rw [← e5]
                      have key := TOut.trans st e3 this
                      revert key
                      cases unify k W1.σS tl (Term.list tsS (.var s)) with
                      | out => intro _; trivial
                      | done o => cases o <;> exact fun h => h
            · simp only [hf, if_false]
              rw [consume_other uf tD tsD W.stD l (by simp [World.stD, hwD])
                (by intro h tl; simp only [World.stD, hwD]; intro e; injection e with e1 _; exact hf e1)]
              trivial
        | var _ => intro hx'; cases hx'
        | atom _ => intro hx'; cases hx'
        | int _ => intro hx'; cases hx'
        | flt _ => intro hx'; cases hx'
        | str _ => intro hx'; cases hx'
      | atom c =>
        rw [hwS] at hx'
        have hwD : walk W.σD l = .atom c := by
          revert hx'; generalize walk W.σD l = w; intro hx'; cases hx'; rfl
        rw [consume_other uf tD tsD W.stD l (by simp [World.stD, hwD]) (by simp [World.stD, hwD])]
        simp [list_cons]; trivial
      | int c =>
        rw [hwS] at hx'
        have hwD : walk W.σD l = .int c := by
          revert hx'; generalize walk W.σD l = w; intro hx'; cases hx'; rfl
        rw [consume_other uf tD tsD W.stD l (by simp [World.stD, hwD]) (by simp [World.stD, hwD])]
        simp [list_cons]; trivial
      | flt c =>
        rw [hwS] at hx'
        have hwD : walk W.σD l = .flt c := by
          revert hx'; generalize walk W.σD l = w; intro hx'; cases hx'; rfl
        rw [consume_other uf tD tsD W.stD l (by simp [World.stD, hwD]) (by simp [World.stD, hwD])]
        simp [list_cons]; trivial
      | str c =>
        rw [hwS] at hx'
        have hwD : walk W.σD l = .str c := by
          revert hx'; generalize walk W.σD l = w; intro hx'; cases hx'; rfl
        rw [consume_other uf tD tsD W.stD l (by simp [World.stD, hwD]) (by simp [World.stD, hwD])]
        simp [list_cons]; trivial

end PrologVerif.Grammar
