/-
  Shapes of name tokens: whatever the input, a `letter digit` token is a small letter followed by
  alphanumerics, a `graphic` token is made of graphic characters (and the lexer's decisions about its
  first characters hold), `;` and `!` tokens are these characters, and a `quoted` token is not longer
  than the text it was read from.  Used to characterise the atoms that `needQuoted` leaves unquoted.
-/
import PrologVerif.Proofs.LexKinds
import PrologVerif.Proofs.LexTokens
set_option linter.unusedSimpArgs false
set_option linter.unusedVariables false
namespace PrologVerif.Write
open PrologVerif PrologVerif.Lexer

variable (cfg : Cfg)

/-! ## letter-digit tokens -/

theorem LDName.snoc {v : List Char} {r : Char} (h : LDName cfg v) (hr : isAlphanumericChar cfg r = true) :
    LDName cfg (v ++ [r]) := by
  obtain ⟨c, w, rfl, h1, h2, h3⟩ := h
  refine ⟨c, w ++ [r], by simp, h1, h2, ?_⟩
  intro x hx
  simp at hx
  rcases hx with hx | hx
  · exact h3 x hx
  · subst hx; exact hr

theorem letterDigitToken_shape (fuel : Nat) (l : Lexer) (h : LDName cfg l.chunk) :
    ∀ t l', letterDigitToken cfg fuel l = .ok (t, l') → LDName cfg t.val := by
  induction fuel generalizing l with
  | zero => intro t l' e; simp [letterDigitToken] at e
  | succ fuel ih =>
    intro t l' e
    rcases l with ⟨hist, rest, chunk, ring⟩
    cases rest with
    | nil =>
      simp only [letterDigitToken, next, rawNext, emit, Except.ok.injEq, Prod.mk.injEq] at e
      rw [← e.1]; exact h
    | cons c2 rest =>
      simp only [letterDigitToken, next, rawNext] at e
      split at e
      · rename_i hr
        exact ih _ (by simp only [accept]; exact h.snoc cfg hr) t l' e
      · simp only [emit, Except.ok.injEq, Prod.mk.injEq] at e
        rw [← e.1]
        simp only [backup]
        exact h

/-! ## graphic tokens -/

/-- shape of a graphic token, with the lexer's decisions about its first characters -/
def GShape (v : List Char) : Prop :=
  ∃ c w, v = c :: w ∧ (∀ x ∈ c :: w, isGraphicOrBs x = true) ∧ isLayoutChar cfg c = false ∧
    isSmallLetterChar cfg c = false ∧ (c = '/' → w.head? ≠ some '*') ∧
    (c = '.' → ∀ c2 w2, w = c2 :: w2 → isLayoutChar cfg c2 = false)

/-- what `graphicToken` needs to know when it starts: the chunk so far has the shape, and if it is
    just `/` or `.` the next character has been looked at by the caller -/
def GPre (l : Lexer) : Prop :=
  GShape cfg l.chunk ∧
  ∀ c, l.chunk = [c] → ∀ c2, l.rest.head? = some c2 →
    (c = '/' → cfg.conv c2 ≠ '*') ∧ (c = '.' → isLayoutChar cfg (cfg.conv c2) = false)

theorem graphicToken_shape (fuel : Nat) (l : Lexer) (h : GPre cfg l) :
    ∀ t l', graphicToken cfg fuel l = .ok (t, l') → GShape cfg t.val := by
  induction fuel generalizing l with
  | zero => intro t l' e; simp [graphicToken] at e
  | succ fuel ih =>
    intro t l' e
    rcases l with ⟨hist, rest, chunk, ring⟩
    cases rest with
    | nil =>
      simp only [graphicToken, next, rawNext, emit, Except.ok.injEq, Prod.mk.injEq] at e
      rw [← e.1]; exact h.1
    | cons c2 rest =>
      simp only [graphicToken, next, rawNext] at e
      split at e
      · rename_i hr
        refine ih _ ?_ t l' e
        obtain ⟨⟨c, w, hcw, hg, h1, h2, h3, h4⟩, hpre⟩ := h
        simp only at hcw hpre
        subst hcw
        have hgr : isGraphicOrBs (cfg.conv c2) = true := by
          simp only [isGraphicOrBs, Bool.or_eq_true, decide_eq_true_eq]; exact hr
        refine ⟨⟨c, w ++ [cfg.conv c2], by simp [accept], ?_, h1, h2, ?_, ?_⟩, ?_⟩
        · intro x hx
          simp at hx
          rcases hx with hx | hx | hx
          · exact hg x (by simp [hx])
          · exact hg x (by simp [hx])
          · subst hx; exact hgr
        · intro hc
          cases w with
          | nil => simpa using (hpre c rfl c2 rfl).1 hc
          | cons x w => simpa using h3 hc
        · intro hc d2 w2 hw
          cases w with
          | nil =>
            simp at hw
            rw [← hw.1]
            exact (hpre c rfl c2 rfl).2 hc
          | cons x w =>
            simp at hw
            exact h4 hc x w rfl |> fun hx => by rw [← hw.1]; exact hx
        · intro c' hc'
          simp [accept] at hc'
      · simp only [emit, Except.ok.injEq, Prod.mk.injEq] at e
        rw [← e.1]
        simp only [backup]
        exact h.1

/-! ## quoted tokens are not longer than the text they were read from -/

/-- accepted + remaining never grows -/
def Acc (l l' : Lexer) : Prop := l'.chunk.length + l'.rest.length ≤ l.chunk.length + l.rest.length

theorem octalEscapeSequence_acc (fuel : Nat) (l : Lexer) :
    ∀ e l', octalEscapeSequence fuel l = .ok (e, l') → Acc l l' := by
  induction fuel generalizing l with
  | zero => intro e l' h; simp [octalEscapeSequence] at h
  | succ fuel ih =>
    intro e l' h
    rcases l with ⟨hist, rest, chunk, ring⟩
    cases rest with
    | nil => simp [octalEscapeSequence, rawNext] at h
    | cons c rest =>
      simp only [octalEscapeSequence, rawNext] at h
      repeat' split at h
      all_goals first
        | (have := ih _ e l' h; simp only [Acc, accept, List.length_append, List.length_cons, List.length_nil] at this ⊢; omega)
        | (simp only [Except.ok.injEq, Prod.mk.injEq] at h; rw [← h.2]; simp [Acc, accept]; omega)

theorem hexadecimalEscapeLoop_acc (fuel : Nat) (l : Lexer) :
    ∀ e l', hexadecimalEscapeLoop cfg fuel l = .ok (e, l') → Acc l l' := by
  induction fuel generalizing l with
  | zero => intro e l' h; simp [hexadecimalEscapeLoop] at h
  | succ fuel ih =>
    intro e l' h
    rcases l with ⟨hist, rest, chunk, ring⟩
    cases rest with
    | nil => simp [hexadecimalEscapeLoop, next, rawNext] at h
    | cons c rest =>
      simp only [hexadecimalEscapeLoop, next, rawNext] at h
      repeat' split at h
      all_goals first
        | (have := ih _ e l' h; simp only [Acc, accept, List.length_append, List.length_cons, List.length_nil] at this ⊢; omega)
        | (simp only [Except.ok.injEq, Prod.mk.injEq] at h; rw [← h.2]; simp [Acc, accept]; omega)

theorem escapeSequence_acc (fuel : Nat) (l : Lexer) :
    ∀ e l', escapeSequence cfg fuel l = .ok (e, l') → Acc l l' := by
  intro e l' h
  rcases l with ⟨hist, rest, chunk, ring⟩
  cases rest with
  | nil => simp [escapeSequence, rawNext] at h
  | cons c rest =>
    simp only [escapeSequence, rawNext] at h
    repeat' split at h
    · simp only [Except.ok.injEq, Prod.mk.injEq] at h; rw [← h.2]; simp [Acc, accept]; omega
    · have := octalEscapeSequence_acc _ _ e l' h
      simp only [Acc, accept, List.length_append, List.length_cons, List.length_nil] at this ⊢; omega
    · -- hexadecimal
      cases rest with
      | nil => simp [hexadecimalEscapeSequence, rawNext, accept] at h
      | cons c2 rest =>
        simp only [hexadecimalEscapeSequence, rawNext, accept] at h
        split at h
        · have := hexadecimalEscapeLoop_acc cfg _ _ e l' h
          simp only [Acc, accept, List.length_append, List.length_cons, List.length_nil] at this ⊢; omega
        · simp only [Except.ok.injEq, Prod.mk.injEq] at h; rw [← h.2]; simp [Acc, accept]; omega
    · simp only [Except.ok.injEq, Prod.mk.injEq] at h; rw [← h.2]; simp [Acc, accept]; omega

theorem quotedToken_acc (fuel : Nat) (l : Lexer) :
    ∀ t l', quotedToken cfg fuel l = .ok (t, l') →
      t.val.length + l'.rest.length ≤ l.chunk.length + l.rest.length := by
  induction fuel generalizing l with
  | zero => intro t l' h; simp [quotedToken] at h
  | succ fuel ih =>
    intro t l' h
    rcases l with ⟨hist, rest, chunk, ring⟩
    have fin : ∀ (l0 : Lexer), finishQuoted l0 = .ok (t, l') →
        t.val.length + l'.rest.length = l0.chunk.length + l0.rest.length := by
      intro l0 h0
      unfold finishQuoted at h0
      split at h0 <;> (simp only [emit, Except.ok.injEq, Prod.mk.injEq] at h0; rw [← h0.1, ← h0.2])
    have esc : ∀ (X : Lexer), escThen (escapeSequence cfg fuel X) (emit .invalid) (quotedToken cfg fuel) = .ok (t, l') →
        t.val.length + l'.rest.length ≤ X.chunk.length + X.rest.length := by
      intro X hX
      unfold escThen at hX
      split at hX
      · cases hX
      · rename_i l1 he
        have := escapeSequence_acc cfg _ _ _ _ he
        simp only [emit, Except.ok.injEq, Prod.mk.injEq] at hX
        rw [← hX.1, ← hX.2]; exact this
      · rename_i l1 he
        have h1 := escapeSequence_acc cfg _ _ _ _ he
        have h2 := ih l1 t l' hX
        unfold Acc at h1; omega
    cases rest with
    | nil => simp [quotedToken, rawNext] at h
    | cons c rest =>
      simp only [quotedToken, rawNext] at h
      split at h
      · have := ih _ t l' h
        simp only [accept, List.length_append, List.length_cons, List.length_nil] at this ⊢; omega
      · split at h
        · cases rest with
          | nil =>
            simp only [accept, rawNext] at h
            have := fin _ h
            simp only [List.length_append, List.length_cons, List.length_nil] at this ⊢; omega
          | cons c2 rest =>
            simp only [accept, rawNext] at h
            split at h
            · have := ih _ t l' h
              simp only [accept, List.length_append, List.length_cons, List.length_nil] at this ⊢; omega
            · have := fin _ h
              simp only [backup, List.length_append, List.length_cons, List.length_nil] at this ⊢; omega
        · split at h
          · cases rest with
            | nil =>
              simp only [accept, rawNext] at h
              have := esc _ h
              simp only [List.length_append, List.length_cons, List.length_nil] at this ⊢; omega
            | cons c2 rest =>
              simp only [accept, rawNext] at h
              split at h
              · have := ih _ t l' h
                simp only [accept, List.length_append, List.length_cons, List.length_nil] at this ⊢; omega
              · have := esc _ h
                simp only [backup, List.length_append, List.length_cons, List.length_nil] at this ⊢; omega
          · simp only [emit, Except.ok.injEq, Prod.mk.injEq] at h
            rw [← h.1, ← h.2]
            simp [accept]; omega

/-! ## `token` and `Token()` -/

/-- what is known about a name token delivered from a text of `n` remaining runes -/
def TokShape (n : Nat) (t : Token) (l' : Lexer) : Prop :=
  (t.kind = .letterDigit → LDName cfg t.val) ∧ (t.kind = .graphic → GShape cfg t.val) ∧
  (t.kind = .semicolon → t.val = [';']) ∧ (t.kind = .cut → t.val = ['!']) ∧
  (t.kind = .quoted → t.val.length + l'.rest.length ≤ n)

theorem TokShape.mono {n m : Nat} {t : Token} {l' : Lexer} (h : TokShape cfg n t l') (hnm : n ≤ m) :
    TokShape cfg m t l' := by
  obtain ⟨a, b, c, d, e⟩ := h
  exact ⟨a, b, c, d, fun hk => Nat.le_trans (e hk) hnm⟩

/-- a result whose kind is none of the name kinds -/
theorem TokShape.of_kind {ks : List Kind} {r : Res} {n : Nat} {t : Token} {l' : Lexer} (hk : KindIn ks r)
    (e : r = .ok (t, l')) (h : ∀ k ∈ ks, k ≠ .letterDigit ∧ k ≠ .graphic ∧ k ≠ .semicolon ∧ k ≠ .cut ∧ k ≠ .quoted) :
    TokShape cfg n t l' := by
  obtain ⟨a, b, c, d, f⟩ := h _ (hk t l' e)
  exact ⟨fun x => absurd x a, fun x => absurd x b, fun x => absurd x c, fun x => absurd x d, fun x => absurd x f⟩

theorem soloTokenKind_facts (r : Char) :
    soloTokenKind r ≠ .letterDigit ∧ soloTokenKind r ≠ .graphic ∧ soloTokenKind r ≠ .quoted ∧
    (soloTokenKind r = .semicolon → r = ';') ∧ (soloTokenKind r = .cut → r = '!') := by
  unfold soloTokenKind
  repeat' split
  all_goals simp_all

theorem token_shape (fuel : Nat) (al : Bool) (l : Lexer) (hc : l.chunk = [])
    (hh : ∀ c, l.rest.head? = some c → isLayoutChar cfg (cfg.conv c) = false ∧ cfg.conv c ≠ '/') :
    ∀ t l', token cfg fuel al l = .ok (t, l') → TokShape cfg l.rest.length t l' := by
  intro t l' e
  rcases l with ⟨hist, rest, chunk, ring⟩
  simp only at hc
  subst hc
  cases rest with
  | nil => simp [token, next, rawNext] at e
  | cons c rest =>
    obtain ⟨hlay, hslash⟩ := hh c rfl
    simp only [token, next, rawNext] at e
    split at e
    · -- small letter
      rename_i hsm
      have hk := letterDigitToken_kind cfg _ _ t l' e
      simp only [List.mem_singleton] at hk
      refine ⟨fun _ => ?_, by simp [hk], by simp [hk], by simp [hk], by simp [hk]⟩
      exact letterDigitToken_shape cfg _ _ ⟨cfg.conv c, [], by simp [accept], hlay, hsm, by simp⟩ t l' e
    · rename_i hsm
      have hsm' : isSmallLetterChar cfg (cfg.conv c) = false := by simpa using hsm
      split at e
      · -- `.`
        rename_i hdot
        cases hw : wasEndChar cfg (accept ⟨c :: hist, rest, [], ring.read⟩ (cfg.conv c)) with
        | mk e3 l3 =>
        rw [hw] at e
        simp only at e
        by_cases he3 : e3 = true
        · rw [if_pos he3] at e
          simp only [emit, Except.ok.injEq, Prod.mk.injEq] at e
          have hl3 : l3.chunk = [cfg.conv c] := by
            cases rest with
            | nil => simp [wasEndChar, next, rawNext, accept] at hw; rw [← hw.2]
            | cons c2 rest => simp [wasEndChar, next, rawNext, accept, backup] at hw; rw [← hw.2]
          rw [← e.1]
          exact ⟨by simp, by simp, by simp, by simp, by simp⟩
        · rw [if_neg he3] at e
          cases rest with
          | nil => simp [wasEndChar, next, rawNext, accept] at hw; exact absurd hw.1 he3
          | cons c2 rest =>
            simp only [wasEndChar, next, rawNext, accept, backup, List.nil_append, Prod.mk.injEq] at hw
            obtain ⟨hw1, hw2⟩ := hw
            subst hw2
            have hend : isLayoutChar cfg (cfg.conv c2) = false := by
              rw [← hw1] at he3
              simp only [Bool.or_eq_true, decide_eq_true_eq, not_or] at he3
              simpa using he3.1
            have hk := graphicToken_kind cfg _ _ t l' e
            simp only [List.mem_singleton] at hk
            refine ⟨by simp [hk], fun _ => ?_, by simp [hk], by simp [hk], by simp [hk]⟩
            refine graphicToken_shape cfg _ _ ⟨⟨cfg.conv c, [], rfl, ?_, hlay, hsm', ?_, ?_⟩, ?_⟩ t l' e
            · intro x hx; simp at hx; subst hx; rw [hdot]; rfl
            · intro h; rw [hdot] at h; exact absurd h (by decide)
            · intro _ c2 w2 h; simp at h
            · intro c' hc' c3 hc3
              simp only [List.head?_cons, Option.some.injEq] at hc3
              subst hc3
              simp only [List.cons.injEq, and_true] at hc'
              subst hc'
              exact ⟨fun h => by rw [hdot] at h; exact absurd h (by decide), fun _ => hend⟩
      · rename_i hdot
        split at e
        · -- graphic
          rename_i hg
          have hk := graphicToken_kind cfg _ _ t l' e
          simp only [List.mem_singleton] at hk
          refine ⟨by simp [hk], fun _ => ?_, by simp [hk], by simp [hk], by simp [hk]⟩
          refine graphicToken_shape cfg _ _ ⟨⟨cfg.conv c, [], by simp [accept], ?_, hlay, hsm', ?_, ?_⟩, ?_⟩ t l' e
          · intro x hx; simp at hx; subst hx
            simp only [isGraphicOrBs, Bool.or_eq_true, decide_eq_true_eq]; exact hg
          · intro h; exact absurd h hslash
          · intro h; exact absurd h hdot
          · intro c' hc' c3 hc3
            simp only [accept, List.nil_append, List.cons.injEq, and_true] at hc'
            subst hc'
            exact ⟨fun h => absurd h hslash, fun h => absurd h hdot⟩
        · split at e
          · -- quoted
            have hk := quotedToken_kind cfg _ _ t l' e
            have hacc := quotedToken_acc cfg _ _ t l' e
            simp only [accept, List.nil_append, List.length_cons, List.length_nil] at hacc
            refine ⟨?_, ?_, ?_, ?_, fun _ => by simp only [List.length_cons]; omega⟩ <;>
              (intro hk'; rw [hk'] at hk; simp at hk)
          · split at e
            · exact TokShape.of_kind cfg (variableToken_kind cfg _ _) e (by simp)
            · split at e
              · exact TokShape.of_kind cfg (integerToken_kind cfg _ _ _) e (by simp)
              · split at e
                · exact TokShape.of_kind cfg (doubleQuotedListToken_kind cfg _ _) e (by simp)
                · split at e
                  · simp only [emit, Except.ok.injEq, Prod.mk.injEq] at e
                    rw [← e.1]
                    refine ⟨?_, ?_, ?_, ?_, ?_⟩ <;> (intro h; split at h <;> simp at h)
                  · simp only [emit, Except.ok.injEq, Prod.mk.injEq] at e
                    rw [← e.1]
                    obtain ⟨f1, f2, f3, f4, f5⟩ := soloTokenKind_facts (cfg.conv c)
                    exact ⟨fun h => absurd h f1, fun h => absurd h f2,
                      fun h => by simp [accept, f4 h], fun h => by simp [accept, f5 h], fun h => absurd h f3⟩

theorem layout_shape (fuel : Nat) :
    (∀ al l, l.chunk = [] → ∀ t l', layoutTextSequence cfg fuel al l = .ok (t, l') → TokShape cfg l.rest.length t l') ∧
    (∀ br l, l.chunk = [] → ∀ t l', commentText cfg fuel br l = .ok (t, l') → TokShape cfg l.rest.length t l') ∧
    (∀ l, l.chunk = [] → ∀ t l', commentOpen cfg fuel l = .ok (t, l') → TokShape cfg l.rest.length t l') ∧
    (∀ l, l.chunk = [] → ∀ t l', commentClose cfg fuel l = .ok (t, l') → TokShape cfg l.rest.length t l') := by
  induction fuel with
  | zero =>
    refine ⟨?_, ?_, ?_, ?_⟩ <;> intros <;> rename_i e <;>
      simp [layoutTextSequence, commentText, commentOpen, commentClose] at e
  | succ fuel ih =>
    obtain ⟨ihL, ihT, ihO, ihC⟩ := ih
    refine ⟨?_, ?_, ?_, ?_⟩
    · intro al l hc t l' e
      rcases l with ⟨hist, rest, chunk, ring⟩
      simp only at hc; subst hc
      cases rest with
      | nil => simp [layoutTextSequence, next, rawNext, token] at e
      | cons c rest =>
        simp only [layoutTextSequence, next, rawNext] at e
        split at e
        · exact (ihL _ _ rfl t l' e).mono cfg (by simp)
        · rename_i hlay
          split at e
          · exact (ihT _ _ rfl t l' e).mono cfg (by simp)
          · split at e
            · exact (ihO _ rfl t l' e).mono cfg (by simp)
            · rename_i hsl
              simp only [backup] at e
              refine (token_shape cfg _ _ _ rfl ?_ t l' e).mono cfg (by simp)
              intro c' hc'
              simp only [List.head?_cons, Option.some.injEq] at hc'
              subst hc'
              exact ⟨by simpa using hlay, hsl⟩
    · intro br l hc t l' e
      rcases l with ⟨hist, rest, chunk, ring⟩
      simp only at hc; subst hc
      cases rest with
      | nil => simp [commentText, next, rawNext] at e
      | cons c rest =>
        simp only [commentText, next, rawNext] at e
        repeat' split at e
        · exact (ihC _ rfl t l' e).mono cfg (by simp)
        · exact (ihT _ _ rfl t l' e).mono cfg (by simp)
        · exact (ihL _ _ rfl t l' e).mono cfg (by simp)
        · exact (ihT _ _ rfl t l' e).mono cfg (by simp)
    · intro l hc t l' e
      rcases l with ⟨hist, rest, chunk, ring⟩
      simp only at hc; subst hc
      have gs : GShape cfg ['/'] :=
        ⟨'/', [], rfl, by intro x hx; simp at hx; subst hx; rfl, rfl, rfl, by simp, by intro h; exact absurd h (by decide)⟩
      cases rest with
      | nil =>
        simp only [commentOpen, next, rawNext] at e
        have hk := graphicToken_kind cfg _ _ t l' e
        simp only [List.mem_singleton] at hk
        refine ⟨by simp [hk], fun _ => ?_, by simp [hk], by simp [hk], by simp [hk]⟩
        refine graphicToken_shape cfg _ _ ⟨by simpa [accept] using gs, ?_⟩ t l' e
        intro c' _ c3 hc3
        simp [accept] at hc3
      | cons c rest =>
        simp only [commentOpen, next, rawNext] at e
        split at e
        · exact (ihT _ _ rfl t l' e).mono cfg (by simp)
        · rename_i hstar
          have hk := graphicToken_kind cfg _ _ t l' e
          simp only [List.mem_singleton] at hk
          refine ⟨by simp [hk], fun _ => ?_, by simp [hk], by simp [hk], by simp [hk]⟩
          refine graphicToken_shape cfg _ _ ⟨by simpa [accept, backup] using gs, ?_⟩ t l' e
          intro c' hc' c3 hc3
          simp only [accept, backup, List.nil_append, List.cons.injEq, and_true, List.head?_cons,
            Option.some.injEq] at hc' hc3
          subst hc' hc3
          exact ⟨fun _ => hstar, fun h => absurd h (by decide)⟩
    · intro l hc t l' e
      rcases l with ⟨hist, rest, chunk, ring⟩
      simp only at hc; subst hc
      cases rest with
      | nil => simp [commentClose, next, rawNext] at e
      | cons c rest =>
        simp only [commentClose, next, rawNext] at e
        repeat' split at e
        · exact (ihL _ _ rfl t l' e).mono cfg (by simp)
        · exact (ihC _ rfl t l' e).mono cfg (by simp)
        · exact (ihT _ _ rfl t l' e).mono cfg (by simp)

/-- every token `Token()` delivers: a `letter digit` token is a small letter followed by
    alphanumerics, a `graphic` token has the shape `GShape`, … and a `quoted` token is not longer
    than the text that was left -/
theorem lexToken_shape (l : Lexer) (t : Token) (l' : Lexer) (e : lexToken cfg l = .ok (t, l')) :
    TokShape cfg l.rest.length t l' :=
  (layout_shape cfg (tokenFuel l)).1 false { l with chunk := [] } rfl t l' e

end PrologVerif.Write
