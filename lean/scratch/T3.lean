import PrologVerif.Proofs.Solutions
namespace PrologVerif.Solutions
open PrologVerif.Iter

/-- steps the producer can still take without further input from the consumer -/
def pPot (s : Sys) : Nat :=
  match s.p with
  | .await0 | .awaitMore => if 0 < s.more ∨ s.moreClosed = true then 4 else 0
  | .searching => 3
  | .failing _ => 2
  | .exiting => 1
  | .offering _ | .exited => 0

/-- steps the call in flight still needs (its own and the producer's it will trigger) -/
def cPot (s : Sys) : Nat :=
  match s.c with
  | .idle | .crashed => 0
  | .nextSend => 6
  | .nextRecv => 1

/-- the step measure: at most 8 steps per call still to be made -/
def measure (s : Sys) : Nat := 8 * s.todo.length + cPot s + pPot s

theorem measure_cStep {q : Query} {s s' : Sys} (h : Inv q s) (hs : cStep true s = some s') :
    measure s' < measure s := by
  have hsh := h.shape
  rcases s with ⟨todo, hist, out, c, env, closed, done, more, moreClosed, nextClosed, p, pos, work, perr⟩
  cases c <;> simp only [cStep] at hs
  all_goals cases p <;> simp [Shape, Quiet] at hsh
  all_goals (repeat' split at hs)
  all_goals simp at hs
  all_goals subst hs
  all_goals simp [measure, cPot, pPot, Sys.ret] <;> grind

theorem measure_pStep {q : Query} {s s' : Sys} (hs : pStep q s = some s') :
    measure s' < measure s := by
  rcases s with ⟨todo, hist, out, c, env, closed, done, more, moreClosed, nextClosed, p, pos, work, perr⟩
  cases p <;> simp only [pStep, recvMore] at hs
  all_goals (repeat' split at hs)
  all_goals simp at hs
  all_goals subst hs
  all_goals simp [measure, cPot, pPot] <;> grind

theorem cStep_idle_isSome (fix : Bool) (s : Sys) (hc : s.c = .idle) (ht : s.todo ≠ []) :
    (cStep fix s).isSome = true := by
  rcases s with ⟨todo, hist, out, c, env, closed, done, more, moreClosed, nextClosed, p, pos, work, perr⟩
  simp only at hc ht
  subst hc
  cases todo with
  | nil => exact absurd rfl ht
  | cons op rest =>
    cases op <;> simp only [cStep]
    · split <;> rfl
    · rfl
    · rfl
    · split
      · rfl
      · split <;> rfl

theorem progress' {q : Query} {s : Sys} (h : Inv q s) (hf : ¬ Finished s) :
    (cStep true s).isSome = true ∨ (pStep q s).isSome = true := by
  have hsh := h.shape
  generalize specState q s = it at hsh
  by_cases hc : s.c = .idle
  · left
    apply cStep_idle_isSome _ _ hc
    intro ht; exact hf ⟨hc, ht⟩
  · rcases s with ⟨todo, hist, out, c, env, closed, done, more, moreClosed, nextClosed, p, pos, work, perr⟩
    cases c <;> cases p <;> simp [Shape, Quiet] at hsh hc
    all_goals simp_all [cStep, pStep, recvMore, moreCap]
    split <;> rfl

theorem progress {q : Query} {s : Sys} (h : Inv q s) (hf : ¬ Finished s) : ∃ s', Step true q s s' := by
  rcases progress' h hf with h | h
  · obtain ⟨s', hs⟩ := Option.isSome_iff_exists.mp h
    exact ⟨s', Or.inl hs⟩
  · obtain ⟨s', hs⟩ := Option.isSome_iff_exists.mp h
    exact ⟨s', Or.inr hs⟩
end PrologVerif.Solutions
