/-
  The concrete `runeRingBuffer` of lexer.go (4 slots, `start`/`end` modulo 4) refines the zipper +
  ghost counters the lexer model runs on, as long as the ghost flag `sound` holds — which
  Proofs/LexerSpec.lean proves for every `Token()` call.
-/
import PrologVerif.Proofs.LexerSpec
set_option linter.unusedSimpArgs false
set_option linter.unusedVariables false
namespace PrologVerif.Lexer

/-- `runeRingBuffer`: `buf [4]rune`, `start`, `end`, and what the underlying reader still has -/
structure RuneRing where
  b0 : Char
  b1 : Char
  b2 : Char
  b3 : Char
  start : Fin 4
  end_ : Fin 4
  base : List Char

def RuneRing.get (c : RuneRing) (i : Fin 4) : Char :=
  match i with
  | 0 => c.b0 | 1 => c.b1 | 2 => c.b2 | 3 => c.b3

def RuneRing.set (c : RuneRing) (i : Fin 4) (r : Char) : RuneRing :=
  match i with
  | 0 => { c with b0 := r } | 1 => { c with b1 := r } | 2 => { c with b2 := r } | 3 => { c with b3 := r }

/-- `ReadRune`: `if b.empty() { r := base.ReadRune(); b.put(r) }; return b.get()` -/
def RuneRing.ReadRune (c : RuneRing) : Option (Char × RuneRing) :=
  if c.start = c.end_ then
    match c.base with
    | [] => none
    | r :: base =>
      let c1 := { c.set c.end_ r with end_ := c.end_ + 1, base := base }   -- put
      some (c1.get c1.start, { c1 with start := c1.start + 1 })           -- get
  else some (c.get c.start, { c with start := c.start + 1 })

/-- `UnreadRune`: `b.start--` modulo 4 -/
def RuneRing.UnreadRune (c : RuneRing) : RuneRing := { c with start := c.start - 1 }

/-- the runes between `start` and `end`, in reading order -/
def RuneRing.window (c : RuneRing) : List Char :=
  (List.range (c.end_ - c.start).val).map fun i => c.get (c.start + Fin.ofNat 4 i)

/-- the `n` slots behind `start`, most recent first -/
def RuneRing.behind (c : RuneRing) (n : Nat) : List Char :=
  (List.range n).map fun i => c.get (c.start - 1 - Fin.ofNat 4 i)

/-- the zipper `l` is what the ring buffer `c` represents -/
def Abs (c : RuneRing) (l : Lexer) : Prop :=
  l.ring.pend = (c.end_ - c.start).val ∧ l.rest = c.window ++ c.base ∧
  c.behind l.ring.held = l.hist.take l.ring.held

theorem fin4_cases (i : Fin 4) : i = 0 ∨ i = 1 ∨ i = 2 ∨ i = 3 := by
  rcases i with ⟨v, hv⟩
  have : v = 0 ∨ v = 1 ∨ v = 2 ∨ v = 3 := by omega
  rcases this with rfl | rfl | rfl | rfl <;> simp

/-- `ReadRune` on the concrete buffer delivers the rune the zipper delivers, and the states still correspond -/
theorem abs_read (c : RuneRing) (l : Lexer) (ha : Abs c l) (hr : RI 0 l) :
    match rawNext l, c.ReadRune with
    | some (r, l'), some (r', c') => r = r' ∧ Abs c' l'
    | none, none => True
    | _, _ => False := by
  rcases l with ⟨hist, rest, chunk, ⟨pend, held, sound⟩⟩
  rcases c with ⟨b0, b1, b2, b3, s, e, base⟩
  obtain ⟨hs, h1, h2, h3, h4⟩ := hr
  obtain ⟨a1, a2, a3⟩ := ha
  simp only at hs h1 h2 h3 h4 a1 a2 a3
  have hh : held = 0 ∨ held = 1 ∨ held = 2 ∨ held = 3 ∨ held = 4 := by omega
  cases base <;>
  rcases fin4_cases s with rfl | rfl | rfl | rfl <;> rcases fin4_cases e with rfl | rfl | rfl | rfl <;>
    simp [RuneRing.window, RuneRing.get, List.range, List.range.loop] at a2 a1 <;> subst a1 <;>
    subst a2 <;>
    rcases hh with rfl | rfl | rfl | rfl | rfl <;>
    (first
      | (exfalso; omega)
      | (rcases hist with _ | ⟨x1, _ | ⟨x2, _ | ⟨x3, _ | ⟨x4, hist⟩⟩⟩⟩ <;>
          (first
            | (exfalso; simp at h4; done)
            | (simp [RuneRing.behind, RuneRing.get, List.range, List.range.loop] at a3
               simp_all [rawNext, RuneRing.ReadRune, Abs, RuneRing.window, RuneRing.behind, RuneRing.get,
                   RuneRing.set, Ring.read, List.range, List.range.loop] <;>
               (try (first | rfl | decide | omega))))))

/-- `UnreadRune` on the concrete buffer is the zipper's `backup`, provided one backup is in credit -/
theorem abs_unread (c : RuneRing) (l : Lexer) (ha : Abs c l) (hr : RI 1 l) :
    Abs c.UnreadRune (backup l) ∧ RI 0 (backup l) := by
  rcases l with ⟨hist, rest, chunk, ⟨pend, held, sound⟩⟩
  rcases c with ⟨b0, b1, b2, b3, s, e, base⟩
  obtain ⟨hs, h1, h2, h3, h4⟩ := hr
  obtain ⟨a1, a2, a3⟩ := ha
  simp only at hs h1 h2 h3 h4 a1 a2 a3
  have hh : held = 1 ∨ held = 2 ∨ held = 3 ∨ held = 4 := by omega
  rcases fin4_cases s with rfl | rfl | rfl | rfl <;> rcases fin4_cases e with rfl | rfl | rfl | rfl <;>
    simp [RuneRing.window, RuneRing.get, List.range, List.range.loop] at a2 a1 <;> subst a1 <;>
    rcases hh with rfl | rfl | rfl | rfl <;>
    (first
      | (exfalso; omega)
      | (rcases hist with _ | ⟨x1, _ | ⟨x2, _ | ⟨x3, _ | ⟨x4, hist⟩⟩⟩⟩ <;>
          (first
            | (exfalso; simp at h4; done)
            | (simp [RuneRing.behind, RuneRing.get, List.range, List.range.loop] at a3
               simp_all [backup, RuneRing.UnreadRune, Abs, RI, RuneRing.window, RuneRing.behind, RuneRing.get,
                   Ring.unread, List.range, List.range.loop] <;>
               (try (first | rfl | decide | omega))))))

end PrologVerif.Lexer
