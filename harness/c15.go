package main

// C15: Go values cross the API as data.
//
//   c15.args   payload  "<flag> ;; <template tokens> ;; <go values>"
//              the template is a term in canonical syntax (no operators) containing `?` placeholders;
//              run:  grab(<template>).  through Interpreter.QuerySolution with the values as arguments, and
//              the same text with every `?` replaced by the LITERAL of the value, written by the independent
//              printer below and read by the real parser without placeholders; both terms are compared
//              with ==/2 inside Prolog.
//              output   "ok <term> lit=same|differ|n/a"  |  "err few|many|convert|syntax"
//
//   c15.scan   payload  "<S|M> <dest type> ;; <answer term>"
//              run:  val(X).  (val/1 unifies X with the term) then Scan into struct{X T} (S) or map[string]T (M)
//              output   "ok <go value>"  |  "err"
//
// token syntax: n:<enc> name, i:<n> integer, f:<hex bits> float, d:<enc> double-quoted token with raw body,
//               (( open, ( open glued to the preceding name, ) [ ] , |
// value syntax: i8:-3 i16: i32: i64: i:  u8: u:  f64:<bits> f32:<bits of the widened value> s:<enc> b:true nil
//               Lint[..] Li8[..] Li64[..] Lstr[..] Lf64[..] LLint[[..],[..]] LLstr[[..]] Aint[..] Astr[..] (arrays)
//               Lu8[..] Lany[..] (element types termOf rejects)
// term syntax (c15.scan): wire format; C1:$chars A<enc> = engine.CharList, C1:$codes A<enc> = engine.CodeList

import (
	"fmt"
	"math"
	"math/rand"
	"reflect"
	"strconv"
	"strings"
	"sync"

	"github.com/ichiban/prolog"
	"github.com/ichiban/prolog/engine"
)

func init() {
	register(&stream{name: "c15.args", gen: genC15Args, run: runC15Args})
	register(&stream{name: "c15.scan", gen: genC15Scan, run: runC15Scan})
	// c15.ops: the same run as c15.args on templates WITH operators (the Lean reader model has none, so
	// there is no model output for this stream: the oracle is placeholder-vs-literal on the real code)
	register(&stream{name: "c15.ops", gen: genC15Ops, run: func(p string) string { return runC15ArgsParen(p, true) }})
}

type c15Interp struct {
	mu      sync.Mutex
	i       *prolog.Interpreter
	grabbed string      // wire of the term grab/1 received
	term    engine.Term // the term itself (resolved)
	val     engine.Term // what val/1 delivers
	vals    [3]engine.Term // what val3/3 delivers
}

var c15 struct {
	once sync.Once
	by   map[string]*c15Interp
}

func c15Get(flag string) *c15Interp {
	c15.once.Do(func() {
		c15.by = map[string]*c15Interp{}
		for _, f := range []string{"chars", "codes", "atom"} {
			ci := &c15Interp{}
			i, _ := newInterp("")
			must(i.Exec(":- set_prolog_flag(double_quotes, " + f + ")."))
			i.Register1(engine.NewAtom("grab"), func(_ *engine.VM, t engine.Term, k engine.Cont, env *engine.Env) *engine.Promise {
				ci.term = env.VerifSimplify(t)
				ci.grabbed = wire(t, env, newVarNamer())
				return k(env)
			})
			i.Register1(engine.NewAtom("val"), func(vm *engine.VM, x engine.Term, k engine.Cont, env *engine.Env) *engine.Promise {
				return engine.Unify(vm, x, ci.val, k, env)
			})
			i.Register3(engine.NewAtom("val3"), func(vm *engine.VM, x, y, z engine.Term, k engine.Cont, env *engine.Env) *engine.Promise {
				return engine.Unify(vm, engine.List(x, y, z), engine.List(ci.vals[0], ci.vals[1], ci.vals[2]), k, env)
			})
			ci.i = i
			c15.by[f] = ci
		}
	})
	return c15.by[flag]
}

// ---------------------------------------------------------------------------------------------
// tokens → text

func c15TokText(tok string) string {
	switch {
	case tok == "((" || tok == "(":
		return "("
	case tok == ")" || tok == "[" || tok == "]" || tok == "," || tok == "|":
		return tok
	case strings.HasPrefix(tok, "n:"):
		s, err := decName(tok[2:])
		must(err)
		return s // generators only use names that need no quotes
	case strings.HasPrefix(tok, "i:"):
		return tok[2:]
	case strings.HasPrefix(tok, "d:"):
		s, err := decName(tok[2:])
		must(err)
		return `"` + s + `"`
	}
	panic("bad token " + tok)
}

// c15Text renders the tokens; every `?` name token is replaced by the next element of subst (if subst != nil).
func c15Text(toks []string, subst []string) string {
	var sb strings.Builder
	k := 0
	for j, t := range toks {
		if j > 0 && t != "(" {
			sb.WriteByte(' ')
		}
		if t == "n:?" && subst != nil {
			sb.WriteString(subst[k])
			k++
			continue
		}
		sb.WriteString(c15TokText(t))
	}
	return sb.String()
}

// ---------------------------------------------------------------------------------------------
// Go values and their literals (the independent literal printer)

type c15Val struct {
	v   interface{}
	lit string // "" = no literal (termOf must reject the value)
}

func c15StringLit(s string) string {
	var sb strings.Builder
	sb.WriteByte('"')
	for _, r := range s {
		switch r {
		case '"':
			sb.WriteString(`\"`)
		case '\\':
			sb.WriteString(`\\`)
		default:
			sb.WriteRune(r)
		}
	}
	sb.WriteByte('"')
	return sb.String()
}

func c15FloatLit(f float64) string {
	if math.IsNaN(f) || math.IsInf(f, 0) {
		return ""
	}
	s := strconv.FormatFloat(math.Abs(f), 'e', -1, 64) // d.ddde±xx
	mant, exp := s, ""
	if i := strings.IndexByte(s, 'e'); i >= 0 {
		mant, exp = s[:i], s[i:]
	}
	if !strings.Contains(mant, ".") {
		mant += ".0"
	}
	s = mant + exp
	if math.Signbit(f) {
		s = "-" + s
	}
	return s
}

func c15ParseVal(s string) c15Val {
	i := strings.IndexAny(s, ":[")
	if s == "nil" {
		return c15Val{nil, ""}
	}
	if i < 0 {
		panic("bad value " + s)
	}
	if s[i] == ':' {
		kind, body := s[:i], s[i+1:]
		switch kind {
		case "i", "i8", "i16", "i32", "i64":
			n, err := strconv.ParseInt(body, 10, 64)
			must(err)
			lit := strconv.FormatInt(n, 10)
			switch kind {
			case "i":
				return c15Val{int(n), lit}
			case "i8":
				return c15Val{int8(n), lit}
			case "i16":
				return c15Val{int16(n), lit}
			case "i32":
				return c15Val{int32(n), lit}
			default:
				return c15Val{n, lit}
			}
		case "u8":
			n, err := strconv.ParseUint(body, 10, 8)
			must(err)
			return c15Val{uint8(n), ""}
		case "u":
			n, err := strconv.ParseUint(body, 10, 64)
			must(err)
			return c15Val{uint(n), ""}
		case "f64", "f32":
			b, err := strconv.ParseUint(body, 16, 64)
			must(err)
			f := math.Float64frombits(b)
			if kind == "f32" {
				return c15Val{float32(f), c15FloatLit(f)}
			}
			return c15Val{f, c15FloatLit(f)}
		case "s":
			str, err := decName(body)
			must(err)
			return c15Val{str, c15StringLit(str)}
		case "b":
			return c15Val{body == "true", ""}
		}
		panic("bad value kind " + kind)
	}
	// slices / arrays
	kind, body := s[:i], s[i+1:len(s)-1]
	elems := c15SplitTop(body)
	lits := make([]string, len(elems))
	okLit := true
	mk := func(t reflect.Type, conv func(string) (interface{}, string)) c15Val {
		var sl reflect.Value
		if kind[0] == 'A' {
			sl = reflect.New(reflect.ArrayOf(len(elems), t)).Elem()
		} else {
			sl = reflect.MakeSlice(reflect.SliceOf(t), len(elems), len(elems))
		}
		for j, e := range elems {
			v, lit := conv(e)
			if lit == "" {
				okLit = false
			}
			lits[j] = lit
			if v != nil {
				sl.Index(j).Set(reflect.ValueOf(v))
			}
		}
		lit := ""
		if okLit {
			lit = "[" + strings.Join(lits, ",") + "]"
		}
		return c15Val{sl.Interface(), lit}
	}
	prim := func(prefix string) func(string) (interface{}, string) {
		return func(e string) (interface{}, string) {
			v := c15ParseVal(prefix + e)
			return v.v, v.lit
		}
	}
	nested := func(e string) (interface{}, string) {
		v := c15ParseVal(e)
		return v.v, v.lit
	}
	switch kind {
	case "Lint", "Aint":
		return mk(reflect.TypeOf(int(0)), prim("i:"))
	case "Li8":
		return mk(reflect.TypeOf(int8(0)), prim("i8:"))
	case "Li64":
		return mk(reflect.TypeOf(int64(0)), prim("i64:"))
	case "Lstr", "Astr":
		return mk(reflect.TypeOf(""), prim("s:"))
	case "Lf64":
		return mk(reflect.TypeOf(float64(0)), prim("f64:"))
	case "Lu8":
		return mk(reflect.TypeOf(uint8(0)), prim("u8:"))
	case "LLint":
		return mk(reflect.TypeOf([]int{}), func(e string) (interface{}, string) { return nested("Lint" + e) })
	case "LLstr":
		return mk(reflect.TypeOf([]string{}), func(e string) (interface{}, string) { return nested("Lstr" + e) })
	case "Lany":
		var empty interface{}
		return mk(reflect.TypeOf(&empty).Elem(), func(e string) (interface{}, string) {
			v := c15ParseVal("i:" + e)
			return v.v, "" // termOf rejects interface-typed elements
		})
	}
	panic("bad slice kind " + kind)
}

// c15SplitTop splits "a,b,[c,d],e" at top-level commas.
func c15SplitTop(s string) []string {
	if s == "" {
		return nil
	}
	var out []string
	depth, start := 0, 0
	for i := 0; i < len(s); i++ {
		switch s[i] {
		case '[':
			depth++
		case ']':
			depth--
		case ',':
			if depth == 0 {
				out = append(out, s[start:i])
				start = i + 1
			}
		}
	}
	return append(out, s[start:])
}

// ---------------------------------------------------------------------------------------------
// c15.args

func runC15Args(payload string) string { return runC15ArgsParen(payload, false) }

// runC15ArgsParen: paren = write every literal in parentheses (needed in operator contexts, where an atom that
// is an operator, e.g. "+" under double_quotes=atom, may not be an operand unless parenthesised).
func runC15ArgsParen(payload string, paren bool) string {
	parts := strings.Split(payload, " ;; ")
	flag, toks := strings.TrimSpace(parts[0]), strings.Fields(parts[1])
	var vals []c15Val
	if len(parts) > 2 {
		for _, s := range strings.Fields(parts[2]) {
			vals = append(vals, c15ParseVal(s))
		}
	}
	ci := c15Get(flag)
	ci.mu.Lock()
	defer ci.mu.Unlock()

	args := make([]interface{}, len(vals))
	nph := 0
	for _, t := range toks {
		if t == "n:?" {
			nph++
		}
	}
	allLit := nph == len(vals)
	lits := make([]string, len(vals))
	kinds := map[string]bool{}
	for j, v := range vals {
		args[j] = v.v
		lits[j] = v.lit
		if v.lit == "" {
			allLit = false
		}
		kinds[fmt.Sprintf("%T", v.v)] = true
	}
	tags := fmt.Sprintf(" ### flag=%s nph=%d nargs=%d", flag, nph, len(vals))

	ci.grabbed, ci.term = "", nil
	// Query / QuerySolution read ONE term: text after its end token changes nothing — in particular it does
	// not make surplus arguments acceptable (chosen by the payload, so that a case replays exactly)
	h := 0
	for _, c := range []byte(payload) {
		h = (h*31 + int(c)) % 1000003
	}
	trail := []string{"", "", "", " true.", " t(?).", "\nfoo(?, ?) :- bar", " % tail", " ? . ? ."}[h%8]
	sol := ci.i.QuerySolution("grab("+c15Text(toks, nil)+") ."+trail, args...)
	if err := sol.Err(); err != nil {
		msg := err.Error()
		kind := "syntax"
		switch {
		case strings.HasPrefix(msg, "not enough arguments"):
			kind = "few"
		case strings.HasPrefix(msg, "too many arguments"):
			kind = "many"
		case strings.HasPrefix(msg, "can't convert to term"):
			kind = "convert"
		}
		return "err " + kind + tags + " nt=0 outcome=err_" + kind
	}
	apiWire, apiTerm := ci.grabbed, ci.term

	lit := "n/a"
	if allLit {
		if paren {
			for j := range lits {
				lits[j] = "( " + lits[j] + " )"
			}
		}
		p := engine.NewParser(&ci.i.VM, strings.NewReader("grab("+c15Text(toks, lits)+") ."))
		t, err := p.Term()
		if err != nil {
			lit = "differ(literal%20text%20does%20not%20parse:" + encName(err.Error()) + ")"
		} else {
			litTerm := t.(engine.Compound).Arg(0)
			if solveOnce(&ci.i.VM, compound("==", apiTerm, litTerm)) == "true" {
				lit = "same"
			} else {
				lit = "differ(" + encName(wireRaw(litTerm)) + ")"
			}
		}
	}
	nt := 0
	if nph >= 1 && lit == "same" {
		nt = 1
	}
	return "ok " + apiWire + " lit=" + lit + tags + fmt.Sprintf(" nt=%d outcome=ok", nt)
}

// interesting strings: every class the lexer distinguishes, syntax-looking text, escapes, controls
var c15Strings = []string{
	"", "a", "abc", "hello world", "?", "??", "a?b", "'", "''", `"`, `""`, `\`, `\\`, `\"`, `\n`, "\n", "\r\n", "\t", "\x00", "a\x00b",
	".", "a.", ". ", ":-", "a :- b.", "%", "% comment", "/* c */", "foo(bar)", "foo(", ")", "[", "]", "[]", "[a,b]", "{}", "|", ",", ";", "!",
	"X", "_", "_G1", "Abc", "0", "12", "-1", "1.5", "0'a", "0x1F", "- 1", "-", "+", "\\+", "=..", "a=b", "halt.", "halt. ", "'. halt. '",
	"\x01", "\x1b[0m", "\x7f", "\u0085", " ", "é", "ß", "日本語", "Ω", "∀x", " ", "\U0001F600", "\ufeff", "�", "á",
	"`", "a`b", "\\x41\\", "\\101\\", "\\e", "\\", "x\\", "\\\n", "\"\"", "\"a\"", "a\"b\\c", "'a'", "it's", "\\'", "end_of_file",
}

var c15Runes = []rune{'a', 'Z', '0', ' ', '"', '\\', '\'', '`', '.', ',', '(', ')', '[', ']', '{', '}', '|', ':', '-', '%', '?', '\n', '\t', 0, 1, 0x7f, 0x85, 0xa0, 'é', 0x2028, '日', 0x1F600, 0xfffd, '_', 'X', '!', ';', '/', '*', '+', '=', '<', '#', '&', '~', '^', '@', '$'}

func c15RandString(r *rand.Rand) string {
	switch r.Intn(4) {
	case 0:
		return pick(r, c15Strings)
	case 1:
		return pick(r, c15Strings) + pick(r, c15Strings)
	default:
		n := r.Intn(6)
		rs := make([]rune, n)
		for i := range rs {
			if r.Intn(8) == 0 {
				// any Unicode scalar
				for {
					x := rune(r.Intn(0x110000))
					if x < 0xd800 || x > 0xdfff {
						rs[i] = x
						break
					}
				}
			} else {
				rs[i] = pick(r, c15Runes)
			}
		}
		return string(rs)
	}
}

var c15Ints = map[string][]int64{
	"i8":  {0, 1, -1, 127, -128, 42, -7},
	"i16": {0, 1, -1, 32767, -32768, 300, -300},
	"i32": {0, 1, -1, 2147483647, -2147483648, 65536},
	"i64": {0, 1, -1, math.MaxInt64, math.MinInt64, 4294967296, -4294967296, 9007199254740993},
	"i":   {0, 1, -1, math.MaxInt64, math.MinInt64, 1000000, -1000000},
}

var c15Floats = []float64{0, math.Copysign(0, -1), 1, -1, 0.5, 1.5, -2.25, 0.1, 1e10, 1e-10, 123456.789, math.MaxFloat64, -math.MaxFloat64,
	math.SmallestNonzeroFloat64, -math.SmallestNonzeroFloat64, 2.2250738585072014e-308, 2.225073858507201e-308, 1e22, 1e23, 9007199254740993, 5e-324, 1.7976931348623157e308, 3.141592653589793, 2.718281828459045, 1 / 3.0}

var c15Floats32 = []float32{0, 1, -1, 0.5, 1.5, 0.1, math.MaxFloat32, math.SmallestNonzeroFloat32, 3.1415927, -2.5e-10}

func c15RandInt(r *rand.Rand, kind string) string {
	xs := c15Ints[kind]
	if r.Intn(3) == 0 {
		var n int64
		switch kind {
		case "i8":
			n = int64(int8(r.Uint64()))
		case "i16":
			n = int64(int16(r.Uint64()))
		case "i32":
			n = int64(int32(r.Uint64()))
		default:
			n = int64(r.Uint64())
		}
		return fmt.Sprintf("%s:%d", kind, n)
	}
	return fmt.Sprintf("%s:%d", kind, pick(r, xs))
}

func c15RandFloat(r *rand.Rand) float64 {
	if r.Intn(3) == 0 {
		for {
			f := math.Float64frombits(r.Uint64())
			if !math.IsNaN(f) && !math.IsInf(f, 0) {
				return f
			}
		}
	}
	return pick(r, c15Floats)
}

func c15RandVal(r *rand.Rand, depthOK bool) string {
	k := r.Intn(20)
	switch {
	case k < 7:
		return "s:" + encName(c15RandString(r))
	case k < 11:
		return c15RandInt(r, pick(r, []string{"i", "i8", "i16", "i32", "i64"}))
	case k < 13:
		return fmt.Sprintf("f64:%016x", math.Float64bits(c15RandFloat(r)))
	case k == 13:
		return fmt.Sprintf("f32:%016x", math.Float64bits(float64(pick(r, c15Floats32))))
	case k == 14:
		return pick(r, []string{"u8:3", "u:7", "b:true", "nil", "Lu8[1,2]", "Lany[1,2]", "Lany[]"})
	}
	if !depthOK {
		return "s:" + encName(c15RandString(r))
	}
	n := r.Intn(4)
	elems := make([]string, n)
	switch r.Intn(8) {
	case 0, 1:
		for i := range elems {
			elems[i] = strings.TrimPrefix(c15RandInt(r, "i"), "i:")
		}
		return pick(r, []string{"Lint", "Aint"}) + "[" + strings.Join(elems, ",") + "]"
	case 2:
		for i := range elems {
			elems[i] = strings.TrimPrefix(c15RandInt(r, "i8"), "i8:")
		}
		return "Li8[" + strings.Join(elems, ",") + "]"
	case 3:
		for i := range elems {
			elems[i] = strings.TrimPrefix(c15RandInt(r, "i64"), "i64:")
		}
		return "Li64[" + strings.Join(elems, ",") + "]"
	case 4, 5:
		for i := range elems {
			elems[i] = encName(c15RandString(r))
		}
		return pick(r, []string{"Lstr", "Astr"}) + "[" + strings.Join(elems, ",") + "]"
	case 6:
		for i := range elems {
			elems[i] = fmt.Sprintf("%016x", math.Float64bits(c15RandFloat(r)))
		}
		return "Lf64[" + strings.Join(elems, ",") + "]"
	default:
		ints := r.Intn(2) == 0
		for i := range elems {
			m := r.Intn(3)
			inner := make([]string, m)
			for j := range inner {
				if ints {
					inner[j] = strings.TrimPrefix(c15RandInt(r, "i"), "i:")
				} else {
					inner[j] = encName(c15RandString(r))
				}
			}
			elems[i] = "[" + strings.Join(inner, ",") + "]"
		}
		if ints {
			return "LLint[" + strings.Join(elems, ",") + "]"
		}
		return "LLstr[" + strings.Join(elems, ",") + "]"
	}
}

// c15RandTemplate builds a term in canonical syntax with nph placeholders (approximately).
func c15RandTemplate(r *rand.Rand, depth int, nph *int) []string {
	k := r.Intn(12)
	if depth <= 0 && k >= 7 {
		k = r.Intn(7)
	}
	switch {
	case k < 4:
		*nph++
		return []string{"n:?"}
	case k == 4:
		return []string{"n:" + pick(r, []string{"a", "foo", "b1", "[]"})}
	case k == 5:
		return []string{"i:" + strconv.Itoa(r.Intn(100))}
	case k == 6:
		return []string{"d:" + encName(pick(r, []string{"", "xy", "a b", `q\"q`, `b\\s`, "n\\n", `""`}))}
	case k < 10:
		// compound
		n := 1 + r.Intn(3)
		out := []string{"n:" + pick(r, []string{"f", "g", "point", "-"}), "("}
		for i := 0; i < n; i++ {
			if i > 0 {
				out = append(out, ",")
			}
			out = append(out, c15RandTemplate(r, depth-1, nph)...)
		}
		return append(out, ")")
	case k == 10:
		// list, maybe with a tail
		n := 1 + r.Intn(3)
		out := []string{"["}
		for i := 0; i < n; i++ {
			if i > 0 {
				out = append(out, ",")
			}
			out = append(out, c15RandTemplate(r, depth-1, nph)...)
		}
		if r.Intn(3) == 0 {
			out = append(out, "|")
			out = append(out, c15RandTemplate(r, depth-1, nph)...)
		}
		return append(out, "]")
	default:
		out := []string{"(("}
		out = append(out, c15RandTemplate(r, depth-1, nph)...)
		return append(out, ")")
	}
}

func genC15Args(r *rand.Rand, n int, tier string) []string {
	var out []string
	flags := []string{"chars", "codes", "atom"}
	// systematic part: every interesting string and number, alone, as p(?), under each flag
	for _, f := range flags {
		for _, s := range c15Strings {
			out = append(out, f+" ;; n:? ;; s:"+encName(s))
		}
		for _, kind := range []string{"i8", "i16", "i32", "i64", "i"} {
			for _, x := range c15Ints[kind] {
				out = append(out, fmt.Sprintf("%s ;; n:? ;; %s:%d", f, kind, x))
			}
		}
		for _, x := range c15Floats {
			out = append(out, fmt.Sprintf("%s ;; n:? ;; f64:%016x", f, math.Float64bits(x)))
		}
		for _, x := range c15Floats32 {
			out = append(out, fmt.Sprintf("%s ;; n:? ;; f32:%016x", f, math.Float64bits(float64(x))))
		}
	}
	for i := 0; i < n; i++ {
		f := pick(r, flags)
		nph := 0
		toks := c15RandTemplate(r, 2, &nph)
		for try := 0; nph == 0 && try < 3; try++ { // mostly templates with at least one placeholder
			toks = c15RandTemplate(r, 2, &nph)
		}
		nargs := nph
		if r.Intn(8) == 0 { // count mismatch
			nargs = nph + r.Intn(3) - 1
			if nargs < 0 {
				nargs = 0
			}
		}
		vals := make([]string, nargs)
		for j := range vals {
			vals[j] = c15RandVal(r, true)
		}
		out = append(out, f+" ;; "+strings.Join(toks, " ")+" ;; "+strings.Join(vals, " "))
	}
	return out
}

// ---------------------------------------------------------------------------------------------
// c15.scan

var c15DestTypes = map[string]reflect.Type{
	"any":        reflect.TypeOf((*interface{})(nil)).Elem(),
	"string":     reflect.TypeOf(""),
	"int":        reflect.TypeOf(int(0)),
	"int8":       reflect.TypeOf(int8(0)),
	"int16":      reflect.TypeOf(int16(0)),
	"int32":      reflect.TypeOf(int32(0)),
	"int64":      reflect.TypeOf(int64(0)),
	"float32":    reflect.TypeOf(float32(0)),
	"float64":    reflect.TypeOf(float64(0)),
	"uint":       reflect.TypeOf(uint(0)),
	"uint8":      reflect.TypeOf(uint8(0)),
	"uint16":     reflect.TypeOf(uint16(0)),
	"uint32":     reflect.TypeOf(uint32(0)),
	"uint64":     reflect.TypeOf(uint64(0)),
	"bool":       reflect.TypeOf(false),
	"[2]int":     reflect.TypeOf([2]int{}),
	"[]any":      reflect.TypeOf([]interface{}{}),
	"[]string":   reflect.TypeOf([]string{}),
	"[]int":      reflect.TypeOf([]int{}),
	"[]int8":     reflect.TypeOf([]int8{}),
	"[]int16":    reflect.TypeOf([]int16{}),
	"[]int32":    reflect.TypeOf([]int32{}),
	"[]int64":    reflect.TypeOf([]int64{}),
	"[]float64":  reflect.TypeOf([]float64{}),
	"[]float32":  reflect.TypeOf([]float32{}),
	"[]uint8":    reflect.TypeOf([]uint8{}),
	"[][]int":    reflect.TypeOf([][]int{}),
	"[][]int8":   reflect.TypeOf([][]int8{}),
	"[][]any":    reflect.TypeOf([][]interface{}{}),
	"[][]string": reflect.TypeOf([][]string{}),
}

var c15DestNames = []string{"any", "string", "int", "int8", "int16", "int32", "int64", "float32", "float64", "uint", "uint8", "uint16", "uint32", "uint64", "bool", "[2]int",
	"[]any", "[]string", "[]int", "[]int8", "[]int16", "[]int32", "[]int64", "[]float64", "[]float32", "[]uint8", "[][]int", "[][]int8", "[][]any", "[][]string"}

// c15GoVal renders a Go value canonically.
func c15GoVal(v reflect.Value) string {
	switch v.Kind() {
	case reflect.Interface:
		if v.IsNil() {
			return "nil"
		}
		return c15GoVal(v.Elem())
	case reflect.Int:
		return fmt.Sprintf("i:%d", v.Int())
	case reflect.Int8:
		return fmt.Sprintf("i8:%d", v.Int())
	case reflect.Int16:
		return fmt.Sprintf("i16:%d", v.Int())
	case reflect.Int32:
		return fmt.Sprintf("i32:%d", v.Int())
	case reflect.Int64:
		return fmt.Sprintf("i64:%d", v.Int())
	case reflect.Float64:
		return fmt.Sprintf("f64:%016x", math.Float64bits(v.Float()))
	case reflect.Float32:
		return fmt.Sprintf("f32:%016x", math.Float64bits(v.Float()))
	case reflect.String:
		return "s:" + encName(v.String())
	case reflect.Slice, reflect.Array:
		xs := make([]string, v.Len())
		for i := range xs {
			xs[i] = c15GoVal(v.Index(i))
		}
		return "[" + strings.Join(xs, ",") + "]"
	case reflect.Uint, reflect.Uint8, reflect.Uint16, reflect.Uint32, reflect.Uint64:
		return fmt.Sprintf("u:%d", v.Uint())
	case reflect.Bool:
		return fmt.Sprintf("b:%v", v.Bool())
	}
	return "other:" + encName(v.Type().String())
}

// c15Term builds the answer term; $chars/$codes markers select the string-backed list representations.
func c15Term(t engine.Term) engine.Term {
	c, ok := t.(engine.Compound)
	if !ok {
		return t
	}
	f := c.Functor().String()
	if c.Arity() == 1 && (f == "$chars" || f == "$codes") {
		s := c.Arg(0).(engine.Atom).String()
		if f == "$chars" {
			return engine.CharList(s)
		}
		return engine.CodeList(s)
	}
	args := make([]engine.Term, c.Arity())
	for i := range args {
		args[i] = c15Term(c.Arg(i))
	}
	return c.Functor().Apply(args...)
}

func runC15Scan(payload string) string {
	parts := strings.SplitN(payload, " ;; ", 2)
	hd := strings.Fields(parts[0])
	path, dname := hd[0], hd[1]
	typ, ok := c15DestTypes[dname]
	if !ok {
		panic("bad destination " + dname)
	}
	if path == "MM" {
		// several variables scanned into ONE map: every entry must be the value of ITS variable
		ps := strings.Split(payload, " ;; ")
		ci := c15Get("chars")
		ci.mu.Lock()
		defer ci.mu.Unlock()
		for k := 0; k < 3; k++ {
			d := newTermDecoder()
			ts, err := d.terms(ps[1+k])
			must(err)
			ci.vals[k] = c15Term(ts[0])
		}
		sol := ci.i.QuerySolution("val3(X, Y, Z).")
		must(sol.Err())
		m := reflect.MakeMap(reflect.MapOf(reflect.TypeOf(""), typ))
		tags := fmt.Sprintf(" ### dest=%s path=MM", strings.ReplaceAll(dname, " ", ""))
		if serr := sol.Scan(m.Interface()); serr != nil {
			return "err" + tags + " nt=0 outcome=err"
		}
		var sb strings.Builder
		sb.WriteString("ok")
		for _, name := range []string{"X", "Y", "Z"} {
			v := m.MapIndex(reflect.ValueOf(name))
			if !v.IsValid() {
				sb.WriteString(" " + name + "=missing")
			} else {
				sb.WriteString(" " + name + "=" + c15GoVal(v))
			}
		}
		return sb.String() + tags + " nt=1 outcome=ok"
	}
	d := newTermDecoder()
	ts, err := d.terms(parts[1])
	must(err)
	ci := c15Get("chars")
	ci.mu.Lock()
	defer ci.mu.Unlock()
	ci.val = c15Term(ts[0])
	rep := engine.VerifTermRep(ci.val)
	sol := ci.i.QuerySolution("val(X).")
	must(sol.Err())
	var got reflect.Value
	var serr error
	if path == "S" {
		st := reflect.New(reflect.StructOf([]reflect.StructField{{Name: "X", Type: typ}}))
		serr = sol.Scan(st.Interface())
		got = st.Elem().Field(0)
	} else {
		m := reflect.MakeMap(reflect.MapOf(reflect.TypeOf(""), typ))
		serr = sol.Scan(m.Interface())
		got = m.MapIndex(reflect.ValueOf("X"))
	}
	tags := fmt.Sprintf(" ### dest=%s path=%s rep=%s", strings.ReplaceAll(dname, " ", ""), path, rep)
	if serr != nil {
		return "err" + tags + " nt=0 outcome=err"
	}
	if !got.IsValid() {
		return "ok missing" + tags + " nt=0 outcome=missing"
	}
	return "ok " + c15GoVal(got) + tags + " nt=1 outcome=ok"
}

func c15WireList(elems []string, tail string) string {
	s := tail
	for i := len(elems) - 1; i >= 0; i-- {
		s = "C2:. " + elems[i] + " " + s
	}
	return s
}

var c15ScanInts = []int64{0, 1, -1, 44, 127, 128, -128, -129, 255, 256, 300, 32767, 32768, -32768, -32769, 65535, 65536, 2147483647, 2147483648, -2147483648, -2147483649,
	4294967295, 4294967296, 4294967340, math.MaxInt64, math.MinInt64, math.MaxInt64 - 1, math.MinInt64 + 1, 1 << 40, -(1 << 40), 1<<31 + 44, 1<<63 - 1<<8}

func c15ScanAtomTerm(r *rand.Rand) string {
	return "A" + encName(pick(r, []string{"a", "foo", "[]", "", "hello world", "é", "'", "1", "true", "nil"}))
}

func c15ScanLeaf(r *rand.Rand) string {
	switch r.Intn(10) {
	case 0, 1, 2, 3:
		if r.Intn(4) == 0 {
			return fmt.Sprintf("I%d", int64(r.Uint64())>>uint(r.Intn(64)))
		}
		return fmt.Sprintf("I%d", pick(r, c15ScanInts))
	case 4, 5:
		if r.Intn(3) == 0 {
			return fmt.Sprintf("F%016x", math.Float64bits(c15RandFloat(r)))
		}
		return fmt.Sprintf("F%016x", math.Float64bits(pick(r, []float64{0, 1, -1.5, 0.1, 1e300, -1e300, 3.4028234663852886e38, 3.4028235677973366e38, 1e-46, 16777217, 0.5, math.MaxFloat64})))
	case 6, 7:
		return c15ScanAtomTerm(r)
	case 8:
		return "V0"
	default:
		return "C1:f Aa"
	}
}

func c15ScanTerm(r *rand.Rand, depth int) string {
	k := r.Intn(10)
	if depth <= 0 || k < 5 {
		return c15ScanLeaf(r)
	}
	switch k {
	case 5, 6, 7:
		// proper list of similar leaves
		n := r.Intn(4)
		elems := make([]string, n)
		kind := r.Intn(5)
		for i := range elems {
			switch kind {
			case 0:
				elems[i] = fmt.Sprintf("I%d", pick(r, c15ScanInts))
			case 1:
				elems[i] = fmt.Sprintf("F%016x", math.Float64bits(c15RandFloat(r)))
			case 2:
				elems[i] = c15ScanAtomTerm(r)
			case 3:
				elems[i] = c15ScanTerm(r, depth-1)
			default:
				elems[i] = c15ScanLeaf(r)
			}
		}
		tail := "A%5b%5d"
		if r.Intn(8) == 0 {
			tail = pick(r, []string{"V1", "Afoo", "I3"})
		}
		return c15WireList(elems, tail)
	case 8:
		s := pick(r, []string{"a", "abc", "hi there", "é日", "x"})
		return pick(r, []string{"C1:$chars A", "C1:$codes A"}) + encName(s)
	default:
		// a list of single-character atoms / of codes built cell by cell (NOT string-backed)
		// (letters disjoint from the string-backed lists above: the model tells the two kinds apart by value)
		s := pick(r, []string{"p", "pq", "qrs"})
		var elems []string
		codes := r.Intn(2) == 0
		for _, c := range s {
			if codes {
				elems = append(elems, fmt.Sprintf("I%d", c))
			} else {
				elems = append(elems, "A"+encName(string(c)))
			}
		}
		return c15WireList(elems, "A%5b%5d")
	}
}

func genC15Scan(r *rand.Rand, n int, tier string) []string {
	var out []string
	// systematic: every integer destination × every boundary integer; float destinations × floats
	for _, d := range []string{"int", "int8", "int16", "int32", "int64", "any", "uint8", "float64", "string"} {
		for _, x := range c15ScanInts {
			out = append(out, fmt.Sprintf("S %s ;; I%d", d, x))
		}
	}
	for _, d := range []string{"[]int8", "[]int16", "[]int32", "[]any", "[][]int8"} {
		for _, x := range c15ScanInts {
			inner := c15WireList([]string{"I1", fmt.Sprintf("I%d", x)}, "A%5b%5d")
			if strings.HasPrefix(d, "[][]") {
				inner = c15WireList([]string{inner}, "A%5b%5d")
			}
			out = append(out, fmt.Sprintf("M %s ;; %s", d, inner))
		}
	}
	for i := 0; i < n/8; i++ {
		d := pick(r, c15DestNames)
		out = append(out, fmt.Sprintf("MM %s ;; %s ;; %s ;; %s", d, c15ScanFor(r, d), c15ScanFor(r, d), c15ScanFor(r, d)))
	}
	for i := 0; i < n; i++ {
		d := pick(r, c15DestNames)
		path := pick(r, []string{"S", "M"})
		term := c15ScanTerm(r, 2)
		if r.Intn(10) < 7 {
			term = c15ScanFor(r, d) // a term of the kind the destination expects (values on and around its range)
		}
		out = append(out, fmt.Sprintf("%s %s ;; %s", path, d, term))
	}
	return out
}

// c15ScanFor builds an answer of the kind destination d expects.
func c15ScanFor(r *rand.Rand, d string) string {
	if strings.HasPrefix(d, "[]") {
		n := r.Intn(4)
		elems := make([]string, n)
		for i := range elems {
			elems[i] = c15ScanFor(r, d[2:])
		}
		return c15WireList(elems, "A%5b%5d")
	}
	switch d {
	case "int", "int8", "int16", "int32", "int64", "uint", "uint8", "uint16", "uint32", "uint64", "[2]int":
		if r.Intn(4) == 0 {
			return fmt.Sprintf("I%d", int64(r.Uint64())>>uint(r.Intn(64)))
		}
		return fmt.Sprintf("I%d", pick(r, c15ScanInts))
	case "float32", "float64":
		return fmt.Sprintf("F%016x", math.Float64bits(c15RandFloat(r)))
	case "string":
		switch r.Intn(4) {
		case 0:
			return c15ScanAtomTerm(r)
		case 1:
			return "A" + encName(c15RandString(r))
		case 2:
			return pick(r, []string{"C1:$chars A", "C1:$codes A"}) + encName(pick(r, []string{"a", "abc", "hi there", "é日", "x", "a\"b"}))
		default:
			return c15WireList([]string{"Ap", "Aq"}, "A%5b%5d")
		}
	case "bool":
		return pick(r, []string{"Atrue", "Afalse"})
	default: // any
		return c15ScanTerm(r, 2)
	}
}

// ---------------------------------------------------------------------------------------------
// c15.ops: templates with operators (every operator term is parenthesised, so priorities never matter)

var c15InfixOps = []string{"=", "+", "-", "*", "/", ":-", "->", ";", ",", "=..", "is", "<", "@<", "**", "^", "mod", "//", "\\=", "==", "-->", ">=", ":"}

func c15RandOpTemplate(r *rand.Rand, depth int, nph *int) []string {
	k := r.Intn(10)
	if depth <= 0 {
		k = r.Intn(5)
	}
	switch {
	case k < 3:
		*nph++
		return []string{"n:?"}
	case k == 3:
		return []string{"n:" + pick(r, []string{"a", "foo", "[]"})}
	case k == 4:
		return []string{"i:" + strconv.Itoa(r.Intn(100))}
	case k < 8:
		op := pick(r, c15InfixOps)
		tok := "n:" + encName(op)
		if op == "," {
			tok = ","
		}
		out := []string{"(("}
		out = append(out, c15RandOpTemplate(r, depth-1, nph)...)
		out = append(out, tok)
		out = append(out, c15RandOpTemplate(r, depth-1, nph)...)
		return append(out, ")")
	case k == 8:
		out := []string{"((", "n:" + encName("\\+")}
		out = append(out, c15RandOpTemplate(r, depth-1, nph)...)
		return append(out, ")")
	default:
		out := []string{"n:" + pick(r, []string{"f", "g"}), "("}
		out = append(out, c15RandOpTemplate(r, depth-1, nph)...)
		if r.Intn(2) == 0 {
			out = append(out, ",")
			out = append(out, c15RandOpTemplate(r, depth-1, nph)...)
		}
		return append(out, ")")
	}
}

func genC15Ops(r *rand.Rand, n int, tier string) []string {
	var out []string
	flags := []string{"chars", "codes", "atom"}
	for i := 0; i < n; i++ {
		nph := 0
		toks := c15RandOpTemplate(r, 3, &nph)
		for try := 0; nph == 0 && try < 3; try++ {
			toks = c15RandOpTemplate(r, 3, &nph)
		}
		vals := make([]string, nph)
		for j := range vals {
			vals[j] = c15RandVal(r, true)
		}
		out = append(out, pick(r, flags)+" ;; "+strings.Join(toks, " ")+" ;; "+strings.Join(vals, " "))
	}
	return out
}
