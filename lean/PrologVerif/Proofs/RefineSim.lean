/-
  Refine, part 7 — the simulation relation between a configuration of the VM (environment, relevant
  variables) and a configuration of the reference interpreter (instantiated terms), and its
  preservation by the three kinds of steps: `arrive` rebinding the context variable, `=`/2, and the
  head unification of a clause activation.
-/
import PrologVerif.Proofs.RefineProg
namespace PrologVerif.Refine
open PrologVerif PrologVerif.VM PrologVerif.DecompileCompile PrologVerif.Activation
  PrologVerif.RefineITree PrologVerif.RefineRobinson

/-- the static part of the relation: `env` with its idempotent solution σ, the relevant variables
    `D` (those the pending goals and the answer template may mention), the renaming π from the VM's
    variables to the reference's, one-to-one where it matters, into the variables below `nv` -/
structure SimW (tmpl : Term) (N : Nat) (env : Env) (σ : Subst) (π : Nat → Nat) (D : Nat → Prop)
    (nv : Nat) : Prop where
  mg : MG N env σ
  chain : ChainOK env
  pos : 0 < N
  dlt : ∀ v, D v → 0 < v ∧ v < N
  inj : InjOn π (RV σ D)
  bnd : ∀ x, RV σ D x → π x < nv
  tmplD : ∀ v, tmpl.hasVar v = true → D v

/-- the image of a VM term on the reference side -/
def img (σ : Subst) (π : Nat → Nat) (t : Term) : Term := (t.subst σ).rename π

/-- all variables of `t` are relevant -/
def InD (D : Nat → Prop) (t : Term) : Prop := ∀ v, t.hasVar v = true → D v

theorem hasVar_rename_of {π : Nat → Nat} {x : Nat} : ∀ {t : Term}, t.hasVar x = true → (t.rename π).hasVar (π x) = true := by
  intro t
  refine Term.rec (motive_1 := fun t => t.hasVar x = true → (t.rename π).hasVar (π x) = true)
    (motive_2 := fun as => as.hasVar x = true → (as.rename π).hasVar (π x) = true)
    ?_ ?_ ?_ ?_ ?_ ?_ ?_ ?_ t
  · intro w h
    simp only [Term.hasVar, beq_iff_eq] at h
    subst h
    simp [Term.rename, Term.subst, Term.hasVar]
  · intro _ h; simp [Term.hasVar] at h
  · intro _ h; simp [Term.hasVar] at h
  · intro _ h; simp [Term.hasVar] at h
  · intro _ h; simp [Term.hasVar] at h
  · intro f as ih h
    simpa [Term.rename, Args.rename, Term.subst, Term.hasVar] using ih (by simpa [Term.hasVar] using h)
  · intro h; simp [Args.hasVar] at h
  · intro t ts iht ihts h
    simp only [Args.hasVar, Bool.or_eq_true] at h
    simp only [Args.rename, Args.subst, Args.hasVar, Bool.or_eq_true]
    rcases h with h | h
    · exact Or.inl (iht h)
    · exact Or.inr (ihts h)

/-- variables of an image are π-images of range variables -/
theorem img_vars {σ : Subst} {π : Nat → Nat} {D : Nat → Prop} {t : Term} (ht : InD D t) {z : Nat}
    (hz : (img σ π t).hasVar z = true) : ∃ u, RV σ D u ∧ π u = z := by
  obtain ⟨u, hu, rfl⟩ := hasVar_rename _ hz
  exact ⟨u, vars_subst_rv ht hu, rfl⟩

theorem img_vars_lt {tmpl : Term} {N : Nat} {env : Env} {σ : Subst} {π : Nat → Nat} {D : Nat → Prop} {nv : Nat}
    (h : SimW tmpl N env σ π D nv) {t : Term} (ht : InD D t) {z : Nat}
    (hz : (img σ π t).hasVar z = true) : z < nv := by
  obtain ⟨u, hu, rfl⟩ := img_vars ht hz
  exact h.bnd u hu

/-- the bound on the new renaming after a unification step -/
theorem bnd_step' {σ σ' : Subst} {π π' : Nat → Nat} {D : Nat → Prop} {nv : Nat} {a2 b2 : Term}
    {τ2 : Subst}
    (hvars : ∀ y z, (τ2 y).hasVar z = true → z = y ∨ a2.hasVar z = true ∨ b2.hasVar z = true)
    (ha2 : ∀ z, a2.hasVar z = true → z < nv) (hb2 : ∀ z, b2.hasVar z = true → z < nv)
    (hbnd : ∀ x, RV σ D x → π x < nv)
    (heq : ∀ t : Term, InD D t → (t.subst σ').rename π' = ((t.subst σ).rename π).subst τ2) :
    ∀ x, RV σ' D x → π' x < nv := by
  rintro x ⟨v, hv, hx⟩
  have h1 : (((Term.var v).subst σ').rename π').hasVar (π' x) = true := by
    simpa [Term.subst] using hasVar_rename_of hx
  rw [heq (.var v) (fun w hw => by simp only [Term.hasVar, beq_iff_eq] at hw; subst hw; exact hv)] at h1
  obtain ⟨y, hy, hz⟩ := hasVar_subst _ _ _ h1
  have hylt : y < nv := by
    obtain ⟨u, hu, rfl⟩ := hasVar_rename _ hy
    exact hbnd u ⟨v, hv, by simpa [Term.subst] using hu⟩
  rcases hvars y (π' x) hz with h | h | h
  · rw [h]; exact hylt
  · exact ha2 _ h
  · exact hb2 _ h

theorem bnd_step {σ σ' : Subst} {π π' : Nat → Nat} {D : Nat → Prop} {nv : Nat} {a2 b2 : Term}
    {n : Nat} {θ2 : List (Nat × Term)}
    (hr : Robinson.solve n [(a2, b2)] [] = .mgu θ2)
    (ha2 : ∀ z, a2.hasVar z = true → z < nv) (hb2 : ∀ z, b2.hasVar z = true → z < nv)
    (hbnd : ∀ x, RV σ D x → π x < nv)
    (heq : ∀ t : Term, InD D t → (t.subst σ').rename π' = ((t.subst σ).rename π).subst (substOf θ2)) :
    ∀ x, RV σ' D x → π' x < nv :=
  bnd_step' (solve_mgu_vars hr).2 ha2 hb2 hbnd heq

/-! ### `arrive` rebinds the context variable -/

theorem simW_rebind {tmpl : Term} {N : Nat} {env : Env} {σ : Subst} {π : Nat → Nat} {D : Nat → Prop}
    {nv : Nat} (h : SimW tmpl N env σ π D nv) (t : Term) (ht : ∀ x, t.hasVar x = false)
    (hnv : ∀ w, t ≠ .var w) :
    SimW tmpl N (env.bind 0 t) (fun u => if u = 0 then t else σ u) π D nv ∧
    ∀ g : Term, InD D g → g.subst (fun u => if u = 0 then t else σ u) = g.subst σ := by
  have hD0 : ∀ v, D v → v ≠ 0 := fun v hv => by have := (h.dlt v hv).1; omega
  have hrv : ∀ x, RV (fun u => if u = 0 then t else σ u) D x ↔ RV σ D x := by
    intro x
    constructor
    · rintro ⟨v, hv, hx⟩; exact ⟨v, hv, by simpa [hD0 v hv] using hx⟩
    · rintro ⟨v, hv, hx⟩; exact ⟨v, hv, by simpa [hD0 v hv] using hx⟩
  refine ⟨⟨mg_rebind0 h.mg h.pos t ht, chainOK_bind_nonvar h.chain 0 t hnv, h.pos, h.dlt,
    ?_, ?_, h.tmplD⟩, ?_⟩
  · intro x y hx hy; exact h.inj x y ((hrv x).1 hx) ((hrv y).1 hy)
  · intro x hx; exact h.bnd x ((hrv x).1 hx)
  · intro g hg
    exact subst_congr g _ _ (fun v hv => by simp [hD0 v (hg v hv)])

/-! ### `=`/2 -/

theorem tok_of_inD {tmpl : Term} {N : Nat} {env : Env} {σ : Subst} {π : Nat → Nat} {D : Nat → Prop}
    {nv : Nat} (h : SimW tmpl N env σ π D nv) {t : Term} (ht : InD D t) : TOk N t :=
  fun v hv => h.dlt v (ht v hv)

/-- the VM's `=`/2 succeeded and the reference found the mgu: the relation is restored -/
theorem simW_eq {tmpl : Term} {N : Nat} {env env' : Env} {σ : Subst} {π : Nat → Nat} {D : Nat → Prop}
    {nv : Nat} (h : SimW tmpl N env σ π D nv) {x y : Term} (hx : InD D x) (hy : InD D y)
    (hu : unify inner false env x y = some (env', .ok))
    {n : Nat} {θ2 : List (Nat × Term)}
    (hr : Robinson.solve n [(img σ π x, img σ π y)] [] = .mgu θ2) :
    ∃ σ' π', SimW tmpl N env' σ' π' D nv ∧
      ∀ t : Term, InD D t → img σ' π' t = (img σ π t).subst (substOf θ2) := by
  have hxT := tok_of_inD h hx
  have hyT := tok_of_inD h hy
  have hstep : MGUStep N env (fun θ => x.subst θ = y.subst θ) N env' :=
    MGUStep.of_iff (unify_spec _ _ _ _ _ _ _ hu) h.mg.eok.solBelow
      (fun θ θ' hag he => by rw [← hxT.below θ θ' hag, ← hyT.below θ θ' hag]; exact he)
  have hchain : UChain N env N env' := UChain.single hxT hyT hu
  obtain ⟨σ', π', hσ', hinj, heq⟩ := bridge_ok h.mg (Nat.le_refl N) (fun v hv => (h.dlt v hv).2) hx hy h.inj
    hstep hchain hr
  refine ⟨σ', π', ⟨hσ', hchain.chainOK h.chain, h.pos, h.dlt, hinj, ?_, h.tmplD⟩, heq⟩
  · exact bnd_step hr (fun z hz => img_vars_lt h hx hz) (fun z hz => img_vars_lt h hy hz) h.bnd heq

end PrologVerif.Refine

namespace PrologVerif.Refine
open PrologVerif PrologVerif.VM PrologVerif.DecompileCompile PrologVerif.Activation
  PrologVerif.RefineITree PrologVerif.RefineRobinson

/-! ### renaming apart: `shift nv` on the reference side, fresh activation variables on the VM side -/

mutual
  theorem shift_eq_rename (k : Nat) : ∀ t : Term, SLD.shift k t = t.rename (· + k)
    | .var _ => rfl
    | .atom _ => rfl
    | .int _ => rfl
    | .flt _ => rfl
    | .str _ => rfl
    | .app f as => by
      simp only [SLD.shift, Term.rename, Term.subst]
      rw [shiftArgs_eq_rename k as]; rfl
  theorem shiftArgs_eq_rename (k : Nat) : ∀ as : Args, SLD.shiftArgs k as = as.rename (· + k)
    | .nil => rfl
    | .cons t ts => by
      simp only [SLD.shiftArgs, Args.rename, Args.subst]
      rw [shift_eq_rename k t, shiftArgs_eq_rename k ts]; rfl
end

theorem rename_rename (ρ π : Nat → Nat) (t : Term) : (t.rename ρ).rename π = t.rename (fun v => π (ρ v)) := by
  simp only [Term.rename, Term.subst_comp]
  exact Term.subst_ext (fun v => by simp [Subst.comp, Term.subst]) t

theorem rename_congr {ρ ρ' : Nat → Nat} (t : Term) (h : ∀ v, t.hasVar v = true → ρ v = ρ' v) :
    t.rename ρ = t.rename ρ' :=
  subst_congr t _ _ (fun v hv => by rw [h v hv])

mutual
  theorem hasVar_lt_maxVar {x : Nat} : ∀ t : Term, t.hasVar x = true → x < SLD.maxVar t
    | .var w, h => by
      simp only [Term.hasVar, beq_iff_eq] at h
      subst h; simp [SLD.maxVar]
    | .atom _, h => by simp [Term.hasVar] at h
    | .int _, h => by simp [Term.hasVar] at h
    | .flt _, h => by simp [Term.hasVar] at h
    | .str _, h => by simp [Term.hasVar] at h
    | .app _ as, h => by
      simp only [SLD.maxVar]
      exact hasVarArgs_lt_maxVar as (by simpa [Term.hasVar] using h)
  theorem hasVarArgs_lt_maxVar {x : Nat} : ∀ as : Args, as.hasVar x = true → x < SLD.maxVarArgs as
    | .nil, h => by simp [Args.hasVar] at h
    | .cons t ts, h => by
      simp only [Args.hasVar, Bool.or_eq_true] at h
      simp only [SLD.maxVarArgs]
      rcases h with h | h
      · have := hasVar_lt_maxVar t h; omega
      · have := hasVarArgs_lt_maxVar ts h; omega
end

/-- the renaming of the activation: table entry `i` ↦ `Nm + i` -/
theorem renOf_fresh {tbl : List Nat} (hnd : tbl.Nodup) (Nm : Nat) {x : Nat} (hx : x ∈ tbl) :
    ∃ i, i < tbl.length ∧ tbl[i]? = some x ∧ renOf tbl (freshL Nm tbl.length) x = i + Nm := by
  obtain ⟨i, hi, rfl⟩ := List.getElem_of_mem hx
  have hren : Renames tbl (freshL Nm tbl.length) (renOf tbl (freshL Nm tbl.length)) :=
    renames_renOf hnd (by simp)
  have := hren i _ (List.getElem?_eq_getElem hi)
  rw [freshL_get Nm tbl.length i hi] at this
  exact ⟨i, hi, List.getElem?_eq_getElem hi, (Option.some.inj this).symm⟩

/-- **the activation of a clause**: the relation extended to the activation's variables, whose
    images are the clause's variables under a map κ into variables of the reference that are not in
    use (for a program clause κ = (· + nv), what `shift nv` does) -/
theorem simW_act' {tmpl : Term} {N : Nat} {env : Env} {σ : Subst} {π : Nat → Nat} {D : Nat → Prop}
    {nv : Nat} (h : SimW tmpl N env σ π D nv) {Nm : Nat} (hNm : N ≤ Nm)
    {tbl : List Nat} (hnd : tbl.Nodup) (V : Nat → Prop) (κ : Nat → Nat) (nv' : Nat)
    (hV : ∀ x, V x → x ∈ tbl) (hnv : nv ≤ nv')
    (hκ1 : ∀ x y, V x → V y → κ x = κ y → x = y)
    (hκ2 : ∀ x u, V x → RV σ D u → π u ≠ κ x)
    (hκ3 : ∀ x, V x → κ x < nv') :
    ∃ (π₁ : Nat → Nat) (D' : Nat → Prop),
      SimW tmpl (Nm + tbl.length) env σ π₁ D' nv' ∧
      (∀ v, D v → D' v) ∧
      (∀ t : Term, InD D t → img σ π₁ t = img σ π t) ∧
      (∀ t : Term, (∀ x, t.hasVar x = true → V x) →
        img σ π₁ (t.rename (renOf tbl (freshL Nm tbl.length))) = t.rename κ ∧
        InD D' (t.rename (renOf tbl (freshL Nm tbl.length)))) ∧
      (∀ v, D' v → D v ∨ ∃ x, V x ∧ v = renOf tbl (freshL Nm tbl.length) x) := by
  let ρ := renOf tbl (freshL Nm tbl.length)
  let M := Nm + tbl.length
  let π₁ : Nat → Nat := fun v => if Nm ≤ v ∧ v < M then κ (tbl.getD (v - Nm) 0) else π v
  let D' : Nat → Prop := fun v => D v ∨ ∃ x, V x ∧ v = ρ x
  have hρ : ∀ x, V x → Nm ≤ ρ x ∧ ρ x < M ∧ π₁ (ρ x) = κ x := by
    intro x hx
    obtain ⟨i, hi, hti, hri⟩ := renOf_fresh hnd Nm (hV x hx)
    have h1 : Nm ≤ ρ x := by show Nm ≤ renOf _ _ x; omega
    have h2 : ρ x < M := by show renOf _ _ x < Nm + tbl.length; omega
    refine ⟨h1, h2, ?_⟩
    show (if Nm ≤ ρ x ∧ ρ x < M then κ (tbl.getD (ρ x - Nm) 0) else π (ρ x)) = κ x
    rw [if_pos ⟨h1, h2⟩]
    have : ρ x - Nm = i := by show renOf _ _ x - Nm = i; omega
    rw [this]
    simp [List.getD, hti]
  have hσact : ∀ v, N ≤ v → σ v = .var v := fun v hv => h.mg.id_above hv
  have hrv : ∀ x, RV σ D' x ↔ RV σ D x ∨ ∃ y, V y ∧ x = ρ y := by
    intro x
    constructor
    · rintro ⟨v, hv | ⟨y, hy, rfl⟩, hx⟩
      · exact Or.inl ⟨v, hv, hx⟩
      · right
        rw [hσact _ (Nat.le_trans hNm (hρ y hy).1)] at hx
        simp only [Term.hasVar, beq_iff_eq] at hx
        exact ⟨y, hy, hx.symm⟩
    · rintro (⟨v, hv, hx⟩ | ⟨y, hy, rfl⟩)
      · exact ⟨v, Or.inl hv, hx⟩
      · exact ⟨ρ y, Or.inr ⟨y, hy, rfl⟩, by
          rw [hσact _ (Nat.le_trans hNm (hρ y hy).1)]; simp [Term.hasVar]⟩
  have hold : ∀ x, RV σ D x → x < N ∧ π₁ x = π x := by
    rintro x ⟨v, hv, hx⟩
    have hxN := (h.mg.range (h.dlt v hv).2 hx).1
    refine ⟨hxN, ?_⟩
    show (if Nm ≤ x ∧ x < M then _ else π x) = π x
    rw [if_neg (by omega)]
  refine ⟨π₁, D', ⟨h.mg.mono (by omega), h.chain, by have := h.pos; omega, ?_, ?_, ?_,
    fun v hv => Or.inl (h.tmplD v hv)⟩, fun v hv => Or.inl hv, ?_, ?_, fun v hv => hv⟩
  · rintro v (hv | ⟨x, hx, rfl⟩)
    · have := h.dlt v hv; omega
    · have := hρ x hx; have := h.pos; omega
  · intro x y hx hy hxy
    rcases (hrv x).1 hx with hx | ⟨x', hx', rfl⟩ <;> rcases (hrv y).1 hy with hy | ⟨y', hy', rfl⟩
    · rw [(hold x hx).2, (hold y hy).2] at hxy
      exact h.inj x y hx hy hxy
    · rw [(hold x hx).2, (hρ y' hy').2.2] at hxy
      exact absurd hxy (hκ2 y' x hy' hx)
    · rw [(hold y hy).2, (hρ x' hx').2.2] at hxy
      exact absurd hxy.symm (hκ2 x' y hx' hy)
    · rw [(hρ x' hx').2.2, (hρ y' hy').2.2] at hxy
      rw [hκ1 x' y' hx' hy' hxy]
  · intro x hx
    rcases (hrv x).1 hx with hx | ⟨x', hx', rfl⟩
    · rw [(hold x hx).2]; have := h.bnd x hx; omega
    · rw [(hρ x' hx').2.2]; exact hκ3 x' hx'
  · intro t ht
    simp only [img]
    exact rename_congr _ (fun x hx => (hold x (vars_subst_rv ht hx)).2)
  · intro t ht
    have hfix : (t.rename ρ).subst σ = t.rename ρ := by
      have : (t.rename ρ).subst σ = (t.rename ρ).subst (fun v => .var v) := by
        apply subst_congr
        intro v hv
        obtain ⟨x, hx, rfl⟩ := hasVar_rename t hv
        exact hσact _ (Nat.le_trans hNm (hρ x (ht x hx)).1)
      rw [this, Term.subst_id]
    refine ⟨?_, ?_⟩
    · show ((t.rename ρ).subst σ).rename π₁ = t.rename κ
      rw [hfix, rename_rename]
      exact rename_congr t (fun x hx => (hρ x (ht x hx)).2.2)
    · intro v hv
      obtain ⟨x, hx, rfl⟩ := hasVar_rename t hv
      exact Or.inr ⟨x, ht x hx, rfl⟩

theorem simW_act {tmpl : Term} {N : Nat} {env : Env} {σ : Subst} {π : Nat → Nat} {D : Nat → Prop}
    {nv : Nat} (h : SimW tmpl N env σ π D nv) {Nm : Nat} (hNm : N ≤ Nm)
    {tbl : List Nat} (hnd : tbl.Nodup) (V : Nat → Prop) (K : Nat)
    (hV : ∀ x, V x → x ∈ tbl ∧ x < K) :
    ∃ (π₁ : Nat → Nat) (D' : Nat → Prop),
      SimW tmpl (Nm + tbl.length) env σ π₁ D' (nv + K) ∧
      (∀ v, D v → D' v) ∧
      (∀ t : Term, InD D t → img σ π₁ t = img σ π t) ∧
      (∀ t : Term, (∀ x, t.hasVar x = true → V x) →
        img σ π₁ (t.rename (renOf tbl (freshL Nm tbl.length))) = SLD.shift nv t ∧
        InD D' (t.rename (renOf tbl (freshL Nm tbl.length)))) := by
  obtain ⟨π₁, D', h1, h2, h3, h4, _⟩ := simW_act' h hNm hnd V (· + nv) (nv + K) (fun x hx => (hV x hx).1)
    (Nat.le_add_right _ _) (fun x y _ _ hxy => by omega)
    (fun x u _ hu => by have := h.bnd u hu; omega) (fun x hx => by have := (hV x hx).2; omega)
  refine ⟨π₁, D', h1, h2, h3, fun t ht => ?_⟩
  rw [shift_eq_rename]
  exact h4 t ht

end PrologVerif.Refine
