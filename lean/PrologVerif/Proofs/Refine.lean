/-
  Refine — THE VM MODEL REFINES THE REFERENCE INTERPRETER (property C01) on the Horn fragment
  (stage 1, `vm_refines_sld_horn`) and on Horn clauses with cut (stage 2, `vm_refines_sld_cut`).

  For every program and query of the fragment (`HornFrag`: Horn clauses over user predicates —
  defined or not —, `true`, `=`/2, conjunctions; arbitrary argument terms; `CutFrag`: + `!`), every
  `max ≥ 1` and all fuels: if `VM.runQuery` (the trampoline over the compiled clauses, bootstrap
  loaded, query compiled by `callGoal`, run on the query shifted by 10 as `Driver.C01.vmLine` does)
  and `SLD.solveQuery` (the reference interpreter, engine cut semantics) both return, then they
  return the same answers in the same order, up to renaming of variables, and end the same way.

  Stage 3 (`vm_refines_sld_ctl`, `CtlFrag`): + `call/1`, `once/1`, `\\+`, if-then(-else), disjunction at
  the top level of bodies.  Stage 4a (`vm_refines_sld_callN`, `CallNFrag`): + `call/N`, 2 ≤ N ≤ 8.
  Stage 4b (`vm_refines_sld_ctl2`, `Ctl2Frag` = `FragS true`, the fragment the proofs work with):
  + a disjunction as a goal.  The fragments of the earlier stages are instances (`FragG.toS`).
-/
import PrologVerif.Proofs.RefineQuery
namespace PrologVerif.Refine
open PrologVerif PrologVerif.VM PrologVerif.DecompileCompile PrologVerif.Activation
  PrologVerif.RefineITree PrologVerif.RefineRobinson PrologVerif.VMScoped
  PrologVerif.Promise PrologVerif.DFSG PrologVerif.ForceDFSGConv

/-- the two ways a query ends agree (what `Driver.C01.showVMEnd` / `showEnd` print is the same) -/
def endAgree : VM.End → SLD.End → Prop
  | .exhausted, .exhausted => True
  | .more, .more => True
  | .err f1, .err f2 => f1.canon = f2.canon
  | .ball t1, .ball t2 => t1.canon = t2.canon
  | _, _ => False

/-- the state `runQuery` starts the search in -/
def startM (prog : List Term) : MS := { user := initState prog none }

theorem dbodyS_shift (fl : Bool) (k : Nat) (b : Term) : dbodyS fl (SLD.shift k b) = dbodyS fl b := by
  rw [shift_eq_rename, dbodyS_rename]

theorem queryPromise_eq {fl : Bool} (prog : List Term) (query : Term) (max : Nat) (hb : dbodyS fl query = true)
    (hw : wfT query = true) (hnv : ∀ v, query ≠ .var v) :
    ∃ cs, Forall2 (fun cl dj => CRel fl cl (qHead (SLD.shift 10 query)) dj) cs (SLD.disjuncts (SLD.shift 10 query)) ∧
    queryPromise prog (SLD.shift 10 query) max none =
      (({ id := 1, delayed := cs.map (fun cl => Thunk.clause cl
          (argList (qHead (SLD.shift 10 query))) (.collect (SLD.shift 10 query) max) [] 1) } : Pr),
       { startM prog with user := { (startM prog).user with nextId := 2 } }) := by
  unfold queryPromise
  have hb' : dbodyS fl (SLD.shift 10 query) = true := by rw [dbodyS_shift]; exact hb
  have hw' : wfT (SLD.shift 10 query) = true := by rw [shift_eq_rename, wfT_rename]; exact hw
  have hnv' : ∀ v, SLD.shift 10 query ≠ .var v := by
    intro v hv
    cases query with
    | var w => exact hnv w rfl
    | _ => simp [SLD.shift] at hv
  obtain ⟨cs, hrel, hcg⟩ := callGoal_queryM (fl := fl) (SLD.shift 10 query) (.collect (SLD.shift 10 query) max)
    { user := initState prog none } hb' hw' hnv'
  refine ⟨cs, hrel, ?_⟩
  rw [hcg]
  simp only [clausesCall, freshId, startM, initState_nextId]

/-- the side condition on the run of the VM (`fl = true`, i.e. control constructs in the fragment; it
    is empty for `fl = false`): in every thunk evaluation of the search that ends in `call(G)`, the
    goal `G` dereferences — within the model's inner fuel — to a variable or to a body of the fragment;
    the same for the goal of every `\\+ G` that is evaluated and, recursively, for the search nested
    in it (see `Good`, `ResFine`, `callOK`; `VisP`: the thunk evaluations of a search) -/
def CallsOK (fl : Bool) (F : Nat) (prog : List Term) (query : Term) (max : Nat) : Prop :=
  ∀ k, GoodP fl F k (queryPromise prog (SLD.shift 10 query) max none).1 []
    (queryPromise prog (SLD.shift 10 query) max none).2

theorem callsOK_false (F : Nat) (prog : List Term) (query : Term) (max : Nat) : CallsOK false F prog query max :=
  fun _ _ _ _ => by
    cases F with
    | zero => exact trivial
    | succ F' => exact fun hfl => by cases hfl

/-- **the search of the query**: the VM's search of the query's promise against the reference's
    `call/1` of the query -/
theorem vm_query {fl : Bool} (prog : List Term) (query : Term) (max : Nat) (hfrag : FragS fl prog query) (hmax : 0 < max)
    (F k : Nat) (sig : SigG Err) (m' : MS)
    (hd : dfsP (VM.sem F) 0 k (queryPromise prog (SLD.shift 10 query) max none).1 []
      (queryPromise prog (SLD.shift 10 query) max none).2 = some (sig, m'))
    (hgood : GoodP fl F k (queryPromise prog (SLD.shift 10 query) max none).1 []
      (queryPromise prog (SLD.shift 10 query) max none).2)
    (n : Nat) (r1 : SLD.Res)
    (hs : SLD.solveAlts false (progS prog) n 0 (SLD.maxVar query)
      ((SLD.disjuncts query).map (fun x => .frames (SLD.bodyFrames false x 0))) [] query max = some r1) :
    sig = .illScoped ∨
      (Forall2 (AnsRel (SLD.shift 10 query)) m'.user.answers.reverse r1.answers ∧
        endAgree (endOf (ForceDFSG.toRes sig)) (sldEnd r1.stop)) := by
  obtain ⟨hprog, hb, hw, hqnv, hsmall⟩ := hfrag
  let query' := SLD.shift 10 query
  let B := SLD.maxVar query
  obtain ⟨cs, hrel, hqp⟩ := queryPromise_eq prog query max hb hw hqnv
  rw [hqp] at hd hgood
  obtain ⟨hnv0, hans0⟩ := initState_nextVar prog
  have hqv : ∀ v, query'.hasVar v = true → 10 ≤ v ∧ v - 10 < B := fun v hv => qvar_bounds query hv
  have hsim0 : SimW query' 1000000 [] (fun v => .var v) (· - 10) (fun v => query'.hasVar v = true) B := by
    refine ⟨mg_nil _, chainOK_nil, by omega, ?_, ?_, ?_, fun v hv => hv⟩
    · intro v hv; have := hqv v hv; omega
    · rintro x y ⟨v, hv, hx⟩ ⟨w, hw, hy⟩ hxy
      simp only [Term.hasVar, beq_iff_eq] at hx hy
      subst hx; subst hy
      have := hqv v hv; have := hqv w hw
      have hxy' : v - 10 = w - 10 := hxy
      omega
    · rintro x ⟨v, hv, hx⟩
      simp only [Term.hasVar, beq_iff_eq] at hx
      subst hx
      exact (hqv v hv).2
  have hq : query = img (fun v => .var v) (· - 10) query' := by
    rw [img_id]; exact (unshift 10 query).symm
  have hok0 : LvOK none ([] : Lv) 0 := ⟨List.nodup_nil, fun _ h => by simp at h, .nil, fun _ h => by simp at h,
    (fun _ h => by cases h), (fun _ h => by cases h)⟩
  have hgv0 : ∀ v, query'.hasVar v = true → RV (fun v => Term.var v) (fun v => query'.hasVar v = true) v :=
    fun v hv => ⟨v, hv, by simp [Term.hasVar]⟩
  obtain ⟨hW2, hgD2, its, hits1, hits2, hitsR⟩ := call_items (fl := fl) 0 hsim0 hgv0 hrel
  have hqr : query'.rename (· - 10) = query := unshift 10 query
  rw [hqr] at hits2
  have hspec : PSpec fl none query' max prog [] 0
      ({ id := 1, delayed := cs.map (fun cl => Thunk.clause cl (argList (qHead query'))
          (.collect query' max) [] 1) } : Pr)
      { startM prog with user := { (startM prog).user with nextId := 2 } } [] r1 := by
    have := PSpec.alts (fl := fl) (mo := none) (tmpl := query') (max := max) (prog := prog) (lv := []) (its := its)
      (m := { startM prog with user := { (startM prog).user with nextId := 2 } })
      (g := qHead query') (K := .collect query' max) (env := []) (R := []) (q := query) (nv := B) (n := n) (d := 0)
      (id := 1) (r := r1)
      hans0 (by decide) (qHead_shape query')
      ⟨1000000, fun v => .var v, (· - 10), _, [], Nat.le_of_eq hnv0.symm,
        hW2, .collect rfl, .nil rfl, CutsOK.nil _, hq, hgD2, hitsR⟩ (by rw [hits2]; simpa using hs)
    rw [← hits1]
    simpa [List.map_map, Function.comp_def] using this
  rcases tp_all (tmpl := query') (max := max) (prog := prog) hprog F none k _ [] _ sig m' hd hgood 0 [] r1 hspec.toW hok0
      ⟨rfl, by show 0 < 2; omega, initState_cancelAt prog⟩ hmax with hill | hm
  · exact Or.inl hill
  · right
    obtain ⟨new, hnew, hfa, _⟩ := hm.ans
    refine ⟨by rw [hnew, List.append_nil]; exact hfa, ?_⟩
    rcases hm.stop with ⟨h1, h2, _⟩ | ⟨c, l, _, _, h3, _⟩ | ⟨h1, h2⟩ | ⟨F', c1, c2, ex, co, h1, h2⟩
    · rw [h1, h2]; trivial
    · simp [Lv.lev] at h3
    · rw [h1, h2]; trivial
    · rw [h1, h2]
      show endAgree (.err F') (.err F')
      rfl

/-! ## the theorems -/

/-- the general form: `fl = false` is the fragment of stages 1 and 2, `fl = true` adds the control
    constructs (`ctlGoal`: stages 3 and 4) -/
theorem vm_refines_sld_S {fl : Bool} (prog : List Term) (query : Term) (max : Nat)
    (hfrag : FragS fl prog query) (hmax : 0 < max)
    (f1 f2 : Nat) (as1 as2 : List Term) (e1 : VM.End) (e2 : SLD.End)
    (h1 : VM.runQuery f1 prog (Driver.C01.shiftVars 10 query) max = some (as1, e1))
    (h2 : SLD.solveQuery f2 prog query max = some (as2, e2))
    (hcalls : CallsOK fl f1 prog query max) :
    Forall2 (AnsRel (Driver.C01.shiftVars 10 query)) as1 as2 ∧ endAgree e1 e2 := by
  rw [shiftVars_eq] at h1 ⊢
  obtain ⟨k, sig, m', hd, hsig, has1, he1⟩ := vm_runQuery_conv f1 prog _ max as1 e1 h1
  obtain ⟨n, r1, hs, has2, he2⟩ := solveQuery_call prog query max f2 as2 e2 hfrag.goal hfrag.wf hfrag.nonvar h2
  rcases vm_query prog query max hfrag hmax f1 k sig m' hd (hcalls k) n r1 hs with hill | ⟨hfa, hend⟩
  · exact absurd hill hsig
  · rw [has1, has2, he1, he2]
    exact ⟨hfa, hend⟩

/-- **vm_refines_sld_cut** (stage 2; `vm_refines_sld_horn` is stage 1, the special case without cut).
    Program and query in the fragment (`CutFrag`: Horn clauses with `!` in bodies — and in the query),
    `max ≥ 1`, any fuels: if the VM
    model and the reference interpreter both return, then
    * they found the same number of answers, and the i-th answers are equal up to renaming of
      variables (`Term.canon`, as the differential streams compare them) — or the VM's `applyAll`
      ran out of its INNER fuel (100000, a constant of the model) on that answer, in which case the
      model records the unresolved query (`AnsRel`);
    * the searches end the same way (exhausted / more / the same uncaught error). -/
theorem vm_refines_sld_cut (prog : List Term) (query : Term) (max : Nat)
    (hfrag : CutFrag prog query) (hmax : 0 < max)
    (f1 f2 : Nat) (as1 as2 : List Term) (e1 : VM.End) (e2 : SLD.End)
    (h1 : VM.runQuery f1 prog (Driver.C01.shiftVars 10 query) max = some (as1, e1))
    (h2 : SLD.solveQuery f2 prog query max = some (as2, e2)) :
    Forall2 (AnsRel (Driver.C01.shiftVars 10 query)) as1 as2 ∧ endAgree e1 e2 :=
  vm_refines_sld_S prog query max (FragS.of_cut hfrag) hmax f1 f2 as1 as2 e1 e2 h1 h2
    (callsOK_false f1 prog query max)

/-- **vm_refines_sld_call** (stage 3a, `call/1`): program and query in `CallFrag` (Horn clauses with
    `!` and `call(G)`, `G` any term), the side condition `CallsOK` on the goals that are called. -/
theorem vm_refines_sld_call (prog : List Term) (query : Term) (max : Nat)
    (hfrag : CallFrag prog query) (hmax : 0 < max)
    (f1 f2 : Nat) (as1 as2 : List Term) (e1 : VM.End) (e2 : SLD.End)
    (h1 : VM.runQuery f1 prog (Driver.C01.shiftVars 10 query) max = some (as1, e1))
    (h2 : SLD.solveQuery f2 prog query max = some (as2, e2))
    (hcalls : CallsOK true f1 prog query max) :
    Forall2 (AnsRel (Driver.C01.shiftVars 10 query)) as1 as2 ∧ endAgree e1 e2 :=
  vm_refines_sld_S prog query max (hfrag.toS (fun _ => ctlGoal1_sub) (fun _ => ctl1_single)) hmax f1 f2 as1 as2 e1 e2 h1 h2 hcalls

/-- **vm_refines_sld_ctl** (stage 3): program and query in `CtlFrag` (clauses over user predicates
    whose bodies are disjunctions — at the top level — of conjunctions of `!`, Horn goals and the
    control constructs `call(G)`, `(C -> T ; E)`, `(C -> T)`, `once(G)`, `\\+ G`; the same for the
    query and for the goals that are called), the side condition `CallsOK` on the goals
    that are called.  A cut inside `call/1`, `once/1`, `\\+`, inside the condition or a branch of an
    if-then(-else) is local. -/
theorem vm_refines_sld_ctl (prog : List Term) (query : Term) (max : Nat)
    (hfrag : CtlFrag prog query) (hmax : 0 < max)
    (f1 f2 : Nat) (as1 as2 : List Term) (e1 : VM.End) (e2 : SLD.End)
    (h1 : VM.runQuery f1 prog (Driver.C01.shiftVars 10 query) max = some (as1, e1))
    (h2 : SLD.solveQuery f2 prog query max = some (as2, e2))
    (hcalls : CallsOK true f1 prog query max) :
    Forall2 (AnsRel (Driver.C01.shiftVars 10 query)) as1 as2 ∧ endAgree e1 e2 :=
  vm_refines_sld_S prog query max (hfrag.toS (fun _ => ctlGoal1_sub) (fun _ => ctl1_single)) hmax f1 f2 as1 as2 e1 e2 h1 h2 hcalls

theorem callN_single' {t : Term} (h : (ctlGoal1 t || callNGoal t) = true) : (SLD.disjuncts t).length = 1 := by
  rcases Bool.or_eq_true _ _ ▸ h with h | h
  · exact ctl1_single h
  · exact callN_single h

theorem callN_sub {t : Term} (h : (ctlGoal1 t || callNGoal t) = true) : ctlGoal t = true := by
  rcases Bool.or_eq_true _ _ ▸ h with h | h
  · exact ctlGoal1_sub h
  · exact callNGoal_sub h

/-- **vm_refines_sld_callN** (stage 4a, `call/N`): program and query in `CallNFrag` = `CtlFrag` +
    `call(G, A1, …, Ak)`, 1 ≤ k ≤ 7, as a goal of clause bodies, of the query and of called goals.
    The VM's `callN` dereferences the closure `G` and appends the arguments to it; the goal so built
    is called as by `call/1`.  The reference: `addArgs`, then `callBody`.  Side condition `CallsOK`:
    in addition to what it says about `call/1`, at every `call/N` the closure dereferences (inner
    fuel) to a variable (instantiation error on both sides), to a number or string (type error on
    both sides) or to a callable term such that the goal built is, instantiated (inner fuel), a body
    of the fragment (`callNOK`). -/
theorem vm_refines_sld_callN (prog : List Term) (query : Term) (max : Nat)
    (hfrag : CallNFrag prog query) (hmax : 0 < max)
    (f1 f2 : Nat) (as1 as2 : List Term) (e1 : VM.End) (e2 : SLD.End)
    (h1 : VM.runQuery f1 prog (Driver.C01.shiftVars 10 query) max = some (as1, e1))
    (h2 : SLD.solveQuery f2 prog query max = some (as2, e2))
    (hcalls : CallsOK true f1 prog query max) :
    Forall2 (AnsRel (Driver.C01.shiftVars 10 query)) as1 as2 ∧ endAgree e1 e2 :=
  vm_refines_sld_S prog query max (hfrag.toS (fun _ => callN_sub) (fun _ => callN_single')) hmax f1 f2 as1 as2 e1 e2 h1 h2 hcalls

/-- **vm_refines_sld_ctl2** (stage 4b, a disjunction as a goal): program and query in `Ctl2Frag` =
    `CallNFrag` + `(A ; B)` — not an if-then-else, `A` callable and not `_ -> _` — as a conjunct of a
    conjunction (clause bodies, query, called goals).  The VM calls `;`/2: the heads of the two
    if-then-else clauses of bootstrap.pl clash with the goal (`clash_ite`: a Robinson clash, whatever
    the variables of `A` are bound to), the third clause `P ; Q :- call((P ; Q)).` is a WRAPPER: a
    frame of the VM that the reference, which runs the body of `call((A ; B))` in place of the goal,
    has no level for (`PSpec.wrap`, `tw_last`, `direct_tail`); the cut inside a disjunct is local to
    the disjunction on both sides.  Side condition `CallsOK`: it now also covers the `call/1` inside
    that clause (the instantiated `(A ; B)` has bodies of the fragment as top-level disjuncts).
    `','/2` as a goal cannot arise in the fragment (conjunctions are flattened by the compiler and by
    the reference alike); `call(',', A, B)` is covered by call/N. -/
theorem vm_refines_sld_ctl2 (prog : List Term) (query : Term) (max : Nat)
    (hfrag : Ctl2Frag prog query) (hmax : 0 < max)
    (f1 f2 : Nat) (as1 as2 : List Term) (e1 : VM.End) (e2 : SLD.End)
    (h1 : VM.runQuery f1 prog (Driver.C01.shiftVars 10 query) max = some (as1, e1))
    (h2 : SLD.solveQuery f2 prog query max = some (as2, e2))
    (hcalls : CallsOK true f1 prog query max) :
    Forall2 (AnsRel (Driver.C01.shiftVars 10 query)) as1 as2 ∧ endAgree e1 e2 :=
  vm_refines_sld_S prog query max hfrag hmax f1 f2 as1 as2 e1 e2 h1 h2 hcalls

theorem vm_refines_sld_horn (prog : List Term) (query : Term) (max : Nat)
    (hfrag : HornFrag prog query) (hmax : 0 < max)
    (f1 f2 : Nat) (as1 as2 : List Term) (e1 : VM.End) (e2 : SLD.End)
    (h1 : VM.runQuery f1 prog (Driver.C01.shiftVars 10 query) max = some (as1, e1))
    (h2 : SLD.solveQuery f2 prog query max = some (as2, e2)) :
    Forall2 (AnsRel (Driver.C01.shiftVars 10 query)) as1 as2 ∧ endAgree e1 e2 :=
  vm_refines_sld_cut prog query max (CutFrag.of_horn hfrag) hmax f1 f2 as1 as2 e1 e2 h1 h2

/-- a term without variables -/
theorem no_vars_of_maxVar {t : Term} (h : SLD.maxVar t = 0) : ∀ v, t.hasVar v = false := by
  intro v
  cases hv : t.hasVar v with
  | false => rfl
  | true => have := hasVar_lt_maxVar t hv; omega

theorem canon_of_ansRel {tmpl : Term} {as1 as2 : List Term} (hfa : Forall2 (AnsRel tmpl) as1 as2)
    (hinner : (∀ v, tmpl.hasVar v = false) ∨ ∀ a ∈ as1, a ≠ tmpl) :
    as1.map Term.canon = as2.map Term.canon := by
  induction hfa with
  | nil => rfl
  | @cons a1 a2 as1' as2' hd _ ih =>
    simp only [List.map_cons, List.cons.injEq]
    constructor
    · rcases hd with hd | ⟨hd, σ, π, ha2⟩
      · exact hd
      · rcases hinner with hg | hne
        · have e1' : tmpl.subst σ = tmpl := closed_subst hg σ
          have e2' : tmpl.rename π = tmpl := closed_subst hg _
          rw [hd, ha2, e1', e2']
        · exact absurd hd (hne a1 (by simp))
    · apply ih
      rcases hinner with hg | hne
      · exact Or.inl hg
      · exact Or.inr (fun a ha => hne a (by simp [ha]))

/-- **the statement of the task**, under the hypothesis that excludes the inner-fuel artefact of the
    model: the query is ground, or no answer of the VM is literally the (shifted) query term.
    Then the answer sequences are equal after `Term.canon`, exactly what the three-way differential
    check compares. -/
theorem vm_refines_sld_cut_canon (prog : List Term) (query : Term) (max : Nat)
    (hfrag : CutFrag prog query) (hmax : 0 < max)
    (f1 f2 : Nat) (as1 as2 : List Term) (e1 : VM.End) (e2 : SLD.End)
    (h1 : VM.runQuery f1 prog (Driver.C01.shiftVars 10 query) max = some (as1, e1))
    (h2 : SLD.solveQuery f2 prog query max = some (as2, e2))
    (hinner : SLD.maxVar query = 0 ∨ ∀ a ∈ as1, a ≠ Driver.C01.shiftVars 10 query) :
    as1.map Term.canon = as2.map Term.canon ∧ endAgree e1 e2 := by
  obtain ⟨hfa, hend⟩ := vm_refines_sld_cut prog query max hfrag hmax f1 f2 as1 as2 e1 e2 h1 h2
  refine ⟨canon_of_ansRel hfa ?_, hend⟩
  rcases hinner with h0 | hne
  · left
    intro v
    cases hv : (Driver.C01.shiftVars 10 query).hasVar v with
    | false => rfl
    | true =>
      rw [shiftVars_eq] at hv
      obtain ⟨u, hu, _⟩ := hasVar_shift hv
      rw [no_vars_of_maxVar h0 u] at hu
      cases hu
  · exact Or.inr hne

theorem vm_refines_sld_horn_canon (prog : List Term) (query : Term) (max : Nat)
    (hfrag : HornFrag prog query) (hmax : 0 < max)
    (f1 f2 : Nat) (as1 as2 : List Term) (e1 : VM.End) (e2 : SLD.End)
    (h1 : VM.runQuery f1 prog (Driver.C01.shiftVars 10 query) max = some (as1, e1))
    (h2 : SLD.solveQuery f2 prog query max = some (as2, e2))
    (hinner : SLD.maxVar query = 0 ∨ ∀ a ∈ as1, a ≠ Driver.C01.shiftVars 10 query) :
    as1.map Term.canon = as2.map Term.canon ∧ endAgree e1 e2 :=
  vm_refines_sld_cut_canon prog query max (CutFrag.of_horn hfrag) hmax f1 f2 as1 as2 e1 e2 h1 h2 hinner

/-- **what stages 3 and 4 leave open** (NOT proved), as a statement: the refinement for a fragment
    `Frag` that contains, in addition to the goals of `Ctl2Frag` (proved: `vm_refines_sld_ctl2`, which
    closed (a) a disjunction `(A ; B)` that is not an if-then-else as a GOAL inside a conjunction and
    (b) `call/N`, 2 ≤ N ≤ 8, of the previous version of this statement):
    * a disjunction goal `(V ; B)` whose first alternative is a VARIABLE at compile time — there the
      head `(If -> Then ; _)` of the first clause of `;`/2 may unify with the goal at run time (binding
      `V` if it is unbound: the VM then runs `If, !, Then` where the reference runs `call(V)`);
    * `call/N`, N ≥ 9: the VM MODEL and the reference DISAGREE — the model's `builtin "call"` accepts
      any arity and calls the goal, the reference — like the Go engine, which only defines call/1 …
      call/8 — raises `existence_error(procedure, call/9)`; witness:
      `p(1,2,3,4,5,6,7,8).  ?- call(p,1,2,3,4,5,6,7,8).`;
    * catch/throw, findall/3 and the other built-ins. -/
def VmRefinesSldCtlFullStatement (Frag : List Term → Term → Prop) : Prop :=
  ∀ (prog : List Term) (query : Term) (max : Nat), Frag prog query → 0 < max →
    ∀ (f1 f2 : Nat) (as1 as2 : List Term) (e1 : VM.End) (e2 : SLD.End),
      VM.runQuery f1 prog (Driver.C01.shiftVars 10 query) max = some (as1, e1) →
      SLD.solveQuery f2 prog query max = some (as2, e2) →
      CallsOK true f1 prog query max →
      Forall2 (AnsRel (Driver.C01.shiftVars 10 query)) as1 as2 ∧ endAgree e1 e2

/-- the target statement without the extra hypothesis (NOT proved: in the model, `app` returns the
    unresolved template when `applyAll` exceeds the inner fuel 100000; see the report) -/
def VmRefinesSldHornStatement : Prop :=
  ∀ (prog : List Term) (query : Term) (max : Nat), CutFrag prog query → 0 < max →
    ∀ (f1 f2 : Nat) (as1 as2 : List Term) (e1 : VM.End) (e2 : SLD.End),
      VM.runQuery f1 prog (Driver.C01.shiftVars 10 query) max = some (as1, e1) →
      SLD.solveQuery f2 prog query max = some (as2, e2) →
      as1.map Term.canon = as2.map Term.canon ∧ endAgree e1 e2

end PrologVerif.Refine
