package main

// C01 / C03 / C04: whole-program answer streams.
//
//	c01.answers   pure programs (facts, rules, recursion, =/2, member/3, append/3, nested , ; , call/N)
//	c03.answers   control skeletons with cut in the claimed and in the opaque placements
//	c04.answers   catch/throw skeletons
//
// One payload format and one runner for the three:
//
//	<maxAnswers> | <Query wire> | <Clause wire> | <Clause wire> | ...
//
// (each clause and the query number their variables V0, V1, ... locally).  The runner asserts the
// clauses into a fresh interpreter, runs the query and prints
//
//	a <wire> ; a <wire> ; ... ; end exhausted|more|err <Formal>|ball <Term>|timeout|panic ...
//
// where each answer is the query term as instantiated by that answer, variables renamed by first
// occurrence.  c01.text is a helper that turns Prolog text into a payload (for corpus files).

import (
	"context"
	"errors"
	"fmt"
	"hash/fnv"
	"math/rand"
	"strconv"
	"strings"
	"sync/atomic"
	"time"

	"github.com/ichiban/prolog"
	"github.com/ichiban/prolog/engine"
)

func init() {
	register(&stream{name: "c01.answers", gen: genC01Answers, run: func(p string) string { return runAnswers("c01", p) }})
	register(&stream{name: "c03.answers", gen: genC03Answers, run: func(p string) string { return runAnswers("c03", p) }})
	register(&stream{name: "c04.answers", gen: genC04Answers, run: func(p string) string { return runAnswers("c04", p) }})
	register(&stream{name: "c01.text", gen: func(*rand.Rand, int, string) []string { return nil }, run: textToPayload})
	register(&stream{name: "c01.show", gen: func(*rand.Rand, int, string) []string { return nil }, run: payloadToText})
}

type answersCase struct {
	max     int
	query   string
	clauses []string
}

func parseAnswersCase(payload string) (c answersCase, err error) {
	fs := strings.Split(payload, "|")
	if len(fs) < 2 {
		return c, fmt.Errorf("bad payload")
	}
	c.max, err = strconv.Atoi(strings.TrimSpace(fs[0]))
	if err != nil {
		return c, err
	}
	c.query = strings.TrimSpace(fs[1])
	for _, f := range fs[2:] {
		if f = strings.TrimSpace(f); f != "" {
			c.clauses = append(c.clauses, f)
		}
	}
	return c, nil
}

// boundedSize counts the nodes of the resolved term up to limit (a cyclic term exceeds any limit).
func boundedSize(t engine.Term, env *engine.Env, limit int) int {
	n := 1
	if c, ok := env.Resolve(t).(engine.Compound); ok {
		for i := 0; i < c.Arity() && n <= limit; i++ {
			n += boundedSize(c.Arg(i), env, limit-n)
		}
	}
	return n
}

const answersTimeout = 5 * time.Second

// runImpl executes one case on the real interpreter.
// A case that does not finish within the time limit is run once more, alone in time, with four times
// the limit (a loaded machine must not turn a healthy case into a timeout); the second outcome is the
// one reported.  The generators only emit cases whose reference search is a few thousand steps, so a
// confirmed timeout means the implementation does not terminate where it must: it is JUDGED (a
// failure).  After answersMaxTimeouts confirmed timeouts the remaining cases of the run are skipped
// (each costs 25 s), the failing inputs are already there.
var answersTimeouts int32

const answersMaxTimeouts = 12

func runImpl(c answersCase) string {
	if atomic.LoadInt32(&answersTimeouts) >= answersMaxTimeouts {
		return "SKIPPED too many timeouts"
	}
	line := runImplOnce(c, answersTimeout)
	if strings.HasSuffix(line, "end timeout") {
		line = runImplOnce(c, 4*answersTimeout)
		if strings.HasSuffix(line, "end timeout") {
			atomic.AddInt32(&answersTimeouts, 1)
		}
	}
	return line
}

func runImplOnce(c answersCase, answersTimeout time.Duration) string {
	i, _ := newInterp("")
	// The Go encoding of every list cell chain of the case is drawn from the payload (half of the
	// cases keep the reader's encodings): the abstract program is the same, so are the answers.
	enc := newEncChooser(c)
	gq, err := gtFromWire(c.query)
	if err != nil {
		return "BAD-CASE query"
	}
	// A third of the cases load the program as TEXT, and only after another program defining the same
	// predicates (most general facts) has been loaded and every predicate called once has been loaded and queried: whatever the
	// interpreter remembers from the first program must not show in the answers of the second.
	loaded := false
	if enc.r.Intn(3) == 0 {
		loaded = reconsult(i, c, gq, answersTimeout)
	}
	if !loaded {
		i, _ = newInterp("")
		for _, cl := range c.clauses {
			g, err := gtFromWire(cl)
			if err != nil {
				return "BAD-CASE clause"
			}
			t := enc.build(g, map[int]engine.Variable{}) // fresh engine variables per clause
			ctx, cancel := context.WithTimeout(context.Background(), answersTimeout)
			_, err = engine.Call(&i.VM, compound("assertz", t), engine.Success, nil).Force(ctx)
			cancel()
			if err != nil {
				return "assert-" + errWire(err)
			}
		}
	}
	q := enc.build(gq, map[int]engine.Variable{})
	var out []string
	cyclic := false
	n, err := solve(&i.VM, q, c.max, answersTimeout, func(env *engine.Env) bool {
		if boundedSize(q, env, 100000) > 100000 {
			cyclic = true
			return false
		}
		out = append(out, "a "+wire(q, env, newVarNamer()))
		return true
	})
	switch {
	case cyclic:
		out = append(out, "end cyclic")
	case err != nil && errors.Is(err, context.DeadlineExceeded):
		out = append(out, "end timeout")
	case err != nil:
		out = append(out, "end "+errWire(err))
	case n >= c.max:
		out = append(out, "end more")
	default:
		out = append(out, "end exhausted")
	}
	return strings.Join(out, " ; ")
}

// reconsult loads a decoy of the program (the heads alone, as facts), runs the query on it, then loads
// the program itself as text (consulting replaces the definitions).  false = the text could not be
// loaded this way (e.g. clauses of one predicate are not contiguous): the caller falls back to assertz.
func reconsult(i *prolog.Interpreter, c answersCase, gq *gt, limit time.Duration) bool {
	wi, buf := newInterp("") // one writer for the whole case
	show := func(t *gt) (string, bool) {
		buf.Reset()
		if r := solveOnce(&wi.VM, compound("write_term", gtToEngine(t, map[int]engine.Variable{}),
			engine.List(compound("quoted", atom("true")), compound("ignore_ops", atom("true"))))); r != "true" {
			return "", false
		}
		return buf.String(), true
	}
	var real, decoy strings.Builder
	var heads []*gt
	for _, cl := range c.clauses {
		g, err := gtFromWire(cl)
		if err != nil {
			return false
		}
		txt, ok := show(g)
		if !ok {
			return false
		}
		real.WriteString(txt + " .\n")
		h := g
		if g.is(":-", 2) {
			h = g.args[0]
		}
		heads = append(heads, h)
		// the decoy: a most general fact for the head's predicate
		dh := h
		if h.kind == "app" {
			vs := make([]*gt, len(h.args))
			for j := range vs {
				vs[j] = gVar(j)
			}
			dh = gApp(h.s, vs...)
		}
		dtxt, ok := show(dh)
		if !ok {
			return false
		}
		decoy.WriteString(dtxt + " .\n")
	}
	ctx, cancel := context.WithTimeout(context.Background(), limit)
	defer cancel()
	if err := i.ExecContext(ctx, decoy.String()); err != nil {
		return false
	}
	// warm-up: call every predicate of the decoy with fresh variables (the decoy's clauses are most
	// general facts for this purpose, so nothing is bound and nothing can loop), the predicate of the
	// query's first goal last
	type pk struct {
		name  string
		arity int
	}
	var order []pk
	seen := map[pk]bool{}
	add := func(t *gt) {
		if t.kind == "app" || t.kind == "atom" {
			k := pk{t.s, len(t.args)}
			if !seen[k] {
				seen[k] = true
				order = append(order, k)
			}
		}
	}
	for _, h := range heads {
		add(h)
	}
	first := gq
	for first.is(",", 2) {
		first = first.args[0]
	}
	if k := (pk{first.s, len(first.args)}); seen[k] {
		for j, o := range order {
			if o == k {
				order = append(append(order[:j:j], order[j+1:]...), k)
				break
			}
		}
	}
	for _, k := range order {
		as := make([]engine.Term, k.arity)
		for j := range as {
			as[j] = engine.NewVariable()
		}
		var goal engine.Term = atom(k.name)
		if k.arity > 0 {
			goal = atom(k.name).Apply(as...)
		}
		_, _ = solve(&i.VM, goal, 1, limit, func(*engine.Env) bool { return false })
	}
	if err := i.ExecContext(ctx, real.String()); err != nil {
		return false
	}
	return true
}

// encChooser picks, deterministically from the case, how each list of the case is encoded in Go:
// engine.List / engine.PartialList (what the reader builds), a chain of engine.Cons cells, or - for
// a proper list of one-character atoms / of character codes - the string encodings
// engine.CharList / engine.CodeList (what double-quoted text yields).
type encChooser struct {
	r    *rand.Rand
	vary bool
}

func newEncChooser(c answersCase) *encChooser {
	h := fnv.New64a()
	h.Write([]byte(c.query))
	for _, cl := range c.clauses {
		h.Write([]byte(cl))
	}
	r := rand.New(rand.NewSource(int64(h.Sum64())))
	return &encChooser{r: r, vary: r.Intn(2) == 0}
}

func (e *encChooser) build(t *gt, vars map[int]engine.Variable) engine.Term {
	switch t.kind {
	case "var":
		v, ok := vars[t.v]
		if !ok {
			v = engine.NewVariable()
			vars[t.v] = v
		}
		return v
	case "atom":
		return atom(t.s)
	case "int":
		return engine.Integer(t.i)
	case "flt":
		return engine.Float(t.f)
	}
	if !(t.s == "." && len(t.args) == 2) {
		args := make([]engine.Term, len(t.args))
		for i, a := range t.args {
			args[i] = e.build(a, vars)
		}
		return atom(t.s).Apply(args...)
	}
	es, tail := t.spine()
	elems := make([]engine.Term, len(es))
	for i, x := range es {
		elems[i] = e.build(x, vars)
	}
	proper := tail.is("[]", 0)
	allChars, allCodes := proper, proper
	var chars, codes strings.Builder
	for _, x := range es {
		if x.kind == "atom" && len([]rune(x.s)) == 1 {
			chars.WriteString(x.s)
		} else {
			allChars = false
		}
		if x.kind == "int" && x.i > 0 && x.i < 0xd800 {
			codes.WriteRune(rune(x.i))
		} else {
			allCodes = false
		}
	}
	choice := 0
	if e.vary {
		choice = e.r.Intn(4)
	}
	switch {
	case choice >= 2 && allChars:
		return engine.CharList(chars.String())
	case choice >= 2 && allCodes:
		return engine.CodeList(codes.String())
	case choice == 1:
		res := e.build(tail, vars)
		for i := len(elems) - 1; i >= 0; i-- {
			res = engine.Cons(elems[i], res)
		}
		return res
	case proper:
		return engine.List(elems...)
	default:
		return engine.PartialList(e.build(tail, vars), elems...)
	}
}

func bucket(n int) string {
	switch {
	case n <= 10:
		return "le10"
	case n <= 30:
		return "le30"
	case n <= 100:
		return "le100"
	case n <= 300:
		return "le300"
	case n <= 1000:
		return "le1000"
	}
	return "gt1000"
}

func small(n int) string {
	if n >= 4 {
		return "4+"
	}
	return strconv.Itoa(n)
}

// runAnswers: implementation line + tags computed by the screening interpreter (see c01ref.go).
func runAnswers(kind, payload string) string {
	c, err := parseAnswersCase(payload)
	if err != nil {
		return "BAD-CASE " + encName(err.Error())
	}
	line := runImpl(c)
	end := line[strings.LastIndex(line, "end ")+4:]
	if strings.HasPrefix(line, "assert-") || strings.HasPrefix(line, "BAD-CASE") {
		end = "none"
	}
	nans := strings.Count(" ; "+line, " ; a ")
	tags := fmt.Sprintf(" answers=%s end=%s", small(nans), strings.Fields(end)[0])

	// tags from the reference run
	nt := 0
	q, err := gtFromWire(c.query)
	var prog []*gt
	for _, cl := range c.clauses {
		t, e := gtFromWire(cl)
		if e != nil {
			err = e
		}
		prog = append(prog, t)
	}
	if err == nil {
		o := refSolveQuery(prog, q, c.max, false)
		if o.abort != "" {
			tags += " ref=" + o.abort
		} else {
			ri := o.ri
			tags += " ref=ok steps=" + bucket(ri.steps)
			oi := refSolveQuery(prog, q, c.max, true)
			switch {
			case oi.abort != "":
				tags += " iso=" + oi.abort
			case oi.line() == o.line():
				tags += " iso=same"
			default:
				tags += " iso=differs"
			}
			switch kind {
			case "c01":
				// >= 2 answers, or backtracking over a clause that failed after its head had unified
				if len(o.answers) >= 2 || ri.failedAfterHead > 0 {
					nt = 1
				}
				tags += " bt=" + small(ri.failedAfterHead)
			case "c03":
				// a cut written in the program was executed while an alternative was pending in its scope
				if ri.cutPending > 0 {
					nt = 1
				}
				tags += " cuts=" + small(ri.cutsRun) + " livecuts=" + small(ri.cutPending)
			case "c04":
				// a ball crossed a catch/3 that did not match or whose goal had exited, or was caught by
				// a catch/3 that had been re-entered by backtracking after its goal had exited
				if ri.crossExited+ri.crossNoMatch+ri.caughtAfterRedo > 0 {
					nt = 1
				}
				tags += " throws=" + small(ri.throws) + " caught=" + small(ri.caught) +
					" xexited=" + small(ri.crossExited) + " xnomatch=" + small(ri.crossNoMatch) + " redocaught=" + small(ri.caughtAfterRedo)
			}
		}
	}
	return line + " ### nt=" + strconv.Itoa(nt) + tags
}

// ---------------------------------------------------------------------------
// text <-> payload helpers
// ---------------------------------------------------------------------------

func gtFromEngine(t engine.Term, vn *varNamer) *gt {
	switch t := t.(type) {
	case engine.Variable:
		return gVar(vn.name(t))
	case engine.Atom:
		return gAtom(t.String())
	case engine.Integer:
		return gInt(int64(t))
	case engine.Float:
		return gFlt(float64(t))
	case engine.Compound:
		args := make([]*gt, t.Arity())
		for i := range args {
			args[i] = gtFromEngine(t.Arg(i), vn)
		}
		return gApp(t.Functor().String(), args...)
	}
	return gAtom("$unknown")
}

// textToPayload: "5 | p(X), q | p(1). | p(2) :- true." (Prolog text, fields separated by " | ")
func textToPayload(text string) string {
	fs := strings.Split(text, " | ")
	i, _ := newInterp("")
	out := []string{strings.TrimSpace(fs[0])}
	for _, f := range fs[1:] {
		f = strings.TrimSpace(f)
		if !strings.HasSuffix(f, ".") {
			f += "."
		}
		p := engine.NewParser(&i.VM, strings.NewReader(f))
		t, err := p.Term()
		if err != nil {
			return "BAD-TEXT " + encName(err.Error())
		}
		out = append(out, gtFromEngine(t, newVarNamer()).String())
	}
	return strings.Join(out, " | ")
}

func gtToEngine(t *gt, vars map[int]engine.Variable) engine.Term {
	switch t.kind {
	case "var":
		v, ok := vars[t.v]
		if !ok {
			v = engine.NewVariable()
			vars[t.v] = v
		}
		return v
	case "atom":
		return atom(t.s)
	case "int":
		return engine.Integer(t.i)
	case "flt":
		return engine.Float(t.f)
	}
	if t.s == "." && len(t.args) == 2 {
		es, tail := t.spine()
		elems := make([]engine.Term, len(es))
		for i, e := range es {
			elems[i] = gtToEngine(e, vars)
		}
		if tail.is("[]", 0) {
			return engine.List(elems...)
		}
		return engine.PartialList(gtToEngine(tail, vars), elems...)
	}
	args := make([]engine.Term, len(t.args))
	for i, a := range t.args {
		args[i] = gtToEngine(a, vars)
	}
	return atom(t.s).Apply(args...)
}

// payloadToText prints a payload as Prolog text (for reports and replays).
func payloadToText(payload string) string {
	c, err := parseAnswersCase(payload)
	if err != nil {
		return "BAD-CASE"
	}
	i, buf := newInterp("")
	show := func(w string) string {
		t, err := gtFromWire(w)
		if err != nil {
			return "?"
		}
		buf.Reset()
		_ = solveOnce(&i.VM, compound("write_term", gtToEngine(t, map[int]engine.Variable{}),
			engine.List(compound("quoted", atom("true")), compound("max_depth", engine.Integer(0)))))
		return buf.String()
	}
	out := []string{strconv.Itoa(c.max), show(c.query)}
	for _, cl := range c.clauses {
		out = append(out, show(cl))
	}
	return strings.Join(out, " | ")
}
