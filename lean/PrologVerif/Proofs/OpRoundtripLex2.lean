/-
  P2 (writeq with operators reads back), lexing half, stage B: the leaves of the writer (variables, atoms,
  integers, floats) in an operator context: the token(s) of the leaf, whatever spaces the writer puts
  around it, given what follows (`Cont`: a closing character or the text of the operator on the right).
-/
import PrologVerif.Proofs.OpRoundtripLex1
set_option linter.unusedSimpArgs false
set_option linter.unusedVariables false
namespace PrologVerif.Write
open PrologVerif PrologVerif.Lexer PrologVerif.Ops PrologVerif.Read

/-! ## token sequences, with or without a space in front -/

/-- `LexSeq` for the text and for the text preceded by a space -/
def LexSeqG (cfg : Cfg) (x : List Char) (ts : List Token) (tail : List Char) : Prop :=
  LexSeq cfg x ts tail ∧ LexSeq cfg (' ' :: x) ts tail

theorem LexSeqG.single {cfg : Cfg} (hconv : ∀ c, cfg.conv c = c) {x : List Char} {t : Token} {tail : List Char}
    (h : LexTokG cfg x t tail) : LexSeqG cfg x [t] tail :=
  ⟨LexSeq.single cfg (LexTokG.lexTok cfg h), LexSeq.single cfg (LexTokG.lexTok_sp cfg hconv h)⟩

theorem LexSeqG.cons {cfg : Cfg} (hconv : ∀ c, cfg.conv c = c) {x y : List Char} {t : Token} {ts : List Token}
    {tail : List Char} (h : LexTokG cfg x t (y ++ tail)) (h2 : LexSeq cfg y ts tail) :
    LexSeqG cfg (x ++ y) (t :: ts) tail :=
  ⟨LexSeq.cons (LexTokG.lexTok cfg h) h2, by
    have := LexSeq.cons (x := ' ' :: x) (LexTokG.lexTok_sp cfg hconv h) h2
    simpa using this⟩

theorem LexSeqG.append {cfg : Cfg} {x y : List Char} {ts us : List Token} {tail : List Char}
    (h1 : LexSeqG cfg x ts (y ++ tail)) (h2 : LexSeq cfg y us tail) : LexSeqG cfg (x ++ y) (ts ++ us) tail :=
  ⟨LexSeq.append cfg h1.1 h2, by
    have := LexSeq.append cfg (x := ' ' :: x) h1.2 h2
    simpa using this⟩

theorem LexSeqG.spaced {cfg : Cfg} {x : List Char} {ts : List Token} {tail : List Char} (h : LexSeqG cfg x ts tail)
    (b : Bool) : LexSeq cfg (Write.sp b ++ x) ts tail := by
  cases b
  · simpa [Write.sp] using h.1
  · simpa [Write.sp] using h.2

/-! ## characters -/

/-- the hypothesis on the character-class oracle: no graphic character counts as a capital letter
    (true of the tables of package `unicode`: U+2200–22FF and U+2A00–2AFF are symbols) -/
def CapOK (cfg : Cfg) : Prop := ∀ c, isGraphicChar c = true → isCapitalLetterChar cfg c = false

/-- punctuation: after and before these nothing is ever glued -/
def Punct (c : Char) : Prop :=
  c = ' ' ∨ c = '(' ∨ c = ')' ∨ c = ',' ∨ c = '|' ∨ c = ']' ∨ c = '}' ∨ c = '[' ∨ c = '{' ∨ c = ';' ∨ c = '!'

theorem Punct.facts (cfg : Cfg) {c : Char} (h : Punct c) :
    isAlphanumericChar cfg c = false ∧ isGraphicOrBs c = false ∧ c ≠ '\'' ∧ IntTailC c ∧ c ≠ '.' ∧ FloatTail c := by
  rcases h with h|h|h|h|h|h|h|h|h|h|h <;> subst h <;>
    exact ⟨rfl, rfl, by decide, ⟨rfl, by decide, by decide, by decide, by decide⟩, by decide, ⟨rfl, rfl⟩⟩

theorem Punct.of_closer {c : Char} (h : Closer c) : Punct c := by
  rcases h with h|h|h|h|h|h <;> subst h <;> simp [Punct]

theorem gbs_facts {c : Char} (h : isGraphicOrBs c = true) :
    isDecimalDigitChar c = false ∧ c ≠ '\'' ∧ c ≠ 'b' ∧ c ≠ 'o' ∧ c ≠ 'x' ∧ c ≠ '_' ∧ c ≠ 'e' ∧ c ≠ 'E' := by
  refine ⟨?_, ?_, ?_, ?_, ?_, ?_, ?_, ?_⟩
  · simp only [isGraphicOrBs, isGraphicChar, Bool.or_eq_true, decide_eq_true_eq] at h
    rcases h with ((h | h) | h) | h
    · exact (by decide : ∀ x ∈ graphicAscii, isDecimalDigitChar x = false) c h
    · simp only [isDecimalDigitChar, decide_eq_false_iff_not]; omega
    · simp only [isDecimalDigitChar, decide_eq_false_iff_not]; omega
    · subst h; rfl
  all_goals (intro e; subst e; exact absurd h (by decide))

theorem gbs_na {cfg : Cfg} (hcap : CapOK cfg) {c : Char} (h : isGraphicOrBs c = true)
    (hsm : isSmallLetterChar cfg c = false) : isAlphanumericChar cfg c = false := by
  obtain ⟨hd, _, _, _, _, hu, _, _⟩ := gbs_facts h
  have hc : isCapitalLetterChar cfg c = false := by
    simp only [isGraphicOrBs, Bool.or_eq_true, decide_eq_true_eq] at h
    rcases h with h | h
    · exact hcap c h
    · subst h; rfl
  simp [isAlphanumericChar, isAlphaChar, isLetterChar, isUnderscoreChar, hd, hu, hc, hsm]

theorem small_facts {cfg : Cfg} {c : Char} (h : isSmallLetterChar cfg c = true) :
    c ≠ '\'' ∧ isDecimalDigitChar c = false ∧ c ≠ 'E' ∧ c ≠ '.' := by
  refine ⟨?_, ?_, ?_, ?_⟩
  · intro e; subst e; exact absurd h (by rw [show isSmallLetterChar cfg '\'' = false from rfl]; simp)
  · simp only [isSmallLetterChar] at h
    simp only [isDecimalDigitChar, decide_eq_false_iff_not]
    split at h
    · simp only [decide_eq_true_eq] at h; omega
    · omega
  · intro e; subst e; exact absurd h (by rw [show isSmallLetterChar cfg 'E' = false from rfl]; simp)
  · intro e; subst e; exact absurd h (by rw [show isSmallLetterChar cfg '.' = false from rfl]; simp)

theorem ld_none (e : Env) : letterDigit e.cfg (opName none) = false := rfl
theorem gr_none : graphic (opName none) = false := rfl

theorem right_of_ld {e : Env} {o : WOpts} (h : letterDigit e.cfg (opName o.right) = true) : o.right.isSome = true := by
  cases hr : o.right with
  | none => rw [hr, ld_none] at h; simp at h
  | some _ => rfl

theorem right_of_gr {o : WOpts} (h : graphic (opName o.right) = true) : o.right.isSome = true := by
  cases hr : o.right with
  | none => rw [hr, gr_none] at h; simp at h
  | some _ => rfl

/-! ## what may follow the text of an atom -/

/-- the character `c` after the text of the atom `f` is not glued to it -/
def AfterOp (e : Env) (f : List Char) (c : Char) : Prop :=
  (needQuoted e.cfg f = true → c ≠ '\'') ∧
  (needQuoted e.cfg f = false → letterDigit e.cfg f = true → isAlphanumericChar e.cfg c = false) ∧
  (needQuoted e.cfg f = false → graphic f = true → isGraphicOrBs c = false)

theorem Punct.afterOp (e : Env) (f : List Char) {c : Char} (h : Punct c) : AfterOp e f c := by
  obtain ⟨h1, h2, h3, _⟩ := Punct.facts e.cfg h
  exact ⟨fun _ => h3, fun _ _ => h1, fun _ _ => h2⟩

theorem atomTokens_ld {cfg : Cfg} {a : List Char} (hq : needQuoted cfg a = false) (h : LDName cfg a) :
    atomTokens cfg a = [⟨.letterDigit, a⟩] := by
  obtain ⟨c, w, e, hsm⟩ := ldName_small h
  obtain ⟨n1, n2, n3, n4⟩ := ldName_ne h
  unfold atomTokens
  simp only [hq, Bool.false_eq_true, n1, n2, n3, n4, if_false]
  subst e
  simp only [hsm, if_true]

theorem atomTokens_gr {cfg : Cfg} {a : List Char} (hq : needQuoted cfg a = false) (h : GraphicName cfg a) :
    atomTokens cfg a = [⟨.graphic, a⟩] := by
  obtain ⟨c, w, e, hsm⟩ := graphicName_notSmall h
  obtain ⟨n1, n2, n3, n4⟩ := graphicName_ne h
  unfold atomTokens
  simp only [hq, Bool.false_eq_true, n1, n2, n3, n4, if_false]
  subst e
  simp only [hsm, Bool.false_eq_true, if_false]

/-- the text of an atom (quoted or not) is its token(s), also after a space, if what follows is not glued -/
theorem lexSeqG_atomText (e : Env) (hconv : ∀ c, e.cfg.conv c = c) (a tail : List Char)
    (ht : HeadIs (AfterOp e a) tail) : LexSeqG e.cfg (atomText e.cfg a) (atomTokens e.cfg a) tail := by
  by_cases hq : needQuoted e.cfg a = true
  · have h1 : atomText e.cfg a = quote e.cfg a := by simp [atomText, hq]
    have h2 : atomTokens e.cfg a = [⟨.quoted, quote e.cfg a⟩] := by simp [atomTokens, hq]
    rw [h1, h2]
    refine LexSeqG.single hconv (lexTokG_quote e.cfg hconv a tail ?_)
    intro h; exact (ht _ h).1 hq rfl
  · have hq' : needQuoted e.cfg a = false := by simpa using hq
    have h1 : atomText e.cfg a = a := by simp [atomText, hq']
    rw [h1]
    rcases unquoted_of_needQuoted e.cfg a hq' with h | h | h | h | h | h
    · rw [atomTokens_ld hq' h]
      obtain ⟨c, w, ea, hsm⟩ := ldName_small h
      refine LexSeqG.single hconv (lexTokG_ldName e.cfg hconv a tail h ?_)
      intro t ht'
      exact (ht t ht').2.1 hq' (by subst ea; exact hsm)
    · rw [atomTokens_gr hq' h]
      refine LexSeqG.single hconv (lexTokG_graphicName e.cfg hconv a tail h ?_)
      intro t ht'
      obtain ⟨c, w, ea, hg, _⟩ := h
      exact (ht t ht').2.2 hq' (by subst ea; exact hg c (by simp))
    · subst h
      have h2 : atomTokens e.cfg [';'] = [⟨.semicolon, [';']⟩] := by
        unfold atomTokens
        simp only [hq', Bool.false_eq_true, show ([';'] : List Char) ≠ ['[', ']'] by decide,
          show ([';'] : List Char) ≠ ['{', '}'] by decide, if_false, if_true]
      rw [h2]
      exact LexSeqG.single hconv (lexTokG_solo e.cfg hconv ';' tail (by simp))
    · subst h
      have h2 : atomTokens e.cfg ['!'] = [⟨.cut, ['!']⟩] := by
        unfold atomTokens
        simp only [hq', Bool.false_eq_true, show (['!'] : List Char) ≠ ['[', ']'] by decide,
          show (['!'] : List Char) ≠ ['{', '}'] by decide, show (['!'] : List Char) ≠ [';'] by decide, if_false, if_true]
      rw [h2]
      exact LexSeqG.single hconv (lexTokG_solo e.cfg hconv '!' tail (by simp))
    · subst h
      have h2 : atomTokens e.cfg ['[', ']'] = [⟨.openList, ['[']⟩, ⟨.closeList, [']']⟩] := by
        unfold atomTokens
        simp only [hq', Bool.false_eq_true, if_false, if_true]
      rw [h2]
      exact LexSeqG.cons hconv (x := ['[']) (y := [']']) (lexTokG_solo e.cfg hconv '[' _ (by simp))
        (LexSeq.single e.cfg (LexTokG.lexTok e.cfg (lexTokG_solo e.cfg hconv ']' tail (by simp))))
    · subst h
      have h2 : atomTokens e.cfg ['{', '}'] = [⟨.openCurly, ['{']⟩, ⟨.closeCurly, ['}']⟩] := by
        unfold atomTokens
        simp only [hq', Bool.false_eq_true, show (['{', '}'] : List Char) ≠ ['[', ']'] by decide, if_false, if_true]
      rw [h2]
      exact LexSeqG.cons hconv (x := ['{']) (y := ['}']) (lexTokG_solo e.cfg hconv '{' _ (by simp))
        (LexSeq.single e.cfg (LexTokG.lexTok e.cfg (lexTokG_solo e.cfg hconv '}' tail (by simp))))

/-- the text of the operator between / after its operands -/
theorem lexSeqG_opText (e : Env) (hconv : ∀ c, e.cfg.conv c = c) (f : String) (tail : List Char)
    (ht : HeadIs (AfterOp e f.toList) tail) : LexSeqG e.cfg (opText e f) (opToks e f) tail := by
  unfold opText opToks
  by_cases h1 : f = ","
  · subst h1
    simp only [true_or, if_true]
    exact LexSeqG.single hconv (lexTokG_solo e.cfg hconv ',' tail (by simp))
  · by_cases h2 : f = "|"
    · subst h2
      simp only [or_true, if_true, show ("|" : String) ≠ "," by decide, if_false]
      exact LexSeqG.single hconv (lexTokG_solo e.cfg hconv '|' tail (by simp))
    · simp only [h1, h2, or_self, if_false]
      exact lexSeqG_atomText e hconv f.toList tail ht

/-! ## the first character of the text of an atom -/

/-- `c :: r` is how the text of the atom `b` starts: a solo character, the quote, or the first character
    of a letter-digit / graphic token -/
def AHead (e : Env) (b : List Char) (c : Char) (r : List Char) : Prop :=
  (c = ';' ∨ c = '!' ∨ c = '[' ∨ c = '{') ∨
  (c = '\'' ∧ needQuoted e.cfg b = true) ∨
  (needQuoted e.cfg b = false ∧ b = c :: r ∧ isSmallLetterChar e.cfg c = true) ∨
  (needQuoted e.cfg b = false ∧ b = c :: r ∧ isSmallLetterChar e.cfg c = false ∧
    (∀ x ∈ c :: r, isGraphicOrBs x = true) ∧ (c = '.' → r ≠ []))

theorem atomText_head (e : Env) (b : List Char) : ∃ c r, atomText e.cfg b = c :: r ∧ AHead e b c r := by
  unfold atomText
  by_cases hq : needQuoted e.cfg b = true
  · simp only [hq, if_true]
    exact ⟨'\'', _, rfl, .inr (.inl ⟨rfl, hq⟩)⟩
  · have hq' : needQuoted e.cfg b = false := by simpa using hq
    simp only [hq', Bool.false_eq_true, if_false]
    rcases unquoted_of_needQuoted e.cfg b hq' with h | h | h | h | h | h
    · obtain ⟨c, w, rfl, _, hsm, _⟩ := h
      exact ⟨c, w, rfl, .inr (.inr (.inl ⟨hq', rfl, hsm⟩))⟩
    · obtain ⟨c, w, rfl, hg, _, hsm, _, hdot⟩ := h
      refine ⟨c, w, rfl, .inr (.inr (.inr ⟨hq', rfl, hsm, hg, ?_⟩))⟩
      intro hc
      obtain ⟨c2, w2, rfl, _⟩ := hdot hc
      simp
    · subst h; exact ⟨';', [], rfl, .inl (.inl rfl)⟩
    · subst h; exact ⟨'!', [], rfl, .inl (.inr (.inl rfl))⟩
    · subst h; exact ⟨'[', [']'], rfl, .inl (.inr (.inr (.inl rfl)))⟩
    · subst h; exact ⟨'{', ['}'], rfl, .inl (.inr (.inr (.inr rfl)))⟩

theorem opText_head (e : Env) (f : String) : ∃ c r, opText e f = c :: r ∧
    ((c = ',' ∨ c = '|') ∨ (f ≠ "," ∧ f ≠ "|" ∧ AHead e f.toList c r)) := by
  unfold opText
  by_cases h1 : f = ","
  · subst h1; exact ⟨',', [], by simp, .inl (.inl rfl)⟩
  · by_cases h2 : f = "|"
    · subst h2; exact ⟨'|', [], by simp, .inl (.inr rfl)⟩
    · simp only [h1, h2, or_self, if_false]
      obtain ⟨c, r, h, ha⟩ := atomText_head e f.toList
      exact ⟨c, r, h, .inr ⟨h1, h2, ha⟩⟩

/-- the text of the atom `a` directly followed by the text of the atom `b` (which starts with `c`): nothing is
    glued unless both are quoted, both letter-digit or both graphic -/
theorem atom_atom {e : Env} (hcap : CapOK e.cfg) {a b : List Char} {c : Char} {r : List Char} (hb : AHead e b c r)
    (hq : needQuoted e.cfg a = true → needQuoted e.cfg b = true → False)
    (hl : needQuoted e.cfg a = false → needQuoted e.cfg b = false → letterDigit e.cfg a = true →
      letterDigit e.cfg b = true → False)
    (hg : needQuoted e.cfg a = false → needQuoted e.cfg b = false → graphic a = true → graphic b = true → False) :
    AfterOp e a c := by
  rcases hb with h | ⟨rfl, hqb⟩ | ⟨hqb, rfl, hsm⟩ | ⟨hqb, rfl, hsm, hgb, _⟩
  · refine Punct.afterOp e a ?_
    rcases h with h | h | h | h <;> subst h <;> simp [Punct]
  · exact ⟨fun h => (hq h hqb).elim, fun _ _ => rfl, fun _ _ => rfl⟩
  · refine ⟨fun _ => (small_facts hsm).1, fun hqa h => (hl hqa hqb h hsm).elim, fun hqa h => ?_⟩
    cases hgc : isGraphicOrBs c with
    | false => rfl
    | true => exact (hg hqa hqb h hgc).elim
  · have hgc := hgb c (by simp)
    exact ⟨fun _ => (gbs_facts hgc).2.1, fun _ _ => gbs_na hcap hgc hsm, fun hqa h => (hg hqa hqb h hgc).elim⟩

/-! ## what follows a written term -/

/-- the text after a term written under the options `o`: punctuation, or the text of the operator `o.right` -/
def Follow (e : Env) (o : WOpts) (z : List Char) : Prop :=
  HeadIs Punct z ∨ ∃ ro z', o.right = some ro ∧ z = opText e ro.name ++ z'

theorem Follow.of_tailOK {e : Env} {o : WOpts} {z : List Char} (h : TailOK e o z) : Follow e o z := by
  rcases h with h | h
  · exact .inl (fun t ht => Punct.of_closer (h t ht))
  · exact .inr h

theorem Follow.punct {e : Env} {o : WOpts} {c : Char} {z : List Char} (h : Punct c) : Follow e o (c :: z) :=
  .inl (HeadIs.cons h)

theorem toList_ne {f : String} {l : List Char} (h : f ≠ String.ofList l) : f.toList ≠ l := by
  intro h'
  apply h
  have := congrArg String.ofList h'
  simpa using this

theorem Follow.cases {e : Env} {o : WOpts} {z : List Char} (h : Follow e o z) :
    HeadIs Punct z ∨ ∃ ro c r z', o.right = some ro ∧ z = c :: (r ++ z') ∧ AHead e ro.name.toList c r ∧
      ro.name.toList ≠ [','] ∧ ro.name.toList ≠ ['|'] := by
  rcases h with h | ⟨ro, z', h1, h2⟩
  · exact .inl h
  · obtain ⟨c, r, h3, h4⟩ := opText_head e ro.name
    rcases h4 with h4 | ⟨n1, n2, h4⟩
    · left
      rw [h2, h3]
      refine HeadIs.cons ?_
      rcases h4 with h4 | h4 <;> subst h4 <;> simp [Punct]
    · exact .inr ⟨ro, c, r, z', h1, by rw [h2, h3]; rfl, h4, toList_ne n1, toList_ne n2⟩

/-- a property of the first character of what follows -/
theorem Follow.headIs {e : Env} {o : WOpts} {z : List Char} (h : Follow e o z) (p : Char → Prop)
    (hp : ∀ c, Punct c → p c)
    (ha : ∀ ro c r, o.right = some ro → AHead e ro.name.toList c r → p c) : HeadIs p z := by
  rcases h.cases with h | ⟨ro, c, r, z', h1, rfl, h3, _⟩
  · exact fun t ht => hp t (h t ht)
  · exact HeadIs.cons (ha ro c r h1 h3)

/-- the continuation of a written term: the text `y` that follows lexes to `us` — also after a space, if the
    term has an operator on its right (only then the writer may end the term with a space) -/
structure Cont (e : Env) (o : WOpts) (y : List Char) (us : List Token) (tail : List Char) : Prop where
  fol : Follow e o (y ++ tail)
  seq : LexSeq e.cfg y us tail
  sps : o.right.isSome = true → LexSeq e.cfg (' ' :: y) us tail

theorem Cont.congr {e : Env} {o o' : WOpts} {y : List Char} {us : List Token} {tail : List Char}
    (h : Cont e o y us tail) (hr : o'.right = o.right) : Cont e o' y us tail := by
  obtain ⟨h1, h2, h3⟩ := h
  refine ⟨?_, h2, by rw [hr]; exact h3⟩
  rcases h1 with h1 | ⟨ro, z', h4, h5⟩
  · exact .inl h1
  · exact .inr ⟨ro, z', by rw [hr]; exact h4, h5⟩

/-- the continuation of a term without an operator on its right -/
theorem Cont.closed {e : Env} {o : WOpts} {y : List Char} {us : List Token} {tail : List Char}
    (hr : o.right = none) (hf : HeadIs Punct (y ++ tail)) (hs : LexSeq e.cfg y us tail) : Cont e o y us tail :=
  ⟨.inl hf, hs, by rw [hr]; intro h; simp at h⟩

/-- how every leaf is put together: optional space, the token(s) `x`, optional space -/
theorem leaf_comb (e : Env) (o : WOpts) {y : List Char} {us : List Token} {tail : List Char} (hc : Cont e o y us tail)
    (x : List Char) (toks : List Token) (L R : Bool) (P : List Char → Prop)
    (hx : ∀ z, P z → LexSeqG e.cfg x toks z) (hsp : ∀ z, P (' ' :: z))
    (hR : R = true → o.right.isSome = true) (hnR : R = false → P (y ++ tail)) :
    LexSeq e.cfg (sp L ++ x ++ sp R ++ y) (toks ++ us) tail := by
  cases R with
  | false =>
    have h1 := (hx (y ++ tail) (hnR rfl)).spaced L
    have := LexSeq.append e.cfg h1 hc.seq
    simpa [sp, List.append_assoc] using this
  | true =>
    have h2 := hc.sps (hR rfl)
    have h1 := (hx (' ' :: y ++ tail) (hsp _)).spaced L
    have := LexSeq.append e.cfg (y := ' ' :: y) h1 h2
    simpa [sp, List.append_assoc] using this

/-! ## variables -/

theorem follow_na {e : Env} (hcap : CapOK e.cfg) {o : WOpts} {z : List Char} (h : Follow e o z)
    (hR : letterDigit e.cfg (opName o.right) = false) : HeadIs (fun t => isAlphanumericChar e.cfg t = false) z := by
  refine h.headIs _ (fun c hc => (Punct.facts e.cfg hc).1) ?_
  intro ro c r hro ha
  rcases ha with ha | ⟨rfl, _⟩ | ⟨_, hb, hsm⟩ | ⟨_, hb, hsm, hgb, _⟩
  · exact (Punct.facts e.cfg (by rcases ha with h | h | h | h <;> subst h <;> simp [Punct])).1
  · rfl
  · rw [hro] at hR
    simp [opName, hb, letterDigit, hsm] at hR
  · exact gbs_na hcap (hgb c (by simp)) hsm

theorem lex_var (e : Env) (G : UInt64 → GText) (P : UInt64 → Bool) (he : EnvOK e G P) (hcap : CapOK e.cfg)
    (o : WOpts) (v : Nat) {y : List Char} {us : List Token} {tail : List Char} (hc : Cont e o y us tail) :
    LexSeq e.cfg (writeVar e o v ++ y) (⟨.variable, e.varName v⟩ :: us) tail := by
  unfold writeVar
  exact leaf_comb e o hc (e.varName v) [⟨.variable, e.varName v⟩] _ _
    (fun z => HeadIs (fun t => isAlphanumericChar e.cfg t = false) z)
    (fun z hz => LexSeqG.single he.conv (lexTokG_varName e.cfg he.conv _ z (he.varShape v).1 hz))
    (fun z => HeadIs.cons rfl) right_of_ld (fun hR => follow_na hcap hc.fol hR)

/-! ## atoms -/

/-- the space the writer puts before an atom that is not bracketed -/
def atomL (e : Env) (o : WOpts) (a : List Char) : Bool :=
  if needQuoted e.cfg a then o.left.isSome && needQuoted e.cfg (opName o.left)
  else (letterDigit e.cfg (opName o.left) && letterDigit e.cfg a) || (graphic (opName o.left) && graphic a)

/-- the space the writer puts after an atom that is not bracketed -/
def atomR (e : Env) (o : WOpts) (a : List Char) : Bool :=
  if needQuoted e.cfg a then o.right.isSome && needQuoted e.cfg (opName o.right)
  else (letterDigit e.cfg (opName o.right) && letterDigit e.cfg a) || (graphic (opName o.right) && graphic a)

theorem writeAtom_plain (e : Env) (o : WOpts) (a : List Char) (hq : o.quoted = true)
    (hoc : ((o.left.isSome || o.right.isSome) && defined o.ops (String.ofList a)) = false) :
    writeAtom e o a = sp (atomL e o a) ++ atomText e.cfg a ++ sp (atomR e o a) := by
  unfold writeAtom atomText atomL atomR
  simp only [hoc, Bool.false_eq_true, if_false, hq, Bool.true_and, List.nil_append, List.append_nil]
  split <;> rfl

/-- an atom written without operator context (`o.bare`): just its text -/
theorem writeAtom_bare (e : Env) (o : WOpts) (a : List Char) (hq : o.quoted = true) (hl : o.left = none)
    (hr : o.right = none) : writeAtom e o a = atomText e.cfg a := by
  rw [writeAtom_plain e o a hq (by simp [hl, hr])]
  have c1 : isSmallLetterChar e.cfg '\x00' = false := rfl
  have h1 : atomL e o a = false := by
    unfold atomL; rw [hl]; simp only [ld_none, gr_none, Option.isSome, Bool.false_and, Bool.or_self, ite_self]
  have h2 : atomR e o a = false := by
    unfold atomR; rw [hr]; simp only [ld_none, gr_none, Option.isSome, Bool.false_and, Bool.or_self, ite_self]
  simp [h1, h2, sp]

theorem writeAtom_oc (e : Env) (o : WOpts) (a : List Char) (hq : o.quoted = true)
    (hoc : ((o.left.isSome || o.right.isSome) && defined o.ops (String.ofList a)) = true) :
    writeAtom e o a = sp (isPrefixOp o.left) ++ ['('] ++ atomText e.cfg a ++ [')'] := by
  have hb : writeAtom e o.bare a = atomText e.cfg a := writeAtom_bare e o.bare a hq rfl rfl
  rw [← hb]
  unfold writeAtom
  simp only [hoc, if_true]
  simp only [WOpts.bare, Option.isSome_none, Bool.or_self, Bool.false_and, Bool.false_eq_true, if_false,
    List.nil_append, List.append_nil]

theorem atomR_right {e : Env} {o : WOpts} {a : List Char} (h : atomR e o a = true) : o.right.isSome = true := by
  unfold atomR at h
  split at h
  · simp only [Bool.and_eq_true] at h; exact h.1
  · simp only [Bool.or_eq_true, Bool.and_eq_true] at h
    rcases h with h | h
    · exact right_of_ld h.1
    · exact right_of_gr h.1

theorem follow_atom {e : Env} (hcap : CapOK e.cfg) {o : WOpts} {z : List Char} (h : Follow e o z) (a : List Char)
    (hR : atomR e o a = false) : HeadIs (AfterOp e a) z := by
  refine h.headIs _ (fun c hc => Punct.afterOp e a hc) ?_
  intro ro c r hro ha
  unfold atomR at hR
  rw [hro] at hR
  simp only [opName, Option.isSome, Bool.true_and] at hR
  refine atom_atom hcap ha ?_ ?_ ?_
  · intro h1 h2; simp [h1, h2] at hR
  · intro h0 _ h1 h2; simp [h0, h1, h2] at hR
  · intro h0 _ h1 h2; simp [h0, h1, h2] at hR

theorem lexTok_openTok (cfg : Cfg) (hconv : ∀ c, cfg.conv c = c) (b : Bool) (tail : List Char) :
    LexTok cfg (sp b ++ ['(']) (openTok b) tail := by
  cases b
  · exact lexTok_openCT cfg hconv tail
  · exact lexTok_open_sp cfg hconv tail

theorem lexSeq_close (e : Env) (hconv : ∀ c, e.cfg.conv c = c) {y : List Char} {us : List Token} {tail : List Char}
    (h : LexSeq e.cfg y us tail) : LexSeq e.cfg ([')'] ++ y) (closeTok :: us) tail :=
  LexSeq.cons (LexTokG.lexTok e.cfg (lexTokG_solo e.cfg hconv ')' (y ++ tail) (by simp))) h

theorem punct_close : Punct ')' := by simp [Punct]
theorem punct_space : Punct ' ' := by simp [Punct]
theorem punct_open : Punct '(' := by simp [Punct]

/-- `Atom.WriteTerm` in an operator context -/
theorem lex_atom (e : Env) (hconv : ∀ c, e.cfg.conv c = c) (hcap : CapOK e.cfg) (o : WOpts) (hq : o.quoted = true)
    (a : List Char) {y : List Char} {us : List Token} {tail : List Char} (hc : Cont e o y us tail) :
    LexSeq e.cfg (writeAtom e o a ++ y) (tAtom e o a ++ us) tail := by
  unfold tAtom
  by_cases hoc : ((o.left.isSome || o.right.isSome) && defined o.ops (String.ofList a)) = true
  · rw [writeAtom_oc e o a hq hoc]
    simp only [hoc, if_true]
    have h4 := lexSeq_close e hconv hc.seq
    have h3 := (lexSeqG_atomText e hconv a ([')'] ++ y ++ tail) (HeadIs.cons (Punct.afterOp e a punct_close))).1
    have h34 := LexSeq.append e.cfg (y := [')'] ++ y) (by simpa [List.append_assoc] using h3) h4
    have h1 : LexTok e.cfg (sp (isPrefixOp o.left) ++ ['(']) (openTok (isPrefixOp o.left))
        (atomText e.cfg a ++ ([')'] ++ y) ++ tail) := lexTok_openTok e.cfg hconv _ _
    have := LexSeq.cons h1 h34
    simpa [List.append_assoc] using this
  · have hoc' := Bool.eq_false_iff.mpr hoc
    rw [writeAtom_plain e o a hq hoc']
    simp only [hoc', Bool.false_eq_true, if_false]
    exact leaf_comb e o hc (atomText e.cfg a) (atomTokens e.cfg a) _ _ (fun z => HeadIs (AfterOp e a) z)
      (fun z hz => lexSeqG_atomText e hconv a z hz) (fun z => HeadIs.cons (Punct.afterOp e a punct_space))
      atomR_right (fun hR => follow_atom hcap hc.fol a hR)

/-! ## integers -/

theorem lexSeqG_int (cfg : Cfg) (hconv : ∀ c, cfg.conv c = c) (i : Int) (hlo : -9223372036854775808 ≤ i)
    (hhi : i ≤ 9223372036854775807) (tail : List Char) (ht : IntFollow tail) :
    LexSeqG cfg (formatInt i) (intTokens i) tail := by
  obtain ⟨h1, h2, h3⟩ := decDigits_spec i.natAbs (by omega)
  have hdig := lexTokG_digits cfg hconv _ tail h1 h2 ht
  unfold formatInt intTokens
  by_cases hneg : i < 0
  · simp only [hneg, if_true]
    obtain ⟨d, ds, hds⟩ := List.exists_cons_of_ne_nil h1
    have hm : LexTokG cfg ['-'] minusTok (decDigits i.natAbs ++ tail) := by
      rw [hds]
      exact lexTokG_graphicName cfg hconv ['-'] _ (graphicName_minus cfg)
        (HeadIs.cons (decD_not_gbs d (h2 d (by simp [hds]))))
    exact LexSeqG.cons hconv (x := ['-']) (y := decDigits i.natAbs) hm (LexSeq.single cfg (LexTokG.lexTok cfg hdig))
  · simp only [hneg, if_false, List.nil_append]
    exact LexSeqG.single hconv hdig

theorem IntFollow.punct {c : Char} (h : Punct c) (z : List Char) : IntFollow (c :: z) := by
  obtain ⟨_, _, _, h4, h5, _⟩ := Punct.facts Cfg.ascii h
  refine ⟨HeadIs.cons h4, ?_⟩
  intro c' r' hz
  simp only [List.cons.injEq] at hz
  exact absurd hz.1 h5

theorem follow_int {e : Env} (hcap : CapOK e.cfg) {o : WOpts} {z : List Char} (h : Follow e o z)
    (h1 : ∀ ro, o.right = some ro → letterDigit e.cfg ro.name.toList = false)
    (h2 : ∀ ro, o.right = some ro → needQuoted e.cfg ro.name.toList = true →
      ro.name.toList = [','] ∨ ro.name.toList = ['|']) : IntFollow z := by
  rcases h.cases with h | ⟨ro, c, r, z', hro, rfl, ha, n1, n2⟩
  · cases z with
    | nil => exact ⟨HeadIs.nil _, by intro c r hz; simp at hz⟩
    | cons c z => exact IntFollow.punct (h c rfl) z
  · rcases ha with ha | ⟨rfl, hq⟩ | ⟨_, hb, hsm⟩ | ⟨_, hb, hsm, hgb, hdot⟩
    · exact IntFollow.punct (by rcases ha with h | h | h | h <;> subst h <;> simp [Punct]) _
    · rcases h2 ro hro hq with h | h
      · exact absurd h n1
      · exact absurd h n2
    · have := h1 ro hro
      simp [hb, letterDigit, hsm] at this
    · obtain ⟨g1, g2, g3, g4, g5, _⟩ := gbs_facts (hgb c (by simp))
      refine ⟨HeadIs.cons ⟨g1, g2, g3, g4, g5⟩, ?_⟩
      intro c' r' hz
      simp only [List.cons.injEq] at hz
      obtain ⟨hc, hz⟩ := hz
      cases r with
      | nil => exact absurd rfl (hdot hc)
      | cons c2 r2 =>
        simp only [List.cons_append, List.cons.injEq] at hz
        rw [← hz.1]
        exact (gbs_facts (hgb c2 (by simp))).1

/-- `Integer.WriteTerm` in an operator context -/
theorem lex_int (e : Env) (hconv : ∀ c, e.cfg.conv c = c) (hcap : CapOK e.cfg) (o : WOpts) (i : Int)
    (hlo : -9223372036854775808 ≤ i) (hhi : i ≤ 9223372036854775807)
    {y : List Char} {us : List Token} {tail : List Char} (hc : Cont e o y us tail) :
    LexSeq e.cfg (writeInt e o i ++ y) (tInt o i ++ us) tail := by
  unfold writeInt tInt
  by_cases hoc : (isPrefixMinus o.left && decide (i ≥ 0)) = true
  · simp only [hoc, if_true]
    have h4 := lexSeq_close e hconv hc.seq
    have h3 := (lexSeqG_int e.cfg hconv i hlo hhi ([')'] ++ y ++ tail) (IntFollow.punct punct_close _)).1
    have h34 := LexSeq.append e.cfg (y := [')'] ++ y) (by simpa [List.append_assoc] using h3) h4
    have h1 : LexTok e.cfg [' ', '('] (openTok true) (formatInt i ++ ([')'] ++ y) ++ tail) :=
      lexTok_open_sp e.cfg hconv _
    have := LexSeq.cons h1 h34
    simpa [List.append_assoc] using this
  · simp only [hoc, Bool.false_eq_true, if_false]
    refine leaf_comb e o hc (formatInt i) (intTokens i) _ _ IntFollow
      (fun z hz => lexSeqG_int e.cfg hconv i hlo hhi z hz) (fun z => IntFollow.punct punct_space z)
      (fun hR => by simp only [Bool.and_eq_true] at hR; exact hR.1) (fun hR => follow_int hcap hc.fol ?_ ?_)
    · intro ro hro
      rw [hro] at hR
      simp only [opName, Option.isSome_some, Bool.true_and, Bool.or_eq_false_iff] at hR
      exact hR.1
    · intro ro hro hq
      rw [hro] at hR
      simp only [opName, Option.isSome_some, Bool.true_and, Bool.or_eq_false_iff, hq] at hR
      have := hR.2
      by_cases ha : ro.name.toList = [',']
      · exact .inl ha
      · by_cases hb : ro.name.toList = ['|']
        · exact .inr hb
        · simp [ha, hb] at this

/-! ## floats -/

theorem lexSeqG_float (cfg : Cfg) (hconv : ∀ c, cfg.conv c = c) (g : GText) (hg : g.WF) (tail : List Char)
    (ht : HeadIs FloatTail tail) : LexSeqG cfg (patchFloat g.render) (floatTokens g) tail := by
  rw [patchFloat_render g hg]
  have hb := lexTokG_floatBody cfg hconv g hg tail ht
  unfold signText floatTokens
  by_cases hneg : g.neg = true
  · simp only [hneg, if_true]
    obtain ⟨h1, h2, _⟩ := hg
    obtain ⟨d, is, hip⟩ := List.exists_cons_of_ne_nil h1
    have hbody : ∃ rest, g.body = d :: rest := ⟨_, by unfold GText.body; rw [hip]; rfl⟩
    obtain ⟨rest, hr⟩ := hbody
    have hm : LexTokG cfg ['-'] minusTok (g.body ++ tail) := by
      rw [hr]
      exact lexTokG_graphicName cfg hconv ['-'] _ (graphicName_minus cfg)
        (HeadIs.cons (decD_not_gbs d (h2 d (by simp [hip]))))
    exact LexSeqG.cons hconv (x := ['-']) (y := g.body) hm (LexSeq.single cfg (LexTokG.lexTok cfg hb))
  · simp only [hneg, Bool.false_eq_true, if_false, List.nil_append]
    exact LexSeqG.single hconv hb

theorem follow_float {e : Env} {o : WOpts} {z : List Char} (h : Follow e o z)
    (hR : ∀ ro, o.right = some ro → startsWithExponentChar ro.name.toList = false) : HeadIs FloatTail z := by
  refine h.headIs _ (fun c hc => (Punct.facts e.cfg hc).2.2.2.2.2) ?_
  intro ro c r hro ha
  rcases ha with ha | ⟨rfl, _⟩ | ⟨_, hb, hsm⟩ | ⟨_, hb, hsm, hgb, _⟩
  · exact (Punct.facts e.cfg (by rcases ha with h | h | h | h <;> subst h <;> simp [Punct])).2.2.2.2.2
  · exact ⟨rfl, rfl⟩
  · have := hR ro hro
    simp only [hb, startsWithExponentChar, Bool.or_eq_false_iff, decide_eq_false_iff_not] at this
    exact ⟨(small_facts hsm).2.1, by simp [isExponentChar, this.1, this.2]⟩
  · obtain ⟨g1, _, _, _, _, _, g7, g8⟩ := gbs_facts (hgb c (by simp))
    exact ⟨g1, by simp [isExponentChar, g7, g8]⟩

/-- `Float.WriteTerm` in an operator context -/
theorem lex_float (e : Env) (G : UInt64 → GText) (P : UInt64 → Bool) (he : EnvOK e G P) (o : WOpts) (b : UInt64)
    (hb : P b = true) {y : List Char} {us : List Token} {tail : List Char} (hc : Cont e o y us tail) :
    LexSeq e.cfg (writeFloat e o b ++ y) (tFloat G o b ++ us) tail := by
  unfold writeFloat tFloat
  rw [he.fltText b hb]
  by_cases hoc : (isPrefixMinus o.left && !signbit b) = true
  · simp only [hoc, Bool.true_or, Bool.not_true, Bool.false_and, sp, if_true, Bool.false_eq_true, if_false,
      List.append_nil]
    have h4 := lexSeq_close e he.conv hc.seq
    have h3 := (lexSeqG_float e.cfg he.conv (G b) (he.fltWF b hb) ([')'] ++ y ++ tail)
      (HeadIs.cons (Punct.facts e.cfg punct_close).2.2.2.2.2)).1
    have h34 := LexSeq.append e.cfg (y := [')'] ++ y) (by simpa [List.append_assoc] using h3) h4
    have h1 : LexTok e.cfg [' ', '('] (openTok true) (patchFloat (G b).render ++ ([')'] ++ y) ++ tail) :=
      lexTok_open_sp e.cfg he.conv _
    have := LexSeq.cons h1 h34
    simpa [List.append_assoc] using this
  · simp only [hoc, Bool.false_eq_true, if_false, Bool.false_or, Bool.not_false, Bool.true_and, List.append_nil]
    refine leaf_comb e o hc (patchFloat (G b).render) (floatTokens (G b)) _ _ (fun z => HeadIs FloatTail z)
      (fun z hz => lexSeqG_float e.cfg he.conv (G b) (he.fltWF b hb) z hz)
      (fun z => HeadIs.cons (Punct.facts e.cfg punct_space).2.2.2.2.2)
      (fun hR => by simp only [Bool.and_eq_true] at hR; exact hR.1) (fun hR => follow_float hc.fol ?_)
    intro ro hro
    rw [hro] at hR
    simpa [opName] using hR

end PrologVerif.Write
