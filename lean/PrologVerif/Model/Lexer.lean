/-
  Model of engine/lexer.go (shared by C05, C06; C19/C20 may reuse it).

  The lexer is mirrored function by function, in the order of checks of the Go source, over
  `List Char`.  Conventions:

  * The input is a zipper: `hist` (raw runes consumed so far, most recent first) and `rest`
    (raw runes still to come).  `rawNext` moves one rune from `rest` to `hist`, `backup`
    moves it back.  `rest` therefore holds the runes the 4-slot `runeRingBuffer` has pushed back
    followed by what the underlying reader has not delivered yet.
  * The ring buffer itself is a ghost component `Ring` (`pend` = runes between `start` and
    `end`, `held` = runes behind `start` that are still physically in the 4 slots, `sound` =
    no `UnreadRune` so far stepped over more than the buffer holds).  The ghost component never
    influences the tokens; `Proofs/LexerSpec.lean` proves that `sound` is never lost, `Proofs/LexerRing.lean` that the
    concrete Go ring buffer (`RuneRing`, modulo-4 indices) refines the zipper while `sound` holds.
  * Unbounded loops / recursion take fuel; `Err.fuel` is "out of fuel" and is proved unreachable
    for the fuel `Token` supplies (`Proofs/LexerSpec.lean`).
  * `io.EOF` is the only reader error (the underlying reader is a list).
  * Character classes: ASCII is spelled out here; for code points ≥ 0x80 the Go code consults the
    tables of package `unicode` — an oracle parameter `Cfg` (the driver instantiates it with the
    tables regenerated from the Go toolchain, Generated/Unicode.lean).  `Cfg.conv` is
    `Lexer.charConversions` (never set by the engine outside tests; identity in the driver).
  * Go continuation arguments (`escapeSequence(cont)`) are defunctionalised: the escape functions
    return `Esc.cont` where Go calls `cont()` and the caller continues.
-/
import PrologVerif.Basic
namespace PrologVerif.Lexer

/-! ## configuration: character-class oracle and char_conversion table -/

structure Cfg where
  /-- `unicode.In(r, unicode.Ll, unicode.Lo, unicode.Lm)` for r ≥ 0x80 -/
  lower : Char → Bool
  /-- `unicode.IsUpper(r)` for r ≥ 0x80 -/
  upper : Char → Bool
  /-- `unicode.IsSpace(r)` for r ≥ 0x80 -/
  space : Char → Bool
  /-- `strings.ContainsRune("0123456789ABCDEF", unicode.ToUpper(r))` for r ≥ 0x80 -/
  hexUp : Char → Bool
  /-- `Lexer.conv` -/
  conv : Char → Char

/-- ASCII only, no conversions: what the lexer does on 7-bit input -/
def Cfg.ascii : Cfg := ⟨fun _ => false, fun _ => false, fun _ => false, fun _ => false, id⟩

section
variable (cfg : Cfg)

/-! ## characters (bottom of lexer.go) -/

def graphicAscii : List Char := ['#', '$', '&', '*', '+', '-', '.', '/', ':', '<', '=', '>', '?', '@', '^', '~']

def isGraphicChar (r : Char) : Bool :=
  decide (r ∈ graphicAscii) || decide (0x2200 ≤ r.toNat ∧ r.toNat ≤ 0x22FF) || decide (0x2A00 ≤ r.toNat ∧ r.toNat ≤ 0x2AFF)

def isSmallLetterChar (r : Char) : Bool :=
  if r.toNat < 0x80 then decide (97 ≤ r.toNat ∧ r.toNat ≤ 122) else cfg.lower r

def isCapitalLetterChar (r : Char) : Bool :=
  if r.toNat < 0x80 then decide (65 ≤ r.toNat ∧ r.toNat ≤ 90) else cfg.upper r

def isDecimalDigitChar (r : Char) : Bool := decide (48 ≤ r.toNat ∧ r.toNat ≤ 57)
def isBinaryDigitChar (r : Char) : Bool := decide (r = '0' ∨ r = '1')
def isOctalDigitChar (r : Char) : Bool := decide (48 ≤ r.toNat ∧ r.toNat ≤ 55)

def isHexadecimalDigitChar (r : Char) : Bool :=
  if r.toNat < 0x80 then
    decide ((48 ≤ r.toNat ∧ r.toNat ≤ 57) ∨ (65 ≤ r.toNat ∧ r.toNat ≤ 70) ∨ (97 ≤ r.toNat ∧ r.toNat ≤ 102))
  else cfg.hexUp r

def isUnderscoreChar (r : Char) : Bool := decide (r = '_')
def isLetterChar (r : Char) : Bool := isCapitalLetterChar cfg r || isSmallLetterChar cfg r
def isAlphaChar (r : Char) : Bool := isUnderscoreChar r || isLetterChar cfg r
def isAlphanumericChar (r : Char) : Bool := isAlphaChar cfg r || isDecimalDigitChar r

def soloChars : List Char := ['!', '(', ')', ',', ';', '[', ']', '{', '}', '|', '%']
def isSoloChar (r : Char) : Bool := decide (r ∈ soloChars)

def isLayoutChar (r : Char) : Bool :=
  if r.toNat < 0x80 then decide ((9 ≤ r.toNat ∧ r.toNat ≤ 13) ∨ r = ' ') else cfg.space r

def isMetaChar (r : Char) : Bool := decide (r = '\\' ∨ r = '\'' ∨ r = '"' ∨ r = '`')
def isSymbolicControlChar (r : Char) : Bool :=
  decide (r = 'a' ∨ r = 'b' ∨ r = 'r' ∨ r = 'f' ∨ r = 't' ∨ r = 'n' ∨ r = 'v')

def isSingleQuotedCharacter (r : Char) : Bool :=
  isGraphicChar r || isAlphanumericChar cfg r || isSoloChar r || decide (r = ' ') || decide (r = '"') || decide (r = '`')

def isExponentChar (r : Char) : Bool := decide (r = 'e' ∨ r = 'E')
def isSignChar (r : Char) : Bool := decide (r = '-' ∨ r = '+')

/-! ## tokens -/

inductive Kind
  | invalid | letterDigit | graphic | quoted | semicolon | cut | variable | integer | floatNumber
  | doubleQuotedList | open_ | openCT | close | openList | closeList | openCurly | closeCurly
  | bar | comma | end_
  deriving DecidableEq, Repr, Inhabited

/-- `tokenKind.String()` -/
def Kind.name : Kind → String
  | .invalid => "invalid" | .letterDigit => "letter digit" | .graphic => "graphic"
  | .quoted => "quoted" | .semicolon => "semicolon" | .cut => "cut" | .variable => "variable"
  | .integer => "integer" | .floatNumber => "float number"
  | .doubleQuotedList => "double quoted list" | .open_ => "open" | .openCT => "open ct"
  | .close => "close" | .openList => "open list" | .closeList => "close list"
  | .openCurly => "open curly" | .closeCurly => "close curly" | .bar => "bar" | .comma => "comma"
  | .end_ => "end"

structure Token where
  kind : Kind
  val : List Char
  deriving DecidableEq, Repr, Inhabited

/-- `soloTokenKinds` (every other index of the array holds the zero value `tokenInvalid`) -/
def soloTokenKind (r : Char) : Kind :=
  if r = ';' then .semicolon else if r = '!' then .cut else if r = ')' then .close
  else if r = '[' then .openList else if r = ']' then .closeList
  else if r = '{' then .openCurly else if r = '}' then .closeCurly
  else if r = '|' then .bar else if r = ',' then .comma else .invalid

/-! ## input: zipper + ghost ring buffer -/

/-- ghost state of `runeRingBuffer` -/
structure Ring where
  pend : Nat := 0
  held : Nat := 0
  sound : Bool := true
  deriving DecidableEq, Repr

/-- effect of `ReadRune` on the ring: a pushed-back rune is served from the buffer (`pend-1`,
    `held+1`), otherwise a rune is fetched from the reader, `put` (overwriting the oldest slot) and
    `get` (`held+1`, at most 4).  Both cases in one formula — they coincide because
    `held + pend ≤ 4` (there are 4 slots), checked against the modulo-4 code in Proofs/LexerRing.lean -/
def Ring.read (g : Ring) : Ring :=
  { g with pend := g.pend - 1, held := min (g.held + 1) 4 }

/-- effect of `UnreadRune`: `start--`.  It is sound only if the slot behind `start` still holds the
    rune that was read last (`held ≥ 1`) and `start` does not run into `end` (4 pushed-back runes
    would make the buffer look empty) -/
def Ring.unread (g : Ring) : Ring :=
  { pend := g.pend + 1, held := g.held - 1, sound := g.sound && decide (1 ≤ g.held ∧ g.pend ≤ 2) }

structure Lexer where
  hist : List Char := []
  rest : List Char
  /-- `l.buf.Bytes()[l.offset:]` -/
  chunk : List Char := []
  ring : Ring := {}
  deriving DecidableEq, Repr

def Lexer.ofList (s : List Char) : Lexer := { rest := s }

inductive Err | eof | fuel
  deriving DecidableEq, Repr

abbrev Res := Except Err (Token × Lexer)

/-- `l.rawNext()`; `none` is io.EOF (the state does not change) -/
def rawNext (l : Lexer) : Option (Char × Lexer) :=
  match l.rest with
  | [] => none
  | r :: rest => some (r, { l with hist := r :: l.hist, rest := rest, ring := l.ring.read })

/-- `l.next()` -/
def next (l : Lexer) : Option (Char × Lexer) :=
  match rawNext l with
  | none => none
  | some (r, l') => some (cfg.conv r, l')

/-- `l.backup()` -/
def backup (l : Lexer) : Lexer :=
  match l.hist with
  | [] => { l with rest := '\x00' :: l.rest, ring := l.ring.unread }   -- a fresh slot holds the zero rune; unsound
  | r :: h => { l with hist := h, rest := r :: l.rest, ring := l.ring.unread }

/-- `l.accept(r)` -/
def accept (l : Lexer) (r : Char) : Lexer := { l with chunk := l.chunk ++ [r] }

/-- `Token{kind: k, val: l.chunk()}, nil` -/
def emit (k : Kind) (l : Lexer) : Res := .ok (⟨k, l.chunk⟩, l)

/-! ## unquote (parser.go; the lexer uses it to reject out-of-range escapes) -/

/-- `string(rune(r))` for the result `n` of `strconv.ParseInt`: invalid code points become U+FFFD -/
def runeError : Char := Char.ofNat 0xFFFD

def runeOfNat (n : Nat) : Char :=
  if h : n.isValidChar then Char.ofNatAux n h else runeError

def hexDigitVal (c : Char) : Nat :=
  if 48 ≤ c.toNat ∧ c.toNat ≤ 57 then c.toNat - 48
  else if 65 ≤ c.toNat ∧ c.toNat ≤ 70 then c.toNat - 55
  else c.toNat - 87

/-- `strconv.ParseInt(s, base, 32)` with the error ignored, for s made of digits of the regexp's
    classes: a digit ≥ base is a syntax error (value 0), a value ≥ 2^31 is a range error (value
    2^31-1) -/
def parseIntBase (base : Nat) (ds : List Char) : Nat :=
  if ds.any (fun c => hexDigitVal c ≥ base) then 0
  else
    let v := ds.foldl (fun acc c => acc * base + hexDigitVal c) 0
    if v ≥ 2147483648 then 2147483647 else v

/-- ASCII hex digit, the class `[\da-fA-F]` of the regexp -/
def isHexAscii (c : Char) : Bool :=
  decide ((48 ≤ c.toNat ∧ c.toNat ≤ 57) ∨ (65 ≤ c.toNat ∧ c.toNat ≤ 70) ∨ (97 ≤ c.toNat ∧ c.toNat ≤ 102))

/-- the class `[0-8]` of the regexp (sic) -/
def isOct08 (c : Char) : Bool := decide (48 ≤ c.toNat ∧ c.toNat ≤ 56)

/-- scanner states of `quotedIdentEscapePattern` = `''|\\(?:[\nabfnrtv\\'"`]|(?:x[\da-fA-F]+|[0-8]+)\\)` -/
inductive UQ
  | norm                    -- between matches
  | quote                   -- seen `'`
  | bs                      -- seen `\`
  | hex (ds : List Char)    -- seen `\x` ds
  | oct (ds : List Char)    -- seen `\` ds, ds ≠ []

/-- the symbolic escapes of `quotedIdentUnescape` -/
def symbolicEscape (c : Char) : Option (List Char) :=
  if c = '\n' then some [] else if c = 'a' then some ['\x07'] else if c = 'b' then some ['\x08']
  else if c = 'f' then some ['\x0c'] else if c = 'n' then some ['\n'] else if c = 'r' then some ['\r']
  else if c = 't' then some ['\t'] else if c = 'v' then some ['\x0b'] else if c = '\\' then some ['\\']
  else if c = '\'' then some ['\''] else if c = '"' then some ['"'] else if c = '`' then some ['`']
  else none

/-- what the scanner makes of the text: characters that stand for themselves (or come from a
    symbolic escape) and octal / hexadecimal escape sequences -/
inductive Item
  | ch (c : Char)
  | num (base : Nat) (ds : List Char)

/-- the matches of `quotedIdentEscapePattern` in a text, as a left-to-right scanner; `q` is the quote
    character whose doubling is an escape (`'` for quoted atoms, `"` for double-quoted lists).  A
    partial match that fails is copied verbatim and scanning resumes at the failing character (none
    of the characters of a partial match after its first can start a match). -/
def scan (q : Char) : UQ → List Char → List Item
  | .norm, [] => []
  | .quote, [] => [.ch q]
  | .bs, [] => [.ch '\\']
  | .hex ds, [] => (('\\' :: 'x' :: ds).map .ch)
  | .oct ds, [] => (('\\' :: ds).map .ch)
  | st, c :: cs =>
    let normStep : List Item :=
      if c = q then scan q .quote cs
      else if c = '\\' then scan q .bs cs
      else .ch c :: scan q .norm cs
    match st with
    | .norm => normStep
    | .quote => if c = q then .ch q :: scan q .norm cs else .ch q :: normStep
    | .bs =>
      match symbolicEscape c with
      | some out => out.map .ch ++ scan q .norm cs
      | none =>
        if c = 'x' then scan q (.hex []) cs
        else if isOct08 c then scan q (.oct [c]) cs
        else .ch '\\' :: normStep
    | .hex ds =>
      if isHexAscii c then scan q (.hex (ds ++ [c])) cs
      else if c = '\\' ∧ ds ≠ [] then .num 16 ds :: scan q .norm cs
      else (('\\' :: 'x' :: ds).map .ch) ++ normStep
    | .oct ds =>
      if isOct08 c then scan q (.oct (ds ++ [c])) cs
      else if c = '\\' then .num 8 ds :: scan q .norm cs
      else (('\\' :: ds).map .ch) ++ normStep

/-- `quotedIdentUnescape` on one match -/
def Item.char : Item → Char
  | .ch c => c
  | .num base ds => runeOfNat (parseIntBase base ds)

/-- `numericEscape(m)` reports ok: `strconv.ParseInt` succeeded and the value is a valid rune -/
def Item.ok : Item → Bool
  | .ch _ => true
  | .num base ds =>
    !(ds.any (fun c => hexDigitVal c ≥ base)) &&
    decide ((ds.foldl (fun acc c => acc * base + hexDigitVal c) 0).isValidChar)

/-- `ReplaceAllStringFunc(s, quotedIdentUnescape)` -/
def unescapeFrom (q : Char) (st : UQ) (s : List Char) : List Char := (scan q st s).map Item.char

/-- `s[1:len(s)-1]` -/
def stripEnds (s : List Char) : List Char := (s.drop 1).dropLast

/-- `unquote(s)` -/
def unquote (s : List Char) : List Char := unescapeFrom '\'' .norm (stripEnds s)

/-- `unDoubleQuote(s)` -/
def unDoubleQuote (s : List Char) : List Char := unescapeFrom '"' .norm (stripEnds s)

/-- `validEscapeSequences(s)` -/
def validEscapeSequences (s : List Char) : Bool := (scan '\'' .norm (stripEnds s)).all Item.ok

/-! ## names, variables -/

def letterDigitToken : Nat → Lexer → Res
  | 0, _ => .error .fuel
  | fuel + 1, l =>
    match next cfg l with
    | none => emit .letterDigit l
    | some (r, l1) =>
      if isAlphanumericChar cfg r then letterDigitToken fuel (accept l1 r)
      else emit .letterDigit (backup l1)

def graphicToken : Nat → Lexer → Res
  | 0, _ => .error .fuel
  | fuel + 1, l =>
    match next cfg l with
    | none => emit .graphic l
    | some (r, l1) =>
      if isGraphicChar r ∨ r = '\\' then graphicToken fuel (accept l1 r)
      else emit .graphic (backup l1)

def variableToken : Nat → Lexer → Res
  | 0, _ => .error .fuel
  | fuel + 1, l =>
    match next cfg l with
    | none => emit .variable l
    | some (r, l1) =>
      if isAlphanumericChar cfg r then variableToken fuel (accept l1 r)
      else emit .variable (backup l1)

/-! ## escape sequences -/

/-- result of an escape-sequence function: Go either returns an invalid token or calls `cont()` -/
inductive Esc | invalid | cont
  deriving DecidableEq, Repr

abbrev EscRes := Except Err (Esc × Lexer)

def octalEscapeSequence : Nat → Lexer → EscRes
  | 0, _ => .error .fuel
  | fuel + 1, l =>
    match rawNext l with
    | none => .error .eof
    | some (r, l1) =>
      if r = '\\' then .ok (.cont, accept l1 r)
      else if isOctalDigitChar r then octalEscapeSequence fuel (accept l1 r)
      else .ok (.invalid, accept l1 r)

/-- the loop of `hexadecimalEscapeSequence` (it reads with `next`, not `rawNext`) -/
def hexadecimalEscapeLoop : Nat → Lexer → EscRes
  | 0, _ => .error .fuel
  | fuel + 1, l =>
    match next cfg l with
    | none => .error .eof
    | some (r, l1) =>
      if r = '\\' then .ok (.cont, accept l1 r)
      else if isHexadecimalDigitChar cfg r then hexadecimalEscapeLoop fuel (accept l1 r)
      else .ok (.invalid, accept l1 r)

def hexadecimalEscapeSequence (fuel : Nat) (l : Lexer) : EscRes :=
  match rawNext l with
  | none => .error .eof
  | some (r, l1) =>
    if isHexadecimalDigitChar cfg r then hexadecimalEscapeLoop cfg fuel (accept l1 r)
    else .ok (.invalid, accept l1 r)

def escapeSequence (fuel : Nat) (l : Lexer) : EscRes :=
  match rawNext l with
  | none => .error .eof
  | some (r, l1) =>
    if isMetaChar r ∨ isSymbolicControlChar r then .ok (.cont, accept l1 r)
    else if isOctalDigitChar r then octalEscapeSequence fuel (accept l1 r)
    else if r = 'x' then hexadecimalEscapeSequence cfg fuel (accept l1 r)
    else .ok (.invalid, accept l1 r)

/-- how every caller of `escapeSequence(cont)` continues: Go returns the invalid token from inside
    the escape function, or calls `cont()` -/
def escThen {α : Type} (r : EscRes) (onInvalid onCont : Lexer → Except Err (α × Lexer)) : Except Err (α × Lexer) :=
  match r with
  | .error e => .error e
  | .ok (.invalid, l') => onInvalid l'
  | .ok (.cont, l') => onCont l'

/-! ## quoted tokens -/

/-- the end of `quotedToken` after the closing quote: "Checks if it contains invalid octal or
    hexadecimal escape sequences" -/
def finishQuoted (l : Lexer) : Res :=
  if validEscapeSequences l.chunk then emit .quoted l else emit .invalid l

def quotedToken : Nat → Lexer → Res
  | 0, _ => .error .fuel
  | fuel + 1, l =>
    match rawNext l with
    | none => .error .eof
    | some (r, l1) =>
      if isSingleQuotedCharacter cfg r then quotedToken fuel (accept l1 r)
      else if r = '\'' then
        let l2 := accept l1 r
        match rawNext l2 with
        | none => finishQuoted l2
        | some (r', l3) =>
          if r' = '\'' then quotedToken fuel (accept l3 r')
          else finishQuoted (backup l3)
      else if r = '\\' then
        let l2 := accept l1 r
        match rawNext l2 with
        | none => escThen (escapeSequence cfg fuel l2) (emit .invalid) (quotedToken fuel)
        | some (r', l3) =>
          if r' = '\n' then quotedToken fuel (accept l3 r')
          else escThen (escapeSequence cfg fuel (backup l3)) (emit .invalid) (quotedToken fuel)
      else emit .invalid (accept l1 r)

def doubleQuotedListToken : Nat → Lexer → Res
  | 0, _ => .error .fuel
  | fuel + 1, l =>
    match rawNext l with
    | none => .error .eof
    | some (r, l1) =>
      if r = '"' then
        let l2 := accept l1 r
        match next cfg l2 with
        | none => emit .doubleQuotedList l2
        | some (r', l3) =>
          if r' = '"' then doubleQuotedListToken fuel (accept l3 r')
          else emit .doubleQuotedList (backup l3)
      else if r = '\\' then
        let l2 := accept l1 r
        match next cfg l2 with
        | none => .error .eof
        | some (r', l3) =>
          if r' = '\n' then doubleQuotedListToken fuel (accept l3 r')
          else escThen (escapeSequence cfg fuel (backup l3)) (emit .invalid) (doubleQuotedListToken fuel)
      else doubleQuotedListToken fuel (accept l1 r)

/-! ## numbers -/

/-- `binaryConstant`, `octalConstant`, `hexadecimalConstant`, `exponent`: the same loop over a digit class -/
def digitLoop (isDigit : Char → Bool) (k : Kind) : Nat → Lexer → Res
  | 0, _ => .error .fuel
  | fuel + 1, l =>
    match next cfg l with
    | none => emit k l
    | some (r, l1) =>
      if isDigit r then digitLoop isDigit k fuel (accept l1 r)
      else emit k (backup l1)

def binaryConstant := digitLoop cfg isBinaryDigitChar .integer
def octalConstant := digitLoop cfg isOctalDigitChar .integer
def hexadecimalConstant := digitLoop cfg (isHexadecimalDigitChar cfg) .integer
def exponent := digitLoop cfg isDecimalDigitChar .floatNumber

def fraction : Nat → Lexer → Res
  | 0, _ => .error .fuel
  | fuel + 1, l =>
    match next cfg l with
    | none => emit .floatNumber l
    | some (r, l1) =>
      if isDecimalDigitChar r then fraction fuel (accept l1 r)
      else if isExponentChar r then
        -- first inner switch: an optional sign
        match next cfg l1 with
        | none => emit .floatNumber (backup l1)                      -- `e` at end of input
        | some (r1, l2) =>
          let sign : Option Char := if isSignChar r1 then some r1 else none
          let l3 := if isSignChar r1 then l2 else backup l2
          -- second inner switch: a digit must follow
          match next cfg l3 with
          | none =>
            let l4 := if sign.isSome then backup l3 else l3
            emit .floatNumber (backup l4)
          | some (r2, l4) =>
            if isDecimalDigitChar r2 then
              let l5 := accept (backup l4) r
              let l6 := match sign with | some s => accept l5 s | none => l5
              exponent cfg fuel l6
            else
              let l5 := backup l4
              let l6 := if sign.isSome then backup l5 else l5
              emit .floatNumber (backup l6)
      else emit .floatNumber (backup l1)

def integerConstant : Nat → Lexer → Res
  | 0, _ => .error .fuel
  | fuel + 1, l =>
    match next cfg l with
    | none => emit .integer l
    | some (r, l1) =>
      if isDecimalDigitChar r then integerConstant fuel (accept l1 r)
      else if r = '.' then
        match next cfg l1 with
        | none => emit .integer (backup l1)
        | some (r', l2) =>
          if isDecimalDigitChar r' then fraction cfg fuel (accept (accept l2 '.') r')
          else emit .integer (backup (backup l2))
      else emit .integer (backup l1)

def characterCodeConstant (fuel : Nat) (l : Lexer) : Res :=
  match next cfg l with
  | none => .error .eof
  | some (r, l1) =>
    if r = '\'' then
      let l2 := accept l1 r
      -- `r, _ := l.next() // r == '\''` : the error is ignored, r is the zero rune then
      match next cfg l2 with
      | none => emit .integer (accept l2 '\x00')
      | some (r', l3) => emit .integer (accept l3 r')
    else if r = '\\' then
      escThen (escapeSequence cfg fuel (accept l1 r)) (emit .invalid) (emit .integer)
    else if isGraphicChar r ∨ isAlphanumericChar cfg r ∨ isSoloChar r ∨ r = ' ' then emit .integer (accept l1 r)
    else emit .invalid (accept l1 r)

/-- `integerTokenCharacterCode(r)`; `q` is the parameter r (the quote just read) -/
def integerTokenCharacterCode (fuel : Nat) (q : Char) (l : Lexer) : Res :=
  let go (l : Lexer) : Res := characterCodeConstant cfg fuel (accept l q)
  match next cfg l with
  | none => go l
  | some (r, l1) =>
    if r = '\'' then
      match next cfg l1 with
      | none => emit .integer (backup (backup l1))                  -- 0
      | some (r', l2) =>
        if r' = '\'' then go (backup (backup l2))                    -- 0'''
        else emit .integer (backup (backup (backup l2)))             -- 0
    else if r = '\\' then
      match next cfg l1 with
      | none => go (backup l1)
      | some (r', l2) =>
        if r' = '\n' then emit .integer (backup (backup (backup l2)))  -- 0
        else go (backup (backup l2))
    else go (backup l1)

/-- `integerTokenBinary/Octal/Hexadecimal(r)`; `p` is the parameter r (`b`, `o`, `x`) -/
def integerTokenRadix (isDigit : Char → Bool) (fuel : Nat) (p : Char) (l : Lexer) : Res :=
  match next cfg l with
  | none => emit .integer (backup l)
  | some (r, l1) =>
    if isDigit r then digitLoop cfg isDigit .integer fuel (accept (backup l1) p)
    else emit .integer (backup (backup l1))

def integerTokenBinary := integerTokenRadix cfg isBinaryDigitChar
def integerTokenOctal := integerTokenRadix cfg isOctalDigitChar
def integerTokenHexadecimal := integerTokenRadix cfg (isHexadecimalDigitChar cfg)

def integerToken (fuel : Nat) (first : Char) (l : Lexer) : Res :=
  if first = '0' then
    let l0 := accept l first
    match next cfg l0 with
    | none => integerConstant cfg fuel l0
    | some (r, l1) =>
      if r = '\'' then integerTokenCharacterCode cfg fuel r l1
      else if r = 'b' then integerTokenBinary cfg fuel r l1
      else if r = 'o' then integerTokenOctal cfg fuel r l1
      else if r = 'x' then integerTokenHexadecimal cfg fuel r l1
      else integerConstant cfg fuel (backup l1)
  else integerConstant cfg fuel (accept l first)

/-! ## tokens -/

def wasEndChar (l : Lexer) : Bool × Lexer :=
  match next cfg l with
  | none => (true, l)
  | some (r, l1) => (isLayoutChar cfg r || decide (r = '%'), backup l1)

def token (fuel : Nat) (afterLayout : Bool) (l : Lexer) : Res :=
  match next cfg l with
  | none => .error .eof
  | some (r, l1) =>
    if isSmallLetterChar cfg r then letterDigitToken cfg fuel (accept l1 r)
    else if r = '.' then
      let l2 := accept l1 r
      let (e, l3) := wasEndChar cfg l2
      if e then emit .end_ l3 else graphicToken cfg fuel l3
    else if isGraphicChar r ∨ r = '\\' then graphicToken cfg fuel (accept l1 r)
    else if r = '\'' then quotedToken cfg fuel (accept l1 r)
    else if r = '_' ∨ isCapitalLetterChar cfg r then variableToken cfg fuel (accept l1 r)
    else if isDecimalDigitChar r then integerToken cfg fuel r l1
    else if r = '"' then doubleQuotedListToken cfg fuel (accept l1 r)
    else if r = '(' then emit (if afterLayout then .open_ else .openCT) (accept l1 r)
    else emit (soloTokenKind r) (accept l1 r)

/-! ## layout text -/

mutual
  def layoutTextSequence : Nat → Bool → Lexer → Res
    | 0, _, _ => .error .fuel
    | fuel + 1, afterLayout, l =>
      match next cfg l with
      | none => token cfg fuel afterLayout l
      | some (r, l1) =>
        if isLayoutChar cfg r then layoutTextSequence fuel true l1
        else if r = '%' then commentText fuel false l1
        else if r = '/' then commentOpen fuel l1
        else token cfg fuel afterLayout (backup l1)
  def commentText : Nat → Bool → Lexer → Res
    | 0, _, _ => .error .fuel
    | fuel + 1, bracketed, l =>
      match next cfg l with
      | none => .error .eof
      | some (r, l1) =>
        if bracketed then
          if r = '*' then commentClose fuel l1 else commentText fuel true l1
        else
          if r = '\n' then layoutTextSequence fuel true l1 else commentText fuel false l1
  def commentOpen : Nat → Lexer → Res
    | 0, _ => .error .fuel
    | fuel + 1, l =>
      match next cfg l with
      | none => graphicToken cfg fuel (accept l '/')
      | some (r, l1) =>
        if r = '*' then commentText fuel true l1
        else graphicToken cfg fuel (accept (backup l1) '/')
  def commentClose : Nat → Lexer → Res
    | 0, _ => .error .fuel
    | fuel + 1, l =>
      match next cfg l with
      | none => .error .eof
      | some (r, l1) =>
        if r = '/' then layoutTextSequence fuel true l1
        else if r = '*' then commentClose fuel l1
        else commentText fuel true l1
end

/-- fuel that always suffices for one `Token` call (proved in Proofs/LexerSpec.lean): every
    recursive call of the model is preceded by reading a rune, and a token looks at most 3 runes
    ahead -/
def tokenFuel (l : Lexer) : Nat := 2 * l.rest.length + 8

/-- `l.Token()` -/
def lexToken (l : Lexer) : Res :=
  layoutTextSequence cfg (tokenFuel l) false { l with chunk := [] }

/-- all tokens up to the first error (`VerifTokens`); `n` bounds the number of tokens -/
def tokens : Nat → Lexer → List Token × Err
  | 0, _ => ([], .fuel)
  | n + 1, l =>
    match lexToken cfg l with
    | .error e => ([], e)
    | .ok (t, l') => let r := tokens n l'; (t :: r.1, r.2)

end

end PrologVerif.Lexer
