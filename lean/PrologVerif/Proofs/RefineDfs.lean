/-
  Refine, part 11 — the search: the recursive depth-first search of the VM's promises
  (`DFSG.dfsP` / `dfsAlts` over `VM.sem F`) against the reference interpreter's `solve` /
  `solveAlts`, by induction on the fuel of the search.  Whenever both terminate, the answers
  recorded by the VM are those of the reference, in order, and the search ends the same way.
-/
import PrologVerif.Proofs.RefineContRun
import PrologVerif.Proofs.ForceDFSGConv
namespace PrologVerif.Refine
open PrologVerif PrologVerif.VM PrologVerif.DecompileCompile PrologVerif.Activation
  PrologVerif.RefineITree PrologVerif.RefineRobinson PrologVerif.VMScoped
  PrologVerif.Promise PrologVerif.DFSG PrologVerif.ForceDFSGConv

/-! ### the reference interpreter, unfolded -/

theorem solveAlts_clause (prog : List Term) (n d nv : Nat) (g c : Term) (as : List SLD.Alt) (rest : List SLD.Frame)
    (q : Term) (limit : Nat) :
    SLD.solveAlts false prog (n + 1) d nv (.clause g c :: as) rest q limit =
      match SLD.unify n g (SLD.headBody (SLD.shift nv c)).1 with
      | .undefined => none
      | .fail => (SLD.solveAlts false prog n d nv as rest q (limit - 0)).map (SLD.Res.prepend [])
      | .mgu θ =>
        match SLD.solve false prog n (d + 1) (nv + SLD.maxVar c)
            ((SLD.bodyFrames false (SLD.headBody (SLD.shift nv c)).2 d ++ rest).map (SLD.Frame.subst θ))
            (Robinson.applySubst θ q) limit with
        | none => none
        | some r =>
          match r.stop with
          | .exhausted => (SLD.solveAlts false prog n d nv as rest q (limit - r.answers.length)).map (SLD.Res.prepend r.answers)
          | .cut c' => some { r with stop := if c' = d then .exhausted else .cut c' }
          | _ => some r := by
  rw [SLD.solveAlts]
  rfl

theorem headBody_shift_rule (nv : Nat) (h b : Term) :
    SLD.headBody (SLD.shift nv (SLD.rule h b)) = (SLD.shift nv h, SLD.shift nv b) := by
  simp [SLD.rule, SLD.mk2, SLD.shift, SLD.shiftArgs, SLD.headBody]

theorem conjuncts_leaf (t : Term) (h : ∀ a b, t ≠ .app "," (.cons a (.cons b .nil))) :
    SLD.conjuncts t = [SLD.wrapVar t] := by
  unfold SLD.conjuncts
  split
  · rename_i a b; exact absurd rfl (h a b)
  · rfl

theorem conjuncts_shift (k : Nat) (b : Term) : SLD.conjuncts (SLD.shift k b) = (SLD.conjuncts b).map (SLD.shift k) := by
  fun_induction SLD.conjuncts b with
  | case1 a b iha ihb =>
    simp only [SLD.shift, SLD.shiftArgs, SLD.conjuncts, List.map_append, iha, ihb]
  | case2 t hne =>
    have : ∀ a b, SLD.shift k t ≠ .app "," (.cons a (.cons b .nil)) := by
      intro a b heq
      cases t with
      | app f as =>
        simp only [SLD.shift, Term.app.injEq] at heq
        obtain ⟨rfl, has⟩ := heq
        cases as with
        | nil => simp [SLD.shiftArgs] at has
        | cons x xs => cases xs with
          | nil => simp [SLD.shiftArgs] at has
          | cons y ys => cases ys with
            | nil => exact hne x y rfl
            | cons _ _ => simp [SLD.shiftArgs] at has
      | _ => simp [SLD.shift] at heq
    rw [conjuncts_leaf _ this]
    cases t <;> simp [SLD.shift, SLD.wrapVar, SLD.call1, SLD.shiftArgs]

theorem prepend_nil (r : SLD.Res) : SLD.Res.prepend [] r = r := by
  cases r; simp [SLD.Res.prepend]

/-! ### levels along the path -/

theorem lev_cons_self (id : Nat) (o : Option Nat) (lv : Lv) : Lv.lev ((id, o) :: lv) id = o := by
  simp [Lv.lev, List.lookup]

theorem lev_cons_ne {id c : Nat} (o : Option Nat) (lv : Lv) (h : c ≠ id) : Lv.lev ((id, o) :: lv) c = lv.lev c := by
  have : (c == id) = false := by simpa using h
  simp [Lv.lev, List.lookup, this]

theorem mem_ids_of_lev {lv : Lv} {c l : Nat} (h : lv.lev c = some l) : c ∈ lv.map Prod.fst :=
  List.mem_map_of_mem (f := Prod.fst) (Lv.mem_of_lev h)

theorem LvOK.lev_lt {lv : Lv} {d c l : Nat} (h : LvOK mo lv d) (hl : lv.lev c = some l) : l < d :=
  h.below _ (Lv.mem_of_lev hl) l rfl

theorem LvOK.push {lv : Lv} {d id : Nat} (h : LvOK mo lv d) (hid : id ≠ 0) (hn : id ∉ lv.map Prod.fst) :
    LvOK mo ((id, some d) :: lv) (d + 1) := by
  refine ⟨List.nodup_cons.2 ⟨hn, h.nodup⟩, ?_, ?_, ?_, fun dN hdN => Nat.lt_succ_of_lt (h.lo dN hdN), ?_⟩
  rotate_right
  · intro dN hdN e he l hl
    rcases List.mem_cons.1 he with rfl | he
    · simp only [Option.some.injEq] at hl; subst hl; exact h.lo dN hdN
    · exact h.above dN hdN e he l hl
  · intro e he
    rcases List.mem_cons.1 he with rfl | he
    · exact hid
    · exact h.nz e he
  · refine List.pairwise_cons.2 ⟨?_, h.mono⟩
    intro b hb la lb hla hlb
    simp only [Option.some.injEq] at hla
    subst hla
    exact h.below b hb lb hlb
  · intro e he l hl
    rcases List.mem_cons.1 he with rfl | he
    · simp only [Option.some.injEq] at hl; omega
    · have := h.below e he l hl; omega

theorem LvOK.pushNone {lv : Lv} {d id : Nat} (h : LvOK mo lv d) (hid : id ≠ 0) (hn : id ∉ lv.map Prod.fst) :
    LvOK mo ((id, none) :: lv) d := by
  refine ⟨List.nodup_cons.2 ⟨hn, h.nodup⟩, ?_, ?_, ?_, h.lo, ?_⟩
  rotate_right
  · intro dN hdN e he l hl
    rcases List.mem_cons.1 he with rfl | he
    · cases hl
    · exact h.above dN hdN e he l hl
  · intro e he
    rcases List.mem_cons.1 he with rfl | he
    · exact hid
    · exact h.nz e he
  · refine List.pairwise_cons.2 ⟨?_, h.mono⟩
    intro b _ la lb hla _
    cases hla
  · intro e he l hl
    rcases List.mem_cons.1 he with rfl | he
    · cases hl
    · exact h.below e he l hl

theorem map_fst_dropWhile (cp : Nat) : ∀ lv : Lv,
    (lv.dropWhile (fun e => e.1 ≠ cp)).map Prod.fst = (lv.map Prod.fst).dropWhile (· ≠ cp)
  | [] => rfl
  | e :: lv => by
    have ih := map_fst_dropWhile cp lv
    by_cases h : e.1 = cp
    · simp [List.dropWhile, h]
    · simp only [List.dropWhile, List.map_cons, ne_eq, h, not_false_eq_true, decide_true]
      exact ih

theorem LvOK.drop {lv : Lv} {d : Nat} (h : LvOK mo lv d) (cp : Nat) : LvOK mo (lv.dropWhile (fun e => e.1 ≠ cp)) d := by
  have hsub := List.dropWhile_sublist (fun e : Nat × Option Nat => decide (e.1 ≠ cp)) (l := lv)
  refine ⟨(hsub.map Prod.fst).nodup h.nodup, fun e he => h.nz e (hsub.subset he), h.mono.sublist hsub,
    fun e he => h.below e (hsub.subset he), h.lo, fun dN hdN e he => h.above dN hdN e (hsub.subset he)⟩

/-- an element whose level is at most the level of `cp` is `cp` itself or further out -/
theorem mem_drop_of_le {lv : Lv} {d : Nat} (h : LvOK mo lv d) {cp l c l' : Nat} (hcp : lv.lev cp = some l)
    (hc : lv.lev c = some l') (hle : l' ≤ l) : (c, some l') ∈ lv.dropWhile (fun e => e.1 ≠ cp) := by
  have hmc := Lv.mem_of_lev hc
  have hmcp := Lv.mem_of_lev hcp
  clear hc hcp
  have hmono := h.mono
  clear h
  induction lv with
  | nil => simp at hmc
  | cons e lv ih =>
    by_cases he : e.1 = cp
    · simp only [List.dropWhile, he, ne_eq, not_true_eq_false, decide_false]
      exact hmc
    · simp only [List.dropWhile, he, ne_eq, not_false_eq_true, decide_true]
      have hmcp' : (cp, some l) ∈ lv := by
        rcases List.mem_cons.1 hmcp with h | h
        · exact absurd (by rw [← h]) he
        · exact h
      obtain ⟨hhead, htail⟩ := List.pairwise_cons.1 hmono
      rcases List.mem_cons.1 hmc with h | h
      · -- c is the head, strictly inside cp: its level is larger
        have := hhead _ hmcp' l' l (by rw [← h]) rfl
        omega
      · exact ih h hmcp' htail

theorem lev_of_sub {lv lv' : Lv} (hsub : lv'.Sublist lv) (hn : (lv.map Prod.fst).Nodup) {c : Nat} {l : Nat}
    (h : lv'.lev c = some l) : lv.lev c = some l := by
  have := Lv.lev_of_mem hn (hsub.subset (Lv.mem_of_lev h))
  simpa using this

/-! ### what the search has to deliver -/

/-- how the reference's search ends when the VM's search stops with a solution: enough answers
    (the search of the query); the cut of `\\+` has been executed, then `fail` (the search nested in
    `\\+`, `mo = some dN`) -/
def foundStop (mo : Option Nat) (s : SLD.Stop) : Prop :=
  match mo with
  | none => s = .full
  | some dN => s = .cut dN

structure Match (mo : Option Nat) (tmpl : Term) (max : Nat) (prog : List Term) (lv : Lv) (ans0 : List Term) (m m' : MS)
    (sig : SigG Err) (r : SLD.Res) : Prop where
  ans : ∃ new, m'.user.answers = new ++ ans0 ∧ Forall2 (AnsRel tmpl) new.reverse r.answers ∧
    (mo.isSome = true → r.answers = [])
  stop : (sig = .exhausted none ∧ r.stop = .exhausted ∧ m'.user.answers.length < max) ∨
         (∃ c l, sig = .exhausted (some c) ∧ r.stop = .cut l ∧ lv.lev c = some l ∧ m'.user.answers.length < max) ∨
         (sig = .found ∧ foundStop mo r.stop) ∨
         (∃ F c1 c2 ex co, sig = .raised (.exc (errT F c1)) co ∧ r.stop = .raised (errT F c2) ex)
  st : StOK prog m'
  nvar : m.user.nextVar ≤ m'.user.nextVar

theorem Match.from {mo : Option Nat} {tmpl : Term} {max : Nat} {prog : List Term} {lv : Lv} {ans0 : List Term} {m0 m m' : MS}
    {sig : SigG Err} {r : SLD.Res} (h : Match mo tmpl max prog lv ans0 m m' sig r)
    (hn : m0.user.nextVar ≤ m.user.nextVar) : Match mo tmpl max prog lv ans0 m0 m' sig r :=
  ⟨h.ans, h.stop, h.st, Nat.le_trans hn h.nvar⟩

theorem stOK_tick {prog : List Term} {m : MS} (h : StOK prog m) : StOK prog (tick m) := h
theorem stOK_bump {prog : List Term} {m : MS} (h : StOK prog m) (N' : Nat) : StOK prog (bump m N') := h

/-! ### the thunks the search evaluates -/

mutual
  /-- the search below `p` (fuel `k`, path `live`, state `m`) evaluates the thunk `x` in state `mx` -/
  inductive VisP {τ ρ ε σ : Type} (sem : Sem τ ρ ε σ) (tf : Nat) :
      Nat → P τ ρ ε → List Nat → M σ → τ → M σ → Prop
    | nocut {k : Nat} {p : P τ ρ ε} {live : List Nat} {m : M σ} {t : τ} {ts : List τ} {x : τ} {mx : M σ} :
        p.delayed = t :: ts → ¬ (p.id ≠ 0 ∧ live.contains p.id) → p.cutParent = none →
        VisA sem tf k t (afterChild { p with cutParent := none }) live (tick m) x mx →
        VisP sem tf (k + 1) p live m x mx
    | cut {k : Nat} {p : P τ ρ ε} {live : List Nat} {m : M σ} {t : τ} {ts : List τ} {c : Nat} {x : τ} {mx : M σ} :
        p.delayed = t :: ts → ¬ (p.id ≠ 0 ∧ live.contains p.id) → p.cutParent = some c →
        live.contains c = true →
        VisA sem tf k t (afterChild { p with cutParent := none }) (live.dropWhile (· ≠ c)) (tick m) x mx →
        VisP sem tf (k + 1) p live m x mx
  /-- the search of the alternatives `t`, then `f`, evaluates the thunk `x` in state `mx` -/
  inductive VisA {τ ρ ε σ : Type} (sem : Sem τ ρ ε σ) (tf : Nat) :
      Nat → τ → P τ ρ ε → List Nat → M σ → τ → M σ → Prop
    | here {k : Nat} {t : τ} {f : P τ ρ ε} {live : List Nat} {m : M σ} : VisA sem tf (k + 1) t f live m t m
    | child {k : Nat} {t : τ} {f : P τ ρ ε} {live : List Nat} {m : M σ} {q : P τ ρ ε} {m1 : M σ} {x : τ} {mx : M σ} :
        sem.evalThunk tf t m = some (q, m1) → VisP sem tf k q (push f.id live) m1 x mx →
        VisA sem tf (k + 1) t f live m x mx
    | next {k : Nat} {t : τ} {f : P τ ρ ε} {live : List Nat} {m : M σ} {q : P τ ρ ε} {m1 m2 : M σ} {x : τ} {mx : M σ} :
        sem.evalThunk tf t m = some (q, m1) →
        dfsP sem tf k q (push f.id live) m1 = some (.exhausted none, m2) →
        VisP sem tf k f live m2 x mx →
        VisA sem tf (k + 1) t f live m x mx
end

/-- the side condition on one thunk evaluation (`fl = true`: `call/1` is in the fragment): if it ends
    in `call(G)`, then `G` is — as far as the model's inner fuel dereferences it — a variable or a
    body of the fragment (`ResFine`) -/
def Good (fl : Bool) : Nat → Thunk → MS → Prop
  | 0, _, _ => True
  | F + 1, t, m =>
    fl = true →
      (∀ res, evalThunk (F + 1) t m = some res → ResFine fl res) ∧
      -- `\\+ G`: the goal is called by the thunk itself, in a search of its own
      (∀ g k env, t = .negate g k env → callOK fl env g ∧
        ∀ k' x mx, VisP (VM.sem F) 0 k' (callGoal g .done env m).1 [] (callGoal g .done env m).2 x mx → Good fl F x mx)

theorem Good.fine {fl : Bool} {F : Nat} {t : Thunk} {m : MS} (h : Good fl F t m) (hfl : fl = true)
    (res : Pr × MS) (hev : evalThunk F t m = some res) : ResFine fl res := by
  cases F with
  | zero => simp [evalThunk] at hev
  | succ F' => exact (h hfl).1 res hev

theorem Good.neg {fl : Bool} {F : Nat} {g : Term} {k : Cont} {env : Env} {m : MS}
    (h : Good fl (F + 1) (.negate g k env) m) (hfl : fl = true) :
    callOK fl env g ∧
      ∀ k' x mx, VisP (VM.sem F) 0 k' (callGoal g .done env m).1 [] (callGoal g .done env m).2 x mx → Good fl F x mx :=
  (h hfl).2 g k env rfl

def GoodP (fl : Bool) (F k : Nat) (p : Pr) (live : List Nat) (m : MS) : Prop :=
  ∀ x mx, VisP (VM.sem F) 0 k p live m x mx → Good fl F x mx

def GoodA (fl : Bool) (F k : Nat) (t : Thunk) (f : Pr) (live : List Nat) (m : MS) : Prop :=
  ∀ x mx, VisA (VM.sem F) 0 k t f live m x mx → Good fl F x mx

def TPk (fl : Bool) (mo : Option Nat) (tmpl : Term) (max : Nat) (prog : List Term) (F k : Nat) : Prop :=
  ∀ (p : Pr) (lv : Lv) (m : MS) (sig : SigG Err) (m' : MS),
    dfsP (VM.sem F) 0 k p (lv.map Prod.fst) m = some (sig, m') →
    GoodP fl F k p (lv.map Prod.fst) m →
    ∀ (d : Nat) (ans0 : List Term) (r : SLD.Res), PSpecW fl mo tmpl max prog lv d p m ans0 r → LvOK mo lv d →
      StOK prog m → ans0.length < max →
      sig = .illScoped ∨ Match mo tmpl max prog lv ans0 m m' sig r

/-- the thunk of the first clause, then the frame with the thunks of the other clauses -/
def TAk (fl : Bool) (mo : Option Nat) (tmpl : Term) (max : Nat) (prog : List Term) (F k : Nat) : Prop :=
  ∀ (it : Item) (its : List Item) (id : Nat) (g : Term) (K : Cont) (env : Env)
    (R : List SLD.Frame) (q : Term)
    (nv n d : Nat) (r : SLD.Res) (lv : Lv) (m : MS) (sig : SigG Err) (m' : MS) (ans0 : List Term),
    dfsAlts (VM.sem F) 0 k (Thunk.clause it.1 (argList g) K env id)
      { id := id, delayed := its.map (fun it => Thunk.clause it.1 (argList g) K env id) }
      (lv.map Prod.fst) m = some (sig, m') →
    GoodA fl F k (Thunk.clause it.1 (argList g) K env id)
      { id := id, delayed := its.map (fun it => Thunk.clause it.1 (argList g) K env id) }
      (lv.map Prod.fst) m →
    m.user.answers = ans0 → id ≠ 0 → id ∉ lv.map Prod.fst →
    Shape g →
    SimAt fl mo tmpl max lv K env m.user.nextVar R q nv
      (fun σ π D => InD D g ∧ AltsRel fl σ π D nv d g (it :: its)) →
    SLD.solveAlts false (progS prog) n d nv ((it :: its).filterMap (·.2.2)) R q (max - ans0.length) = some r →
    LvOK mo lv d → StOK prog m → ans0.length < max →
    sig = .illScoped ∨ Match mo tmpl max prog lv ans0 m m' sig r

/-- the thunk of the bootstrap clause `true.`, then the empty frame -/
def TDk (fl : Bool) (mo : Option Nat) (tmpl : Term) (max : Nat) (prog : List Term) (F k : Nat) : Prop :=
  ∀ (ct : Clause) (id : Nat) (K : Cont) (env : Env) (R : List SLD.Frame) (q : Term)
    (nv n d : Nat) (r : SLD.Res) (lv : Lv) (m : MS) (sig : SigG Err) (m' : MS) (ans0 : List Term),
    dfsAlts (VM.sem F) 0 k (Thunk.clause ct [] K env id) { id := id, delayed := [] } (lv.map Prod.fst) m = some (sig, m') →
    GoodA fl F k (Thunk.clause ct [] K env id) { id := id, delayed := [] } (lv.map Prod.fst) m →
    m.user.answers = ans0 → id ≠ 0 → id ∉ lv.map Prod.fst → ct.code = [.exit] → ct.vars = [] →
    SimAt fl mo tmpl max lv K env m.user.nextVar R q nv (fun _ _ _ => True) →
    SLD.solve false (progS prog) n d nv R q (max - ans0.length) = some r →
    LvOK mo lv d → StOK prog m → ans0.length < max →
    sig = .illScoped ∨ Match mo tmpl max prog lv ans0 m m' sig r

section
variable {fl : Bool} {mo : Option Nat} {tmpl : Term} {max : Nat} {prog : List Term} {F : Nat}

theorem leaf_ok' {k : Nat} {p : Pr} {live : List Nat} {m : MS} (hd : p.delayed = []) (he : p.err = none) :
    dfsP (VM.sem F) 0 (k + 1) p live m = some (if p.ok then .found else .exhausted none, tick m) :=
  dfsP_leaf_ok _ _ _ p live m hd he

theorem leaf_err' {k : Nat} {p : Pr} {live : List Nat} {m : MS} {e : Err} (hd : p.delayed = []) (he : p.err = some e) :
    dfsP (VM.sem F) 0 (k + 1) p live m = some (.raised e none, tick m) :=
  dfsP_leaf_err _ _ _ p live m e hd he

theorem ill_id' {k : Nat} {p : Pr} {live : List Nat} {m : MS} {t : Thunk} {ts : List Thunk}
    (hd : p.delayed = t :: ts) (hid : p.id ≠ 0 ∧ live.contains p.id) :
    dfsP (VM.sem F) 0 (k + 1) p live m = some (.illScoped, tick m) :=
  dfsP_ill_id _ _ _ p live m t ts hd hid

theorem nocut' {k : Nat} {p : Pr} {live : List Nat} {m : MS} {t : Thunk} {ts : List Thunk}
    (hd : p.delayed = t :: ts) (hid : ¬ (p.id ≠ 0 ∧ live.contains p.id)) (hc : p.cutParent = none) :
    dfsP (VM.sem F) 0 (k + 1) p live m
      = dfsAlts (VM.sem F) 0 k t (afterChild { p with cutParent := none }) live (tick m) :=
  dfsP_nocut _ _ _ p live m t ts hd hid hc

theorem cut' {k : Nat} {p : Pr} {live : List Nat} {m : MS} {t : Thunk} {ts : List Thunk} {c : Nat}
    (hd : p.delayed = t :: ts) (hid : ¬ (p.id ≠ 0 ∧ live.contains p.id)) (hc : p.cutParent = some c)
    (hl : live.contains c = true) :
    dfsP (VM.sem F) 0 (k + 1) p live m
      = (dfsAlts (VM.sem F) 0 k t (afterChild { p with cutParent := none }) (live.dropWhile (· ≠ c)) (tick m)).map
          (fun r => (afterCut c r.1, r.2)) :=
  dfsP_cut _ _ _ p live m t ts c hd hid hc hl

theorem body_grel {lv : Lv} {σ' : Subst} {π' : Nat → Nat} {D' : Nat → Prop} {θ : List (Nat × Term)} {nv d id : Nat}
    {G1 : List (Term × Nat)} {Bs : List Term} (hid : lv.lev id = some d)
    (h : Forall2 (fun g1 bg => InD D' g1.1 ∧ g1.2 = id ∧
      img σ' π' g1.1 = (SLD.shift nv bg).subst (substOf θ)) G1 Bs) :
    GRel none lv σ' π' D' G1 (Bs.map (fun bg => SLD.Frame.subst θ (SLD.Frame.goal (SLD.shift nv bg) d))) := by
  induction h with
  | nil => exact .nil rfl
  | cons hd _ ih =>
    refine .cons ⟨hd.1, d, Or.inl ?_, fun _ => by rw [hd.2.1]; exact hid⟩ ih
    simp only [SLD.Frame.subst, applySubst_eq, hd.2.2]

theorem forall2_left {α β : Type} {R : α → β → Prop} {P : α → Prop} {as : List α} {bs : List β}
    (h : Forall2 R as bs) (hP : ∀ a b, R a b → P a) : ∀ a ∈ as, P a := by
  induction h with
  | nil => intro a ha; simp at ha
  | cons hd _ ih =>
    intro a ha
    rcases List.mem_cons.1 ha with rfl | ha
    · exact hP _ _ hd
    · exact ih a ha

/-- a relation on a path stays one on a path whose level map agrees on the levels in use -/
theorem grel_ext {lv lv1 : Lv} (hext : ∀ c l, lv.lev c = some l → lv1.lev c = some l)
    {σ : Subst} {π : Nat → Nat} {D : Nat → Prop} {G : List (Term × Nat)} {R : List SLD.Frame}
    (h : GRel mo lv σ π D G R) : GRel mo lv1 σ π D G R := by
  refine h.imp ?_
  rintro g _ fr ⟨hg, l, hfr, hl⟩
  exact ⟨hg, l, hfr, fun hc => hext _ _ (hl hc)⟩

theorem cutsOK_ext {lv lv1 : Lv} (hext : ∀ c l, lv.lev c = some l → lv1.lev c = some l)
    {G : List (Term × Nat)} (h : CutsOK lv G) : CutsOK lv1 G := by
  refine ⟨fun it hit hc => ?_, ?_⟩
  · obtain ⟨l, hl⟩ := h.1 it hit hc
    exact ⟨l, hext _ _ hl⟩
  · have hall : ∀ it ∈ G, isCut it → ∀ l, lv1.lev it.2 = some l → lv.lev it.2 = some l := by
      intro it hit hc l hl1
      obtain ⟨l0, hl0⟩ := h.1 it hit hc
      have := hext _ _ hl0
      rw [this] at hl1
      simp only [Option.some.injEq] at hl1
      rw [← hl1]; exact hl0
    have hp := h.2
    clear h
    induction G with
    | nil => exact .nil
    | cons a G ih =>
      obtain ⟨h1, h2⟩ := List.pairwise_cons.1 hp
      refine List.pairwise_cons.2 ⟨?_, ih (fun it hit => hall it (by simp [hit])) h2⟩
      intro b hb hca hcb la lb hla hlb
      exact h1 b hb hca hcb la lb (hall a (by simp) hca la hla) (hall b (by simp [hb]) hcb lb hlb)

theorem simAt_ext {lv lv1 : Lv} (hext : ∀ c l, lv.lev c = some l → lv1.lev c = some l)
    {K : Cont} {env : Env} {nvar : Nat} {R : List SLD.Frame} {q : Term} {nv : Nat}
    {P : Subst → (Nat → Nat) → (Nat → Prop) → Prop}
    (h : SimAt fl mo tmpl max lv K env nvar R q nv P) : SimAt fl mo tmpl max lv1 K env nvar R q nv P := by
  obtain ⟨N, σ, π, D, G, h1, h2, h3, h4, h5, h6⟩ := h
  exact ⟨N, σ, π, D, G, h1, h2, h3, grel_ext hext h4, cutsOK_ext hext h5, h6⟩

theorem hext_push {lv : Lv} {id : Nat} (o : Option Nat) (hn : id ∉ lv.map Prod.fst) :
    ∀ c l, lv.lev c = some l → Lv.lev ((id, o) :: lv) c = some l := by
  intro c l hl
  have hc : c ≠ id := by
    rintro rfl
    exact hn (mem_ids_of_lev hl)
  rw [lev_cons_ne o lv hc]; exact hl

theorem absorb_found (id : Nat) (m : MS) : absorb id (SigG.found : SigG Err) m = (.found, m) := rfl

/-- the search below a promise that came out of a thunk, then the frame that stayed behind -/
theorem after_child {k : Nat} (ihP : TPk fl mo tmpl max prog F k) {t : Thunk} {f q0 : Pr} {lv lv1 : Lv} {d1 : Nat}
    {m m1 : MS} {sig : SigG Err} {m' : MS} {ans0 : List Term} {r1 : SLD.Res}
    (hda : dfsAlts (VM.sem F) 0 (k + 1) t f (lv.map Prod.fst) m = some (sig, m'))
    (hgood : GoodA fl F (k + 1) t f (lv.map Prod.fst) m)
    (hev : (VM.sem F).evalThunk 0 t m = some (q0, m1))
    (hlv1 : lv1.map Prod.fst = push f.id (lv.map Prod.fst))
    (hspec : PSpecW fl mo tmpl max prog lv1 d1 q0 m1 ans0 r1) (hok1 : LvOK mo lv1 d1) (hst1 : StOK prog m1)
    (hlt : ans0.length < max) (hrec : f.recover = none) :
    sig = .illScoped ∨
    (∃ m2, Match mo tmpl max prog lv1 ans0 m1 m2 (.exhausted none) r1 ∧
      dfsP (VM.sem F) 0 k f (lv.map Prod.fst) m2 = some (sig, m') ∧ GoodP fl F k f (lv.map Prod.fst) m2) ∨
    (∃ sig1 m2, Match mo tmpl max prog lv1 ans0 m1 m2 sig1 r1 ∧ sig1 ≠ .exhausted none ∧
      (sig, m') = absorb f.id sig1 m2) := by
  cases hq : dfsP (VM.sem F) 0 k q0 (push f.id (lv.map Prod.fst)) m1 with
  | none => rw [dfsAlts_child_none hev hq] at hda; cases hda
  | some pr2 =>
    obtain ⟨sig1, m2⟩ := pr2
    have hq' := hq
    rw [← hlv1] at hq'
    have hgq : GoodP fl F k q0 (lv1.map Prod.fst) m1 := by
      intro x mx hx
      rw [hlv1] at hx
      exact hgood x mx (.child hev hx)
    rcases ihP q0 lv1 m1 sig1 m2 hq' hgq d1 ans0 r1 hspec hok1 hst1 hlt with hill | hm
    · subst hill
      rw [dfsAlts_pass hev hq (by simp) (by simp)] at hda
      simp only [absorb, Option.some.injEq, Prod.mk.injEq] at hda
      exact Or.inl hda.1.symm
    · cases sig1 with
      | found =>
        rw [dfsAlts_pass hev hq (by simp) (by simp)] at hda
        exact Or.inr (Or.inr ⟨.found, m2, hm, by simp, (Option.some.inj hda).symm⟩)
      | illScoped =>
        rw [dfsAlts_pass hev hq (by simp) (by simp)] at hda
        simp only [absorb, Option.some.injEq, Prod.mk.injEq] at hda
        exact Or.inl hda.1.symm
      | exhausted co =>
        cases co with
        | none =>
          rw [dfsAlts_exh hev hq] at hda
          exact Or.inr (Or.inl ⟨m2, hm, hda, fun x mx hx => hgood x mx (.next hev hq hx)⟩)
        | some c =>
          rw [dfsAlts_pass hev hq (by simp) (by simp)] at hda
          exact Or.inr (Or.inr ⟨_, m2, hm, by simp, (Option.some.inj hda).symm⟩)
      | raised e co =>
        cases co with
        | none =>
          rw [dfsAlts_raised_none hev hq hrec] at hda
          exact Or.inr (Or.inr ⟨_, m2, hm, by simp, (Option.some.inj hda).symm⟩)
        | some c =>
          rw [dfsAlts_pass hev hq (by simp) (by simp)] at hda
          exact Or.inr (Or.inr ⟨_, m2, hm, by simp, (Option.some.inj hda).symm⟩)

theorem absorb_raised (id : Nat) (e : Err) (co : Option Nat) (m : MS) :
    ∃ co', absorb id (SigG.raised e co) m = (.raised e co', m) := by
  cases co with
  | none => exact ⟨none, rfl⟩
  | some c =>
    by_cases hc : c = id
    · exact ⟨none, by simp [absorb, hc]⟩
    · exact ⟨some c, by simp [absorb, hc]⟩

theorem absorb_cut_ne {id c : Nat} (m : MS) (h : c ≠ id) :
    absorb id (SigG.exhausted (some c) : SigG Err) m = (.exhausted (some c), m) := by
  simp [absorb, h]

theorem absorb_cut_eq (id : Nat) (m : MS) :
    absorb id (SigG.exhausted (some id) : SigG Err) m = (.exhausted none, tick m) := by
  simp [absorb]

/-- the search below a promise that came out of a thunk of a frame without alternatives and
    without a level in the reference (the clause `true.`, the thunk of `\\+` after the nested search) -/
theorem direct_tail {k : Nat} (ihP : TPk fl mo tmpl max prog F k) {t : Thunk} {id : Nat} {q0 : Pr} {lv : Lv} {d : Nat}
    {m m1 : MS} {sig : SigG Err} {m' : MS} {ans0 : List Term} {r : SLD.Res}
    (hda : dfsAlts (VM.sem F) 0 (k + 1) t ({ id := id, delayed := [] } : Pr) (lv.map Prod.fst) m = some (sig, m'))
    (hgood : GoodA fl F (k + 1) t { id := id, delayed := [] } (lv.map Prod.fst) m)
    (hev : evalThunk F t m = some (q0, m1)) (hid0 : id ≠ 0) (hidn : id ∉ lv.map Prod.fst)
    (hspec : PSpecW fl mo tmpl max prog ((id, none) :: lv) d q0 m1 ans0 r) (hok : LvOK mo lv d)
    (hst1 : StOK prog m1) (hlt : ans0.length < max) (hnv1 : m.user.nextVar ≤ m1.user.nextVar) :
    sig = .illScoped ∨ Match mo tmpl max prog lv ans0 m m' sig r := by
  have hlv1 : ((id, (none : Option Nat)) :: lv).map Prod.fst =
      push ({ id := id, delayed := [] } : Pr).id (lv.map Prod.fst) := by
    simp [push, hid0]
  rcases after_child ihP hda hgood (by exact hev) hlv1 hspec (hok.pushNone hid0 hidn) hst1 hlt rfl with
    hill | ⟨m2, hm, hf, _⟩ | ⟨sig1, m2, hm, hne, hres⟩
  · exact Or.inl hill
  · -- the empty frame: exhausted
    right
    cases k with
    | zero => simp [dfsP] at hf
    | succ k' =>
      rw [leaf_ok' rfl rfl] at hf
      simp only [Option.some.injEq, Prod.mk.injEq] at hf
      obtain ⟨rfl, rfl⟩ := hf
      rcases hm.stop with ⟨_, h2, h3⟩ | ⟨_, _, h1, _⟩ | ⟨h1, _⟩ | ⟨_, _, _, _, _, h1, _⟩
      · exact ⟨hm.ans, Or.inl ⟨rfl, h2, h3⟩, hm.st, Nat.le_trans hnv1 hm.nvar⟩
      · cases h1
      · cases h1
      · cases h1
  · right
    rcases hm.stop with ⟨h1, _, _⟩ | ⟨c, l, h1, h2, h3, h4⟩ | ⟨h1, h2⟩ | ⟨F', c1, c2, ex, co, h1, h2⟩
    · exact absurd h1 hne
    · subst h1
      have hc : c ≠ id := by
        rintro rfl
        rw [lev_cons_self] at h3; cases h3
      rw [absorb_cut_ne m2 hc] at hres
      simp only [Prod.mk.injEq] at hres
      obtain ⟨rfl, rfl⟩ := hres
      rw [lev_cons_ne none lv hc] at h3
      exact ⟨hm.ans, Or.inr (Or.inl ⟨c, l, rfl, h2, h3, h4⟩), hm.st, Nat.le_trans hnv1 hm.nvar⟩
    · subst h1
      rw [absorb_found] at hres
      simp only [Prod.mk.injEq] at hres
      obtain ⟨rfl, rfl⟩ := hres
      exact ⟨hm.ans, Or.inr (Or.inr (Or.inl ⟨rfl, h2⟩)), hm.st, Nat.le_trans hnv1 hm.nvar⟩
    · subst h1
      obtain ⟨co', hco'⟩ := absorb_raised id (.exc (errT F' c1)) co m2
      rw [hco'] at hres
      simp only [Prod.mk.injEq] at hres
      obtain ⟨rfl, rfl⟩ := hres
      exact ⟨hm.ans, Or.inr (Or.inr (Or.inr ⟨F', c1, c2, ex, co', rfl, h2⟩)), hm.st, Nat.le_trans hnv1 hm.nvar⟩


theorem td_succ {k : Nat} (ihP : TPk fl mo tmpl max prog F k) (hprog : ∀ c ∈ prog, clauseS fl c = true) :
    TDk fl mo tmpl max prog F (k + 1) := by
  intro ct id K env R q nv n d r lv m sig m' ans0 hda hgood hans hid0 hidn hcode hvars hsim hs hok hst hlt
  cases hev : evalThunk F (Thunk.clause ct [] K env id) m with
  | none => rw [dfsAlts_thunk_none (sem := VM.sem F) (by exact hev)] at hda; cases hda
  | some pr =>
    obtain ⟨q0, m1⟩ := pr
    have hcont : ∃ fuel, applyCont fuel K env m = some (q0, m1) := by
      cases F with
      | zero => simp [evalThunk] at hev
      | succ F' =>
        rw [evalThunk_clause, hcode, hvars] at hev
        simp only [List.length_nil, Nat.add_zero, bump_self] at hev
        cases F' with
        | zero => simp [exec_zero] at hev
        | succ F'' =>
          rw [show freshL m.user.nextVar 0 = [] from rfl, body_done] at hev
          exact ⟨F'', hev⟩
    obtain ⟨fuel, hcont⟩ := hcont
    subst hans
    have hext := hext_push (lv := lv) (id := id) none hidn
    obtain ⟨hspec, hst1, hnv1⟩ := cont_run tmpl max prog hprog fuel K env m q0 m1 hcont
      (fun hfl => (hgood _ _ .here).fine hfl _ hev) ((id, none) :: lv) R q nv
      (simAt_ext hext hsim) hst n d r hs
    exact direct_tail ihP hda hgood hev hid0 hidn hspec hok hst1 hlt hnv1

theorem solveAlts_frames_cons (prog : List Term) (n d nv : Nat) (fs : List SLD.Frame) (as : List SLD.Alt)
    (rest : List SLD.Frame) (q : Term) (limit : Nat) :
    SLD.solveAlts false prog (n + 1) d nv (.frames fs :: as) rest q limit =
      match SLD.solve false prog n (d + 1) nv (fs ++ rest) q limit with
      | none => none
      | some r =>
        match r.stop with
        | .exhausted => (SLD.solveAlts false prog n d nv as rest q (limit - r.answers.length)).map (SLD.Res.prepend r.answers)
        | .cut c' => some { r with stop := if c' = d then .exhausted else .cut c' }
        | _ => some r := by
  rw [SLD.solveAlts]
  rfl

/-- the search stopped with a solution: the reference's result passes the alternatives of a call -/
theorem found_pass {mo : Option Nat} {d : Nat} {r1 r : SLD.Res} {X : Option SLD.Res}
    (hf : foundStop mo r1.stop) (hlo : ∀ dN, mo = some dN → dN < d)
    (h : (match r1.stop with
      | .exhausted => X
      | .cut c' => some { r1 with stop := if c' = d then .exhausted else .cut c' }
      | _ => some r1) = some r) : r = r1 := by
  cases mo with
  | none =>
    have hf' : r1.stop = .full := hf
    rw [hf'] at h
    exact (Option.some.inj h).symm
  | some dN =>
    have hf' : r1.stop = .cut dN := hf
    have hne : dN ≠ d := by have := hlo dN rfl; omega
    rw [hf'] at h
    simp only [hne, if_false, Option.some.injEq] at h
    rw [← h]
    cases r1
    simp_all

/-- the head of the first clause does not unify: the VM goes on with the other clauses -/
theorem alt_fail {k : Nat} (ihP : TPk fl mo tmpl max prog F k) {t : Thunk} {f : Pr} {lv : Lv} {d : Nat}
    {m : MS} {N' : Nat} {sig : SigG Err} {m' : MS} {r : SLD.Res}
    (hda : dfsAlts (VM.sem F) 0 (k + 1) t f (lv.map Prod.fst) m = some (sig, m'))
    (hgood : GoodA fl F (k + 1) t f (lv.map Prod.fst) m)
    (hev : evalThunk F t m = some (failP, bump m N')) (hN' : m.user.nextVar ≤ N')
    (hspec : PSpecW fl mo tmpl max prog lv d f (tick (bump m N')) m.user.answers r)
    (hok : LvOK mo lv d) (hst : StOK prog m) (hlt : m.user.answers.length < max) :
    sig = .illScoped ∨ Match mo tmpl max prog lv m.user.answers m m' sig r := by
  cases k with
  | zero =>
    rw [dfsAlts_child_none (sem := VM.sem F) (q := failP) (m1 := bump m N') (by exact hev) (by simp [dfsP])] at hda
    cases hda
  | succ k' =>
    have hq : dfsP (VM.sem F) 0 (k' + 1) failP (push f.id (lv.map Prod.fst)) (bump m N') =
        some (.exhausted none, tick (bump m N')) := by
      rw [leaf_ok' rfl rfl]; rfl
    rw [dfsAlts_exh (sem := VM.sem F) (by exact hev) hq] at hda
    rcases ihP _ _ _ _ _ hda (fun x mx hx => hgood x mx (.next (by exact hev) hq hx))
      d m.user.answers r hspec hok hst hlt with hill | hm
    · exact Or.inl hill
    · exact Or.inr (hm.from hN')

/-- the body of the first clause has been searched (`r1`), the reference goes on as `hpost` says -/
theorem alt_tail {k : Nat} (ihP : TPk fl mo tmpl max prog F k) {t : Thunk} {f q0 : Pr} {lv : Lv} {d id : Nat}
    {m m1 : MS} {sig : SigG Err} {m' : MS} {r1 r : SLD.Res} {n' nv : Nat} {as : List SLD.Alt}
    {R : List SLD.Frame} {q : Term}
    (hda : dfsAlts (VM.sem F) 0 (k + 1) t f (lv.map Prod.fst) m = some (sig, m'))
    (hgood : GoodA fl F (k + 1) t f (lv.map Prod.fst) m)
    (hev : evalThunk F t m = some (q0, m1))
    (hfid : f.id = id) (hfrec : f.recover = none) (hid0 : id ≠ 0) (hidn : id ∉ lv.map Prod.fst)
    (hok : LvOK mo lv d) (hlt : m.user.answers.length < max)
    (hspec : PSpecW fl mo tmpl max prog ((id, some d) :: lv) (d + 1) q0 m1 m.user.answers r1)
    (hst1 : StOK prog m1) (hmm1 : m.user.nextVar ≤ m1.user.nextVar)
    (hpost : (match r1.stop with
      | .exhausted => (SLD.solveAlts false (progS prog) n' d nv as R q
          (max - m.user.answers.length - r1.answers.length)).map (SLD.Res.prepend r1.answers)
      | .cut c' => some { r1 with stop := if c' = d then .exhausted else .cut c' }
      | _ => some r1) = some r)
    (hrest : ∀ (m2 : MS) (r' : SLD.Res), m.user.nextVar ≤ m2.user.nextVar → StOK prog m2 →
      SLD.solveAlts false (progS prog) n' d nv as R q (max - m2.user.answers.length) = some r' →
      PSpec fl mo tmpl max prog lv d f m2 m2.user.answers r') :
    sig = .illScoped ∨ Match mo tmpl max prog lv m.user.answers m m' sig r := by
  have hlv1 : ((id, some d) :: lv).map Prod.fst = push f.id (lv.map Prod.fst) := by
    simp [push, hfid, hid0]
  have hok1 : LvOK mo ((id, some d) :: lv) (d + 1) := hok.push hid0 hidn
  rcases after_child ihP hda hgood (by exact hev) hlv1 hspec hok1 hst1 hlt hfrec with
    hill | ⟨m2, hm, hf, hgf⟩ | ⟨sig1, m2, hm, hne, hresA⟩
  · exact Or.inl hill
  · -- exhausted: the next alternatives
    rcases hm.stop with ⟨_, hstop, hlen⟩ | ⟨_, _, h1, _⟩ | ⟨h1, _⟩ | ⟨_, _, _, _, _, h1, _⟩
    · rw [hstop] at hpost
      simp only [Option.map_eq_some_iff] at hpost
      obtain ⟨r', hr', rfl⟩ := hpost
      obtain ⟨new1, hnew1, hfa1, hna1⟩ := hm.ans
      have hl1 : new1.length = r1.answers.length := by
        have := hfa1.length_eq; simpa using this
      have hlim : max - m.user.answers.length - r1.answers.length = max - m2.user.answers.length := by
        rw [hnew1, List.length_append]; omega
      rw [hlim] at hr'
      rcases ihP _ _ _ _ _ hf hgf d m2.user.answers r'
        (hrest m2 r' (Nat.le_trans hmm1 hm.nvar) hm.st hr').toW hok hm.st hlen with hill | hm2
      · exact Or.inl hill
      · right
        obtain ⟨new2, hnew2, hfa2, hna2⟩ := hm2.ans
        refine ⟨⟨new2 ++ new1, by rw [hnew2, hnew1, List.append_assoc], ?_, ?_⟩, ?_, hm2.st,
          Nat.le_trans hmm1 (Nat.le_trans hm.nvar hm2.nvar)⟩
        · rw [List.reverse_append]
          exact hfa1.append hfa2
        · intro hmo
          simp [SLD.Res.prepend, hna1 hmo, hna2 hmo]
        · exact hm2.stop
    · cases h1
    · cases h1
    · cases h1
  · -- cut / found / raised: the remaining alternatives are not tried
    right
    rw [hfid] at hresA
    rcases hm.stop with ⟨h1, _, _⟩ | ⟨c0, l, h1, hstop, h3, h4⟩ | ⟨h1, hstop⟩ | ⟨F', c1, c2, ex, co, h1, hstop⟩
    · exact absurd h1 hne
    · subst h1
      rw [hstop] at hpost
      simp only [Option.some.injEq] at hpost
      subst hpost
      by_cases hc0 : c0 = id
      · -- the cut of a clause of this call: consumed here
        subst hc0
        rw [lev_cons_self] at h3
        simp only [Option.some.injEq] at h3
        subst h3
        rw [absorb_cut_eq] at hresA
        simp only [Prod.mk.injEq] at hresA
        obtain ⟨rfl, rfl⟩ := hresA
        exact ⟨hm.ans, Or.inl ⟨rfl, by simp, h4⟩, hm.st, Nat.le_trans hmm1 hm.nvar⟩
      · rw [absorb_cut_ne m2 hc0] at hresA
        simp only [Prod.mk.injEq] at hresA
        obtain ⟨rfl, rfl⟩ := hresA
        rw [lev_cons_ne (some d) lv hc0] at h3
        have hld : l ≠ d := by have := hok.lev_lt h3; omega
        exact ⟨hm.ans, Or.inr (Or.inl ⟨c0, l, rfl, by simp [hld], h3, h4⟩), hm.st,
          Nat.le_trans hmm1 hm.nvar⟩
    · subst h1
      have := found_pass hstop hok.lo hpost
      subst this
      rw [absorb_found] at hresA
      simp only [Prod.mk.injEq] at hresA
      obtain ⟨rfl, rfl⟩ := hresA
      exact ⟨hm.ans, Or.inr (Or.inr (Or.inl ⟨rfl, hstop⟩)), hm.st, Nat.le_trans hmm1 hm.nvar⟩
    · subst h1
      rw [hstop] at hpost
      simp only [Option.some.injEq] at hpost
      subst hpost
      obtain ⟨co', hco'⟩ := absorb_raised id (.exc (errT F' c1)) co m2
      rw [hco'] at hresA
      simp only [Prod.mk.injEq] at hresA
      obtain ⟨rfl, rfl⟩ := hresA
      exact ⟨hm.ans, Or.inr (Or.inr (Or.inr ⟨F', c1, c2, ex, co', rfl, hstop⟩)), hm.st,
        Nat.le_trans hmm1 hm.nvar⟩

end

end PrologVerif.Refine
