/-
  C16 helper lemmas: Prolog lists (`Term.list`, `Term.spine`, `asList`), groundness and
  substitution on lists, inversion of the tuple-level relations.
-/
import PrologVerif.Proofs.RelExact
namespace PrologVerif.Rel
open PrologVerif PrologVerif.Relations

@[simp] theorem list_nil (tl : Term) : Term.list [] tl = tl := rfl
@[simp] theorem list_cons (e : Term) (es : List Term) (tl : Term) :
    Term.list (e :: es) tl = Term.consT e (Term.list es tl) := rfl

theorem spine_consT (h t : Term) : (Term.consT h t).spine = (h :: t.spine.1, t.spine.2) := by
  simp [Term.consT, Term.spine, Args.spineArgs]

/-- the spine of `[e₁,…,eₙ|tl]` is the elements followed by the spine of `tl` -/
theorem spine_list (es : List Term) (tl : Term) :
    (Term.list es tl).spine = (es ++ tl.spine.1, tl.spine.2) := by
  induction es with
  | nil => simp
  | cons e es ih => simp [spine_consT, ih]

@[simp] theorem spine_nilT : Term.nilT.spine = ([], Term.nilT) := by simp [Term.nilT, Term.spine]
@[simp] theorem spine_var (v : Nat) : (Term.var v).spine = ([], .var v) := by simp [Term.spine]
@[simp] theorem spine_atom (s : String) : (Term.atom s).spine = ([], .atom s) := by simp [Term.spine]
@[simp] theorem spine_int (i : Int) : (Term.int i).spine = ([], .int i) := by simp [Term.spine]

theorem spine_list_nil (es : List Term) : (Term.list es).spine = (es, Term.nilT) := by
  simp [spine_list]

mutual
  /-- a term is its spine elements in front of its spine tail -/
  theorem list_spine : (t : Term) → Term.list t.spine.1 t.spine.2 = t
    | .var _ => by simp [Term.spine]
    | .atom _ => by simp [Term.spine]
    | .int _ => by simp [Term.spine]
    | .flt _ => by simp [Term.spine]
    | .str _ => by simp [Term.spine]
    | .app f as => by
      simp only [Term.spine]
      split
      · rename_i hf; subst hf; exact list_spineArgs as
      · simp
  theorem list_spineArgs : (as : Args) →
      Term.list (Args.spineArgs (.app "." as) as).1 (Args.spineArgs (.app "." as) as).2 = .app "." as
    | .nil => by simp [Args.spineArgs]
    | .cons h .nil => by simp [Args.spineArgs]
    | .cons h (.cons t .nil) => by
      simp only [Args.spineArgs, list_cons, list_spine t]
      rfl
    | .cons h (.cons t (.cons _ _)) => by simp [Args.spineArgs]
end

theorem asList_eq_some_iff {t : Term} {es : List Term} : asList t = some es ↔ t = Term.list es := by
  unfold asList
  constructor
  · intro h
    split at h
    · rename_i h2
      cases h
      have := list_spine t
      rw [h2] at this
      exact this.symm
    · cases h
  · rintro rfl
    simp [spine_list_nil]

@[simp] theorem asList_list (es : List Term) : asList (Term.list es) = some es := asList_eq_some_iff.mpr rfl

theorem groundT_consT (h t : Term) : groundT (Term.consT h t) = (groundT h && groundT t) := by
  simp [Term.consT, groundT, groundA]

theorem groundT_list (es : List Term) (tl : Term) :
    groundT (Term.list es tl) = (es.all groundT && groundT tl) := by
  induction es with
  | nil => simp
  | cons e es ih => simp [groundT_consT, ih, Bool.and_assoc]

theorem substT_consT (σ : Nat → Term) (h t : Term) :
    substT σ (Term.consT h t) = Term.consT (substT σ h) (substT σ t) := by
  simp [Term.consT, substT, substA]

theorem substT_list (σ : Nat → Term) (es : List Term) (tl : Term) :
    substT σ (Term.list es tl) = Term.list (es.map (substT σ)) (substT σ tl) := by
  induction es with
  | nil => simp
  | cons e es ih => simp [substT_consT, ih]

theorem consT_inj {h t h' t' : Term} (e : Term.consT h t = Term.consT h' t') : h = h' ∧ t = t' := by
  simpa [Term.consT] using e

theorem list_inj_nil : {es es' : List Term} → Term.list es = Term.list es' → es = es'
  | [], [], _ => rfl
  | [], _ :: _, h => by simp [Term.nilT, Term.consT] at h
  | _ :: _, [], h => by simp [Term.nilT, Term.consT] at h
  | e :: es, e' :: es', h => by
    simp only [list_cons] at h
    obtain ⟨h1, h2⟩ := consT_inj h
    rw [h1, list_inj_nil h2]

/-! ### inversion of the tuple-level relations -/

theorem atomConcatT_inv {t : List Term} (h : atomConcatT t) :
    ∃ a b c : String, t = [.atom a, .atom b, .atom c] ∧ a.toList ++ b.toList = c.toList := by
  unfold atomConcatT at h
  split at h
  · exact ⟨_, _, _, rfl, h⟩
  · exact h.elim

theorem subAtomT_inv {t : List Term} (h : subAtomT t) :
    ∃ (w : String) (b l a : Int) (s : String), t = [.atom w, .int b, .int l, .int a, .atom s] ∧
      0 ≤ b ∧ 0 ≤ l ∧ 0 ≤ a ∧ Relations.subAtom w.toList b.toNat l.toNat a.toNat s.toList := by
  unfold subAtomT at h
  split at h
  · exact ⟨_, _, _, _, _, rfl, h⟩
  · exact h.elim

theorem atomCharsT_inv {t : List Term} (h : atomCharsT t) :
    ∃ (a : String) (es : List Term), t = [.atom a, Term.list es] ∧
      textsOf es = some (a.toList.map fun c => [c]) := by
  unfold atomCharsT at h
  split at h
  · rename_i a l
    split at h
    · rename_i es hes
      split at h
      · rename_i cs hcs
        simp only [Relations.atomChars] at h
        subst h
        exact ⟨a, es, by rw [asList_eq_some_iff.mp hes], hcs⟩
      · exact h.elim
    · exact h.elim
  · exact h.elim

theorem atomCodesT_inv {t : List Term} (h : atomCodesT t) :
    ∃ (a : String) (es : List Term), t = [.atom a, Term.list es] ∧
      intsOf es = some (a.toList.map fun c => Int.ofNat c.toNat) := by
  unfold atomCodesT at h
  split at h
  · rename_i a l
    split at h
    · rename_i es hes
      split at h
      · rename_i cs hcs
        simp only [Relations.atomCodes] at h
        subst h
        exact ⟨a, es, by rw [asList_eq_some_iff.mp hes], hcs⟩
      · exact h.elim
    · exact h.elim
  · exact h.elim

theorem charCodeT_inv {t : List Term} (h : charCodeT t) :
    ∃ (c : String) (ch : Char), t = [.atom c, .int (Int.ofNat ch.toNat)] ∧ c.toList = [ch] := by
  unfold charCodeT at h
  split at h
  · rename_i c n
    cases hc : c.toList with
    | nil => simp [Relations.charCode, hc] at h
    | cons ch rest =>
      cases rest with
      | nil =>
        simp only [Relations.charCode, hc] at h
        subst h
        exact ⟨c, ch, rfl, hc⟩
      | cons _ _ => simp [Relations.charCode, hc] at h
  · exact h.elim

theorem betweenT_inv {t : List Term} (h : betweenT t) :
    ∃ l u x : Int, t = [.int l, .int u, .int x] ∧ l ≤ x ∧ x ≤ u := by
  unfold betweenT at h
  split at h
  · exact ⟨_, _, _, rfl, h⟩
  · exact h.elim

theorem succT_inv {t : List Term} (h : succT t) :
    ∃ x s : Int, t = [.int x, .int s] ∧ 0 ≤ x ∧ s = x + 1 := by
  unfold succT at h
  split at h
  · exact ⟨_, _, rfl, h⟩
  · exact h.elim

/-! ### texts / codes of element lists -/

theorem textsOf_map_charAtom (cs : List Char) : textsOf (cs.map charAtom) = some (cs.map fun c => [c]) := by
  induction cs with
  | nil => rfl
  | cons c cs ih => simp [textsOf, textOf, charAtom, mkAtom, String.toList_ofList, ih]

theorem textsOf_chars_inv : {es : List Term} → {cs : List Char} →
    textsOf es = some (cs.map fun c => [c]) → es = cs.map charAtom
  | [], [], _ => rfl
  | [], _ :: _, h => by simp [textsOf] at h
  | e :: es, cs, h => by
    unfold textsOf at h
    split at h
    · rename_i x xs hx hxs
      cases cs with
      | nil => simp at h
      | cons c cs =>
        simp only [List.map_cons, Option.some.injEq, List.cons.injEq] at h
        obtain ⟨h1, h2⟩ := h
        subst h1
        have := textsOf_chars_inv (es := es) (cs := cs) (by rw [hxs, h2])
        cases e <;> simp [textOf] at hx
        rename_i s
        simp [this, charAtom, mkAtom, ← hx, String.ofList_toList]
    · cases h

theorem intsOf_map_int (is : List Int) : intsOf (is.map Term.int) = some is := by
  induction is with
  | nil => rfl
  | cons i is ih => simp [intsOf, ih]

theorem intsOf_inv : {es : List Term} → {is : List Int} → intsOf es = some is → es = is.map Term.int
  | [], is, h => by simp [intsOf] at h; simp [← h]
  | .int i :: es, is, h => by
    simp only [intsOf, Option.map_eq_some_iff] at h
    obtain ⟨js, hjs, rfl⟩ := h
    simp [intsOf_inv hjs]
  | .var _ :: _, _, h => by simp [intsOf] at h
  | .atom _ :: _, _, h => by simp [intsOf] at h
  | .flt _ :: _, _, h => by simp [intsOf] at h
  | .str _ :: _, _, h => by simp [intsOf] at h
  | .app _ _ :: _, _, h => by simp [intsOf] at h

/-! ### char / code lists, the element loops of atom_chars and atom_codes -/

theorem charAtom_inj {c d : Char} (h : charAtom c = charAtom d) : c = d := by
  have := mkAtom_inj h
  simpa using this

theorem charList_inj {a b : List Char} (h : charList a = charList b) : a = b := by
  have := list_inj_nil h
  exact (List.map_inj_right (fun _ _ h => charAtom_inj h)).mp this

theorem char_toNat_inj {c d : Char} (h : c.toNat = d.toNat) : c = d := by
  apply Char.ext
  apply UInt32.toNat_inj.mp
  exact h

theorem codeList_inj {a b : List Char} (h : codeList a = codeList b) : a = b := by
  have := list_inj_nil h
  refine (List.map_inj_right (fun c d h => ?_)).mp this
  simp only [Term.int.injEq] at h
  exact char_toNat_inj (Int.ofNat_inj.mp h)

theorem groundT_charList (cs : List Char) : groundT (charList cs) = true := by
  simp [charList, groundT_list, groundT, Term.nilT, charAtom, mkAtom]

theorem groundT_codeList (cs : List Char) : groundT (codeList cs) = true := by
  simp [codeList, groundT_list, groundT, Term.nilT]

theorem atomCharsT_iff (a : String) (l : Term) : atomCharsT [.atom a, l] ↔ l = charList a.toList := by
  constructor
  · intro h
    obtain ⟨a', es, ht, hes⟩ := atomCharsT_inv h
    simp only [List.cons.injEq, Term.atom.injEq, and_true] at ht
    obtain ⟨rfl, rfl⟩ := ht
    rw [textsOf_chars_inv hes]; rfl
  · rintro rfl
    simp [atomCharsT, charList, textsOf_map_charAtom, Relations.atomChars]

theorem atomCodesT_iff (a : String) (l : Term) : atomCodesT [.atom a, l] ↔ l = codeList a.toList := by
  constructor
  · intro h
    obtain ⟨a', es, ht, hes⟩ := atomCodesT_inv h
    simp only [List.cons.injEq, Term.atom.injEq, and_true] at ht
    obtain ⟨rfl, rfl⟩ := ht
    rw [intsOf_inv hes]; simp [codeList, List.map_map, Function.comp_def]
  · rintro rfl
    have : codeList a.toList = Term.list ((a.toList.map fun c => Int.ofNat c.toNat).map Term.int) := by
      simp [codeList, List.map_map, Function.comp_def]
    rw [this]
    simp only [atomCodesT, asList_list, intsOf_map_int, Relations.atomCodes]

theorem atomCharsT_atom {x l : Term} (h : atomCharsT [x, l]) : ∃ a, x = .atom a := by
  obtain ⟨a, _, ht, _⟩ := atomCharsT_inv h
  simp only [List.cons.injEq, and_true] at ht
  exact ⟨a, ht.1⟩

theorem atomCodesT_atom {x l : Term} (h : atomCodesT [x, l]) : ∃ a, x = .atom a := by
  obtain ⟨a, _, ht, _⟩ := atomCodesT_inv h
  simp only [List.cons.injEq, and_true] at ht
  exact ⟨a, ht.1⟩

theorem charsStrict_ok : {es : List Term} → {cs : List Char} → charsStrict es = .ok cs → es = cs.map charAtom
  | [], cs, h => by simp [charsStrict] at h; simp [← h]
  | e :: es, cs, h => by
    unfold charsStrict at h
    split at h
    · cases h
    · rename_i s
      split at h
      · rename_i c hc
        split at h
        · rename_i cs' hcs
          cases h
          simp [charsStrict_ok hcs, charAtom, mkAtom, ← hc, String.ofList_toList]
        · cases h
      · cases h
    · cases h

theorem listErr_false_none {l tl : Term} (h : listErr false l tl = none) : tl = Term.nilT := by
  unfold listErr at h
  split at h
  · simp at h
  · split at h
    · rename_i ha; simp [ha, Term.nilT]
    · cases h
  · cases h

theorem listErr_true_none {l tl : Term} (h : listErr true l tl = none) : tl = Term.nilT ∨ ∃ v, tl = .var v := by
  unfold listErr at h
  split at h
  · exact Or.inr ⟨_, rfl⟩
  · split at h
    · rename_i ha; simp [ha, Term.nilT]
    · cases h
  · cases h

theorem runeOf_toNat {i : Int} (h : validRune i) : Int.ofNat (runeOf i).toNat = i := by
  obtain ⟨h0, hv⟩ := h
  simp only [runeOf, hv, dite_true, Char.toNat, Char.ofNatAux]
  simp [Int.toNat_of_nonneg h0]

theorem codesStrict_ok : {es : List Term} → {cs : List Char} → codesStrict es = .ok cs →
    es = cs.map fun c => Term.int (Int.ofNat c.toNat)
  | [], cs, h => by simp [codesStrict] at h; simp [← h]
  | e :: es, cs, h => by
    unfold codesStrict at h
    split at h
    · cases h
    · rename_i i
      split at h
      · rename_i hv
        split at h
        · rename_i cs' hcs
          cases h
          have := runeOf_toNat hv
          simp only [Int.ofNat_eq_natCast] at this
          simp [codesStrict_ok hcs, this]
        · cases h
      · cases h
    · cases h

end PrologVerif.Rel
