/-
  Model of loading FILES: engine/text.go `VM.ensureLoaded`, `VM.open`, `Consult`, the
  `ensure_loaded/1` directive, `consult/1` used as a goal (directive, initialization goal or
  query) — on top of `Model/Text.lean`, whose item-level machinery (`stepItem`, `flush`, `commit`)
  is reused unchanged for everything that is not a load of another file.

  State: the procedure table and `vm.loaded`; the file system is a value that the HISTORY may
  change between loads (write / remove a file).  A file is a list of read results plus a FAULT
  PLAN (open fails, read fails after k items, the name is a directory): `fs.ReadFile` is modelled
  with what it really returns — the part read so far AND the error.

  Two registration policies:
    `.code`  text.go as it is: the resolved file name is put into `loaded` BEFORE the text is
             compiled (this is what stops recursive loads) and deleted again when the load fails;
    `.spec`  the specification: names of loads in progress are kept apart (`inProgress`); a name
             enters `loaded` only when its load has succeeded.  A failed load CANNOT leave a
             trace in `loaded` by construction.
  That the two agree for all histories is a theorem (Proofs/Files.lean); the correspondence
  stream c20.files ties `.code` to the Go code.

  Note (what the code does, modelled as it is): `consult/1` IS `ensure_loaded`: consulting a file
  that is registered as loaded is a no-op, it does not reload.

  `fuel` bounds the nesting of loads plus the number of items processed.  Core Lean only.
-/
import PrologVerif.Model.Text
namespace PrologVerif.Files
open PrologVerif PrologVerif.Load

/-- what can go wrong when a file is read (the FAULT PLAN of the file, part of the file-system
    state that a history changes) -/
inductive Fault where
  | none
  /-- `Open` fails (no matter with which error: not-exist, permission, anything else) -/
  | openFails
  /-- `Read` fails with a non-EOF error after the first `k` read items; `inside` = the failure
      falls inside the next item (the bytes read so far end in the middle of a clause) -/
  | readFails (k : Nat) (inside : Bool)
  /-- the name denotes a directory -/
  | directory
  deriving DecidableEq

structure File where
  /-- read results of the file's full text -/
  content : List Item
  fault : Fault
  deriving DecidableEq

/-- `fs.ReadFile`: WHAT WAS READ SO FAR, and whether it ended with an error.  (Go's `fs.ReadFile`
    hands back the bytes read so far together with its error.) -/
def readFile (f : File) : List Item × Bool :=
  match f.fault with
  | .none => (f.content, false)
  | .openFails => ([], true)
  | .readFails k inside => (f.content.take k ++ (if inside then [Item.syntaxError] else []), true)
  | .directory => ([], true)

/-- a file system: name ↦ file (first binding wins) -/
abbrev FileSys := List (String × File)

def FileSys.read : FileSys → String → Option File
  | [], _ => none
  | (k, v) :: r, n => if k = n then some v else FileSys.read r n

def FileSys.write (fs : FileSys) (n : String) (f : File) : FileSys :=
  (n, f) :: fs.filter (fun e => e.1 ≠ n)

def FileSys.remove (fs : FileSys) (n : String) : FileSys := fs.filter (fun e => e.1 ≠ n)

/-- one candidate name of `VM.open`: usable only if `fs.ReadFile` returned NO error — what was
    read before an error is thrown away (`if err != nil { continue }`) -/
def tryCandidate (fs : FileSys) (n : String) : Option (List Item) :=
  match fs.read n with
  | none => none
  | some f =>
    match readFile f with
    | (items, false) => some items
    | (_, true) => none

/-- `VM.open`: the file is looked for under the given name, then with `.pl` appended; a candidate
    that cannot be read completely — absent, unopenable, a directory, a read error anywhere — is
    skipped; the name under which the text was FOUND is the key of `vm.loaded` (so `lib` and
    `'lib.pl'` are one file).  No candidate left: existence_error, whatever went wrong. -/
def openFile (fs : FileSys) : Term → Except LoadErr (String × List Item)
  | .var _ => .error (.iso instErr)
  | .atom s =>
    match tryCandidate fs s with
    | some items => .ok (s, items)
    | none =>
      match tryCandidate fs (s ++ ".pl") with
      | some items => .ok (s ++ ".pl", items)
      | none => .error (.iso (existenceErr "source_sink" (.atom s)))
  | t => .error (.iso (typeErr "atom" t))

/-- the view `include/1` (Model/Text) has of the file system -/
def includeFS (fs : FileSys) : FS := fun s =>
  match openFile fs (.atom s) with
  | .ok (_, items) => some items
  | .error _ => none

inductive Policy | code | spec
  deriving DecidableEq

structure VM where
  procs : Procs
  /-- `vm.loaded` -/
  loaded : List String
  /-- loads in progress (used by the `.spec` policy only) -/
  inProgress : List String
  deriving DecidableEq

/-- evaluation of an ordinary (side-effect free) goal -/
abbrev Eval := Procs → Term → GoalResult

def pureCall (ev : Eval) : Call := fun p g => (p, ev p g)

/-- `Consult`: the elements of a proper list, otherwise the argument itself -/
def fileNames (arg : Term) : List Term :=
  if arg.spine.2 = .atom "[]" then arg.spine.1 else [arg]

inductive LoadDirective where
  /-- `:- ensure_loaded(F).` -/
  | ensure (file : Term)
  /-- `:- consult(A).` — an ordinary goal directive whose goal happens to load files -/
  | consult (arg : Term)

def loadDirective : Item → Option LoadDirective
  | .term (.app ":-" (.cons (.app "ensure_loaded" (.cons f .nil)) .nil)) => some (.ensure f)
  | .term (.app ":-" (.cons (.app "consult" (.cons a .nil)) .nil)) => some (.consult a)
  | _ => none

def consultArg : Term → Option Term
  | .app "consult" (.cons a .nil) => some a
  | _ => none

def initErr : GoalResult → Option LoadErr
  | .ok => none
  | .failed => some .failedInit
  | .raisedIso e => some (.iso e)
  | .raisedBall t => some (.ball t)

mutual
  /-- `VM.ensureLoaded` -/
  def ensureLoaded (pol : Policy) (fs : FileSys) (ev : Eval) : Nat → VM → Term → VM × Option LoadErr
    | 0, vm, _ => (vm, some .outOfFuel)
    | fuel + 1, vm, file =>
      match openFile fs file with
      | .error e => (vm, some e)
      | .ok (f, items) =>
        match pol with
        | .code =>
          if f ∈ vm.loaded then (vm, none)
          else
            -- "It's too early to say it's fully loaded. Yet this avoids recursive load of the same file."
            match compileV pol fs ev fuel { vm with loaded := f :: vm.loaded } items with
            | (vm', some e) => ({ vm' with loaded := vm'.loaded.filter (· ≠ f) }, some e) -- "It wasn't fully loaded after all."
            | (vm', none) => (vm', none)
        | .spec =>
          if f ∈ vm.loaded ∨ f ∈ vm.inProgress then (vm, none)
          else
            match compileV pol fs ev fuel { vm with inProgress := f :: vm.inProgress } items with
            | (vm', some e) => ({ vm' with inProgress := vm.inProgress }, some e)
            | (vm', none) => ({ vm' with inProgress := vm.inProgress, loaded := f :: vm'.loaded }, none)
  /-- the loop of `Consult` over the file names -/
  def consultAll (pol : Policy) (fs : FileSys) (ev : Eval) : Nat → VM → List Term → VM × Option LoadErr
    | 0, vm, _ => (vm, some .outOfFuel)
    | _ + 1, vm, [] => (vm, none)
    | fuel + 1, vm, f :: rest =>
      match ensureLoaded pol fs ev fuel vm f with
      | (vm', some e) => (vm', some e)
      | (vm', none) => consultAll pol fs ev fuel vm' rest
  /-- `VM.compile`, the read loop, with the live VM threaded through -/
  def loopV (pol : Policy) (fs : FileSys) (ev : Eval) : Nat → List Item → VM → Text → (VM × Text) × Option LoadErr
    | 0, _, vm, tx => ((vm, tx), some .outOfFuel)
    | _ + 1, [], vm, tx => ((vm, tx), none)
    | fuel + 1, it :: rest, vm, tx =>
      match loadDirective it with
      | some (.ensure file) =>
        match flush tx with
        | .error e => ((vm, tx), some e)
        | .ok tx' =>
          match ensureLoaded pol fs ev fuel vm file with
          | (vm', some e) => ((vm', tx'), some e)
          | (vm', none) => loopV pol fs ev fuel rest vm' tx'
      | some (.consult arg) =>
        match flush tx with
        | .error e => ((vm, tx), some e)
        | .ok tx' =>
          match consultAll pol fs ev fuel vm (fileNames arg) with
          | (vm', some e) => ((vm', tx'), some e)
          | (vm', none) => loopV pol fs ev fuel rest vm' tx'
      | none =>
        match stepItem (includeFS fs) (pureCall ev) ⟨vm.procs, tx⟩ it with
        | .next ls => loopV pol fs ev fuel rest { vm with procs := ls.procs } ls.tx
        | .splice items ls => loopV pol fs ev fuel (items ++ rest) { vm with procs := ls.procs } ls.tx
        | .stop ls e => (({ vm with procs := ls.procs }, ls.tx), some e)
  /-- the initialization goals, after the commit -/
  def runGoalsV (pol : Policy) (fs : FileSys) (ev : Eval) : Nat → List Term → VM → VM × Option LoadErr
    | 0, _, vm => (vm, some .outOfFuel)
    | _ + 1, [], vm => (vm, none)
    | fuel + 1, g :: gs, vm =>
      match consultArg g with
      | some a =>
        match consultAll pol fs ev fuel vm (fileNames a) with
        | (vm', some e) => (vm', some e)
        | (vm', none) => runGoalsV pol fs ev fuel gs vm'
      | none =>
        match initErr (ev vm.procs g) with
        | some e => (vm, some e)
        | none => runGoalsV pol fs ev fuel gs vm
  /-- `VM.Compile` -/
  def compileV (pol : Policy) (fs : FileSys) (ev : Eval) : Nat → VM → List Item → VM × Option LoadErr
    | 0, vm, _ => (vm, some .outOfFuel)
    | fuel + 1, vm, items =>
      match loopV pol fs ev fuel items vm Text.empty with
      | ((vm', _), some e) => (vm', some e)
      | ((vm', tx), none) =>
        match flush tx with
        | .error e => (vm', some e)
        | .ok tx' => runGoalsV pol fs ev fuel tx'.goals { vm' with procs := commit vm'.procs tx'.clauses }
end

/-! ### histories -/

inductive Step where
  /-- create or replace a file: its content and its fault plan -/
  | write (name : String) (file : File)
  | remove (name : String)
  /-- the query `?- consult(Arg).` -/
  | consult (arg : Term)
  /-- `Exec(text)`: `VM.Compile` of a text that is not a file -/
  | exec (items : List Item)

structure World where
  fs : FileSys
  vm : VM

def World.empty : World := ⟨[], ⟨[], [], []⟩⟩

def step (pol : Policy) (ev : Eval) (fuel : Nat) (w : World) : Step → World × Option LoadErr
  | .write n f => ({ w with fs := w.fs.write n f }, none)
  | .remove n => ({ w with fs := w.fs.remove n }, none)
  | .consult arg =>
    let r := consultAll pol w.fs ev fuel w.vm (fileNames arg)
    ({ w with vm := r.1 }, r.2)
  | .exec items =>
    let r := compileV pol w.fs ev fuel w.vm items
    ({ w with vm := r.1 }, r.2)

/-- run a history, collecting the results of the steps -/
def run (pol : Policy) (ev : Eval) (fuel : Nat) : World → List Step → World × List (Option LoadErr)
  | w, [] => (w, [])
  | w, s :: ss =>
    let r := step pol ev fuel w s
    let r' := run pol ev fuel r.1 ss
    (r'.1, r.2 :: r'.2)

end PrologVerif.Files
