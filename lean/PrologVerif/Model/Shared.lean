/-
  Model/Shared — the process-wide state of package `engine` that every interpreter shares:

      atomTable  (engine/atom.go)      names []string ; atoms map[string]Atom ; sync.RWMutex
      varCounter (engine/variable.go)  int64, bumped with atomic.AddInt64

  and N clients (interpreters, one goroutine each) operating on it.  The functions mirror the Go
  functions by name and in the order of their checks:

      newAtom   ~ engine.NewAtom        (whole body under atomTable.Lock)
      atomName  ~ engine.Atom.String    (table read under atomTable.RLock)
      newVar    ~ engine.NewVariable    (atomic.AddInt64(&varCounter, 1))

  Each operation is ONE atomic step of the shared state.  That atomicity is not a modelling
  convenience: it *is* the mutex / the atomic add, and it is an extracted fact about the source
  (Generated/SharedState.lean, tied in Properties/C14.lean).  `NA` below is the same table with
  NewAtom split into its two halves (look up, then insert) — what the code would be without the
  lock — and is only used to show that the theorems really rest on the atomicity.

  A schedule is an arbitrary interleaving: a list of (client, operation).  Core Lean only.
-/
import PrologVerif.Basic
namespace PrologVerif

mutual
  def Term.mapVars (μ : Nat → Nat) : Term → Term
    | .var v => .var (μ v)
    | .app f as => .app f (Args.mapVars μ as)
    | t => t
  def Args.mapVars (μ : Nat → Nat) : Args → Args
    | .nil => .nil
    | .cons t ts => .cons (Term.mapVars μ t) (Args.mapVars μ ts)
end

mutual
  def Term.varsL : Term → List Nat
    | .var v => [v]
    | .app _ as => Args.varsL as
    | _ => []
  def Args.varsL : Args → List Nat
    | .nil => []
    | .cons t ts => Term.varsL t ++ Args.varsL ts
end

end PrologVerif

namespace PrologVerif.Shared

/-- `utf8.MaxRune + 1`: atoms below are one-rune atoms (the rune itself), table atoms start here -/
def base : Nat := 0x110000

/-- atomTable + varCounter -/
structure State where
  /-- `atomTable.names` -/
  names : List String
  /-- `atomTable.atoms` (a Go map; an association list with the newest entry first) -/
  atoms : List (String × Nat)
  /-- `varCounter` (int64 in Go; overflow of a 63-bit counter is out of scope, DESIGN §3) -/
  counter : Nat
  deriving DecidableEq, Repr

/-- the state before any package initialiser ran -/
def empty : State := ⟨[], [], 0⟩

/-- `r, n := utf8.DecodeLastRuneInString(name); r != utf8.RuneError && n == len(name)`:
    the name is exactly one rune, and that rune is not U+FFFD.  (Lean strings are valid UTF-8,
    names that are not are outside the model.) -/
def oneRune (name : String) : Option Nat :=
  match name.toList with
  | [c] => if c.toNat = 0xFFFD then none else some c.toNat
  | _ => none

/-- `NewAtom(name)` -/
def newAtom (σ : State) (name : String) : State × Nat :=
  match oneRune name with
  | some r => (σ, r)                                   -- a one-char atom is just a rune
  | none =>
    -- atomTable.Lock(); defer atomTable.Unlock()
    match σ.atoms.lookup name with
    | some a => (σ, a)
    | none =>
      let a := σ.names.length + base
      ({ σ with atoms := (name, a) :: σ.atoms, names := σ.names ++ [name] }, a)

/-- `string(rune(a))` for `a ≤ utf8.MaxRune`: surrogates print as U+FFFD -/
def runeString (a : Nat) : String :=
  if a.isValidChar then String.singleton (Char.ofNat a) else "\uFFFD"

/-- `Atom.String()`; `none` is the Go panic "index out of range" (an id nobody was given) -/
def atomName (σ : State) (a : Nat) : Option String :=
  if a < base then some (runeString a)
  else σ.names[a - base]?                               -- atomTable.RLock(); defer atomTable.RUnlock()

/-- `NewVariable()` : `atomic.AddInt64(&varCounter, 1)` -/
def newVar (σ : State) : State × Nat :=
  ({ σ with counter := σ.counter + 1 }, σ.counter + 1)

/-! ### clients and schedules -/

inductive Op where
  | newAtom (name : String)
  | atomName (a : Nat)
  | newVar
  deriving DecidableEq, Repr

inductive Res where
  | atom (a : Nat)
  | name (s : Option String)
  | var (v : Nat)
  deriving DecidableEq, Repr

/-- one atomic step of the shared state -/
def step (σ : State) : Op → State × Res
  | .newAtom s => let r := newAtom σ s; (r.1, .atom r.2)
  | .atomName a => (σ, .name (atomName σ a))
  | .newVar => let r := newVar σ; (r.1, .var r.2)

structure Event where
  client : Nat
  op : Op
  res : Res
  deriving DecidableEq, Repr

abbrev Schedule := List (Nat × Op)

/-- the history (who did what and got which answer) of a schedule -/
def exec : State → Schedule → List Event
  | _, [] => []
  | σ, (c, o) :: rest => ⟨c, o, (step σ o).2⟩ :: exec (step σ o).1 rest

/-- the shared state after a schedule -/
def final : State → Schedule → State
  | σ, [] => σ
  | σ, (_, o) :: rest => final (step σ o).1 rest

/-- what one client sees: its own operations and their results -/
def view (c : Nat) (h : List Event) : List Event := h.filter (fun e => e.client = c)

/-- the variables a history handed out, in order -/
def varsOf : List Event → List Nat
  | [] => []
  | e :: h => match e.res with
    | .var v => v :: varsOf h
    | _ => varsOf h

/-- the atoms a history mentions (asked about or returned), in order -/
def atomsOf : List Event → List Nat
  | [] => []
  | e :: h =>
    (match e.op with | .atomName a => [a] | _ => []) ++
    (match e.res with | .atom a => [a] | _ => []) ++ atomsOf h

/-- renaming of ids: `ρ` on atoms, `μ` on variables -/
def renOp (ρ : Nat → Nat) : Op → Op
  | .atomName a => .atomName (ρ a)
  | o => o

def renRes (ρ μ : Nat → Nat) : Res → Res
  | .atom a => .atom (ρ a)
  | .var v => .var (μ v)
  | r => r

def renEvent (ρ μ : Nat → Nat) (e : Event) : Event := ⟨e.client, renOp ρ e.op, renRes ρ μ e.res⟩

/-- the operations of a history as a schedule of client `c` ALONE (atom arguments renamed by `ρ`) -/
def soloSched (ρ : Nat → Nat) (c : Nat) (h : List Event) : Schedule :=
  h.map fun e => (c, renOp ρ e.op)

/-- A client only asks for the names of atoms it has *learned*: one-rune atoms, atoms that were in
    the table at the start (`< base + n0`), or results of its own earlier `newAtom` calls.
    (`Atom` values cannot be forged through the Prolog-level interface; a host program that hands
    terms of one interpreter to another is outside the property.) -/
def learnedOnly (n0 : Nat) : List Nat → List Event → Bool
  | _, [] => true
  | known, e :: h =>
    match e.op, e.res with
    | .atomName a, _ => (decide (a < base + n0) || known.contains a) && learnedOnly n0 known h
    | .newAtom _, .atom a => learnedOnly n0 (a :: known) h
    | _, _ => learnedOnly n0 known h

/-! ### the same table WITHOUT the lock: NewAtom as two separately scheduled halves -/

namespace NA

inductive MicroOp where
  /-- first half: `a, ok := atomTable.atoms[name]` -/
  | lookup (name : String)
  /-- second half: `if ok {return a}; a = len(names)+base; atoms[name] = a; names = append(names, name); return a` -/
  | insert
  deriving DecidableEq, Repr

structure NAState where
  table : State
  /-- per client: the name it is interning and what its lookup saw -/
  pending : List (Nat × String × Option Nat)
  deriving DecidableEq, Repr

/-- result of a finished NewAtom: (client, name, atom) -/
abbrev Done := Nat × String × Nat

def step (σ : NAState) (c : Nat) : MicroOp → NAState × Option Done
  | .lookup name => ({ σ with pending := (c, name, σ.table.atoms.lookup name) :: σ.pending }, none)
  | .insert =>
    match σ.pending.lookup c with
    | none => (σ, none)
    | some (name, some a) => ({ σ with pending := σ.pending.filter (·.1 ≠ c) }, some (c, name, a))
    | some (name, none) =>
      let a := σ.table.names.length + base
      ({ table := { σ.table with atoms := (name, a) :: σ.table.atoms, names := σ.table.names ++ [name] },
         pending := σ.pending.filter (·.1 ≠ c) }, some (c, name, a))

def exec : NAState → List (Nat × MicroOp) → List Done
  | _, [] => []
  | σ, (c, o) :: rest =>
    match (step σ c o).2 with
    | some d => d :: exec (step σ c o).1 rest
    | none => exec (step σ c o).1 rest

/-- "same name ⇒ same atom" on a list of finished NewAtom calls -/
def stable (h : List Done) : Bool :=
  h.all fun d₁ => h.all fun d₂ => d₁.2.1 != d₂.2.1 || d₁.2.2 == d₂.2.2

end NA

/-! ### the layers above, at the level of ids (what the Go code manipulates)

  Go terms carry atom *ids* (`Atom` is a uint64) and variable *numbers*.  The models of all other
  properties work on `PrologVerif.Term`, which carries atom *names*.  `ITerm.abs` is the bridge. -/

mutual
  inductive ITerm where
    | var (v : Nat)
    | atom (a : Nat)
    | int (i : Int)
    | app (f : Nat) (as : IArgs)
  inductive IArgs where
    | nil
    | cons (t : ITerm) (ts : IArgs)
end

deriving instance DecidableEq for ITerm, IArgs

mutual
  /-- read an id-level term through a naming of atoms -/
  def ITerm.abs (nm : Nat → String) : ITerm → Term
    | .var v => .var v
    | .atom a => .atom (nm a)
    | .int i => .int i
    | .app f as => .app (nm f) (IArgs.abs nm as)
  def IArgs.abs (nm : Nat → String) : IArgs → Args
    | .nil => .nil
    | .cons t ts => .cons (ITerm.abs nm t) (IArgs.abs nm ts)
end

mutual
  def ITerm.ren (ρ μ : Nat → Nat) : ITerm → ITerm
    | .var v => .var (μ v)
    | .atom a => .atom (ρ a)
    | .int i => .int i
    | .app f as => .app (ρ f) (IArgs.ren ρ μ as)
  def IArgs.ren (ρ μ : Nat → Nat) : IArgs → IArgs
    | .nil => .nil
    | .cons t ts => .cons (ITerm.ren ρ μ t) (IArgs.ren ρ μ ts)
end

mutual
  def ITerm.atoms : ITerm → List Nat
    | .atom a => [a]
    | .app f as => f :: IArgs.atoms as
    | _ => []
  def IArgs.atoms : IArgs → List Nat
    | .nil => []
    | .cons t ts => ITerm.atoms t ++ IArgs.atoms ts
end

mutual
  def ITerm.vars : ITerm → List Nat
    | .var v => [v]
    | .app _ as => IArgs.vars as
    | _ => []
  def IArgs.vars : IArgs → List Nat
    | .nil => []
    | .cons t ts => ITerm.vars t ++ IArgs.vars ts
end

def IArgs.length : IArgs → Nat
  | .nil => 0
  | .cons _ ts => ts.length + 1

/-- lexicographic combination -/
def thenCmp (a b : Ordering) : Ordering := match a with | .eq => b | o => o

mutual
  /-- the `Compare` methods of engine/{variable,integer,atom,compound}.go on id-level terms
      (standard order: Var < Number < Atom < Compound; variables by number; atoms by NAME through
      `Atom.String()`; compounds by arity, then functor name, then arguments left to right) -/
  def ITerm.cmp (nm : Nat → String) : ITerm → ITerm → Ordering
    | .var v, .var w => compare v w
    | .var _, _ => .lt
    | .int _, .var _ => .gt
    | .int i, .int j => compare i j
    | .int _, _ => .lt
    | .atom _, .var _ => .gt
    | .atom _, .int _ => .gt
    | .atom a, .atom b => compare (nm a) (nm b)
    | .atom _, .app _ _ => .lt
    | .app f as, .app g bs =>
      thenCmp (compare as.length bs.length) (thenCmp (compare (nm f) (nm g)) (IArgs.cmp nm as bs))
    | .app _ _, _ => .gt
  def IArgs.cmp (nm : Nat → String) : IArgs → IArgs → Ordering
    | .nil, .nil => .eq
    | .nil, .cons _ _ => .lt
    | .cons _ _, .nil => .gt
    | .cons t ts, .cons u us => thenCmp (ITerm.cmp nm t u) (IArgs.cmp nm ts us)
end

/-- the naming of atoms a state defines (`Atom.String`; ids nobody was given print as "") -/
def nameFn (σ : State) (a : Nat) : String :=
  match atomName σ a with
  | some s => s
  | none => ""

/-! unification on id-level terms (`Env.unify` without occurs check, bindings as an association
    list, newest first; atoms are compared by ID, as Go's `==` on `Atom` does) -/

abbrev ISubst := List (Nat × ITerm)

/-- `Env.Resolve`: follow variable bindings -/
def ISubst.walk : Nat → ISubst → ITerm → ITerm
  | 0, _, t => t
  | fuel + 1, s, .var v =>
    match s.lookup v with
    | some t => ISubst.walk fuel s t
    | none => .var v
  | _, _, t => t

mutual
  def ITerm.unify : Nat → ITerm → ITerm → ISubst → Option ISubst
    | 0, _, _, _ => none
    | fuel + 1, t, u, s =>
      match ISubst.walk fuel s t, ISubst.walk fuel s u with
      | .var v, .var w => if v = w then some s else some ((v, .var w) :: s)
      | .var v, u' => some ((v, u') :: s)
      | t', .var w => some ((w, t') :: s)
      | .atom a, .atom b => if a = b then some s else none
      | .int i, .int j => if i = j then some s else none
      | .app g as, .app h bs => if g = h then IArgs.unify fuel as bs s else none
      | _, _ => none
  def IArgs.unify : Nat → IArgs → IArgs → ISubst → Option ISubst
    | 0, _, _, _ => none
    | _ + 1, .nil, .nil, s => some s
    | fuel + 1, .cons t ts, .cons u us, s =>
      match ITerm.unify fuel t u s with
      | some s' => IArgs.unify fuel ts us s'
      | none => none
    | _ + 1, _, _, _ => none
end

def ISubst.ren (ρ μ : Nat → Nat) (s : ISubst) : ISubst := s.map fun p => (μ p.1, p.2.ren ρ μ)

/-- an answer as the harness (and every other property's model) sees it: atoms by name,
    variables renamed by first occurrence -/
def ITerm.answer (nm : Nat → String) (t : ITerm) : Term := (t.abs nm).canon

end PrologVerif.Shared
