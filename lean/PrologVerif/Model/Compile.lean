/-
  Model of engine/clause.go (`compile`, `compileClause`, `compileHead`, `compileBody`,
  `compilePred`, `compileHeadArg`, `compileBodyArg`, `varOffset`) and of the two iterators it uses
  (engine/iterator.go `seqIterator`, `altIterator`), over the Go term encodings (`Rep`).

  The input is the clause term with the asserting environment already applied (the Go code resolves
  lazily, level by level; that the two agree is checked by the `c10.compile` stream on clauses
  whose variables are bound at assertion time).
-/
import PrologVerif.Model.Rep
import PrologVerif.Model.Errors
namespace PrologVerif.VM
open PrologVerif

/-- bytecode; operands are abstract terms (a `charList`/`codeList` constant is the list it denotes) -/
inductive Op where
  | enter
  | call (f : String) (n : Nat)
  | exit
  | getConst (t : Term)
  | putConst (t : Term)
  | getVar (i : Nat)
  | putVar (i : Nat)
  | getFunctor (f : String) (n : Nat)
  | putFunctor (f : String) (n : Nat)
  | pop
  | cut
  | getList (n : Nat)
  | putList (n : Nat)
  | getPartial (n : Nat)
  | putPartial (n : Nat)
  | unsupported (what : String)   -- an encoding this model does not cover (never produced by the parser)
  deriving DecidableEq

/-- a clause under construction: the variable table and the code so far -/
structure CState where
  vars : List Nat := []
  code : List Op := []

/-- `varOffset`: index of the variable in the table, appended if new -/
def varOffset (c : CState) (v : Nat) : Nat × CState :=
  match indexOf? c.vars v with
  | some i => (i, c)
  | none => (c.vars.length, { c with vars := c.vars ++ [v] })

def emit (c : CState) (o : Op) : CState := { c with code := c.code ++ [o] }

def charConsts (s : List Char) : List Term := s.map fun ch => .atom (String.singleton ch)
def codeConsts (s : List Char) : List Term := s.map fun ch => .int ch.toNat

mutual
  /-- `compileHeadArg` -/
  def compileHeadArg : Rep → CState → CState
    | .var v, c => let (i, c) := varOffset c v; emit c (.getVar i)
    | .charList s, c => emit c (.getConst (Rep.abs (.charList s)))   -- treated as atomic
    | .codeList s, c => emit c (.getConst (Rep.abs (.codeList s)))
    | .list elems, c =>
      emit (compileHeadArgs elems (emit c (.getList elems.length))) .pop
    | .part pre tail, c =>
      -- operand = number of prefix elements; the TAIL is compiled first, then the prefix elements
      match pre with
      | .list elems =>
        emit (compileHeadArgs elems (compileHeadArg tail (emit c (.getPartial elems.length)))) .pop
      | .charList s =>
        let c := compileHeadArg tail (emit c (.getPartial s.length))
        emit ((charConsts s).foldl (fun c t => emit c (.getConst t)) c) .pop
      | .codeList s =>
        let c := compileHeadArg tail (emit c (.getPartial s.length))
        emit ((codeConsts s).foldl (fun c t => emit c (.getConst t)) c) .pop
      | _ => emit c (.unsupported "partial over compound/partial prefix")
    | .compound f args, c =>
      emit (compileHeadArgs args (emit c (.getFunctor f args.length))) .pop
    | .atom s, c => emit c (.getConst (.atom s))
    | .int i, c => emit c (.getConst (.int i))
    | .flt b, c => emit c (.getConst (.flt b))
    | .str n, c => emit c (.getConst (.str n))
  def compileHeadArgs : RepList → CState → CState
    | .nil, c => c
    | .cons r rs, c => compileHeadArgs rs (compileHeadArg r c)
end

mutual
  /-- `compileBodyArg` -/
  def compileBodyArg : Rep → CState → CState
    | .var v, c => let (i, c) := varOffset c v; emit c (.putVar i)
    | .charList s, c => emit c (.putConst (Rep.abs (.charList s)))
    | .codeList s, c => emit c (.putConst (Rep.abs (.codeList s)))
    | .list elems, c =>
      emit (compileBodyArgs elems (emit c (.putList elems.length))) .pop
    | .part pre tail, c =>
      match pre with
      | .list elems =>
        emit (compileBodyArgs elems (compileBodyArg tail (emit c (.putPartial elems.length)))) .pop
      | .charList s =>
        let c := compileBodyArg tail (emit c (.putPartial s.length))
        emit ((charConsts s).foldl (fun c t => emit c (.putConst t)) c) .pop
      | .codeList s =>
        let c := compileBodyArg tail (emit c (.putPartial s.length))
        emit ((codeConsts s).foldl (fun c t => emit c (.putConst t)) c) .pop
      | _ => emit c (.unsupported "partial over compound/partial prefix")
    | .compound f args, c =>
      emit (compileBodyArgs args (emit c (.putFunctor f args.length))) .pop
    | .atom s, c => emit c (.putConst (.atom s))
    | .int i, c => emit c (.putConst (.int i))
    | .flt b, c => emit c (.putConst (.flt b))
    | .str n, c => emit c (.putConst (.str n))
  def compileBodyArgs : RepList → CState → CState
    | .nil, c => c
    | .cons r rs, c => compileBodyArgs rs (compileBodyArg r c)
end

/-- `compilePred`: one body goal.  `none` = errNotCallable. -/
def compilePred : Rep → CState → Option CState
  | .var v, c =>
    -- a variable goal is call(V)
    some (emit (compileBodyArg (.var v) c) (.call "call" 1))
  | .atom "!", c => some (emit c .cut)
  | .atom s, c => some (emit c (.call s 0))
  | .compound f args, c => some (emit (compileBodyArgs args c) (.call f args.length))
  | .list elems, c =>
    -- a list cell is the compound '.'/2: arguments through the interface (head, then the rest)
    match Rep.arg (.list elems) 0, Rep.arg (.list elems) 1 with
    | some h, some t => some (emit (compileBodyArg t (compileBodyArg h c)) (.call "." 2))
    | _, _ => none
  | .charList s, c =>
    match Rep.arg (.charList s) 0, Rep.arg (.charList s) 1 with
    | some h, some t => some (emit (compileBodyArg t (compileBodyArg h c)) (.call "." 2))
    | _, _ => none
  | .codeList s, c =>
    match Rep.arg (.codeList s) 0, Rep.arg (.codeList s) 1 with
    | some h, some t => some (emit (compileBodyArg t (compileBodyArg h c)) (.call "." 2))
    | _, _ => none
  | .part pre tail, c =>
    match Rep.arg (.part pre tail) 0, Rep.arg (.part pre tail) 1 with
    | some h, some t => some (emit (compileBodyArg t (compileBodyArg h c)) (.call "." 2))
    | _, _ => none
  | _, _ => none

/-- `seqIterator`: the conjuncts of a body.  A conjunction is transparent to cut, so a left-nested
    conjunction `((A, B), C)` is rotated to `(A, (B, C))` while iterating (the loop in
    `seqIterator.Next`): the goals are the leaves of the whole ','/2 tree, left to right. -/
def seqGoals : Rep → List Rep
  | .compound "," (.cons a (.cons b .nil)) => seqGoals a ++ seqGoals b
  | g => [g]

/-- `altIterator`: the top-level disjuncts of a body; an if-then-else stays one goal -/
def altBodies : Rep → List Rep
  | .compound ";" (.cons a (.cons b .nil)) =>
    match a with
    | .compound "->" (.cons _ (.cons _ .nil)) => [.compound ";" (.cons a (.cons b .nil))]
    | _ => a :: altBodies b
  | g => [g]

/-- `compileBody` -/
def compileBody (body : Rep) (c : CState) : Option CState :=
  (seqGoals body).foldl (fun oc g => oc.bind (compilePred g)) (some (emit c .enter))

/-- `compileHead`: name, arity and the get-instructions of the head arguments -/
def compileHead : Rep → CState → String × Nat × CState
  | .atom s, c => (s, 0, c)
  | .compound f args, c => (f, args.length, compileHeadArgs args c)
  | .var _, c => (String.singleton (Char.ofNat 0), 0, c)
  | .int _, c => (String.singleton (Char.ofNat 0), 0, c)
  | .flt _, c => (String.singleton (Char.ofNat 0), 0, c)
  | .str _, c => (String.singleton (Char.ofNat 0), 0, c)
  | r, c =>
    -- a list cell in any encoding is the compound '.'/2: arguments through the interface
    -- (not callable otherwise: the Go code leaves pi zero — Atom(0)/0 — and callers reject such heads)
    match Rep.arg r 0, Rep.arg r 1 with
    | some h, some t => (".", 2, compileHeadArg t (compileHeadArg h c))
    | _, _ => (String.singleton (Char.ofNat 0), 0, c)

/-- a compiled clause -/
structure Clause where
  name : String
  arity : Nat
  raw : Term            -- the stored source term (for clause/2, retract/1)
  vars : List Nat       -- variable table: source variable of each offset
  code : List Op
  deriving DecidableEq

/-- `compileClause` -/
def compileClause (head : Rep) (body : Option Rep) : Option (String × Nat × CState) :=
  let (f, n, c) := compileHead head {}
  match body with
  | none => some (f, n, emit c .exit)
  | some b => (compileBody b c).map fun c => (f, n, emit c .exit)

/-- `compile`: a rule yields one clause per top-level disjunct of its body, every one carrying the
    whole rule as `raw`; a failure to compile a body is type_error(callable, Body) -/
def compile (t : Rep) : Except Term (List Clause) :=
  match t with
  | .compound ":-" (.cons head (.cons body .nil)) =>
    (altBodies body).foldl (fun acc alt =>
      match acc with
      | .error e => .error e
      | .ok cs =>
        match compileClause head (some alt) with
        | none => .error (typeErr "callable" (Rep.abs body))
        | some (f, n, c) => .ok (cs ++ [{ name := f, arity := n, raw := Rep.abs t, vars := c.vars, code := c.code }]))
      (.ok [])
  | _ =>
    match compileClause t none with
    | none => .error (typeErr "callable" (Rep.abs t))
    | some (f, n, c) => .ok [{ name := f, arity := n, raw := Rep.abs t, vars := c.vars, code := c.code }]

/-- the encoding the reader (and `Apply`, `List`, `PartialList`) chooses for an abstract term:
    a '.'/2 chain ending in `[]` is a `list`, any other non-empty chain a `*partial` over a `list`,
    everything else a `*compound` -/
def mkApp (f : String) (rs : RepList) : Rep :=
  match f, rs with
  | ".", .cons h (.cons tl .nil) =>
    match tl with
    | .atom "[]" => .list (.cons h .nil)
    | .list es => .list (.cons h es)
    | .part (.list es) t => .part (.list (.cons h es)) t
    | other => .part (.list (.cons h .nil)) other
  | _, _ => .compound f rs

mutual
  def toRep : Term → Rep
    | .var v => .var v
    | .atom s => .atom s
    | .int i => .int i
    | .flt b => .flt b
    | .str n => .str n
    | .app f as => mkApp f (toReps as)
  def toReps : Args → RepList
    | .nil => .nil
    | .cons t ts => .cons (toRep t) (toReps ts)
end

end PrologVerif.VM
