/-
  Specification of loading a Prolog text (ISO 7.4, as worded by property C20), written over the
  sequence of read results — not as a staging machine:

  * every item is READ as a clause of some predicate, a declaration, an initialization
    directive, a goal directive, or a fault (syntax error, non-callable clause, malformed
    declaration);
  * the load FAILS iff some item is a fault, or a goal directive does not succeed, or the
    clauses of some predicate come in two runs (separated by a clause of another predicate or
    by any directive) and the later run is not preceded by a discontiguous declaration;
  * a failed load leaves the procedure table as it was;
  * a successful load defines, for every predicate that has a clause or a declaration in the
    text, exactly the text's clauses for it in source order (a rule whose body has n top-level
    alternatives counts as n clauses), with the flags declared anywhere in the text; it
    replaces an earlier definition unless both are multifile (then the clauses are appended);
    every other predicate is untouched; then the initialization goals run in order.

  Directives are assumed side-effect free here (the property says so); `succeeds` is the oracle
  for goal directives.
-/
import PrologVerif.Model.Text
namespace PrologVerif.Load
open PrologVerif PrologVerif.DB

inductive Flag | dynamic | multifile | discontiguous
  deriving DecidableEq

inductive Reading where
  | clause (pi : PI) (raws : List Term)
  | declare (flag : Flag) (pis : List PI)
  | init (g : Term)
  | goal (g : Term)
  | fault
  deriving DecidableEq

/-- the predicate indicators of a declaration argument, `none` if it is malformed -/
def declPIs (arg : Term) : Option (List PI) :=
  let (elems, tailErr) := anyElems arg
  if tailErr.isSome then none
  else elems.mapM fun e => match declPI e with
    | .ok pi => some pi
    | .error _ => none

def classify : Item → Reading
  | .syntaxError => .fault
  | .term (.app ":-" (.cons d .nil)) =>
    match d with
    | .app "dynamic" (.cons a .nil) => match declPIs a with | some ps => .declare .dynamic ps | none => .fault
    | .app "multifile" (.cons a .nil) => match declPIs a with | some ps => .declare .multifile ps | none => .fault
    | .app "discontiguous" (.cons a .nil) =>
      match declPIs a with | some ps => .declare .discontiguous ps | none => .fault
    | .app "initialization" (.cons g .nil) => .init g
    | g => .goal g
  | .term t =>
    match clausePI t, DB.compile t with
    | .ok pi, .ok raws => .clause pi raws
    | _, _ => .fault

/-! ### contiguity -/

structure Scan where
  /-- predicate of the run in progress -/
  cur : Option PI
  /-- predicates that already have a completed run -/
  closed : List PI
  /-- predicates declared discontiguous so far -/
  disc : List PI

/-- a run ends: it is a violation if the predicate had a run before and is not declared -/
def endRun (s : Scan) : Option Scan :=
  match s.cur with
  | none => some s
  | some pi => if pi ∈ s.closed ∧ pi ∉ s.disc then none else some { s with cur := none, closed := pi :: s.closed }

/-- one item; `none` = contiguity violated.  A clause of the predicate of the run in progress
    continues the run; anything else ends it (a discontiguous declaration counts from the next
    run on). -/
def scanStep (r : Reading) (s : Scan) : Option Scan :=
  match r with
  | .clause pi _ =>
    if s.cur = some pi then some s
    else match endRun s with
      | none => none
      | some s' => some { s' with cur := some pi }
  | .declare .discontiguous ps =>
    match endRun s with
    | none => none
    | some s' => some { s' with disc := s'.disc ++ ps }
  | _ => endRun s

def scanItems : List Reading → Scan → Option Scan
  | [], s => some s
  | r :: rs, s =>
    match scanStep r s with
    | none => none
    | some s' => scanItems rs s'

/-- no predicate has a later run that is not preceded by a discontiguous declaration -/
def contiguous (rs : List Reading) : Bool :=
  match scanItems rs ⟨none, [], []⟩ with
  | none => false
  | some s => (endRun s).isSome

/-! ### the definition a text gives to a predicate -/

def clausesFor (rs : List Reading) (pi : PI) : List Term :=
  rs.flatMap fun
    | .clause pi' raws => if pi' = pi then raws else []
    | _ => []

def declared (rs : List Reading) (f : Flag) (pi : PI) : Bool :=
  rs.any fun
    | .declare f' ps => f' = f ∧ pi ∈ ps
    | _ => false

def mentioned (rs : List Reading) (pi : PI) : Bool :=
  rs.any fun
    | .clause pi' _ => pi' = pi
    | .declare _ ps => pi ∈ ps
    | _ => false

def definitionFor (rs : List Reading) (pi : PI) : UProc :=
  { isPublic := declared rs .dynamic pi, dynamic := declared rs .dynamic pi,
    multifile := declared rs .multifile pi, discontiguous := declared rs .discontiguous pi,
    clauses := clausesFor rs pi }

/-- predicates of the text in order of first mention -/
def mentionedPIs (rs : List Reading) : List PI :=
  (rs.flatMap fun
    | .clause pi _ => [pi]
    | .declare _ ps => ps
    | _ => []).eraseDups

/-- what the table holds for `pi` after a successful load -/
def newEntry (old : Option Procedure) (u : UProc) : Procedure :=
  match old with
  | some (.user e) => if e.multifile = true ∧ u.multifile = true then .user { e with clauses := e.clauses ++ u.clauses } else .user u
  | _ => .user u

inductive Verdict where
  /-- failed before anything was committed: the table must be unchanged -/
  | rejected
  /-- loaded; `initOk` = all initialization goals succeeded -/
  | loaded (table : Procs) (initOk : Bool)

/-- the whole specification, executable (used as the oracle of stream c20.load) -/
def specLoad (succeeds : Procs → Term → Bool) (procs : Procs) (items : List Item) : Verdict :=
  let rs := items.map classify
  if rs.any (· = .fault) then .rejected
  else if rs.any (fun | .goal g => !succeeds procs g | _ => false) then .rejected
  else if !contiguous rs then .rejected
  else
    let table := (mentionedPIs rs).foldl (fun ps pi => ps.set pi (newEntry (ps.get pi) (definitionFor rs pi))) procs
    let inits := rs.filterMap fun | .init g => some g | _ => none
    .loaded table (inits.all (succeeds table))

end PrologVerif.Load
