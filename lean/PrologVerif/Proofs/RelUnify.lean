/-
  C16 helper lemmas: `unifyM` against a ground term is matching, and the matcher's result is a
  most general unifier in the sense needed by the structural builtins (σ = σ ∘ θ).
-/
import PrologVerif.Proofs.RelList
namespace PrologVerif.Rel
open PrologVerif PrologVerif.Relations

/-- every binding is to a ground term -/
def RangeGround (θ : Subst) : Prop := ∀ v t, θ.lookup v = some t → groundT t = true

theorem rangeGround_nil : RangeGround [] := fun _ _ h => by cases h

theorem rangeGround_cons {θ : Subst} {v : Nat} {g : Term} (h : RangeGround θ) (hg : groundT g = true) :
    RangeGround ((v, g) :: θ) := by
  intro w t hw
  by_cases hwv : w = v
  · subst hwv; simp [List.lookup] at hw; rw [← hw]; exact hg
  · have : (w == v) = false := by simp [hwv]
    simp [List.lookup, this] at hw
    exact h w t hw

mutual
  theorem matchT_rangeGround : (p g : Term) → (θ θ' : Subst) → matchT p g θ = some θ' →
      groundT g = true → RangeGround θ → RangeGround θ'
    | .var v, g, θ, θ' => by
      intro h hg hr
      unfold matchT at h
      cases hl : θ.lookup v with
      | some t => simp only [hl] at h; split at h <;> cases h; exact hr
      | none => simp only [hl] at h; cases h; exact rangeGround_cons hr hg
    | .app f as, g, θ, θ' => by
      intro h hg hr
      unfold matchT at h
      split at h
      · rename_i f' bs
        split at h
        · simp only [groundT] at hg
          exact matchA_rangeGround as bs θ θ' h hg hr
        · cases h
      · cases h
    | .atom s, g, θ, θ' => by intro h _ hr; unfold matchT at h; split at h <;> cases h; exact hr
    | .int i, g, θ, θ' => by intro h _ hr; unfold matchT at h; split at h <;> cases h; exact hr
    | .flt b, g, θ, θ' => by intro h _ hr; unfold matchT at h; split at h <;> cases h; exact hr
    | .str n, g, θ, θ' => by intro h _ hr; unfold matchT at h; split at h <;> cases h; exact hr
  theorem matchA_rangeGround : (ps gs : Args) → (θ θ' : Subst) → matchA ps gs θ = some θ' →
      groundA gs = true → RangeGround θ → RangeGround θ'
    | .nil, gs, θ, θ' => by
      intro h _ hr; unfold matchA at h; split at h <;> cases h; exact hr
    | .cons a as, gs, θ, θ' => by
      intro h hg hr
      unfold matchA at h
      split at h
      · rename_i b bs'
        simp only [groundA, Bool.and_eq_true] at hg
        split at h
        · rename_i θ₁ h₁
          exact matchA_rangeGround as bs' θ₁ θ' h hg.2 (matchT_rangeGround a b θ θ₁ h₁ hg.1 hr)
        · cases h
      · cases h
end

/-- σ factors through a ground-range substitution it agrees with: σ = σ ∘ θ -/
theorem subst_absorb {σ : Nat → Term} {θ : Subst} (ha : Agrees σ θ) (hr : RangeGround θ) (t : Term) :
    substT σ (substT θ.fn t) = substT σ t := by
  rw [substT_comp]
  apply substT_congr
  intro v _
  unfold Subst.fn
  cases hl : θ.lookup v with
  | some g => simp only; rw [substT_ground σ g (hr v g hl)]; exact (ha v g hl).symm
  | none => simp [substT]

theorem unifyM_ground_right {a b : Term} (hb : groundT b = true) :
    unifyM a b = (matchT a b []).map Subst.fn := by
  simp [unifyM, hb]

/-- what one `Unify(a, b)` alternative contributes when `b` is ground -/
theorem unifyAns_ground {args : List Term} {a b : Term} (hb : groundT b = true) :
    (∀ t ∈ unifyAns args a b, ∃ θ : Subst, t = args.map (substT θ.fn) ∧ substT θ.fn a = b ∧
        unifyAns args a b = [t]) ∧
    (∀ σ : Nat → Term, substT σ a = b → ∃ θ : Subst, unifyAns args a b = [args.map (substT θ.fn)] ∧
        ∀ t, substT σ (substT θ.fn t) = substT σ t) ∧
    ((∀ σ : Nat → Term, substT σ a ≠ b) → unifyAns args a b = []) := by
  unfold unifyAns
  rw [unifyM_ground_right hb]
  cases hm : matchT a b [] with
  | none =>
    refine ⟨by simp, ?_, by simp⟩
    intro σ hσ
    obtain ⟨θ, hθ, _⟩ := matchT_complete σ a b [] (fun _ _ h => by cases h) hσ
    rw [hm] at hθ; cases hθ
  | some θ =>
    have hs := (matchT_sound a b [] θ hm).2 θ (Extends.refl _)
    refine ⟨?_, ?_, ?_⟩
    · intro t ht
      simp at ht
      exact ⟨θ, ht, hs, by simp [ht]⟩
    · intro σ hσ
      obtain ⟨θ', hθ', ha⟩ := matchT_complete σ a b [] (fun _ _ h => by cases h) hσ
      rw [hm] at hθ'; cases hθ'
      exact ⟨θ, by simp, subst_absorb ha (matchT_rangeGround a b [] θ hm hb rangeGround_nil)⟩
    · intro hne
      exact absurd hs (hne θ.fn)

/-- the answers are exactly the relation's instances of the call, up to instantiation of the
    answers (which may contain variables) -/
structure ExactInst (R : List Term → Prop) (args : List Term) (ans : Answers) : Prop where
  sound : ∀ t ∈ ans, R t ∧ IsInstance args t
  complete : ∀ t, R t → IsInstance args t → ∃ a ∈ ans, IsInstance a t
  nodup : ans.Nodup

theorem Exact.toInst {R args ans} (h : Exact R args ans) : ExactInst R args ans :=
  ⟨h.sound, fun t hr hi => ⟨t, h.complete t hr hi, IsInstance.refl t⟩, h.nodup⟩

theorem exactInst_nil {R : List Term → Prop} {args : List Term} (h : ∀ t, R t → IsInstance args t → False) :
    ExactInst R args [] where
  sound _ ht := by cases ht
  complete t hr hi := (h t hr hi).elim
  nodup := List.Pairwise.nil

/-- a deterministic builtin `Unify(a, b)` with ground `b`, where the relation holds for an instance
    of the call iff that instance unifies `a` with `b` -/
theorem exactInst_unifyAns {R : List Term → Prop} {args : List Term} {a b : Term} (hb : groundT b = true)
    (h1 : ∀ σ : Nat → Term, substT σ a = b → R (args.map (substT σ)))
    (h2 : ∀ σ : Nat → Term, R (args.map (substT σ)) → substT σ a = b) :
    ExactInst R args (unifyAns args a b) := by
  obtain ⟨k1, k2, k3⟩ := unifyAns_ground (args := args) (a := a) hb
  refine ⟨?_, ?_, ?_⟩
  · intro t ht
    obtain ⟨θ, rfl, hθ, _⟩ := k1 t ht
    exact ⟨h1 _ hθ, ⟨θ.fn, rfl⟩⟩
  · rintro t hr ⟨σ, rfl⟩
    obtain ⟨θ, hθ, habs⟩ := k2 σ (h2 σ hr)
    refine ⟨args.map (substT θ.fn), by rw [hθ]; simp, σ, ?_⟩
    simp [List.map_map, Function.comp_def, habs]
  · unfold unifyAns
    split <;> simp

/-! ### tuples, argument vectors, fresh variables -/

theorem length_substA (σ : Nat → Term) : (as : Args) → (substA σ as).length = as.length
  | .nil => by simp [substA, Args.length]
  | .cons _ ts => by simp [substA, Args.length, length_substA σ ts]

theorem toList_substA (σ : Nat → Term) : (as : Args) → (substA σ as).toList = as.toList.map (substT σ)
  | .nil => by simp [substA, Args.toList]
  | .cons _ ts => by simp [substA, Args.toList, toList_substA σ ts]

theorem substA_ofList (σ : Nat → Term) (ts : List Term) :
    substA σ (Args.ofList ts) = Args.ofList (ts.map (substT σ)) := by
  induction ts with
  | nil => simp [Args.ofList, substA]
  | cons t ts ih => simp [Args.ofList, substA, ih]

theorem length_ofList (ts : List Term) : (Args.ofList ts).length = ts.length := by
  induction ts with
  | nil => simp [Args.ofList, Args.length]
  | cons t ts ih => simp [Args.ofList, Args.length, ih]

theorem substT_tuple (σ : Nat → Term) (ts : List Term) : substT σ (tuple ts) = tuple (ts.map (substT σ)) := by
  simp [tuple, substT, substA_ofList]

theorem tuple_inj {as bs : List Term} (h : tuple as = tuple bs) : as = bs := by
  simp only [tuple, Term.app.injEq, true_and] at h
  have := congrArg Args.toList h
  simpa using this

theorem groundT_tuple (ts : List Term) : groundT (tuple ts) = ts.all groundT := by
  simp only [tuple, groundT]
  induction ts with
  | nil => simp [Args.ofList, groundA]
  | cons t ts ih => simp [Args.ofList, groundA, ih]

theorem groundT_of_isAtomic {t : Term} (h : isAtomic t = true) : groundT t = true := by
  cases t <;> simp_all [isAtomic, isVar, isCompound, groundT]

/-- the substitution sending the fresh variables `s, s+1, …` to the terms `ts` -/
def assign (s : Nat) (ts : List Term) : Nat → Term :=
  fun v => if s ≤ v then (match ts[v - s]? with | some t => t | none => .var v) else .var v

theorem map_assign_freshVars (s : Nat) (ts : List Term) :
    (freshVars s ts.length).map (substT (assign s ts)) = ts := by
  apply List.ext_getElem
  · simp [freshVars]
  · intro i h1 h2
    simp [freshVars, substT, assign, List.getElem?_eq_getElem h2]

theorem assign_below {s : Nat} {ts : List Term} {v : Nat} (h : v < s) : assign s ts v = .var v := by
  simp [assign]; omega

mutual
  theorem substT_below (f : Nat → Term) (s : Nat) (hf : ∀ v, v < s → f v = .var v) :
      (t : Term) → boundT t ≤ s → substT f t = t
    | .var v => by intro h; simp [boundT] at h; simp [substT, hf v (by omega)]
    | .app _ as => by intro h; simp only [boundT] at h; simp [substT, substA_below f s hf as h]
    | .atom _ => by simp [substT]
    | .int _ => by simp [substT]
    | .flt _ => by simp [substT]
    | .str _ => by simp [substT]
  theorem substA_below (f : Nat → Term) (s : Nat) (hf : ∀ v, v < s → f v = .var v) :
      (as : Args) → boundA as ≤ s → substA f as = as
    | .nil => by simp [substA]
    | .cons t ts => by
      intro h; simp only [boundA] at h
      simp [substA, substT_below f s hf t (by omega), substA_below f s hf ts (by omega)]
end

theorem groundA_mem : (as : Args) → groundA as = true → ∀ e ∈ as.toList, groundT e = true
  | .nil, _, e, he => by simp [Args.toList] at he
  | .cons t ts, h, e, he => by
    simp only [groundA, Bool.and_eq_true] at h
    simp only [Args.toList, List.mem_cons] at he
    rcases he with rfl | he
    · exact h.1
    · exact groundA_mem ts h.2 e he

theorem ground_spine {l : Term} (h : groundT l = true) : ∀ e ∈ l.spine.1, groundT e = true := by
  have := list_spine l
  rw [← this, groundT_list] at h
  simp only [Bool.and_eq_true, List.all_eq_true] at h
  exact h.1

theorem getElem?_mem' {α} {l : List α} {i : Nat} {a : α} (h : l[i]? = some a) : a ∈ l :=
  List.mem_of_getElem? h

mutual
  theorem substT_bind1_not_occurs (x : Nat) (u : Term) : (t : Term) → occursT x t = false →
      substT (bind1 x u) t = t
    | .var v => by
      intro h; simp only [occursT, beq_eq_false_iff_ne, ne_eq] at h
      simp [substT, bind1, h]
    | .app _ as => by
      intro h; simp only [occursT] at h
      simp [substT, substA_bind1_not_occurs x u as h]
    | .atom _ => by simp [substT]
    | .int _ => by simp [substT]
    | .flt _ => by simp [substT]
    | .str _ => by simp [substT]
  theorem substA_bind1_not_occurs (x : Nat) (u : Term) : (as : Args) → occursA x as = false →
      substA (bind1 x u) as = as
    | .nil => by simp [substA]
    | .cons t ts => by
      intro h; simp only [occursA, Bool.or_eq_false_iff] at h
      simp [substA, substT_bind1_not_occurs x u t h.1, substA_bind1_not_occurs x u ts h.2]
end

theorem list_eq_of_spine {l : Term} {es : List Term} (h1 : l.spine.1 = es) (h2 : l.spine.2 = Term.nilT) :
    l = Term.list es := by
  have := list_spine l
  rw [h1, h2] at this
  exact this.symm

theorem list_drop_of_lt {es : List Term} {k : Nat} (tl : Term) (h : k < es.length) :
    ∃ e rest, Term.list (es.drop k) tl = Term.consT e rest := by
  cases hd : es.drop k with
  | nil => simp at hd; omega
  | cons e rest => exact ⟨e, Term.list rest tl, rfl⟩

theorem list_drop_of_ge {es : List Term} {k : Nat} (tl : Term) (h : es.length ≤ k) :
    Term.list (es.drop k) tl = tl := by
  rw [List.drop_eq_nil_of_le h]; rfl

/-- a proper list `[e₁,…,eₙ|tl]`: `tl` is itself a proper list -/
theorem asList_list_tail {es : List Term} {tl : Term} {es' : List Term}
    (h : asList (Term.list es tl) = some es') : ∃ r, asList tl = some r ∧ es' = es ++ r := by
  unfold asList at h
  rw [spine_list] at h
  simp only at h
  split at h
  · rename_i htl
    cases h
    exact ⟨tl.spine.1, by simp [asList, htl], rfl⟩
  · cases h

theorem asList_var (v : Nat) : asList (.var v) = none := by simp [asList, Term.nilT]
theorem asList_int (i : Int) : asList (.int i) = none := by simp [asList, Term.nilT]

theorem substT_spine_tail_atom {l : Term} {a : String} (h : l.spine.2 = .atom a) (σ : Nat → Term) :
    substT σ l = Term.list (l.spine.1.map (substT σ)) (.atom a) := by
  conv => lhs; rw [← list_spine l, h, substT_list]
  simp

theorem list_append (xs ys : List Term) (tl : Term) :
    Term.list (xs ++ ys) tl = Term.list xs (Term.list ys tl) := by
  induction xs with
  | nil => rfl
  | cons x xs ih => simp [ih]

mutual
  theorem occursT_lt_bound (v : Nat) : (t : Term) → occursT v t = true → v < boundT t
    | .var w => by simp [occursT, boundT]; intro h; omega
    | .app _ as => by intro h; simp only [occursT] at h; simp only [boundT]; exact occursA_lt_bound v as h
    | .atom _ => by simp [occursT]
    | .int _ => by simp [occursT]
    | .flt _ => by simp [occursT]
    | .str _ => by simp [occursT]
  theorem occursA_lt_bound (v : Nat) : (as : Args) → occursA v as = true → v < boundA as
    | .nil => by simp [occursA]
    | .cons t ts => by
      intro h
      simp only [occursA, Bool.or_eq_true] at h
      simp only [boundA]
      rcases h with h | h
      · have := occursT_lt_bound v t h; omega
      · have := occursA_lt_bound v ts h; omega
end

theorem boundT_le_boundL {t : Term} {ts : List Term} (h : t ∈ ts) : boundT t ≤ boundL ts := by
  induction ts with
  | nil => cases h
  | cons x xs ih =>
    simp only [boundL, List.foldr_cons]
    rcases List.mem_cons.mp h with rfl | h
    · omega
    · have := ih h; simp only [boundL] at this; omega

/-- Instantiating the answer of a generating mode.  The answer substitution `γ` sends the tail
    variable `s` to a list of fresh variables `F` (numbered from `b`, above every variable of the
    call) and every other variable either to itself or to what `σ` sends it to.  Any `σ` that
    sends `s` to a proper list `r` of the same length is then an instance of the answer. -/
theorem generated_instance {b : Nat} {γ σ : Nat → Term} {s : Nat} {r : List Term}
    (hs : γ s = Term.list (freshVars b r.length)) (hσs : σ s = Term.list r)
    (hother : ∀ v, v ≠ s → v < b → γ v = .var v ∨ (γ v = σ v ∧ groundT (σ v) = true))
    (t : Term) (ht : boundT t ≤ b) :
    substT (fun v => if v < b then σ v else assign b r v) (substT γ t) = substT σ t := by
  rw [substT_comp]
  apply substT_congr
  intro v hv
  have hvb : v < b := Nat.lt_of_lt_of_le (occursT_lt_bound v t hv) ht
  by_cases hvs : v = s
  · subst hvs
    rw [hs, hσs, substT_list]
    have hnil : substT (fun v => if v < b then σ v else assign b r v) Term.nilT = Term.nilT := by
      simp [Term.nilT, substT]
    rw [hnil]
    congr 1
    have : ∀ e ∈ freshVars b r.length, substT (fun v => if v < b then σ v else assign b r v) e =
        substT (assign b r) e := by
      intro e he
      simp only [freshVars, List.mem_map, List.mem_range] at he
      obtain ⟨i, _, rfl⟩ := he
      have : ¬ (b + i < b) := by omega
      simp [substT, this]
    rw [List.map_congr_left this, map_assign_freshVars]
  · rcases hother v hvs hvb with h | ⟨h, hg⟩
    · simp [h, substT, hvb]
    · rw [h, substT_ground _ _ hg]

end PrologVerif.Rel
