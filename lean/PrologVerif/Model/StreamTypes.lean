/-
  Model/StreamTypes.lean — vocabulary shared by the stream model (Model/Stream.lean) and the
  cursor specification (Spec/Cursor.lean) of C19: operations, results, stream options, the
  UTF-8 decoder of Go's unicode/utf8 (a library contract: both sides use it to say what "the
  next character" of a byte sequence is) and the interface of a term reader.

  Core Lean only (linked into the driver).  Bytes and runes are `Nat`s (a byte is < 256, a rune
  is a code point); arithmetic stays in `omega`'s fragment.
-/
import PrologVerif.Basic
namespace PrologVerif.Stream

/-! ## UTF-8 as implemented by unicode/utf8 (DecodeRune, FullRune, EncodeRune) -/

/-- utf8.RuneError -/
def runeError : Nat := 0xFFFD

/-- size announced by a first byte (utf8.first[b] & 7): 1 = ASCII, 2/3/4 = lead byte, 0 = never valid -/
def leadSize (b : Nat) : Nat :=
  if b < 0x80 then 1
  else if b < 0xC2 then 0
  else if b < 0xE0 then 2
  else if b < 0xF0 then 3
  else if b < 0xF5 then 4
  else 0

/-- utf8.acceptRanges: the second byte must lie in [acceptLo b0, acceptHi b0] -/
def acceptLo (b0 : Nat) : Nat := if b0 = 0xE0 then 0xA0 else if b0 = 0xF0 then 0x90 else 0x80
def acceptHi (b0 : Nat) : Nat := if b0 = 0xED then 0x9F else if b0 = 0xF4 then 0x8F else 0xBF

/-- continuation byte (locb..hicb) -/
def isCont (b : Nat) : Prop := 0x80 ≤ b ∧ b ≤ 0xBF
instance (b : Nat) : Decidable (isCont b) := by unfold isCont; infer_instance

def accepts2 (b0 b1 : Nat) : Prop := acceptLo b0 ≤ b1 ∧ b1 ≤ acceptHi b0
instance (b0 b1 : Nat) : Decidable (accepts2 b0 b1) := by unfold accepts2; infer_instance

/-- utf8.DecodeRune: (rune, size); every failure is (RuneError, 1), the empty input (RuneError, 0) -/
def decodeRune : List Nat → Nat × Nat
  | [] => (runeError, 0)
  | b0 :: rest =>
    if leadSize b0 = 1 then (b0, 1)
    else if leadSize b0 = 0 then (runeError, 1)
    else
      match rest with
      | [] => (runeError, 1)
      | b1 :: rest =>
        if ¬ accepts2 b0 b1 then (runeError, 1)
        else if leadSize b0 = 2 then ((b0 % 32) * 64 + b1 % 64, 2)
        else
          match rest with
          | [] => (runeError, 1)
          | b2 :: rest =>
            if ¬ isCont b2 then (runeError, 1)
            else if leadSize b0 = 3 then ((b0 % 16) * 4096 + (b1 % 64) * 64 + b2 % 64, 3)
            else
              match rest with
              | [] => (runeError, 1)
              | b3 :: _ =>
                if ¬ isCont b3 then (runeError, 1)
                else ((b0 % 8) * 262144 + (b1 % 64) * 4096 + (b2 % 64) * 64 + b3 % 64, 4)

/-- utf8.FullRune: do the bytes begin with a full encoding (valid or known to be invalid)? -/
def fullRune : List Nat → Bool
  | [] => false
  | b0 :: rest =>
    if leadSize b0 ≤ 1 then true
    else if leadSize b0 ≤ rest.length + 1 then true
    else
      match rest with
      | [] => false
      | b1 :: rest =>
        if ¬ accepts2 b0 b1 then true
        else
          match rest with
          | [] => false
          | b2 :: _ => if ¬ isCont b2 then true else false

/-- a Unicode scalar value (what a Go string conversion / utf8.EncodeRune encodes as itself) -/
def validRune (r : Nat) : Prop := r < 0xD800 ∨ (0xE000 ≤ r ∧ r < 0x110000)
instance (r : Nat) : Decidable (validRune r) := by unfold validRune; infer_instance

/-- utf8.EncodeRune for scalar values -/
def encodeRune (r : Nat) : List Nat :=
  if r < 0x80 then [r]
  else if r < 0x800 then [0xC0 + r / 64, 0x80 + r % 64]
  else if r < 0x10000 then [0xE0 + r / 4096, 0x80 + (r / 64) % 64, 0x80 + r % 64]
  else [0xF0 + r / 262144, 0x80 + (r / 4096) % 64, 0x80 + (r / 64) % 64, 0x80 + r % 64]

/-! ## stream options and states -/

inductive StreamType | text | binary
  deriving DecidableEq, Repr

/-- eof_action/1 -/
inductive EofAction | eofCode | error | reset
  deriving DecidableEq, Repr

/-- end_of_stream/1 -/
inductive EOS | not | at | past
  deriving DecidableEq, Repr

def EOS.name : EOS → String
  | .not => "not" | .at => "at" | .past => "past"

/-! ## operations and what they deliver -/

/-- the input predicates and property queries of the property, applied to one stream -/
inductive Op
  | getChar | peekChar | getByte | peekByte | readTerm
  | atEnd            -- at_end_of_stream/1
  | propPos          -- stream_property(S, position(P))
  | propEos          -- stream_property(S, end_of_stream(E))
  deriving DecidableEq, Repr

/-- errors an input operation can raise -/
inductive Err
  | binaryStream     -- permission_error(input, binary_stream, S)
  | textStream       -- permission_error(input, text_stream, S)
  | pastEOS          -- permission_error(input, past_end_of_stream, S)
  | reprChar         -- representation_error(character)
  | syntax           -- syntax_error(_)
  | other            -- anything else (never produced on well-behaved sources: a theorem)
  deriving DecidableEq, Repr

inductive Result
  | char (r : Nat)        -- a one-character atom
  | byte (b : Nat)
  | eof                   -- end_of_file
  | eofByte               -- -1
  | term (t : Term)
  | err (e : Err)
  | bool (b : Bool)       -- at_end_of_stream succeeded / failed
  | pos (n : Int)
  | eos (e : EOS)
  deriving DecidableEq

def Result.isErr : Result → Bool
  | .err _ => true
  | _ => false

/-! ## the term reader as a consumer of runes

  `read_term/3` builds a parser on the stream; the parser pulls runes one at a time through
  `Stream.ReadRune` and stops either on a rune — which is then its look-ahead and is handed back by
  one `UnreadRune` — or on the end of the input.  Model and specification are parametric in this
  machine; the theorems hold for every such reader.  `Model/ClauseScanner.lean` is the instance
  measured on the real lexer+parser for the clause shapes the generators use. -/

inductive ReadOut
  | term (t : Term)
  | syntaxErr
  deriving DecidableEq

inductive EOFOut
  | out (o : ReadOut)    -- the input ended right after a complete clause (or inside a broken one)
  | endOfFile            -- nothing but layout and comments: end_of_file is delivered
  deriving DecidableEq

structure Scanner (σ : Type) where
  init : σ
  /-- feed one rune: continue, or stop with this rune as the look-ahead -/
  step : σ → Nat → σ ⊕ ReadOut
  /-- the input is exhausted -/
  eof : σ → EOFOut

end PrologVerif.Stream
