/-
  C11 — findall/bagof/setof collect exactly the solutions, as copies, grouped by witness.

  Property theorems only (helper lemmas live in Proofs/Collect*.lean).  Everything is about
  `Model/Collect.lean`, which mirrors engine/builtin.go `FindAll/collectionOf/variant/renamedCopy/
  iteratedGoalTerm`, engine/variable.go `new…VariablesSet` and engine/compound.go `Env.set`; the
  specification is `Spec/Collect.lean` (ISO 7.1.1.3, 7.1.1.4, 7.1.6.1, 7.1.6.5, 8.10).  The model takes
  the solution sequence of the goal as an input, so every theorem is "for all solution sequences".
  The tie to the source is the correspondence stream `c11.collect`.
-/
import PrologVerif.Proofs.CollectWitness
import PrologVerif.Proofs.CollectOrder
import PrologVerif.Proofs.CollectCanon
namespace PrologVerif.C11
open PrologVerif PrologVerif.Collect PrologVerif.CollectSpec

/-! ### variant -/

/-- **variant_equiv**: the (repaired) `variant` test of bagof/setof is reflexive, symmetric and
    transitive, and it is exactly ISO's "variant": equal up to a one-to-one renaming of variables. -/
theorem variant_equiv :
    (∀ t, variant t t = true) ∧
    (∀ t1 t2, variant t1 t2 = true → variant t2 t1 = true) ∧
    (∀ t1 t2 t3, variant t1 t2 = true → variant t2 t3 = true → variant t1 t3 = true) ∧
    (∀ t1 t2, variant t1 t2 = true ↔ Variant t1 t2) :=
  ⟨variant_isEquivB.refl, variant_isEquivB.symm, variant_isEquivB.trans, variant_iff⟩

/-- the specification oracle of the streams (`CollectSpec.classesOf`, `c11.variant`) decides "variant"
    by comparing canonical forms (variables numbered by first occurrence): that is ISO's variant, so
    on all terms it agrees with the repaired `variant` of the model -/
theorem C11_oracle_variant (t1 t2 : Term) :
    (t1.canon = t2.canon ↔ Variant t1 t2) ∧ (variant t1 t2 = true ↔ t1.canon = t2.canon) :=
  ⟨canon_eq_iff_variant t1 t2, (variant_iff t1 t2).trans (canon_eq_iff_variant t1 t2).symm⟩

/-- the two terms of defect D11: `(A,B)` and `(C,C)` -/
def d11_AB : Term := Term.a2 "," (.var 0) (.var 1)
def d11_CC : Term := Term.a2 "," (.var 2) (.var 2)

/-- **D11**: on the pinned tree `variant` is not symmetric: `variant((A,B),(C,C))` holds,
    `variant((C,C),(A,B))` does not. -/
theorem variant_symm_witness :
    ¬ (∀ t1 t2, variantPinned t1 t2 = true → variantPinned t2 t1 = true) := by
  intro h
  have h1 : variantPinned d11_AB d11_CC = true := by decide +kernel
  have h2 : variantPinned d11_CC d11_AB = false := by decide +kernel
  rw [h d11_AB d11_CC h1] at h2
  exact absurd h2 (by simp)

/-- on the pinned tree `variant` accepts terms that are not variants -/
theorem variant_spec_witness : ¬ (∀ t1 t2, variantPinned t1 t2 = true → Variant t1 t2) := by
  intro h
  have h1 : variantPinned d11_AB d11_CC = true := by decide +kernel
  have h2 : variant d11_AB d11_CC = false := by decide +kernel
  rw [(variant_iff _ _).mpr (h _ _ h1)] at h2
  exact absurd h2 (by simp)

/-! ### free variables -/

/-- **C11_free_vars**: the witness variables computed by `collectionOf` (newFreeVariablesSet, then
    sorted) are exactly the ISO free-variable set of `Template^Goal` — the variables of the goal that
    occur neither in the template nor in a `^`-prefix of the goal — each listed once, in ascending
    order. -/
theorem C11_free_vars (goal template : Term) :
    (∀ v, v ∈ freeVariables goal template ↔ Free v template goal) ∧
    (freeVariables goal template).Pairwise (· < ·) := by
  refine ⟨fun v => ?_, sortVars_sorted _⟩
  unfold freeVariables
  rw [mem_sortVars, mem_newFreeVariablesSet]

/-- the goal that is called is ISO's iterated goal term -/
theorem C11_iterated_goal (goal : Term) : IteratedGoal goal (iteratedGoalTerm goal) :=
  iteratedGoalTerm_spec goal

/-! ### findall -/

/-- **C11_findall**: for every solution sequence, with `Instances` a partial list and the goal raising
    no error: the collected list has one element per solution, in solution order, each a variant
    (renamed copy) of the solution's template instance; every variable of a copy is fresh (`≥ next`,
    so it occurs neither in the goal nor in any older term) and different copies share no variable;
    the outcome is the unification of `Instances` with that list (one answer or failure). -/
theorem C11_findall (instances : Term) (sols : List Term) (next fuel : Nat)
    (hi : checkInstances instances = none) :
    let copies := (copyAll sols next).1
    copies.length = sols.length ∧
    (∀ p ∈ sols.zip copies, Variant p.1 p.2) ∧
    (∀ c ∈ copies, ∀ v ∈ vars c, next ≤ v) ∧
    copies.Pairwise (fun a b => ∀ v ∈ vars a, v ∉ vars b) ∧
    findAll instances sols none next fuel = unifyRes (unify [] fuel instances (Term.list copies)) := by
  obtain ⟨_, h1, h2, h3, h4⟩ := copyAll_spec sols next
  refine ⟨h1, h2, fun c hc v hv => (h3 c hc v hv).1, h4, ?_⟩
  simp [findAll, hi]

/-- no solution: the list is `[]` -/
theorem C11_findall_none (instances : Term) (next fuel : Nat) (hi : checkInstances instances = none) :
    findAll instances [] none next fuel = unifyRes (unify [] fuel instances Term.nilT) := by
  simp [findAll, hi, copyAll, Term.list]

/-- errors: a bad `Instances` argument and an error of the goal are raised as they are -/
theorem C11_findall_errors (instances : Term) (sols : List Term) (gerr : Option Term) (next fuel : Nat) :
    (∀ e, checkInstances instances = some e → findAll instances sols gerr next fuel = .err e) ∧
    (∀ e, checkInstances instances = none → gerr = some e → findAll instances sols gerr next fuel = .err e) := by
  constructor
  · intro e h; simp [findAll, h]
  · intro e h1 h2; simp [findAll, h1, h2]

/-- **C11_findall** (no binding of goal variables is left behind): every variable bound in the answer
    environment is a variable of `Instances` or one of the fresh variables of the copies; in particular
    a variable of the goal (older than `next`) that does not occur in `Instances` is unbound after the
    call. -/
theorem C11_findall_bindings (instances : Term) (sols : List Term) (next fuel : Nat) (e : Env) (ok : Bool)
    (h : unify [] fuel instances (Term.list (copyAll sols next).1) = some (e, ok)) :
    (∀ p ∈ e, p.1 ∈ vars instances ∨ next ≤ p.1) ∧
    (∀ v, v < next → v ∉ vars instances → e.lookup v = none) := by
  have hnew := unify_newIn (fun v => v ∈ vars instances ∨ next ≤ v) fuel [] instances _ e ok h
    (fun v hv => Or.inl hv)
    (by
      intro v hv
      rw [vars_list] at hv
      simp only [Term.nilT, vars_atom, List.append_nil, List.mem_flatMap] at hv
      obtain ⟨c, hc, hv⟩ := hv
      exact Or.inr ((copyAll_spec sols next).2.2.2.1 c hc v hv).1)
    (by intro p hp; simp at hp)
  have h1 : ∀ p ∈ e, p.1 ∈ vars instances ∨ next ≤ p.1 := by
    intro p hp
    rcases hnew p hp with h | h
    · simp at h
    · exact h.1
  refine ⟨h1, ?_⟩
  intro v hv hni
  cases hl : e.lookup v with
  | none => rfl
  | some t =>
    rcases h1 _ (lookup_mem hl) with h | h
    · exact absurd h hni
    · simp only at h; omega

/-! ### bagof / setof: the groups -/

/-- the copies `W+T` that `collectionOf` groups: one per solution, in order, each a variant of the
    solution's instantiated `W+T`, all variables fresh, different copies variable-disjoint -/
theorem C11_bagof_copies (sols : List (Term × Term)) (n : Nat) :
    let copies := (copyPairs sols n).1
    copies.length = sols.length ∧
    (∀ p ∈ sols.zip copies, Variant (plus p.1) (plus p.2) ∧ Variant p.1.1 p.2.1 ∧ Variant p.1.2 p.2.2) ∧
    (∀ c ∈ copies, ∀ v ∈ vars c.1 ++ vars c.2, n ≤ v) ∧
    copies.Pairwise (fun a b => ∀ v ∈ vars a.1 ++ vars a.2, v ∉ vars b.1 ++ vars b.2) := by
  intro copies
  obtain ⟨_, h1, h2, h3, h4⟩ := copyAll_spec (sols.map plus) n
  rw [copyAll_plus] at h1 h2 h3 h4
  simp only [List.length_map] at h1
  refine ⟨h1, ?_, ?_, ?_⟩
  · intro p hp
    have : (plus p.1, plus p.2) ∈ (sols.map plus).zip (copies.map plus) := by
      rw [List.zip_map]
      exact List.mem_map.mpr ⟨p, hp, rfl⟩
    have hv := h2 _ this
    exact ⟨hv, variant_plus hv⟩
  · intro c hc v hv
    have := h3 (plus c) (List.mem_map_of_mem hc) v (by rw [vars_plus]; exact hv)
    exact this.1
  · have := List.pairwise_map.mp h4
    refine this.imp ?_
    intro a b hab v hv
    have := hab v (by rw [vars_plus]; exact hv)
    rwa [vars_plus] at this

/-- **C11_bagof_partition** (grouping): for every list of solutions `W+T`, the groups formed by the
    loop of `collectionOf` are a partition of the solutions into the classes of "witness is a variant
    of": together they contain every solution exactly once, no group is empty, each group keeps
    solution order, two solutions are in the same group iff their witnesses are variants. -/
theorem C11_bagof_partition (s : List (Term × Term)) : IsPartition s (groups s) := by
  have h := groupsBy_ok variant_isEquivB s
  refine ⟨h.perm, h.nonempty, h.order, ?_, ?_⟩
  · intro g hg p hp q hq
    exact (variant_iff _ _).mp (h.same g hg p hp q hq)
  · refine h.different.imp ?_
    intro g k hgk p hp q hq hv
    have := hgk p hp q hq
    rw [(variant_iff _ _).mpr hv] at this
    exact absurd this (by simp)

/-- **C11_bagof_partition** (in terms of the solutions themselves): two solutions of the goal have
    their copies in the same group iff their witnesses — the values of the free variables in the two
    solutions — are variants. -/
theorem C11_bagof_same_group_iff (sols : List (Term × Term)) (n : Nat)
    (p q : (Term × Term) × (Term × Term))
    (hp : p ∈ sols.zip (copyPairs sols n).1) (hq : q ∈ sols.zip (copyPairs sols n).1) :
    (∃ g ∈ groups (copyPairs sols n).1, p.2 ∈ g ∧ q.2 ∈ g) ↔ Variant p.1.1 q.1.1 := by
  have hcop := (C11_bagof_copies sols n).2.1
  have hpart := C11_bagof_partition (copyPairs sols n).1
  have vp := (hcop p hp).2.1
  have vq := (hcop q hq).2.1
  constructor
  · rintro ⟨g, hg, h1, h2⟩
    exact Variant.trans (Variant.trans vp (hpart.same g hg _ h1 _ h2)) (Variant.symm vq)
  · intro hv
    have hcc : Variant p.2.1 q.2.1 := Variant.trans (Variant.trans (Variant.symm vp) hv) vq
    have mem_group : ∀ c ∈ (copyPairs sols n).1, ∃ g ∈ groups (copyPairs sols n).1, c ∈ g := by
      intro c hc
      have := (hpart.perm.mem_iff (a := c)).mpr hc
      obtain ⟨g, hg, hcg⟩ := List.mem_flatten.mp this
      exact ⟨g, hg, hcg⟩
    obtain ⟨g, hg, hpg⟩ := mem_group p.2 (List.of_mem_zip (a := p.1) (b := p.2) hp).2
    obtain ⟨k, hk, hqk⟩ := mem_group q.2 (List.of_mem_zip (a := q.1) (b := q.2) hq).2
    rcases pairwise_mem_cases hpart.different g hg k hk with rfl | h | h
    · exact ⟨g, hg, hpg, hqk⟩
    · exact absurd hcc (h _ hpg _ hqk)
    · exact absurd (Variant.symm hcc) (h _ hqk _ hpg)

/-- **D11**: with the pinned `variant` the groups are not the classes: the solutions with witnesses
    `(C,C)` and `(A,B)` (facts `t(1,C,C). t(2,A,B).`, `bagof(X, t(X,Y,Z), L)`) end up in one group. -/
theorem C11_bagof_partition_witness : ¬ (∀ s, IsPartition s (groupsBy variantPinned s)) := by
  intro h
  have hp := h [(d11_CC, .int 1), (d11_AB, .int 2)]
  have hg : groupsBy variantPinned [(d11_CC, .int 1), (d11_AB, .int 2)] =
      [[(d11_CC, .int 1), (d11_AB, .int 2)]] := by decide +kernel
  rw [hg] at hp
  have hv := hp.same [(d11_CC, .int 1), (d11_AB, .int 2)] (List.mem_singleton.mpr rfl)
    (d11_AB, .int 2) (List.mem_cons_of_mem _ (List.mem_singleton.mpr rfl))
    (d11_CC, .int 1) (List.mem_cons_self ..)
  have h2 : variant d11_AB d11_CC = false := by decide +kernel
  rw [(variant_iff _ _).mpr hv] at h2
  exact absurd h2 (by simp)

/-- **C11_bagof_partition** (the witness unifications, general form): `F` = the free variables,
    `tuple args` = the witness copy of the first solution of a group, `rest` = the witness copies of
    its other solutions.  If the copies contain no free variable, are pairwise variable-disjoint and
    are variants of the first one, then — with fuel at least the stated amount — every
    `env.Unify(witness, w)` of the loop succeeds, and in the resulting environment the tuple of the
    free variables and every witness copy have the same value: the last copy. -/
theorem C11_witness_unify (F : List Nat) (args : List Term) (rest : List Term) (fuel : Nat)
    (hF : F.Nodup) (hlen : args.length = F.length)
    (hfresh : ∀ w ∈ tuple args :: rest, ∀ v ∈ vars w, v ∉ F)
    (hdisj : (tuple args :: rest).Pairwise (fun a b => ∀ v ∈ vars a, v ∉ vars b))
    (hvar : ∀ w ∈ rest, Variant (tuple args) w)
    (hfuel : needT (tuple args) + rest.length + F.length + 4 ≤ fuel) :
    ∃ e, unifyWitnesses (tuple (F.map .var)) fuel (tuple args :: rest) [] = some e ∧
      ∀ w ∈ tuple (F.map .var) :: tuple args :: rest,
        Value e w ((tuple args :: rest).getLast (by simp)) :=
  witness_unify F args rest fuel hF hlen hfresh hdisj hvar hfuel

/-- **C11_bagof_partition** (free variables = the group's witness): for every goal, template and
    solution sequence (each solution a substitution), every group `g` that `collectionOf` forms, and
    fuel at least the stated amount: the witness unifications of the group all succeed, and in the
    resulting environment the free variables of `Template^Goal` (the witness term) have the value of
    the group's witness — the witness copy of the group's last solution — and so has the witness copy
    of every solution of the group (so the template instances of the group, which share variables with
    their witness copies, are instantiated consistently). -/
theorem C11_bagof_witnesses (goal template : Term) (σs : List (List (Nat × Term))) (next fuel : Nat)
    (hnext : ∀ v ∈ freeVariables goal template, v < next)
    (g : List (Term × Term))
    (hg : g ∈ groups (copyPairs (solutionPairs goal template σs) (next + 1)).1)
    (hfuel : ∀ p ∈ g, needT p.1 + g.length + (freeVariables goal template).length + 4 ≤ fuel) :
    ∃ (e : Env) (hne : g ≠ []),
      unifyWitnesses (witnessOf goal template) fuel (g.map (·.1)) [] = some e ∧
      ∀ p ∈ g, Value e (witnessOf goal template) (g.getLast hne).1 ∧ Value e p.1 (g.getLast hne).1 := by
  have hcop := C11_bagof_copies (solutionPairs goal template σs) (next + 1)
  simp only at hcop
  obtain ⟨hlen, hvar, hfr, hdj⟩ := hcop
  have hpart := C11_bagof_partition (copyPairs (solutionPairs goal template σs) (next + 1)).1
  have hsub := hpart.order g hg
  have hne : g ≠ [] := hpart.nonempty g hg
  -- every copy is a tuple with one component per free variable
  have hshape : ∀ c ∈ (copyPairs (solutionPairs goal template σs) (next + 1)).1,
      ∃ args, c.1 = tuple args ∧ args.length = (freeVariables goal template).length := by
    intro c hc
    obtain ⟨sp, hsp⟩ := exists_zip_of_mem_right hlen.symm hc
    have hv := (hvar _ hsp).2.1
    have hsp' := (List.of_mem_zip hsp).1
    simp only [solutionPairs, List.mem_map] at hsp'
    obtain ⟨σ, _, rfl⟩ := hsp'
    exact shape_of_variant _ σ c.1 hv
  cases g with
  | nil => exact absurd rfl hne
  | cons p0 gs =>
    obtain ⟨args, hargs, hal⟩ := hshape p0 (hsub.subset (by simp))
    have hF : (freeVariables goal template).Nodup :=
      (C11_free_vars goal template).2.imp (fun h => Nat.ne_of_lt h)
    have hfuel0 := hfuel p0 (by simp)
    rw [hargs] at hfuel0
    simp only [List.length_cons] at hfuel0
    obtain ⟨e, he, hval⟩ := witness_unify (freeVariables goal template) args (gs.map (·.1)) fuel hF hal
      (by
        intro w hw v hv hvF
        rw [← hargs, ← List.map_cons (f := fun p : Term × Term => p.1)] at hw
        obtain ⟨q, hq, rfl⟩ := List.mem_map.mp hw
        have := hfr q (hsub.subset hq) v (by simp [hv])
        have := hnext v hvF
        omega)
      (by
        rw [← hargs, ← List.map_cons (f := fun p : Term × Term => p.1)]
        refine List.pairwise_map.mpr ((hdj.sublist hsub).imp ?_)
        intro a b hab v hv hvb
        exact hab v (by simp [hv]) (by simp [hvb]))
      (by
        intro w hw
        obtain ⟨q, hq, rfl⟩ := List.mem_map.mp hw
        rw [← hargs]
        exact hpart.same _ hg p0 (by simp) q (List.mem_cons_of_mem _ hq))
      (by simp only [List.length_map]; omega)
    refine ⟨e, hne, ?_, ?_⟩
    · simpa [witnessOf, hargs] using he
    · have hlast : ((p0 :: gs).getLast hne).1 = (tuple args :: gs.map (·.1)).getLast (by simp) := by
        have h1 := List.getLast?_eq_some_getLast (l := p0 :: gs) hne
        have h2 := List.getLast?_eq_some_getLast (l := tuple args :: gs.map (·.1)) (by simp)
        have h3 := List.getLast?_map (f := fun p : Term × Term => p.1) (l := p0 :: gs)
        rw [List.map_cons, hargs, h2, h1] at h3
        exact (Option.some.inj h3).symm
      intro p hp
      rw [hlast]
      refine ⟨hval _ (by simp [witnessOf]), hval p.1 ?_⟩
      rw [← hargs, ← List.map_cons (f := fun p : Term × Term => p.1)]
      exact List.mem_cons_of_mem _ (List.mem_map_of_mem hp)

/-- answers correspond to groups: `collectionOf` delivers, in group order, one answer for each group
    whose aggregated list unifies with `Instances` (the others fail and the next group is tried) -/
theorem C11_bagof_answers (kind : Kind) (witness instances : Term) (sols : List (Term × Term))
    (next fuel : Nat) (as : List Env) (hi : checkInstances instances = none)
    (h : collectionOf kind witness instances sols none next fuel = .ok as) :
    ∃ outcomes, (groups (copyPairs sols (next + 1)).1).mapM (groupAnswer kind witness instances fuel) = some outcomes ∧
      as = outcomes.filterMap id := by
  simp only [collectionOf, collectionOfBy, hi] at h
  cases hm : (groupsBy variant (copyPairs sols (next + 1)).1).mapM (groupAnswer kind witness instances fuel) with
  | none => simp [hm] at h
  | some outcomes =>
    simp only [hm, Res.ok.injEq] at h
    exact ⟨outcomes, hm, h.symm⟩

/-- no solution ⇒ bagof/setof fail -/
theorem C11_bagof_no_solution (kind : Kind) (witness instances : Term) (next fuel : Nat)
    (hi : checkInstances instances = none) :
    collectionOf kind witness instances [] none next fuel = .ok [] := by
  simp [collectionOf, collectionOfBy, hi, copyPairs, groupsBy, groupsAux]

/-- errors: a bad `Instances` argument and an error of the goal are raised as they are -/
theorem C11_bagof_errors (kind : Kind) (witness instances : Term) (sols : List (Term × Term))
    (gerr : Option Term) (next fuel : Nat) :
    (∀ e, checkInstances instances = some e →
      collectionOf kind witness instances sols gerr next fuel = .err e) ∧
    (∀ e, checkInstances instances = none → gerr = some e →
      collectionOf kind witness instances sols gerr next fuel = .err e) := by
  constructor
  · intro e h; simp [collectionOf, collectionOfBy, h]
  · intro e h1 h2; simp [collectionOf, collectionOfBy, h1, h2]

/-! ### setof -/

/-- **C11_setof** (the sort): for every total order `cmp` (C08: the standard order) `Env.set` returns
    the list that is strictly ascending — hence duplicate-free — and has exactly the elements of its
    argument. -/
theorem C11_setof {α : Type} (cmp : α → α → Ordering) (h : IsTotalOrder cmp) (l : List α) :
    IsSetOf cmp l (Collect.set cmp l) :=
  set_isSetOf h l

/-- the comparison the model of `Env.set` uses (the `Compare` methods on resolved terms: variables by
    age, then floats, integers, atoms by text, compounds by arity, name, arguments) is a total order -/
theorem C11_setof_order : IsTotalOrder compareStd := compareStd_isTotalOrder

/-- **C11_setof** (as used by `collectionOf`): the terms of a group are compared as resolved in the
    environment after the witness unifications; the list delivered consists of terms of the group, and
    their resolved forms are the sorted duplicate-free list of the resolved forms of the group. -/
theorem C11_setof_aggregate (e : Env) (fuel : Nat) (ts : List Term) (l : Term)
    (ha : aggregate .set e fuel ts = some l) :
    ∃ (keys : List Term) (out : List (Term × Term)), ts.mapM (applyEnv e fuel []) = some keys ∧ l = Term.list (out.map (·.2)) ∧
      (∀ p ∈ out, p.2 ∈ ts ∧ applyEnv e fuel [] p.2 = some p.1) ∧
      IsSetOf compareStd keys (out.map (·.1)) := by
  simp only [aggregate] at ha
  cases hm : ts.mapM (fun t => (applyEnv e fuel [] t).map fun k => (k, t)) with
  | none => simp [hm] at ha
  | some kts =>
    simp only [hm, Option.some.injEq] at ha
    have hk : ∀ (ts : List Term) (kts : List (Term × Term)),
        ts.mapM (fun t => (applyEnv e fuel [] t).map fun k => (k, t)) = some kts →
        ts.mapM (applyEnv e fuel []) = some (kts.map (·.1)) ∧
        ∀ p ∈ kts, p.2 ∈ ts ∧ applyEnv e fuel [] p.2 = some p.1 := by
      intro ts
      induction ts with
      | nil => intro kts h; simp at h; subst h; simp
      | cons t ts ih =>
        intro kts h
        rw [List.mapM_cons] at h
        cases ht : applyEnv e fuel [] t with
        | none => simp [ht] at h
        | some k =>
          cases hr : ts.mapM (fun t => (applyEnv e fuel [] t).map fun k => (k, t)) with
          | none => simp [ht, hr] at h
          | some rest =>
            simp [ht, hr] at h
            subst h
            obtain ⟨i1, i2⟩ := ih rest hr
            refine ⟨by simp [List.mapM_cons, ht, i1], ?_⟩
            intro p hp
            rcases List.mem_cons.mp hp with rfl | hp
            · simp [ht]
            · exact ⟨List.mem_cons_of_mem _ (i2 p hp).1, (i2 p hp).2⟩
    obtain ⟨hk1, hk2⟩ := hk ts kts hm
    refine ⟨kts.map (·.1), Collect.set (fun a b => compareStd a.1 b.1) kts, hk1, ha.symm, ?_, ?_⟩
    · intro p hp
      exact hk2 p (mem_of_mem_set hp)
    · rw [set_map (cmp := compareStd) (fun p : Term × Term => p.1)]
      exact set_isSetOf compareStd_isTotalOrder _

/-! ### non-vacuity -/

example : variant d11_AB (Term.a2 "," (.var 5) (.var 3)) = true := by decide +kernel
example : variant d11_CC d11_AB = false := by decide +kernel
example : freeVariables (Term.a2 "^" (.var 3) (Term.a3 "t" (.var 0) (.var 1) (.var 3))) (.var 0) = [1] := by
  decide +kernel
example : checkInstances (Term.list [.var 1] (.var 2)) = none := by decide +kernel
example : (groups [(d11_CC, .int 1), (d11_AB, .int 2), (Term.a2 "," (.var 7) (.var 7), .int 3)]).map (·.map (·.2)) =
    [[.int 1, .int 3], [.int 2]] := by decide +kernel
example : Collect.set compareStd [.int 3, .int 1, .int 3, .atom "a", .int 2] = [.int 1, .int 2, .int 3, .atom "a"] := by
  decide +kernel

/-- the hypotheses of C11_witness_unify are met by the group {(C,C), (D,D)} with free variables Y, Z -/
example : ∃ e, unifyWitnesses (tuple [.var 1, .var 2]) 20 [tuple [.var 10, .var 10], tuple [.var 11, .var 11]] [] = some e ∧
    applyEnv e 20 [] (tuple [.var 1, .var 2]) = some (tuple [.var 11, .var 11]) := by
  refine ⟨_, rfl, ?_⟩
  decide +kernel

/-- the hypotheses of C11_bagof_witnesses are met by `bagof(X, t(X,Y,Z), L)` with the three solutions
    of `t(1,C,C). t(2,A,B). t(3,D,D).`: two groups, the stated fuel is available -/
def exGoal : Term := Term.a3 "t" (.var 0) (.var 1) (.var 2)
def exSols : List (List (Nat × Term)) :=
  [[(0, .int 1), (1, .var 4), (2, .var 4)], [(0, .int 2), (1, .var 5), (2, .var 6)], [(0, .int 3), (1, .var 7), (2, .var 7)]]
example : freeVariables exGoal (.var 0) = [1, 2] := by decide +kernel
example : (groups (copyPairs (solutionPairs exGoal (.var 0) exSols) (8 + 1)).1).map (·.map (·.2)) =
    [[.int 1, .int 3], [.int 2]] := by decide +kernel
example : ∀ g ∈ groups (copyPairs (solutionPairs exGoal (.var 0) exSols) (8 + 1)).1,
    ∀ p ∈ g, needT p.1 + g.length + (freeVariables exGoal (.var 0)).length + 4 ≤ 20 := by decide +kernel
/-- and `collectionOf` answers with the two groups -/
example : ∃ e1 e2, collectionOf .bag (witnessOf exGoal (.var 0)) (.var 3) (solutionPairs exGoal (.var 0) exSols) none 8 20 =
      .ok [e1, e2] ∧
    (applyEnv e1 20 [] (Term.a2 "-" exGoal (.var 3))).map Term.canon =
      some (Term.a2 "-" (Term.a3 "t" (.var 0) (.var 1) (.var 1)) (Term.list [.int 1, .int 3])) ∧
    (applyEnv e2 20 [] (Term.a2 "-" exGoal (.var 3))).map Term.canon =
      some (Term.a2 "-" (Term.a3 "t" (.var 0) (.var 1) (.var 2)) (Term.list [.int 2])) := by
  refine ⟨_, _, rfl, ?_, ?_⟩ <;> decide +kernel

end PrologVerif.C11
