/-
  Reference semantics of a promise tree: the textbook recursive depth-first, left-to-right search
  with a cut barrier and catch/throw, written as a recursive function returning a signal — not as
  a stack machine.

  `live` lists the ids of the delay nodes on the path to the root whose alternatives are still
  pending (innermost first); it is only used to recognise well-scoped trees (every cut's parent is
  a live ancestor, ids on a path are distinct and non-zero).

  A signal that travels up carries the outermost cut executed so far that has not yet reached its
  parent (`co`).  A cut discards everything newer than its parent — choice points AND catch frames:
  in the engine this is how a cut in the continuation of an exited catch/3 removes that catch (a
  cut inside the goal of catch/3 itself can never do so: Call gives the goal its own cut parent).
-/
import PrologVerif.Model.PTree
namespace PrologVerif.DFS
open PrologVerif.PTree

inductive Sig where
  | found                               -- a success leaf was reached: the search stops
  | exhausted (co : Option Nat)         -- the subtree is exhausted (co = some c: and everything up to c is discarded)
  | raised (e : Nat) (co : Option Nat)  -- an error is travelling up
  | illScoped                           -- outside the spec's domain (see above)
  deriving DecidableEq, Repr

/-- the cut with parent `c` has been executed, then the rest of the subtree signalled `r` -/
def afterCut (c : Nat) : Sig → Sig
  | .exhausted none => .exhausted (some c)
  | .raised e none => .raised e (some c)
  | r => r    -- found; or a cut further out has been executed since (it subsumes this one)

/-- a signal passes the delay node `id` on its way up -/
def absorb (id : Nat) : Sig → Sig
  | .exhausted (some c) => if c = id then .exhausted none else .exhausted (some c)
  | .raised e (some c) => if c = id then .raised e none else .raised e (some c)
  | r => r

mutual
  def dfs : Nat → PT → List Nat → St → Option (Sig × St)
    | 0, _, _, _ => none
    | _ + 1, .ok, _, s => some (.found, s)
    | _ + 1, .fail, _, s => some (.exhausted none, s)
    | _ + 1, .err e, _, s => some (.raised e none, s)
    | n + 1, .log k x, live, s => dfs n x live { s with trace := k :: s.trace }
    | n + 1, .set f b x, live, s => dfs n x live { s with flags := (f, b) :: s.flags }
    | n + 1, .delay id alts, live, s =>
      if id = 0 ∨ live.contains id then some (.illScoped, s)
      else dfsAlts n id alts (id :: live) { s with created := id :: s.created }
    | n + 1, .cut parent k, live, s =>
      let c := if s.created.contains parent then parent else 0
      if live.contains c then
        -- everything created since c was called is discarded, c's own remaining alternatives included;
        -- c itself stays as the barrier for later cuts of the same clause
        match dfs n k (live.dropWhile (· ≠ c)) s with
        | none => none
        | some (r, s') => some (afterCut c r, s')
      else some (.illScoped, s)
    | n + 1, .catch_ flag hs k, live, s =>
      match dfs n k live s with
      | none => none
      | some (.raised e none, s') =>
        -- its frame has not been cut away; it intercepts iff its flag says "active" at the moment
        -- the error arrives and the catcher matches
        if s'.flag flag then
          match hs.find e with
          | some t => dfs n t live s'
          | none => some (.raised e none, s')
        else some (.raised e none, s')
      | some r => some r
    | n + 1, .rep k, live, s =>
      match dfs n k live s with
      | none => none
      | some (.exhausted none, s') => dfs n (.rep k) live s'
      | some r => some r
  def dfsAlts : Nat → Nat → PTs → List Nat → St → Option (Sig × St)
    | 0, _, _, _, _ => none
    | _ + 1, _, .nil, _, s => some (.exhausted none, s)
    | n + 1, id, .cons t ts, live, s =>
      match dfs n t live s with
      | none => none
      | some (.exhausted none, s') => dfsAlts n id ts live s'
      | some (r, s') => some (absorb id r, s')
end

end PrologVerif.DFS
