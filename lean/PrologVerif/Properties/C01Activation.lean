/-
  C01, clause activation — what one resolution step of the VM is.  The get-instructions of a
  compiled clause compute a most general unifier of the call's arguments with a FRESH RENAMING of
  the source head (or fail exactly when none exists); the put/call instructions call the renamed
  body goals in source order with the rest of the clause as continuation; `!` cuts back to the
  activation's own parent.  Statements and proofs: Proofs/Activation.lean (the statements are
  repeated by type in `lean/statements.lock`).
-/
import PrologVerif.Proofs.Activation
import PrologVerif.Restate
namespace PrologVerif.C01
open PrologVerif PrologVerif.VM PrologVerif.Activation

/- **C01_head_is_mgu**: running the head code of a clause on the call arguments `args` under `env`,
    with activation variables `vars` (ρ = source variable ↦ activation variable), either FAILS and no
    solution of `env` unifies `args` with the renamed head arguments, or CONTINUES with the code after
    the head under an `env'` whose solutions (projected away from the auxiliary skeleton variables,
    which are fresh and determined) are EXACTLY the solutions of `env` that unify `args` with the
    renamed head: `env'` = `env` + mgu.  All encodings: variables, constants, strings, lists, partial
    lists (tail first), compounds, nested to any depth. -/
restate C01_head_is_mgu := head_is_mgu

/- **C01_body_goal_call**: the code of one body goal (not `!`) builds the goal's arguments — renamed
    by ρ, nothing unified, no variable drawn, `env` unchanged — and arrives at the goal's predicate
    with the rest of the clause as continuation (a variable goal V is `call(V)`). -/
restate C01_body_goal_call := body_goal_call

/- **C01_body_goal_cut**: `!` compiles to the one instruction `cut`, whose execution is the promise
    that cuts back to the activation's cut parent `cp` and then resumes the rest of the clause. -/
restate C01_body_goal_cut := body_goal_cut

/- **C01_body_in_order**: the code of a body is `enter` followed by the segments of its goals
    (`seqGoals`: the leaves of the ','/2 tree) in source order, each with the meaning above. -/
restate C01_body_in_order := body_in_order

/- **C01_activation_fact**: evaluating the alternative of a FACT `c` of a compiled term on `args`
    draws exactly `c.vars.length` fresh variables and either fails (renamed head not unifiable with
    `args` under `env`) or hands `env` + mgu to the caller's continuation. -/
restate C01_activation_fact := activation_fact

/- **C01_activation_rule_first_goal**: evaluating the alternative of a RULE clause (one per top-level
    disjunct `alt` of the body) on `args`: fresh variables, head = mgu as above, then the FIRST goal
    of `alt` is called with its renamed arguments under `env` + mgu, the continuation being the code
    of the remaining goals with cut parent = the parent promise of this activation (or, when the first
    goal is `!`, the cut promise for that parent). -/
restate C01_activation_rule_first_goal := activation_rule_first_goal

/- the freshness hypotheses of the theorems above hold in every clause activation -/
restate C01_activation_fresh_ok := activation_fresh_ok

end PrologVerif.C01
