/-
  Model of the operator table: engine/builtin.go `Op`, `validateOp`, `CurrentOp`,
  engine/parser.go `operators.define/remove/definedInClass`.

  The Go table is `map[Atom][3]operator` (one slot per class).  Here it is a list
  of definitions; "one slot per (name, class)" is then an invariant that is proved
  (Properties/C18) instead of being built into the type.  Enumeration order of the
  Go map is unspecified, so all observations of the table are compared as sets.
-/
import PrologVerif.Model.Errors
import PrologVerif.Generated.Bootstrap
namespace PrologVerif.Ops

inductive Class | pre | post | inf
  deriving DecidableEq, Repr

inductive Spec | fx | fy | xf | yf | xfx | xfy | yfx
  deriving DecidableEq, Repr

def Spec.cls : Spec → Class
  | .fx | .fy => .pre
  | .xf | .yf => .post
  | .xfx | .xfy | .yfx => .inf

def Spec.name : Spec → String
  | .fx => "fx" | .fy => "fy" | .xf => "xf" | .yf => "yf"
  | .xfx => "xfx" | .xfy => "xfy" | .yfx => "yfx"

/-- `operatorSpecifiers` map of builtin.go -/
def Spec.ofName : String → Option Spec
  | "fx" => some .fx | "fy" => some .fy | "xf" => some .xf | "yf" => some .yf
  | "xfx" => some .xfx | "xfy" => some .xfy | "yfx" => some .yfx
  | _ => none

structure OpDef where
  name : String
  pri  : Nat
  spec : Spec
  deriving DecidableEq, Repr

abbrev Table := List OpDef

def slot (o : OpDef) (n : String) (c : Class) : Bool := o.name == n && o.spec.cls == c

/-- `operators.definedInClass` -/
def definedInClass (t : Table) (n : String) (c : Class) : Bool := t.any (slot · n c)

/-- `operators.remove` -/
def remove (t : Table) (n : String) (c : Class) : Table := t.filter (fun o => !slot o n c)

/-- `operators.define`: priority 0 is a no-op, otherwise the slot is overwritten -/
def define (t : Table) (p : Nat) (s : Spec) (n : String) : Table :=
  if p = 0 then t else remove t n s.cls ++ [⟨n, p, s⟩]

def lookup (t : Table) (n : String) (c : Class) : Option OpDef := t.find? (slot · n c)

/-- `validateOp`: the `switch name` (each case falls through to the class check when it does
    not return) followed by the infix/postfix exclusion of 6.3.4.3 -/
def validateOp (t : Table) (p : Nat) (s : Spec) (n : String) : Option Term :=
  if n = "," ∧ definedInClass t n .inf = true then
    some (permissionErr "modify" "operator" (.atom n))
  else if n = "|" ∧ (s.cls ≠ .inf ∨ (0 < p ∧ p < 1001)) then
    some (permissionErr (if definedInClass t n .inf then "modify" else "create") "operator" (.atom n))
  else if n = "{}" ∨ n = "[]" then
    some (permissionErr "create" "operator" (.atom n))
  else if s.cls = .inf ∧ definedInClass t n .post = true then
    some (permissionErr "create" "operator" (.atom n))
  else if s.cls = .post ∧ definedInClass t n .inf = true then
    some (permissionErr "create" "operator" (.atom n))
  else none

/-- `appendUniqNewAtom` -/
def appendUniq (xs : List String) (x : String) : List String :=
  if xs.contains x then xs else xs ++ [x]

/-- the element loop of `Op`: every element must be an atom -/
def collectAtoms : List Term → List String → Except Term (List String)
  | [], acc => .ok acc
  | .atom a :: rest, acc => collectAtoms rest (appendUniq acc a)
  | other :: _, _ => .error (typeErr "atom" other)

/-- collect names from a list term the way `ListIterator` + the loop in `Op` do:
    elements first (an invalid element is reported when reached), then the tail
    (`iter.Err()`: unbound tail = instantiation_error, other tail = type_error(list, L)). -/
def collectNames (l : Term) : Except Term (List String) :=
  match collectAtoms l.spine.1 [] with
  | .error e => .error e
  | .ok ns =>
    match l.spine.2 with
    | .atom "[]" => .ok ns
    | .var _ => .error instErr
    | _ => .error (typeErr "list" l)

/-- first `switch` of `Op` -/
def parsePriority : Term → Except Term Nat
  | .var _ => .error instErr
  | .int i => if i < 0 ∨ i > 1200 then .error (domainErr "operator_priority" (.int i)) else .ok i.toNat
  | other => .error (typeErr "integer" other)

/-- second `switch` of `Op` -/
def parseSpec : Term → Except Term Spec
  | .var _ => .error instErr
  | .atom a =>
    match Spec.ofName a with
    | some s => .ok s
    | none => .error (domainErr "operator_specifier" (.atom a))
  | other => .error (typeErr "atom" other)

/-- third `switch` of `Op` -/
def parseNames : Term → Except Term (List String)
  | .atom a => .ok [a]
  | other => collectNames other

/-- the three argument checks of `Op`, in the Go order -/
def parseArgs (priority specifier names : Term) : Except Term (Nat × Spec × List String) :=
  match parsePriority priority with
  | .error e => .error e
  | .ok p =>
    match parseSpec specifier with
    | .error e => .error e
    | .ok s =>
      match parseNames names with
      | .error e => .error e
      | .ok ns => .ok (p, s, ns)

/-- the mutation loop of `Op` -/
def applyNames (t : Table) (p : Nat) (s : Spec) (ns : List String) : Table :=
  ns.foldl (fun t n =>
    let t := if definedInClass t n s.cls then remove t n s.cls else t
    define t p s n) t

/-- `Op`: returns the table afterwards and the error raised, if any.  Written as a
    state transformer (not `Except Table`) so that "an error leaves the table
    unchanged" is a statement about this function and not an artefact of the type. -/
def op (t : Table) (priority specifier names : Term) : Table × Option Term :=
  match parseArgs priority specifier names with
  | .error e => (t, some e)
  | .ok (p, s, ns) =>
    match ns.findSome? (validateOp t p s) with
    | some e => (t, some e)
    | none => (applyNames t p s ns, none)

/-- pattern argument matches a concrete value (pattern variables assumed distinct) -/
def matchArg (pat : Term) (v : Term) : Bool :=
  match pat with
  | .var _ => true
  | p => p == v

/-- `CurrentOp`: the multiset of answers (as triples), or the error -/
def currentOp (t : Table) (priority specifier name : Term) : Except Term (List OpDef) := do
  match priority with
    | .var _ => pure ()
    | .int i => if i < 0 || i > 1200 then throw (domainErr "operator_priority" priority)
    | _ => throw (domainErr "operator_priority" priority)
  match specifier with
    | .var _ => pure ()
    | .atom a => if (Spec.ofName a).isNone then throw (domainErr "operator_specifier" specifier)
    | _ => throw (domainErr "operator_specifier" specifier)
  match name with
    | .var _ | .atom _ => pure ()
    | _ => throw (typeErr "atom" name)
  pure <| t.filter fun o =>
    matchArg priority (.int o.pri) && matchArg specifier (.atom o.spec.name) && matchArg name (.atom o.name)

/-- the op/3 directives of bootstrap.pl, in source order, taken from the REGENERATED
    `Generated.bootstrapTerms` (the real parser's reading of /repo/bootstrap.pl) -/
def bootstrapDirectives : List (Term × Term × Term) :=
  Generated.bootstrapTerms.filterMap fun
    | .app ":-" (.cons (.app "op" (.cons p (.cons s (.cons n .nil)))) .nil) => some (p, s, n)
    | _ => none

/-- the default table: what the directives of bootstrap.pl build from the empty table -/
def defaultTable : Table :=
  bootstrapDirectives.foldl (fun t d => (op t d.1 d.2.1 d.2.2).1) []

end PrologVerif.Ops
