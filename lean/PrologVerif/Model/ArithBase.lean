/-
  Model/ArithBase — hand-written support for the TRANSLATED arithmetic kernels
  (Generated/Arith.lean, produced by extract/arith.go from engine/number.go).

  Core Lean only (linked into the driver).

  * `I64`      Go's `int64` (= engine.Integer): an `Int` in [-2^63, 2^63) with explicit wrapping
               operations.  `wadd/wsub/wmul/wneg` are Go's `+ - * -` (two's complement wrap-around,
               Go spec "Integer overflow"); `and/or/xor/not` are Go's `& | ^ ^x` (through `BitVec 64`).
  * `goDiv goRem goShl goShr`  Go's `/ % << >>` on int64.  Division by zero and a negative shift
               count ARE run-time panics and are values of `GoPanic` here, never hidden by
               totalisation.  `minInt / -1 = minInt`, `minInt % -1 = 0` (Go spec), a shift count
               ≥ 64 gives 0 (resp. -1 for `>>` of a negative number).
  * `Err`      what a kernel returns instead of a number: a Go panic, an `exceptionalValue`
               (engine/exception.go) or a `typeError(validType…, culprit, nil)`.
  * `FloatOps F`  the float64 operations the kernels use, as a PARAMETER: theorems are about the guard
               logic for every `F`; the driver instantiates `F := Float` (hardware IEEE, like Go).
  * `Num F`    engine.Number = Integer | Float.
-/
namespace PrologVerif.Arith

/-! ## 64-bit integers -/

abbrev InRange (z : Int) : Prop := -9223372036854775808 ≤ z ∧ z ≤ 9223372036854775807

/-- reduction of an unbounded integer to the two's complement 64-bit value with the same residue mod 2^64 -/
def wrap (z : Int) : Int := (z + 9223372036854775808) % 18446744073709551616 - 9223372036854775808

theorem wrap_inRange (z : Int) : InRange (wrap z) := by unfold wrap; omega

theorem wrap_eq_self {z : Int} (h : InRange z) : wrap z = z := by unfold wrap; omega

/-- Go `int64` -/
structure I64 where
  val : Int
  inRange : InRange val

namespace I64

theorem ext_iff {a b : I64} : a = b ↔ a.val = b.val := by
  cases a; cases b; simp

instance : DecidableEq I64 := fun a b =>
  if h : a.val = b.val then isTrue (ext_iff.2 h) else isFalse (fun e => h (ext_iff.1 e))

def ofInt (z : Int) : I64 := ⟨wrap z, wrap_inRange z⟩

instance : OfNat I64 n := ⟨ofInt n⟩
instance : Inhabited I64 := ⟨ofInt 0⟩
instance : LT I64 := ⟨fun a b => a.val < b.val⟩
instance : LE I64 := ⟨fun a b => a.val ≤ b.val⟩
instance (a b : I64) : Decidable (a < b) := inferInstanceAs (Decidable (a.val < b.val))
instance (a b : I64) : Decidable (a ≤ b) := inferInstanceAs (Decidable (a.val ≤ b.val))
instance : Repr I64 := ⟨fun a _ => repr a.val⟩

def minInt : I64 := ofInt (-9223372036854775808)
def maxInt : I64 := ofInt 9223372036854775807

/-- Go `x + y` on int64 -/
def wadd (a b : I64) : I64 := ofInt (a.val + b.val)
/-- Go `x - y` on int64 -/
def wsub (a b : I64) : I64 := ofInt (a.val - b.val)
/-- Go `x * y` on int64 -/
def wmul (a b : I64) : I64 := ofInt (a.val * b.val)
/-- Go `-x` on int64 -/
def wneg (a : I64) : I64 := ofInt (- a.val)

def toBV (a : I64) : BitVec 64 := BitVec.ofInt 64 a.val
def ofBV (b : BitVec 64) : I64 := ofInt b.toInt

/-- Go `x & y` -/
def and (a b : I64) : I64 := ofBV (a.toBV &&& b.toBV)
/-- Go `x | y` -/
def or (a b : I64) : I64 := ofBV (a.toBV ||| b.toBV)
/-- Go `x ^ y` -/
def xor (a b : I64) : I64 := ofBV (a.toBV ^^^ b.toBV)
/-- Go `^x` -/
def not (a : I64) : I64 := ofBV (~~~ a.toBV)

theorem lt_def {a b : I64} : a < b ↔ a.val < b.val := Iff.rfl
theorem le_def {a b : I64} : a ≤ b ↔ a.val ≤ b.val := Iff.rfl
theorem gt_def {a b : I64} : a > b ↔ b.val < a.val := Iff.rfl
theorem ge_def {a b : I64} : a ≥ b ↔ b.val ≤ a.val := Iff.rfl

@[simp] theorem val_ofInt (z : Int) : (ofInt z).val = wrap z := rfl
@[simp] theorem val_ofNat (n : Nat) : (OfNat.ofNat n : I64).val = wrap n := rfl
@[simp] theorem val_zero : (0 : I64).val = 0 := by decide
@[simp] theorem val_one : (1 : I64).val = 1 := by decide
@[simp] theorem val_negOne : (ofInt (-1)).val = -1 := by decide
@[simp] theorem val_minInt : minInt.val = -9223372036854775808 := by decide
@[simp] theorem val_maxInt : maxInt.val = 9223372036854775807 := by decide
@[simp] theorem val_wadd (a b : I64) : (wadd a b).val = wrap (a.val + b.val) := rfl
@[simp] theorem val_wsub (a b : I64) : (wsub a b).val = wrap (a.val - b.val) := rfl
@[simp] theorem val_wmul (a b : I64) : (wmul a b).val = wrap (a.val * b.val) := rfl
@[simp] theorem val_wneg (a : I64) : (wneg a).val = wrap (- a.val) := rfl

end I64

/-! ## Go run-time panics of the partial integer operators -/

inductive GoPanic where
  | divideByZero                    -- "runtime error: integer divide by zero"
  | negativeShift                   -- "runtime error: negative shift amount"
  | untranslated (fn : String)      -- stub of a function the translator could not translate
  | outOfFuel (fn : String)         -- not a panic: the fuel of a translated loop ran out (Go would keep looping)
  deriving DecidableEq, Repr

/-- Go `x / y` on int64 (truncated; `minInt / -1 = minInt`) -/
def goDiv (a b : I64) : Except GoPanic I64 :=
  if b.val = 0 then .error .divideByZero else .ok (.ofInt (Int.tdiv a.val b.val))

/-- Go `x % y` on int64 (sign of the dividend; `minInt % -1 = 0`) -/
def goRem (a b : I64) : Except GoPanic I64 :=
  if b.val = 0 then .error .divideByZero else .ok (.ofInt (Int.tmod a.val b.val))

/-- Go `x << s` with a signed count -/
def goShl (a s : I64) : Except GoPanic I64 :=
  if s.val < 0 then .error .negativeShift
  else if s.val ≥ 64 then .ok (.ofInt 0)
  else .ok (.ofInt (a.val * 2 ^ s.val.toNat))

/-- Go `x >> s` (arithmetic) with a signed count -/
def goShr (a s : I64) : Except GoPanic I64 :=
  if s.val < 0 then .error .negativeShift
  else if s.val ≥ 64 then .ok (.ofInt (if a.val < 0 then -1 else 0))
  else .ok (.ofInt (a.val / 2 ^ s.val.toNat))

/-! ## results of kernels -/

/-- engine/exception.go `exceptionalValue` -/
inductive ExcVal where
  | floatOverflow | intOverflow | underflow | zeroDivisor | undefined
  deriving DecidableEq, Repr

def ExcVal.atom : ExcVal → String
  | .floatOverflow => "float_overflow"
  | .intOverflow => "int_overflow"
  | .underflow => "underflow"
  | .zeroDivisor => "zero_divisor"
  | .undefined => "undefined"

/-- the culprit of a type error raised by a kernel: a number (floats by their bits) -/
inductive Culprit where
  | int (i : Int)
  | flt (bits : UInt64)
  deriving DecidableEq, Repr

inductive Err where
  | panic (p : GoPanic)
  | ev (e : ExcVal)
  | typeError (validType : String) (culprit : Culprit)
  deriving DecidableEq, Repr

/-- a partial Go operator used inside a kernel -/
def liftP {α : Type} : Except GoPanic α → Except Err α
  | .ok v => .ok v
  | .error p => .error (.panic p)

@[simp] theorem liftP_ok {α : Type} (v : α) : liftP (.ok v : Except GoPanic α) = .ok v := rfl
@[simp] theorem liftP_error {α : Type} (p : GoPanic) : liftP (.error p : Except GoPanic α) = .error (.panic p) := rfl

/-- Go `v, _ := f(…)`: the error is dropped and `v` is the value returned beside it; the translator
    only accepts kernels whose error returns carry the zero value, so `v = 0`.  A panic still
    propagates. -/
def ignoreErr : Except Err I64 → Except Err I64
  | .ok v => .ok v
  | .error (.panic p) => .error (.panic p)
  | .error _ => .ok (.ofInt 0)

def Err.isPanic : Err → Bool
  | .panic _ => true
  | _ => false

/-- "this call does not panic" -/
def NoPanic {α : Type} (r : Except Err α) : Prop := ∀ p, r ≠ .error (.panic p)

/-! ## floats: a parameter -/

/-- The float64 operations used by number.go.  No laws here: see `FloatLaws` (Proofs/ArithFloat). -/
class FloatOps (F : Type) where
  /-- `float64(n)` for an int64 `n` (round to nearest even) -/
  ofInt : Int → F
  /-- `Integer(f)`: Go's float64→int64 conversion (exact for integral in-range values,
      implementation-specific otherwise) -/
  toInt : F → I64
  add : F → F → F
  sub : F → F → F
  mul : F → F → F
  div : F → F → F
  neg : F → F
  abs : F → F
  floor : F → F
  trunc : F → F
  round : F → F
  ceil : F → F
  lt : F → F → Bool
  le : F → F → Bool
  eq : F → F → Bool
  /-- `math.IsInf(f, 0)` -/
  isInf : F → Bool
  isNaN : F → Bool
  /-- `math.MaxFloat64` -/
  maxFloat : F
  /-- other `math.*` library functions, by name -/
  lib1 : String → F → F
  lib2 : String → F → F → F
  /-- `math.Float64bits` -/
  bits : F → UInt64
  /-- `math.Float64frombits` -/
  ofBits : UInt64 → F

section
variable {F : Type} [FloatOps F]

def flt (x y : F) : Prop := FloatOps.lt x y = true
def fgt (x y : F) : Prop := FloatOps.lt y x = true
def fle (x y : F) : Prop := FloatOps.le x y = true
def fge (x y : F) : Prop := FloatOps.le y x = true
def feq (x y : F) : Prop := FloatOps.eq x y = true
def fne (x y : F) : Prop := FloatOps.eq x y = false

instance (x y : F) : Decidable (flt x y) := inferInstanceAs (Decidable (_ = true))
instance (x y : F) : Decidable (fgt x y) := inferInstanceAs (Decidable (_ = true))
instance (x y : F) : Decidable (fle x y) := inferInstanceAs (Decidable (_ = true))
instance (x y : F) : Decidable (fge x y) := inferInstanceAs (Decidable (_ = true))
instance (x y : F) : Decidable (feq x y) := inferInstanceAs (Decidable (_ = true))
instance (x y : F) : Decidable (fne x y) := inferInstanceAs (Decidable (_ = false))

@[simp] theorem decide_flt (x y : F) : decide (flt x y) = FloatOps.lt x y := by
  show decide (FloatOps.lt x y = true) = _; cases FloatOps.lt x y <;> rfl
@[simp] theorem decide_fgt (x y : F) : decide (fgt x y) = FloatOps.lt y x := by
  show decide (FloatOps.lt y x = true) = _; cases FloatOps.lt y x <;> rfl
@[simp] theorem decide_fle (x y : F) : decide (fle x y) = FloatOps.le x y := by
  show decide (FloatOps.le x y = true) = _; cases FloatOps.le x y <;> rfl
@[simp] theorem decide_fge (x y : F) : decide (fge x y) = FloatOps.le y x := by
  show decide (FloatOps.le y x = true) = _; cases FloatOps.le y x <;> rfl
@[simp] theorem decide_feq (x y : F) : decide (feq x y) = FloatOps.eq x y := by
  show decide (FloatOps.eq x y = true) = _; cases FloatOps.eq x y <;> rfl
@[simp] theorem decide_fne (x y : F) : decide (fne x y) = !FloatOps.eq x y := by
  show decide (FloatOps.eq x y = false) = _; cases FloatOps.eq x y <;> rfl

end

/-- engine.Number -/
inductive Num (F : Type) where
  | int (i : I64)
  | flt (f : F)

def Num.culprit {F : Type} [FloatOps F] : Num F → Culprit
  | .int i => .int i.val
  | .flt f => .flt (FloatOps.bits f)

def liftI {F : Type} (r : Except Err I64) : Except Err (Num F) := r.map .int
def liftF {F : Type} (r : Except Err F) : Except Err (Num F) := r.map .flt

end PrologVerif.Arith
