/-
  Model of the TOKEN-LEVEL term reader of engine/parser.go:
  `next backup current` · `name atom op prefix infix` · `term term0 term0Atom functionalNotation
  list curlyBracketedTerm openClose arg` · `Term More`, over a list of tokens (the lexer is modelled
  elsewhere: Model/Lexer, property C06; here the lexer is "the rest of the token list, then the
  reader's error forever").

  The functions are generic in the token buffer (`class Buf`) and take a flag `g`:

    * `Zip`  + `g = true`   the code as it is now (after the repairs D1, D21, D20):
                            the buffer keeps the tokens of the term being read (a zipper: consumed
                            tokens · buffered look-ahead · not yet lexed), and no site calls
                            `backup()` after a `next()` that delivered nothing;
    * `Ring` + `g = false`  the pinned code: 4-slot ring `tokenRingBuffer` (start/end modulo 4, so
                            "4 tokens backed up" and "empty" are the same state) and
                            `t, _ := p.next(); … p.backup()` at end of input.

  The theorems (Properties/C05) are about `Zip`/`true`; the pinned variants only serve the
  `_witness` theorems.  Unbounded recursion takes fuel; running out of fuel is a value (`Res.fuel`).
-/
import PrologVerif.Model.Ops
namespace PrologVerif.Read0
open PrologVerif PrologVerif.Ops

/-- `tokenKind` of lexer.go -/
inductive Kind
  | invalid | letterDigit | graphic | quoted | semicolon | cut | variable | integer | floatNumber
  | doubleQuotedList | open_ | openCT | close | openList | closeList | openCurly | closeCurly
  | bar | comma | end_
  deriving DecidableEq, Repr

structure Token where
  kind : Kind
  val  : String
  deriving DecidableEq, Repr

/-- Go's zero value `Token{}` -/
def Token.zero : Token := ⟨.invalid, ""⟩

/-- the token buffer of the parser: `Parser.next`, `Parser.backup`, `Parser.current` -/
class Buf (σ : Type) where
  next    : σ → Option Token × σ
  backup  : σ → σ
  current : σ → Token

/-! ## The buffer of the current code: `tokenBuffer` (a slice and a position) as a zipper -/

structure Zip where
  before : List Token          -- consumed tokens, last one first   (toks[:pos] reversed)
  ahead  : List Token          -- delivered by the lexer, backed up (toks[pos:])
  rest   : List Token          -- not yet requested from the lexer
  bad    : Bool := false       -- ghost: some backup() found nothing to undo (`pos == 0`)
  deriving DecidableEq, Repr

def Zip.init (toks : List Token) : Zip := ⟨[], [], toks, false⟩

def Zip.next (z : Zip) : Option Token × Zip :=
  match z.ahead with
  | t :: a => (some t, { z with before := t :: z.before, ahead := a })
  | [] =>
    match z.rest with
    | t :: r => (some t, { z with before := t :: z.before, rest := r })   -- lexer.Token(); put; get
    | [] => (none, z)                                                      -- the lexer's error

def Zip.backup (z : Zip) : Zip :=
  match z.before with
  | t :: b => { z with before := b, ahead := t :: z.ahead }
  | [] => { z with bad := true }                                           -- `if b.pos > 0`

def Zip.current (z : Zip) : Token :=
  match z.ahead with
  | t :: _ => t
  | [] => Token.zero

instance : Buf Zip := ⟨Zip.next, Zip.backup, Zip.current⟩

/-- everything the lexer delivers, in order: never changes -/
def Zip.tape (z : Zip) : List Token := z.before.reverse ++ z.ahead ++ z.rest
/-- number of tokens consumed -/
def Zip.pos (z : Zip) : Nat := z.before.length
/-- number of tokens not yet consumed -/
def Zip.rem (z : Zip) : Nat := z.ahead.length + z.rest.length

/-! ## The buffer of the pinned code: `tokenRingBuffer` -/

structure Ring where
  rest : List Token
  b0 : Token := Token.zero
  b1 : Token := Token.zero
  b2 : Token := Token.zero
  b3 : Token := Token.zero
  start : Nat := 0             -- always < 4
  stop  : Nat := 0             -- `end`, always < 4
  deriving DecidableEq, Repr

def Ring.init (toks : List Token) : Ring := { rest := toks }

def Ring.slot (r : Ring) (i : Nat) : Token :=
  match i % 4 with
  | 0 => r.b0 | 1 => r.b1 | 2 => r.b2 | _ => r.b3

def Ring.put (r : Ring) (t : Token) : Ring :=
  let r' := match r.stop % 4 with
    | 0 => { r with b0 := t } | 1 => { r with b1 := t } | 2 => { r with b2 := t } | _ => { r with b3 := t }
  { r' with stop := (r.stop + 1) % 4 }

def Ring.next (r : Ring) : Option Token × Ring :=
  if r.start = r.stop then                       -- empty()
    match r.rest with
    | t :: rest =>
      let r1 := Ring.put { r with rest := rest } t
      (some (r1.slot r1.start), { r1 with start := (r1.start + 1) % 4 })
    | [] => (none, r)
  else (some (r.slot r.start), { r with start := (r.start + 1) % 4 })

def Ring.backup (r : Ring) : Ring := { r with start := (r.start + 3) % 4 }
def Ring.current (r : Ring) : Token := r.slot r.start

instance : Buf Ring := ⟨Ring.next, Ring.backup, Ring.current⟩

/-! ## Results -/

inductive PErr
  | lex                         -- the lexer's error (io.EOF for a string reader)
  | expectation                 -- errExpectation
  | noOp                        -- errNoOp
  | unexpected (t : Token)      -- unexpectedTokenError{actual}
  | repr (flag : String)        -- representationError(flag)
  deriving DecidableEq, Repr

inductive Res (α : Type)
  | ok (a : α)
  | err (e : PErr)
  | fuel
  deriving Repr

instance [DecidableEq α] : DecidableEq (Res α) := fun a b => by
  cases a <;> cases b <;> first
    | exact isTrue rfl
    | (rename_i x y; exact if h : x = y then isTrue (by rw [h]) else isFalse (by intro e; injection e; contradiction))
    | exact isFalse (by intro e; cases e)

inductive DQ | chars | codes | atom
  deriving DecidableEq, Repr

/-- the read-only part of the parser: operator table, double_quotes flag, the repair flag -/
structure Cfg where
  ops : Table
  dq  : DQ := .chars
  g   : Bool := true           -- `false`: the pinned `t, _ := p.next(); … p.backup()` sites

/-- `operators.defined` -/
def defined (t : Table) (a : String) : Bool := t.any (fun o => o.name == a)

/-- `operator.bindingPriorities` (max = 1202) -/
def _root_.PrologVerif.Ops.OpDef.lbp (o : OpDef) : Int :=
  match o.spec with
  | .fx | .fy => 1202
  | .xf | .xfx | .xfy => (o.pri : Int) - 1
  | .yf | .yfx => o.pri
def _root_.PrologVerif.Ops.OpDef.rbp (o : OpDef) : Int :=
  match o.spec with
  | .xf | .yf => 1202
  | .fx | .xfx | .yfx => (o.pri : Int) - 1
  | .fy | .xfy => o.pri

/-- `unquote` / `unDoubleQuote` for items without escapes (the streams only draw those) -/
def stripQuotes (v : String) : String := String.ofList ((v.toList.drop 1).dropLast)

/-! ## Leaf functions: they only touch the buffer -/

section Leaf
variable {σ : Type} [Buf σ]

/-- `Parser.name` -/
def name (s : σ) : Res String × σ :=
  match Buf.next s with
  | (none, s1) => (.err .lex, s1)
  | (some t, s1) =>
    match t.kind with
    | .letterDigit | .graphic | .semicolon | .cut => (.ok t.val, s1)
    | .quoted => (.ok (stripQuotes t.val), s1)
    | _ => (.err .expectation, Buf.backup s1)

/-- `Parser.atom` -/
def atom (c : Cfg) (s : σ) : Res String × σ :=
  match name s with
  | (.ok a, s1) => (.ok a, s1)
  | (_, s1) =>
    match Buf.next s1 with
    | (none, s2) => (.err .lex, s2)
    | (some t, s2) =>
      match t.kind with
      | .openList =>
        match Buf.next s2 with
        | (none, s3) => (.err .lex, s3)
        | (some u, s3) =>
          if u.kind = .closeList then (.ok "[]", s3) else (.err .expectation, Buf.backup (Buf.backup s3))
      | .openCurly =>
        match Buf.next s2 with
        | (none, s3) => (.err .lex, s3)
        | (some u, s3) =>
          if u.kind = .closeCurly then (.ok "{}", s3) else (.err .expectation, Buf.backup (Buf.backup s3))
      | .doubleQuotedList =>
        if c.dq = .atom then (.ok (stripQuotes t.val), s2) else (.err .expectation, Buf.backup s2)
      | _ => (.err .expectation, Buf.backup s2)

/-- `Parser.op` -/
def op (c : Cfg) (maxP : Int) (s : σ) : Res String × σ :=
  match atom c s with
  | (.ok a, s1) =>
    if a = "[]" then
      let s2 := Buf.backup s1
      (.err .noOp, if (Buf.current s2).kind = .closeList then Buf.backup s2 else s2)
    else if a = "{}" then
      let s2 := Buf.backup s1
      (.err .noOp, if (Buf.current s2).kind = .closeCurly then Buf.backup s2 else s2)
    else (.ok a, s1)
  | (_, s1) =>
    match Buf.next s1 with
    | (none, s2) => (.err .lex, s2)
    | (some t, s2) =>
      if t.kind = .comma ∧ maxP ≥ 1000 then (.ok t.val, s2)
      else if t.kind = .bar then (.ok t.val, s2)
      else (.err .expectation, Buf.backup s2)

/-- the second half of `Parser.prefix`: look one token ahead (`(` directly after the atom means
    functional notation), then consult the operator table -/
def prefixTail (c : Cfg) (maxP : Int) (a : String) (s2 : σ) : Res OpDef × σ :=
  match Buf.next s2 with
  | (none, s3) => (.err .lex, s3)
  | (some t, s3) =>
    if t.kind = .openCT then (.err .noOp, Buf.backup (Buf.backup s3))
    else
      let s4 := Buf.backup s3
      match lookup c.ops a .pre with
      | some o => if (o.pri : Int) ≤ maxP then (.ok o, s4) else (.err .noOp, Buf.backup s4)
      | none => (.err .noOp, Buf.backup s4)

/-- `Parser.prefix` -/
def prefixOp (c : Cfg) (maxP : Int) (s : σ) : Res OpDef × σ :=
  match op c maxP s with
  | (.ok a, s1) =>
    -- `if a == atomMinus { … }`: a number follows → not a prefix operator
    if a = "-" then
      match Buf.next s1 with
      | (none, s2) => (.err .lex, s2)
      | (some t, s2) =>
        if t.kind = .integer ∨ t.kind = .floatNumber then (.err .noOp, Buf.backup (Buf.backup s2))
        else prefixTail c maxP a (Buf.backup s2)
    else prefixTail c maxP a s1
  | (_, s1) => (.err .noOp, s1)

/-- `Parser.infix`: the operator's own priority must fit in the context -/
def infixOp (c : Cfg) (maxP : Int) (s : σ) : Res OpDef × σ :=
  match op c maxP s with
  | (.ok a, s1) =>
    match (lookup c.ops a .inf).filter (fun o => (o.pri : Int) ≤ maxP) with
    | some o => (.ok o, s1)
    | none =>
      match (lookup c.ops a .post).filter (fun o => (o.pri : Int) ≤ maxP) with
      | some o => (.ok o, s1)
      | none => (.err .noOp, Buf.backup s1)
  | (_, s1) => (.err .noOp, s1)

/-- `Parser.More` -/
def more (s : σ) : Bool × σ :=
  match Buf.next s with
  | (none, s1) => (false, s1)
  | (some _, s1) => (true, Buf.backup s1)

/-- `Parser.term0Atom`, the `if a == atomMinus { … }` part: a negative numeric literal.
    `some k`: the literal's token was consumed (`k` = its kind and text); `none`: go on with the atom -/
def minusLook (a : String) (b1 : σ) : Option (Option Token) × σ :=
  if a = "-" then
    match Buf.next b1 with
    | (none, b2) => (some none, b2)
    | (some t, b2) =>
      if t.kind = .integer ∨ t.kind = .floatNumber then (some (some t), b2)
      else (none, Buf.backup b2)
  else (none, b1)

/-- `Parser.arg`, the look-ahead after an atom: an operator atom followed by `, ) | ]` is the
    argument itself (`true`).  At end of input nothing is delivered, so nothing is backed up —
    unless `g = false` (the pinned code, defect D1). -/
def argLook (c : Cfg) (a : String) (b1 : σ) : Bool × σ :=
  if defined c.ops a = true then
    match Buf.next b1 with
    | (none, b2) => if c.g then (false, b2) else (false, Buf.backup b2)
    | (some t, b2) =>
      if t.kind = .comma ∨ t.kind = .close ∨ t.kind = .bar ∨ t.kind = .closeList then (true, Buf.backup b2)
      else (false, Buf.backup b2)
  else (false, b1)

/-- `p.backup(); if p.current().kind == tokenCloseList || … == tokenCloseCurly { p.backup() }`:
    un-read the atom (unquoted `[]`, `{}` are two tokens) -/
def unreadAtom (b2 : σ) : σ :=
  let b3 := Buf.backup b2
  if (Buf.current b3).kind = .closeList ∨ (Buf.current b3).kind = .closeCurly then Buf.backup b3 else b3

end Leaf

/-! ## Term construction -/

/-- `integer(sign, s)` for decimal tokens -/
def integer (sign : Int) (v : String) : Res Term :=
  match natOfChars v.toList with
  | some n =>
    let i := sign * (n : Int)
    if i > 9223372036854775807 then .err (.repr "max_integer")
    else if i < -9223372036854775808 then .err (.repr "min_integer")
    else .ok (.int i)
  | none => .err (.repr "unmodelled_integer_syntax")

/-- `float(sign, s)`: the conversion itself is not modelled (C06); the streams draw from this table -/
def floatBits : String → Option UInt64
  | "1.5" => some 0x3FF8000000000000
  | "2.0" => some 0x4000000000000000
  | _ => none

def float (neg : Bool) (v : String) : Res Term :=
  match floatBits v with
  | some b => .ok (.flt (if neg then b ^^^ 0x8000000000000000 else b))
  | none => .err (.repr "unmodelled_float_syntax")

/-- `CharList` / `CodeList` of the unquoted text -/
def dqList (c : Cfg) (v : String) : Term :=
  match c.dq with
  | .codes => Term.list ((stripQuotes v).toList.map fun ch => .int ch.toNat)
  | _ => Term.list ((stripQuotes v).toList.map fun ch => .atom (String.singleton ch))

/-- parser state: buffer + `Parser.Vars` (names, in order of first occurrence) + anonymous counter -/
structure PS (σ : Type) where
  buf   : σ
  vars  : List String := []
  fresh : Nat := 0
  deriving DecidableEq

/-- `Parser.variable`: named variables get even numbers (index in `Vars`), `_` fresh odd ones -/
def parseVar {σ : Type} (v : String) (s : PS σ) : Term × PS σ :=
  if v = "_" then (.var (2 * s.fresh + 1), { s with fresh := s.fresh + 1 })
  else
    match s.vars.idxOf? v with
    | some i => (.var (2 * i), s)
    | none => (.var (2 * s.vars.length), { s with vars := s.vars ++ [v] })

/-! ## The recursive descent -/

section Rec
variable {σ : Type} [Buf σ]

@[inline] def withBuf (s : PS σ) (b : σ) : PS σ := { s with buf := b }

/-- the end of `Parser.term0Atom` — 6.3.1.3: an atom which is an operator shall not be the immediate
    operand of an operator -/
def operandCheck (c : Cfg) (maxP : Int) (r : Res Term × PS σ) : Res Term × PS σ :=
  match r with
  | (.ok (.atom f), s3) =>
    if maxP < 1201 ∧ defined c.ops f = true then (.err .expectation, withBuf s3 (Buf.backup s3.buf))
    else (.ok (.atom f), s3)
  | r => r

mutual

/-- `Parser.term` -/
def term (c : Cfg) : Nat → Int → PS σ → Res Term × PS σ
  | 0, _, s => (.fuel, s)
  | n + 1, maxP, s =>
    match prefixOp c maxP s.buf with
    | (.ok o, b1) =>
      match term c n o.rbp (withBuf s b1) with
      | (.ok t, s2) => termLoop c n maxP (.app o.name (.cons t .nil)) s2
      | (.fuel, s2) => (.fuel, s2)
      | (.err _, s2) => term0 c n maxP (withBuf s2 (Buf.backup s2.buf))   -- `p.backup(); return p.term0(maxPriority)`
    | (.err .noOp, b1) =>
      match term0 c n maxP (withBuf s b1) with
      | (.ok t, s2) => termLoop c n maxP t s2
      | r => r
    | (.err e, b1) => (.err e, withBuf s b1)
    | (.fuel, b1) => (.fuel, withBuf s b1)

/-- the `for { op, err := p.infix(maxPriority) … }` loop of `Parser.term` -/
def termLoop (c : Cfg) : Nat → Int → Term → PS σ → Res Term × PS σ
  | 0, _, _, s => (.fuel, s)
  | n + 1, maxP, lhs, s =>
    match infixOp c maxP s.buf with
    | (.ok o, b1) =>
      if o.rbp > 1200 then termLoop c n maxP (.app o.name (.cons lhs .nil)) (withBuf s b1)
      else
        match term c n o.rbp (withBuf s b1) with
        | (.ok rhs, s2) => termLoop c n maxP (.app o.name (.cons lhs (.cons rhs .nil))) s2
        | r => r
    | (_, b1) => (.ok lhs, withBuf s b1)

/-- `Parser.term0` -/
def term0 (c : Cfg) : Nat → Int → PS σ → Res Term × PS σ
  | 0, _, s => (.fuel, s)
  | n + 1, maxP, s =>
    match Buf.next s.buf with
    | (none, b1) => (.err .lex, withBuf s b1)
    | (some t, b1) =>
      match t.kind with
      | .open_ | .openCT => openClose c n (withBuf s b1)
      | .integer => (integer 1 t.val, withBuf s b1)
      | .floatNumber => (float false t.val, withBuf s b1)
      | .variable => let r := parseVar t.val (withBuf s b1); (.ok r.1, r.2)
      | .openList =>
        match Buf.next b1 with
        | (none, b2) =>
          if c.g then (.err .lex, withBuf s b2) else list c n (withBuf s (Buf.backup b2))
        | (some u, b2) =>
          if u.kind = .closeList then term0Atom c n maxP (withBuf s (Buf.backup (Buf.backup b2)))
          else list c n (withBuf s (Buf.backup b2))
      | .openCurly =>
        match Buf.next b1 with
        | (none, b2) =>
          if c.g then (.err .lex, withBuf s b2) else curly c n (withBuf s (Buf.backup b2))
        | (some u, b2) =>
          if u.kind = .closeCurly then term0Atom c n maxP (withBuf s (Buf.backup (Buf.backup b2)))
          else curly c n (withBuf s (Buf.backup b2))
      | .doubleQuotedList =>
        if c.dq = .atom then term0Atom c n maxP (withBuf s (Buf.backup b1))
        else (.ok (dqList c t.val), withBuf s b1)
      | _ => term0Atom c n maxP (withBuf s (Buf.backup b1))

/-- `Parser.term0Atom` (no placeholder is set by the streams) -/
def term0Atom (c : Cfg) : Nat → Int → PS σ → Res Term × PS σ
  | 0, _, s => (.fuel, s)
  | n + 1, maxP, s =>
    match atom c s.buf with
    | (.ok a, b1) =>
      match minusLook a b1 with
      | (some none, b2) => (.err .lex, withBuf s b2)
      | (some (some t), b2) =>
        (if t.kind = .integer then integer (-1) t.val else float true t.val, withBuf s b2)
      | (none, b2) => operandCheck c maxP (functionalNotation c n a (withBuf s b2))
    | (.err e, b1) => (.err e, withBuf s b1)
    | (.fuel, b1) => (.fuel, withBuf s b1)

/-- `Parser.openClose` -/
def openClose (c : Cfg) : Nat → PS σ → Res Term × PS σ
  | 0, s => (.fuel, s)
  | n + 1, s =>
    match term c n 1201 s with
    | (.ok t, s1) =>
      match Buf.next s1.buf with
      | (none, b2) =>
        if c.g then (.err .expectation, withBuf s1 b2) else (.err .expectation, withBuf s1 (Buf.backup b2))
      | (some u, b2) =>
        if u.kind = .close then (.ok t, withBuf s1 b2) else (.err .expectation, withBuf s1 (Buf.backup b2))
    | r => r

/-- `Parser.curlyBracketedTerm` -/
def curly (c : Cfg) : Nat → PS σ → Res Term × PS σ
  | 0, s => (.fuel, s)
  | n + 1, s =>
    match term c n 1201 s with
    | (.ok t, s1) =>
      match Buf.next s1.buf with
      | (none, b2) =>
        if c.g then (.err .expectation, withBuf s1 b2) else (.err .expectation, withBuf s1 (Buf.backup b2))
      | (some u, b2) =>
        if u.kind = .closeCurly then (.ok (.app "{}" (.cons t .nil)), withBuf s1 b2)
        else (.err .expectation, withBuf s1 (Buf.backup b2))
    | r => r

/-- `Parser.list` -/
def list (c : Cfg) : Nat → PS σ → Res Term × PS σ
  | 0, s => (.fuel, s)
  | n + 1, s =>
    match arg c n s with
    | (.ok a, s1) => listLoop c n [a] s1
    | r => r

/-- the `for` loop of `Parser.list`; `args` in order -/
def listLoop (c : Cfg) : Nat → List Term → PS σ → Res Term × PS σ
  | 0, _, s => (.fuel, s)
  | n + 1, args, s =>
    match Buf.next s.buf with
    | (none, b1) =>
      if c.g then (.err .expectation, withBuf s b1) else (.err .expectation, withBuf s (Buf.backup b1))
    | (some t, b1) =>
      match t.kind with
      | .comma =>
        match arg c n (withBuf s b1) with
        | (.ok a, s2) => listLoop c n (args ++ [a]) s2
        | r => r
      | .bar =>
        match arg c n (withBuf s b1) with
        | (.ok tl, s2) =>
          match Buf.next s2.buf with
          | (none, b3) =>
            if c.g then (.err .expectation, withBuf s2 b3) else (.err .expectation, withBuf s2 (Buf.backup b3))
          | (some u, b3) =>
            if u.kind = .closeList then (.ok (Term.list args tl), withBuf s2 b3)
            else (.err .expectation, withBuf s2 (Buf.backup b3))
        | r => r
      | .closeList => (.ok (Term.list args), withBuf s b1)
      | _ => (.err .expectation, withBuf s (Buf.backup b1))

/-- `Parser.functionalNotation` -/
def functionalNotation (c : Cfg) : Nat → String → PS σ → Res Term × PS σ
  | 0, _, s => (.fuel, s)
  | n + 1, f, s =>
    match Buf.next s.buf with
    | (none, b1) =>
      if c.g then (.ok (.atom f), withBuf s b1) else (.ok (.atom f), withBuf s (Buf.backup b1))
    | (some t, b1) =>
      if t.kind = .openCT then
        match arg c n (withBuf s b1) with
        | (.ok a, s2) => fnLoop c n f [a] s2
        | r => r
      else (.ok (.atom f), withBuf s (Buf.backup b1))

/-- the `for` loop of `Parser.functionalNotation` -/
def fnLoop (c : Cfg) : Nat → String → List Term → PS σ → Res Term × PS σ
  | 0, _, _, s => (.fuel, s)
  | n + 1, f, args, s =>
    match Buf.next s.buf with
    | (none, b1) =>
      if c.g then (.err .expectation, withBuf s b1) else (.err .expectation, withBuf s (Buf.backup b1))
    | (some t, b1) =>
      match t.kind with
      | .comma =>
        match arg c n (withBuf s b1) with
        | (.ok a, s2) => fnLoop c n f (args ++ [a]) s2
        | r => r
      | .close => (.ok (.app f (Args.ofList args)), withBuf s b1)
      | _ => (.err .expectation, withBuf s (Buf.backup b1))

/-- `Parser.arg` -/
def arg (c : Cfg) : Nat → PS σ → Res Term × PS σ
  | 0, s => (.fuel, s)
  | n + 1, s =>
    match atom c s.buf with
    | (.ok a, b1) =>
      match argLook c a b1 with
      | (true, b2) => (.ok (.atom a), withBuf s b2)
      | (false, b2) => term c n 999 (withBuf s (unreadAtom b2))
    | (_, b1) => term c n 999 (withBuf s b1)

end

/-- `Parser.Term`: a term followed by an end token -/
def readTerm (c : Cfg) (fuel : Nat) (s : PS σ) : Res Term × PS σ :=
  match term c fuel 1201 s with
  | (.ok t, s1) =>
    match Buf.next s1.buf with
    | (none, b2) =>
      if c.g then (.err (.unexpected Token.zero), withBuf s1 b2)
      else let b3 := Buf.backup b2; (.err (.unexpected (Buf.current b3)), withBuf s1 b3)
    | (some e, b2) =>
      if e.kind = .end_ then (.ok t, withBuf s1 b2)
      else let b3 := Buf.backup b2; (.err (.unexpected (Buf.current b3)), withBuf s1 b3)
  | (.err .expectation, s1) => (.err (.unexpected (Buf.current s1.buf)), s1)
  | r => r

/-- the loop of text.go `compile`: `for p.More() { t, err := p.Term(); if err != nil { return err } … }`,
    at most `k` terms -/
def readAll (c : Cfg) (fuel : Nat) : Nat → PS σ → List (Res Term) × PS σ
  | 0, s => ([], s)
  | k + 1, s =>
    match more s.buf with
    | (false, b1) => ([], withBuf s b1)
    | (true, b1) =>
      match readTerm c fuel (withBuf s b1) with
      | (.ok t, s2) => let r := readAll c fuel k s2; (.ok t :: r.1, r.2)
      | (r, s2) => ([r], s2)

end Rec

end PrologVerif.Read0
