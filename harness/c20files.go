package main

// C20, stream c20.files: HISTORIES of file loads (consult/1 queries, Exec of texts with ensure_loaded/1,
// consult/1, include/1 directives, files that load files, recursive and mutual loads, one file under two
// spellings) in ONE interpreter over a FAULTY file system (c20faultFS, an fs.FS assigned to Interpreter.FS:
// per file a fault plan — Open fails, Read fails after k bytes, the name is a directory, Stat lies) whose files
// are broken, repaired, changed and removed between the steps.  Case format: see
// lean/PrologVerif/Driver/C20.lean.  After every load step: the result of the load and the listing of
// all user predicates.

import (
	"context"
	"fmt"
	"math/rand"
	"sort"
	"strconv"
	"strings"
	"errors"
	"io"
	"io/fs"
	"time"

	"github.com/ichiban/prolog/engine"
)

func init() {
	register(&stream{name: "c20.files", gen: genC20Files, run: runC20Files})
}

// ---------------------------------------------------------------------------------------------
// generator
// ---------------------------------------------------------------------------------------------

var c20fileNames = []string{"lib", "util", "main"}

// what a file may do besides defining its own predicate
type c20fileOpts struct {
	version int    // the clauses are name(vN_1), name(vN_2), ...: a changed file is visible in the listing
	n       int    // number of own clauses
	loads   []*gt_c09 // directives (ensure_loaded / consult / include / initialization(consult)) ...
	at      []int  // ... and their positions among the clauses
	fault   string // "" or a fault kind ...
	faultAt int    // ... inserted at this item position
}

func c20fileFault(kind, pred string) (c20item, bool) {
	switch kind {
	case "syn":
		return c20item{kind: 'x', sub: "paren"}, true
	case "tok":
		return c20item{kind: 'x', sub: "tok"}, true
	case "num":
		return c20item{kind: 't', t: gi(3)}, true
	case "nbody":
		return c20item{kind: 't', t: grule(ga("zz"), gi(3))}, true
	case "dfail":
		return c20directive(ga("fail")), true
	case "dthrow":
		return c20directive(gc("throw", ga("oops"))), true
	case "ifail": // fails AFTER the commit
		return c20directive(gc("initialization", ga("fail"))), true
	case "nofile":
		return c20directive(gc("ensure_loaded", ga("no_such_file"))), true
	case "stray": // a clause of another predicate in the middle: the file's own predicate becomes discontiguous
		return c20item{kind: 't', t: gc("stray_"+pred, gi(0))}, true
	}
	return c20item{}, false
}

var c20fileFaultKinds = []string{"syn", "tok", "num", "nbody", "dfail", "dthrow", "ifail", "nofile", "stray"}

func c20fileItems(name string, o c20fileOpts) []c20item {
	var items []c20item
	for i := 0; i < o.n; i++ {
		for j, p := range o.at {
			if p == i {
				items = append(items, c20directive(o.loads[j]))
			}
		}
		items = append(items, c20item{kind: 't', t: gc(name, ga(fmt.Sprintf("v%d_%d", o.version, i+1)))})
	}
	for j, p := range o.at {
		if p >= o.n {
			items = append(items, c20directive(o.loads[j]))
		}
	}
	if f, ok := c20fileFault(o.fault, name); ok {
		pos := o.faultAt
		if pos > len(items) {
			pos = len(items)
		}
		items = append(append(append([]c20item(nil), items[:pos]...), f), items[pos:]...)
	}
	return items
}

func c20w(file string, items []c20item) string {
	return "w " + file + " = " + c20itemsPayload(items)
}

// c20wFault: write a file with a fault plan.  plan: "open KIND" | "dir" | "stat N" | "read" (fails after
// byte off: the generator, which lays the text out, says how many read items are complete by then and
// whether the failure falls inside an item)
func c20wFault(file string, items []c20item, plan string, off int) string {
	if plan == "read" {
		_, spans := c20layout(items)
		k, inside, _ := c20cut(spans, off)
		plan = fmt.Sprintf("read %d %d %d", off, k, inside)
	}
	return "w " + file + " !" + plan + " = " + c20itemsPayload(items)
}

// a random fault plan for a file with these items
func c20randomPlan(r *rand.Rand, file string, items []c20item) string {
	text, _ := c20layout(items)
	switch k := r.Intn(10); {
	case k < 5:
		return c20wFault(file, items, "read", r.Intn(len(text)+1))
	case k < 7:
		return c20wFault(file, items, "open "+pick(r, []string{"notexist", "perm", "other"}), 0)
	case k < 8:
		return c20wFault(file, items, fmt.Sprintf("stat %d", pick(r, []int{0, 1, len(text) / 2, len(text) + 100})), 0)
	default:
		return c20wFault(file, nil, "dir", 0)
	}
}

func c20q(arg *gt_c09) string { return "q " + arg.wire() }

// include/1 has no guard against cycles in the engine (a file that includes itself recurses until the Go
// stack overflows and the process dies — C05's subject): only main and texts that are not files include,
// and only lib or util, which never include.
func c20loadDirective(r *rand.Rand, target string, mayInclude bool) *gt_c09 {
	k := r.Intn(8)
	if k == 7 && (!mayInclude || target == "main") {
		k = 0
	}
	switch k {
	case 0, 1, 2:
		return gc("ensure_loaded", ga(target))
	case 3, 4:
		return gc("consult", ga(target))
	case 5:
		return gc("consult", gtList(ga(target), ga(pick(r, c20fileNames))))
	case 6:
		return gc("initialization", gc("consult", ga(target)))
	default:
		return gc("include", ga(target))
	}
}

// a random history
func genC20FilesRandom(r *rand.Rand) string {
	version := map[string]int{}
	fileOf := func(name string, broken bool) []c20item {
		version[name]++
		o := c20fileOpts{version: version[name], n: 1 + r.Intn(3)}
		if r.Intn(3) == 0 {
			other := pick(r, c20fileNames)
			o.loads = append(o.loads, c20loadDirective(r, other, name == "main"))
			// between the clauses it splits the run (a fault of its own); mostly in front or behind
			if r.Intn(5) == 0 {
				o.at = append(o.at, r.Intn(o.n+1))
			} else {
				o.at = append(o.at, pick(r, []int{0, o.n}))
			}
		}
		if broken {
			o.fault = pick(r, c20fileFaultKinds)
			o.faultAt = r.Intn(o.n + 2)
		}
		return c20fileItems(name, o)
	}
	path := func(name string) string {
		if r.Intn(12) == 0 {
			return name // a file without extension: `lib` finds it before lib.pl
		}
		return name + ".pl"
	}
	spelling := func(name string) *gt_c09 {
		if r.Intn(4) == 0 {
			return ga(name + ".pl")
		}
		return ga(name)
	}
	var steps []string
	write := func(n string, broken bool) string {
		items := fileOf(n, broken)
		switch k := r.Intn(20); {
		case k < 3:
			return c20randomPlan(r, path(n), items)
		case k < 4:
			// a faulty (or directory) entry under the bare name next to a healthy name.pl
			return c20randomPlan(r, n, items) + " // " + c20w(n+".pl", items)
		}
		return c20w(path(n), items)
	}
	for _, n := range c20fileNames[:2+r.Intn(2)] {
		steps = append(steps, write(n, r.Intn(3) == 0))
	}
	last := pick(r, c20fileNames)
	for i, k := 0, 3+r.Intn(6); i < k; i++ {
		name := last
		if r.Intn(3) == 0 {
			name = pick(r, c20fileNames)
		}
		last = name
		switch c := r.Intn(20); {
		case c < 8:
			steps = append(steps, c20q(spelling(name)))
		case c < 10:
			steps = append(steps, c20q(gtList(spelling(name), spelling(pick(r, c20fileNames)))))
		case c < 11:
			steps = append(steps, c20q(pick(r, []*gt_c09{gv(0), gi(3), ga("no_such_file"), ga("[]"),
				gc(".", ga(name), gv(1))})))
		case c < 14:
			// a text that is not a file and loads files
			items := []c20item{{kind: 't', t: gc("top", gi(int64(i)))}}
			d := c20directive(c20loadDirective(r, name, true))
			if r.Intn(2) == 0 {
				items = append([]c20item{d}, items...)
			} else {
				items = append(items, d)
			}
			if r.Intn(6) == 0 {
				f, _ := c20fileFault(pick(r, c20fileFaultKinds), "top")
				items = append(items, f)
			}
			steps = append(steps, "load "+c20itemsPayload(items))
		case c < 19:
			// break / repair / change the file
			steps = append(steps, write(name, r.Intn(5) < 2))
		default:
			steps = append(steps, "rm "+path(name))
		}
	}
	return strings.Join(steps, " // ")
}

// the systematic part: for every way a file can be loaded x every fault kind x every position of the
// fault in the inner and in the outer file:  load (fails) / load again (must fail again) / repair / load
// (must define the repaired text) / load again (no-op) / change / load (no-op: load-once).
func genC20FilesSystematic() []string {
	var out []string
	lib := func(v int, fault string, at int) []c20item {
		return c20fileItems("lib", c20fileOpts{version: v, n: 2, fault: fault, faultAt: at})
	}
	type scenario struct {
		name  string
		outer func(fault string, at int) []c20item // nil: lib is consulted directly
		top   *gt_c09
	}
	mainWith := func(d *gt_c09, pos int) func(string, int) []c20item {
		return func(fault string, at int) []c20item {
			return c20fileItems("main", c20fileOpts{version: 1, n: 2, loads: []*gt_c09{d}, at: []int{pos}, fault: fault, faultAt: at})
		}
	}
	scenarios := []scenario{
		{"direct", nil, ga("lib")},
		{"spelling", nil, ga("lib.pl")},
		{"ensure_first", mainWith(gc("ensure_loaded", ga("lib")), 0), ga("main")},
		{"ensure_last", mainWith(gc("ensure_loaded", ga("lib")), 2), ga("main")},
		{"consult_goal", mainWith(gc("consult", ga("lib")), 0), ga("main")},
		{"consult_list", mainWith(gc("consult", gtList(ga("lib"), ga("lib"))), 2), ga("main")},
		{"init_consult", mainWith(gc("initialization", gc("consult", ga("lib"))), 0), ga("main")},
		{"include", mainWith(gc("include", ga("lib")), 2), ga("main")},
	}
	for _, sc := range scenarios {
		for _, kind := range c20fileFaultKinds {
			for at := 0; at <= 2; at++ {
				// fault in the inner file (lib)
				var steps []string
				steps = append(steps, "load "+c20itemsPayload([]c20item{{kind: 't', t: gc("lib", ga("old"))}, {kind: 't', t: gc("other", ga("o"))}}))
				steps = append(steps, c20w("lib.pl", lib(1, kind, at)))
				if sc.outer != nil {
					steps = append(steps, c20w("main.pl", sc.outer("", 0)))
				}
				steps = append(steps, c20q(sc.top), c20q(sc.top))
				steps = append(steps, c20w("lib.pl", lib(2, "", 0)), c20q(sc.top), c20q(sc.top))
				steps = append(steps, c20w("lib.pl", lib(3, "", 0)), c20q(sc.top), c20q(ga("lib")))
				out = append(out, strings.Join(steps, " // ")+fmt.Sprintf(" @tag sc=%s where=inner kind=%s", sc.name, kind))
				if sc.outer == nil {
					continue
				}
				// fault in the outer file (main), lib is fine
				for _, at2 := range []int{at, at + 2} {
					steps = nil
					steps = append(steps, c20w("lib.pl", lib(1, "", 0)), c20w("main.pl", sc.outer(kind, at2)))
					steps = append(steps, c20q(sc.top), c20q(sc.top))
					steps = append(steps, c20w("main.pl", sc.outer("", 0)), c20w("lib.pl", lib(2, "", 0)), c20q(sc.top), c20q(sc.top), c20q(ga("lib")))
					out = append(out, strings.Join(steps, " // ")+fmt.Sprintf(" @tag sc=%s where=outer kind=%s", sc.name, kind))
				}
			}
		}
	}
	// READ FAULTS: facts(a). facts(b). facts(c). other(a).  failing after every byte offset (inside a clause, on
	// a clause boundary, before the first byte, at the last byte), loaded in each way; then the other plans
	facts := []c20item{{kind: 't', t: gc("lib", ga("a"))}, {kind: 't', t: gc("lib", ga("b"))}, {kind: 'c', sub: "line"},
		{kind: 't', t: gc("lib", ga("c"))}, {kind: 't', t: gc("r", ga("a"))}}
	factsText, _ := c20layout(facts)
	old0 := "load " + c20itemsPayload([]c20item{{kind: 't', t: gc("lib", ga("old"))}, {kind: 't', t: gc("r", ga("old"))}})
	type loader struct {
		name string
		step string
	}
	loaders := []loader{
		{"consult", c20q(ga("lib"))},
		{"consult_pl", c20q(ga("lib.pl"))},
		{"ensure", "load " + c20itemsPayload([]c20item{c20directive(gc("ensure_loaded", ga("lib"))), {kind: 't', t: gc("top", gi(1))}})},
		{"include", "load " + c20itemsPayload([]c20item{{kind: 't', t: gc("top", gi(1))}, c20directive(gc("include", ga("lib")))})},
	}
	for _, ld := range loaders {
		for off := 0; off <= len(factsText); off++ {
			steps := []string{old0, c20wFault("lib.pl", facts, "read", off), ld.step, ld.step, c20w("lib.pl", facts), ld.step, ld.step}
			out = append(out, strings.Join(steps, " // ")+fmt.Sprintf(" @tag sc=readfault_%s where=byte kind=read", ld.name))
		}
		for _, plan := range []string{"open notexist", "open perm", "open other", "stat 0", "stat 3", fmt.Sprintf("stat %d", len(factsText)+50)} {
			steps := []string{old0, c20wFault("lib.pl", facts, plan, 0), ld.step, ld.step, c20w("lib.pl", facts), ld.step}
			out = append(out, strings.Join(steps, " // ")+fmt.Sprintf(" @tag sc=plan_%s where=%s kind=plan", ld.name, strings.Fields(plan)[0]))
		}
		// a directory (or a faulty file) with the bare name next to lib.pl; both spellings healthy; an empty file
		for _, first := range []string{c20wFault("lib", nil, "dir", 0), c20wFault("lib", facts, "read", 9), c20wFault("lib", facts, "open perm", 0),
			c20w("lib", []c20item{{kind: 't', t: gc("lib", ga("bare"))}}), c20w("lib", nil)} {
			steps := []string{old0, first, c20w("lib.pl", facts), ld.step, ld.step, "rm lib", ld.step, c20q(ga("lib"))}
			out = append(out, strings.Join(steps, " // ")+fmt.Sprintf(" @tag sc=twonames_%s where=first kind=plan", ld.name))
		}
	}
	// recursive and mutual loads, with a failure at each end
	for _, kind := range append([]string{""}, c20fileFaultKinds...) {
		for _, where := range []string{"a", "b"} {
			fa, fb := "", ""
			if where == "a" {
				fa = kind
			} else {
				fb = kind
			}
			a := c20fileItems("lib", c20fileOpts{version: 1, n: 2, loads: []*gt_c09{gc("ensure_loaded", ga("lib")), gc("ensure_loaded", ga("util"))}, at: []int{0, 0}, fault: fa, faultAt: 4})
			b := c20fileItems("util", c20fileOpts{version: 1, n: 1, loads: []*gt_c09{gc("ensure_loaded", ga("lib"))}, at: []int{0}, fault: fb, faultAt: 2})
			steps := []string{c20w("lib.pl", a), c20w("util.pl", b), c20q(ga("lib")), c20q(ga("util")), c20q(ga("lib")),
				c20w("lib.pl", c20fileItems("lib", c20fileOpts{version: 2, n: 1})), c20w("util.pl", c20fileItems("util", c20fileOpts{version: 2, n: 1})),
				c20q(gtList(ga("lib"), ga("util"))), c20q(ga("util"))}
			out = append(out, strings.Join(steps, " // ")+fmt.Sprintf(" @tag sc=mutual where=%s kind=%s", where, kind))
		}
	}
	return out
}

// every history of at most 4 steps over a small alphabet
func genC20FilesExhaustive() []string {
	good := func(v int) []c20item { return c20fileItems("lib", c20fileOpts{version: v, n: 1}) }
	bad := c20fileItems("lib", c20fileOpts{version: 9, n: 1, fault: "syn", faultAt: 1})
	ifail := c20fileItems("lib", c20fileOpts{version: 8, n: 1, fault: "ifail", faultAt: 1})
	mainEns := c20fileItems("main", c20fileOpts{version: 1, n: 1, loads: []*gt_c09{gc("ensure_loaded", ga("lib"))}, at: []int{0}})
	alphabet := []string{
		c20w("lib.pl", good(1)), c20w("lib.pl", good(2)), c20w("lib.pl", bad), c20w("lib.pl", ifail), c20w("main.pl", mainEns),
		c20q(ga("lib")), c20q(ga("main")), c20q(gtList(ga("main"), ga("lib.pl"))), "rm lib.pl",
		c20wFault("lib.pl", good(3), "read", 3), c20wFault("lib", nil, "dir", 0),
		"load " + c20itemsPayload([]c20item{c20directive(gc("ensure_loaded", ga("lib"))), {kind: 't', t: gc("m", gi(1))}}),
	}
	var out []string
	var rec func(prefix []string, depth int)
	rec = func(prefix []string, depth int) {
		if len(prefix) > 0 && !strings.HasPrefix(prefix[len(prefix)-1], "w ") && !strings.HasPrefix(prefix[len(prefix)-1], "rm ") {
			out = append(out, strings.Join(prefix, " // ")+" @tag sc=exhaustive")
		}
		if depth == 0 {
			return
		}
		for _, a := range alphabet {
			rec(append(append([]string(nil), prefix...), a), depth-1)
		}
	}
	rec(nil, 4)
	return out
}

func genC20Files(r *rand.Rand, n int, tier string) []string {
	out := genC20FilesSystematic()
	if tier == "thorough" {
		out = append(out, genC20FilesExhaustive()...)
	}
	for i := 0; i < n; i++ {
		out = append(out, genC20FilesRandom(r)+" @tag sc=random")
	}
	return out
}

// ---------------------------------------------------------------------------------------------
// a file system with fault plans
// ---------------------------------------------------------------------------------------------

type c20faultFile struct {
	data []byte
	plan string // "" | "open" | "read" | "dir" | "stat"
	kind string // open: notexist | perm | other
	n    int    // read: fail after n bytes; stat: the size reported
}

type c20faultFS map[string]*c20faultFile

type c20openFile struct {
	name string
	f    *c20faultFile
	pos  int
}

type c20fileInfo struct {
	name string
	size int64
	dir  bool
}

func (i c20fileInfo) Name() string { return i.name }
func (i c20fileInfo) Size() int64  { return i.size }
func (i c20fileInfo) Mode() fs.FileMode {
	if i.dir {
		return fs.ModeDir | 0o555
	}
	return 0o444
}
func (i c20fileInfo) ModTime() time.Time { return time.Time{} }
func (i c20fileInfo) IsDir() bool        { return i.dir }
func (i c20fileInfo) Sys() interface{}   { return nil }

var errC20Disk = errors.New("input/output error")

func (m c20faultFS) Open(name string) (fs.File, error) {
	if !fs.ValidPath(name) {
		return nil, &fs.PathError{Op: "open", Path: name, Err: fs.ErrInvalid}
	}
	f, ok := m[name]
	if !ok {
		return nil, &fs.PathError{Op: "open", Path: name, Err: fs.ErrNotExist}
	}
	if f.plan == "open" {
		err := errC20Disk
		switch f.kind {
		case "notexist":
			err = fs.ErrNotExist
		case "perm":
			err = fs.ErrPermission
		}
		return nil, &fs.PathError{Op: "open", Path: name, Err: err}
	}
	return &c20openFile{name: name, f: f}, nil
}

func (o *c20openFile) Stat() (fs.FileInfo, error) {
	size := int64(len(o.f.data))
	if o.f.plan == "stat" {
		size = int64(o.f.n) // a size that lies
	}
	return c20fileInfo{name: o.name, size: size, dir: o.f.plan == "dir"}, nil
}

func (o *c20openFile) Close() error { return nil }

// Read hands out at most 7 bytes per call; with a read plan it delivers the first n bytes and then a
// non-EOF error (fs.ReadFile returns the bytes read so far together with that error).
func (o *c20openFile) Read(p []byte) (int, error) {
	if o.f.plan == "dir" {
		return 0, &fs.PathError{Op: "read", Path: o.name, Err: errors.New("is a directory")}
	}
	limit := len(o.f.data)
	if o.f.plan == "read" && o.f.n < limit {
		limit = o.f.n
	}
	if o.pos >= limit {
		if o.f.plan == "read" {
			return 0, &fs.PathError{Op: "read", Path: o.name, Err: errC20Disk}
		}
		return 0, io.EOF
	}
	k := limit - o.pos
	if k > 7 {
		k = 7
	}
	if k > len(p) {
		k = len(p)
	}
	copy(p, o.f.data[o.pos:o.pos+k])
	o.pos += k
	return k, nil
}

// ---------------------------------------------------------------------------------------------
// runner
// ---------------------------------------------------------------------------------------------

func runC20Files(payload string) string {
	c20baselineOnce.Do(func() {
		c20baseline = map[string]bool{}
		i, _ := newInterp("")
		for _, p := range i.VM.VerifProcedures() {
			c20baseline[fmt.Sprintf("%s/%d", p.Name, p.Arity)] = true
		}
	})
	tags := ""
	if k := strings.Index(payload, " @tag "); k >= 0 {
		tags = payload[k+6:]
		payload = payload[:k]
	}
	i, _ := newInterp("")
	mfs := c20faultFS{}
	i.FS = mfs
	var out []string
	loads, failed, reloadAfterFail, reloadAfterOK, faulty := 0, 0, 0, 0, 0
	lastResult := map[string]string{} // load target (as written) -> last result class
	note := func(target, res string) {
		loads++
		if prev, ok := lastResult[target]; ok {
			if prev == "ok" {
				reloadAfterOK++
			} else {
				reloadAfterFail++
			}
		}
		if res != "ok" {
			failed++
		}
		lastResult[target] = res
	}
	for _, st := range strings.Split(payload, " // ") {
		st = strings.TrimSpace(st)
		f := strings.SplitN(st, " ", 2)
		arg := ""
		if len(f) > 1 {
			arg = f[1]
		}
		switch f[0] {
		case "w":
			ne := strings.SplitN(arg, " =", 2)
			body := ""
			if len(ne) > 1 {
				body = ne[1]
			}
			text, _ := c20layout(c20parseItems(body))
			lhs := strings.Fields(ne[0])
			ff := &c20faultFile{data: []byte(text)}
			if len(lhs) > 1 {
				faulty++
				ff.plan = strings.TrimPrefix(lhs[1], "!")
				switch ff.plan {
				case "open":
					ff.kind = lhs[2]
				case "read", "stat":
					n, err := strconv.Atoi(lhs[2])
					must(err)
					ff.n = n
				}
			}
			mfs[lhs[0]] = ff
			out = append(out, "-")
		case "rm":
			delete(mfs, strings.TrimSpace(arg))
			out = append(out, "-")
		case "q":
			ts, err := newTermDecoder().terms(arg)
			must(err)
			ok, err := engine.Call(&i.VM, compound("consult", ts[0]), engine.Success, nil).Force(context.Background())
			res := c20result(err)
			if err == nil && !ok {
				res = "false"
			}
			note(strings.TrimSuffix(arg, ".pl"), strings.SplitN(res, " ", 2)[0])
			out = append(out, res+" "+c20listing(i))
		case "load":
			text, _ := c20layout(c20parseItems(arg))
			res := c20result(i.Exec(text))
			note("load "+arg, strings.SplitN(res, " ", 2)[0])
			out = append(out, res+" "+c20listing(i))
		default:
			panic("bad step " + st)
		}
	}
	nt := 0
	if reloadAfterFail+reloadAfterOK > 0 {
		nt = 1
	}
	tg := map[string]string{}
	for _, kv := range strings.Fields(tags) {
		if j := strings.IndexByte(kv, '='); j > 0 {
			tg[kv[:j]] = kv[j+1:]
		}
	}
	var extra []string
	for _, k := range []string{"sc", "where", "kind"} {
		if v, ok := tg[k]; ok {
			extra = append(extra, k+"="+v)
		}
	}
	sort.Strings(extra)
	b := func(n int) string {
		if n > 3 {
			return "4+"
		}
		return fmt.Sprint(n)
	}
	return strings.Join(out, " // ") + fmt.Sprintf(" ### nt=%d loads=%s failed=%s reload_after_fail=%s reload_after_ok=%s faulty_files=%s %s",
		nt, b(loads), b(failed), b(reloadAfterFail), b(reloadAfterOK), b(faulty), strings.Join(extra, " "))
}
