import PrologVerif.Driver.Common
import PrologVerif.Model.Rel
namespace PrologVerif.Driver.C16
open PrologVerif PrologVerif.Rel PrologVerif.Driver

def row (t : List Term) : String := (Term.app "t" (Args.ofList t)).canon.wire

def showResult (k : Nat) : Result → String
  | .error e => "err " ++ e.canon.wire
  | .ok ans => "ans " ++ bracket ((ans.take k).map row)

def parseCase (payload : String) : Option (String × Nat × List Term) :=
  let (pred, rest) := headWord payload
  let (ks, rest) := headWord rest
  match natOfChars ks.toList, parseTerms rest with
  | some k, some args => some (pred, k, args)
  | _, _ => none

def handler : Handler := fun payload _impl =>
  match parseCase payload with
  | some (pred, k, args) =>
    match call pred k args with
    | some r => (showResult k r, "-")
    | none => ("BAD-CASE", "-")
  | none => ("BAD-CASE", "-")

end PrologVerif.Driver.C16
