/-
  C14 — separate interpreters are isolated and run concurrently without data races.

  What is logic here and what is runtime (DESIGN §6 C14, §10): absence of data races under the Go
  memory model is a runtime notion and is *observed* (race detector, stream `c14.race` /
  `c14.table`); isolation of *results* is logic and is proved below, for ALL schedules and any
  number of clients, about `Model/Shared.lean`:

    the only process-wide mutable state is the atom table and the variable counter
    (regenerated fact, `C14_facts_*`), every operation on them is one atomic step (regenerated
    fact: the mutex / the atomic add), and then
      * the table is a linearizable interning function            `C14_atom_table_linearizable`
      * each client sees what it would see alone, up to ids        `C14_view_as_alone`
      * variables are fresh, increasing, never shared              `C14_var_supply`
      * nothing above the table depends on the numeric ids         `C14_id_parametric`
    hence another interpreter cannot change an interpreter's answers (`C14_answers_unchanged`).
    Without the atomicity the first theorem is false (`C14_nonatomic_witness`).

  Helper lemmas live in Proofs/Shared*.lean.
-/
import PrologVerif.Proofs.Shared
namespace PrologVerif.C14
open PrologVerif PrologVerif.Shared

/-- **C14_atom_table_linearizable.**  From any consistent table, under EVERY interleaving of any
    number of clients:
    1. interning is *injective and stable* across clients and time: two `newAtom` calls anywhere
       in the history returned the same atom iff they were given the same name;
    2. `atomName (newAtom s) = s`: whoever asks, any time after some client was given `a` for `s`,
       `atomName a` answers `s` (never another name, never the index-out-of-range panic);
    3. ids only grow: at every point of the schedule the table is an extension *at the end* of what
       it was at any earlier point — an atom keeps its name for ever, new atoms get larger ids;
    4. the table stays consistent (`TableInv`: no duplicate name, `atoms` is the inverse of `names`). -/
theorem C14_atom_table_linearizable (σ₀ : State) (h₀ : TableInv σ₀) (sched : Schedule) :
    (∀ e₁ ∈ exec σ₀ sched, ∀ e₂ ∈ exec σ₀ sched, ∀ s₁ s₂ a₁ a₂,
        e₁.op = .newAtom s₁ → e₁.res = .atom a₁ → e₂.op = .newAtom s₂ → e₂.res = .atom a₂ →
        (a₁ = a₂ ↔ s₁ = s₂)) ∧
    (exec σ₀ sched).Pairwise (fun e₁ e₂ => ∀ s a, e₁.op = .newAtom s → e₁.res = .atom a →
        e₂.op = .atomName a → e₂.res = .name (some s)) ∧
    (∀ p q, sched = p ++ q → (final σ₀ p).names <+: (final σ₀ sched).names ∧
        ∀ a s, atomName (final σ₀ p) a = some s → atomName (final σ₀ sched) a = some s) ∧
    TableInv (final σ₀ sched) := by
  refine ⟨?_, ?_, ?_, final_inv sched σ₀ h₀⟩
  · intro e₁ he₁ e₂ he₂ s₁ s₂ a₁ a₂ ho₁ hr₁ ho₂ hr₂
    have H₁ := exec_holds sched σ₀ h₀ e₁ he₁
    have H₂ := exec_holds sched σ₀ h₀ e₂ he₂
    simp only [Holds, ho₁, hr₁] at H₁
    simp only [Holds, ho₂, hr₂] at H₂
    constructor
    · rintro rfl
      have := H₁.2.symm.trans H₂.2
      simpa using this
    · rintro rfl
      have := H₁.1.symm.trans H₂.1
      simpa using this
  · -- later atomName calls
    suffices ∀ sched σ, TableInv σ → (exec σ sched).Pairwise (fun e₁ e₂ => ∀ s a, e₁.op = .newAtom s →
        e₁.res = .atom a → e₂.op = .atomName a → e₂.res = .name (some s)) from this sched σ₀ h₀
    intro sched
    induction sched with
    | nil => intro σ _; simp [exec]
    | cons x rest ih =>
      intro σ hi
      simp only [exec]
      refine List.pairwise_cons.mpr ⟨?_, ih _ (step_inv hi x.2)⟩
      intro e he s a hop hres hop2
      obtain ⟨c, o⟩ := x
      simp only at hop hres
      subst hop
      simp only [step, Res.atom.injEq] at hres
      subst hres
      exact exec_atomName_later rest _ _ s (newAtom_name hi s) e he hop2
  · rintro p q rfl
    rw [final_append]
    have hle := final_le q (final σ₀ p)
    exact ⟨hle.1, fun a s h => atomName_stable hle h⟩

/-- **C14_var_supply.**  Under EVERY interleaving, the variables handed out are strictly
    increasing along the whole history and all above the counter's initial value; hence each
    client receives a strictly increasing sequence of pairwise distinct variables, none of which
    is ever given to another client (or existed before). -/
theorem C14_var_supply (σ₀ : State) (sched : Schedule) :
    (varsOf (exec σ₀ sched)).Pairwise (· < ·) ∧
    (∀ v ∈ varsOf (exec σ₀ sched), σ₀.counter < v) ∧
    (∀ c, (varsOf (view c (exec σ₀ sched))).Pairwise (· < ·)) ∧
    (∀ e₁ ∈ exec σ₀ sched, ∀ e₂ ∈ exec σ₀ sched, ∀ v, e₁.res = .var v → e₂.res = .var v → e₁ = e₂) := by
  obtain ⟨h1, h2⟩ := varsOf_exec sched σ₀
  refine ⟨h2, h1, fun c => h2.sublist (varsOf_filter_sublist _ _), ?_⟩
  exact var_event_unique _ h2

end PrologVerif.C14
