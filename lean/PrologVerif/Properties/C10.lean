/-
  C10 — a stored clause is the clause that was given, and it executes as that clause.

  Subject: `Model/Compile.lean` (engine/clause.go compile & friends, iterator.go seqIterator /
  altIterator) over the Go term encodings, `Model/Decompile.lean` (the denotation of bytecode).
  That `exec` runs the bytecode as resolution against the decompiled clause is part of the VM
  refinement (Properties/C01, staged); here: the compiled form DENOTES the source term.
-/
import PrologVerif.Proofs.DecompileCompile
import PrologVerif.Generated.Bootstrap
import PrologVerif.Properties.C10Exec
namespace PrologVerif.C10
open PrologVerif PrologVerif.VM PrologVerif.DecompileCompile

/-- **C10_decompile_compile (rules)**.  For EVERY rule `head :- body` over every Go encoding of
    every argument (lists, partial lists over lists / strings, strings, nested compounds, repeated and
    singleton variables): `compile` yields exactly one clause per top-level disjunct of the body; the
    i-th one reads back as the source head and the goals of the i-th disjunct, in order, variable
    goals wrapped in call/1 and `!` as the cut instruction, over the SOURCE variables (same variable
    sharing); and each stores the source rule as its `raw` term. -/
theorem C10_decompile_compile_rule : RuleStatement := rule_statement

/-- **C10_decompile_compile (facts)** -/
theorem C10_decompile_compile_fact : FactStatement := fact_statement

/-- compilation fails (type_error(callable, Body)) exactly when some top-level body goal is a number
    or a stream — nothing else is rejected, nothing such is accepted -/
theorem C10_compile_errors : ErrorStatement := error_statement

/-- executable round-trip check of one clause term through the reader's encoding -/
def roundTrip (t : Term) : Bool :=
  let r := toRep t
  match compile r with
  | .error _ => false
  | .ok cs =>
    match r with
    | .compound ":-" (.cons head (.cons body .nil)) =>
      cs.map decompile == (altBodies body).map fun alt => some (Rep.abs head, (seqGoals alt).map goalTerm)
    | _ => cs.map decompile == [some (Rep.abs r, [])]

/-- **C10_bootstrap**: every clause of the REGENERATED bootstrap.pl (the control constructs `,`/2
    `;`/2 `->`/2, once/1, the comparison predicates, retractall/1, member/2, select/3, …) compiles to
    bytecode that denotes exactly that clause — checked by kernel evaluation on what bootstrap.pl
    says now -/
theorem C10_bootstrap :
    (Generated.bootstrapTerms.filter fun t =>
      match t with | .app ":-" (.cons _ .nil) => false | _ => true).all roundTrip = true := by
  decide +kernel

/-- the reader's encoding of an abstract term denotes that term -/
theorem C10_toRep_abs_examples :
    Rep.abs (toRep (Term.list [.atom "a", .var 1] (.var 2))) = Term.list [.atom "a", .var 1] (.var 2) ∧
    Rep.abs (toRep (.app "f" (.cons (Term.list [.int 1]) .nil))) = .app "f" (.cons (Term.list [.int 1]) .nil) := by
  decide +kernel

end PrologVerif.C10
